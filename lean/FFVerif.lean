import FFVerif.Core.Scalars
import FFVerif.Core.Mat
import FFVerif.Gen.Einsum
import FFVerif.Gen.Constants
import FFVerif.Gen.CacheSets
import FFVerif.Gen.Options
import FFVerif.Model.All
import FFVerif.Props.C01
