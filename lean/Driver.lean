/-
Line-protocol driver: runs the executable instance (IEEE doubles) of the model on harness input.
One request per line:  <component> <field> ... ; arrays are comma separated decimal UInt64 bit
patterns of doubles (complex arrays interleaved re,im), integers are plain decimals.
Answer: one line `ok <payload>` or `err <class>`.
Run as `lake env lean --run Driver.lean`.
-/
import FFVerif.Model.Numeric
import FFVerif.Model.All

open FFVerif FFVerif.Model FFVerif.Proto

def handle (line : String) : String :=
  match line.trimAscii.toString.splitOn " " with
  | ["foi", kind, thr, dt, nO, d, E, ev] =>
    let nO := nO.toNat!; let d := d.toNat!
    let r : Ten3 CF nO d d := firstOrderIntegral (maskKindOf kind) (parseFloats thr)[0]!
      (vecR (parseFloats E) 0 nO) (vecR (parseFloats ev) 0 d) (parseFloats dt)[0]!
    "ok " ++ showFloats (flatC3 r)
  | ["ff", which, nA, nK, nO, B] =>
    let nA := nA.toNat!; let nK := nK.toNat!; let nO := nO.toNat!
    let b : Ten3 CF nA nK nO := ten3C (parseFloats B) 0 nA nK nO
    if which == "fidelity" then "ok " ++ showFloats (flatC3 (filterFunctionFid b))
    else "ok " ++ showFloats (flatC5 (filterFunctionGen b))
  | ["cm", kind, thr, nG, d, nO, nA, nK, eigvals, eigvecs, props, omega, basis, nopers, ncoeffs,
      dt, t] =>
    let nG := nG.toNat!; let d := d.toNat!; let nO := nO.toNat!; let nA := nA.toNat!
    let nK := nK.toNat!
    let r : Ten3 CF nA nK nO := controlMatrixFromScratch (maskKindOf kind) (parseFloats thr)[0]!
      (matR (parseFloats eigvals) 0 nG d) (ten3C (parseFloats eigvecs) 0 nG d d)
      (ten3C (parseFloats props) 0 nG d d) (vecR (parseFloats omega) 0 nO)
      (ten3C (parseFloats basis) 0 nK d d) (ten3C (parseFloats nopers) 0 nA d d)
      (matR (parseFloats ncoeffs) 0 nA nG) (vecR (parseFloats dt) 0 nG) (vecR (parseFloats t) 0 nG)
    "ok " ++ showFloats (flatC3 r)
  | toks => handleMore toks

partial def loop (h : IO.FS.Stream) (out : IO.FS.Stream) : IO Unit := do
  let line ← h.getLine
  if line.isEmpty then return ()
  out.putStrLn (handle line)
  loop h out

def main : IO Unit := do
  let out ← IO.getStdout
  loop (← IO.getStdin) out
