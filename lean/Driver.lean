/-
Line-protocol driver: runs the executable instance (IEEE doubles) of the model on harness input.
One request per line:  <component> <field> ... ; arrays are comma separated decimal UInt64 bit
patterns of doubles (complex arrays interleaved re,im), integers are plain decimals.
Answer: one line `ok <payload>` or `err <class>`.
Run as `lake env lean --run Driver.lean`.
-/
import FFVerif.Model.Numeric
import FFVerif.Model.All

open FFVerif FFVerif.Model

def parseFloats (s : String) : Array Float :=
  if s == "-" || s.isEmpty then #[] else
  (s.splitOn ",").toArray.map fun t => Float.ofBits (t.toNat!).toUInt64

def showFloats (a : Array Float) : String :=
  ",".intercalate (a.toList.map fun x => toString x.toBits.toNat)

def showBools (a : Array Bool) : String :=
  String.ofList (a.toList.map fun b => if b then '1' else '0')

/-- real tensors from flat row-major data -/
def vecR (a : Array Float) (off n : Nat) : Vec Float n := Vector.ofFn fun i => a[off + i.1]!
def matR (a : Array Float) (off m n : Nat) : Mat Float m n :=
  Vector.ofFn fun i => vecR a (off + i.1 * n) n
def cAt (a : Array Float) (i : Nat) : CF := ⟨a[2*i]!, a[2*i+1]!⟩
def vecC (a : Array Float) (off n : Nat) : Vec CF n := Vector.ofFn fun i => cAt a (off + i.1)
def matC (a : Array Float) (off m n : Nat) : Mat CF m n :=
  Vector.ofFn fun i => vecC a (off + i.1 * n) n
def ten3C (a : Array Float) (off p m n : Nat) : Ten3 CF p m n :=
  Vector.ofFn fun i => matC a (off + i.1 * m * n) m n

def flatC1 {n} (v : Vec CF n) : Array Float := v.toArray.foldl (fun acc z => (acc.push z.re).push z.im) #[]
def flatC2 {m n} (v : Mat CF m n) : Array Float := v.toArray.foldl (fun acc r => acc ++ flatC1 r) #[]
def flatC3 {p m n} (v : Ten3 CF p m n) : Array Float := v.toArray.foldl (fun acc r => acc ++ flatC2 r) #[]
def flatC4 {q p m n} (v : Ten4 CF q p m n) : Array Float := v.toArray.foldl (fun acc r => acc ++ flatC3 r) #[]
def flatC5 {r q p m n} (v : Vector (Ten4 CF q p m n) r) : Array Float :=
  v.toArray.foldl (fun acc r => acc ++ flatC4 r) #[]

def maskKindOf (s : String) : MaskKind :=
  if s == "absGt" then .absGt else if s == "neZero" then .neZero else .absTimesDtGt

def handle (line : String) : String :=
  match line.trimAscii.toString.splitOn " " with
  | ["foi", kind, thr, dt, nO, d, E, ev] =>
    let nO := nO.toNat!; let d := d.toNat!
    let r : Ten3 CF nO d d := firstOrderIntegral (maskKindOf kind) (parseFloats thr)[0]!
      (vecR (parseFloats E) 0 nO) (vecR (parseFloats ev) 0 d) (parseFloats dt)[0]!
    "ok " ++ showFloats (flatC3 r)
  | ["ff", which, nA, nK, nO, B] =>
    let nA := nA.toNat!; let nK := nK.toNat!; let nO := nO.toNat!
    let b : Ten3 CF nA nK nO := ten3C (parseFloats B) 0 nA nK nO
    if which == "fidelity" then "ok " ++ showFloats (flatC3 (filterFunctionFid b))
    else "ok " ++ showFloats (flatC5 (filterFunctionGen b))
  | ["cm", kind, thr, nG, d, nO, nA, nK, eigvals, eigvecs, props, omega, basis, nopers, ncoeffs,
      dt, t] =>
    let nG := nG.toNat!; let d := d.toNat!; let nO := nO.toNat!; let nA := nA.toNat!
    let nK := nK.toNat!
    let r : Ten3 CF nA nK nO := controlMatrixFromScratch (maskKindOf kind) (parseFloats thr)[0]!
      (matR (parseFloats eigvals) 0 nG d) (ten3C (parseFloats eigvecs) 0 nG d d)
      (ten3C (parseFloats props) 0 nG d d) (vecR (parseFloats omega) 0 nO)
      (ten3C (parseFloats basis) 0 nK d d) (ten3C (parseFloats nopers) 0 nA d d)
      (matR (parseFloats ncoeffs) 0 nA nG) (vecR (parseFloats dt) 0 nG) (vecR (parseFloats t) 0 nG)
    "ok " ++ showFloats (flatC3 r)
  | toks => handleMore toks

partial def loop (h : IO.FS.Stream) (out : IO.FS.Stream) : IO Unit := do
  let line ← h.getLine
  if line.isEmpty then return ()
  out.putStrLn (handle line)
  loop h out

def main : IO Unit := do
  let out ← IO.getStdout
  loop (← IO.getStdin) out
