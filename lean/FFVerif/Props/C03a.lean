/-
C03a — Hamiltonian bookkeeping of concatenation (`_concatenate_Hamiltonian`,
`concatenate_without_filter_function`): the control and noise Hamiltonians of the concatenated
pulse are the inputs' Hamiltonians played one after another — operators matched by value,
clashing identifiers disambiguated, constant sensitivities extended to pulses lacking an operator.

Discrete model: `FFVerif/Model/Pulse.lean` (`concatHamiltonian`, `concatPulses`).
Vocabulary (`Lemmas/PulseConcatAux.lean`):
* `flatTagged pulses` : all terms tagged with the position of their pulse; `allOps pulses`;
* `NoOpClash pulses`  : no operator appears under two different identifiers;
* `NoIdClash pulses`  : no identifier names two different operators;
* `IdsUnique pulses`  : identifiers are unique within each pulse (class invariant);
* `Rect pulses`       : every coefficient row of a pulse has that pulse's number of segments;
* `VisitOk pulses visit` : the order in which the distinct operators are visited (`np.unique`
  lists them sorted by hash value) is a permutation of the distinct operators;
* `rawRow pulses u`   : the row of operator `u` before filling (`none` = `nan`), `present` its
  non-`nan` entries; `blockAt pulses p row` = `row[seg_idx[p] : seg_idx[p+1]]`;
  `segIdx_eq_segOffset`, `bisect_pulseIdx` connect these to the `accumulate`/`bisect` index
  arithmetic of the source;
* `newId flat u`      : identifier of `u` in the result (suffix `_p`, `p` the pulse position of the
  first occurrence of `u`, when its identifier is shared with another operator).
-/
import FFVerif.Lemmas.PulseConcatAux

namespace FFVerif.C03a
open FFVerif.Model.Pulse

variable (pulses : List (List Term)) (kind : Kind) (visit : List Nat → List Nat)

/-! ### errors -/

/-- Under the class invariant "every term has at least one coefficient" (pulses have at least one
segment) the only exception is `ValueError`. -/
theorem concat_error_is_valueError (hv : VisitOk pulses visit)
    (hseg : ∀ ts ∈ pulses, ∀ t ∈ ts, t.coeffs ≠ []) (e : String)
    (h : concatHamiltonian pulses kind visit = .error e) : e = "ValueError" := by
  rcases (concat_error_iff pulses kind visit hv e).mp h with ⟨_, rfl⟩ | ⟨_, hm⟩
  · rfl
  · obtain ⟨u, hu, hfu⟩ := mapM_error_mem _ _ _ hm
    rw [rowOf_error_iff] at hfu
    obtain ⟨_, _, ⟨_, hp⟩ | ⟨he, _⟩⟩ := fillRow_error _ _ _ hfu
    · exfalso
      obtain ⟨ts, hts, t, ht, hop⟩ := mem_allOps.mp ((mem_visit hv u).mp hu)
      have hblock : present (blockOf u ts) ≠ [] := by
        unfold blockOf
        cases hf : ts.find? (·.op == u) with
        | none =>
          have := (List.find?_eq_none.mp hf) t ht
          simp [hop] at this
        | some t' =>
          simp only [present_map_some]
          exact hseg ts hts t' (List.mem_of_find?_eq_some hf)
      obtain ⟨v, hv'⟩ := List.exists_mem_of_ne_nil _ hblock
      have : v ∈ present (rawRow pulses u) := mem_present_rawRow.mpr ⟨ts, hts, hv'⟩
      rw [hp] at this; cases this
    · exact he

/-- **When concatenation of Hamiltonians fails.**  `ValueError` is raised exactly when some
operator appears under two different identifiers, or (noise Hamiltonian only) some operator is
absent from a pulse (that has segments) while the coefficients it has in the pulses containing it
are not all equal.  Hypotheses: class invariants of the input pulses. -/
theorem concat_errors_iff (hv : VisitOk pulses visit) (hid : IdsUnique pulses)
    (hseg : ∀ ts ∈ pulses, ∀ t ∈ ts, t.coeffs ≠ []) :
    concatHamiltonian pulses kind visit = .error "ValueError" ↔
      (∃ ts ∈ pulses, ∃ t ∈ ts, ∃ ts' ∈ pulses, ∃ t' ∈ ts', t.op = t'.op ∧ t.id ≠ t'.id) ∨
      (kind = .noise ∧ ∃ u ∈ allOps pulses,
        (∃ ts ∈ pulses, 0 < segCount ts ∧ ∀ t ∈ ts, t.op ≠ u) ∧
        (∃ ts ∈ pulses, ∃ t ∈ ts, ∃ ts' ∈ pulses, ∃ t' ∈ ts', t.op = u ∧ t'.op = u ∧
          ∃ c ∈ t.coeffs, ∃ c' ∈ t'.coeffs, c ≠ c')) := by
  have hclash : (∃ ts ∈ pulses, ∃ t ∈ ts, ∃ ts' ∈ pulses, ∃ t' ∈ ts', t.op = t'.op ∧ t.id ≠ t'.id)
      ↔ ¬ NoOpClash pulses := by
    constructor
    · rintro ⟨ts, hts, t, ht, ts', hts', t', ht', hop, hne⟩ hno
      obtain ⟨p, hp, _⟩ := mem_flatTagged_of_mem hts ht
      obtain ⟨q, hq, _⟩ := mem_flatTagged_of_mem hts' ht'
      exact hne (hno p t q t' hp hq hop)
    · intro h
      unfold NoOpClash at h
      simp only [Classical.not_forall] at h
      obtain ⟨p, t, q, t', h1, h2, hop, hne⟩ := h
      obtain ⟨ts, hp, ht⟩ := mem_flatTagged.mp h1
      obtain ⟨ts', hq, ht'⟩ := mem_flatTagged.mp h2
      exact ⟨ts, List.mem_of_getElem? hp, t, ht, ts', List.mem_of_getElem? hq, t', ht', hop, hne⟩
  rw [hclash]
  by_cases hno : NoOpClash pulses
  · -- no operator clash: the error can only come from a noise row
    have hrow : ∀ u, (∃ v ∈ present (rawRow pulses u), ∃ w ∈ present (rawRow pulses u), v ≠ w) ↔
        (∃ ts ∈ pulses, ∃ t ∈ ts, ∃ ts' ∈ pulses, ∃ t' ∈ ts', t.op = u ∧ t'.op = u ∧
          ∃ c ∈ t.coeffs, ∃ c' ∈ t'.coeffs, c ≠ c') := by
      intro u
      constructor
      · rintro ⟨v, hv', w, hw, hne⟩
        obtain ⟨ts, hts, t, ht, hop, hc⟩ := (mem_present_iff hno hid).mp hv'
        obtain ⟨ts', hts', t', ht', hop', hc'⟩ := (mem_present_iff hno hid).mp hw
        exact ⟨ts, hts, t, ht, ts', hts', t', ht', hop, hop', v, hc, w, hc', hne⟩
      · rintro ⟨ts, hts, t, ht, ts', hts', t', ht', hop, hop', c, hc, c', hc', hne⟩
        exact ⟨c, (mem_present_iff hno hid).mpr ⟨ts, hts, t, ht, hop, hc⟩,
          c', (mem_present_iff hno hid).mpr ⟨ts', hts', t', ht', hop', hc'⟩, hne⟩
    constructor
    · intro h
      rcases (concat_error_iff pulses kind visit hv _).mp h with ⟨hc, _⟩ | ⟨_, hm⟩
      · exact absurd hno hc
      · obtain ⟨u, hu, hfu⟩ := mapM_error_mem _ _ _ hm
        rw [rowOf_error_iff] at hfu
        obtain ⟨hk, hany, ⟨he, _⟩ | ⟨_, hvw⟩⟩ := fillRow_error _ _ _ hfu
        · exact absurd he (by decide)
        · exact Or.inr ⟨hk, u, (mem_visit hv u).mp hu, absent_iff.mp hany, (hrow u).mp hvw⟩
    · rintro (hc | ⟨hk, u, hu, habs, hvw⟩)
      · exact absurd hno hc
      · subst hk
        cases hres : concatHamiltonian pulses .noise visit with
        | error e =>
          rw [concat_error_is_valueError pulses .noise visit hv hseg e hres]
        | ok HM =>
          exfalso
          obtain ⟨H, M⟩ := HM
          obtain ⟨_, _, hperm, hrows⟩ := concat_ok_rows pulses .noise visit hv H M hres
          have hmem : u ∈ H.map (·.op) := hperm.mem_iff.mpr (mem_dedup.mpr hu)
          obtain ⟨r, hr, rfl⟩ := List.mem_map.mp hmem
          obtain ⟨x, _, _, hx⟩ := fillRow_ok_spec _ _ _ (hrows r hr).2
          obtain ⟨v, hv', w, hw, hne⟩ := (hrow r.op).mpr hvw
          have hany := absent_iff.mpr habs
          exact hne ((hx rfl hany v hv').trans (hx rfl hany w hw).symm)
  · constructor
    · intro _; exact Or.inl hno
    · intro _
      exact (concat_error_iff pulses kind visit hv _).mpr (Or.inl ⟨hno, rfl⟩)

/-! ### properties of a successful concatenation -/

section Success
variable (H : List Term) (M : List (List (String × String)))

/-- the result is sorted by identifier -/
theorem concat_sorted (hv : VisitOk pulses visit)
    (h : concatHamiltonian pulses kind visit = .ok (H, M)) : SortedBy (·.id) H := by
  obtain ⟨_, _, rows, _, hH⟩ := (concat_ok_iff pulses kind visit hv H M).mp h
  rw [hH]; exact sortBy_sorted _ _

/-- one row per distinct operator of the inputs: the operators of the result are pairwise distinct
and are exactly the operators occurring in the inputs; on success no operator has two identifiers -/
theorem concat_ops_unique (hv : VisitOk pulses visit)
    (h : concatHamiltonian pulses kind visit = .ok (H, M)) :
    (H.map (·.op)).Nodup ∧ (∀ u, u ∈ H.map (·.op) ↔ u ∈ allOps pulses) ∧ NoOpClash pulses := by
  obtain ⟨hno, _, hperm, _⟩ := concat_ok_rows pulses kind visit hv H M h
  exact ⟨hperm.nodup_iff.mpr (nodup_dedup _), fun u => by rw [hperm.mem_iff, mem_dedup], hno⟩

/-- identifier of every row: `newId` of its operator -/
theorem concat_row_ids (hv : VisitOk pulses visit)
    (h : concatHamiltonian pulses kind visit = .ok (H, M)) :
    ∀ r ∈ H, r.id = newId (flatTagged pulses) r.op :=
  fun r hr => ((concat_ok_rows pulses kind visit hv H M h).2.2.2 r hr).1

/-- If no identifier names two different operators (no suffixing takes place) the identifiers of
the result are pairwise distinct and every operator keeps its identifier. -/
theorem concat_ids_unique (hv : VisitOk pulses visit) (hidc : NoIdClash pulses)
    (h : concatHamiltonian pulses kind visit = .ok (H, M)) :
    (H.map (·.id)).Nodup ∧
    ∀ ts ∈ pulses, ∀ t ∈ ts, ∃ r ∈ H, r.op = t.op ∧ r.id = t.id := by
  obtain ⟨hno, _, hperm, hrows⟩ := concat_ok_rows pulses kind visit hv H M h
  have hopn : (H.map (·.op)).Nodup := hperm.nodup_iff.mpr (nodup_dedup _)
  have hmem : ∀ r ∈ H, r.op ∈ allOps pulses := fun r hr =>
    mem_dedup.mp (hperm.mem_iff.mp (List.mem_map.mpr ⟨r, hr, rfl⟩))
  have hidr : ∀ r ∈ H, ∃ p t, (p, t) ∈ flatTagged pulses ∧ t.op = r.op ∧ t.id = r.id := by
    intro r hr
    obtain ⟨x, hx, hxop⟩ := List.mem_map.mp (hmem r hr)
    refine ⟨x.1, x.2, hx, hxop, ?_⟩
    rw [(hrows r hr).1, newId_of_noIdClash hidc, ← hxop]
    exact (idOfOp_eq hno (p := x.1) hx).symm
  constructor
  · -- identifiers determine operators, operators are distinct
    have : H.map (·.id) = (H.map (·.op)).map fun u => idOfOp (flatTagged pulses) u := by
      rw [List.map_map]
      apply List.map_congr_left
      intro r hr
      simp only [Function.comp]
      rw [(hrows r hr).1, newId_of_noIdClash hidc]
    rw [this]
    apply nodup_map_of_inj _ _ hopn
    intro a ha b hb hab
    obtain ⟨r, hr, rfl⟩ := List.mem_map.mp ha
    obtain ⟨r', hr', rfl⟩ := List.mem_map.mp hb
    obtain ⟨p, t, ht, hop, _⟩ := hidr r hr
    obtain ⟨q, t', ht', hop', _⟩ := hidr r' hr'
    rw [← hop, ← hop', idOfOp_eq hno ht, idOfOp_eq hno ht'] at hab
    rw [← hop, ← hop']
    exact hidc p t q t' ht ht' hab
  · intro ts hts t ht
    obtain ⟨p, hp, _⟩ := mem_flatTagged_of_mem hts ht
    have : t.op ∈ H.map (·.op) :=
      hperm.mem_iff.mpr (mem_dedup.mpr (List.mem_map.mpr ⟨(p, t), hp, rfl⟩))
    obtain ⟨r, hr, hop⟩ := List.mem_map.mp this
    refine ⟨r, hr, hop, ?_⟩
    rw [(hrows r hr).1, newId_of_noIdClash hidc, hop]
    exact idOfOp_eq hno hp

/-- **Identifiers of the result are pairwise distinct** provided no identifier of the inputs
coincides with a generated one (`NoSuffixCollision`: for every operator `u` whose identifier `s` is
shared with another operator, `s_p` — `p` the pulse position of `u`'s first occurrence — is not an
identifier of any input term).  Without that proviso the claim is false, see the example below. -/
theorem concat_ids_unique_general (hv : VisitOk pulses visit) (hid : IdsUnique pulses)
    (hcoll : NoSuffixCollision pulses) (h : concatHamiltonian pulses kind visit = .ok (H, M)) :
    (H.map (·.id)).Nodup := by
  obtain ⟨_, _, hperm, hrows⟩ := concat_ok_rows pulses kind visit hv H M h
  have hopn : (H.map (·.op)).Nodup := hperm.nodup_iff.mpr (nodup_dedup _)
  have : H.map (·.id) = (H.map (·.op)).map fun u => newId (flatTagged pulses) u := by
    rw [List.map_map]
    apply List.map_congr_left
    intro r hr
    exact (hrows r hr).1
  rw [this]
  apply nodup_map_of_inj _ _ hopn
  intro a ha b hb hab
  exact newId_injOn hid hcoll (mem_dedup.mp (hperm.mem_iff.mp ha)) (mem_dedup.mp (hperm.mem_iff.mp hb)) hab

/-- the proviso holds for the three-pulse example at the end of this file, and fails for the
defect example below -/
example : NoSuffixCollision [[⟨1, "A", [1, 2]⟩], [⟨2, "A", [3]⟩], [⟨1, "A", [4, 5]⟩]] ∧
    ¬ NoSuffixCollision [[⟨1, "A", [1]⟩, ⟨2, "A_1", [1]⟩], [⟨3, "A", [2]⟩]] := by
  unfold NoSuffixCollision; decide

/-- **Defect (confirmed on the Python side).**  When suffixing takes place the new identifier can
collide with an identifier that is already in use: `[X as "A", Y as "A_1"]` followed by
`[Z as "A"]` yields the identifiers `A_0, A_1, A_1` — `Y` and `Z` share `A_1`. -/
example : concatHamiltonian [[⟨1, "A", [1]⟩, ⟨2, "A_1", [1]⟩], [⟨3, "A", [2]⟩]] .control
    = .ok ([⟨1, "A_0", [1, 0]⟩, ⟨2, "A_1", [1, 0]⟩, ⟨3, "A_1", [0, 2]⟩],
           [[("A", "A_0"), ("A_1", "A_1")], [("A", "A_1")]]) := by decide

/-- every row has one entry per segment of the concatenation -/
theorem concat_row_length (hv : VisitOk pulses visit)
    (h : concatHamiltonian pulses kind visit = .ok (H, M)) :
    ∀ r ∈ H, r.coeffs.length = (rawRow pulses r.op).length := by
  intro r hr
  obtain ⟨x, hx, _⟩ := fillRow_ok_spec _ _ _ ((concat_ok_rows pulses kind visit hv H M h).2.2.2 r hr).2
  rw [hx, List.length_map]

/-- **Coefficients are placed in the right segment block, identifiers are mapped correctly.**
For every pulse position `p` and every term `(op, id, c)` of pulse `p` the result has a row for
`op` whose block `p` is exactly `c`; the identifier mapping of pulse `p` sends `id` to that row's
identifier, and to nothing else. -/
theorem concat_places_coeffs (hv : VisitOk pulses visit) (hid : IdsUnique pulses)
    (hrect : Rect pulses) (h : concatHamiltonian pulses kind visit = .ok (H, M))
    (p : Nat) (hp : p < pulses.length) (t : Term) (ht : t ∈ pulses[p]) :
    ∃ r ∈ H, r.op = t.op ∧ blockAt pulses p r.coeffs = t.coeffs ∧
      (t.id, r.id) ∈ M.getD p [] ∧ ∀ s, (t.id, s) ∈ M.getD p [] → s = r.id := by
  obtain ⟨hno, hM, hperm, hrows⟩ := concat_ok_rows pulses kind visit hv H M h
  have hflat : (p, t) ∈ flatTagged pulses :=
    mem_flatTagged.mpr ⟨_, List.getElem?_eq_getElem hp, ht⟩
  have : t.op ∈ H.map (·.op) :=
    hperm.mem_iff.mpr (mem_dedup.mpr (List.mem_map.mpr ⟨(p, t), hflat, rfl⟩))
  obtain ⟨r, hr, hop⟩ := List.mem_map.mp this
  obtain ⟨x, hx, _⟩ := fillRow_ok_spec _ _ _ (hrows r hr).2
  have hMp : M.getD p [] = pulses[p].map fun t => (t.id, newId (flatTagged pulses) t.op) := by
    rw [hM]; simp [mappingOf, List.getD, List.getElem?_eq_getElem hp]
  refine ⟨r, hr, hop, ?_, ?_, ?_⟩
  · rw [hx, blockAt_filled hrect _ _ p hp, hop,
      blockOf_present hno hid (List.getElem?_eq_getElem hp) ht, List.map_map]
    have : ((fun o : Option Int => o.getD x) ∘ some) = id := by funext a; rfl
    rw [this, List.map_id]
  · rw [hMp, (hrows r hr).1, hop]
    exact List.mem_map.mpr ⟨t, ht, rfl⟩
  · intro s hs
    rw [hMp] at hs
    obtain ⟨t', ht', heq⟩ := List.mem_map.mp hs
    simp only [Prod.mk.injEq] at heq
    have : t' = t := inj_of_nodup_map (hid _ (List.getElem_mem hp)) ht' ht heq.1
    rw [← heq.2, this, (hrows r hr).1, hop]

/-- the identifier mapping has one dictionary per pulse with exactly the pulse's identifiers as
keys (in the pulse's order) -/
theorem concat_mapping_keys (hv : VisitOk pulses visit)
    (h : concatHamiltonian pulses kind visit = .ok (H, M)) :
    M.map (fun d => d.map (·.1)) = pulses.map fun ts => ts.map (·.id) := by
  obtain ⟨_, hM, _, _⟩ := concat_ok_rows pulses kind visit hv H M h
  rw [hM]
  simp [mappingOf, List.map_map, Function.comp_def]

/-- **Control operators are switched off where they are absent**: zero coefficients on the segments
of a pulse that does not contain the operator. -/
theorem concat_absent_control_zero (hv : VisitOk pulses visit) (hrect : Rect pulses)
    (h : concatHamiltonian pulses .control visit = .ok (H, M))
    (p : Nat) (hp : p < pulses.length) (r : Term) (hr : r ∈ H)
    (habs : ∀ t ∈ pulses[p], t.op ≠ r.op) :
    blockAt pulses p r.coeffs = List.replicate (segCount pulses[p]) 0 := by
  obtain ⟨_, _, _, hrows⟩ := concat_ok_rows pulses .control visit hv H M h
  obtain ⟨x, hx, hx0, _⟩ := fillRow_ok_spec _ _ _ (hrows r hr).2
  rw [hx, blockAt_filled hrect _ _ p hp, blockOf_absent habs, hx0 rfl]
  simp

/-- **Constant noise sensitivities are extended** to the segments of a pulse (with at least one
segment) lacking the operator: the block is filled with the single value `x` that all coefficients
of that operator have in the pulses containing it. -/
theorem concat_absent_noise_constant (hv : VisitOk pulses visit) (hid : IdsUnique pulses)
    (hrect : Rect pulses) (h : concatHamiltonian pulses .noise visit = .ok (H, M))
    (p : Nat) (hp : p < pulses.length) (hpos : 0 < segCount pulses[p]) (r : Term) (hr : r ∈ H)
    (habs : ∀ t ∈ pulses[p], t.op ≠ r.op) :
    ∃ x, blockAt pulses p r.coeffs = List.replicate (segCount pulses[p]) x ∧
      (∀ ts ∈ pulses, ∀ t ∈ ts, t.op = r.op → ∀ c ∈ t.coeffs, c = x) ∧
      r.coeffs = List.replicate r.coeffs.length x := by
  obtain ⟨hno, _, _, hrows⟩ := concat_ok_rows pulses .noise visit hv H M h
  obtain ⟨x, hx, _, hxn⟩ := fillRow_ok_spec _ _ _ (hrows r hr).2
  have hany : (rawRow pulses r.op).any (·.isNone) = true :=
    absent_iff.mpr ⟨_, List.getElem_mem hp, hpos, habs⟩
  have hall := hxn rfl hany
  refine ⟨x, ?_, ?_, ?_⟩
  · rw [hx, blockAt_filled hrect _ _ p hp, blockOf_absent habs]
    simp
  · intro ts hts t ht hop c hc
    exact hall c ((mem_present_iff hno hid).mpr ⟨ts, hts, t, ht, hop, hc⟩)
  · rw [List.eq_replicate_iff]
    refine ⟨rfl, ?_⟩
    intro c hc
    rw [hx] at hc
    obtain ⟨o, ho, rfl⟩ := List.mem_map.mp hc
    cases o with
    | none => rfl
    | some v =>
      simp only [Option.getD_some]
      apply hall
      unfold present
      exact List.mem_filterMap.mpr ⟨some v, ho, rfl⟩

/-- **The order in which `np.unique` lists the distinct operators is irrelevant** whenever the
identifiers of the result are pairwise distinct: any visiting order gives the result of the
first-occurrence order. -/
theorem concat_order_of_unique_irrelevant (hv : VisitOk pulses visit)
    (h : concatHamiltonian pulses kind id = .ok (H, M)) (hn : (H.map (·.id)).Nodup) :
    concatHamiltonian pulses kind visit = .ok (H, M) := by
  obtain ⟨hno, hM, rows, hrows, hH⟩ := (concat_ok_iff pulses kind id (visitOk_id pulses) H M).mp h
  -- every row is computable, in any order
  have hall : ∀ u ∈ dedup (allOps pulses), ∃ y, rowOf pulses (flatTagged pulses) kind u = .ok y :=
    (mapM_isOk_iff _ _).mp ⟨rows, (mapM_ok_iff _ _ rows).mpr hrows⟩
  obtain ⟨rows', hrows'⟩ := (mapM_isOk_iff (rowOf pulses (flatTagged pulses) kind)
    (visit (dedup (allOps pulses)))).mpr (fun u hu => hall u (hv.mem_iff.mp hu))
  rw [mapM_ok_iff] at hrows'
  rw [concat_ok_iff pulses kind visit hv]
  refine ⟨hno, hM, rows', hrows', ?_⟩
  -- both row lists are images of the operator lists under the same function
  let g : Nat → Term := fun u =>
    match rowOf pulses (flatTagged pulses) kind u with
    | .ok r => r
    | .error _ => default
  have hg : ∀ (l : List Nat) (ys : List Term),
      l.map (rowOf pulses (flatTagged pulses) kind) = ys.map .ok → ys = l.map g := by
    intro l
    induction l with
    | nil => intro ys hy; cases ys with
      | nil => rfl
      | cons _ _ => simp at hy
    | cons a l ih => intro ys hy; cases ys with
      | nil => simp at hy
      | cons y ys =>
        simp only [List.map_cons, List.cons.injEq] at hy
        rw [ih ys hy.2]
        simp only [List.map_cons, List.cons.injEq, and_true]
        show y = g a
        simp only [g, hy.1]
  have e1 : rows = (dedup (allOps pulses)).map g := hg _ _ hrows
  have e2 := hg _ _ hrows'
  rw [hH, e1, e2]
  apply sortBy_eq_of_perm
  · exact (hv.map g).symm
  · have := ((sortBy_perm (·.id) rows).map (·.id)).nodup_iff.mp (by rw [← hH]; exact hn)
    rw [← e1]; exact this

end Success

/-! ### durations and whole pulses -/

/-- the durations of the concatenated pulse are the inputs' durations one after another; the
Hamiltonians are those computed by `_concatenate_Hamiltonian`; the basis is the common basis -/
theorem concat_dt_is_append (ps : List PulseData) (q : PulseData)
    (cm nm : List (List (String × String)))
    (h : concatPulses ps visit = .ok (q, cm, nm)) :
    q.dt = ps.flatMap (·.dt) ∧
    concatHamiltonian (ps.map (·.cTerms)) .control visit = .ok (q.cTerms, cm) ∧
    concatHamiltonian (ps.map (·.nTerms)) .noise visit = .ok (q.nTerms, nm) ∧
    ∀ p ∈ ps, p.basis = q.basis := by
  unfold concatPulses at h
  cases ps with
  | nil => cases h
  | cons p0 ps' =>
    generalize hc : concatHamiltonian ((p0 :: ps').map (·.cTerms)) .control visit = rc at h ⊢
    generalize hn : concatHamiltonian ((p0 :: ps').map (·.nTerms)) .noise visit = rn at h ⊢
    simp only at h
    split at h
    · cases h
    · rename_i hb
      cases rc with
      | error e => simp [bind, Except.bind] at h
      | ok c =>
        cases rn with
        | error e => simp [bind, Except.bind] at h
        | ok n =>
          obtain ⟨c1, c2⟩ := c
          obtain ⟨n1, n2⟩ := n
          simp only [bind, Except.bind, pure, Except.pure, Except.ok.injEq, Prod.mk.injEq] at h
          obtain ⟨rfl, rfl, rfl⟩ := h
          refine ⟨rfl, rfl, rfl, ?_⟩
          intro p hp
          cases hall : ((p0 :: ps').all fun x => x.basis == p0.basis) with
          | false => simp [hall] at hb
          | true =>
            have := List.all_eq_true.mp hall p hp
            simpa using this

/-- pulses with different bases cannot be concatenated -/
theorem concat_basis_mismatch (ps : List PulseData) (p p' : PulseData) (hp : p ∈ ps) (hp' : p' ∈ ps)
    (hb : p.basis ≠ p'.basis) : concatPulses ps visit = .error "ValueError" := by
  unfold concatPulses
  cases ps with
  | nil => rfl
  | cons p0 ps' =>
    simp only
    rw [if_pos]
    · rfl
    · simp only [Bool.not_eq_true', List.all_eq_false, beq_iff_eq]
      by_cases h : p.basis = p0.basis
      · exact ⟨p', hp', fun h' => hb (h.trans h'.symm)⟩
      · exact ⟨p, hp, h⟩

/-! ### the three-pulse example of finding F7 -/

/-- Three pulses `[X as "A", Y as "A", X as "A"]` sharing a noise operator: identifiers `A_0`,
`A_1`, and all three identifier mappings are correct (the third pulse, whose operator `X` first
occurred in pulse 0, is mapped to `A_0` as well). -/
example :
    concatPulses
      [⟨[⟨1, "A", [1, 2]⟩], [⟨9, "N", [5, 5]⟩], [1, 1], 0⟩,
       ⟨[⟨2, "A", [3]⟩], [⟨9, "N", [5]⟩], [2], 0⟩,
       ⟨[⟨1, "A", [4, 5]⟩], [⟨9, "N", [5, 5]⟩], [3, 3], 0⟩]
    = .ok (⟨[⟨1, "A_0", [1, 2, 0, 4, 5]⟩, ⟨2, "A_1", [0, 0, 3, 0, 0]⟩],
            [⟨9, "N", [5, 5, 5, 5, 5]⟩], [1, 1, 2, 3, 3], 0⟩,
           [[("A", "A_0")], [("A", "A_1")], [("A", "A_0")]],
           [[("N", "N")], [("N", "N")], [("N", "N")]]) := by decide

/-- a noise operator missing in the middle pulse: its constant sensitivity is extended; a
non-constant one is refused -/
example : concatHamiltonian [[⟨9, "N", [5, 5]⟩], [⟨8, "M", [1]⟩], [⟨9, "N", [5]⟩]] .noise
    = .ok ([⟨8, "M", [1, 1, 1, 1]⟩, ⟨9, "N", [5, 5, 5, 5]⟩],
           [[("N", "N")], [("M", "M")], [("N", "N")]]) := by decide

example : concatHamiltonian [[⟨9, "N", [5, 6]⟩], [⟨8, "M", [1]⟩]] .noise = .error "ValueError" := by
  decide

/-- the hypotheses used above hold for the inputs of the first example -/
example :
    let pulses : List (List Term) := [[⟨1, "A", [1, 2]⟩], [⟨2, "A", [3]⟩], [⟨1, "A", [4, 5]⟩]]
    IdsUnique pulses ∧ Rect pulses ∧ ∀ ts ∈ pulses, ∀ t ∈ ts, t.coeffs ≠ [] := by
  refine ⟨?_, ?_, ?_⟩ <;> simp [IdsUnique, Rect, segCount]

end FFVerif.C03a
