/-
C17 — Pulse construction, equality and slicing mean what they say.

Discrete model: `FFVerif/Model/Pulse.lean` (operators are opaque ids, coefficients and durations
integers compared exactly, identifiers strings ordered by code point like NumPy unicode arrays).
Vocabulary (`Lemmas/PulseAux.lean`): `WF p` (every coefficient row has one entry per segment),
`segVals p` (per segment: all control and all noise coefficients), `unrollPulse p` (unit-step
unrolling of the piecewise constant coefficient functions: a segment of duration `n` contributes
`n` samples), `merged p` (the pulse described by the output of `_join_equal_segments`),
`sortedP p` (operators sorted by identifier), `opIds` (the `(operator, identifier)` pairs).

What is NOT expressible here: "deep copies share no mutable state" (values of the model are
immutable; `deepcopy` is the identity on values) — checked on the Python side.
-/
import FFVerif.Lemmas.PulseConcatAux

namespace FFVerif.C17
open FFVerif.Model.Pulse

/-! ### construction (`_parse_Hamiltonian`) -/

/-- The stored Hamiltonian is sorted by identifier (all inputs). -/
theorem parse_sorted (terms : List (Nat × Option String × List Int)) (pre : String) :
    SortedBy (·.id) (parseHamiltonian terms pre) :=
  sortBy_sorted _ _

/-- Every listed term is stored with its own operator, its own coefficients and its identifier
(`idFor`: the given one, or the default `pre_i` of its listing position `i`); the stored list
is a permutation of the listed terms — nothing is dropped, duplicated or mixed up.  All inputs. -/
theorem parse_keeps_association (terms : List (Nat × Option String × List Int)) (pre : String) :
    (parseHamiltonian terms pre).Perm (fillIdentifiers terms pre) ∧
    (fillIdentifiers terms pre).length = terms.length ∧
    ∀ (i : Nat) (h : i < terms.length),
      (fillIdentifiers terms pre)[i]? =
        some ⟨terms[i].1, idFor pre i terms[i].2.1, terms[i].2.2⟩ ∧
      (⟨terms[i].1, idFor pre i terms[i].2.1, terms[i].2.2⟩ : Term)
        ∈ parseHamiltonian terms pre := by
  refine ⟨sortBy_perm _ _, length_fillIdentifiers _ _, ?_⟩
  intro i h
  have hg : (fillIdentifiers terms pre)[i]? =
      some ⟨terms[i].1, idFor pre i terms[i].2.1, terms[i].2.2⟩ := by
    rw [fillIdentifiers_getElem?, List.getElem?_eq_getElem h]; rfl
  exact ⟨hg, (mem_sortBy _).mpr (List.mem_of_getElem? hg)⟩

/-- A term listed with an explicit identifier `s` is stored under `s`. -/
theorem parse_given_identifier (terms : List (Nat × Option String × List Int)) (pre : String)
    (i : Nat) (h : i < terms.length) (s : String) (hs : terms[i].2.1 = some s) :
    (⟨terms[i].1, s, terms[i].2.2⟩ : Term) ∈ parseHamiltonian terms pre := by
  have := ((parse_keeps_association terms pre).2.2 i h).2
  simpa [idFor, hs] using this

/-- Default identifiers: a term listed without identifier at position `i` is stored under `pre_i`
(all inputs, any number of operators, any prefix). -/
theorem parse_default_identifier (terms : List (Nat × Option String × List Int)) (pre : String)
    (i : Nat) (h : i < terms.length) (hnone : terms[i].2.1 = none) :
    (⟨terms[i].1, defaultId pre i, terms[i].2.2⟩ : Term) ∈ parseHamiltonian terms pre := by
  have := ((parse_keeps_association terms pre).2.2 i h).2
  simpa [idFor, hnone] using this

/-- The order in which the terms are listed is irrelevant when every term carries an explicit
identifier and the identifiers are pairwise distinct (the latter is enforced by the constructor,
`ValueError` otherwise). -/
theorem parse_order_irrelevant (t₁ t₂ : List (Nat × Option String × List Int)) (pre : String)
    (hperm : t₁.Perm t₂) (hsome : ∀ t ∈ t₁, t.2.1.isSome)
    (huniq : (t₁.map fun t => t.2.1).Nodup) :
    parseHamiltonian t₁ pre = parseHamiltonian t₂ pre := by
  unfold parseHamiltonian
  rw [fillIdentifiers_all_some t₁ pre hsome,
    fillIdentifiers_all_some t₂ pre (fun t ht => hsome t (hperm.mem_iff.mpr ht))]
  apply sortBy_eq_of_perm _ (hperm.map _)
  rw [List.map_map]
  have : (t₁.map ((·.id) ∘ fun t : Nat × Option String × List Int =>
      (⟨t.1, t.2.1.getD "", t.2.2⟩ : Term))) = (t₁.map fun t => t.2.1).map (·.getD "") := by
    rw [List.map_map]; rfl
  rw [this]
  apply nodup_map_of_inj _ _ huniq
  intro a ha b hb hab
  obtain ⟨x, hx, rfl⟩ := List.mem_map.mp ha
  obtain ⟨y, hy, rfl⟩ := List.mem_map.mp hb
  have h1 := hsome x hx
  have h2 := hsome y hy
  cases hx' : x.2.1 <;> cases hy' : y.2.1 <;> simp_all

example : parseHamiltonian [(1, some "b", [1, 2]), (2, some "a", [3, 4])] "A"
    = parseHamiltonian [(2, some "a", [3, 4]), (1, some "b", [1, 2])] "A" := by decide

/-- Default identifiers are deterministic and pairwise distinct for EVERY number of operators and
every prefix (decimal representation of naturals is injective): when no identifier is given, the
stored identifiers are exactly `pre_0 … pre_{n-1}`, without repetition. -/
theorem default_identifiers_distinct (terms : List (Nat × Option String × List Int)) (pre : String)
    (hnone : ∀ t ∈ terms, t.2.1 = none) :
    (fillIdentifiers terms pre).map (·.id) = (List.range terms.length).map (defaultId pre) ∧
    ((parseHamiltonian terms pre).map (·.id)).Nodup := by
  have hids : (fillIdentifiers terms pre).map (·.id) = (List.range terms.length).map (defaultId pre) := by
    apply List.ext_getElem?
    intro i
    rw [List.getElem?_map, fillIdentifiers_getElem?, List.getElem?_map]
    by_cases hi : i < terms.length
    · simp [idFor, hnone _ (List.getElem_mem hi), hi]
    · simp [hi]
  refine ⟨hids, ?_⟩
  have hperm := (sortBy_perm (·.id) (fillIdentifiers terms pre)).map (·.id)
  rw [show parseHamiltonian terms pre = sortBy (·.id) (fillIdentifiers terms pre) from rfl,
    hperm.nodup_iff, hids]
  exact nodup_map_of_inj _ _ List.nodup_range (fun a _ b _ h => defaultId_inj pre a b h)

set_option maxRecDepth 100000 in
/-- 101 default-named operators get 101 different identifiers; operators 10 and 100 are stored as
`A_10` and `A_100` (finding F19 — truncation by a `'<U4'` dtype — is repaired in the source). -/
example :
    let ids := ((parseHamiltonian ((List.range 101).map fun i => (i, none, [])) "A").map (·.id))
    ids.length = 101 ∧ hasDup ids = false ∧ defaultId "A" 10 = "A_10" ∧ defaultId "A" 100 = "A_100" := by
  decide

/-- From 11 default-named operators on, the STORED order is not the listing order
(`"A_10" < "A_2"` lexicographically); every operator still carries its own coefficients. -/
example : parseHamiltonian ((List.range 11).map fun i => (i + 1, none, [(i : Int)])) "A"
    = [⟨1, "A_0", [0]⟩, ⟨2, "A_1", [1]⟩, ⟨11, "A_10", [10]⟩, ⟨3, "A_2", [2]⟩, ⟨4, "A_3", [3]⟩,
       ⟨5, "A_4", [4]⟩, ⟨6, "A_5", [5]⟩, ⟨7, "A_6", [6]⟩, ⟨8, "A_7", [7]⟩, ⟨9, "A_8", [8]⟩,
       ⟨10, "A_9", [9]⟩] := by decide

/-! ### `_join_equal_segments` -/

/-- **Joining equal segments** (well-formed pulse, durations `≥ 0`): in the joined description no
two consecutive segments agree on all control and noise coefficients, the total duration is
preserved, every row keeps one entry per segment, and the joined description represents the same
piecewise constant functions (equal unit-step unrolling). -/
theorem join_spec (p : PulseData) (hwf : WF p) (hd : ∀ d ∈ p.dt, 0 ≤ d) :
    (∀ k, k + 1 < (merged p).dt.length → segVal (merged p) k ≠ segVal (merged p) (k + 1)) ∧
    (merged p).dt.sum = p.dt.sum ∧
    WF (merged p) ∧
    unrollPulse (merged p) = unrollPulse p ∧
    (∀ d ∈ (merged p).dt, 0 ≤ d) := by
  refine ⟨?_, sum_dt_merged p hwf, wf_merged p hwf, unrollPulse_merged p hwf hd,
    nonneg_dt_merged p hwf hd⟩
  intro k hk
  have h := noAdjEq_getElem _ (noAdjEq_segVals_merged p hwf) k (by rw [length_segVals]; exact hk)
  simpa [segVals] using h

/-- `merged p` is literally the output of the model of `_join_equal_segments`. -/
theorem join_output (p : PulseData) :
    (merged p).cTerms.map (·.coeffs) = (joinEqualSegments p).1 ∧
    (merged p).nTerms.map (·.coeffs) = (joinEqualSegments p).2.1 ∧
    (merged p).dt = (joinEqualSegments p).2.2 := by
  have key : ∀ (ts : List Term) (rows : List (List Int)), rows.length = ts.length →
      (setRows ts rows).map (·.coeffs) = rows := by
    intro ts
    induction ts with
    | nil => intro rows h; simp [setRows, List.eq_nil_of_length_eq_zero h]
    | cons t ts ih =>
      intro rows h
      cases rows with
      | nil => simp at h
      | cons r rows =>
        have := ih rows (by simpa using h)
        simp only [setRows, List.zipWith_cons_cons, List.map_cons, List.cons.injEq] at *
        exact ⟨trivial, this⟩
  exact ⟨key _ _ (length_join_fst p), key _ _ (length_join_snd p), rfl⟩

/-- Positive durations stay positive. -/
theorem join_pos (p : PulseData) (hwf : WF p) (hd : ∀ d ∈ p.dt, 0 < d) :
    ∀ d ∈ (merged p).dt, 0 < d := pos_dt_merged p hwf hd

example : joinEqualSegments ⟨[⟨1, "A", [1, 1, 2, 2, 2, 3]⟩], [⟨2, "B", [1, 1, 1, 1, 1, 1]⟩],
    [1, 2, 3, 4, 5, 6], 0⟩ = ([[1, 2, 3]], [[1, 1, 1]], [3, 12, 6]) := by decide

/-! ### `__eq__` (durations compared exactly instead of `np.allclose`) -/

/-- `__eq__` compares canonical forms (merged, identifier-sorted); all inputs. -/
theorem eq_iff_canon (A B : PulseData) : pulseEq A B = true ↔ canon A = canon B :=
  pulseEq_iff_canon A B

/-- reflexive (all inputs) -/
theorem eq_refl (A : PulseData) : pulseEq A A = true := (pulseEq_iff_canon A A).mpr rfl

/-- symmetric (all inputs) -/
theorem eq_symm (A B : PulseData) : pulseEq A B = pulseEq B A := by
  rw [Bool.eq_iff_iff, pulseEq_iff_canon, pulseEq_iff_canon]
  exact eq_comm

/-- transitive (all inputs; with exact comparison of the durations — the `np.allclose` of the
source is not transitive) -/
theorem eq_trans (A B C : PulseData) (h₁ : pulseEq A B = true) (h₂ : pulseEq B C = true) :
    pulseEq A C = true := by
  rw [pulseEq_iff_canon] at *
  exact h₁.trans h₂

/-- A deep copy compares equal to the original. -/
theorem deepcopy_eq (A : PulseData) : pulseEq (deepcopy A) A = true := eq_refl A

/-- **Equality = same Hamiltonians.**  For well-formed pulses whose durations are all positive,
`A == B` holds exactly when the bases agree, the identifier-sorted lists of (operator, identifier)
agree, and the identifier-sorted coefficient tables describe the same piecewise constant functions
(equal unit-step unrolling; merged or split segments do not matter). -/
theorem eq_iff_same_function (A B : PulseData) (hA : WF A) (hB : WF B)
    (pA : ∀ d ∈ A.dt, 0 < d) (pB : ∀ d ∈ B.dt, 0 < d) :
    pulseEq A B = true ↔
      A.basis = B.basis ∧
      opIds (sortBy (·.id) A.cTerms) = opIds (sortBy (·.id) B.cTerms) ∧
      opIds (sortBy (·.id) A.nTerms) = opIds (sortBy (·.id) B.nTerms) ∧
      unrollPulse (sortedP A) = unrollPulse (sortedP B) := by
  rw [pulseEq_iff_canon, canon_eq A hA, canon_eq B hB]
  exact merged_eq_iff (sortedP A) (sortedP B) (wf_sortedP A hA) (wf_sortedP B hB) pA pB

/-- With zero-length segments allowed (durations `≥ 0`, which the constructor accepts) equal
pulses still describe the same functions … -/
theorem eq_implies_same_function (A B : PulseData) (hA : WF A) (hB : WF B)
    (pA : ∀ d ∈ A.dt, 0 ≤ d) (pB : ∀ d ∈ B.dt, 0 ≤ d) (h : pulseEq A B = true) :
    A.basis = B.basis ∧
    opIds (sortBy (·.id) A.cTerms) = opIds (sortBy (·.id) B.cTerms) ∧
    opIds (sortBy (·.id) A.nTerms) = opIds (sortBy (·.id) B.nTerms) ∧
    unrollPulse (sortedP A) = unrollPulse (sortedP B) := by
  rw [pulseEq_iff_canon, canon_eq A hA, canon_eq B hB] at h
  have wA := wf_sortedP A hA
  have wB := wf_sortedP B hB
  refine ⟨?_, ?_, ?_, ?_⟩
  · have : (merged (sortedP A)).basis = (merged (sortedP B)).basis := by rw [h]
    exact this
  · have : opIds (merged (sortedP A)).cTerms = opIds (merged (sortedP B)).cTerms := by rw [h]
    rw [(opIds_merged _ wA).1, (opIds_merged _ wB).1] at this
    exact this
  · have : opIds (merged (sortedP A)).nTerms = opIds (merged (sortedP B)).nTerms := by rw [h]
    rw [(opIds_merged _ wA).2, (opIds_merged _ wB).2] at this
    exact this
  · rw [← unrollPulse_merged _ wA pA, ← unrollPulse_merged _ wB pB, h]

/-- … but NOT conversely: a zero-length segment with different coefficients is not merged away.
`[1,2,1]` with durations `[1,0,1]` and `[1]` with duration `[2]` describe the same function (a.e.)
and compare unequal (confirmed on the Python side: `A == B` is `False`). -/
example :
    let A : PulseData := ⟨[⟨1, "A", [1, 2, 1]⟩], [⟨2, "B", [1, 1, 1]⟩], [1, 0, 1], 0⟩
    let B : PulseData := ⟨[⟨1, "A", [1]⟩], [⟨2, "B", [1]⟩], [2], 0⟩
    unrollPulse A = unrollPulse B ∧ pulseEq A B = false := by decide

/-- A zero-length segment that repeats its neighbour IS merged away (`[1,1]`, durations `[2,0]`). -/
example : pulseEq ⟨[⟨1, "A", [1, 1]⟩], [⟨2, "B", [1, 1]⟩], [2, 0], 0⟩
    ⟨[⟨1, "A", [1]⟩], [⟨2, "B", [1]⟩], [2], 0⟩ = true := by decide

/-- A coefficient that differs only on a zero-length segment can go unnoticed: `[1,1,2]` and
`[1,2,2]` with durations `[1,0,1]` compare equal. -/
example : pulseEq ⟨[⟨1, "A", [1, 1, 2]⟩], [⟨2, "B", [1, 1, 1]⟩], [1, 0, 1], 0⟩
    ⟨[⟨1, "A", [1, 2, 2]⟩], [⟨2, "B", [1, 1, 1]⟩], [1, 0, 1], 0⟩ = true := by decide

/-! #### single differences are detected -/

/-- different number of control or noise operators ⇒ unequal (all inputs) -/
theorem eq_detects_operator_count (A B : PulseData)
    (h : A.cTerms.length ≠ B.cTerms.length ∨ A.nTerms.length ≠ B.nTerms.length) :
    pulseEq A B = false := by
  rw [Bool.eq_false_iff]
  intro he
  rw [pulseEq_iff_canon] at he
  rcases h with h | h
  · apply h; rw [← length_canon_cTerms A, ← length_canon_cTerms B, he]
  · apply h; rw [← length_canon_nTerms A, ← length_canon_nTerms B, he]

/-- different bases ⇒ unequal (all inputs) -/
theorem eq_detects_basis (A B : PulseData) (h : A.basis ≠ B.basis) : pulseEq A B = false := by
  rw [Bool.eq_false_iff]
  intro he
  rw [pulseEq_iff_canon] at he
  have : (canon A).basis = (canon B).basis := by rw [he]
  exact h this

/-- one operator or one identifier differs (the other `(operator, identifier)` pairs being the
same, coefficients and durations arbitrary) ⇒ unequal (all inputs) -/
theorem eq_detects_operator_or_identifier (A B : PulseData) (k₁ k₂ : List (Nat × String))
    (a b : Nat × String) (hab : a ≠ b)
    (h : (opIds A.cTerms = k₁ ++ a :: k₂ ∧ opIds B.cTerms = k₁ ++ b :: k₂) ∨
         (opIds A.nTerms = k₁ ++ a :: k₂ ∧ opIds B.nTerms = k₁ ++ b :: k₂)) :
    pulseEq A B = false := by
  rw [Bool.eq_false_iff]
  intro he
  rw [pulseEq_iff_canon] at he
  rcases h with ⟨hA, hB⟩ | ⟨hA, hB⟩
  · have p := ((opIds_canon_perm A).1.symm.trans (by rw [he])).trans (opIds_canon_perm B).1
    rw [hA, hB] at p
    exact hab (perm_middle_inj _ _ _ _ p)
  · have p := ((opIds_canon_perm A).2.symm.trans (by rw [he])).trans (opIds_canon_perm B).2
    rw [hA, hB] at p
    exact hab (perm_middle_inj _ _ _ _ p)

/-- equal pulses have the same total duration -/
theorem eq_total_duration (A B : PulseData) (hA : WF A) (hB : WF B) (h : pulseEq A B = true) :
    A.dt.sum = B.dt.sum := by
  rw [pulseEq_iff_canon] at h
  have : (merged A).dt = (merged B).dt := by
    have : (canon A).dt = (canon B).dt := by rw [h]
    exact this
  rw [← sum_dt_merged A hA, ← sum_dt_merged B hB, this]

/-- one duration differs ⇒ unequal (well-formed pulses) -/
theorem eq_detects_duration (A B : PulseData) (hA : WF A) (hB : WF B) (l₁ l₂ : List Int)
    (d d' : Int) (hd : d ≠ d') (h₁ : A.dt = l₁ ++ d :: l₂) (h₂ : B.dt = l₁ ++ d' :: l₂) :
    pulseEq A B = false := by
  rw [Bool.eq_false_iff]
  intro he
  have := eq_total_duration A B hA hB he
  rw [h₁, h₂] at this
  simp only [List.sum_append, List.sum_cons] at this
  omega

/-- For pulses on the same positive durations, equality means equality of the identifier-sorted
Hamiltonians (and bases). -/
theorem eq_same_durations_iff (A B : PulseData) (hA : WF A) (hB : WF B) (hdt : A.dt = B.dt)
    (pA : ∀ d ∈ A.dt, 0 < d) : pulseEq A B = true ↔ sortedP A = sortedP B := by
  have pB : ∀ d ∈ B.dt, 0 < d := by rw [← hdt]; exact pA
  constructor
  · intro h
    obtain ⟨hb, hc, hn, hu⟩ := (eq_iff_same_function A B hA hB pA pB).mp h
    have hV := unroll_inj (segVals (sortedP A)) (segVals (sortedP B)) (sortedP A).dt
      (length_segVals _) (by rw [length_segVals]; exact congrArg List.length hdt.symm) pA
      (by unfold unrollPulse at hu; rw [hu]; exact congrArg (unroll _) hdt.symm)
    exact eq_of_segVals_eq _ _ (wf_sortedP A hA) (wf_sortedP B hB) hb hc hn hdt hV
  · intro h
    rw [pulseEq_iff_canon]
    unfold canon
    rw [← canon, ← canon, canon_eq A hA, canon_eq B hB, h]

/-- one term differs — in its operator, its identifier or a coefficient — on pulses with the same
positive durations ⇒ unequal (well-formed pulses).  The positivity is needed for coefficients:
see the example above. -/
theorem eq_detects_term (A B : PulseData) (hA : WF A) (hB : WF B) (hdt : A.dt = B.dt)
    (pA : ∀ d ∈ A.dt, 0 < d) (l₁ l₂ : List Term) (t t' : Term) (ht : t ≠ t')
    (h : (A.cTerms = l₁ ++ t :: l₂ ∧ B.cTerms = l₁ ++ t' :: l₂) ∨
         (A.nTerms = l₁ ++ t :: l₂ ∧ B.nTerms = l₁ ++ t' :: l₂)) :
    pulseEq A B = false := by
  rw [Bool.eq_false_iff]
  intro he
  have hs := (eq_same_durations_iff A B hA hB hdt pA).mp he
  rcases h with ⟨h₁, h₂⟩ | ⟨h₁, h₂⟩
  · have p : A.cTerms.Perm B.cTerms :=
      ((sortBy_perm Term.id A.cTerms).symm.trans
        (by rw [show sortBy Term.id A.cTerms = (sortedP A).cTerms from rfl, hs]; exact List.Perm.refl _)).trans
        (sortBy_perm Term.id B.cTerms)
    rw [h₁, h₂] at p
    exact ht (perm_middle_inj _ _ _ _ p)
  · have p : A.nTerms.Perm B.nTerms :=
      ((sortBy_perm Term.id A.nTerms).symm.trans
        (by rw [show sortBy Term.id A.nTerms = (sortedP A).nTerms from rfl, hs]; exact List.Perm.refl _)).trans
        (sortBy_perm Term.id B.nTerms)
    rw [h₁, h₂] at p
    exact ht (perm_middle_inj _ _ _ _ p)

/-! ### slicing (`__getitem__`) -/

/-- **Slicing** `pulse[a:b]` (`0 ≤ a`, `0 ≤ b`; all inputs): `IndexError` exactly when the selection
is empty; otherwise operators, identifiers and basis are unchanged and `dt` and every coefficient
row are replaced by their sub-sequences `a … b-1` (`pySlice`, see `slice_entries`). -/
theorem slice_spec (p : PulseData) (a b : Nat) :
    (pySlice p.dt a b = [] → slice p a b = .error "IndexError") ∧
    (pySlice p.dt a b ≠ [] → slice p a b = .ok { p with
        cTerms := p.cTerms.map (mapCoeffs fun c => pySlice c a b)
        nTerms := p.nTerms.map (mapCoeffs fun c => pySlice c a b)
        dt := pySlice p.dt a b }) := by
  unfold slice
  constructor
  · intro h; simp [h]; rfl
  · intro h
    have : (pySlice p.dt a b).isEmpty = false := by
      cases hh : pySlice p.dt a b with
      | nil => exact absurd hh h
      | cons _ _ => rfl
    simp only [this, Bool.false_eq_true, if_false]
    rfl

/-- entry `i` of `l[a:b]` is entry `a+i` of `l` as long as `a+i < b`; the selection is empty iff
`min b len ≤ a` -/
theorem slice_entries {α : Type} (l : List α) (a b : Nat) :
    (∀ i, (pySlice l a b)[i]? = if a + i < b then l[a + i]? else none) ∧
    (pySlice l a b).length = min b l.length - a :=
  ⟨pySlice_getElem? l a b, length_pySlice l a b⟩

/-- slicing keeps pulses well-formed -/
theorem slice_wf (p q : PulseData) (a b : Nat) (hwf : WF p) (h : slice p a b = .ok q) : WF q := by
  by_cases he : pySlice p.dt a b = []
  · rw [(slice_spec p a b).1 he] at h; cases h
  · rw [(slice_spec p a b).2 he] at h
    cases h
    constructor
    · intro t ht
      obtain ⟨u, hu, rfl⟩ := List.mem_map.mp ht
      simp only [mapCoeffs_coeffs, length_pySlice, hwf.1 u hu]
    · intro t ht
      obtain ⟨u, hu, rfl⟩ := List.mem_map.mp ht
      simp only [mapCoeffs_coeffs, length_pySlice, hwf.2 u hu]

/-- the full slice is the pulse itself (well-formed, at least one segment) -/
theorem slice_full (p : PulseData) (hwf : WF p) (hne : p.dt ≠ []) :
    slice p 0 p.dt.length = .ok p := by
  have hdt : pySlice p.dt 0 p.dt.length = p.dt := pySlice_full _ _ rfl
  rw [(slice_spec p 0 p.dt.length).2 (by rw [hdt]; exact hne), hdt]
  have hc : p.cTerms.map (mapCoeffs fun c => pySlice c 0 p.dt.length) = p.cTerms := by
    conv => rhs; rw [← List.map_id p.cTerms]
    apply List.map_congr_left
    intro t ht
    cases t with
    | mk o i c => simp [mapCoeffs, pySlice_full c _ (hwf.1 _ ht)]
  have hn : p.nTerms.map (mapCoeffs fun c => pySlice c 0 p.dt.length) = p.nTerms := by
    conv => rhs; rw [← List.map_id p.nTerms]
    apply List.map_congr_left
    intro t ht
    cases t with
    | mk o i c => simp [mapCoeffs, pySlice_full c _ (hwf.2 _ ht)]
  rw [hc, hn]

/-- `pulse[i]` is the one-segment slice `pulse[i:i+1]` (well-formed pulse); `IndexError` beyond the
last segment -/
theorem index_spec (p : PulseData) (hwf : WF p) (i : Nat) :
    (i < p.dt.length → index p i = slice p i (i + 1)) ∧
    (p.dt.length ≤ i → index p i = .error "IndexError") := by
  constructor
  · intro hi
    have hdt : pySlice p.dt i (i + 1) = [p.dt.getD i 0] := pySlice_single _ _ _ hi
    rw [(slice_spec p i (i + 1)).2 (by rw [hdt]; simp)]
    unfold index
    rw [List.getElem?_eq_getElem hi]
    simp only [hdt]
    have hc : ∀ (ts : List Term), (∀ t ∈ ts, t.coeffs.length = p.dt.length) →
        (ts.map fun t => ({ t with coeffs := [t.coeffs.getD i 0] } : Term))
          = ts.map (mapCoeffs fun c => pySlice c i (i + 1)) := by
      intro ts hts
      apply List.map_congr_left
      intro t ht
      simp only [mapCoeffs, pySlice_single t.coeffs i 0 (by rw [hts t ht]; exact hi)]
    rw [hc _ hwf.1, hc _ hwf.2]
    simp [List.getD, List.getElem?_eq_getElem hi]
    rfl
  · intro hi
    unfold index
    rw [List.getElem?_eq_none hi]
    rfl

/-- **Slices concatenate back to the pulse.**  For a well-formed pulse with `n` segments whose
control (and noise) operators are pairwise distinct, carry pairwise distinct identifiers and are
stored sorted by identifier (as the constructor stores them), and `0 < k < n`: concatenating
`pulse[0:k]` and `pulse[k:n]` gives back the pulse, with identity identifier mappings. -/
theorem slice_concat_roundtrip (p : PulseData) (hwf : WF p) (k : Nat) (hk : 0 < k)
    (hkn : k < p.dt.length)
    (hcops : (p.cTerms.map (·.op)).Nodup) (hcids : (p.cTerms.map (·.id)).Nodup)
    (hcs : SortedBy (·.id) p.cTerms)
    (hnops : (p.nTerms.map (·.op)).Nodup) (hnids : (p.nTerms.map (·.id)).Nodup)
    (hns : SortedBy (·.id) p.nTerms) :
    ∃ q₁ q₂, slice p 0 k = .ok q₁ ∧ slice p k p.dt.length = .ok q₂ ∧
      concatPulses [q₁, q₂] = .ok (p,
        [p.cTerms.map fun t => (t.id, t.id), p.cTerms.map fun t => (t.id, t.id)],
        [p.nTerms.map fun t => (t.id, t.id), p.nTerms.map fun t => (t.id, t.id)]) := by
  have h1 : pySlice p.dt 0 k ≠ [] := by
    intro h; have := congrArg List.length h; rw [length_pySlice, List.length_nil] at this; omega
  have h2 : pySlice p.dt k p.dt.length ≠ [] := by
    intro h; have := congrArg List.length h; rw [length_pySlice, List.length_nil] at this; omega
  refine ⟨_, _, (slice_spec p 0 k).2 h1, (slice_spec p k p.dt.length).2 h2, ?_⟩
  have hc := concat_split .control p.cTerms p.dt.length k hwf.1 hcops hcids hcs
  have hn := concat_split .noise p.nTerms p.dt.length k hwf.2 hnops hnids hns
  have hdt : pySlice p.dt 0 k ++ pySlice p.dt k p.dt.length = p.dt := by
    rw [pySlice_zero, pySlice_to_length _ _ _ rfl, List.take_append_drop]
  unfold concatPulses
  simp only [List.all_cons, List.all_nil, beq_self_eq_true, Bool.and_self, Bool.not_true,
    Bool.false_eq_true, if_false, List.map_cons, List.map_nil, hc, hn, bind, Except.bind,
    List.flatMap_cons, List.flatMap_nil, List.append_nil, hdt, pure, Except.pure]

example :
    let p : PulseData := ⟨[⟨1, "X", [1, 1, 2]⟩, ⟨2, "Y", [0, 0, 3]⟩], [⟨3, "N", [1, 1, 1]⟩], [1, 2, 3], 0⟩
    WF p ∧ (p.cTerms.map (·.op)).Nodup ∧ (p.cTerms.map (·.id)).Nodup ∧ SortedBy (·.id) p.cTerms ∧
      slice p 1 3 = .ok ⟨[⟨1, "X", [1, 2]⟩, ⟨2, "Y", [0, 3]⟩], [⟨3, "N", [1, 1]⟩], [2, 3], 0⟩ ∧
      slice p 3 5 = .error "IndexError" := by
  refine ⟨?_, by decide, by decide, ?_, by decide, by decide⟩
  · constructor <;> simp
  · simp [SortedBy]

/-- the hypotheses of the theorems above are satisfiable: a well-formed two-operator pulse with
positive durations, written split and merged -/
example :
    let A : PulseData := ⟨[⟨1, "X", [1, 1, 2]⟩, ⟨2, "Y", [0, 0, 3]⟩], [⟨3, "N", [1, 1, 1]⟩], [1, 2, 3], 0⟩
    let B : PulseData := ⟨[⟨2, "Y", [0, 3]⟩, ⟨1, "X", [1, 2]⟩], [⟨3, "N", [1, 1]⟩], [3, 3], 0⟩
    pulseEq A B = true ∧ unrollPulse (sortedP A) = unrollPulse (sortedP B) := by decide

end FFVerif.C17
