/-
C09 (continued) — The error transfer matrix `exp(K)` is trace preserving and unital.

`numeric.error_transfer_matrix` returns `scipy.linalg.expm(K.sum(axis = all leading axes))`, where
`K` is the cumulant function (`calculate_cumulant_function`, model `Model.cumulantGeneral`).
`expm` is an external routine and is NOT modelled: the theorems below are about the mathematical
matrix exponential `NormedSpace.exp` (Mathlib; in this Mathlib version `NormedSpace.exp` takes no
scalar-field argument, the topology on matrices is the entrywise one and no matrix norm appears in
any statement), i.e. about the contract `expm` is assumed to fulfil.

From `FFVerif.C09.K_row_col_zero` (row `i0` and column `i0` of `K` vanish when basis element `i0`
is a multiple of the identity) it is shown that row `i0` and column `i0` of `exp(K)` — and of
`exp` of any finite sum of such `K`s — are the unit vector `e_{i0}`; the interpretation lemmas at
the end show that, for a complete orthonormal basis whose element `i0` is a multiple of the
identity, "row `i0` of the Liouville matrix is `e_{i0}`" is the same as "the map is trace
preserving" and "column `i0` is `e_{i0}`" is the same as "the map is unital".
Property theorems only (helper lemmas: FFVerif/Lemmas/ExpAux.lean).
-/
import FFVerif.Props.C09
import FFVerif.Lemmas.ExpAux
import Mathlib.Analysis.SpecialFunctions.Exponential

namespace FFVerif.C09
open FFVerif Matrix NormedSpace

variable {N d : Nat}

/-! ### Matrices with a vanishing row and column -/

/-- **Powers.** If row `i0` and column `i0` of a square matrix `M` (over any semiring; in
particular ℝ or ℂ) vanish, then so do row `i0` and column `i0` of every power `M^k`, `k ≥ 1`
(`k = 0` is excluded: `M^0 = 1` has the entry `1` at `(i0, i0)`). -/
theorem pow_row_col_zero {𝔸 : Type} [Semiring 𝔸] (M : Matrix (Fin N) (Fin N) 𝔸) (i0 : Fin N)
    (hr : ∀ j, M i0 j = 0) (hc : ∀ j, M j i0 = 0) (k : ℕ) (hk : 1 ≤ k) (j : Fin N) :
    (M ^ k) i0 j = 0 ∧ (M ^ k) j i0 = 0 :=
  have h := Spec.RowColZero.pow (i0 := i0) ⟨hr, hc⟩ k hk
  ⟨h.1 j, h.2 j⟩

/-- **Sums.** A finite sum of matrices with vanishing row and column `i0` has vanishing row and
column `i0` (the sum over the noise-source axes in `error_transfer_matrix`). -/
theorem sum_row_col_zero {𝔸 ι : Type} [AddCommMonoid 𝔸] (s : Finset ι)
    (M : ι → Matrix (Fin N) (Fin N) 𝔸) (i0 : Fin N)
    (h : ∀ a ∈ s, (∀ j, M a i0 j = 0) ∧ (∀ j, M a j i0 = 0)) (j : Fin N) :
    (∑ a ∈ s, M a) i0 j = 0 ∧ (∑ a ∈ s, M a) j i0 = 0 :=
  have h' := Spec.RowColZero.sum (i0 := i0) s M h
  ⟨h'.1 j, h'.2 j⟩

/-- **Exponential.** If row `i0` and column `i0` of `M` vanish, then row `i0` and column `i0` of
the matrix exponential `exp M` are the unit vector `e_{i0}`.  Stated for matrices over any complete
normed `ℚ`-algebra, in particular ℝ (the Python exponentiates the real matrix `K`) and ℂ.
(Proof: with the matrix unit `E = e_{i0} e_{i0}ᵀ` the hypothesis reads `E M = 0 = M E`; Mathlib's
`SemiconjBy.exp_right` turns `E M = 0 E` into `E exp M = exp 0 E = E` and `E 0 = M E` into
`E = exp M E`.) -/
theorem exp_row_col_unit {𝔸 : Type} [NormedRing 𝔸] [NormedAlgebra ℚ 𝔸] [CompleteSpace 𝔸]
    (M : Matrix (Fin N) (Fin N) 𝔸) (i0 : Fin N)
    (hr : ∀ j, M i0 j = 0) (hc : ∀ j, M j i0 = 0) (j : Fin N) :
    exp M i0 j = (if j = i0 then 1 else 0) ∧ exp M j i0 = (if j = i0 then 1 else 0) :=
  have h := Spec.RowColZero.exp (i0 := i0) ⟨hr, hc⟩
  ⟨h.1 j, h.2 j⟩

/-- the two instances the package needs: complex and real matrices -/
example (M : Matrix (Fin N) (Fin N) ℂ) (i0 : Fin N) (hr : ∀ j, M i0 j = 0)
    (hc : ∀ j, M j i0 = 0) (j : Fin N) :
    exp M i0 j = (if j = i0 then 1 else 0) ∧ exp M j i0 = (if j = i0 then 1 else 0) :=
  exp_row_col_unit M i0 hr hc j

example (M : Matrix (Fin N) (Fin N) ℝ) (i0 : Fin N) (hr : ∀ j, M i0 j = 0)
    (hc : ∀ j, M j i0 = 0) (j : Fin N) :
    exp M i0 j = (if j = i0 then 1 else 0) ∧ exp M j i0 = (if j = i0 then 1 else 0) :=
  exp_row_col_unit M i0 hr hc j

/-! ### The error transfer matrix -/

/-- `K_row_col_zero` for either setting of `second_order` (`Δ = none`: first order only) -/
theorem K_row_col_zero_opt (C : Vector (Mat ℂ d d) N) (i0 : Fin N) (c : ℂ)
    (h0 : Spec.basisOf C i0 = c • (1 : Matrix (Fin d) (Fin d) ℂ)) (Γ : Mat ℂ N N)
    (Δ : Option (Mat ℂ N N)) (j : Fin N) :
    (Model.cumulantGeneral Γ Δ (Model.fourElementTraces C))[i0][j] = 0 ∧
    (Model.cumulantGeneral Γ Δ (Model.fourElementTraces C))[j][i0] = 0 := by
  cases Δ with
  | none => exact ⟨(K_row_col_zero C i0 c h0 Γ Γ j).1, (K_row_col_zero C i0 c h0 Γ Γ j).2.1⟩
  | some Δ => exact ⟨(K_row_col_zero C i0 c h0 Γ Δ j).2.2.1, (K_row_col_zero C i0 c h0 Γ Δ j).2.2.2⟩

/-- **The error transfer matrix of one pair of noise sources is trace preserving and unital.**
For every basis array `C` one of whose elements is a multiple of the identity
(`C_{i0} = c·1`; `i0 = 0`, `c = 1/√d` for the bases built by `Basis.pauli` / `Basis.ggm`), all
decay amplitudes `Γ` and frequency shifts `Δ` (`Δ = none`: `second_order=False`), the exponential
`U = exp(K)` of the general-branch cumulant function satisfies `U_{i0 j} = δ_{i0 j}` (trace
preservation, see `trace_preserving_iff_row`) and `U_{j i0} = δ_{j i0}` (unitality, see
`unital_iff_col`).  No orthonormality, Hermiticity or completeness of `C` and no reality or
symmetry of `Γ`, `Δ` is needed. -/
theorem etm_trace_preserving_unital (C : Vector (Mat ℂ d d) N) (i0 : Fin N) (c : ℂ)
    (h0 : Spec.basisOf C i0 = c • (1 : Matrix (Fin d) (Fin d) ℂ)) (Γ : Mat ℂ N N)
    (Δ : Option (Mat ℂ N N)) (j : Fin N) :
    exp ((Model.cumulantGeneral Γ Δ (Model.fourElementTraces C)).toMatrix) i0 j
      = (if j = i0 then 1 else 0) ∧
    exp ((Model.cumulantGeneral Γ Δ (Model.fourElementTraces C)).toMatrix) j i0
      = (if j = i0 then 1 else 0) :=
  exp_row_col_unit _ i0 (fun j => (K_row_col_zero_opt C i0 c h0 Γ Δ j).1)
    (fun j => (K_row_col_zero_opt C i0 c h0 Γ Δ j).2) j

/-- **… and so is the error transfer matrix of the sum over noise sources**
(`expm(K.sum(axis=leading axes))`): for any finite family `a ∈ s` of decay amplitudes `Γ a` and
frequency shifts `Δ a` (pairs of noise sources, auto- and cross-correlations alike; `Δ a = none`
for first order only), `U = exp(Σ_a K_a)` has `U_{i0 j} = δ_{i0 j}` and `U_{j i0} = δ_{j i0}`. -/
theorem etm_sum_trace_preserving_unital {ι : Type} (s : Finset ι) (C : Vector (Mat ℂ d d) N)
    (i0 : Fin N) (c : ℂ) (h0 : Spec.basisOf C i0 = c • (1 : Matrix (Fin d) (Fin d) ℂ))
    (Γ : ι → Mat ℂ N N) (Δ : ι → Option (Mat ℂ N N)) (j : Fin N) :
    exp (∑ a ∈ s, (Model.cumulantGeneral (Γ a) (Δ a) (Model.fourElementTraces C)).toMatrix) i0 j
      = (if j = i0 then 1 else 0) ∧
    exp (∑ a ∈ s, (Model.cumulantGeneral (Γ a) (Δ a) (Model.fourElementTraces C)).toMatrix) j i0
      = (if j = i0 then 1 else 0) :=
  exp_row_col_unit _ i0
    (fun j => (sum_row_col_zero s _ i0 (fun a _ =>
      ⟨fun j => (K_row_col_zero_opt C i0 c h0 (Γ a) (Δ a) j).1,
       fun j => (K_row_col_zero_opt C i0 c h0 (Γ a) (Δ a) j).2⟩) j).1)
    (fun j => (sum_row_col_zero s _ i0 (fun a _ =>
      ⟨fun j => (K_row_col_zero_opt C i0 c h0 (Γ a) (Δ a) j).1,
       fun j => (K_row_col_zero_opt C i0 c h0 (Γ a) (Δ a) j).2⟩) j).2) j

/-- **The same for the real matrix the Python actually exponentiates**:
`calculate_cumulant_function` ends with `.real`, so `error_transfer_matrix` applies `expm` to the
real matrix with entries `Re Σ_a (K_a)_{ij}`.  Its exponential (over ℝ) has the unit vector
`e_{i0}` as row and column `i0`. -/
theorem etm_real_sum_trace_preserving_unital {ι : Type} (s : Finset ι)
    (C : Vector (Mat ℂ d d) N) (i0 : Fin N) (c : ℂ)
    (h0 : Spec.basisOf C i0 = c • (1 : Matrix (Fin d) (Fin d) ℂ))
    (Γ : ι → Mat ℂ N N) (Δ : ι → Option (Mat ℂ N N)) (j : Fin N) :
    exp (∑ a ∈ s, Matrix.of fun i j : Fin N =>
        ((Model.cumulantGeneral (Γ a) (Δ a) (Model.fourElementTraces C))[i][j]).re) i0 j
      = (if j = i0 then 1 else 0) ∧
    exp (∑ a ∈ s, Matrix.of fun i j : Fin N =>
        ((Model.cumulantGeneral (Γ a) (Δ a) (Model.fourElementTraces C))[i][j]).re) j i0
      = (if j = i0 then 1 else 0) := by
  have hK : ∀ a ∈ s,
      (∀ j, (Matrix.of fun i j : Fin N =>
        ((Model.cumulantGeneral (Γ a) (Δ a) (Model.fourElementTraces C))[i][j]).re) i0 j = 0) ∧
      (∀ j, (Matrix.of fun i j : Fin N =>
        ((Model.cumulantGeneral (Γ a) (Δ a) (Model.fourElementTraces C))[i][j]).re) j i0 = 0) := by
    intro a _
    constructor
    · intro j
      rw [Matrix.of_apply, (K_row_col_zero_opt C i0 c h0 (Γ a) (Δ a) j).1, Complex.zero_re]
    · intro j
      rw [Matrix.of_apply, (K_row_col_zero_opt C i0 c h0 (Γ a) (Δ a) j).2, Complex.zero_re]
  exact exp_row_col_unit _ i0 (fun j => (sum_row_col_zero s _ i0 hK j).1)
    (fun j => (sum_row_col_zero s _ i0 hK j).2) j

/-! ### Interpretation: unit row ⇔ trace preserving, unit column ⇔ unital -/

section interpretation
variable {B : Fin N → Matrix (Fin d) (Fin d) ℂ}

/-- **Row `i0` = `e_{i0}` means trace preservation.**  Let `B` be a complete, Hilbert–Schmidt
orthonormal Hermitian family whose element `i0` is a multiple of the identity (`B_{i0} = c·1`,
necessarily `c ≠ 0`; `c = 1/√d` up to sign).  A linear map `Φ` on `d × d` matrices with Liouville
matrix `U_ij = tr(B_i Φ(B_j))` (`Spec.liouMap`; for `Φ X = V X V†` this is `Spec.liou B V`,
`Spec.liou_eq_liouMap`) preserves the trace of every matrix iff `U_{i0 j} = δ_{i0 j}` for all
`j`. -/
theorem trace_preserving_iff_row (hC : Spec.IsComplete B) (hO : Spec.IsOrthoHerm B) (i0 : Fin N)
    (c : ℂ) (h0 : B i0 = c • (1 : Matrix (Fin d) (Fin d) ℂ))
    (Φ : Matrix (Fin d) (Fin d) ℂ →ₗ[ℂ] Matrix (Fin d) (Fin d) ℂ) :
    (∀ X, trace (Φ X) = trace X) ↔ ∀ j, Spec.liouMap B Φ i0 j = if j = i0 then 1 else 0 := by
  have hc : c ≠ 0 := Spec.identity_coeff_ne_zero hO i0 c h0
  have hU : ∀ j, Spec.liouMap B Φ i0 j = c * trace (Φ (B j)) := by
    intro j
    rw [Spec.liouMap, h0, Matrix.smul_mul, Matrix.one_mul, trace_smul, smul_eq_mul]
  have hT : ∀ j, c * trace (B j) = if j = i0 then 1 else 0 := by
    intro j
    have h := hO.ortho i0 j
    rw [h0, Matrix.smul_mul, Matrix.one_mul, trace_smul, smul_eq_mul] at h
    rw [h]
    simp only [eq_comm]
  constructor
  · intro h j
    rw [hU, h, hT]
  · intro h X
    have hj : ∀ j, trace (Φ (B j)) = trace (B j) := by
      intro j
      apply mul_left_cancel₀ hc
      rw [← hU, h, hT]
    conv_lhs => rw [hC X]
    conv_rhs => rw [hC X]
    simp only [map_sum, map_smul, trace_sum, trace_smul, hj]

/-- **Column `i0` = `e_{i0}` means unitality.**  Same setting as `trace_preserving_iff_row`:
`Φ(1) = 1` iff `U_{j i0} = δ_{j i0}` for all `j`. -/
theorem unital_iff_col (hC : Spec.IsComplete B) (hO : Spec.IsOrthoHerm B) (i0 : Fin N)
    (c : ℂ) (h0 : B i0 = c • (1 : Matrix (Fin d) (Fin d) ℂ))
    (Φ : Matrix (Fin d) (Fin d) ℂ →ₗ[ℂ] Matrix (Fin d) (Fin d) ℂ) :
    Φ 1 = 1 ↔ ∀ j, Spec.liouMap B Φ j i0 = if j = i0 then 1 else 0 := by
  have hc : c ≠ 0 := Spec.identity_coeff_ne_zero hO i0 c h0
  constructor
  · intro h j
    rw [Spec.liouMap, h0, map_smul, h, ← h0, hO.ortho]
  · intro h
    have h1 : Φ (B i0) = B i0 := by
      apply Spec.eq_of_coeffs_eq hC
      intro j
      have := h j
      rw [Spec.liouMap] at this
      rw [this, hO.ortho]
    rw [h0, map_smul] at h1
    exact smul_right_injective _ hc h1

/-- the Liouville representation of a unitary (`liouville_representation`, C15) has both
properties, as it must: `X ↦ V X V†` preserves the trace and the identity when `V† V = 1 = V V†` -/
example (hC : Spec.IsComplete B) (hO : Spec.IsOrthoHerm B) (i0 : Fin N) (c : ℂ)
    (h0 : B i0 = c • (1 : Matrix (Fin d) (Fin d) ℂ)) (V : Matrix (Fin d) (Fin d) ℂ)
    (h1 : V * Vᴴ = 1) (h2 : Vᴴ * V = 1) (j : Fin N) :
    Spec.liou B V i0 j = (if j = i0 then 1 else 0) ∧
    Spec.liou B V j i0 = (if j = i0 then 1 else 0) := by
  rw [Spec.liou_eq_liouMap]
  constructor
  · refine (trace_preserving_iff_row hC hO i0 c h0 _).mp (fun X => ?_) j
    rw [Spec.conjMap_apply, trace_mul_comm, ← Matrix.mul_assoc, h2, Matrix.one_mul]
  · refine (unital_iff_col hC hO i0 c h0 _).mp ?_ j
    rw [Spec.conjMap_apply, Matrix.mul_one, h1]

end interpretation

/-! ### Non-vacuity -/

/-- hypotheses of the interpretation lemmas on the Pauli basis -/
example : Spec.IsComplete Spec.pauliBasis ∧ Spec.IsOrthoHerm Spec.pauliBasis ∧
    Spec.pauliBasis 0 = Spec.invSqrt2 • (1 : Matrix (Fin 2) (Fin 2) ℂ) :=
  ⟨Spec.pauliBasis_complete, Spec.pauliBasis_orthoHerm, by
    simp [Spec.pauliBasis, Spec.sigma, Matrix.one_fin_two]⟩

/-- **A concrete instance** (`d = 2`, `N = 4`, normalised Pauli basis, `i0 = 0`, `c = 1/√2`,
dephasing-like decay amplitudes `Γ = e_2 e_2ᵀ`, first order): the hypothesis of
`etm_trace_preserving_unital` holds, the cumulant function is NOT zero (`K_11 = -1`, in fact
`K = diag(0, -1, 0, -1)`), and its exponential has the unit vector `e_0` as row and column `0`. -/
example : ∃ (C : Vector (Mat ℂ 2 2) 4) (Γ : Mat ℂ 4 4),
    Spec.basisOf C 0 = Spec.invSqrt2 • (1 : Matrix (Fin 2) (Fin 2) ℂ) ∧
    (Model.cumulantGeneral Γ none (Model.fourElementTraces C))[(1 : Fin 4)][(1 : Fin 4)] = -1 ∧
    ∀ j : Fin 4,
      exp ((Model.cumulantGeneral Γ none (Model.fourElementTraces C)).toMatrix) 0 j
        = (if j = 0 then 1 else 0) ∧
      exp ((Model.cumulantGeneral Γ none (Model.fourElementTraces C)).toMatrix) j 0
        = (if j = 0 then 1 else 0) := by
  let C : Vector (Mat ℂ 2 2) 4 := Vector.ofFn fun i => Mat.ofFn (Spec.pauliBasis i)
  let Γ : Mat ℂ 4 4 := Mat.ofFn fun k l => if k = 2 ∧ l = 2 then 1 else 0
  have hC : Spec.basisOf C = Spec.pauliBasis := by
    funext i; ext a b
    simp [C, Spec.basisOf, Mat.toMatrix, Mat.ofFn]
  have hΓ : fn Γ = fun k l => if k = 2 ∧ l = 2 then 1 else 0 := by
    funext k l
    simp only [fn, Γ, Mat.ofFn_get]
  have h0 : Spec.basisOf C 0 = Spec.invSqrt2 • (1 : Matrix (Fin 2) (Fin 2) ℂ) := by
    rw [hC]; simp [Spec.pauliBasis, Spec.sigma, Matrix.one_fin_two]
  refine ⟨C, Γ, h0, ?_, fun j => etm_trace_preserving_unital C 0 _ h0 Γ none j⟩
  rw [(cumulant_general_model C Γ Γ 1 1).1, hC, hΓ, Spec.K1_pauli]
  simp [Fin.sum_univ_four]

/-- **The statement is not about the identity matrix only**: in the same instance
`K = diag(0, -1, 0, -1)` and the entry `(1, 1)` of `exp(K)` is `e⁻¹ ≠ 1` (the error transfer matrix
is `diag(1, e⁻¹, 1, e⁻¹)`), while row and column `0` are `e_0` by the example above. -/
example : ∃ (C : Vector (Mat ℂ 2 2) 4) (Γ : Mat ℂ 4 4),
    Spec.basisOf C 0 = Spec.invSqrt2 • (1 : Matrix (Fin 2) (Fin 2) ℂ) ∧
    exp ((Model.cumulantGeneral Γ none (Model.fourElementTraces C)).toMatrix) 1 1
      = Complex.exp (-1) ∧ Complex.exp (-1) ≠ 1 := by
  let C : Vector (Mat ℂ 2 2) 4 := Vector.ofFn fun i => Mat.ofFn (Spec.pauliBasis i)
  let Γ : Mat ℂ 4 4 := Mat.ofFn fun k l => if k = 2 ∧ l = 2 then 1 else 0
  have hC : Spec.basisOf C = Spec.pauliBasis := by
    funext i; ext a b
    simp [C, Spec.basisOf, Mat.toMatrix, Mat.ofFn]
  have hΓ : fn Γ = fun k l => if k = 2 ∧ l = 2 then 1 else 0 := by
    funext k l
    simp only [fn, Γ, Mat.ofFn_get]
  have h0 : Spec.basisOf C 0 = Spec.invSqrt2 • (1 : Matrix (Fin 2) (Fin 2) ℂ) := by
    rw [hC]; simp [Spec.pauliBasis, Spec.sigma, Matrix.one_fin_two]
  have hK : (Model.cumulantGeneral Γ none (Model.fourElementTraces C)).toMatrix
      = Matrix.diagonal ![0, -1, 0, -1] := by
    ext i j
    rw [Mat.toMatrix_apply, (cumulant_general_model C Γ Γ i j).1, hC, hΓ, Spec.K1_pauli]
    fin_cases i <;> fin_cases j <;> simp [Fin.sum_univ_four]
  refine ⟨C, Γ, h0, ?_, ?_⟩
  · rw [hK, Matrix.exp_diagonal, Matrix.diagonal_apply_eq, Pi.coe_exp, Complex.exp_eq_exp_ℂ]
    simp
  · intro h
    rw [Complex.exp_eq_one_iff] at h
    obtain ⟨n, hn⟩ := h
    have := congrArg Complex.re hn
    simp at this

end FFVerif.C09
