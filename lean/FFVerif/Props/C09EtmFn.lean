/-
C09 (continued) — `numeric.error_transfer_matrix` as a whole: what is exponentiated, the two input
modes, the branch selection of `calculate_cumulant_function`, the rejected argument combinations,
and — under the contract of `expm` — trace preservation, unitality and complete positivity of the
returned matrix, end to end from the function's arguments.

Model: `FFVerif/Model/EtmFn.lean` (`etmFn` returns the argument of `sla.expm` or the exception
class; `cumulantFunction` is the top of `calculate_cumulant_function`).  `expm` is an oracle: its
contract is the hypothesis `U = NormedSpace.exp Ksum`.
Property theorems only (helper lemmas: FFVerif/Lemmas/EtmFnAux.lean).
-/
import FFVerif.Lemmas.EtmFnAux
import FFVerif.Props.C09
import FFVerif.Props.C09Exp
import FFVerif.Props.C09EtmChoi

namespace FFVerif.C09
open FFVerif FFVerif.Model FFVerif.Model.EtmFn Matrix NormedSpace
open scoped ComplexOrder

variable {N d nA nO m : Nat}

/-! ### Branch selection of `calculate_cumulant_function` -/

/-- **When the shortcut is taken.**  The selector of the source (after the repair of F34) is true
iff `d = 2`, the label is `'Pauli'` or `'GGM'`, the basis array has the shape `(4, 2, 2)` of
`Basis.pauli(1)` and `np.allclose` finds it equal to it. -/
theorem shortcutTaken_iff (N d : Nat) (bt : BType) (close : Bool) :
    shortcutTaken N d bt close = true ↔
      d = 2 ∧ (bt = .pauli ∨ bt = .ggm) ∧ N = 4 ∧ close = true := by
  cases bt <;> simp [shortcutTaken, basisEqPauli] <;> tauto

/-- **Branch selection.**  `calculate_cumulant_function` evaluates, on the last two axes of the
decay amplitudes (and frequency shifts),
* the general trace-tensor expression whenever the selector is false — in particular for every
  `d ≠ 2`, every label other than `'Pauli'`/`'GGM'`, and every `d = 2` basis that is not the Pauli
  basis, whatever its label;
* the single-qubit shortcut when the selector is true; and if the basis then IS the Pauli basis
  (`hC`; `np.allclose` is idealised as equality), the shortcut's value equals the general
  expression (`cumulant_single_qubit_eq_general`).
Hence the value does not depend on which branch evaluates it, nor on the label. -/
theorem cumulant_branch_selection (C : Vector (Mat ℂ d d) N) (bt : BType) (close : Bool)
    (hC : close = true → ∀ (hN : N = 4) (hd : d = 2),
      Spec.basisOf (show Vector (Mat ℂ 2 2) 4 from hN ▸ hd ▸ C) = Spec.pauliBasis)
    (Γ : Mat ℂ N N) (Δ : Option (Mat ℂ N N)) :
    (shortcutTaken N d bt close = false →
      cumulantLeaf (shortcutTaken N d bt close) (fourElementTraces C) Γ Δ
        = cumulantGeneral Γ Δ (fourElementTraces C)) ∧
    (shortcutTaken N d bt close = true → ∃ hN : N = 4,
      cumulantLeaf (shortcutTaken N d bt close) (fourElementTraces C) Γ Δ
        = singleQubitAt hN Γ Δ) ∧
    cumulantLeaf (shortcutTaken N d bt close) (fourElementTraces C) Γ Δ
      = cumulantGeneral Γ Δ (fourElementTraces C) := by
  refine ⟨fun h => by rw [h]; rfl, fun h => ?_, ?_⟩
  · obtain ⟨_, _, hN, _⟩ := (shortcutTaken_iff N d bt close).1 h
    exact ⟨hN, by rw [h]; simp only [cumulantLeaf, if_true, dif_pos hN]⟩
  · cases h : shortcutTaken N d bt close with
    | false => rfl
    | true =>
      obtain ⟨hd, _, hN, hc⟩ := (shortcutTaken_iff N d bt close).1 h
      subst hN; subst hd
      have hP := hC hc rfl rfl
      simp only [cumulantLeaf, if_true]
      show cumulantSingleQubit Γ Δ = _
      cases Δ with
      | none => exact (cumulant_single_qubit_eq_general C hP Γ Γ).1
      | some D => exact (cumulant_single_qubit_eq_general C hP Γ D).2

/-- the branch-selection theorem is not vacuous: the Pauli basis with either label takes the
shortcut, a `d = 3` basis and a `'Custom'` label never do -/
example : shortcutTaken 4 2 .pauli true = true ∧ shortcutTaken 4 2 .ggm true = true ∧
    shortcutTaken 4 2 .other true = false ∧ shortcutTaken 4 2 .pauli false = false ∧
    shortcutTaken 9 3 .ggm true = false := by decide

/-! ### What is exponentiated -/

/-- the decay amplitudes of noise source `a` as the complex operand of the contraction -/
noncomputable def gammaC (G : Vector (Mat ℝ N N) m) (a : Fin m) : Mat ℂ N N :=
  Mat.map (fun x : ℝ => (x : ℂ)) G[a]

/-- the frequency shifts of noise source `a` (`none` when `second_order=False`) -/
noncomputable def deltaC (second : Bool) (D : Vector (Mat ℝ N N) m) (a : Fin m) :
    Option (Mat ℂ N N) :=
  if second then some (Mat.map (fun x : ℝ => (x : ℂ)) D[a]) else none

/-- **What `error_transfer_matrix` exponentiates (one spectrum per noise operator).**  Called with
a pulse, a spectrum of shape `(m, n_omega)`, frequencies and `cumulant_function=None`, the function
never raises and hands to `expm` the `N × N` real matrix
`Σ_a Re K(Γ_a, Δ_a)`: the sum over the selected noise sources `a` of the real part of the model's
cumulant function of the decay amplitudes `Γ_a` (`calculate_decay_amplitudes`, whichever of its
paths is selected by the cache state and `memory_parsimonious`) and — iff `second_order` — the
frequency shifts `Δ_a`.  `show_progressbar` and `cache_intermediates` do not enter. -/
theorem etmFn_arg_is_sum_of_cumulants (p : PulseData ℂ nA N d nO) (S : Mat ℂ m nO) (ω : Vec ℝ nO)
    (idx : Vec (Fin nA) m) (second pars sp ci : Bool) :
    etmFn (some p) (some (.perOp S)) (some ω) idx second none sp pars ci
      = .ok ⟨N, N, Mat.ofFn fun i j => ∑ a : Fin m,
          ((cumulantLeaf (shortcutTaken N d p.btype p.close) (fourElementTraces p.basis)
            (gammaC (decayAmplitudesSel2 p.ffGenCached pars ω p.B p.Fgen idx S) a)
            (deltaC second (frequencyShifts2 ω p.F2 idx S) a))[i][j]).re⟩ := by
  cases second
  · simp only [etmFn, cumulantFromPulse, cumulantFunction, gammaTotal, deltaTotal, Arr.complexify,
      complexify, Bool.not_true, Bool.false_and, Bool.and_false, Bool.false_eq_true, if_false,
      Option.isNone_none, Bool.and_true, expmArgOf, if_true, sumLeading]
    refine congrArg (fun M => Except.ok (Mat2.mk N N M)) ?_
    congr 1; funext i j
    refine (Stack.sum_map_map_one _ _ _ _ _).trans (Finset.sum_congr rfl fun a _ => ?_)
    exact re2_get _ _ _
  · simp only [etmFn, cumulantFromPulse, cumulantFunction, gammaTotal, deltaTotal, Arr.complexify,
      complexify, Bool.not_true, Bool.false_and, Bool.and_false, Bool.false_eq_true,
      Option.isNone_none, Bool.and_true, expmArgOf, beq_iff_eq, reduceCtorEq,
      ↓reduceDIte, ↓reduceIte, sumLeading]
    refine congrArg (fun M => Except.ok (Mat2.mk N N M)) ?_
    congr 1; funext i j
    refine (Stack.sum_zipWith_map_map_one _ _ _ _ _ _ _).trans (Finset.sum_congr rfl fun a _ => ?_)
    exact re2_get _ _ _

/-! ### The two input modes -/

/-- **Passing the precomputed cumulant function = computing it from the pulse.**  If
`calculate_cumulant_function(pulse, spectrum, omega, n_oper_identifiers, 'total', second_order, …)`
returns `Kfn`, then `error_transfer_matrix(pulse, spectrum, omega, …)` and
`error_transfer_matrix(cumulant_function=Kfn)` — with ANY other arguments, which are ignored in
that mode — hand the same matrix to `expm`; if it raises, the first call raises the same. -/
theorem etmFn_modes_agree {nA' N' d' nO' m' : Nat} (p : PulseData ℂ nA N d nO)
    (S : Spectrum ℂ m nO) (ω : Vec ℝ nO) (idx : Vec (Fin nA) m) (second pars sp ci : Bool)
    (p' : Option (PulseData ℂ nA' N' d' nO')) (S' : Option (Spectrum ℂ m' nO'))
    (ω' : Option (Vec ℝ nO')) (idx' : Vec (Fin nA') m') (second' pars' sp' ci' : Bool) :
    (∀ Kfn, cumulantFromPulse p S ω idx second pars = .ok Kfn →
      etmFn (some p) (some S) (some ω) idx second none sp pars ci
        = etmFn p' S' ω' idx' second' (some (.array Kfn.shape N N Kfn.data)) sp' pars' ci') ∧
    (∀ e, cumulantFromPulse p S ω idx second pars = .error e →
      etmFn (some p) (some S) (some ω) idx second none sp pars ci = .error e) := by
  constructor
  · intro Kfn h
    simp only [etmFn, h]
  · intro e h
    simp only [etmFn, h]

/-! ### Rejected argument combinations -/

/-- `calculate_cumulant_function` as called by `error_transfer_matrix` never raises (the shapes of
the decay amplitudes and frequency shifts computed from the same spectrum agree) -/
theorem cumulantFromPulse_ok (p : PulseData ℂ nA N d nO) (S : Spectrum ℂ m nO) (ω : Vec ℝ nO)
    (idx : Vec (Fin nA) m) (second pars : Bool) :
    ∃ Kfn, cumulantFromPulse p S ω idx second pars = .ok Kfn ∧
      (Kfn.shape = [m] ∨ Kfn.shape = [m, m]) := by
  cases S <;> cases second <;>
    simp [cumulantFromPulse, cumulantFunction, gammaTotal, deltaTotal, Arr.complexify]

/-- **`error_transfer_matrix` raises iff** no cumulant function is given and one of `pulse`,
`spectrum`, `omega` is missing (`ValueError: Require either …`), or the given cumulant function is
not an array (`TypeError`), is one-dimensional, or its last two axes are not square
(`ValueError: … invalid shape`) — and it raises exactly that class.  In particular a complete set
`(pulse, spectrum, omega)` is never rejected, and a given cumulant function takes precedence over
(possibly missing or inconsistent) other arguments. -/
theorem etmFn_rejects_iff (pulse : Option (PulseData ℂ nA N d nO))
    (spectrum : Option (Spectrum ℂ m nO)) (omega : Option (Vec ℝ nO)) (idx : Vec (Fin nA) m)
    (second pars sp ci : Bool) (cum : Option (CumArg ℝ)) (e : Err) :
    etmFn pulse spectrum omega idx second cum sp pars ci = .error e ↔
      (cum = none ∧ (pulse = none ∨ spectrum = none ∨ omega = none) ∧
        e = .requireCumulantOrPulse) ∨
      (cum = some .notArray ∧ e = .invalidType) ∨
      (cum = some .oneD ∧ e = .invalidShape) ∨
      (∃ sh r c data, cum = some (.array sh r c data) ∧ r ≠ c ∧ e = .invalidShape) := by
  cases cum with
  | some c =>
    cases c with
    | notArray => simp [etmFn, expmArgOf, eq_comm]
    | scalar x => simp [etmFn, expmArgOf]
    | oneD => simp [etmFn, expmArgOf, eq_comm]
    | array sh r c data =>
      by_cases h : r = c <;> simp [etmFn, expmArgOf, h, eq_comm]
  | none =>
    cases pulse with
    | none => simp [etmFn, eq_comm]
    | some p =>
      cases spectrum with
      | none => simp [etmFn, eq_comm]
      | some S =>
        cases omega with
        | none => simp [etmFn, eq_comm]
        | some ω =>
          obtain ⟨Kfn, hK, _⟩ := cumulantFromPulse_ok p S ω idx second pars
          simp [etmFn, hK, expmArgOf]

/-! ### End to end: the returned matrix is a physical channel -/

/-- entries of `gammaC` are real -/
theorem gammaC_real (G : Vector (Mat ℝ N N) m) (a : Fin m) (k l : Fin N) :
    starRingEnd ℂ (gammaC G a)[k][l] = (gammaC G a)[k][l] := by
  simp only [gammaC, Mat.map, Mat.ofFn_get, Complex.conj_ofReal]

/-- entries of `deltaC` are real -/
theorem deltaC_real (second : Bool) (Dv : Vector (Mat ℝ N N) m) (a : Fin m) (D : Mat ℂ N N)
    (h : deltaC second Dv a = some D) (k l : Fin N) : starRingEnd ℂ D[k][l] = D[k][l] := by
  cases second
  · simp [deltaC] at h
  · simp only [deltaC, if_true, Option.some.injEq] at h
    subst h
    simp only [Mat.map, Mat.ofFn_get, Complex.conj_ofReal]

/-- **`error_transfer_matrix` returns a trace-preserving, unital, completely positive map.**
For every pulse whose basis `C` is complete, orthonormal and Hermitian with `C_{i0} = c·1`
(`Basis.pauli`, `Basis.ggm`: `i0 = 0`), every spectrum of shape `(m, n_omega)`, frequency grid,
identifier selection and setting of `second_order`, `memory_parsimonious`, `show_progressbar`,
`cache_intermediates`, whichever path computes the decay amplitudes and whichever branch (shortcut
or general; `np.allclose` to the Pauli basis idealised as equality, `hclose`) evaluates the
cumulant function: the call does not raise, and under the contract of `expm`
(`U = NormedSpace.exp Ksum` for the matrix `Ksum` handed to it) the returned `U` has the unit
vector `e_{i0}` as row `i0` (trace preserving, `trace_preserving_iff_row`) and as column `i0`
(unital, `unital_iff_col`); if moreover the summed decay amplitudes are positive semidefinite (as
they are for positive-semidefinite spectra), the Choi matrix `liouville_to_choi(U)` is positive
semidefinite (completely positive). -/
theorem error_transfer_matrix_physical (p : PulseData ℂ nA N d nO) (S : Mat ℂ m nO) (ω : Vec ℝ nO)
    (idx : Vec (Fin nA) m) (second pars sp ci : Bool)
    (hclose : p.close = true → ∀ (hN : N = 4) (hd : d = 2),
      Spec.basisOf (show Vector (Mat ℂ 2 2) 4 from hN ▸ hd ▸ p.basis) = Spec.pauliBasis)
    (hCo : Spec.IsComplete (Spec.basisOf p.basis)) (hH : Spec.IsOrthoHerm (Spec.basisOf p.basis))
    (i0 : Fin N) (c : ℂ) (h0 : Spec.basisOf p.basis i0 = c • (1 : Matrix (Fin d) (Fin d) ℂ))
    (U : Matrix (Fin N) (Fin N) ℝ) :
    ∃ Ksum : Mat ℝ N N,
      etmFn (some p) (some (.perOp S)) (some ω) idx second none sp pars ci = .ok ⟨N, N, Ksum⟩ ∧
      (U = exp Ksum.toMatrix →
        (∀ j, U i0 j = if j = i0 then 1 else 0) ∧ (∀ j, U j i0 = if j = i0 then 1 else 0) ∧
        ((∑ a : Fin m, (gammaC (decayAmplitudesSel2 p.ffGenCached pars ω p.B p.Fgen idx S)
            a).toMatrix).PosSemidef →
          (Spec.choiLiou (Spec.basisOf p.basis) (U.map Complex.ofReal)).PosSemidef)) := by
  refine ⟨_, etmFn_arg_is_sum_of_cumulants p S ω idx second pars sp ci, fun hU => ?_⟩
  have hK : (Mat.ofFn fun i j => ∑ a : Fin m,
      ((cumulantLeaf (shortcutTaken N d p.btype p.close) (fourElementTraces p.basis)
        (gammaC (decayAmplitudesSel2 p.ffGenCached pars ω p.B p.Fgen idx S) a)
        (deltaC second (frequencyShifts2 ω p.F2 idx S) a))[i][j]).re).toMatrix
      = ∑ a : Fin m, Matrix.of fun i j : Fin N =>
        ((cumulantGeneral (gammaC (decayAmplitudesSel2 p.ffGenCached pars ω p.B p.Fgen idx S) a)
          (deltaC second (frequencyShifts2 ω p.F2 idx S) a)
          (fourElementTraces p.basis))[i][j]).re := by
    ext i j
    rw [Mat.toMatrix_apply, Mat.ofFn_get, Matrix.sum_apply]
    refine Finset.sum_congr rfl fun a _ => ?_
    rw [Matrix.of_apply, (cumulant_branch_selection p.basis p.btype p.close hclose _ _).2.2]
  rw [hU, hK]
  refine ⟨fun j => ?_, fun j => ?_, fun hΓ => ?_⟩
  · exact (etm_real_sum_trace_preserving_unital Finset.univ p.basis i0 c h0 _ _ j).1
  · exact (etm_real_sum_trace_preserving_unital Finset.univ p.basis i0 c h0 _ _ j).2
  · exact etm_real_sum_choi_posSemidef Finset.univ p.basis hCo hH _ hΓ
      (fun a _ k l => gammaC_real _ a k l) _
      (fun a _ D hD k l => deltaC_real second _ a D hD k l)

/-- the hypotheses of `error_transfer_matrix_physical` on the basis are satisfiable: the Pauli
basis (`pauliVec`), `i0 = 0`, `c = 1/√2`, for which the shortcut is taken with either label -/
example : ∃ (C : Vector (Mat ℂ 2 2) 4) (c : ℂ),
    Spec.IsComplete (Spec.basisOf C) ∧ Spec.IsOrthoHerm (Spec.basisOf C) ∧
    Spec.basisOf C 0 = c • (1 : Matrix (Fin 2) (Fin 2) ℂ) ∧
    (∀ (hN : 4 = 4) (hd : 2 = 2),
      Spec.basisOf (show Vector (Mat ℂ 2 2) 4 from hN ▸ hd ▸ C) = Spec.pauliBasis) ∧
    shortcutTaken 4 2 .pauli true = true :=
  ⟨pauliVec, Spec.invSqrt2, pauliVec_basisOf ▸ Spec.pauliBasis_complete,
    pauliVec_basisOf ▸ Spec.pauliBasis_orthoHerm,
    by rw [pauliVec_basisOf]; simp [Spec.pauliBasis, Spec.sigma, Matrix.one_fin_two], fun _ _ => pauliVec_basisOf, by decide⟩

end FFVerif.C09
