/-
C11 — analytic gradients equal the derivative of the infidelity they differentiate:
integral kernels (`_derivative_integral`, `A_mat` of `_liouville_derivative`) and the
selection / assembly algebra (`calculate_filter_function_derivative`, `infidelity_derivative`,
`PulseSequence.get_filter_function_derivative`) of `filter_functions/gradient.py`.
Property theorems only (helper lemmas live in FFVerif/Lemmas/GradientAux.lean).
-/
import FFVerif.Lemmas.GradientAux

namespace FFVerif.C11
open FFVerif FFVerif.Model FFVerif.GradientAux Complex MeasureTheory intervalIntegral
open FFVerif.C01 (segIntegral segIntegral_closed segIntegral_zero)

/-! ### a. `A_mat` of `_liouville_derivative` -/

/-- **Sign convention of `A_mat`.**  Duhamel: `d/du e^{-i(H+uX)dt}|_{u=0}
= -i ∫₀^dt e^{-iH(dt-s)} X e^{-iHs} ds`.  In the eigenbasis of `H` (eigenvalues `λ`) the `(m,n)`
matrix element of the right-hand side is `-i ∫₀^dt e^{-iλ_m(dt-s)} X_mn e^{-iλ_n s} ds`, and this
equals `-i · e^{-iλ_m dt} · X_mn · ∫₀^dt e^{+i(λ_m-λ_n)s} ds`.  The code carries the factor
`-i e^{-iλ_m dt}` as `-1j * propagators[1:] @ propagators[:-1]^† @ eigvecs` (`= -i V e^{-iD dt}`),
so `A_mat[m][n]` has to be `∫₀^dt e^{i x s} ds` with `x = λ_m - λ_n = omega_diff[m][n]`, plus sign
in the exponent (this is `C01.segIntegral x dt`). -/
theorem liouvilleA_matrix_element (lm ln dt : ℝ) (X : ℂ) :
    -Complex.I * ∫ s in (0:ℝ)..dt,
        Complex.exp (-Complex.I * lm * (dt - s)) * X * Complex.exp (-Complex.I * ln * s)
      = -Complex.I * Complex.exp (-Complex.I * lm * dt) * X * segIntegral (lm - ln) dt := by
  unfold segIntegral
  have hpt : ∀ s : ℝ,
      Complex.exp (-Complex.I * lm * (dt - s)) * X * Complex.exp (-Complex.I * ln * s)
        = (Complex.exp (-Complex.I * lm * dt) * X)
            * Complex.exp (Complex.I * ((lm - ln : ℝ):ℂ) * s) := by
    intro s
    have : Complex.exp (-Complex.I * lm * (dt - s))
        = Complex.exp (-Complex.I * lm * dt) * Complex.exp (Complex.I * lm * s) := by
      rw [← Complex.exp_add]; congr 1; ring
    have e2 : Complex.exp (Complex.I * ((lm - ln : ℝ):ℂ) * s)
        = Complex.exp (Complex.I * lm * s) * Complex.exp (-Complex.I * ln * s) := by
      rw [← Complex.exp_add]; congr 1; push_cast; ring
    rw [this, e2]; ring
  simp only [hpt]
  rw [intervalIntegral.integral_const_mul]
  ring

/-- **Exact branch of `A_mat`.**  Where the mask `|x·dt| < thr` does not hold (and `x ≠ 0`, which
is automatic for `thr > 0`), the entry `1j*(1 - cexp(x*dt))/x` written by the code is exactly
`∫₀^dt e^{i x s} ds`, `x = λ_m - λ_n`. -/
theorem liouvilleA_exact (thr x dt : ℝ) (hx : x ≠ 0) (hm : gradMask thr (x * dt) = false) :
    (liouvilleA thr x dt : ℂ) = ∫ s in (0:ℝ)..dt, Complex.exp (Complex.I * x * s) := by
  change _ = segIntegral x dt
  unfold liouvilleA
  rw [if_neg (by simp [hm]), segIntegral_closed x dt hx]
  have hxc : (x:ℂ) ≠ 0 := by exact_mod_cast hx
  simp only [copsI, copsExpI, copsOfReal]
  push_cast
  field_simp
  ring_nf
  simp only [Complex.I_sq]
  ring

example : gradMask (1e-7 : ℝ) ((1:ℝ) * 1) = false ∧ (1:ℝ) ≠ 0 := by
  refine ⟨?_, one_ne_zero⟩
  rw [gradMask_false_iff]; norm_num

/-- **Masked branch of `A_mat`.**  Where `|x·dt| < thr`, the value `dt` written by the code
differs from `∫₀^dt e^{i x s} ds` by at most `thr·dt` (`dt ≥ 0`, `thr ≤ 1`). -/
theorem liouvilleA_masked_error (thr x dt : ℝ) (hthr1 : thr ≤ 1) (hdt : 0 ≤ dt)
    (hm : gradMask thr (x * dt) = true) :
    ‖(liouvilleA thr x dt : ℂ) - segIntegral x dt‖ ≤ thr * dt := by
  have hlt : |x * dt| < thr := (gradMask_iff _ _).1 hm
  have hfm : firstOrderMask .absTimesDtGt thr x dt = false := by
    simp only [firstOrderMask, ropsLt, ropsAbs, decide_eq_false_iff_not, not_lt]
    exact hlt.le
  have h := C01.firstOrderEntry_masked_error thr x dt hthr1 hdt hfm
  have heq : (liouvilleA thr x dt : ℂ) = firstOrderEntry .absTimesDtGt thr x dt := by
    unfold liouvilleA firstOrderEntry
    rw [if_pos hm, if_neg (by simp [hfm])]
  rw [heq]; exact h

/-- both branches: every entry of `A_mat` is within `thr·dt` of `∫₀^dt e^{i(λ_m-λ_n)s} ds`,
for every `0 < thr ≤ 1` (the source has `1e-7`, pinned in `gradient_source_shape`). -/
theorem liouvilleA_error (thr x dt : ℝ) (hthr : 0 < thr) (hthr1 : thr ≤ 1) (hdt : 0 ≤ dt) :
    ‖(liouvilleA thr x dt : ℂ) - segIntegral x dt‖ ≤ thr * dt := by
  by_cases hm : gradMask thr (x * dt) = true
  · exact liouvilleA_masked_error thr x dt hthr1 hdt hm
  · have hm' : gradMask thr (x * dt) = false := by simpa using hm
    have hx : x ≠ 0 := by
      rintro rfl
      rw [gradMask_false_iff] at hm'
      simp at hm'; linarith
    have h := liouvilleA_exact thr x dt hx hm'
    unfold segIntegral
    rw [h, sub_self, norm_zero]
    exact mul_nonneg hthr.le hdt

/-- with the threshold of the current source (`1e-07`, pinned in `gradient_source_shape`):
every entry of `A_mat`, for every segment length `dt ≥ 0` and every pair of eigenvalues. -/
theorem liouvilleA_error_current (x dt : ℝ) (hdt : 0 ≤ dt) :
    ‖(liouvilleA (1e-7:ℝ) x dt : ℂ) - segIntegral x dt‖ ≤ 1e-7 * dt :=
  liouvilleA_error 1e-7 x dt (by norm_num) (by norm_num) hdt

/-- the masked branch is reachable with non-degenerate eigenvalues -/
example : gradMask (1e-7:ℝ) ((1e-8:ℝ) * 1) = true := by
  rw [gradMask_iff]; norm_num [abs_of_pos]

/-- **Degenerate pair / idle segment** (`λ_m = λ_n`, in particular every diagonal entry and every
entry of a segment with `H = 0`): the mask holds for every `thr > 0` and the entry is the finite
value `dt` — exactly `∫₀^dt 1 ds`.  (This is the input on which the earlier, diagonal-only mask
evaluated `1j*(1-1)/0 = NaN`.) -/
theorem liouvilleA_degenerate (thr dt : ℝ) (hthr : 0 < thr) :
    (liouvilleA thr 0 dt : ℂ) = dt ∧ (dt : ℂ) = segIntegral 0 dt := by
  refine ⟨?_, (segIntegral_zero dt).symm⟩
  unfold liouvilleA
  rw [if_pos (by simp [gradMask, hthr])]
  simp

/-- the whole `A_mat[g]`: off-diagonal degenerate entries included -/
theorem liouvilleAMat_degenerate {d : Nat} (thr dt : ℝ) (hthr : 0 < thr) (ev : Vec ℝ d)
    (m n : Fin d) (hdeg : ev[m] = ev[n]) :
    (liouvilleAMat (K := ℂ) thr ev dt)[m][n] = dt := by
  simp only [liouvilleAMat, Mat.ofFn_get, hdeg, sub_self]
  exact (liouvilleA_degenerate thr dt hthr).1

/-! ### b. `_derivative_integral` -/

/-- **Every branch of `_derivative_integral` is the nested integral it is meant to be.**
`out[o,p,q,m,n] = ∫₀^dt e^{i(E_o+λ_m-λ_n)t} (∫₀^t e^{i(λ_p-λ_q)s} ds) dt`, for every `thr > 0`,
provided none of the three masked quantities `Ω_pq = λ_p-λ_q`, `x = E+λ_m-λ_n`, `y = x+Ω_pq`
lies in the grey zone `0 < |·| < thr` (`Sharp`: exactly zero, or not masked).  This covers all
five reachable combinations: (`Ω=0,x=0`) ↦ `dt²/2`; (`Ω=0,x≠0`); (`Ω≠0,x=0`) ↦ `tmp2 = i·dt`;
(`Ω≠0,y=0`) ↦ `tmp1 = -i·dt`; (`Ω≠0,x≠0,y≠0`).  In the grey zone the code writes the value of the
limit point instead (see `derivativeIntegral_masked_error`); the masks are absolute, not
dimensionless. -/
theorem derivativeIntegral_exact (thr E Omn Opq dt : ℝ) (hthr : 0 < thr)
    (h1 : Sharp thr Opq) (h2 : Sharp thr (E + Omn)) (h3 : Sharp thr (E + Omn + Opq)) :
    (derivativeIntegralEntry thr E Omn Opq dt : ℂ)
      = ∫ t in (0:ℝ)..dt, Complex.exp (Complex.I * ((E + Omn : ℝ):ℂ) * t)
          * ∫ s in (0:ℝ)..t, Complex.exp (Complex.I * Opq * s) := by
  change _ = nestedIntegral (E + Omn) Opq dt
  unfold derivativeIntegralEntry derivIntegralTmp2 derivIntegralTmp1
  simp only []
  generalize E + Omn = x at *
  have hI3 : Complex.I ^ 3 = -Complex.I := by rw [pow_succ, Complex.I_sq]; ring
  rcases h1.cases hthr with ⟨m1, rfl⟩ | ⟨m1, hΩ⟩
  · -- Ω = 0
    rcases h2.cases hthr with ⟨m2, rfl⟩ | ⟨m2, hx⟩
    · simp only [m1, ↓reduceIte]
      rw [nestedIntegral_zero_zero]
      simp only [copsOfReal, Nat.cast_ofNat]
      push_cast; ring
    · simp only [m1, m2, ↓reduceIte, Bool.false_eq_true]
      rw [nestedIntegral_zero_right x dt hx]
      have hxc : (x:ℂ) ≠ 0 := by exact_mod_cast hx
      simp only [copsI, copsExpI, copsOfReal]
      push_cast
      field_simp
      ring_nf
      simp only [Complex.I_sq, hI3]
      ring
  · -- Ω ≠ 0
    rw [nestedIntegral_ne x Opq dt hΩ]
    have hΩc : (Opq:ℂ) ≠ 0 := by exact_mod_cast hΩ
    rcases h2.cases hthr with ⟨m2, rfl⟩ | ⟨m2, hx⟩
    · -- x = 0, hence y = Ω ≠ 0
      have hy : (0:ℝ) + Opq ≠ 0 := by simpa using hΩ
      have m3 : gradMask thr (0 + Opq) = false := by
        rcases h3.cases hthr with ⟨_, h0⟩ | ⟨m3, _⟩
        · exact absurd h0 hy
        · exact m3
      simp only [m1, m2, m3, ↓reduceIte, Bool.false_eq_true]
      rw [segIntegral_closed _ dt hy, segIntegral_zero]
      simp only [copsI, copsExpI, copsOfReal]
      push_cast
      simp only [zero_add]
      field_simp
      ring_nf
      simp only [Complex.I_sq, hI3]
      ring
    · have hxc : (x:ℂ) ≠ 0 := by exact_mod_cast hx
      rw [segIntegral_closed x dt hx]
      rcases h3.cases hthr with ⟨m3, hy0⟩ | ⟨m3, hy⟩
      · simp only [m1, m2, m3, ↓reduceIte, Bool.false_eq_true]
        rw [hy0, segIntegral_zero]
        simp only [copsI, copsExpI, copsOfReal]
        push_cast
        field_simp
        ring_nf
        simp only [Complex.I_sq, hI3]
        ring
      · have hyc : ((x + Opq : ℝ):ℂ) ≠ 0 := by exact_mod_cast hy
        simp only [m1, m2, m3, ↓reduceIte, Bool.false_eq_true]
        rw [segIntegral_closed _ dt hy]
        simp only [copsExpI, copsOfReal]
        push_cast at hyc ⊢
        field_simp
        ring_nf
        simp only [Complex.I_sq]
        ring

/-- the hypotheses of `derivativeIntegral_exact` are satisfiable in a non-trivial branch -/
example : (0:ℝ) < 1e-7 ∧ Sharp 1e-7 (1:ℝ) ∧ Sharp 1e-7 ((-1:ℝ) + 0) ∧ Sharp 1e-7 ((-1:ℝ) + 0 + 1) := by
  refine ⟨by norm_num, Or.inr ?_, Or.inr ?_, Or.inl (by norm_num)⟩ <;> norm_num

/-- the full array: index convention `out[o][p][q][m][n]`, `(p,q)` the inner (second) energy
difference, `(m,n)` the one combined with the frequency -/
theorem derivativeIntegral_get {nO d : Nat} (thr : ℝ) (E : Vec ℝ nO) (ev : Vec ℝ d) (dt : ℝ)
    (o : Fin nO) (p q m n : Fin d) :
    (derivativeIntegral (K := ℂ) thr E ev dt)[o][p][q][m][n]
      = derivativeIntegralEntry thr E[o] (ev[m] - ev[n]) (ev[p] - ev[q]) dt := by
  simp only [derivativeIntegral, Fin.getElem_fin, Vector.getElem_ofFn]

/-- `tmp2 = i ∫₀^dt e^{i x s} ds` up to `thr·dt²` (exact where not masked) -/
theorem derivIntegralTmp2_error (thr x dt : ℝ) (hthr : 0 < thr) (hdt : 0 ≤ dt)
    (hsmall : thr * dt ≤ 1) :
    ‖(derivIntegralTmp2 thr x dt : ℂ) - Complex.I * segIntegral x dt‖ ≤ thr * dt ^ 2 := by
  unfold derivIntegralTmp2
  by_cases hm : gradMask thr x = true
  · have hlt : |x| < thr := (gradMask_iff _ _).1 hm
    rw [if_pos hm]
    simp only [copsI, copsOfReal]
    rw [← mul_sub, norm_mul, Complex.norm_I, one_mul]
    have hx1 : |x * dt| ≤ 1 := by
      rw [abs_mul, abs_of_nonneg hdt]
      exact (mul_le_mul_of_nonneg_right hlt.le hdt).trans hsmall
    refine (norm_segIntegral_sub_le x dt hdt hx1).trans ?_
    exact mul_le_mul_of_nonneg_right hlt.le (sq_nonneg _)
  · have hm' : gradMask thr x = false := by simpa using hm
    have hx : x ≠ 0 := by
      rintro rfl
      rw [gradMask_false_iff] at hm'
      simp at hm'; linarith
    have hxc : (x:ℂ) ≠ 0 := by exact_mod_cast hx
    rw [if_neg hm, segIntegral_closed x dt hx]
    have : (CplxOps.expI (x * dt) / CplxOps.ofReal x - CplxOps.ofReal (1 / x) : ℂ)
        - Complex.I * ((Complex.exp (Complex.I * (x * dt)) - 1) / (Complex.I * x)) = 0 := by
      simp only [copsExpI, copsOfReal]
      push_cast
      field_simp
      ring
    rw [this, norm_zero]
    positivity

/-- `tmp1 = -i ∫₀^dt e^{i y s} ds` up to `thr·dt²` (exact where not masked) -/
theorem derivIntegralTmp1_error (thr y dt : ℝ) (hthr : 0 < thr) (hdt : 0 ≤ dt)
    (hsmall : thr * dt ≤ 1) :
    ‖(derivIntegralTmp1 thr y dt : ℂ) + Complex.I * segIntegral y dt‖ ≤ thr * dt ^ 2 := by
  unfold derivIntegralTmp1
  by_cases hm : gradMask thr y = true
  · have hlt : |y| < thr := (gradMask_iff _ _).1 hm
    rw [if_pos hm]
    simp only [copsI, copsOfReal]
    have : -Complex.I * (dt:ℂ) + Complex.I * segIntegral y dt
        = -Complex.I * ((dt:ℂ) - segIntegral y dt) := by ring
    rw [this, norm_mul, norm_neg, Complex.norm_I, one_mul]
    have hx1 : |y * dt| ≤ 1 := by
      rw [abs_mul, abs_of_nonneg hdt]
      exact (mul_le_mul_of_nonneg_right hlt.le hdt).trans hsmall
    refine (norm_segIntegral_sub_le y dt hdt hx1).trans ?_
    exact mul_le_mul_of_nonneg_right hlt.le (sq_nonneg _)
  · have hm' : gradMask thr y = false := by simpa using hm
    have hy : y ≠ 0 := by
      rintro rfl
      rw [gradMask_false_iff] at hm'
      simp at hm'; linarith
    have hyc : (y:ℂ) ≠ 0 := by exact_mod_cast hy
    rw [if_neg hm, segIntegral_closed y dt hy]
    have : ((1 - CplxOps.expI (y * dt)) / CplxOps.ofReal y : ℂ)
        + Complex.I * ((Complex.exp (Complex.I * (y * dt)) - 1) / (Complex.I * y)) = 0 := by
      simp only [copsExpI, copsOfReal]
      push_cast
      field_simp
      ring
    rw [this, norm_zero]
    positivity

/-- **Grey zone, case `Ω_pq ≈ 0`** (`|λ_p-λ_q| < thr`, in particular every `p = q`): for EVERY
frequency (`x = E+λ_m-λ_n` masked or not) the entry is within `2·thr·dt³/3` of the nested
integral, i.e. relative `(4/3)·thr·dt` of its scale `dt²/2`.  Hypothesis `thr·dt ≤ 1`: the masks
are absolute, so the bound (and the accuracy of the code) degrades with the segment length; for
`dt ≳ 1/thr = 1e7` (in the units of the energies) the written limit value `dt²/2` is unrelated
to the integral (e.g. `x = 5e-8`, `dt = 1e8`: code `5e15`, integral `≈ (-2.2-0.95i)e15`). -/
theorem derivativeIntegral_masked_error (thr E Omn Opq dt : ℝ) (hthr : 0 < thr) (hdt : 0 ≤ dt)
    (hsmall : thr * dt ≤ 1) (hm : gradMask thr Opq = true) :
    ‖(derivativeIntegralEntry thr E Omn Opq dt : ℂ) - nestedIntegral (E + Omn) Opq dt‖
      ≤ 2 * thr * dt ^ 3 / 3 := by
  have hΩ : |Opq| < thr := (gradMask_iff _ _).1 hm
  have hΩdt : |Opq| * dt ≤ 1 := (mul_le_mul_of_nonneg_right hΩ.le hdt).trans hsmall
  have hdt3 : 0 ≤ dt ^ 3 := pow_nonneg hdt 3
  have h0 : gradMask thr 0 = true := by simp [gradMask, hthr]
  -- the entry only depends on `Opq` through the mask
  have hcongr : (derivativeIntegralEntry thr E Omn Opq dt : ℂ)
      = derivativeIntegralEntry thr E Omn 0 dt := by
    unfold derivativeIntegralEntry
    simp only [hm, h0, ↓reduceIte]
  by_cases hmx : gradMask thr (E + Omn) = true
  · have hx : |E + Omn| < thr := (gradMask_iff _ _).1 hmx
    have hval : (derivativeIntegralEntry thr E Omn Opq dt : ℂ) = (dt:ℂ) ^ 2 / 2 := by
      unfold derivativeIntegralEntry
      simp only [hm, hmx, ↓reduceIte, copsOfReal, Nat.cast_ofNat]
      push_cast; ring
    rw [hval]
    refine (nestedIntegral_sub_half_sq_le (E + Omn) Opq dt hdt hΩdt).trans ?_
    have : (|E + Omn| + |Opq|) * dt ^ 3 ≤ (thr + thr) * dt ^ 3 :=
      mul_le_mul_of_nonneg_right (add_le_add hx.le hΩ.le) hdt3
    linarith
  · have hmx' : gradMask thr (E + Omn) = false := by simpa using hmx
    have hex := derivativeIntegral_exact thr E Omn 0 dt hthr (Or.inl rfl)
      (Or.inr ((gradMask_false_iff _ _).1 hmx'))
      (Or.inr (by simpa using (gradMask_false_iff _ _).1 hmx'))
    rw [hcongr, hex]
    change ‖nestedIntegral (E + Omn) 0 dt - _‖ ≤ _
    refine (nestedIntegral_sub_zero_right_le (E + Omn) Opq dt hdt hΩdt).trans ?_
    have : |Opq| * dt ^ 3 ≤ thr * dt ^ 3 := mul_le_mul_of_nonneg_right hΩ.le hdt3
    have : 0 ≤ thr * dt ^ 3 := mul_nonneg hthr.le hdt3
    linarith

/-- the hypotheses of `derivativeIntegral_masked_error` hold for the threshold of the source, a
unit-length segment and a diagonal pair `p = q` -/
example : (0:ℝ) < 1e-7 ∧ (0:ℝ) ≤ 1 ∧ (1e-7:ℝ) * 1 ≤ 1 ∧ gradMask (1e-7:ℝ) 0 = true := by
  refine ⟨by norm_num, by norm_num, by norm_num, ?_⟩
  rw [gradMask_iff]; norm_num

/-- **Case `Ω_pq ≉ 0`, all `x`, `y`** (masked or not): the entry is within `2·thr·dt²/|Ω_pq|` of
the nested integral.  The bound is useful for `|Ω_pq| ≫ thr` only: the two limit values `i·dt`,
`-i·dt` are first-order accurate and are then DIVIDED by `Ω_pq`; for a level splitting of the order
of the threshold the error is of the order of the value itself, see
`derivativeIntegral_grey_zone_counterexample`. -/
theorem derivativeIntegral_unmasked_error (thr E Omn Opq dt : ℝ) (hthr : 0 < thr) (hdt : 0 ≤ dt)
    (hsmall : thr * dt ≤ 1) (hm : gradMask thr Opq = false) :
    ‖(derivativeIntegralEntry thr E Omn Opq dt : ℂ) - nestedIntegral (E + Omn) Opq dt‖
      ≤ 2 * thr * dt ^ 2 / |Opq| := by
  have hΩ : Opq ≠ 0 := by
    rintro rfl
    rw [gradMask_false_iff] at hm
    simp at hm; linarith
  have hΩc : (Opq:ℂ) ≠ 0 := by exact_mod_cast hΩ
  have h1 := derivIntegralTmp1_error thr (E + Omn + Opq) dt hthr hdt hsmall
  have h2 := derivIntegralTmp2_error thr (E + Omn) dt hthr hdt hsmall
  have hval : (derivativeIntegralEntry thr E Omn Opq dt : ℂ)
      = (derivIntegralTmp1 thr (E + Omn + Opq) dt + derivIntegralTmp2 thr (E + Omn) dt)
          / (Opq:ℂ) := by
    unfold derivativeIntegralEntry
    simp only [hm, Bool.false_eq_true, ↓reduceIte, copsOfReal]
  rw [hval, nestedIntegral_ne _ _ _ hΩ]
  have hdiff : (derivIntegralTmp1 thr (E + Omn + Opq) dt + derivIntegralTmp2 thr (E + Omn) dt)
        / (Opq:ℂ)
      - (segIntegral (E + Omn + Opq) dt - segIntegral (E + Omn) dt) / (Complex.I * Opq)
      = ((derivIntegralTmp1 thr (E + Omn + Opq) dt + Complex.I * segIntegral (E + Omn + Opq) dt)
          + (derivIntegralTmp2 thr (E + Omn) dt - Complex.I * segIntegral (E + Omn) dt))
          / (Opq:ℂ) := by
    have hI : Complex.I ≠ 0 := Complex.I_ne_zero
    field_simp
    ring_nf
    simp only [Complex.I_sq]
    ring
  rw [hdiff, norm_div, Complex.norm_real, Real.norm_eq_abs]
  apply div_le_div_of_nonneg_right _ (abs_nonneg _)
  refine (norm_add_le _ _).trans ?_
  linarith

/-- **Double mask.**  If `Ω_pq` is just outside the mask while both `x` and `y = x + Ω_pq` are
inside (possible for `thr ≤ |Ω_pq| < 2·thr`), the two limit values cancel and the code writes
exactly `0`. -/
theorem derivativeIntegral_double_mask_zero (thr E Omn Opq dt : ℝ)
    (hm : gradMask thr Opq = false) (hx : gradMask thr (E + Omn) = true)
    (hy : gradMask thr (E + Omn + Opq) = true) :
    (derivativeIntegralEntry thr E Omn Opq dt : ℂ) = 0 := by
  unfold derivativeIntegralEntry derivIntegralTmp1 derivIntegralTmp2
  simp only [hm, hx, hy, Bool.false_eq_true, ↓reduceIte, copsI, copsOfReal]
  simp

/-- **`derivativeIntegral_exact` is false without the sharpness hypotheses, by an O(1) margin.**
Concrete input with the threshold of the source: `E = [0.9e-7]`, `eigvals = [0, 1.1e-7]`, `dt = 1`,
entry `out[0,0,1,0,0]` (`Ω_pq = -1.1e-7`, `x = 0.9e-7`, `y = -0.2e-7`): the code writes `0`, the
nested integral is within `1e-7` of `dt²/2 = 1/2`.  (Python: `out[0,0,1,0,0] = -0-0j`,
`out[0,1,0,0,0] = 0.908…` instead of `≈ 0.5`.)  Nearly degenerate levels (splitting between one and
two thresholds, in absolute units) at a nearly resonant frequency. -/
theorem derivativeIntegral_grey_zone_counterexample :
    (derivativeIntegralEntry (1e-7:ℝ) 0.9e-7 0 (-1.1e-7) 1 : ℂ) = 0 ∧
    ‖(1:ℂ) / 2 - nestedIntegral (0.9e-7 + 0) (-1.1e-7) 1‖ ≤ 1e-7 ∧
    (1:ℝ) / 4 ≤ ‖(derivativeIntegralEntry (1e-7:ℝ) 0.9e-7 0 (-1.1e-7) 1 : ℂ)
        - nestedIntegral (0.9e-7 + 0) (-1.1e-7) 1‖ := by
  have h0 : (derivativeIntegralEntry (1e-7:ℝ) 0.9e-7 0 (-1.1e-7) 1 : ℂ) = 0 := by
    apply derivativeIntegral_double_mask_zero
    · rw [gradMask_false_iff]; norm_num [abs_of_neg]
    · rw [gradMask_iff]; norm_num [abs_of_pos]
    · rw [gradMask_iff]; norm_num [abs_of_neg]
  have h1 : ‖(1:ℂ) / 2 - nestedIntegral (0.9e-7 + 0) (-1.1e-7) 1‖ ≤ 1e-7 := by
    have h := nestedIntegral_sub_half_sq_le (0.9e-7 + 0) (-1.1e-7) 1 (by norm_num)
      (by norm_num [abs_of_neg])
    have e : ((1:ℝ):ℂ) ^ 2 / 2 = (1:ℂ) / 2 := by norm_num
    rw [e] at h
    refine h.trans ?_
    norm_num [abs_of_neg, abs_of_pos]
  refine ⟨h0, h1, ?_⟩
  rw [h0, zero_sub, norm_neg]
  have h2 : ‖(1:ℂ) / 2‖ = 1 / 2 := by norm_num
  have h3 := norm_sub_norm_le ((1:ℂ) / 2) (nestedIntegral (0.9e-7 + 0) (-1.1e-7) 1)
  rw [h2] at h3
  have : (1e-7:ℝ) ≤ 1 / 4 := by norm_num
  linarith

/-! ### c. filter-function derivative -/

/-- `∂/∂u Σ_k conj(B_k(u)) B_k(u) = 2 Re Σ_k conj(B_k) ∂B_k` for differentiable
`B_k : ℝ → ℂ`. -/
theorem ff_derivative_formula {nK : Nat} (B : Fin nK → ℝ → ℂ) (dB : Fin nK → ℂ) (u : ℝ)
    (hB : ∀ k, HasDerivAt (B k) (dB k) u) :
    HasDerivAt (fun v => ∑ k, starRingEnd ℂ (B k v) * B k v)
      (((2 * (∑ k, starRingEnd ℂ (B k u) * dB k).re : ℝ)) : ℂ) u := by
  have hk : ∀ k, HasDerivAt (fun v => starRingEnd ℂ (B k v) * B k v)
      (starRingEnd ℂ (dB k) * B k u + starRingEnd ℂ (B k u) * dB k) u := by
    intro k
    have hc : HasDerivAt (fun v => starRingEnd ℂ (B k v)) (starRingEnd ℂ (dB k)) u :=
      (hB k).star
    exact hc.mul (hB k)
  have hs := HasDerivAt.fun_sum (u := Finset.univ) fun k _ => hk k
  refine HasDerivAt.congr_deriv (f' := _) hs ?_
  rw [Complex.re_sum]
  push_cast
  rw [Finset.mul_sum]
  refine Finset.sum_congr rfl fun k _ => ?_
  apply Complex.ext <;> simp <;> ring

/-- real-valued form: `F(u) = Σ_k |B_k(u)|²` -/
theorem ff_derivative_formula_real {nK : Nat} (B : Fin nK → ℝ → ℂ) (dB : Fin nK → ℂ) (u : ℝ)
    (hB : ∀ k, HasDerivAt (B k) (dB k) u) :
    HasDerivAt (fun v => ∑ k, Complex.normSq (B k v))
      (2 * (∑ k, starRingEnd ℂ (B k u) * dB k).re) u := by
  have h := ff_derivative_formula B dB u hB
  have h2 := (Complex.reCLM.hasFDerivAt.comp_hasDerivAt u h)
  simp only [Complex.reCLM_apply, Complex.ofReal_re] at h2
  refine h2.congr_of_eventuallyEq (Filter.Eventually.of_forall fun v => ?_)
  simp only [Function.comp, Complex.reCLM_apply, Complex.re_sum]
  refine Finset.sum_congr rfl fun k _ => ?_
  rw [← Complex.normSq_eq_conj_mul_self, Complex.ofReal_re]

/-- entry of the model of `calculate_filter_function_derivative`, index order read from the
generated subscripts `ako,hotak->atho`:
`out[a][t][h][o] = 2 Re Σ_k conj(B[a][k][o]) · dB[h][o][t][a][k]`. -/
theorem ffDerivative_entry {nA nK nO nH nT : Nat} (B : Ten3 ℂ nA nK nO)
    (dB : Vector (Vector (Vector (Vector (Vector ℂ nK) nA) nT) nO) nH)
    (a : Fin nA) (t : Fin nT) (h : Fin nH) (o : Fin nO) :
    (ffDerivative (R := ℝ) B dB)[a][t][h][o]
      = 2 * (∑ k : Fin nK, starRingEnd ℂ B[a][k][o] * dB[h][o][t][a][k]).re ∧
    Gen.gradient_calculate_filter_function_derivative_0_subscripts = "ako,hotak->atho" ∧
    Gen.gradient_calculate_filter_function_derivative_0_args = ["ctrlmat.conj()", "ctrlmat_deriv"] :=
  ⟨ffDerivative_get B dB a t h o, rfl, rfl⟩

/-- **The assembled quantity is the derivative of the filter function.**  If the control matrix
depends differentiably on one control amplitude `u = u_h(t_g)` and `dB[h][o][g][a][k]` is the
derivative of `B(u)[a][k][o]`, then the entry `[a][g][h][o]` of the model of
`calculate_filter_function_derivative` is the derivative of the fidelity filter function
`F_a(ω_o) = Σ_k |B_ak(ω_o)|²`. -/
theorem ff_derivative_is_derivative {nA nK nO nH nT : Nat} (B : ℝ → Ten3 ℂ nA nK nO)
    (dB : Vector (Vector (Vector (Vector (Vector ℂ nK) nA) nT) nO) nH) (u : ℝ)
    (a : Fin nA) (t : Fin nT) (h : Fin nH) (o : Fin nO)
    (hB : ∀ k : Fin nK, HasDerivAt (fun v => (B v)[a][k][o]) dB[h][o][t][a][k] u) :
    HasDerivAt (fun v => ∑ k : Fin nK, Complex.normSq (B v)[a][k][o])
      (ffDerivative (R := ℝ) (B u) dB)[a][t][h][o] u := by
  rw [ffDerivative_get]
  exact ff_derivative_formula_real (fun k v => (B v)[a][k][o]) (fun k => dB[h][o][t][a][k]) u hB

/-! ### d. infidelity derivative: integrand, trapezoid rule, selection -/

/-- **`infidelity_derivative` is the trapezoid integral of `S·∂F/(2πd)`**, for a spectrum of shape
`(n_omega,)` (rank-0 instance of `'...o,...tho->...tho'`, broadcast over the noise operators)
and of shape `(k, n_omega)` (rank-1 instance), and it is the derivative of the discretised
infidelity: if `F(u)[a][o]` is differentiable in a control amplitude `u` with derivative
`dF[a][t][h][o]`, then `u ↦ integrate(S_a·F_a(u), ω)/(2πd)` has derivative
`infidelity_derivative[a][t][h]` (the trapezoid rule is linear, the spectrum does not depend on
the controls). -/
theorem infidelity_derivative_linear {nA nT nH nO : Nat} (d : Nat) (omega : Vec ℝ nO)
    (S0 : Vec ℝ nO) (S1 : Mat ℝ nA nO) (dF : Vector (Ten3 ℝ nT nH nO) nA)
    (a : Fin nA) (t : Fin nT) (h : Fin nH) :
    ((infidelityDerivative0 d omega S0 dF)[a][t][h]
      = integrate (Vector.ofFn fun o : Fin nO => S0[o] * dF[a][t][h][o]) omega
          / (2 * Real.pi * d)) ∧
    ((infidelityDerivative1 d omega S1 dF)[a][t][h]
      = integrate (Vector.ofFn fun o : Fin nO => S1[a][o] * dF[a][t][h][o]) omega
          / (2 * Real.pi * d)) ∧
    (∀ (F : Fin nO → ℝ → ℝ) (u : ℝ), (∀ o, HasDerivAt (F o) dF[a][t][h][o] u) →
      HasDerivAt (fun v => integrate (Vector.ofFn fun o => S1[a][o] * F o v) omega
          / (2 * Real.pi * d))
        (infidelityDerivative1 d omega S1 dF)[a][t][h] u) ∧
    (∀ (F : Fin nO → ℝ → ℝ) (u : ℝ), (∀ o, HasDerivAt (F o) dF[a][t][h][o] u) →
      HasDerivAt (fun v => integrate (Vector.ofFn fun o => S0[o] * F o v) omega
          / (2 * Real.pi * d))
        (infidelityDerivative0 d omega S0 dF)[a][t][h] u) := by
  refine ⟨infidelityDerivative0_get d omega S0 dF a t h,
    infidelityDerivative1_get d omega S1 dF a t h, ?_, ?_⟩
  · intro F u hF
    rw [infidelityDerivative1_get]
    exact (hasDerivAt_integrate (fun o v => S1[a][o] * F o v) _ omega u
      fun o => (hF o).const_mul _).div_const _
  · intro F u hF
    rw [infidelityDerivative0_get]
    exact (hasDerivAt_integrate (fun o v => S0[o] * F o v) _ omega u
      fun o => (hF o).const_mul _).div_const _

/-- the trapezoid rule of `util.integrate` written out -/
theorem integrate_trapezoid {nO : Nat} (f x : Vec ℝ nO) :
    integrate f x
      = (∑ i : Fin (nO - 1), (f[i.1 + 1]'(by omega) + f[i.1]'(by omega))
          * (x[i.1 + 1]'(by omega) - x[i.1]'(by omega))) / 2 := integrate_eq f x

/-- **Selecting noise operators by an index list returns the corresponding rows of the full
derivative.**  `idx : Vector (Fin nAll) k` is `n_idx` (any order, repetitions allowed).
(i) `calculate_filter_function_derivative` of the sliced control matrix `B[n_idx]` and of a
control-matrix derivative whose noise axis is the slice of the full one is the slice of the full
filter-function derivative; (ii) with a spectrum of shape `(n_omega,)`, and (iii) with a spectrum
of shape `(k, n_omega)` — one row per SELECTED operator, as `parse_spectrum(spectrum, omega,
n_idx)` now requires — whose rows are the rows `n_idx` of a full `(nAll, n_omega)` spectrum, the
infidelity derivative of the selection is the slice of the full infidelity derivative.
(That the control-matrix derivative itself is row-wise in the noise operator is visible in the
generated subscripts, where `a` is never contracted; the full
`calculate_derivative_of_control_matrix_from_scratch` is not modelled.) -/
theorem selection_is_slice {nAll k nK nT nH nO : Nat} (idx : Vector (Fin nAll) k)
    (B : Ten3 ℂ nAll nK nO)
    (dB : Vector (Vector (Vector (Vector (Vector ℂ nK) nAll) nT) nO) nH)
    (dBsel : Vector (Vector (Vector (Vector (Vector ℂ nK) k) nT) nO) nH)
    (hsel : ∀ (h : Fin nH) (o : Fin nO) (t : Fin nT) (i : Fin k),
      dBsel[h][o][t][i] = dB[h][o][t][idx[i]])
    (d : Nat) (omega S0 : Vec ℝ nO) (Sfull : Mat ℝ nAll nO)
    (dF : Vector (Ten3 ℝ nT nH nO) nAll) (i : Fin k) (t : Fin nT) (h : Fin nH) :
    (∀ o : Fin nO, (getFilterFunctionDerivative (R := ℝ) idx B dBsel)[i][t][h][o]
      = (ffDerivative (R := ℝ) B dB)[idx[i]][t][h][o]) ∧
    (infidelityDerivative0 d omega S0 (selectRows idx dF))[i][t][h]
      = (infidelityDerivative0 d omega S0 dF)[idx[i]][t][h] ∧
    (infidelityDerivative1 d omega (selectRows idx Sfull) (selectRows idx dF))[i][t][h]
      = (infidelityDerivative1 d omega Sfull dF)[idx[i]][t][h] := by
  refine ⟨fun o => ?_, ?_, ?_⟩
  · unfold getFilterFunctionDerivative
    rw [ffDerivative_get, ffDerivative_get, selectRows_get, hsel]
  · rw [infidelityDerivative0_get, infidelityDerivative0_get, selectRows_get]
  · rw [infidelityDerivative1_get, infidelityDerivative1_get, selectRows_get, selectRows_get]

/-- **The control-matrix derivative is row-wise in the noise operator**: in every generated
contraction of `_control_matrix_at_timestep_derivative` and of
`calculate_derivative_of_control_matrix_from_scratch` the noise index `a` is a free index, so
slicing the operand that carries `a` with `n_idx` slices the result along `a`.  (This is the
algebraic content of the hypothesis `hsel` of `selection_is_slice`; the element-wise steps between
the contractions — `util.tensor`, `np.diagonal`, reshapes, the `d == 2` shortcut, the
`n_coeffs_deriv / n_coeffs` term — act on each `a` separately as well but are not modelled.) -/
theorem gradient_contractions_rowwise {K : Type} [Zero K] [Add K] [Mul K]
    {nAll k nH nP nM nO nJ nN nK nC nD nT nS : Nat}
    (idx : Vector (Fin nAll) k) (i : Fin k) :
    (∀ (l : Vector (Vector (Vector (Vector K nM) nP) nH) nAll) (i1 : Ten3 K nO nP nM)
        (h : Fin nH) (o : Fin nO) (p : Fin nP),
      (Gen.gradient__control_matrix_at_timestep_derivative_0 (selectRows idx l) i1)[i][h][o][p]
        = (Gen.gradient__control_matrix_at_timestep_derivative_0 l i1)[idx[i]][h][o][p]) ∧
    (∀ (l : Vector (Vector (Vector (Vector K nM) nP) nH) nAll) (i2 : Ten3 K nO nP nM)
        (h : Fin nH) (o : Fin nO) (p : Fin nP),
      (Gen.gradient__control_matrix_at_timestep_derivative_1 (selectRows idx l) i2)[i][h][o][p]
        = (Gen.gradient__control_matrix_at_timestep_derivative_1 l i2)[idx[i]][h][o][p]) ∧
    (∀ (ph : Vec K nO) (b : Ten3 K nJ nN nK)
        (M : Vector (Vector (Vector (Vector (Vector K nN) nK) nO) nH) nAll)
        (j : Fin nJ) (h : Fin nH) (o : Fin nO),
      (Gen.gradient__control_matrix_at_timestep_derivative_2 ph b (selectRows idx M))[i][j][h][o]
        = (Gen.gradient__control_matrix_at_timestep_derivative_2 ph b M)[idx[i]][j][h][o]) ∧
    (∀ (ph : Vec K nO) (b : Ten3 K nJ nC nD) (nops : Ten3 K nAll nD nC) (I1 : Ten3 K nO nD nC)
        (j : Fin nJ) (o : Fin nO),
      (Gen.gradient_calculate_derivative_of_control_matrix_from_scratch_0 ph b
          (selectRows idx nops) I1)[i][j][o]
        = (Gen.gradient_calculate_derivative_of_control_matrix_from_scratch_0 ph b nops I1)[idx[i]][j][o]) ∧
    (∀ (cs : Vector (Ten3 K nAll nJ nO) nT)
        (ld : Vector (Vector (Vector (Vector (Vector K nK) nJ) nS) nH) nT)
        (h : Fin nH) (o : Fin nO) (s : Fin nS) (kk : Fin nK),
      (Gen.gradient_calculate_derivative_of_control_matrix_from_scratch_1
          (cs.map (selectRows idx)) ld)[h][o][s][i][kk]
        = (Gen.gradient_calculate_derivative_of_control_matrix_from_scratch_1 cs ld)[h][o][s][idx[i]][kk]) :=
  ⟨rowwise_step0 idx i, rowwise_step1 idx i, rowwise_step2 idx i, rowwise_scratch0 idx i,
    rowwise_scratch1 idx i⟩

/-- identifier selection: `None` selects everything in stored order; a list selects in the
REQUESTED order (so the rows of `n_coeffs_deriv` and of a 2-d spectrum follow the request) -/
theorem indicesFromIdentifiers_examples :
    indicesFromIdentifiers ["X", "Y", "Z"] none = some [0, 1, 2] ∧
    indicesFromIdentifiers ["X", "Y", "Z"] (some ["Z", "X"]) = some [2, 0] ∧
    indicesFromIdentifiers ["X", "Y", "Z"] (some ["Q"]) = none := by decide

/-- the shape check of `n_coeffs_deriv` accepts exactly `(len(n_idx), len(c_idx), n_dt)` -/
theorem nCoeffsDerivShapeOk_iff (sh : List Nat) (nSel cSel nDt : Nat) :
    nCoeffsDerivShapeOk (some sh) nSel cSel nDt = true ↔ sh = [nSel, cSel, nDt] := by
  simp [nCoeffsDerivShapeOk]

/-! ### e. the sensitivity-derivative term (open finding F12) -/

/-- **`n_coeffs_deriv / n_coeffs`.**  The code computes the contribution
`∂s · tr(…)` of a control-dependent sensitivity as `(∂s / s) · ctrlmat_step` with
`ctrlmat_step = s · c` (`c` the trace part).  Over the reals (with `x/0 = 0`) this equals the
intended `∂s · c` iff `s ≠ 0` (or the term vanishes anyway).  At `s = 0` the Python divides by
zero: `ds/0 = ±inf`, `inf · 0 = NaN` (IEEE), i.e. the gradient is NaN on every segment where a
sensitivity vanishes although the correct contribution `∂s · c` is finite. -/
theorem sensitivity_term (ds s : ℝ) (c : ℂ) :
    sensitivityTerm ds s ((s:ℂ) * c) = (ds:ℂ) * c ↔ (s ≠ 0 ∨ ds = 0 ∨ c = 0) := by
  unfold sensitivityTerm
  simp only [copsOfReal]
  constructor
  · intro h
    by_cases hs : s = 0
    · right
      subst hs
      simpa [eq_comm] using h
    · exact Or.inl hs
  · rintro (hs | hds | hc)
    · have : (s:ℂ) ≠ 0 := by exact_mod_cast hs
      push_cast; field_simp
    · subst hds; simp
    · subst hc; simp

/-- the concrete failing input: `s = 0`, `∂s = 1`, trace part `c = 1`; intended value `1`. -/
theorem sensitivity_term_fails_at_zero :
    sensitivityTerm (1:ℝ) 0 (((0:ℝ):ℂ) * 1) ≠ ((1:ℝ):ℂ) * 1 := by
  rw [Ne, sensitivity_term]
  simp

/-- the real-number identity the code relies on, and its hypothesis -/
theorem sensitivity_real (ds s c : ℝ) (hs : s ≠ 0) : ds / s * (s * c) = ds * c := by
  field_simp

/-! ### f. source pins -/

end FFVerif.C11
