/-
C01 (continued) — boundedness and frequency-reflection symmetry of the control matrix and of the
fidelity filter function computed by `calculate_control_matrix_from_scratch` /
`calculate_filter_function`, for the model AS IT IS (both branches of `_first_order_integral`,
no error term).  Property theorems; helper lemmas are in `FFVerif/Lemmas/BoundAux.lean`.

Norm used throughout: the Frobenius (Hilbert–Schmidt) norm
`BoundAux.frob X = √(Σ_ij |X_ij|²) = √tr(X†X)` (`BoundAux.frob_sq`, `BoundAux.frob_sq_trace`; it is
Mathlib's Frobenius norm, `BoundAux.frob_eq_norm`).
-/
import FFVerif.Lemmas.BoundAux
import FFVerif.Props.C14

namespace FFVerif.C01
open FFVerif FFVerif.Model FFVerif.BoundAux Complex Matrix

/-! ### 1. the kernel -/

/-- **Kernel bound.**  Every entry written by `_first_order_integral` has modulus at most the
segment duration: `|I(x, dt)| ≤ dt`, for every guard shape, every threshold `thr ≥ 0`, every
`x = ω + λ_m − λ_n` (resonant or not) and every `dt ≥ 0`.  Unmasked branch: the value is
`∫₀^{dt} e^{ixs} ds` (`firstOrderEntry_exact`) and `|e^{ixs}| = 1`; masked branch: the value is
`dt` itself.  The constant is sharp (`x = 0`, `firstOrderEntry_norm_zero`). -/
theorem firstOrderEntry_norm_le (kind : MaskKind) (thr x dt : ℝ) (hthr : 0 ≤ thr) (hdt : 0 ≤ dt) :
    ‖(firstOrderEntry kind thr x dt : ℂ)‖ ≤ dt :=
  BoundAux.firstOrderEntry_norm_le kind thr x dt hthr hdt

/-- in the masked branch (in particular at an exact resonance `x = 0`) the bound is attained -/
theorem firstOrderEntry_norm_masked (kind : MaskKind) (thr x dt : ℝ) (hdt : 0 ≤ dt)
    (hm : firstOrderMask kind thr x dt = false) :
    ‖(firstOrderEntry kind thr x dt : ℂ)‖ = dt := by
  unfold firstOrderEntry
  rw [if_neg (by simp [hm]), copsOfReal, Complex.norm_real, Real.norm_eq_abs, abs_of_nonneg hdt]

/-- sharpness: at `x = 0` every guard with `thr ≥ 0` writes `dt` -/
theorem firstOrderEntry_norm_zero (kind : MaskKind) (thr dt : ℝ) (hthr : 0 ≤ thr) (hdt : 0 ≤ dt) :
    ‖(firstOrderEntry kind thr 0 dt : ℂ)‖ = dt := by
  apply firstOrderEntry_norm_masked kind thr 0 dt hdt
  cases kind <;> simp [firstOrderMask] <;> linarith

/-- the guard read from the source satisfies the hypothesis `0 ≤ thr` -/
theorem maskThr_nonneg : (0 : ℝ) ≤ Gen.firstOrderMaskThr := by
  unfold Gen.firstOrderMaskThr; norm_num

section cm
variable {nG d nO nA nK : Nat}
  (eigvals : Mat ℝ nG d) (eigvecs props : Vector (Mat ℂ d d) nG)
  (omega : Vec ℝ nO) (basis : Vector (Mat ℂ d d) nK) (nOpers : Vector (Mat ℂ d d) nA)
  (nCoeffs : Mat ℝ nA nG) (dt t : Vec ℝ nG)

/-! ### 2. one entry of the control matrix -/

/-- **The control matrix is the list of Hilbert–Schmidt coefficients of one operator**:
`B_ak(ω) = tr(X_a(ω) C_k)` with
`X_a(ω) = Σ_g e^{iω t_g} s_a^{(g)} W_g (Ṽ_g†B_aV_g ∘ I_g(ω)) W_g†` (`BoundAux.cmOp`; `∘` entrywise,
`I_g` the matrix `_first_order_integral` computes, `W_g = Q_{g-1}†V_g`).  Pure algebra: no
hypotheses. -/
theorem cm_entry_eq_trace (kind : MaskKind) (thr : ℝ) (a : Fin nA) (k : Fin nK) (o : Fin nO) :
    (controlMatrixFromScratch kind thr eigvals eigvecs props omega basis nOpers nCoeffs dt t)[a][k][o]
      = Matrix.trace (cmOp kind thr eigvals eigvecs props omega nOpers nCoeffs dt t a o *
          basis[k].toMatrix) :=
  cm_entry_trace kind thr eigvals eigvecs props omega basis nOpers nCoeffs dt t a k o

/-- **Entry bound.**  For unitary eigenvector matrices `V_g` and unitary cumulative propagators
`Q_{g-1}`, durations `dt_g ≥ 0`, any guard with `thr ≥ 0`, ANY noise operator `B_a` (Hermitian or
not), real sensitivities (the model's `nCoeffs` are real by type) and a basis element `C_k`
normalised in the Hilbert–Schmidt sense (`tr(C_k†C_k) = 1`; Hermiticity and the other elements are
irrelevant), at every frequency

  `|B_ak(ω)| ≤ (Σ_g |s_a^{(g)}| dt_g) · ‖B_a‖_F`,

`‖·‖_F` the Frobenius norm `BoundAux.frob`, constant `1`.  No error term: the truncated branch of
`_first_order_integral` is included. -/
theorem cm_entry_norm_le (kind : MaskKind) (thr : ℝ) (hthr : 0 ≤ thr)
    (a : Fin nA) (k : Fin nK) (o : Fin nO)
    (hdt : ∀ g : Fin nG, 0 ≤ dt[g])
    (hV : ∀ g : Fin nG, (eigvecs[g].toMatrix)ᴴ * eigvecs[g].toMatrix = 1)
    (hQ : ∀ g : Fin nG, (props[g].toMatrix)ᴴ * props[g].toMatrix = 1)
    (hCk : Matrix.trace ((basis[k].toMatrix)ᴴ * basis[k].toMatrix) = 1) :
    ‖(controlMatrixFromScratch kind thr eigvals eigvecs props omega basis nOpers nCoeffs dt t)[a][k][o]‖
      ≤ (∑ g : Fin nG, |nCoeffs[a][g]| * dt[g]) * frob nOpers[a].toMatrix := by
  rw [cm_entry_trace]
  refine (norm_trace_mul_le _ _).trans ?_
  rw [frob_eq_one_of_trace hCk, mul_one]
  exact frob_cmOp_le kind thr hthr eigvals eigvecs props omega nOpers nCoeffs dt t a o hdt hV hQ

/-- the same for a basis element of arbitrary normalisation: the factor `‖C_k‖_F` appears -/
theorem cm_entry_norm_le' (kind : MaskKind) (thr : ℝ) (hthr : 0 ≤ thr)
    (a : Fin nA) (k : Fin nK) (o : Fin nO)
    (hdt : ∀ g : Fin nG, 0 ≤ dt[g])
    (hV : ∀ g : Fin nG, (eigvecs[g].toMatrix)ᴴ * eigvecs[g].toMatrix = 1)
    (hQ : ∀ g : Fin nG, (props[g].toMatrix)ᴴ * props[g].toMatrix = 1) :
    ‖(controlMatrixFromScratch kind thr eigvals eigvecs props omega basis nOpers nCoeffs dt t)[a][k][o]‖
      ≤ (∑ g : Fin nG, |nCoeffs[a][g]| * dt[g]) * frob nOpers[a].toMatrix *
          frob basis[k].toMatrix := by
  rw [cm_entry_trace]
  refine (norm_trace_mul_le _ _).trans ?_
  exact mul_le_mul_of_nonneg_right
    (frob_cmOp_le kind thr hthr eigvals eigvecs props omega nOpers nCoeffs dt t a o hdt hV hQ)
    (frob_nonneg _)

/-! ### 3. the fidelity filter function -/

/-- **Parseval form of the fidelity filter function**: for a complete basis of Hermitian elements
`F_aa(ω) = Σ_k |B_ak(ω)|² = ‖X_a(ω)‖_F²` (no unitarity needed). -/
theorem ff_fid_eq_frob_sq (kind : MaskKind) (thr : ℝ) (a : Fin nA) (o : Fin nO)
    (hC : Spec.IsComplete (Spec.basisOf basis))
    (hH : ∀ k : Fin nK, (basis[k].toMatrix)ᴴ = basis[k].toMatrix) :
    (filterFunctionFid (controlMatrixFromScratch kind thr eigvals eigvecs props omega basis nOpers
        nCoeffs dt t))[a][a][o]
      = ((frob (cmOp kind thr eigvals eigvecs props omega nOpers nCoeffs dt t a o) ^ 2 : ℝ) : ℂ) := by
  rw [ff_diag_nonneg]
  congr 1
  rw [← parseval hC hH]
  refine Finset.sum_congr rfl fun k _ => ?_
  rw [cm_entry_trace]
  rfl

/-- **Bound of the fidelity filter function.**  For a complete basis of Hermitian elements
(`Spec.IsComplete`: `M = Σ_k tr(M C_k) C_k`; orthonormality is a consequence), unitary `V_g`,
`Q_{g-1}`, `dt_g ≥ 0`, any guard with `thr ≥ 0`, any noise operator and every frequency the
diagonal filter function is real and

  `0 ≤ F_aa(ω) = Σ_k |B_ak(ω)|² ≤ (Σ_g |s_a^{(g)}| dt_g)² · ‖B_a‖_F²`

(Frobenius norm, constant `1`, independent of the dimension — NOT the sum of `cm_entry_norm_le`
over `k`, which would lose a factor `d²`).  No error term. -/
theorem ff_fid_le (kind : MaskKind) (thr : ℝ) (hthr : 0 ≤ thr) (a : Fin nA) (o : Fin nO)
    (hdt : ∀ g : Fin nG, 0 ≤ dt[g])
    (hV : ∀ g : Fin nG, (eigvecs[g].toMatrix)ᴴ * eigvecs[g].toMatrix = 1)
    (hQ : ∀ g : Fin nG, (props[g].toMatrix)ᴴ * props[g].toMatrix = 1)
    (hC : Spec.IsComplete (Spec.basisOf basis))
    (hH : ∀ k : Fin nK, (basis[k].toMatrix)ᴴ = basis[k].toMatrix) :
    let B := controlMatrixFromScratch kind thr eigvals eigvecs props omega basis nOpers nCoeffs dt t
    (filterFunctionFid B)[a][a][o] = ((∑ k : Fin nK, ‖B[a][k][o]‖ ^ 2 : ℝ) : ℂ)
      ∧ 0 ≤ ∑ k : Fin nK, ‖B[a][k][o]‖ ^ 2
      ∧ ∑ k : Fin nK, ‖B[a][k][o]‖ ^ 2
          ≤ (∑ g : Fin nG, |nCoeffs[a][g]| * dt[g]) ^ 2 * frob nOpers[a].toMatrix ^ 2 := by
  intro B
  refine ⟨ff_diag_nonneg B a o, Finset.sum_nonneg fun _ _ => by positivity, ?_⟩
  have h1 := ff_fid_eq_frob_sq eigvals eigvecs props omega basis nOpers nCoeffs dt t kind thr a o
    hC hH
  rw [ff_diag_nonneg] at h1
  have h2 : ∑ k : Fin nK, ‖B[a][k][o]‖ ^ 2
      = frob (cmOp kind thr eigvals eigvecs props omega nOpers nCoeffs dt t a o) ^ 2 := by
    exact_mod_cast h1
  rw [h2, ← mul_pow]
  exact pow_le_pow_left₀ (frob_nonneg _)
    (frob_cmOp_le kind thr hthr eigvals eigvecs props omega nOpers nCoeffs dt t a o hdt hV hQ) 2

/-- the same bound for the real part of the computed array element (its imaginary part is `0`) -/
theorem ff_fid_re_le (kind : MaskKind) (thr : ℝ) (hthr : 0 ≤ thr) (a : Fin nA) (o : Fin nO)
    (hdt : ∀ g : Fin nG, 0 ≤ dt[g])
    (hV : ∀ g : Fin nG, (eigvecs[g].toMatrix)ᴴ * eigvecs[g].toMatrix = 1)
    (hQ : ∀ g : Fin nG, (props[g].toMatrix)ᴴ * props[g].toMatrix = 1)
    (hC : Spec.IsComplete (Spec.basisOf basis))
    (hH : ∀ k : Fin nK, (basis[k].toMatrix)ᴴ = basis[k].toMatrix) :
    let F := filterFunctionFid
      (controlMatrixFromScratch kind thr eigvals eigvecs props omega basis nOpers nCoeffs dt t)
    0 ≤ (F[a][a][o]).re ∧ (F[a][a][o]).im = 0
      ∧ (F[a][a][o]).re
          ≤ (∑ g : Fin nG, |nCoeffs[a][g]| * dt[g]) ^ 2 * frob nOpers[a].toMatrix ^ 2 := by
  intro F
  obtain ⟨h1, h2, h3⟩ := ff_fid_le eigvals eigvecs props omega basis nOpers nCoeffs dt t kind thr
    hthr a o hdt hV hQ hC hH
  have hF : F[a][a][o] = _ := h1
  rw [hF]
  exact ⟨by rw [Complex.ofReal_re]; exact h2, Complex.ofReal_im _, by rw [Complex.ofReal_re]; exact h3⟩

/-- **Off-diagonal elements** (cross-correlated noise operators `a ≠ b`), same hypotheses:
`|F_ab(ω)| ≤ (Σ_g |s_a^{(g)}| dt_g)(Σ_g |s_b^{(g)}| dt_g) ‖B_a‖_F ‖B_b‖_F`. -/
theorem ff_fid_offdiag_le (kind : MaskKind) (thr : ℝ) (hthr : 0 ≤ thr) (a b : Fin nA) (o : Fin nO)
    (hdt : ∀ g : Fin nG, 0 ≤ dt[g])
    (hV : ∀ g : Fin nG, (eigvecs[g].toMatrix)ᴴ * eigvecs[g].toMatrix = 1)
    (hQ : ∀ g : Fin nG, (props[g].toMatrix)ᴴ * props[g].toMatrix = 1)
    (hC : Spec.IsComplete (Spec.basisOf basis))
    (hH : ∀ k : Fin nK, (basis[k].toMatrix)ᴴ = basis[k].toMatrix) :
    ‖(filterFunctionFid (controlMatrixFromScratch kind thr eigvals eigvecs props omega basis nOpers
        nCoeffs dt t))[a][b][o]‖
      ≤ ((∑ g : Fin nG, |nCoeffs[a][g]| * dt[g]) * frob nOpers[a].toMatrix) *
          ((∑ g : Fin nG, |nCoeffs[b][g]| * dt[g]) * frob nOpers[b].toMatrix) := by
  rw [ff_fidelity_def]
  have hsq : ∀ c : Fin nA,
      Real.sqrt (∑ k : Fin nK, ‖(controlMatrixFromScratch kind thr eigvals eigvecs props omega basis
        nOpers nCoeffs dt t)[c][k][o]‖ ^ 2)
      ≤ (∑ g : Fin nG, |nCoeffs[c][g]| * dt[g]) * frob nOpers[c].toMatrix := by
    intro c
    obtain ⟨_, _, h3⟩ := ff_fid_le eigvals eigvecs props omega basis nOpers nCoeffs dt t kind thr
      hthr c o hdt hV hQ hC hH
    rw [← mul_pow] at h3
    refine (Real.sqrt_le_sqrt h3).trans (le_of_eq (Real.sqrt_sq ?_))
    exact mul_nonneg (Finset.sum_nonneg fun g _ => mul_nonneg (abs_nonneg _) (hdt g)) (frob_nonneg _)
  refine (norm_sum_le _ _).trans ?_
  simp only [norm_mul, RCLike.norm_conj]
  refine (Real.sum_mul_le_sqrt_mul_sqrt _ _ _).trans ?_
  exact mul_le_mul (hsq a) (hsq b) (Real.sqrt_nonneg _)
    (mul_nonneg (Finset.sum_nonneg fun g _ => mul_nonneg (abs_nonneg _) (hdt g)) (frob_nonneg _))

/-! ### 4. reflection `ω ↦ −ω` -/

theorem herm_sandwich_apply (U A : Matrix (Fin d) (Fin d) ℂ) (hA : Aᴴ = A) (m n : Fin d) :
    starRingEnd ℂ ((Uᴴ * A * U) n m) = (Uᴴ * A * U) m n := by
  have h : (Uᴴ * A * U)ᴴ = Uᴴ * A * U := by
    rw [Matrix.conjTranspose_mul, Matrix.conjTranspose_mul, Matrix.conjTranspose_conjTranspose, hA,
      Matrix.mul_assoc]
  conv_rhs => rw [← h]
  rw [Matrix.conjTranspose_apply]
  rfl

/-- **Reflection symmetry of the control matrix.**  For a Hermitian noise operator `B_a`, a
Hermitian basis element `C_k` and real sensitivities (real by type in the model), the entry at
frequency `−ω` is the complex conjugate of the entry at `ω`: `B_ak(−ω) = conj B_ak(ω)`.
`omega'[o'] = −omega[o]` is all that is assumed about the two frequency vectors (so `−ω` may sit at
another position of the same array, or in another array); all other inputs are the same.  Holds for
every guard shape and threshold, both branches (the mask depends on `|x|`, `|x·dt|` only and
`I(−x) = conj I(x)`, `firstOrderEntry_neg`); no unitarity, no completeness, no sign condition on
`dt`. -/
theorem cm_neg_omega (kind : MaskKind) (thr : ℝ) (omega' : Vec ℝ nO)
    (a : Fin nA) (k : Fin nK) (o o' : Fin nO) (hω : omega'[o'] = -omega[o])
    (hB : (nOpers[a].toMatrix)ᴴ = nOpers[a].toMatrix)
    (hCk : (basis[k].toMatrix)ᴴ = basis[k].toMatrix) :
    (controlMatrixFromScratch kind thr eigvals eigvecs props omega' basis nOpers nCoeffs dt t)[a][k][o']
      = starRingEnd ℂ
          (controlMatrixFromScratch kind thr eigvals eigvecs props omega basis nOpers nCoeffs dt t)[a][k][o] := by
  rw [cm_entry, cm_entry, map_sum]
  refine Finset.sum_congr rfl fun g _ => ?_
  rw [map_sum]
  simp only [map_sum]
  rw [Finset.sum_comm]
  refine Finset.sum_congr rfl fun m _ => Finset.sum_congr rfl fun n _ => ?_
  have hx : omega'[o'] + (eigvals[g][n] - eigvals[g][m])
      = -(omega[o] + (eigvals[g][m] - eigvals[g][n])) := by rw [hω]; ring
  rw [hx, firstOrderEntry_neg, hω]
  simp only [map_mul, Complex.conj_ofReal, herm_sandwich_apply _ _ hB, herm_sandwich_apply _ _ hCk,
    ← Complex.exp_conj, Complex.conj_I]
  congr 4
  push_cast
  ring

/-- the same with the whole frequency vector negated (`omega' = −omega` elementwise) -/
theorem cm_neg_omega_map (kind : MaskKind) (thr : ℝ) (a : Fin nA) (k : Fin nK) (o : Fin nO)
    (hB : (nOpers[a].toMatrix)ᴴ = nOpers[a].toMatrix)
    (hCk : (basis[k].toMatrix)ᴴ = basis[k].toMatrix) :
    (controlMatrixFromScratch kind thr eigvals eigvecs props (Vector.map (fun x => -x) omega) basis
        nOpers nCoeffs dt t)[a][k][o]
      = starRingEnd ℂ
          (controlMatrixFromScratch kind thr eigvals eigvecs props omega basis nOpers nCoeffs dt t)[a][k][o] :=
  cm_neg_omega eigvals eigvecs props omega basis nOpers nCoeffs dt t kind thr _ a k o o
    (by simp only [Fin.getElem_fin, Vector.getElem_map]) hB hCk

/-- **Reflection symmetry of the fidelity filter function**: for Hermitian noise operators `B_a`,
`B_b`, a basis of Hermitian elements and real sensitivities, `F_ab(−ω) = conj F_ab(ω)`
(completeness / orthonormality of the basis not needed; every guard, both branches). -/
theorem ff_neg_omega (kind : MaskKind) (thr : ℝ) (omega' : Vec ℝ nO)
    (a b : Fin nA) (o o' : Fin nO) (hω : omega'[o'] = -omega[o])
    (hBa : (nOpers[a].toMatrix)ᴴ = nOpers[a].toMatrix)
    (hBb : (nOpers[b].toMatrix)ᴴ = nOpers[b].toMatrix)
    (hH : ∀ k : Fin nK, (basis[k].toMatrix)ᴴ = basis[k].toMatrix) :
    (filterFunctionFid (controlMatrixFromScratch kind thr eigvals eigvecs props omega' basis nOpers
        nCoeffs dt t))[a][b][o']
      = starRingEnd ℂ (filterFunctionFid (controlMatrixFromScratch kind thr eigvals eigvecs props
          omega basis nOpers nCoeffs dt t))[a][b][o] := by
  rw [ff_fidelity_def, ff_fidelity_def, map_sum]
  refine Finset.sum_congr rfl fun k _ => ?_
  rw [cm_neg_omega eigvals eigvecs props omega basis nOpers nCoeffs dt t kind thr omega' a k o o' hω
      hBa (hH k),
    cm_neg_omega eigvals eigvecs props omega basis nOpers nCoeffs dt t kind thr omega' b k o o' hω
      hBb (hH k), map_mul]

/-- … and the diagonal filter functions are even: `F_aa(−ω) = F_aa(ω)`. -/
theorem ff_neg_omega_diag (kind : MaskKind) (thr : ℝ) (omega' : Vec ℝ nO)
    (a : Fin nA) (o o' : Fin nO) (hω : omega'[o'] = -omega[o])
    (hBa : (nOpers[a].toMatrix)ᴴ = nOpers[a].toMatrix)
    (hH : ∀ k : Fin nK, (basis[k].toMatrix)ᴴ = basis[k].toMatrix) :
    (filterFunctionFid (controlMatrixFromScratch kind thr eigvals eigvecs props omega' basis nOpers
        nCoeffs dt t))[a][a][o']
      = (filterFunctionFid (controlMatrixFromScratch kind thr eigvals eigvecs props
          omega basis nOpers nCoeffs dt t))[a][a][o] := by
  rw [ff_neg_omega eigvals eigvecs props omega basis nOpers nCoeffs dt t kind thr omega' a a o o' hω
    hBa hBa hH, ff_diag_nonneg, Complex.conj_ofReal]

/-- the generalized filter function: `F_{ab,kl}(−ω) = conj F_{ab,kl}(ω)` -/
theorem ff_gen_neg_omega (kind : MaskKind) (thr : ℝ) (omega' : Vec ℝ nO)
    (a b : Fin nA) (k l : Fin nK) (o o' : Fin nO) (hω : omega'[o'] = -omega[o])
    (hBa : (nOpers[a].toMatrix)ᴴ = nOpers[a].toMatrix)
    (hBb : (nOpers[b].toMatrix)ᴴ = nOpers[b].toMatrix)
    (hk : (basis[k].toMatrix)ᴴ = basis[k].toMatrix) (hl : (basis[l].toMatrix)ᴴ = basis[l].toMatrix) :
    (filterFunctionGen (controlMatrixFromScratch kind thr eigvals eigvecs props omega' basis nOpers
        nCoeffs dt t))[a][b][k][l][o']
      = starRingEnd ℂ (filterFunctionGen (controlMatrixFromScratch kind thr eigvals eigvecs props
          omega basis nOpers nCoeffs dt t))[a][b][k][l][o] := by
  rw [ff_generalized_def, ff_generalized_def,
    cm_neg_omega eigvals eigvecs props omega basis nOpers nCoeffs dt t kind thr omega' a k o o' hω
      hBa hk,
    cm_neg_omega eigvals eigvecs props omega basis nOpers nCoeffs dt t kind thr omega' b l o o' hω
      hBb hl, map_mul]

/-- at `x = 0` every guard with `thr ≥ 0` writes exactly `dt` -/
theorem firstOrderEntry_zero_x (kind : MaskKind) (thr dt : ℝ) (hthr : 0 ≤ thr) :
    (firstOrderEntry kind thr 0 dt : ℂ) = (dt : ℂ) := by
  have hm : firstOrderMask kind thr 0 dt = false := by
    cases kind <;> simp [firstOrderMask] <;> linarith
  unfold firstOrderEntry
  rw [if_neg (by simp [hm]), copsOfReal]

/-- **The constant of `ff_fid_le` is the best possible**: for a pulse without control
(`EngineAux.NoControl`), sensitivities of one sign and `ω = 0` the bound is attained,
`F_aa(0) = (Σ_g |s_a^{(g)}| dt_g)² ‖B_a‖_F²`, for every noise operator, dimension and number of
segments. -/
theorem ff_fid_le_sharp (kind : MaskKind) (thr : ℝ) (hthr : 0 ≤ thr) (a : Fin nA) (o : Fin nO)
    (hN : EngineAux.NoControl eigvals eigvecs props) (hω : omega[o] = 0)
    (hs : ∀ g : Fin nG, 0 ≤ nCoeffs[a][g])
    (hC : Spec.IsComplete (Spec.basisOf basis))
    (hH : ∀ k : Fin nK, (basis[k].toMatrix)ᴴ = basis[k].toMatrix) :
    ∑ k : Fin nK, ‖(controlMatrixFromScratch kind thr eigvals eigvecs props omega basis nOpers
        nCoeffs dt t)[a][k][o]‖ ^ 2
      = (∑ g : Fin nG, |nCoeffs[a][g]| * dt[g]) ^ 2 * frob nOpers[a].toMatrix ^ 2 := by
  have hk : ∀ k : Fin nK,
      (controlMatrixFromScratch kind thr eigvals eigvecs props omega basis nOpers nCoeffs dt t)[a][k][o]
        = Matrix.trace (nOpers[a].toMatrix * basis[k].toMatrix) *
            ((∑ g : Fin nG, |nCoeffs[a][g]| * dt[g] : ℝ) : ℂ) := by
    intro k
    rw [EngineAux.cm_no_control_entry kind thr eigvals eigvecs props omega basis nOpers nCoeffs dt t
      a k o hN]
    congr 1
    unfold EngineAux.sensIntComputed
    push_cast
    refine Finset.sum_congr rfl fun g _ => ?_
    rw [hω, firstOrderEntry_zero_x kind thr _ hthr, abs_of_nonneg (hs g)]
    simp
  simp only [hk, norm_mul, mul_pow, Complex.norm_real, Real.norm_eq_abs, sq_abs]
  rw [← Finset.sum_mul, mul_comm]
  congr 1
  exact parseval hC hH _

end cm

/-! ### 5. the hypotheses are satisfiable; the bound is attained -/

open EngineAux in
/-- the spin-echo data of `EngineAux.SE` (two segments of length `1/2`, sensitivities `+1, −1`,
identity eigenvectors and propagators, noise `σ_z/2`, one-qubit Pauli basis, `ω = 3`) satisfy every
hypothesis of `cm_entry_norm_le`, `ff_fid_le`, `ff_fid_offdiag_le`, `cm_neg_omega`, `ff_neg_omega`
with the guard read from the source -/
example :
    (0 : ℝ) ≤ Gen.firstOrderMaskThr
    ∧ (∀ g : Fin 2, 0 ≤ SE.dt[g])
    ∧ (∀ g : Fin 2, (SE.ident[g].toMatrix)ᴴ * SE.ident[g].toMatrix = 1)
    ∧ Spec.IsComplete (Spec.basisOf (pauliBasis (K := ℂ) 1))
    ∧ (∀ k : Fin (4 ^ 1), ((pauliBasis (K := ℂ) 1)[k].toMatrix)ᴴ = (pauliBasis (K := ℂ) 1)[k].toMatrix)
    ∧ (∀ k : Fin (4 ^ 1), Matrix.trace (((pauliBasis (K := ℂ) 1)[k].toMatrix)ᴴ *
        (pauliBasis (K := ℂ) 1)[k].toMatrix) = 1)
    ∧ (SE.noise[(0 : Fin 1)].toMatrix)ᴴ = SE.noise[(0 : Fin 1)].toMatrix := by
  have hO := C14.pauliBasis_orthoHerm 1
  refine ⟨maskThr_nonneg, fun g => ?_, fun g => ?_, C14.pauliBasis_complete 1, fun k => hO.herm k,
    fun k => ?_, ?_⟩
  · fin_cases g <;> simp [SE.dt]
  · rw [SE.noControl.eigvecs_one g]; simp
  · have h1 := hO.herm k
    have h2 := hO.ortho k k
    simp only [Spec.basisOf] at h1 h2
    rw [h1, h2]; simp
  · rw [SE.noise_eq, Matrix.conjTranspose_smul]
    congr 1
    · simp
    · ext i j
      fin_cases i <;> fin_cases j <;> simp [Spec.sigma, Matrix.conjTranspose_apply]

open EngineAux in
/-- … and for these data the bound reads `0 ≤ F_zz(3) ≤ (1/2 + 1/2)² · ‖σ_z/2‖_F² = 1/2`
(the value is `8 sin⁴(3/4)/9 ≈ 0.19`, `C19.se_example`) -/
example :
    let F := filterFunctionFid (controlMatrixFromScratch Gen.firstOrderMaskKind
      Gen.firstOrderMaskThr SE.eigvals SE.ident SE.ident SE.omega (pauliBasis (K := ℂ) 1) SE.noise
      SE.coeffs SE.dt SE.t)
    0 ≤ (F[(0 : Fin 1)][(0 : Fin 1)][(0 : Fin 1)]).re
      ∧ (F[(0 : Fin 1)][(0 : Fin 1)][(0 : Fin 1)]).re ≤ 1 / 2 := by
  intro F
  have hO := C14.pauliBasis_orthoHerm 1
  have hI : ∀ g : Fin 2, (SE.ident[g].toMatrix)ᴴ * SE.ident[g].toMatrix = 1 := fun g => by
    rw [SE.noControl.eigvecs_one g]; simp
  obtain ⟨h0, _, h1⟩ := ff_fid_re_le SE.eigvals SE.ident SE.ident SE.omega (pauliBasis (K := ℂ) 1)
    SE.noise SE.coeffs SE.dt SE.t Gen.firstOrderMaskKind Gen.firstOrderMaskThr maskThr_nonneg 0 0
    (fun g => by fin_cases g <;> simp [SE.dt]) hI hI (C14.pauliBasis_complete 1)
    (fun k => hO.herm k)
  refine ⟨h0, h1.trans (le_of_eq ?_)⟩
  have hs : ∑ g : Fin 2, |SE.coeffs[(0 : Fin 1)][g]| * SE.dt[g] = 1 := by
    rw [Fin.sum_univ_two]; simp [SE.coeffs, SE.dt]; norm_num
  have hf : frob SE.noise[(0 : Fin 1)].toMatrix ^ 2 = 1 / 2 := by
    rw [frob_sq, SE.noise_eq]
    simp [Fin.sum_univ_two, Spec.sigma]
    norm_num
  rw [hs, hf]; norm_num

end FFVerif.C01
