/-
C09 (continued) — the error transfer matrix `exp(K)` is completely positive.

`numeric.error_transfer_matrix` returns `expm(K.sum(leading axes))`; as in `C09Exp`, `expm` is not
modelled and the statements are about Mathlib's matrix exponential `NormedSpace.exp` of the
model's cumulant function.

Complete positivity is expressed through a predicate `P` on Liouville matrices with the closure
properties `Spec.CPCone P` (unit, sums, non-negative multiples, products, limits) that holds for the
Liouville matrices `tr(C_i A C_j A†)` of the maps `ρ ↦ AρA†` (`Spec.liou`).  The intended instance is
`P S ↔ Choi(S) ⪰ 0` (`FFVerif.C15.IsCPLiou`, proved to be such a cone in `Props/C15CP.lean` by
another worker); the theorems hold for EVERY such `P`.

* `exp_gks_generator_cp` — `exp` of the Liouville matrix of
  `Φ(ρ) = Σ_kl W_kl A_k ρ A_l† + Gρ + ρG†`, `W ⪰ 0` (in particular of every Lindblad generator with
  Hermitian `H`, `exp_lindblad_cp`) lies in `P`.
* `etm_completely_positive` — `exp(K)` for the model's `K = cumulantGeneral Γ Δ` with real
  positive-semidefinite `Γ` and real `Δ` (first order, or first + second order).
* `etm_sum_completely_positive` — the same for `exp(Σ_a K_a)` when `Σ_a Γ_a ⪰ 0` (sum over noise
  sources with a positive-semidefinite cross-spectral matrix).
No Lie–Trotter formula is needed: `exp K = lim (L_Ψ/n + L(1 + G/n))ⁿ`
(`Spec.tendsto_pow_exp`, `Spec.exp_mem_cone_of_gks`).
Property theorems only (helper lemmas: FFVerif/Lemmas/ExpProductAux.lean, C09EtmCPAux.lean).
-/
import FFVerif.Props.C09cCP
import FFVerif.Lemmas.C09EtmCPAux

namespace FFVerif.C09
open FFVerif Matrix NormedSpace
open scoped ComplexOrder

variable {N d : Nat}

/-! ### Generators in GKS / Lindblad form -/

/-- **`exp` of a Hermiticity-preserving GKS generator is completely positive**: for an orthonormal
family `C` (`tr(C_i C_j) = δ_ij`; neither Hermiticity nor completeness is needed), every cone `P`
as described in the header, `W ⪰ 0`, arbitrary `A_k`, `G`: if `K_ij = tr(C_i Φ(C_j))` with
`Φ(ρ) = Σ_kl W_kl A_k ρ A_l† + Gρ + ρG†`, then `P (exp K)`. -/
theorem exp_gks_generator_cp {P : Matrix (Fin N) (Fin N) ℂ → Prop} (hP : Spec.CPCone P)
    (C : Fin N → Matrix (Fin d) (Fin d) ℂ)
    (hO : ∀ i j, trace (C i * C j) = if i = j then 1 else 0)
    (hsand : ∀ A : Matrix (Fin d) (Fin d) ℂ, P (Spec.liou C A)) {M : Nat}
    (W : Matrix (Fin M) (Fin M) ℂ) (hW : W.PosSemidef) (A : Fin M → Matrix (Fin d) (Fin d) ℂ)
    (G : Matrix (Fin d) (Fin d) ℂ) (K : Matrix (Fin N) (Fin N) ℂ)
    (hK : ∀ i j, K i j = trace (C i * Spec.gksMap W A G Gᴴ (C j))) : P (exp K) :=
  Spec.exp_mem_cone_of_gks hP hO hsand W hW A G K hK

/-- **`exp` of a Lindblad generator is completely positive**: Hermitian `H`, arbitrary jump
operators, rates `γ_m ≥ 0`. -/
theorem exp_lindblad_cp {P : Matrix (Fin N) (Fin N) ℂ → Prop} (hP : Spec.CPCone P)
    (C : Fin N → Matrix (Fin d) (Fin d) ℂ)
    (hO : ∀ i j, trace (C i * C j) = if i = j then 1 else 0)
    (hsand : ∀ A : Matrix (Fin d) (Fin d) ℂ, P (Spec.liou C A)) {M : Nat}
    (H : Matrix (Fin d) (Fin d) ℂ) (hH : Hᴴ = H) (A : Fin M → Matrix (Fin d) (Fin d) ℂ)
    (γ : Fin M → ℝ) (hγ : ∀ m, 0 ≤ γ m) (K : Matrix (Fin N) (Fin N) ℂ)
    (hK : ∀ i j, K i j = trace (C i * lindblad H A γ (C j))) : P (exp K) := by
  refine exp_gks_generator_cp hP C hO hsand (Matrix.diagonal fun m => (γ m : ℂ))
    (PosSemidef.diagonal fun m => Complex.zero_le_real.mpr (hγ m)) A
    (-Complex.I • H - (1 / 2 : ℂ) • ∑ m, (γ m : ℂ) • ((A m)ᴴ * A m)) K ?_
  intro i j
  rw [hK, lindblad_eq_gks]
  congr 3
  rw [conjTranspose_sub, conjTranspose_smul, conjTranspose_smul, conjTranspose_sum, hH]
  have hs : ∀ m : Fin M, ((γ m : ℂ) • ((A m)ᴴ * A m))ᴴ = (γ m : ℂ) • ((A m)ᴴ * A m) := by
    intro m
    rw [conjTranspose_smul, conjTranspose_mul, conjTranspose_conjTranspose, Complex.star_def,
      Complex.conj_ofReal]
  simp only [hs, Complex.star_def, map_neg, Complex.conj_I, neg_neg, map_div₀, map_one, map_ofNat]

/-! ### The error transfer matrix -/

/-- the frequency shifts as a function (`none`: first order only, i.e. `Δ = 0`) -/
def optFn (Δ : Option (Mat ℂ N N)) : Fin N → Fin N → ℂ :=
  match Δ with
  | none => fun _ _ => 0
  | some D => fn D

/-- the model's cumulant function for either setting of `second_order` -/
theorem cumulant_general_opt (C : Vector (Mat ℂ d d) N) (Γ : Mat ℂ N N)
    (Δ : Option (Mat ℂ N N)) (i j : Fin N) :
    (Model.cumulantGeneral Γ Δ (Model.fourElementTraces C))[i][j]
      = Spec.K1 (Spec.basisOf C) (fn Γ) i j + Spec.K2 (Spec.basisOf C) (optFn Δ) i j := by
  cases Δ with
  | none =>
    rw [(cumulant_general_model C Γ Γ i j).1]
    simp [optFn, Spec.K2]
  | some D => rw [(cumulant_general_model C Γ D i j).2, Spec.Kfull, optFn]

/-- function-level core: `exp` of `K1(Γ) + K2(Δ)` for real positive-semidefinite `Γ`, real `Δ` -/
theorem exp_cumulant_cp {P : Matrix (Fin N) (Fin N) ℂ → Prop} (hP : Spec.CPCone P)
    (C : Fin N → Matrix (Fin d) (Fin d) ℂ) (hH : Spec.IsOrthoHerm C)
    (hsand : ∀ A : Matrix (Fin d) (Fin d) ℂ, P (Spec.liou C A))
    (Γ Δ : Fin N → Fin N → ℂ) (hΓ : (Matrix.of Γ).PosSemidef)
    (hΓr : ∀ k l, starRingEnd ℂ (Γ k l) = Γ k l) (hΔr : ∀ k l, starRingEnd ℂ (Δ k l) = Δ k l)
    (K : Matrix (Fin N) (Fin N) ℂ) (hK : ∀ i j, K i j = Spec.K1 C Γ i j + Spec.K2 C Δ i j) :
    P (exp K) := by
  have hG : (-(1 / 2 : ℂ) • ∑ k, ∑ l, Γ k l • (C k * C l))ᴴ
      = -(1 / 2 : ℂ) • ∑ k, ∑ l, Γ k l • (C l * C k) := by
    rw [conjTranspose_smul, conjTranspose_sum]
    congr 1
    · simp
    · refine Finset.sum_congr rfl fun k _ => ?_
      rw [conjTranspose_sum]
      refine Finset.sum_congr rfl fun l _ => ?_
      rw [conjTranspose_smul, conjTranspose_mul, hH.herm, hH.herm]
      congr 1
      exact hΓr k l
  refine exp_gks_generator_cp hP C hH.ortho hsand
    (Matrix.of fun k l => (Γ k l + Γ l k) / 2) (symmetrised_posSemidef (Matrix.of Γ) hΓ) C
    (-(1 / 2 : ℂ) • ∑ k, ∑ l, Γ k l • (C k * C l) + Spec.K2Op C Δ) K ?_
  intro i j
  rw [hK, Spec.K1_eq_trace_K1Map, Spec.K2_eq_trace_comm, ← trace_add, ← Matrix.mul_add,
    Spec.K1Map_eq_gks hH.herm, Spec.gksMap_add_comm, conjTranspose_add, hG,
    Spec.K2Op_conjTranspose hH.herm Δ hΔr, sub_eq_add_neg]

/-- **The error transfer matrix is completely positive.**  For every orthonormal Hermitian basis
`C`, every real positive-semidefinite matrix `Γ` of decay amplitudes and real frequency shifts `Δ`
(`Δ = none`: first order only), the exponential of the model's cumulant function
`K = cumulantGeneral Γ Δ (fourElementTraces C)` lies in every cone `P` with the closure properties
`Spec.CPCone` that contains the maps `ρ ↦ AρA†` — i.e. `exp(K)` is completely positive.
(Reality of `Γ` matters: for a complex Hermitian `Γ ⪰ 0` the map `𝒦` contains a part `[X, ·]`
with HERMITIAN `X`, whose exponential `e^X · e^{-X}` is not Hermiticity preserving — numerically,
Pauli basis, `Γ = v v†`, `v = e_1 + i e_2`: `choi(exp K)` deviates from its adjoint by 0.86; `K` is
still cCP in the sense of the package's test, which is blind to the `Gρ + ρG'` part — see
`cumulant_first_order_cCP`.) -/
theorem etm_completely_positive {P : Matrix (Fin N) (Fin N) ℂ → Prop} (hP : Spec.CPCone P)
    (C : Vector (Mat ℂ d d) N) (hH : Spec.IsOrthoHerm (Spec.basisOf C))
    (hsand : ∀ A : Matrix (Fin d) (Fin d) ℂ, P (Spec.liou (Spec.basisOf C) A))
    (Γ : Mat ℂ N N) (hΓ : Γ.toMatrix.PosSemidef)
    (hΓr : ∀ k l : Fin N, starRingEnd ℂ Γ[k][l] = Γ[k][l]) (Δ : Option (Mat ℂ N N))
    (hΔr : ∀ D, Δ = some D → ∀ k l : Fin N, starRingEnd ℂ D[k][l] = D[k][l]) :
    P (exp (Model.cumulantGeneral Γ Δ (Model.fourElementTraces C)).toMatrix) := by
  refine exp_cumulant_cp hP (Spec.basisOf C) hH hsand (fn Γ) (optFn Δ) hΓ hΓr ?_ _
    (fun i j => cumulant_general_opt C Γ Δ i j)
  cases Δ with
  | none => intro k l; simp [optFn]
  | some D => exact hΔr D rfl

/-- `K1` is additive in the decay amplitudes -/
theorem K1_finset_sum {ι : Type} (s : Finset ι) (C : Fin N → Matrix (Fin d) (Fin d) ℂ)
    (Γ : ι → Fin N → Fin N → ℂ) (i j : Fin N) :
    Spec.K1 C (fun k l => ∑ a ∈ s, Γ a k l) i j = ∑ a ∈ s, Spec.K1 C (Γ a) i j := by
  unfold Spec.K1
  rw [← Finset.mul_sum]
  congr 1
  simp only [Finset.sum_mul]
  symm
  rw [Finset.sum_comm]
  refine Finset.sum_congr rfl fun k _ => ?_
  rw [Finset.sum_comm]

/-- `K2` is additive in the frequency shifts -/
theorem K2_finset_sum {ι : Type} (s : Finset ι) (C : Fin N → Matrix (Fin d) (Fin d) ℂ)
    (Δ : ι → Fin N → Fin N → ℂ) (i j : Fin N) :
    Spec.K2 C (fun k l => ∑ a ∈ s, Δ a k l) i j = ∑ a ∈ s, Spec.K2 C (Δ a) i j := by
  unfold Spec.K2
  rw [← Finset.mul_sum]
  congr 1
  simp only [Finset.sum_mul]
  symm
  rw [Finset.sum_comm]
  refine Finset.sum_congr rfl fun k _ => ?_
  rw [Finset.sum_comm]

/-- **… and so is the error transfer matrix of the sum over noise sources**
(`expm(K.sum(axis=leading axes))`): for a finite family `a ∈ s` of real decay amplitudes `Γ a` and
real frequency shifts `Δ a` (pairs of noise sources) whose SUM `Σ_a Γ_a` is positive semidefinite
(the individual cross terms need not be), `exp(Σ_a K_a)` is completely positive. -/
theorem etm_sum_completely_positive {ι : Type} (s : Finset ι)
    {P : Matrix (Fin N) (Fin N) ℂ → Prop} (hP : Spec.CPCone P)
    (C : Vector (Mat ℂ d d) N) (hH : Spec.IsOrthoHerm (Spec.basisOf C))
    (hsand : ∀ A : Matrix (Fin d) (Fin d) ℂ, P (Spec.liou (Spec.basisOf C) A))
    (Γ : ι → Mat ℂ N N) (hΓ : (∑ a ∈ s, (Γ a).toMatrix).PosSemidef)
    (hΓr : ∀ a ∈ s, ∀ k l : Fin N, starRingEnd ℂ (Γ a)[k][l] = (Γ a)[k][l])
    (Δ : ι → Option (Mat ℂ N N))
    (hΔr : ∀ a ∈ s, ∀ D, Δ a = some D → ∀ k l : Fin N, starRingEnd ℂ D[k][l] = D[k][l]) :
    P (exp (∑ a ∈ s,
      (Model.cumulantGeneral (Γ a) (Δ a) (Model.fourElementTraces C)).toMatrix)) := by
  refine exp_cumulant_cp hP (Spec.basisOf C) hH hsand (fun k l => ∑ a ∈ s, fn (Γ a) k l)
    (fun k l => ∑ a ∈ s, optFn (Δ a) k l) ?_ ?_ ?_ _ ?_
  · convert hΓ using 1
    ext k l
    simp only [Matrix.of_apply, Matrix.sum_apply, Mat.toMatrix_apply, fn]
  · intro k l
    rw [map_sum]
    exact Finset.sum_congr rfl fun a ha => hΓr a ha k l
  · intro k l
    rw [map_sum]
    refine Finset.sum_congr rfl fun a ha => ?_
    cases h : Δ a with
    | none => simp [optFn]
    | some D => exact hΔr a ha D h k l
  · intro i j
    rw [K1_finset_sum, K2_finset_sum, ← Finset.sum_add_distrib, Matrix.sum_apply]
    exact Finset.sum_congr rfl fun a _ => cumulant_general_opt C (Γ a) (Δ a) i j

/-! ### Non-vacuity -/

/-- `Spec.CPCone` is satisfiable together with the sandwich hypothesis (trivially, by the
predicate that holds everywhere; the intended instance is `Choi ⪰ 0`) -/
example (C : Fin N → Matrix (Fin d) (Fin d) ℂ) :
    ∃ P : Matrix (Fin N) (Fin N) ℂ → Prop, Spec.CPCone P ∧ ∀ A, P (Spec.liou C A) :=
  ⟨fun _ => True, ⟨trivial, fun _ _ => trivial, fun _ _ _ _ => trivial, fun _ _ => trivial,
    by simp⟩, fun _ => trivial⟩

/-- the hypotheses of `etm_completely_positive` on `C`, `Γ`, `Δ` are satisfiable: Pauli basis,
`Γ = 1`, `Δ = 1` -/
example : ∃ (C : Vector (Mat ℂ 2 2) 4) (Γ : Mat ℂ 4 4) (Δ : Option (Mat ℂ 4 4)),
    Spec.IsOrthoHerm (Spec.basisOf C) ∧ Γ.toMatrix.PosSemidef ∧
    (∀ k l : Fin 4, starRingEnd ℂ Γ[k][l] = Γ[k][l]) ∧
    (∀ D, Δ = some D → ∀ k l : Fin 4, starRingEnd ℂ D[k][l] = D[k][l]) := by
  have h1 : ∀ k l : Fin 4, starRingEnd ℂ (Mat.one : Mat ℂ 4 4)[k][l] = (Mat.one : Mat ℂ 4 4)[k][l] := by
    intro k l
    simp only [Mat.one, Mat.ofFn_get]
    split_ifs <;> simp
  refine ⟨pauliVec, Mat.one, some Mat.one, pauliVec_basisOf ▸ Spec.pauliBasis_orthoHerm, ?_, h1, ?_⟩
  · rw [Mat.toMatrix_one]; exact PosSemidef.one
  · intro D hD
    cases hD
    exact h1

end FFVerif.C09
