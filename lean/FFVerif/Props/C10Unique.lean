/-
C10 (continued) — the second-order filter function computed by
`calculate_second_order_filter_function` (path without cached intermediates, model
`secondOrderFFFromScratch`) does not depend on WHICH eigen-decomposition the `eigh` oracle returned.

One segment contributes
`Σ_{ijmn} I(λ_i − λ_j, λ_m − λ_n) · (s_a (V†B_aV)_{ij} (W†C_kW)_{ji}) · (s_b (V†B_bV)_{mn} (W†C_lW)_{nm})`,
`W = Q†V`, with `I` the entry of `_second_order_integral` (all three cases of its exact-zero masks),
plus products of one-segment control matrices.  The first is a four-index operator function of the
segment Hamiltonian (`EighUniqueAux.quad_sum_unique`: independent of the eigenbasis for EVERY
function of four eigenvalues), the second is covered by `C01.cm_eigh_independent`.  Exact equality
of the returned arrays over ℝ/ℂ; every guard of `_first_order_integral`, every frequency.
-/
import FFVerif.Props.C01Unique
import FFVerif.Props.C10Asm

namespace FFVerif.C10
open FFVerif FFVerif.Model FFVerif.C02 FFVerif.EighUniqueAux FFVerif.SecondOrderAsm Complex Matrix

/-- **One segment's "last interval" term does not depend on the eigen-decomposition** — for ANY
function `F` of four eigenvalues in place of the `_second_order_integral` entry. -/
theorem so_segment_eigh_independent {d : Nat} {H : Matrix (Fin d) (Fin d) ℂ} {D D' : Fin d → ℝ}
    {V V' : Matrix (Fin d) (Fin d) ℂ} (h : IsEigh H D V) (h' : IsEigh H D' V')
    (F : ℝ → ℝ → ℝ → ℝ → ℂ) (ca cb : ℂ) (Ba Bb Ck Cl Q : Matrix (Fin d) (Fin d) ℂ) :
    ∑ i, ∑ j, ∑ m, ∑ n, F (D' i) (D' j) (D' m) (D' n)
        * (ca * (V'ᴴ * Ba * V') i j * ((Qᴴ * V')ᴴ * Ck * (Qᴴ * V')) j i)
        * (cb * (V'ᴴ * Bb * V') m n * ((Qᴴ * V')ᴴ * Cl * (Qᴴ * V')) n m)
      = ∑ i, ∑ j, ∑ m, ∑ n, F (D i) (D j) (D m) (D n)
        * (ca * (Vᴴ * Ba * V) i j * ((Qᴴ * V)ᴴ * Ck * (Qᴴ * V)) j i)
        * (cb * (Vᴴ * Bb * V) m n * ((Qᴴ * V)ᴴ * Cl * (Qᴴ * V)) n m) := by
  have key : ∀ (D : Fin d → ℝ) (V : Matrix (Fin d) (Fin d) ℂ),
      ∑ i, ∑ j, ∑ m, ∑ n, F (D i) (D j) (D m) (D n)
        * (ca * (Vᴴ * Ba * V) i j * ((Qᴴ * V)ᴴ * Ck * (Qᴴ * V)) j i)
        * (cb * (Vᴴ * Bb * V) m n * ((Qᴴ * V)ᴴ * Cl * (Qᴴ * V)) n m)
      = ca * cb * ∑ i, ∑ j, ((Vᴴ * Ba * V) i j * (Vᴴ * (Q * Ck * Qᴴ) * V) j i) *
          ∑ m, ∑ n, F (D i) (D j) (D m) (D n)
            * ((Vᴴ * Bb * V) m n * (Vᴴ * (Q * Cl * Qᴴ) * V) n m) := by
    intro D V
    rw [C01.propagated_sandwich, C01.propagated_sandwich, Finset.mul_sum]
    refine Finset.sum_congr rfl fun i _ => ?_
    rw [Finset.mul_sum]
    refine Finset.sum_congr rfl fun j _ => ?_
    rw [Finset.mul_sum, Finset.mul_sum]
    refine Finset.sum_congr rfl fun m _ => ?_
    rw [Finset.mul_sum, Finset.mul_sum]
    refine Finset.sum_congr rfl fun n _ => ?_
    ring
  rw [key D' V', key D V, quad_sum_unique h h' F Ba (Q * Ck * Qᴴ) Bb (Q * Cl * Qᴴ)]

/-- entry of the "last interval" term of segment `g` as the no-intermediates path forms it -/
theorem scratch_step_entry {d nO nA nK : ℕ} (ev : Vec ℝ d) (V Q : Mat ℂ d d) (omega : Vec ℝ nO)
    (basis : Vector (Mat ℂ d d) nK) (nOpers : Vector (Mat ℂ d d) nA) (c : Fin nA → ℝ) (dt : ℝ)
    (a b : Fin nA) (k l : Fin nK) (o : Fin nO) :
    (secondOrderStep (secondOrderIntegral omega ev dt)
        (Vector.ofFn fun a => Mat.smul (CplxOps.ofReal (c a)) (transformByUnitary V nOpers[a]))
        (Vector.ofFn fun k => transformByUnitary (Mat.mul (Mat.adjoint Q) V) basis[k]))[a][b][k][l][o]
      = ∑ i : Fin d, ∑ j : Fin d, ∑ m : Fin d, ∑ n : Fin d,
          (secondOrderEntry omega[o] (ev[i] - ev[j]) (ev[m] - ev[n]) dt : ℂ)
          * (((c a : ℝ) : ℂ) * ((V.toMatrix)ᴴ * nOpers[a].toMatrix * V.toMatrix) i j
              * (((Q.toMatrix)ᴴ * V.toMatrix)ᴴ * basis[k].toMatrix * ((Q.toMatrix)ᴴ * V.toMatrix)) j i)
          * (((c b : ℝ) : ℂ) * ((V.toMatrix)ᴴ * nOpers[b].toMatrix * V.toMatrix) m n
              * (((Q.toMatrix)ᴴ * V.toMatrix)ᴴ * basis[l].toMatrix * ((Q.toMatrix)ᴴ * V.toMatrix)) n m) := by
  rw [secondOrderStep_get]
  refine Finset.sum_congr rfl fun i _ => Finset.sum_congr rfl fun j _ =>
    Finset.sum_congr rfl fun m _ => Finset.sum_congr rfl fun n _ => ?_
  rw [secondOrderIntegral_get, SecondOrderAsm.vec_ofFn_get, SecondOrderAsm.vec_ofFn_get,
    SecondOrderAsm.vec_ofFn_get, SecondOrderAsm.vec_ofFn_get, C01.smul_getElem, C01.smul_getElem,
    C01.transformByUnitary_getElem, C01.transformByUnitary_getElem, C01.transformByUnitary_getElem,
    C01.transformByUnitary_getElem, Mat.toMatrix_mul, Mat.toMatrix_adjoint, copsOfReal, copsOfReal]

/-- the loop `secondOrderFF` only sees the per-segment "last interval" terms and the one-segment
control matrices -/
theorem secondOrderFF_congr {nG d nO nA nK : ℕ}
    (ints ints' : Vector (Vector (Ten4 ℂ d d d d) nO) nG) (nT nT' : Vector (Ten3 ℂ nA d d) nG)
    (bT bT' : Vector (Ten3 ℂ nK d d) nG) (cm cm' : Vector (Ten3 ℂ nA nK nO) nG)
    (hstep : ∀ (g : Fin nG) (a b : Fin nA) (k l : Fin nK) (o : Fin nO),
      (secondOrderStep ints'[g] nT'[g] bT'[g])[a][b][k][l][o]
        = (secondOrderStep ints[g] nT[g] bT[g])[a][b][k][l][o])
    (hcm : cm' = cm) :
    secondOrderFF ints' nT' bT' cm' = secondOrderFF ints nT bT cm := by
  subst hcm
  refine Vector.ext fun a ha => Vector.ext fun b hb => Vector.ext fun k hk => Vector.ext fun l hl =>
    Vector.ext fun o ho => ?_
  have := secondOrderFF_get ints nT bT cm' ⟨a, ha⟩ ⟨b, hb⟩ ⟨k, hk⟩ ⟨l, hl⟩ ⟨o, ho⟩
  have h' := secondOrderFF_get ints' nT' bT' cm' ⟨a, ha⟩ ⟨b, hb⟩ ⟨k, hk⟩ ⟨l, hl⟩ ⟨o, ho⟩
  simp only [Fin.getElem_fin] at this h' hstep
  rw [this, h']
  refine Finset.sum_congr rfl fun g _ => ?_
  exact congrArg (· + _) (hstep g ⟨a, ha⟩ ⟨b, hb⟩ ⟨k, hk⟩ ⟨l, hl⟩ ⟨o, ho⟩)

/-- **`secondOrderFF_eigh_independent`: the second-order filter function does not depend on the
output of `eigh`.**  Two outputs `(eigvals, eigvecs)`, `(eigvals', eigvecs')` of `eigh` for the same
segment Hamiltonians `H_g` (both satisfying the contract `C02.IsEigh`), same cumulative propagators,
noise data and times: `calculate_second_order_filter_function` (no-intermediates path) returns the
same array.  Every dimension, segment count, operator list (Hermitian or not), basis, frequency;
every guard `kind` / `thr` of `_first_order_integral`; all three branches of the exact-zero masks of
`_second_order_integral`. -/
theorem secondOrderFF_eigh_independent {nG d nO nA nK : ℕ} (kind : MaskKind) (thr : ℝ)
    (eigvals eigvals' : Mat ℝ nG d) (eigvecs eigvecs' props : Vector (Mat ℂ d d) nG)
    (omega : Vec ℝ nO) (basis : Vector (Mat ℂ d d) nK) (nOpers : Vector (Mat ℂ d d) nA)
    (nCoeffs : Mat ℝ nA nG) (dt t : Vec ℝ nG)
    (H : Fin nG → Matrix (Fin d) (Fin d) ℂ)
    (hE : ∀ g : Fin nG, IsEigh (H g) (fun j => eigvals[g.1][j]) eigvecs[g.1].toMatrix)
    (hE' : ∀ g : Fin nG, IsEigh (H g) (fun j => eigvals'[g.1][j]) eigvecs'[g.1].toMatrix) :
    secondOrderFFFromScratch kind thr eigvals' eigvecs' props omega basis nOpers nCoeffs dt t
      = secondOrderFFFromScratch kind thr eigvals eigvecs props omega basis nOpers nCoeffs dt t := by
  unfold secondOrderFFFromScratch
  refine secondOrderFF_congr _ _ _ _ _ _ _ _ (fun g a b k l o => ?_) ?_
  · rw [SecondOrderAsm.vec_ofFn_get, SecondOrderAsm.vec_ofFn_get, SecondOrderAsm.vec_ofFn_get,
      SecondOrderAsm.vec_ofFn_get, SecondOrderAsm.vec_ofFn_get, SecondOrderAsm.vec_ofFn_get,
      SecondOrderAsm.vec_ofFn_get, SecondOrderAsm.vec_ofFn_get]
    rw [scratch_step_entry, scratch_step_entry]
    exact so_segment_eigh_independent (hE g) (hE' g)
      (fun x y z w => (secondOrderEntry omega[o] (x - y) (z - w) dt[g] : ℂ))
      ((nCoeffs[a][g] : ℝ) : ℂ) ((nCoeffs[b][g] : ℝ) : ℂ) nOpers[a].toMatrix nOpers[b].toMatrix
      basis[k].toMatrix basis[l].toMatrix props[g].toMatrix
  · refine Vector.ext fun g hg => ?_
    rw [Vector.getElem_ofFn, Vector.getElem_ofFn]
    exact C01.cm_eigh_independent kind thr #v[eigvals[g]] #v[eigvals'[g]] #v[eigvecs[g]]
      #v[eigvecs'[g]] #v[props[g]] omega basis nOpers _ #v[dt[g]] #v[t[g]] (fun _ => H ⟨g, hg⟩)
      (fun x => by
        rcases x with ⟨_ | x, hx⟩
        · exact hE ⟨g, hg⟩
        · omega)
      (fun x => by
        rcases x with ⟨_ | x, hx⟩
        · exact hE' ⟨g, hg⟩
        · omega)

/-- **Non-vacuity with a genuinely degenerate Hamiltonian**: the two outputs of `eigh` for
`σ_z ⊗ 1` of `Props/C01Unique.lean` (other eigenvalue order, rotated basis of the degenerate `+1`
eigenspace, a phase) give the same second-order filter function, for any other inputs. -/
example {nO nA nK : Nat} (kind : MaskKind) (thr : ℝ) (props : Vector (Mat ℂ 4 4) 1)
    (omega : Vec ℝ nO) (basis : Vector (Mat ℂ 4 4) nK) (nOpers : Vector (Mat ℂ 4 4) nA)
    (nCoeffs : Mat ℝ nA 1) (dt t : Vec ℝ 1) :
    secondOrderFFFromScratch kind thr C01.szIdVals' C01.szIdVecs' props omega basis nOpers nCoeffs
        dt t
      = secondOrderFFFromScratch kind thr C01.szIdVals C01.szIdVecs props omega basis nOpers nCoeffs
        dt t :=
  secondOrderFF_eigh_independent kind thr C01.szIdVals C01.szIdVals' C01.szIdVecs C01.szIdVecs' props
    omega basis nOpers nCoeffs dt t (fun _ => C01.szId) C01.szId_eigh C01.szId_eigh'

end FFVerif.C10
