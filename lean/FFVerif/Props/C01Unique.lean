/-
C01 (continued) — the control matrix computed by `calculate_control_matrix_from_scratch`, and what is
built on it, does not depend on WHICH eigen-decomposition the `eigh` oracle returned.

LAPACK's `eigh` is free in the phases of the eigenvectors and in the choice of an orthonormal basis
inside degenerate eigenspaces, and the contract `C02.IsEigh H D V` (`H V = V diag(D)`, `V` unitary,
`D` real) does not even fix the order of the eigenvalues.  Here: for two outputs `(D, V)`, `(D', V')`
satisfying the contract for the same segment Hamiltonians, the model `controlMatrixFromScratch`
returns the SAME ARRAY — for every guard shape and threshold of `_first_order_integral` (closed-form
and truncated branch alike), every frequency (on / near / off resonance), every dimension, segment
count, operator list and basis.  No error term is needed: one segment's contribution is
`Σ_{mn} F(λ_m, λ_n) (V†BV)_{mn} (V†(Q C Q†)V)_{nm}` with `F(x, y) = _first_order_integral entry at
ω + x − y`, a "double operator function" of `H`, and such sums are independent of the eigenbasis for
EVERY `F` (`EighUniqueAux.double_sum_unique`: the transition matrix `W = V†V'` only connects equal
eigenvalues).

All statements are over ℝ/ℂ (exact arithmetic); at IEEE doubles two eigen-decompositions give
results that differ by rounding (the sums are formed in another basis).
-/
import FFVerif.Lemmas.EighUniqueAux
import FFVerif.Props.C01Seg
import FFVerif.Props.C13Prop
import FFVerif.Props.C08Inv

namespace FFVerif.C01
open FFVerif FFVerif.Model FFVerif.C02 FFVerif.EighUniqueAux Complex Matrix MeasureTheory
  intervalIntegral

/-! ### 1. One segment -/

/-- `(Q†V)† C (Q†V) = V† (Q C Q†) V` -/
theorem propagated_sandwich {d : Nat} (V Q C : Matrix (Fin d) (Fin d) ℂ) :
    (Qᴴ * V)ᴴ * C * (Qᴴ * V) = Vᴴ * (Q * C * Qᴴ) * V := by
  rw [Matrix.conjTranspose_mul, Matrix.conjTranspose_conjTranspose]
  simp only [Matrix.mul_assoc]

/-- **One segment's contribution to a control-matrix entry does not depend on the eigen-decomposition**
— for ANY function `F` of two eigenvalues in place of the `_first_order_integral` entry. -/
theorem cm_segment_eigh_independent {d : Nat} {H : Matrix (Fin d) (Fin d) ℂ} {D D' : Fin d → ℝ}
    {V V' : Matrix (Fin d) (Fin d) ℂ} (h : IsEigh H D V) (h' : IsEigh H D' V')
    (F : ℝ → ℝ → ℂ) (e c : ℂ) (B C Q : Matrix (Fin d) (Fin d) ℂ) :
    ∑ m, ∑ n, e * (c * (V'ᴴ * B * V') m n) * F (D' m) (D' n) * ((Qᴴ * V')ᴴ * C * (Qᴴ * V')) n m
      = ∑ m, ∑ n, e * (c * (Vᴴ * B * V) m n) * F (D m) (D n) * ((Qᴴ * V)ᴴ * C * (Qᴴ * V)) n m := by
  have key : ∀ (D : Fin d → ℝ) (V : Matrix (Fin d) (Fin d) ℂ),
      ∑ m, ∑ n, e * (c * (Vᴴ * B * V) m n) * F (D m) (D n) * ((Qᴴ * V)ᴴ * C * (Qᴴ * V)) n m
        = e * c * ∑ m, ∑ n, F (D m) (D n) * (Vᴴ * B * V) m n * (Vᴴ * (Q * C * Qᴴ) * V) n m := by
    intro D V
    rw [propagated_sandwich, Finset.mul_sum]
    refine Finset.sum_congr rfl fun m _ => ?_
    rw [Finset.mul_sum]
    refine Finset.sum_congr rfl fun n _ => ?_
    ring
  rw [key D' V', key D V, double_sum_unique h h' F B (Q * C * Qᴴ)]

/-! ### 2. The control matrix -/

section cm
variable {nG d nO nA nK : Nat}

/-- **The control matrix does not depend on the output of `eigh`, entry by entry.**  Two outputs
`(eigvals, eigvecs)`, `(eigvals', eigvecs')` of `eigh` for the same segment Hamiltonians `H_g` (both
satisfying the contract; eigenvalues possibly listed in another order, other bases of degenerate
eigenspaces, other phases), same cumulative propagators / noise data / times: every entry of
`calculate_control_matrix_from_scratch` is the same.  Every guard `kind`, every threshold `thr`
(negative, zero, huge), every frequency. -/
theorem cm_eigh_independent_entry (kind : MaskKind) (thr : ℝ)
    (eigvals eigvals' : Mat ℝ nG d) (eigvecs eigvecs' props : Vector (Mat ℂ d d) nG)
    (omega : Vec ℝ nO) (basis : Vector (Mat ℂ d d) nK) (nOpers : Vector (Mat ℂ d d) nA)
    (nCoeffs : Mat ℝ nA nG) (dt t : Vec ℝ nG)
    (H : Fin nG → Matrix (Fin d) (Fin d) ℂ)
    (hE : ∀ g : Fin nG, IsEigh (H g) (fun j => eigvals[g.1][j]) eigvecs[g.1].toMatrix)
    (hE' : ∀ g : Fin nG, IsEigh (H g) (fun j => eigvals'[g.1][j]) eigvecs'[g.1].toMatrix)
    (a : Fin nA) (k : Fin nK) (o : Fin nO) :
    (controlMatrixFromScratch kind thr eigvals' eigvecs' props omega basis nOpers nCoeffs dt t)[a][k][o]
      = (controlMatrixFromScratch kind thr eigvals eigvecs props omega basis nOpers nCoeffs dt
          t)[a][k][o] := by
  rw [cm_entry, cm_entry]
  refine Finset.sum_congr rfl fun g _ => ?_
  exact cm_segment_eigh_independent (hE g) (hE' g)
    (fun x y => (firstOrderEntry kind thr (omega[o] + (x - y)) dt[g] : ℂ))
    (Complex.exp (Complex.I * ((omega[o] : ℂ) * (t[g] : ℂ)))) ((nCoeffs[a][g] : ℝ) : ℂ)
    nOpers[a].toMatrix basis[k].toMatrix props[g].toMatrix

/-- **`cm_eigh_independent`: `calculate_control_matrix_from_scratch` returns the same array for any
two outputs of `eigh`** (data equality of the model's outputs; hypotheses as in
`cm_eigh_independent_entry`).  In particular for the exact kernel (`kind = .neZero`) and for the
production guard (`Gen.firstOrderMaskKind`, `Gen.firstOrderMaskThr`) inside, at the border of and
outside its grey zone. -/
theorem cm_eigh_independent (kind : MaskKind) (thr : ℝ)
    (eigvals eigvals' : Mat ℝ nG d) (eigvecs eigvecs' props : Vector (Mat ℂ d d) nG)
    (omega : Vec ℝ nO) (basis : Vector (Mat ℂ d d) nK) (nOpers : Vector (Mat ℂ d d) nA)
    (nCoeffs : Mat ℝ nA nG) (dt t : Vec ℝ nG)
    (H : Fin nG → Matrix (Fin d) (Fin d) ℂ)
    (hE : ∀ g : Fin nG, IsEigh (H g) (fun j => eigvals[g.1][j]) eigvecs[g.1].toMatrix)
    (hE' : ∀ g : Fin nG, IsEigh (H g) (fun j => eigvals'[g.1][j]) eigvecs'[g.1].toMatrix) :
    controlMatrixFromScratch kind thr eigvals' eigvecs' props omega basis nOpers nCoeffs dt t
      = controlMatrixFromScratch kind thr eigvals eigvecs props omega basis nOpers nCoeffs dt t := by
  refine Vector.ext fun a ha => Vector.ext fun k hk => Vector.ext fun o ho => ?_
  exact cm_eigh_independent_entry kind thr eigvals eigvals' eigvecs eigvecs' props omega basis nOpers
    nCoeffs dt t H hE hE' ⟨a, ha⟩ ⟨k, hk⟩ ⟨o, ho⟩

/-- the same with each run's OWN cumulative propagators, computed by the model of
`numeric.diagonalize` from its own eigen-data (`props = propagators[:-1]`): two complete runs
`diagonalize` → `calculate_control_matrix_from_scratch` whose `eigh` calls returned different data
give the same control matrix (`C13.propagators_unique` for the propagators). -/
theorem cm_eigh_independent_diagonalize (kind : MaskKind) (thr : ℝ)
    (eigvals eigvals' : Mat ℝ nG d) (eigvecs eigvecs' : Vector (Mat ℂ d d) nG)
    (omega : Vec ℝ nO) (basis : Vector (Mat ℂ d d) nK) (nOpers : Vector (Mat ℂ d d) nA)
    (nCoeffs : Mat ℝ nA nG) (dt t : Vec ℝ nG)
    (H : Fin nG → Matrix (Fin d) (Fin d) ℂ)
    (hE : ∀ g : Fin nG, IsEigh (H g) (fun j => eigvals[g.1][j]) eigvecs[g.1].toMatrix)
    (hE' : ∀ g : Fin nG, IsEigh (H g) (fun j => eigvals'[g.1][j]) eigvecs'[g.1].toMatrix) :
    controlMatrixFromScratch kind thr eigvals' eigvecs'
        (Vector.ofFn fun g : Fin nG => (propagators eigvals' eigvecs' dt)[g.1]) omega basis nOpers
        nCoeffs dt t
      = controlMatrixFromScratch kind thr eigvals eigvecs
        (Vector.ofFn fun g : Fin nG => (propagators eigvals eigvecs dt)[g.1]) omega basis nOpers
        nCoeffs dt t := by
  have hp : (Vector.ofFn fun g : Fin nG => (propagators eigvals' eigvecs' dt)[g.1])
      = Vector.ofFn fun g : Fin nG => (propagators eigvals eigvecs dt)[g.1] := by
    refine Vector.ext fun g hg => ?_
    rw [Vector.getElem_ofFn, Vector.getElem_ofFn]
    exact C13.propagators_unique eigvals eigvals' eigvecs eigvecs' dt H hE hE' g (Nat.le_of_lt hg)
  rw [hp]
  exact cm_eigh_independent kind thr eigvals eigvals' eigvecs eigvecs' _ omega basis nOpers nCoeffs
    dt t H hE hE'

/-- the instance for the code as it is (guard shape and threshold read from the source by the
translator): exact equality, also inside the grey zone `|x·dt| ≤ 1e-7` of the guard -/
theorem cm_eigh_independent_current
    (eigvals eigvals' : Mat ℝ nG d) (eigvecs eigvecs' props : Vector (Mat ℂ d d) nG)
    (omega : Vec ℝ nO) (basis : Vector (Mat ℂ d d) nK) (nOpers : Vector (Mat ℂ d d) nA)
    (nCoeffs : Mat ℝ nA nG) (dt t : Vec ℝ nG)
    (H : Fin nG → Matrix (Fin d) (Fin d) ℂ)
    (hE : ∀ g : Fin nG, IsEigh (H g) (fun j => eigvals[g.1][j]) eigvecs[g.1].toMatrix)
    (hE' : ∀ g : Fin nG, IsEigh (H g) (fun j => eigvals'[g.1][j]) eigvecs'[g.1].toMatrix) :
    controlMatrixFromScratch Gen.firstOrderMaskKind Gen.firstOrderMaskThr eigvals' eigvecs' props
        omega basis nOpers nCoeffs dt t
      = controlMatrixFromScratch Gen.firstOrderMaskKind Gen.firstOrderMaskThr eigvals eigvecs props
        omega basis nOpers nCoeffs dt t :=
  cm_eigh_independent _ _ eigvals eigvals' eigvecs eigvecs' props omega basis nOpers nCoeffs dt t H
    hE hE'

/-- **Error version for the production guard** (the statement asked for along the route through the
defining integral, `cm_segment_form_error` for both outputs and the triangle inequality): the two
control matrices differ by at most the sum of the two truncation bounds.  It is SUPERSEDED by
`cm_eigh_independent_current` — the difference is exactly `0` — and is proved from it. -/
theorem cm_eigh_independent_error
    (eigvals eigvals' : Mat ℝ nG d) (eigvecs eigvecs' props : Vector (Mat ℂ d d) nG)
    (omega : Vec ℝ nO) (basis : Vector (Mat ℂ d d) nK) (nOpers : Vector (Mat ℂ d d) nA)
    (nCoeffs : Mat ℝ nA nG) (dt t : Vec ℝ nG)
    (H : Fin nG → Matrix (Fin d) (Fin d) ℂ)
    (hE : ∀ g : Fin nG, IsEigh (H g) (fun j => eigvals[g.1][j]) eigvecs[g.1].toMatrix)
    (hE' : ∀ g : Fin nG, IsEigh (H g) (fun j => eigvals'[g.1][j]) eigvecs'[g.1].toMatrix)
    (hdt : ∀ g : Fin nG, 0 ≤ dt[g]) (a : Fin nA) (k : Fin nK) (o : Fin nO) :
    ‖(controlMatrixFromScratch Gen.firstOrderMaskKind Gen.firstOrderMaskThr eigvals' eigvecs' props
        omega basis nOpers nCoeffs dt t)[a][k][o]
      - (controlMatrixFromScratch Gen.firstOrderMaskKind Gen.firstOrderMaskThr eigvals eigvecs props
        omega basis nOpers nCoeffs dt t)[a][k][o]‖
      ≤ (∑ g : Fin nG, 1e-7 * dt[g] * |nCoeffs[a][g]| *
          ∑ m : Fin d, ∑ n : Fin d,
            ‖((eigvecs[g].toMatrix)ᴴ * nOpers[a].toMatrix * eigvecs[g].toMatrix) m n‖ *
            ‖(((props[g].toMatrix)ᴴ * eigvecs[g].toMatrix)ᴴ * basis[k].toMatrix *
              ((props[g].toMatrix)ᴴ * eigvecs[g].toMatrix)) n m‖)
        + ∑ g : Fin nG, 1e-7 * dt[g] * |nCoeffs[a][g]| *
          ∑ m : Fin d, ∑ n : Fin d,
            ‖((eigvecs'[g].toMatrix)ᴴ * nOpers[a].toMatrix * eigvecs'[g].toMatrix) m n‖ *
            ‖(((props[g].toMatrix)ᴴ * eigvecs'[g].toMatrix)ᴴ * basis[k].toMatrix *
              ((props[g].toMatrix)ᴴ * eigvecs'[g].toMatrix)) n m‖ := by
  rw [cm_eigh_independent_current eigvals eigvals' eigvecs eigvecs' props omega basis nOpers nCoeffs
    dt t H hE hE', sub_self, norm_zero]
  have hb : ∀ (V : Vector (Mat ℂ d d) nG), 0 ≤ ∑ g : Fin nG, 1e-7 * dt[g] * |nCoeffs[a][g]| *
          ∑ m : Fin d, ∑ n : Fin d,
            ‖((V[g].toMatrix)ᴴ * nOpers[a].toMatrix * V[g].toMatrix) m n‖ *
            ‖(((props[g].toMatrix)ᴴ * V[g].toMatrix)ᴴ * basis[k].toMatrix *
              ((props[g].toMatrix)ᴴ * V[g].toMatrix)) n m‖ := by
    intro V
    refine Finset.sum_nonneg fun g _ => mul_nonneg (mul_nonneg (mul_nonneg (by norm_num) (hdt g))
      (abs_nonneg _)) (Finset.sum_nonneg fun m _ => Finset.sum_nonneg fun n _ =>
        mul_nonneg (norm_nonneg _) (norm_nonneg _))
  exact add_nonneg (hb eigvecs) (hb eigvecs')

/-! ### 3. The defining integral (the right-hand side of `cm_segment_form`) -/

/-- the propagator inside a segment `U_g(s) = V e^{-iDs} V† Q` of `cm_segment_form` does not depend
on the eigen-decomposition (it is `exp(-i s H) Q`, `C02.piecewise_is_exp`) -/
theorem Useg_eigh_independent {d : Nat} {H : Matrix (Fin d) (Fin d) ℂ} {D D' : Fin d → ℝ}
    {V V' : Matrix (Fin d) (Fin d) ℂ} (h : IsEigh H D V) (h' : IsEigh H D' V')
    (Q : Matrix (Fin d) (Fin d) ℂ) (s : ℝ) : Useg D' V' Q s = Useg D V Q s := by
  have e := operator_function_unique h h' (fun x => Complex.exp (-(Complex.I * ((x : ℂ) * (s : ℂ)))))
  exact congrArg (· * Q) e

/-- `U_g(s) = exp(-i s H_g) Q_{g-1}` (Mathlib's matrix exponential): the propagator inside a segment
written without any eigen-data -/
theorem Useg_eq_exp {d : Nat} {H : Matrix (Fin d) (Fin d) ℂ} {D : Fin d → ℝ}
    {V : Matrix (Fin d) (Fin d) ℂ} (h : IsEigh H D V) (Q : Matrix (Fin d) (Fin d) ℂ) (s : ℝ) :
    Useg D V Q s = NormedSpace.exp ((-(Complex.I * (s : ℂ))) • H) * Q := by
  rw [← piecewise_is_exp h s]
  unfold Useg segProp
  simp only [mul_comm]

/-- **Segment form without eigen-data** (`cm_segment_form` ∘ `C02.piecewise_is_exp`): on the exact
branch the control matrix computed from ANY output of `eigh` is
`Σ_g ∫₀^{dt_g} e^{iω(t_g+s)} s_a^{(g)} tr(U_g(s)† B_a U_g(s) C_k) ds` with
`U_g(s) = exp(-i s H_g) Q_{g-1}` — an expression in the Hamiltonians, the cumulative propagators
and the noise data only. -/
theorem cm_segment_form_exp (kind : MaskKind) (thr : ℝ) (hthr : 0 ≤ thr)
    (eigvals : Mat ℝ nG d) (eigvecs props : Vector (Mat ℂ d d) nG)
    (omega : Vec ℝ nO) (basis : Vector (Mat ℂ d d) nK) (nOpers : Vector (Mat ℂ d d) nA)
    (nCoeffs : Mat ℝ nA nG) (dt t : Vec ℝ nG)
    (H : Fin nG → Matrix (Fin d) (Fin d) ℂ)
    (hE : ∀ g : Fin nG, IsEigh (H g) (fun j => eigvals[g.1][j]) eigvecs[g.1].toMatrix)
    (a : Fin nA) (k : Fin nK) (o : Fin nO)
    (hmask : ∀ (g : Fin nG) (m n : Fin d),
      firstOrderMask kind thr (omega[o] + (eigvals[g][m] - eigvals[g][n])) dt[g] = true) :
    (controlMatrixFromScratch kind thr eigvals eigvecs props omega basis nOpers nCoeffs dt t)[a][k][o]
      = ∑ g : Fin nG, ∫ s in (0:ℝ)..dt[g],
          Complex.exp (Complex.I * ((omega[o] : ℂ) * ((t[g] + s : ℝ) : ℂ))) * (nCoeffs[a][g] : ℂ) *
            Matrix.trace ((NormedSpace.exp ((-(Complex.I * (s : ℂ))) • H g) * props[g].toMatrix)ᴴ *
              nOpers[a].toMatrix *
              (NormedSpace.exp ((-(Complex.I * (s : ℂ))) • H g) * props[g].toMatrix) *
              basis[k].toMatrix) := by
  rw [cm_segment_form kind thr hthr eigvals eigvecs props omega basis nOpers nCoeffs dt t a k o hmask]
  have hU : ∀ (g : Fin nG) (s : ℝ),
      Useg (fun m => eigvals[g][m]) eigvecs[g].toMatrix props[g].toMatrix s
        = NormedSpace.exp ((-(Complex.I * (s : ℂ))) • H g) * props[g].toMatrix :=
    fun g s => Useg_eq_exp (hE g) _ s
  simp only [segIntegrand, hU]

/-- **The time-domain integral `Σ_g ∫₀^{dt_g} e^{iω(t_g+s)} s_a^{(g)} tr(U_g(s)† B_a U_g(s) C_k) ds`
that the control matrix approximates (`cm_segment_form`, `cm_segment_form_error`) does not mention
the eigen-decomposition**: written with either output of `eigh` it is the same number. -/
theorem cm_integral_eigh_independent
    (eigvals eigvals' : Mat ℝ nG d) (eigvecs eigvecs' props : Vector (Mat ℂ d d) nG)
    (omega : Vec ℝ nO) (basis : Vector (Mat ℂ d d) nK) (nOpers : Vector (Mat ℂ d d) nA)
    (nCoeffs : Mat ℝ nA nG) (dt t : Vec ℝ nG)
    (H : Fin nG → Matrix (Fin d) (Fin d) ℂ)
    (hE : ∀ g : Fin nG, IsEigh (H g) (fun j => eigvals[g.1][j]) eigvecs[g.1].toMatrix)
    (hE' : ∀ g : Fin nG, IsEigh (H g) (fun j => eigvals'[g.1][j]) eigvecs'[g.1].toMatrix)
    (a : Fin nA) (k : Fin nK) (o : Fin nO) :
    ∑ g : Fin nG, ∫ s in (0:ℝ)..dt[g],
        segIntegrand (fun m => eigvals'[g][m]) eigvecs'[g].toMatrix props[g].toMatrix
          nOpers[a].toMatrix basis[k].toMatrix omega[o] t[g] nCoeffs[a][g] s
      = ∑ g : Fin nG, ∫ s in (0:ℝ)..dt[g],
        segIntegrand (fun m => eigvals[g][m]) eigvecs[g].toMatrix props[g].toMatrix
          nOpers[a].toMatrix basis[k].toMatrix omega[o] t[g] nCoeffs[a][g] s := by
  have hU : ∀ (g : Fin nG) (s : ℝ),
      Useg (fun m => eigvals'[g][m]) eigvecs'[g].toMatrix props[g].toMatrix s
        = Useg (fun m => eigvals[g][m]) eigvecs[g].toMatrix props[g].toMatrix s :=
    fun g s => Useg_eigh_independent (hE g) (hE' g) _ s
  simp only [segIntegrand, hU]

/-! ### 4. Filter functions and infidelities -/

/-- **The first-order filter functions do not depend on the output of `eigh`** (fidelity and
generalized filter function formed by `calculate_filter_function` from the control matrix). -/
theorem ff_eigh_independent (kind : MaskKind) (thr : ℝ)
    (eigvals eigvals' : Mat ℝ nG d) (eigvecs eigvecs' props : Vector (Mat ℂ d d) nG)
    (omega : Vec ℝ nO) (basis : Vector (Mat ℂ d d) nK) (nOpers : Vector (Mat ℂ d d) nA)
    (nCoeffs : Mat ℝ nA nG) (dt t : Vec ℝ nG)
    (H : Fin nG → Matrix (Fin d) (Fin d) ℂ)
    (hE : ∀ g : Fin nG, IsEigh (H g) (fun j => eigvals[g.1][j]) eigvecs[g.1].toMatrix)
    (hE' : ∀ g : Fin nG, IsEigh (H g) (fun j => eigvals'[g.1][j]) eigvecs'[g.1].toMatrix) :
    filterFunctionFid
        (controlMatrixFromScratch kind thr eigvals' eigvecs' props omega basis nOpers nCoeffs dt t)
      = filterFunctionFid
        (controlMatrixFromScratch kind thr eigvals eigvecs props omega basis nOpers nCoeffs dt t) ∧
    filterFunctionGen
        (controlMatrixFromScratch kind thr eigvals' eigvecs' props omega basis nOpers nCoeffs dt t)
      = filterFunctionGen
        (controlMatrixFromScratch kind thr eigvals eigvecs props omega basis nOpers nCoeffs dt t) := by
  rw [cm_eigh_independent kind thr eigvals eigvals' eigvecs eigvecs' props omega basis nOpers nCoeffs
    dt t H hE hE']
  exact ⟨rfl, rfl⟩

/-- **The infidelity does not depend on the output of `eigh`**: `numeric.infidelity`
(`which='total'`; the three spectrum shapes, both branches on `basis.istraceless`, every spectrum
and grid) evaluated on the control matrices of the two runs.  (`C08.infidelity_congr_cm` applied to
`cm_eigh_independent_entry`.) -/
theorem infidelity_eigh_independent {m N q : Nat} (kind : MaskKind) (thr : ℝ)
    (eigvals eigvals' : Mat ℝ nG d) (eigvecs eigvecs' props : Vector (Mat ℂ d d) nG)
    (omega : Vec ℝ nO) (basis : Vector (Mat ℂ d d) N) (nOpers : Vector (Mat ℂ d d) nA)
    (nCoeffs : Mat ℝ nA nG) (dt t : Vec ℝ nG)
    (H : Fin nG → Matrix (Fin d) (Fin d) ℂ)
    (hE : ∀ g : Fin nG, IsEigh (H g) (fun j => eigvals[g.1][j]) eigvecs[g.1].toMatrix)
    (hE' : ∀ g : Fin nG, IsEigh (H g) (fun j => eigvals'[g.1][j]) eigvecs'[g.1].toMatrix)
    (istl : Bool) (dim : Nat) (T : Ten4 ℂ N N N N) (idIdx : Vec (Fin N) q) (idx : Vec (Fin nA) m)
    (S1 : Vec ℂ nO) (S2 : Mat ℂ m nO) (S3 : Ten3 ℂ m m nO) :
    infidelityFromCM1 istl dim omega
        (controlMatrixFromScratch kind thr eigvals' eigvecs' props omega basis nOpers nCoeffs dt t)
        T idIdx idx S1
      = infidelityFromCM1 istl dim omega
        (controlMatrixFromScratch kind thr eigvals eigvecs props omega basis nOpers nCoeffs dt t)
        T idIdx idx S1 ∧
    infidelityFromCM2 istl dim omega
        (controlMatrixFromScratch kind thr eigvals' eigvecs' props omega basis nOpers nCoeffs dt t)
        T idIdx idx S2
      = infidelityFromCM2 istl dim omega
        (controlMatrixFromScratch kind thr eigvals eigvecs props omega basis nOpers nCoeffs dt t)
        T idIdx idx S2 ∧
    infidelityFromCM3 istl dim omega
        (controlMatrixFromScratch kind thr eigvals' eigvecs' props omega basis nOpers nCoeffs dt t)
        T idIdx idx S3
      = infidelityFromCM3 istl dim omega
        (controlMatrixFromScratch kind thr eigvals eigvecs props omega basis nOpers nCoeffs dt t)
        T idIdx idx S3 :=
  C08.infidelity_congr_cm istl dim omega _ _ T idIdx idx idx
    (fun a k o => cm_eigh_independent_entry kind thr eigvals eigvals' eigvecs eigvecs' props omega
      basis nOpers nCoeffs dt t H hE hE' idx[a] k o) S1 S2 S3

end cm

/-! ### 5. What the contract leaves open, and non-vacuity -/

/-- **The eigenvalue arrays of two outputs of `eigh` are permutations of each other, segment by
segment** (the contract does not fix the order: `D` need not be sorted) — so "another output"
means: eigenvalues of every segment re-listed along some permutation `σ_g`, and any unitary
eigenvector matrix compatible with that list. -/
theorem eigvals_perm {nG d : Nat} (eigvals eigvals' : Mat ℝ nG d)
    (eigvecs eigvecs' : Vector (Mat ℂ d d) nG) (H : Fin nG → Matrix (Fin d) (Fin d) ℂ)
    (hE : ∀ g : Fin nG, IsEigh (H g) (fun j => eigvals[g.1][j]) eigvecs[g.1].toMatrix)
    (hE' : ∀ g : Fin nG, IsEigh (H g) (fun j => eigvals'[g.1][j]) eigvecs'[g.1].toMatrix)
    (g : Fin nG) : ∃ σ : Equiv.Perm (Fin d), ∀ j : Fin d, eigvals'[g][j] = eigvals[g][σ j] :=
  eigenvalues_perm (hE g) (hE' g)

/-- `σ_z ⊗ 1 = diag(1, 1, -1, -1)`: a Hamiltonian with two doubly degenerate eigenvalues -/
def szId : Matrix (Fin 4) (Fin 4) ℂ := !![1, 0, 0, 0; 0, 1, 0, 0; 0, 0, -1, 0; 0, 0, 0, -1]

/-- first output of `eigh` for `σ_z ⊗ 1`: eigenvalues `(1, 1, -1, -1)`, `V = 1` -/
def szIdVals : Mat ℝ 1 4 := #v[#v[1, 1, -1, -1]]
/-- first output of `eigh` for `σ_z ⊗ 1`: eigenvalues `(1, 1, -1, -1)`, `V = 1` -/
def szIdVecs : Vector (Mat ℂ 4 4) 1 :=
  #v[#v[#v[1, 0, 0, 0], #v[0, 1, 0, 0], #v[0, 0, 1, 0], #v[0, 0, 0, 1]]]
/-- second output: eigenvalues listed as `(-1, 1, 1, -1)` -/
def szIdVals' : Mat ℝ 1 4 := #v[#v[-1, 1, 1, -1]]
/-- second output: the `+1` eigenspace spanned by the ROTATED vectors `(3/5, 4/5, 0, 0)`,
`(-4/5, 3/5, 0, 0)`, the `-1` eigenspace by `e₂` and `i·e₃` (a phase) -/
noncomputable def szIdVecs' : Vector (Mat ℂ 4 4) 1 :=
  #v[#v[#v[0, 3 / 5, -4 / 5, 0], #v[0, 4 / 5, 3 / 5, 0], #v[1, 0, 0, 0], #v[0, 0, 0, Complex.I]]]

theorem szId_eigh : ∀ g : Fin 1, IsEigh szId (fun j => szIdVals[g.1][j]) szIdVecs[g.1].toMatrix := by
  intro g
  fin_cases g
  refine ⟨?_, ?_, ?_⟩ <;> ext i j <;> fin_cases i <;> fin_cases j <;>
    simp [szId, szIdVals, szIdVecs, Matrix.mul_apply, Fin.sum_univ_four, Matrix.diagonal_apply,
      Mat.toMatrix, Matrix.conjTranspose_apply]

theorem szId_eigh' : ∀ g : Fin 1, IsEigh szId (fun j => szIdVals'[g.1][j]) szIdVecs'[g.1].toMatrix := by
  intro g
  fin_cases g
  refine ⟨?_, ?_, ?_⟩ <;> ext i j <;> fin_cases i <;> fin_cases j <;>
    simp [szId, szIdVals', szIdVecs', Matrix.mul_apply, Fin.sum_univ_four, Matrix.diagonal_apply,
      Mat.toMatrix, Matrix.conjTranspose_apply, Complex.conj_ofNat] <;> norm_num

/-- **Non-vacuity of `cm_eigh_independent` with a genuinely degenerate Hamiltonian**: the two
outputs above for `σ_z ⊗ 1` both satisfy the contract, differ in the eigenvalue order, in the basis
of the degenerate `+1` eigenspace and in a phase — and the control matrices (any guard, threshold,
frequencies, basis, noise operators, propagator, duration) coincide. -/
example {nO nA nK : Nat} (kind : MaskKind) (thr : ℝ) (props : Vector (Mat ℂ 4 4) 1)
    (omega : Vec ℝ nO) (basis : Vector (Mat ℂ 4 4) nK) (nOpers : Vector (Mat ℂ 4 4) nA)
    (nCoeffs : Mat ℝ nA 1) (dt t : Vec ℝ 1) :
    controlMatrixFromScratch kind thr szIdVals' szIdVecs' props omega basis nOpers nCoeffs dt t
      = controlMatrixFromScratch kind thr szIdVals szIdVecs props omega basis nOpers nCoeffs dt t :=
  cm_eigh_independent kind thr szIdVals szIdVals' szIdVecs szIdVecs' props omega basis nOpers nCoeffs
    dt t (fun _ => szId) szId_eigh szId_eigh'

/-- the two outputs are different arrays (eigenvalues and eigenvectors) -/
example : szIdVals' ≠ szIdVals ∧ szIdVecs' ≠ szIdVecs := by
  constructor
  · intro h
    have := congrArg (fun v : Mat ℝ 1 4 => v[0][0]) h
    norm_num [szIdVals, szIdVals'] at this
  · intro h
    have h1 : szIdVecs'[0][0][0] = szIdVecs[0][0][0] := by rw [h]
    change (0 : ℂ) = 1 at h1
    exact zero_ne_one h1

end FFVerif.C01
