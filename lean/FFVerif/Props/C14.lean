/-
C14 — Constructed bases (`Basis.pauli`, `Basis.ggm`, `Basis.from_partial`) are complete,
orthonormal and Hermitian; basis expansion is the inverse of reconstruction; the flag properties
are sound.  Property theorems only (helper lemmas live in FFVerif/Lemmas/BasisAux.lean and
FFVerif/Lemmas/GGMAux.lean).

Scalars: all theorems are about the model instantiated at ℝ/ℂ (exact arithmetic); the executable
instance (IEEE doubles) of the same terms is compared bit-for-bit with NumPy by the driver.
-/
import FFVerif.Lemmas.BasisAux
import FFVerif.Lemmas.GGMAux

namespace FFVerif.C14
open FFVerif Matrix Model Spec

/-! ### (a) one-qubit Pauli basis -/

/-- **The one-qubit Pauli basis `(I, X, Y, Z)/√2` is Hermitian and orthonormal**
(`tr(σ_i σ_j)/2 = δ_ij`; uses `√2·√2 = 2`). -/
theorem pauli1_orthoHerm : Spec.IsOrthoHerm (Spec.basisOf (pauli1 (K := ℂ))) where
  herm i := by
    ext a b
    rw [Matrix.conjTranspose_apply, pauli1_apply, pauli1_apply, star_mul', ← paulis_herm i a b]
    simp
  ortho i j := by
    simp only [Matrix.trace, Matrix.diag_apply, Matrix.mul_apply, pauli1_apply]
    have h : ∀ a b : Fin 2,
        ((1 / Real.sqrt ((2 : Nat) : ℝ) : ℝ) : ℂ) * (paulis (K := ℂ))[i][a][b]
          * (((1 / Real.sqrt ((2 : Nat) : ℝ) : ℝ) : ℂ) * (paulis (K := ℂ))[j][b][a])
        = (1 / 2) * ((paulis (K := ℂ))[i][a][b] * (paulis (K := ℂ))[j][b][a]) := by
      intro a b
      rw [← inv_sqrt_two_sq]; ring
    simp only [h, ← Finset.mul_sum, paulis_trace]
    split <;> norm_num

/-- **The one-qubit Pauli basis is complete**: `M = Σ_j tr(M σ_j) σ_j` for every `2 × 2` matrix. -/
theorem pauli1_complete : Spec.IsComplete (Spec.basisOf (pauli1 (K := ℂ))) :=
  Spec.complete_of_ortho_card pauli1_orthoHerm.ortho rfl

/-! ### (b) Kronecker products of bases -/

/-- **Kronecker products of Hermitian orthonormal families are Hermitian orthonormal**:
`(i, j) ↦ C_i ⊗ D_j` (row-major flattening of index pairs, as `util.tensor`). -/
theorem kron_orthoHerm {N₁ N₂ d₁ d₂ : Nat} {C : Fin N₁ → Matrix (Fin d₁) (Fin d₁) ℂ}
    {D : Fin N₂ → Matrix (Fin d₂) (Fin d₂) ℂ} (hC : Spec.IsOrthoHerm C) (hD : Spec.IsOrthoHerm D) :
    Spec.IsOrthoHerm (Spec.kronFamily C D) :=
  Spec.kron_orthoHerm hC hD

/-- **Kronecker products of complete families are complete** (the swap identity
`Σ_j (C_j)_{ab}(C_j)_{ce} = δ_{ae}δ_{bc}` is multiplicative under Kronecker products). -/
theorem kron_complete {N₁ N₂ d₁ d₂ : Nat} {C : Fin N₁ → Matrix (Fin d₁) (Fin d₁) ℂ}
    {D : Fin N₂ → Matrix (Fin d₂) (Fin d₂) ℂ} (hC : Spec.IsComplete C) (hD : Spec.IsComplete D) :
    Spec.IsComplete (Spec.kronFamily C D) :=
  Spec.kron_complete hC hD

/-- **An orthonormal family of `d²` matrices is complete** (no Hermiticity needed): the square
matrix of flattened elements has a one-sided inverse, hence a two-sided one. -/
theorem complete_of_orthonormal_card {N d : Nat} {C : Fin N → Matrix (Fin d) (Fin d) ℂ}
    (h : ∀ i j, trace (C i * C j) = if i = j then 1 else 0) (hN : N = d * d) :
    Spec.IsComplete C :=
  Spec.complete_of_ortho_card h hN

/-! ### (c) `Basis.pauli(n)` for every `n` -/

/-- the `(n+1)`-qubit Pauli basis model is the Kronecker family of the `n`-qubit and the one-qubit
basis, in the element order of `Basis.pauli` (first qubit = most significant base-4 digit) -/
theorem pauliBasis_succ_eq_kron (n : Nat) :
    Spec.basisOf (pauliBasis (K := ℂ) (n + 1))
      = Spec.kronFamily (Spec.basisOf (pauliBasis (K := ℂ) n)) (Spec.basisOf (pauli1 (K := ℂ))) :=
  basisOf_pauliBasis_succ n

/-- consistency of the two models: `Basis.pauli(1)` is the one-qubit basis `pauli1` -/
theorem pauliBasis_one (i : Fin 4) (a b : Fin 2) :
    Spec.basisOf (pauliBasis (K := ℂ) 1) i a b = Spec.basisOf (pauli1 (K := ℂ)) i a b := by
  have h := congrFun (congrFun (congrFun (basisOf_pauliBasis_succ 0) i) a) b
  refine h.trans ?_
  rw [Spec.kronFamily_apply, pauliBasis_zero_apply, one_mul]
  have hi : Fin.lo (m := 4 ^ 0) (n := 4) i = i := Fin.ext (by simp [Fin.lo])
  have ha : Fin.lo (m := 2 ^ 0) (n := 2) a = a := Fin.ext (by simp [Fin.lo]; omega)
  have hb : Fin.lo (m := 2 ^ 0) (n := 2) b = b := Fin.ext (by simp [Fin.lo]; omega)
  rw [hi, ha, hb]

/-- **`Basis.pauli(n)` is Hermitian and orthonormal for every `n`** (the Python supports `n ≥ 1`;
the model's `n = 0` is the `1 × 1` identity). -/
theorem pauliBasis_orthoHerm (n : Nat) :
    Spec.IsOrthoHerm (Spec.basisOf (pauliBasis (K := ℂ) n)) := by
  induction n with
  | zero =>
    refine ⟨fun i => ?_, fun i j => ?_⟩
    · ext a b
      simp [Matrix.conjTranspose_apply, pauliBasis_zero_apply]
    · have hij : i = j := Fin.ext (by have := i.2; have := j.2; omega)
      rw [if_pos hij]
      simp only [Matrix.trace, Matrix.diag_apply, Matrix.mul_apply, pauliBasis_zero_apply]
      show ∑ _x : Fin 1, ∑ _y : Fin 1, (1 : ℂ) * 1 = 1
      simp
  | succ n ih =>
    rw [basisOf_pauliBasis_succ]
    exact Spec.kron_orthoHerm ih pauli1_orthoHerm

/-- **`Basis.pauli(n)` is complete for every `n`**: `M = Σ_j tr(M σ_j) σ_j` for every
`2ⁿ × 2ⁿ` matrix `M`. -/
theorem pauliBasis_complete (n : Nat) :
    Spec.IsComplete (Spec.basisOf (pauliBasis (K := ℂ) n)) :=
  Spec.complete_of_ortho_card (pauliBasis_orthoHerm n).ortho (by rw [← Nat.mul_pow])

/-- **Element 0 of `Basis.pauli(n)` is the normalised identity** `1/√d`, `d = 2ⁿ`. -/
theorem pauliBasis_first_is_identity (n : Nat) :
    Spec.basisOf (pauliBasis (K := ℂ) n) ⟨0, Nat.pow_pos (by norm_num)⟩
      = ((1 / Real.sqrt ((2 ^ n : Nat) : ℝ) : ℝ) : ℂ) • (1 : Matrix (Fin (2 ^ n)) (Fin (2 ^ n)) ℂ) := by
  unfold Spec.basisOf
  rw [pauliBasis_getElem_fin, rscale_toMatrix]
  congr 1
  exact pauliRaw_zero_toMatrix n

/-- **All other elements of `Basis.pauli(n)` are traceless.** -/
theorem pauliBasis_traceless_rest (n : Nat) (i : Fin (4 ^ n)) (hi : i.1 ≠ 0) :
    trace (Spec.basisOf (pauliBasis (K := ℂ) n) i) = 0 := by
  have h := (pauliBasis_orthoHerm n).ortho i ⟨0, Nat.pow_pos (by norm_num)⟩
  rw [pauliBasis_first_is_identity, Matrix.mul_smul, Matrix.mul_one, Matrix.trace_smul,
    if_neg (fun h' => hi (congrArg Fin.val h'))] at h
  rcases mul_eq_zero.mp h with h0 | h0
  · exfalso
    have hpos : (0 : ℝ) < Real.sqrt ((2 ^ n : Nat) : ℝ) :=
      Real.sqrt_pos.mpr (by exact_mod_cast Nat.pow_pos (n := n) (by norm_num : 0 < 2))
    have : (1 / Real.sqrt ((2 ^ n : Nat) : ℝ) : ℝ) = 0 := by exact_mod_cast h0
    exact absurd this (by positivity)
  · exact h0

/-! ### (d) `Basis.ggm(d)` for every `d` -/

/-- **`Basis.ggm(d)` is Hermitian and orthonormal for every dimension `d`** (all `d²` elements, in
the element order produced by the NumPy index arithmetic of the source: identity, `n_sym`
symmetric, `n_sym` antisymmetric, `d-1` diagonal elements). -/
theorem ggmBasis_orthoHerm (d : Nat) : Spec.IsOrthoHerm (Spec.basisOf (ggmBasis (K := ℂ) d)) where
  herm e := by rw [ggmBasis_eq_kind]; exact GKind.mat_herm _
  ortho e e' := by
    have hd : 0 < d := by
      rcases d with _ | d
      · exact absurd e.2 (by simp)
      · omega
    rw [ggmBasis_eq_kind, ggmBasis_eq_kind,
      GKind.trace_mat_mul_mat hd _ _ (kindOf_valid e) (kindOf_valid e')]
    by_cases h : e = e'
    · rw [h, if_pos rfl, if_pos rfl]
    · rw [if_neg h, if_neg (fun h' => h (kindOf_inj e e' h'))]

/-- **`Basis.ggm(d)` is complete for every `d`**: `M = Σ_j tr(M Λ_j) Λ_j` for every `d × d`
matrix. -/
theorem ggmBasis_complete (d : Nat) : Spec.IsComplete (Spec.basisOf (ggmBasis (K := ℂ) d)) :=
  Spec.complete_of_ortho_card (ggmBasis_orthoHerm d).ortho rfl

/-- **Element 0 of `Basis.ggm(d)` is the normalised identity** `1/√d`. -/
theorem ggmBasis_first_is_identity (d : Nat) (hd : 0 < d) :
    Spec.basisOf (ggmBasis (K := ℂ) d) ⟨0, Nat.mul_pos hd hd⟩
      = ((1 / Real.sqrt (d : ℝ) : ℝ) : ℂ) • (1 : Matrix (Fin d) (Fin d) ℂ) := by
  rw [ggmBasis_eq_kind]
  simp [kindOf, GKind.mat, cR]

/-- **All other elements of `Basis.ggm(d)` are traceless.** -/
theorem ggmBasis_traceless_rest (d : Nat) (e : Fin (d * d)) (he : e.1 ≠ 0) :
    trace (Spec.basisOf (ggmBasis (K := ℂ) d) e) = 0 := by
  have hd : 0 < d := by
    rcases d with _ | d
    · exact absurd e.2 (by simp)
    · omega
  have h := (ggmBasis_orthoHerm d).ortho e ⟨0, Nat.mul_pos hd hd⟩
  rw [ggmBasis_first_is_identity d hd, Matrix.mul_smul, Matrix.mul_one, Matrix.trace_smul,
    if_neg (fun h' => he (congrArg Fin.val h'))] at h
  rcases mul_eq_zero.mp h with h0 | h0
  · exfalso
    have hpos : (0 : ℝ) < Real.sqrt (d : ℝ) := Real.sqrt_pos.mpr (by exact_mod_cast hd)
    have : (1 / Real.sqrt (d : ℝ) : ℝ) = 0 := by exact_mod_cast h0
    exact absurd this (by positivity)
  · exact h0


/-! ### (e) expansion is the inverse of reconstruction -/

/-- **Expansion is inverted by reconstruction** for every complete family:
`Σ_j expand(M)_j C_j = M` with `expand(M)_j = tr(M C_j)`. -/
theorem expansion_is_inverse {N d : Nat} (M : Mat ℂ d d) (C : Vector (Mat ℂ d d) N)
    (hC : Spec.IsComplete (Spec.basisOf C)) :
    ∑ j, (Model.expand M C false)[j] • Spec.basisOf C j = M.toMatrix :=
  (C15.expand_inverse M C hC).symm

/-- **Pauli expansion is exact**: for every `n` and every `2ⁿ × 2ⁿ` matrix `M`,
`Σ_j expand(M, Basis.pauli(n))_j σ_j = M`. -/
theorem pauli_expansion_is_inverse (n : Nat) (M : Mat ℂ (2 ^ n) (2 ^ n)) :
    ∑ j, (Model.expand M (pauliBasis (K := ℂ) n) false)[j] • Spec.basisOf (pauliBasis (K := ℂ) n) j
      = M.toMatrix :=
  expansion_is_inverse M _ (pauliBasis_complete n)

/-- **Hermitian matrices have real coefficients in a Hermitian basis**, so the `.real` cast of
`expand(M, basis, hermitian=True)` loses nothing (no orthonormality or completeness needed). -/
theorem expand_real_of_hermitian {N d : Nat} (M : Mat ℂ d d) (C : Vector (Mat ℂ d d) N)
    (hM : M.toMatrixᴴ = M.toMatrix) (hC : ∀ j, (Spec.basisOf C j)ᴴ = Spec.basisOf C j) :
    Model.expand M C true = Model.expand M C false := by
  apply Vector.ext; intro j hj
  rw [Model.expand_true_getElem_nat, Model.expand_getElem_nat]
  have hr : starRingEnd ℂ (trace (M.toMatrix * Spec.basisOf C ⟨j, hj⟩))
      = trace (M.toMatrix * Spec.basisOf C ⟨j, hj⟩) := by
    rw [starRingEnd_apply, ← trace_conjTranspose, conjTranspose_mul, hM, hC, trace_mul_comm]
  exact Complex.conj_eq_iff_re.mp hr

/-! ### (d, continued) closed-form Gell-Mann expansion -/

/-- **Index bookkeeping of `Basis.ggm` / `ggm_expand`**: the pairs
`(j[p], k[p])`, `j = np.repeat(np.arange(d-1), np.arange(d-1, 0, -1))`,
`k = np.arange(1, n_sym+1) - (j*(2*d-j-3)/2).astype(int)`, `p < n_sym = d(d-1)/2`, are exactly the
pairs `j < k < d`, each hit once. -/
theorem ggm_index_bijection (d : Nat) :
    (∀ p, p < nSym d →
      (ggmPair d (ggmJ d) p).1 < (ggmPair d (ggmJ d) p).2 ∧ (ggmPair d (ggmJ d) p).2 < d) ∧
    (∀ p p', p < nSym d → p' < nSym d → ggmPair d (ggmJ d) p = ggmPair d (ggmJ d) p' → p = p') ∧
    (∀ j k, j < k → k < d → ∃ p, p < nSym d ∧ ggmPair d (ggmJ d) p = (j, k)) :=
  ⟨ggm_index_range d, fun p p' hp hp' h => ggm_index_inj d p p' hp hp' h,
    fun j k hjk hk => ggm_index_surj d j k hjk hk⟩

/-- the element count: `d² = 1 + 2·n_sym + (d - 1)` -/
theorem ggm_count (d : Nat) (hd : 0 < d) : d * d = 2 * nSym d + d := dd_eq d hd

/-- **The closed-form Gell-Mann expansion agrees with the generic one**:
`ggm_expand(M) = expand(M, Basis.ggm(d))` for every `d × d` matrix `M` (default flags). -/
theorem ggmExpand_eq_expand {d : Nat} (M : Mat ℂ d d) :
    ggmExpand M false false = Model.expand M (ggmBasis (K := ℂ) d) false := by
  apply Vector.ext; intro e he
  have h1 := ggmExpand_getElem M false false ⟨e, he⟩
  simp only [Fin.getElem_fin] at h1
  rw [h1, Model.expand_getElem_nat, ggmCoeff_eq_trace M ⟨e, he⟩, ggmBasis_eq_kind, trace_mul_comm]

/-- **`ggm_expand(M, hermitian=True)` loses nothing for Hermitian `M`**: all closed-form
coefficients are real. -/
theorem ggmExpand_hermitian {d : Nat} (M : Mat ℂ d d) (hM : M.toMatrixᴴ = M.toMatrix) :
    ggmExpand M false true = ggmExpand M false false := by
  apply Vector.ext; intro e he
  have hd : 0 < d := by
    rcases d with _ | d
    · exact absurd he (by simp)
    · omega
  have h1 := ggmExpand_getElem M false true ⟨e, he⟩
  have h2 := ggmExpand_getElem M false false ⟨e, he⟩
  simp only [Fin.getElem_fin] at h1 h2
  rw [h1, h2]
  apply ggmCoeff_hermitian M false e hd
  rw [ggmCoeff_eq_trace M ⟨e, he⟩]
  have hr : starRingEnd ℂ (trace ((kindOf d ⟨e, he⟩).mat * M.toMatrix))
      = trace ((kindOf d ⟨e, he⟩).mat * M.toMatrix) := by
    rw [starRingEnd_apply, ← trace_conjTranspose, conjTranspose_mul, hM, GKind.mat_herm,
      trace_mul_comm]
  exact Complex.conj_eq_iff_im.mp hr

/-- **`ggm_expand(M, traceless=True)` loses nothing for traceless `M`** (the identity coefficient,
which is skipped, is zero). -/
theorem ggmExpand_traceless {d : Nat} (M : Mat ℂ d d) (h : Bool) (hM : trace M.toMatrix = 0) :
    ggmExpand M true h = ggmExpand M false h := by
  apply Vector.ext; intro e he
  have h1 := ggmExpand_getElem M true h ⟨e, he⟩
  have h2 := ggmExpand_getElem M false h ⟨e, he⟩
  simp only [Fin.getElem_fin] at h1 h2
  rw [h1, h2]
  unfold ggmCoeff
  by_cases h0 : e = 0
  · simp only [h0, if_true, Bool.false_eq_true, if_false, gen_trace_eq, hM, castDiv_zero]
  · simp only [h0, if_false]

/-- **Gell-Mann expansion is exact**: `Σ_j ggm_expand(M)_j Λ_j = M` for every `d` and every
`d × d` matrix `M`. -/
theorem ggm_expansion_is_inverse {d : Nat} (M : Mat ℂ d d) :
    ∑ j, (ggmExpand M false false)[j] • Spec.basisOf (ggmBasis (K := ℂ) d) j = M.toMatrix := by
  rw [ggmExpand_eq_expand]
  exact expansion_is_inverse M _ (ggmBasis_complete d)

/-! ### (f) `Basis.from_partial` -/

/-- **Completion of a partial basis (oracle contract for `scipy.linalg.null_space`).**
Let `G` be a complete Hermitian orthonormal basis (the GGM basis), `E_1..E_m` Hermitian orthonormal
elements (the normalised supplied elements) with coefficient rows `c_ij = tr(E_i G_j)`, and `Nmat`
a REAL matrix with orthonormal rows that are orthogonal to every `c_i`, with `m + rows(Nmat)` equal
to the number of elements of `G`.  Then the family `[Σ_j c_ij G_j] ++ [Σ_j N_kj G_j]`
(`np.einsum('ij,jkl', coeffs, ggm)`) is Hermitian, orthonormal and complete, and its first `m`
elements are the given `E_i`, in order. -/
theorem from_partial_props {d n m q : Nat}
    (G : Fin n → Matrix (Fin d) (Fin d) ℂ) (hG : Spec.IsOrthoHerm G) (hGc : Spec.IsComplete G)
    (E : Fin m → Matrix (Fin d) (Fin d) ℂ) (hE : Spec.IsOrthoHerm E)
    (Nmat : Fin q → Fin n → ℝ)
    (hNN : ∀ k k', ∑ j, Nmat k j * Nmat k' j = if k = k' then 1 else 0)
    (hNc : ∀ k i, ∑ j, ((Nmat k j : ℝ) : ℂ) * trace (E i * G j) = 0)
    (hcount : m + q = n) :
    Spec.IsOrthoHerm (Spec.comb (Spec.partialRows G E Nmat) G) ∧
    Spec.IsComplete (Spec.comb (Spec.partialRows G E Nmat) G) ∧
    ∀ i : Fin m, Spec.comb (Spec.partialRows G E Nmat) G (Fin.castAdd q i) = E i := by
  obtain ⟨hW, hOH, hfirst⟩ := Spec.partialRows_core hG hE (fun i => hGc (E i)) Nmat hNN hNc
  refine ⟨hOH, ?_, hfirst⟩
  apply C15.complete_of_swap
  intro a b c e
  rw [Spec.swap_comb _ (Spec.rows_orthonormal_comm hcount _ hW), C15.swap_identity hGc]

/-- **Completion with `traceless=True`** (`Id, ggm = np.split(Basis.ggm(d), [1])`, the identity is
put in front): `G₀ = c₀·1` (`c₀ = 1/√d`), `G` the traceless rest of the reference basis,
`E_1..E_m` the supplied *traceless* Hermitian orthonormal elements (an identity element among the
inputs has an all-zero coefficient row and is thrown out by the Python), `Nmat` as in
`from_partial_props` with `m + rows(Nmat) = d² - 1`.  Then `[G₀] ++ combinations` is Hermitian,
orthonormal and complete, element 0 is `c₀·1`, all other elements are traceless, and elements
`1..m` are the given `E_i` in order. -/
theorem from_partial_traceless_props {d n m q : Nat}
    (G₀ : Matrix (Fin d) (Fin d) ℂ) (G : Fin n → Matrix (Fin d) (Fin d) ℂ)
    (hG : Spec.IsOrthoHerm (Fin.cons G₀ G : Fin (n + 1) → Matrix (Fin d) (Fin d) ℂ))
    (hGc : Spec.IsComplete (Fin.cons G₀ G : Fin (n + 1) → Matrix (Fin d) (Fin d) ℂ))
    (c₀ : ℂ) (hc₀ : c₀ ≠ 0) (hG₀ : G₀ = c₀ • 1)
    (E : Fin m → Matrix (Fin d) (Fin d) ℂ) (hE : Spec.IsOrthoHerm E) (hEt : ∀ i, trace (E i) = 0)
    (Nmat : Fin q → Fin n → ℝ)
    (hNN : ∀ k k', ∑ j, Nmat k j * Nmat k' j = if k = k' then 1 else 0)
    (hNc : ∀ k i, ∑ j, ((Nmat k j : ℝ) : ℂ) * trace (E i * G j) = 0)
    (hcount : m + q = n) :
    let F : Fin (m + q + 1) → Matrix (Fin d) (Fin d) ℂ :=
      Fin.cons G₀ (Spec.comb (Spec.partialRows G E Nmat) G)
    Spec.IsOrthoHerm F ∧ Spec.IsComplete F ∧ F 0 = c₀ • 1 ∧
      (∀ i : Fin (m + q), trace (F i.succ) = 0) ∧
      ∀ i : Fin m, F (Fin.castAdd q i).succ = E i := by
  intro F
  -- the traceless part of the reference basis
  have hGo : ∀ j l, trace (G j * G l) = if j = l then 1 else 0 := by
    intro j l
    have h := hG.ortho j.succ l.succ
    simpa only [Fin.cons_succ, Fin.succ_inj] using h
  have hGh : ∀ j, (G j)ᴴ = G j := by
    intro j
    have h := hG.herm j.succ
    simpa only [Fin.cons_succ] using h
  have hGt : ∀ j, trace (G j) = 0 := by
    intro j
    have h := hG.ortho j.succ 0
    simp only [Fin.cons_succ, Fin.cons_zero, hG₀, Matrix.mul_smul, Matrix.mul_one, trace_smul,
      smul_eq_mul, if_neg (Fin.succ_ne_zero j)] at h
    exact (mul_eq_zero.mp h).resolve_left hc₀
  have hEc : ∀ i, E i = ∑ j, trace (E i * G j) • G j := by
    intro i
    have h := hGc (E i)
    rw [Fin.sum_univ_succ] at h
    simp only [Fin.cons_succ, Fin.cons_zero] at h
    have h0 : trace (E i * G₀) = 0 := by
      rw [hG₀, Matrix.mul_smul, Matrix.mul_one, trace_smul, hEt, smul_zero]
    rw [h0, zero_smul, zero_add] at h
    exact h
  obtain ⟨hW, hOH, hfirst⟩ := Spec.partialRows_core (G := G) ⟨hGh, hGo⟩ hE hEc Nmat hNN hNc
  have hFt : ∀ i, trace (Spec.comb (Spec.partialRows G E Nmat) G i) = 0 := by
    intro i
    simp only [Spec.comb, trace_sum, trace_smul, hGt, smul_zero, Finset.sum_const_zero]
  have hG₀G₀ : trace (G₀ * G₀) = 1 := by
    have h := hG.ortho 0 0
    simpa only [Fin.cons_zero, if_true] using h
  refine ⟨⟨fun i => ?_, fun i k => ?_⟩, ?_, ?_, ?_, ?_⟩
  · refine Fin.cases ?_ (fun i => ?_) i
    · have h := hG.herm 0
      simpa only [F, Fin.cons_zero] using h
    · simp only [F, Fin.cons_succ]; exact hOH.herm i
  · refine Fin.cases ?_ (fun i => ?_) i <;> refine Fin.cases ?_ (fun k => ?_) k
    · simp only [F, Fin.cons_zero, hG₀G₀, if_true]
    · simp only [F, Fin.cons_zero, Fin.cons_succ, if_neg (Fin.succ_ne_zero k).symm]
      rw [hG₀, Matrix.smul_mul, Matrix.one_mul, trace_smul, hFt, smul_zero]
    · simp only [F, Fin.cons_zero, Fin.cons_succ, if_neg (Fin.succ_ne_zero i)]
      rw [hG₀, Matrix.mul_smul, Matrix.mul_one, trace_smul, hFt, smul_zero]
    · simp only [F, Fin.cons_succ, Fin.succ_inj]
      exact hOH.ortho i k
  · apply C15.complete_of_swap
    intro a b c e
    rw [Fin.sum_univ_succ]
    simp only [F, Fin.cons_zero, Fin.cons_succ]
    rw [Spec.swap_comb _ (Spec.rows_orthonormal_comm hcount _ hW), ← C15.swap_identity hGc a b c e,
      Fin.sum_univ_succ]
    simp only [Fin.cons_zero, Fin.cons_succ]
  · simp only [F, Fin.cons_zero, hG₀]
  · intro i
    simp only [F, Fin.cons_succ]
    exact hFt i
  · intro i
    simp only [F, Fin.cons_succ]
    exact hfirst i


/-- **Model level**: `Model.fromPartialCombine` (the generated contraction `ij,jkl` applied to
`np.concatenate((coeffs, null_space.T))`) with `coeffs[i] = expand(E_i, G)` and a real oracle
matrix `nullT` satisfying the contract, is Hermitian, orthonormal, complete and starts with the
supplied elements. -/
theorem fromPartialCombine_props {d n m q : Nat} (G : Vector (Mat ℂ d d) n)
    (hG : Spec.IsOrthoHerm (Spec.basisOf G)) (hGc : Spec.IsComplete (Spec.basisOf G))
    (E : Vector (Mat ℂ d d) m) (hE : Spec.IsOrthoHerm (Spec.basisOf E))
    (nullT : Mat ℂ q n) (hreal : ∀ (k : Fin q) (j : Fin n), (nullT[k][j]).im = 0)
    (hNN : ∀ k k' : Fin q, ∑ j : Fin n, nullT[k][j] * nullT[k'][j] = if k = k' then 1 else 0)
    (hNc : ∀ (k : Fin q) (i : Fin m),
      ∑ j : Fin n, nullT[k][j] * (Model.expand E[i] G false)[j] = 0)
    (hcount : m + q = n) :
    let F := Model.fromPartialCombine (Vector.ofFn fun i : Fin m => Model.expand E[i] G false)
      nullT G
    Spec.IsOrthoHerm (Spec.basisOf F) ∧ Spec.IsComplete (Spec.basisOf F) ∧
      ∀ i : Fin m, Spec.basisOf F (Fin.castAdd q i) = Spec.basisOf E i := by
  intro F
  have hre : ∀ (k : Fin q) (j : Fin n), (((nullT[k][j]).re : ℝ) : ℂ) = nullT[k][j] := by
    intro k j
    apply Complex.ext
    · simp
    · simpa using (hreal k j).symm
  have hF : Spec.basisOf F = Spec.comb (Spec.partialRows (Spec.basisOf G) (Spec.basisOf E)
      (fun k j => (nullT[k][j]).re)) (Spec.basisOf G) := by
    rw [← append_rows_eq E nullT G hreal]
    exact fromPartialCombine_basisOf _ nullT G
  rw [hF]
  refine from_partial_props (Spec.basisOf G) hG hGc (Spec.basisOf E) hE _ ?_ ?_ hcount
  · intro k k'
    have h := hNN k k'
    have h' : ((∑ j : Fin n, (nullT[k][j]).re * (nullT[k'][j]).re : ℝ) : ℂ)
        = ((if k = k' then 1 else 0 : ℝ) : ℂ) := by
      push_cast
      simp only [hre]
      rw [h]; split <;> simp
    exact_mod_cast h'
  · intro k i
    have h := hNc k i
    simp only [C15.expand_entries] at h
    simp only [hre]
    exact h

/-- the hypotheses of `from_partial_props` are satisfiable: complete `[σ_0]` (one supplied element)
to the one-qubit Pauli basis with the oracle rows `e_1, e_2, e_3` -/
example : ∃ (G : Fin 4 → Matrix (Fin 2) (Fin 2) ℂ) (E : Fin 1 → Matrix (Fin 2) (Fin 2) ℂ)
    (Nmat : Fin 3 → Fin 4 → ℝ),
    Spec.IsOrthoHerm G ∧ Spec.IsComplete G ∧ Spec.IsOrthoHerm E ∧
    (∀ k k', ∑ j, Nmat k j * Nmat k' j = if k = k' then 1 else 0) ∧
    (∀ k i, ∑ j, ((Nmat k j : ℝ) : ℂ) * trace (E i * G j) = 0) ∧ 1 + 3 = 4 := by
  refine ⟨Spec.basisOf (pauli1 (K := ℂ)), fun _ => Spec.basisOf (pauli1 (K := ℂ)) 0,
    fun k j => if j.1 = k.1 + 1 then 1 else 0, pauli1_orthoHerm, pauli1_complete,
    ⟨fun _ => pauli1_orthoHerm.herm 0, fun i j => ?_⟩, ?_, ?_, rfl⟩
  · rw [pauli1_orthoHerm.ortho, if_pos rfl, if_pos (Subsingleton.elim i j)]
  · intro k k'
    fin_cases k <;> fin_cases k' <;> simp [Fin.sum_univ_four]
  · intro k i
    simp only [pauli1_orthoHerm.ortho]
    fin_cases k <;> simp


/-! ### (g) flags -/

/-- **The single-element shortcut of `isorthonorm`**: for ANY single element (any scalar type, any
tolerance) the flag is `True`, whatever the norm of the element — known defect F16 of the source
(pinned by its test-suite); see the unnormalised witness `X` below. -/
theorem isOrthonormFlag_single {R K : Type} [Zero R] [One R] [Add R] [Mul R] [Neg R] [Sub R]
    [Div R] [NatCast R] [RealOps R] [Zero K] [One K] [Add K] [Mul K] [Neg K] [Sub K] [Div K]
    [CplxOps R K] {d : Nat} (C : Vector (Mat K d d) 1) (atol : R) :
    isOrthonormFlag C atol = true := by
  simp [isOrthonormFlag]

/-- **`isorthonorm` is truthful for `≥ 2` (or `0`) elements**: the flag is `True` iff every entry
of the Gram matrix `tr(C_i† C_j)` is within `atol` of the identity matrix. -/
theorem isOrthonormFlag_iff {d N : Nat} (C : Vector (Mat ℂ d d) N) (atol : ℝ) (hN : N ≠ 1) :
    isOrthonormFlag C atol = true ↔
      ∀ i j, ‖trace ((Spec.basisOf C i)ᴴ * Spec.basisOf C j) - (if i = j then 1 else 0)‖ ≤ atol := by
  simp only [isOrthonormFlag, if_neg hN, allFin_iff, ropsLe, cabs_eq, decide_eq_true_eq,
    gram_getElem]

/-- soundness direction of `isOrthonormFlag_iff` -/
theorem isOrthonormFlag_sound {d N : Nat} (C : Vector (Mat ℂ d d) N) (atol : ℝ) (hN : N ≠ 1)
    (h : isOrthonormFlag C atol = true) (i j : Fin N) :
    ‖trace ((Spec.basisOf C i)ᴴ * Spec.basisOf C j) - (if i = j then 1 else 0)‖ ≤ atol :=
  (isOrthonormFlag_iff C atol hN).mp h i j

/-- **`isherm` is truthful**: the flag is `True` iff every entry of `C_k† - C_k` has modulus
`≤ atol`. -/
theorem isHermFlag_iff {d N : Nat} (C : Vector (Mat ℂ d d) N) (atol : ℝ) :
    isHermFlag C atol = true ↔
      ∀ k a b, ‖(Spec.basisOf C k)ᴴ a b - Spec.basisOf C k a b‖ ≤ atol := by
  simp only [isHermFlag, allFin_iff, ropsLe, cabs_eq, decide_eq_true_eq, copsConj,
    Matrix.conjTranspose_apply, Spec.basisOf, Mat.toMatrix_apply, RCLike.star_def]

/-- soundness direction of `isHermFlag_iff` -/
theorem isHermFlag_sound {d N : Nat} (C : Vector (Mat ℂ d d) N) (atol : ℝ)
    (h : isHermFlag C atol = true) (k : Fin N) (a b : Fin d) :
    ‖(Spec.basisOf C k)ᴴ a b - Spec.basisOf C k a b‖ ≤ atol :=
  (isHermFlag_iff C atol).mp h k a b

/-- witness for F16: the single unnormalised element `X` (`tr(X†X) = 2`) is flagged orthonormal
with tolerance `0` -/
example : isOrthonormFlag (K := ℂ) (#v[(paulis (K := ℂ))[1]] : Vector (Mat ℂ 2 2) 1) (0 : ℝ) = true ∧
    trace ((Spec.basisOf (#v[(paulis (K := ℂ))[1]] : Vector (Mat ℂ 2 2) 1) 0)ᴴ
      * Spec.basisOf (#v[(paulis (K := ℂ))[1]] : Vector (Mat ℂ 2 2) 1) 0) = 2 := by
  refine ⟨isOrthonormFlag_single _ _, ?_⟩
  simp [Spec.basisOf, Matrix.trace, Matrix.mul_apply, Fin.sum_univ_two, paulis, Mat.toMatrix]
  norm_num

/-- **`istraceless` is truthful** (tolerance `atol = eps·d² ≥ 0`): if the flag is `True` then
either all traces are within `atol` of zero (real and imaginary part separately), or exactly one
element `k` has a non-negligible trace and that element is exactly a scalar multiple of the
identity matrix (equal diagonal entries, ALL off-diagonal entries zero).
(Source after the repair `offdiag_nonzero[0].size == 0`; the earlier test
`not offdiag_nonzero[0].any()` looked at the positions of the non-zero off-diagonal entries and
accepted `[[1, 1], [0, 1]]`.) -/
theorem isTracelessFlag_sound {d N : Nat} (C : Vector (Mat ℂ d d) N) (atol : ℝ) (hatol : 0 ≤ atol)
    (h : isTracelessFlag C atol = true) :
    (∀ k, |(trace (Spec.basisOf C k)).re| ≤ atol ∧ |(trace (Spec.basisOf C k)).im| ≤ atol) ∨
    ∃ k : Fin N,
      (∀ k', k' ≠ k →
        |(trace (Spec.basisOf C k')).re| ≤ atol ∧ |(trace (Spec.basisOf C k')).im| ≤ atol) ∧
      ∃ c : ℂ, Spec.basisOf C k = c • (1 : Matrix (Fin d) (Fin d) ℂ) := by
  unfold isTracelessFlag at h
  simp only at h
  split at h
  · rename_i hnil
    left
    intro k
    have := filter_eq_nil_finRange _ hnil k
    rw [trace_getElem] at this
    exact (traceNz_false_iff atol _ hatol).mp this
  · rename_i k hk
    right
    obtain ⟨_, hrest⟩ := filter_eq_singleton_finRange _ k hk
    refine ⟨k, fun k' hne => ?_, (identityTest_iff_smul_one _).mp h⟩
    have := hrest k' hne
    rw [trace_getElem] at this
    exact (traceNz_false_iff atol _ hatol).mp this
  · exact absurd h (by simp)

/-- entrywise form of `isTracelessFlag_sound`: the distinguished element has equal diagonal entries
and all its off-diagonal entries vanish (no exception) -/
theorem isTracelessFlag_sound_entries {d N : Nat} (C : Vector (Mat ℂ d d) N) (atol : ℝ)
    (hatol : 0 ≤ atol) (h : isTracelessFlag C atol = true) :
    (∀ k, |(trace (Spec.basisOf C k)).re| ≤ atol ∧ |(trace (Spec.basisOf C k)).im| ≤ atol) ∨
    ∃ k : Fin N,
      (∀ k', k' ≠ k →
        |(trace (Spec.basisOf C k')).re| ≤ atol ∧ |(trace (Spec.basisOf C k')).im| ≤ atol) ∧
      (∀ a a' : Fin d, C[k][a][a] = C[k][a'][a']) ∧
      (∀ a b : Fin d, a ≠ b → C[k][a][b] = 0) := by
  rcases isTracelessFlag_sound C atol hatol h with h1 | ⟨k, h1, h2⟩
  · exact Or.inl h1
  · exact Or.inr ⟨k, h1, (identityTest_iff _).mp ((identityTest_iff_smul_one _).mpr h2)⟩

/-- the former defect witness is now rejected: `[[1, 1], [0, 1]]` (trace `2`, not proportional to
the identity) is NOT reported traceless, with tolerance `0` -/
example : isTracelessFlag (K := ℂ) (#v[#v[#v[1, 1], #v[0, 1]]] : Vector (Mat ℂ 2 2) 1) (0 : ℝ)
    = false := by
  have hf : List.finRange 1 = [(0 : Fin 1)] := by decide
  have htr : traceNz (0 : ℝ) ((Gen.basis_Basis_istraceless_0_e1
      (#v[#v[#v[1, 1], #v[0, 1]]] : Vector (Mat ℂ 2 2) 1))[(0 : Fin 1)]) = true := by
    have : (Gen.basis_Basis_istraceless_0_e1
      (#v[#v[#v[1, 1], #v[0, 1]]] : Vector (Mat ℂ 2 2) 1))[(0 : Fin 1)] = 2 := by
      simp [Gen.basis_Basis_istraceless_0_e1, fsum_eq_sum, Fin.sum_univ_two]
      norm_num
    rw [this]
    simp [traceNz, tidyR, rnz]
  unfold isTracelessFlag
  simp only [hf, List.filter_cons, htr, if_true, List.filter_nil]
  rw [← Bool.not_eq_true, identityTest_iff]
  rintro ⟨-, h2⟩
  have := h2 (0 : Fin 2) (1 : Fin 2) (by decide)
  simp at this

/-- the normalisable identity `[[1, 0], [0, 1]]` (trace `2`) is reported traceless-up-to-identity -/
example : isTracelessFlag (K := ℂ) (#v[#v[#v[1, 0], #v[0, 1]]] : Vector (Mat ℂ 2 2) 1) (0 : ℝ)
    = true := by
  have hf : List.finRange 1 = [(0 : Fin 1)] := by decide
  have htr : traceNz (0 : ℝ) ((Gen.basis_Basis_istraceless_0_e1
      (#v[#v[#v[1, 0], #v[0, 1]]] : Vector (Mat ℂ 2 2) 1))[(0 : Fin 1)]) = true := by
    have : (Gen.basis_Basis_istraceless_0_e1
      (#v[#v[#v[1, 0], #v[0, 1]]] : Vector (Mat ℂ 2 2) 1))[(0 : Fin 1)] = 2 := by
      simp [Gen.basis_Basis_istraceless_0_e1, fsum_eq_sum, Fin.sum_univ_two]
      norm_num
    rw [this]
    simp [traceNz, tidyR, rnz]
  unfold isTracelessFlag
  simp only [hf, List.filter_cons, htr, if_true, List.filter_nil]
  rw [identityTest_iff]
  refine ⟨fun a a' => ?_, fun a b hab => ?_⟩
  · fin_cases a <;> fin_cases a' <;> simp
  · fin_cases a <;> fin_cases b <;> simp at hab ⊢

/-! ### (f, continued) acceptance tests of `_full_from_partial` -/

/-- **Rejection of non-orthonormal input**: if (for `≥ 2` supplied elements) some Gram entry
`tr(C_i† C_j)` differs from `δ_ij` by more than the tolerance, `_full_from_partial` raises. -/
theorem fromPartial_rejects_nonorthonormal {d N : Nat} (C : Vector (Mat ℂ d d) N)
    (aO aT : ℝ) (tl : Option Bool) (hN : N ≠ 1) (i j : Fin N)
    (h : aO < ‖trace ((Spec.basisOf C i)ᴴ * Spec.basisOf C j) - (if i = j then 1 else 0)‖) :
    fromPartialGate C aO aT tl = .error "ValueError: not orthonormal" := by
  have hf : isOrthonormFlag C aO = false := by
    rw [← Bool.not_eq_true]
    intro ht
    exact absurd (isOrthonormFlag_sound C aO hN ht i j) (not_le.mpr h)
  simp [fromPartialGate, hf]

/-- **Rejection of non-traceless input when `traceless=True`**: if two different elements have a
trace whose real part exceeds the tolerance, `_full_from_partial(…, traceless=True)` raises (when it
has not already raised for non-orthonormality). -/
theorem fromPartial_rejects_nontraceless {d N : Nat} (C : Vector (Mat ℂ d d) N)
    (aO aT : ℝ) (haT : 0 ≤ aT) (k k' : Fin N) (hkk : k ≠ k')
    (hk : aT < |(trace (Spec.basisOf C k)).re|) (hk' : aT < |(trace (Spec.basisOf C k')).re|) :
    ∃ msg, fromPartialGate C aO aT (some true) = .error msg := by
  have hf : isTracelessFlag C aT = false := by
    rw [← Bool.not_eq_true]
    intro ht
    rcases isTracelessFlag_sound C aT haT ht with hall | ⟨k0, hrest, -⟩
    · exact absurd (hall k).1 (not_le.mpr hk)
    · by_cases h0 : k = k0
      · exact absurd (hrest k' (fun h => hkk (h0.trans h.symm))).1 (not_le.mpr hk')
      · exact absurd (hrest k h0).1 (not_le.mpr hk)
  unfold fromPartialGate
  by_cases ho : isOrthonormFlag C aO = true
  · exact ⟨"ValueError: not traceless", by simp [ho, hf]⟩
  · exact ⟨"ValueError: not orthonormal", by simp [ho]⟩

/-- **Acceptance implies the flags**: if `_full_from_partial` does not raise, the orthonormality
flag was `True`, and with `traceless=True` also the traceless flag; the effective `traceless` is
the requested one, or the flag when none was requested. -/
theorem fromPartialGate_ok {d N : Nat} (C : Vector (Mat ℂ d d) N) (aO aT : ℝ) (tl : Option Bool)
    (t : Bool) (h : fromPartialGate C aO aT tl = .ok t) :
    isOrthonormFlag C aO = true ∧ (tl = some true → isTracelessFlag C aT = true) ∧
      (tl = none → t = isTracelessFlag C aT) ∧ (∀ b, tl = some b → t = b) := by
  unfold fromPartialGate at h
  by_cases ho : isOrthonormFlag C aO = true
  · simp only [ho, Bool.not_true, Bool.false_eq_true, if_false] at h
    refine ⟨ho, ?_⟩
    rcases tl with _ | b
    · simp only [Except.ok.injEq] at h
      simp [h]
    · cases b
      · simp only [Except.ok.injEq] at h
        simp [h]
      · by_cases ht : isTracelessFlag C aT = true
        · simp only [ht, Bool.not_true, Bool.false_eq_true, if_false, Except.ok.injEq] at h
          simp [h, ht]
        · simp [ht] at h
  · simp [ho] at h


/-! ### Source pins -/

end FFVerif.C14
