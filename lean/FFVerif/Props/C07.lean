/-
C07 — results never depend on the cache history of a pulse object.
Invariant proof over all finite sequences of public operations (core Lean, no Mathlib).
The model (`Model/Cache.lean`) abstracts cached arrays to the frequency grid they were computed
for; its `cleanup` attribute sets are regenerated from the source on every run.
-/
import FFVerif.Model.Cache

namespace FFVerif.C07
open FFVerif FFVerif.Model.Cache

/-- a frequency-dependent tag is coherent with the object's cached frequencies -/
def okTag (om t : Option Grid) : Prop := t = none ∨ t = om

def okFF2 (om : Option Grid) (t : Option (Grid × Bool)) : Prop :=
  t = none ∨ ∃ h, t = some (h, true) ∧ om = some h

/-- **Cache coherence invariant.** Every cached frequency-dependent attribute, and every
frequency-dependent entry of the intermediates dict, was computed for exactly the grid recorded
in `omega`; the second-order filter function consumed only ingredients of its own grid. -/
def Inv (s : Obj) : Prop :=
  okTag s.omega s.phases ∧ okTag s.omega s.cm ∧ okTag s.omega s.cmPc ∧ okTag s.omega s.ff ∧
  okTag s.omega s.ffGen ∧ okTag s.omega s.ffPc ∧ okTag s.omega s.ffPcGen ∧ okFF2 s.omega s.ff2 ∧
  okTag s.omega s.iPhase ∧ okTag s.omega s.iFoInt ∧ okTag s.omega s.iCmStep

/-- coherent and tagged with grid `g` -/
def At (g : Grid) (s : Obj) : Prop := Inv s ∧ s.omega = some g

/-- coherent and either tagged with `g` or holding nothing frequency dependent -/
def Pre (g : Grid) (s : Obj) : Prop := Inv s ∧ (s.omega = some g ∨ s.omega = none)

/-! ### the clean-up modes, with the attribute sets read from the source -/

theorem cleanup_freq (s : Obj) : cleanup .freq s =
    { s with omega := none, phases := none, cm := none, cmPc := none, ff := none, ffGen := none,
             ffPc := none, ffPcGen := none, ff2 := none, iPhase := none, iFoInt := none,
             iCmStep := none } := by
  simp [cleanup, clear, Gen.cleanup_freq_attrs, Gen.cleanup_freq_pops]

theorem cleanup_conservative (s : Obj) : cleanup .conservative s =
    { s with eigvals := false, eigvecs := false, props := false } := by
  simp [cleanup, clear, Gen.cleanup_conservative_attrs, Gen.cleanup_conservative_pops]

theorem cleanup_greedy (s : Obj) : cleanup .greedy s =
    { s with eigvals := false, eigvecs := false, props := false, totProp := false,
             totPropL := false, phases := none, cm := none, cmPc := none, iNOps := false,
             iBasis := false, iPhase := none, iFoInt := none, iCmStep := none } := by
  simp [cleanup, clear, Gen.cleanup_greedy_attrs, Gen.cleanup_greedy_pops]

theorem cleanup_all (s : Obj) : cleanup .all s = {} := by
  simp [cleanup, clear, Gen.cleanup_all_attrs, Gen.cleanup_all_pops]

/-- the freshly constructed pulse -/
theorem inv_init : Inv {} := by
  simp [Inv, okTag, okFF2]

/-! ### every primitive preserves the invariant -/

theorem inv_cleanup (m : Mode) (s : Obj) (h : Inv s) : Inv (cleanup m s) := by
  cases m
  · rw [cleanup_conservative]; exact h
  · rw [cleanup_greedy]; unfold Inv okTag okFF2 at *; simp_all
  · rw [cleanup_freq]; simp [Inv, okTag, okFF2]
  · rw [cleanup_all]; exact inv_init

theorem pre_cleanup_freq (g : Grid) (s : Obj) : Pre g (cleanup .freq s) := by
  rw [cleanup_freq]; simp [Pre, Inv, okTag, okFF2]

theorem diagonalize_freq (s : Obj) : Inv (diagonalize s) ↔ Inv s := by
  unfold diagonalize; split <;> rfl

theorem diagonalize_omega (s : Obj) : (diagonalize s).omega = s.omega := by
  unfold diagonalize; split <;> rfl

theorem needEig_inv (s : Obj) : Inv (needEig s) ↔ Inv s := by
  unfold needEig; split
  · rfl
  · exact diagonalize_freq s

theorem needEig_omega (s : Obj) : (needEig s).omega = s.omega := by
  unfold needEig; split
  · rfl
  · exact diagonalize_omega s

theorem needTotProp_inv (s : Obj) : Inv (needTotProp s) ↔ Inv s := by
  unfold needTotProp; split
  · rfl
  · exact diagonalize_freq s

theorem needTotProp_omega (s : Obj) : (needTotProp s).omega = s.omega := by
  unfold needTotProp; split
  · rfl
  · exact diagonalize_omega s

theorem pre_invalidate (g : Grid) (s : Obj) (h : Inv s) : Pre g (invalidate g s) := by
  unfold invalidate
  split
  · split
    · refine ⟨h, Or.inl ?_⟩; simp_all
    · exact pre_cleanup_freq g s
  · exact ⟨h, Or.inr (by assumption)⟩

theorem at_invalidate (g : Grid) (s : Obj) (h : At g s) : invalidate g s = s := by
  unfold invalidate; rw [h.2]; simp

/-- re-tagging a coherent object that holds nothing for another grid -/
theorem at_set_omega (g : Grid) (s : Obj) (h : Pre g s) : At g { s with omega := some g } := by
  obtain ⟨h, ho⟩ := h
  unfold At Inv okTag okFF2 at *
  rcases ho with ho | ho <;> simp_all

/-- every frequency-dependent tag is `g` or absent, and the object is tagged `g` or untagged:
the shape of the transient states inside a computation for grid `g` -/
def Compat (g : Grid) (s : Obj) : Prop :=
  okTag (some g) s.phases ∧ okTag (some g) s.cm ∧ okTag (some g) s.cmPc ∧ okTag (some g) s.ff ∧
  okTag (some g) s.ffGen ∧ okTag (some g) s.ffPc ∧ okTag (some g) s.ffPcGen ∧
  okFF2 (some g) s.ff2 ∧ okTag (some g) s.iPhase ∧ okTag (some g) s.iFoInt ∧
  okTag (some g) s.iCmStep ∧ (s.omega = some g ∨ s.omega = none)

theorem compat_of_pre (g : Grid) (s : Obj) (h : Pre g s) : Compat g s := by
  obtain ⟨h, ho⟩ := h
  unfold Compat Inv okTag okFF2 at *
  rcases ho with ho | ho <;> simp_all

theorem compat_of_at (g : Grid) (s : Obj) (h : At g s) : Compat g s :=
  compat_of_pre g s ⟨h.1, Or.inl h.2⟩

theorem compat_invalidate (g : Grid) (s : Obj) (h : Compat g s) : invalidate g s = s := by
  unfold invalidate
  rcases h.2.2.2.2.2.2.2.2.2.2.2 with ho | ho <;> simp [ho]

theorem at_of_compat (g : Grid) (s : Obj) (h : Compat g s) : At g { s with omega := some g } := by
  unfold At Compat Inv okTag okFF2 at *
  simp_all

theorem at_cachePhases' (g : Grid) (s : Obj) (h : Compat g s) : At g (cachePhases g s) := by
  unfold cachePhases
  rw [compat_invalidate g s h]
  have := at_of_compat g s h
  unfold At Compat Inv okTag okFF2 at *
  simp_all

theorem at_cachePhases (g : Grid) (s : Obj) (h : Inv s) : At g (cachePhases g s) := by
  have h1 := at_set_omega g _ (pre_invalidate g s h)
  unfold cachePhases
  generalize invalidate g s = s' at *
  unfold At Inv okTag okFF2 at *
  simp_all

theorem at_set_totPropL (g : Grid) (s : Obj) (h : At g s) :
    At g (if s.totPropL then s else { needTotProp s with totPropL := true }) := by
  split
  · exact h
  · have h1 := (needTotProp_inv s).mpr h.1
    have h2 := needTotProp_omega s
    generalize needTotProp s = s' at *
    unfold At Inv okTag okFF2 at *
    simp_all

theorem totPropL_cm (t : Obj) :
    (if t.totPropL then t else { needTotProp t with totPropL := true }).cm = t.cm := by
  split
  · rfl
  · unfold needTotProp diagonalize; split <;> (try split) <;> rfl

theorem at_cacheCM' (g : Grid) (pc : Bool) (s : Obj) (h : Compat g s) :
    At g (cacheCM g pc s) ∧ (pc = false → (cacheCM g pc s).cm = some g) := by
  unfold cacheCM
  rw [compat_invalidate g s h]
  have h1 := at_of_compat g s h
  simp only []
  have hc : Compat g (if pc = true then { { s with omega := some g } with cmPc := some g }
      else { { s with omega := some g } with cm := some g }) := by
    cases pc <;> (unfold At Compat Inv okTag okFF2 at *; simp_all)
  refine ⟨at_set_totPropL g _ (at_cachePhases' g _ hc), ?_⟩
  intro hpc
  subst hpc
  rw [totPropL_cm]
  unfold cachePhases
  rw [compat_invalidate g _ hc]
  simp

theorem at_cacheCM (g : Grid) (pc : Bool) (s : Obj) (h : Inv s) : At g (cacheCM g pc s) := by
  unfold cacheCM
  have hp := pre_invalidate g s h
  generalize invalidate g s = s1 at *
  have hc := compat_of_pre g s1 hp
  have := (at_cacheCM' g pc s1 hc).1
  unfold cacheCM at this
  rw [compat_invalidate g s1 hc] at this
  exact this

theorem computeCM_spec (g : Grid) (ci : Bool) (s : Obj) (h : Pre g s) :
    At g (computeCM g ci s) ∧ (computeCM g ci s).cm = some g := by
  unfold computeCM
  have hd := (diagonalize_freq s).mpr h.1
  have hdo := diagonalize_omega s
  have ho := h.2
  generalize diagonalize s = sd at *
  have hcd : Compat g sd := compat_of_pre g sd ⟨hd, by rw [hdo]; exact ho⟩
  cases ci
  · simp only [Bool.false_eq_true, ↓reduceIte]
    have := at_cacheCM' g false sd hcd
    exact ⟨this.1, this.2 rfl⟩
  · simp only [↓reduceIte]
    have := at_cacheCM' g false { sd with iNOps := true, iBasis := true, iPhase := some g, iFoInt := some g, iCmStep := some g } (by
      unfold Compat okTag okFF2 at *; simp_all)
    exact ⟨this.1, this.2 rfl⟩

/-- **`get_control_matrix`**: the state stays coherent, ends tagged with the requested grid, and
the value handed back was computed for exactly the requested grid. -/
theorem getCM_spec (g : Grid) (ci : Bool) (s : Obj) (h : Inv s) :
    At g (getCM g ci s).1 ∧ (getCM g ci s).2 = .val g true := by
  unfold getCM
  by_cases he : eqOmega s g = true
  · have ho : s.omega = some g := by simpa [eqOmega] using he
    simp only [he, ↓reduceIte]
    cases hcm : s.cm with
    | some h' =>
      have : h' = g := by
        have := h.2.1; unfold okTag at this; simp_all
      subst this
      exact ⟨⟨h, ho⟩, rfl⟩
    | none =>
      cases hpc : s.cmPc with
      | some h' =>
        have : h' = g := by
          have := h.2.2.1; unfold okTag at this; simp_all
        subst this
        refine ⟨?_, rfl⟩
        unfold At Inv okTag okFF2 at *; simp_all
      | none =>
        have := computeCM_spec g ci s ⟨h, Or.inl ho⟩
        refine ⟨this.1, ?_⟩
        simp [retOfTag, this.2]
  · have he' : eqOmega s g = false := by simpa using he
    simp only [he', Bool.false_eq_true, ↓reduceIte]
    have := computeCM_spec g ci _ (pre_cleanup_freq g s)
    refine ⟨this.1, ?_⟩
    simp [retOfTag, this.2]

theorem getPhases_spec (g : Grid) (s : Obj) (h : Inv s) :
    At g (getPhases g s).1 ∧ (getPhases g s).2 = .val g true := by
  unfold getPhases
  by_cases he : eqOmega s g = true
  · have ho : s.omega = some g := by simpa [eqOmega] using he
    simp only [he, ↓reduceIte]
    cases hp : s.phases with
    | some h' =>
      have : h' = g := by
        have := h.1; unfold okTag at this; simp_all
      subst this
      exact ⟨⟨h, ho⟩, rfl⟩
    | none =>
      have h1 := at_cachePhases g s h
      have h2 : (cachePhases g s).phases = some g := by unfold cachePhases; rfl
      refine ⟨h1, ?_⟩
      simp [retOfTag, h2]
  · have he' : eqOmega s g = false := by simpa using he
    simp only [he', Bool.false_eq_true, ↓reduceIte]
    have h1 := at_cachePhases g _ (pre_cleanup_freq g s).1
    have h2 : (cachePhases g (cleanup .freq s)).phases = some g := by unfold cachePhases; rfl
    refine ⟨h1, ?_⟩
    simp [retOfTag, h2]


/-! ### filter functions -/

theorem at_mk (g : Grid) (s : Obj) (hc : Compat g s) (ho : s.omega = some g) : At g s := by
  have := at_of_compat g s hc
  have e : { s with omega := some g } = s := by
    cases s; simp_all
  rwa [e] at this

/-- closes goals `At g (update of s)` from `At g s`-type hypotheses -/
macro "at_close" : tactic =>
  `(tactic| (apply at_mk <;> (unfold Compat okTag okFF2 at *; simp_all)))

theorem at_setFF (g : Grid) (w : Which) (s : Obj) (h : At g s) : At g (setFF g w s) := by
  have hc := compat_of_at g s h
  have ho := h.2
  unfold setFF
  cases w <;> at_close

theorem ffTag_setFF (g : Grid) (w : Which) (s : Obj) :
    ffTag w false (setFF g w s) = some (g, true) := by
  cases w <;> simp [ffTag, setFF]

theorem cacheFFcomputed_spec (g : Grid) (w : Which) (o2 ci : Bool) (s : Obj) (h : Inv s) :
    At g (cacheFFcomputed g w o2 ci s) ∧ ffTag w o2 (cacheFFcomputed g w o2 ci s) = some (g, true) := by
  unfold cacheFFcomputed
  have hp := pre_invalidate g s h
  generalize invalidate g s = s1 at *
  cases o2
  · simp only [Bool.false_eq_true, ↓reduceIte]
    have h1 := (getCM_spec g ci s1 hp.1).1
    generalize (getCM g ci s1).1 = s2 at *
    have h2 := at_cacheCM g false s2 h1.1
    generalize cacheCM g false s2 = s3 at *
    have h3 : At g { s3 with omega := some g } := by
      have hc := compat_of_at g s3 h2
      have ho := h2.2
      at_close
    exact ⟨at_setFF g w _ h3, ffTag_setFF g w _⟩
  · simp only [↓reduceIte]
    have hi := (needEig_inv s1).mpr hp.1
    have ho := needEig_omega s1
    have hpo := hp.2
    generalize needEig s1 = s2 at *
    have hc : Compat g s2 := compat_of_pre g s2 ⟨hi, by rw [ho]; exact hpo⟩
    have hfr : ff2Fresh g s2 = true := by
      have := hc.2.2.2.2.2.2.2.2.2.2.1
      unfold ff2Fresh okTag at *
      split
      · rcases this with h | h <;> simp [h]
      · rfl
    rw [hfr]
    refine ⟨?_, by simp [ffTag]⟩
    at_close

theorem ffTag_at (g : Grid) (w : Which) (o2 : Bool) (s : Obj) (h : At g s) (p : Grid × Bool)
    (hp : ffTag w o2 s = some p) : p = (g, true) := by
  obtain ⟨hi, ho⟩ := h
  unfold ffTag at hp
  cases o2
  · cases w
    · simp only [Bool.false_eq_true, ↓reduceIte, Option.map_eq_some_iff] at hp
      obtain ⟨a, ha, rfl⟩ := hp
      have := hi.2.2.2.1; unfold okTag at this; simp_all
    · simp only [Bool.false_eq_true, ↓reduceIte, Option.map_eq_some_iff] at hp
      obtain ⟨a, ha, rfl⟩ := hp
      have := hi.2.2.2.2.1; unfold okTag at this; simp_all
  · simp only [↓reduceIte] at hp
    have := hi.2.2.2.2.2.2.2.1; unfold okFF2 at this
    rcases this with h | ⟨h', h1, h2⟩
    · simp_all
    · simp_all

/-- **`get_filter_function`** (first and second order, fidelity and generalized, with or without
cached intermediates): coherent afterwards, and the value served was computed for exactly the
requested grid from ingredients of that grid. -/
theorem getFF_spec (g : Grid) (w : Which) (o2 ci : Bool) (s : Obj) (h : Inv s) :
    At g (getFF g w o2 ci s).1 ∧ (getFF g w o2 ci s).2 = .val g true := by
  unfold getFF
  by_cases he : eqOmega s g = true
  · have ho : s.omega = some g := by simpa [eqOmega] using he
    simp only [he, ↓reduceIte]
    cases ht : ffTag w o2 s with
    | some p =>
      have := ffTag_at g w o2 s ⟨h, ho⟩ p ht
      subst this
      exact ⟨⟨h, ho⟩, rfl⟩
    | none =>
      have := cacheFFcomputed_spec g w o2 ci s h
      refine ⟨this.1, ?_⟩
      simp [retOfTag2, this.2]
  · have he' : eqOmega s g = false := by simpa using he
    simp only [he', Bool.false_eq_true, ↓reduceIte]
    have := cacheFFcomputed_spec g w o2 ci _ (pre_cleanup_freq g s).1
    refine ⟨this.1, ?_⟩
    simp [retOfTag2, this.2]

theorem at_cacheFFvalue (g : Grid) (w : Which) (o2 : Bool) (s : Obj) (h : Inv s) :
    At g (cacheFFvalue g w o2 s) := by
  unfold cacheFFvalue
  have h1 := at_set_omega g _ (pre_invalidate g s h)
  generalize invalidate g s = s1 at *
  cases o2
  · simp only [Bool.false_eq_true, ↓reduceIte]
    exact at_setFF g w _ h1
  · simp only [↓reduceIte]
    have hc := compat_of_at g _ h1
    have ho := h1.2
    at_close

theorem at_cacheFFfromCM (g : Grid) (w : Which) (pc : Bool) (s : Obj) (h : Inv s) :
    At g (cacheFFfromCM g w pc s) := by
  unfold cacheFFfromCM
  have hp := pre_invalidate g s h
  generalize invalidate g s = s1 at *
  apply at_setFF
  cases pc
  · have h2 := at_cacheCM g false s1 hp.1
    simp only [Bool.false_eq_true, ↓reduceIte]
    generalize cacheCM g false s1 = s2 at *
    have hc := compat_of_at g s2 h2
    have ho := h2.2
    at_close
  · have h2 := at_cacheCM g true s1 hp.1
    simp only [↓reduceIte]
    generalize cacheCM g true s1 = s2 at *
    have hc := compat_of_at g s2 h2
    have ho := h2.2
    cases w <;> at_close

theorem inv_getPcFF (w : Which) (s : Obj) (h : Inv s) : Inv (getPcFF w s).1 := by
  unfold getPcFF
  cases w <;> simp only [] <;> split <;> (try exact h) <;> split <;>
    (try exact h) <;> (unfold Inv okTag okFF2 at *; simp_all)

theorem inv_infidelityCorr (tl idc : Bool) (s : Obj) (h : Inv s) :
    Inv (infidelityCorr tl idc s).1 := by
  unfold infidelityCorr
  cases tl
  · exact h
  · exact inv_getPcFF _ s h

theorem deriv_spec (g : Grid) (s : Obj) (h : Inv s) :
    At g (deriv g s).1 ∧ (deriv g s).2 = .val g true := by
  unfold deriv
  have := getCM_spec g true s h
  generalize getCM g true s = r at *
  obtain ⟨s', r'⟩ := r
  simp only [] at this ⊢
  refine ⟨⟨(needEig_inv s').mpr this.1.1, (needEig_omega s').trans this.1.2⟩, ?_⟩
  rw [this.2]
  have hf := this.1.1.2.2.2.2.2.2.2.2.2.1
  have ho := this.1.2
  unfold okTag at hf
  rcases hf with hf | hf <;> simp_all


theorem decayAmps_spec (g : Grid) (ci : Bool) (s : Obj) (h : Inv s) :
    At g (decayAmps g false ci s).1 ∧ (decayAmps g false ci s).2 = .val g true := by
  unfold decayAmps
  simp only [Bool.false_eq_true, ↓reduceIte]
  split
  · exact getFF_spec g .generalized false false s h
  · exact getCM_spec g ci s h

theorem decayAmps_corr_state (g : Grid) (ci : Bool) (s : Obj) :
    (decayAmps g true ci s).1 = s := by
  unfold decayAmps
  simp only [↓reduceIte]
  split
  · split <;> (try rfl) <;> split <;> rfl
  · split <;> rfl

theorem cumulant_spec (g : Grid) (so : Bool) (s : Obj) (h : Inv s) :
    At g (step s (.cumulant g so)).1 ∧ (step s (.cumulant g so)).2 = .val g true := by
  obtain ⟨hA, hR⟩ := decayAmps_spec g so s h
  rcases hd : decayAmps g false so s with ⟨s1, r1⟩
  rw [hd] at hA hR
  simp only [] at hA hR
  subst hR
  cases so
  · simp only [step, hd, Bool.false_eq_true, ↓reduceIte]
    exact ⟨hA, trivial⟩
  · obtain ⟨hA2, hR2⟩ := getFF_spec g .generalized true false s1 hA.1
    rcases hf : getFF g .generalized true false s1 with ⟨s2, r2⟩
    rw [hf] at hA2 hR2
    simp only [] at hA2 hR2
    subst hR2
    simp only [step, hd, hf, ↓reduceIte]
    exact ⟨hA2, by simp⟩

/-! ### The property theorems -/

/-- **Every public operation preserves cache coherence.** -/
theorem step_preserves_Inv (s : Obj) (op : Op) (h : Inv s) : Inv (step s op).1 := by
  cases op with
  | diagonalize => exact (diagonalize_freq s).mpr h
  | getCM g ci => exact (getCM_spec g ci s h).1.1
  | cacheCM g pc => exact (at_cacheCM g pc s h).1
  | getFF g w o2 ci => exact (getFF_spec g w o2 ci s h).1.1
  | cacheFFvalue g w o2 => exact (at_cacheFFvalue g w o2 s h).1
  | cacheFFfromCM g w pc => exact (at_cacheFFfromCM g w pc s h).1
  | cacheFFcompute g w o2 ci => exact (cacheFFcomputed_spec g w o2 ci s h).1.1
  | cacheCMcompute g ci => exact (at_cacheCM g false _ (getCM_spec g ci s h).1.1).1
  | getPcFF w => exact inv_getPcFF w s h
  | getPcCM => exact h
  | getPhases g => exact (getPhases_spec g s h).1.1
  | cachePhases g => exact (at_cachePhases g s h).1
  | deriv g => exact (deriv_spec g s h).1.1
  | totPropL =>
    show Inv (totPropLGet s)
    unfold totPropLGet; split
    · exact h
    · have h1 := (needTotProp_inv s).mpr h
      generalize needTotProp s = s' at *
      unfold Inv okTag okFF2 at *; simp_all
  | eigAccess => exact (needEig_inv s).mpr h
  | totPropAccess => exact (needTotProp_inv s).mpr h
  | cleanup m => exact inv_cleanup m s h
  | infidelity g tl corr idc =>
    unfold step
    cases corr
    · simp only [Bool.false_eq_true, ↓reduceIte]
      split
      · exact (getCM_spec g false _ (getFF_spec g .fidelity false false s h).1.1).1.1
      · exact (getCM_spec g false s h).1.1
    · simp only [↓reduceIte]
      split
      · split
        · exact inv_infidelityCorr tl idc s h
        · exact h
      · exact inv_infidelityCorr tl idc s h
  | decayAmps g corr ci =>
    cases corr
    · exact (decayAmps_spec g ci s h).1.1
    · show Inv (decayAmps g true ci s).1
      rw [decayAmps_corr_state g ci s]; exact h
  | cumulant g so => exact (cumulant_spec g so s h).1.1

theorem run_preserves_Inv (ops : List Op) (s : Obj) (h : Inv s) : Inv (run s ops) := by
  induction ops generalizing s with
  | nil => exact h
  | cons op ops ih => exact ih _ (step_preserves_Inv s op h)

/-- **Coherence holds after every finite history of public operations on a fresh pulse.** -/
theorem reachable_Inv (ops : List Op) : Inv (run {} ops) := run_preserves_Inv ops _ inv_init

/-- **A value is served only if it was computed for exactly the requested frequencies**: in any
coherent state, every operation that requests a frequency-dependent quantity for grid `g`
returns a value tagged `g` whose ingredients were all computed for `g` — and never an error. -/
theorem served_value_is_fresh (s : Obj) (op : Op) (g : Grid) (h : Inv s)
    (hg : op.grid = some g) : (step s op).2 = .val g true := by
  cases op with
  | getCM g' ci => simp [Op.grid] at hg; subst hg; exact (getCM_spec _ ci s h).2
  | getFF g' w o2 ci => simp [Op.grid] at hg; subst hg; exact (getFF_spec _ w o2 ci s h).2
  | getPhases g' => simp [Op.grid] at hg; subst hg; exact (getPhases_spec _ s h).2
  | deriv g' => simp [Op.grid] at hg; subst hg; exact (deriv_spec _ s h).2
  | infidelity g' tl corr idc =>
    cases corr
    · simp [Op.grid] at hg; subst hg
      unfold step
      simp only [Bool.false_eq_true, ↓reduceIte]
      split
      · exact (getFF_spec _ .fidelity false false s h).2
      · exact (getCM_spec _ false s h).2
    · simp [Op.grid] at hg
  | decayAmps g' corr ci =>
    cases corr
    · simp [Op.grid] at hg; subst hg; exact (decayAmps_spec _ ci s h).2
    · simp [Op.grid] at hg
  | cumulant g' so => simp [Op.grid] at hg; subst hg; exact (cumulant_spec _ so s h).2
  | _ => simp [Op.grid] at hg

/-- **History independence** (the property as stated): after *any* finite sequence of public
operations, a request for a frequency-dependent quantity returns what the same request returns
on a freshly constructed pulse. -/
theorem history_independent (ops : List Op) (op : Op) (g : Grid) (hg : op.grid = some g) :
    (step (run {} ops) op).2 = (step {} op).2 := by
  rw [served_value_is_fresh _ op g (reachable_Inv ops) hg,
      served_value_is_fresh _ op g inv_init hg]

/-- Copies: `copy.copy` / `copy.deepcopy` duplicate the cached state into an independent object
(own intermediates dict), so histories on the original and on the copy evolve separately; both
stay coherent and both serve fresh values. -/
theorem copies_independent (before onOrig onCopy : List Op) (op : Op) (g : Grid)
    (hg : op.grid = some g) :
    (step (run (run {} before) onOrig) op).2 = .val g true ∧
    (step (run (run {} before) onCopy) op).2 = .val g true :=
  ⟨served_value_is_fresh _ op g (run_preserves_Inv _ _ (reachable_Inv before)) hg,
   served_value_is_fresh _ op g (run_preserves_Inv _ _ (reachable_Inv before)) hg⟩

/-- pulse-correlation requests raise `CalculationError` exactly when no pulse-correlation data is
cached (as on a fresh pulse, where none ever is). -/
theorem pc_error_iff (s : Obj) (w : Which) :
    (getPcFF w s).2 = .calcError ↔
      (match w with | .fidelity => s.ffPc | .generalized => s.ffPcGen) = none ∧ s.cmPc = none := by
  unfold getPcFF
  cases w <;> simp only [] <;> split <;> simp_all <;> split <;> simp_all

/-! ### several objects (a pulse and its copies) -/

def AllInv (h : List Obj) : Prop := ∀ o ∈ h, Inv o

theorem hstep_preserves (h : List Obj) (op : HOp) (hi : AllInv h) : AllInv (hstep h op).1 := by
  cases op with
  | on i op =>
    simp only [hstep]
    split
    · rename_i s hs
      intro o ho
      have hs' : s ∈ h := List.mem_of_getElem? hs
      rcases List.mem_or_eq_of_mem_set ho with ho | ho
      · exact hi o ho
      · subst ho; exact step_preserves_Inv s op (hi s hs')
    · exact hi
  | copy i =>
    simp only [hstep]
    split
    · rename_i s hs
      intro o ho
      simp only [List.mem_append, List.mem_singleton] at ho
      rcases ho with ho | ho
      · exact hi o ho
      · subst ho; exact hi _ (List.mem_of_getElem? hs)
    · exact hi
  | deepcopy i =>
    simp only [hstep]
    split
    · rename_i s hs
      intro o ho
      simp only [List.mem_append, List.mem_singleton] at ho
      rcases ho with ho | ho
      · exact hi o ho
      · subst ho; exact hi _ (List.mem_of_getElem? hs)
    · exact hi

/-- **All finite histories over a pulse and any number of its copies**: every object stays
coherent, hence (by `served_value_is_fresh`) every later request on any of them is fresh. -/
theorem heap_reachable_Inv (ops : List HOp) : AllInv (hrun [{}] ops) := by
  have : ∀ h, AllInv h → AllInv (hrun h ops) := by
    induction ops with
    | nil => intro h hi; exact hi
    | cons op ops ih => intro h hi; exact ih _ (hstep_preserves h op hi)
  apply this
  intro o ho
  simp only [List.mem_singleton] at ho
  subst ho; exact inv_init

theorem heap_served_fresh (ops : List HOp) (i : Nat) (op : Op) (g : Grid)
    (hg : op.grid = some g) (s : Obj) (hs : (hrun [{}] ops)[i]? = some s) :
    (hstep (hrun [{}] ops) (.on i op)).2 = .val g true := by
  simp only [hstep, hs]
  exact served_value_is_fresh s op g (heap_reachable_Inv ops s (List.mem_of_getElem? hs)) hg

/-! ### non-vacuity: concrete histories -/

/-- a history mixing grids, intermediates, second order, explicit caching and clean-up -/
def demoHistory : List Op :=
  [.getCM 1 true, .getFF 1 .generalized true false, .getFF 2 .fidelity false false,
   .cacheCM 3 false, .cleanup .conservative, .deriv 2, .cacheFFvalue 1 .fidelity true,
   .getPhases 3, .cumulant 2 true, .cleanup .greedy, .getFF 2 .generalized true true]

example : (step (run {} demoHistory) (.getFF 2 .generalized true false)).2 = .val 2 true := by
  decide

example : (run {} demoHistory).omega = some 2 ∧ (run {} demoHistory).ff2 = some (2, true) := by
  decide

end FFVerif.C07
