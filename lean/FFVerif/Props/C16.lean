/-
Property C16 — tensor-product helpers compute exactly the documented Kronecker chains.

Objects: the discrete model `FFVerif.Model.Tensor` of `util.tensor`, `tensor_insert`,
`tensor_merge`, `tensor_transpose` (factor orders, einsum axis letters, row-major re-indexing) and of
`basis.equivalent_pauli_basis_elements`, `basis.remap_pauli_basis_elements`.
Specification vocabulary (`FFVerif.TensorAux`): `insertSpec` (NumPy-`insert` on lists, no sorting),
`normNat` (the natural number a position in `[-ndim, ndim]` stands for).
-/
import FFVerif.Lemmas.TensorAux

namespace FFVerif.C16
open FFVerif.Model.Tensor FFVerif.TensorAux

/-! ### (a) admissible positions -/

/-- A position `p` is accepted by `tensor_insert` / `tensor_merge` for a chain of `ndim` factors
exactly when `-ndim ≤ p ≤ ndim`; the accepted value is `p` for `p ≥ 0` and `p + ndim` for `p < 0`
(so `p = ndim`, "after the last factor", is kept and `-ndim` means "before the first").  All
integers `p`, all `ndim` (for `ndim = 0` only `p = 0` is accepted). -/
theorem normPos_ok_iff (ndim : Nat) (p : Int) (q : Nat) :
    normPos ndim p = .ok q ↔
      (-(ndim : Int) ≤ p ∧ p ≤ ndim ∧ (q : Int) = if 0 ≤ p then p else p + ndim) :=
  TensorAux.normPos_ok_iff ndim p q

example : normPos 3 (-1) = .ok 2 ∧ normPos 3 3 = .ok 3 ∧ normPos 3 (-3) = .ok 0
    ∧ normPos 3 4 = .error "IndexError" ∧ normPos 3 (-4) = .error "IndexError"
    ∧ normPos 0 1 = .error "ZeroDivisionError" := by decide

/-- An inadmissible position is rejected with `IndexError` (with `ZeroDivisionError` when the chain
is empty, `divmod(p, 0)`). -/
theorem normPos_rejected (ndim : Nat) (p : Int) (h : ¬ (-(ndim : Int) ≤ p ∧ p ≤ ndim)) :
    normPos ndim p = .error (if ndim = 0 then "ZeroDivisionError" else "IndexError") :=
  normPos_error ndim p h

/-- `tensor_insert` with a sequence `pos` of the right length and at least one argument succeeds
iff every position lies in `[-ndim, ndim]`; otherwise it raises `IndexError` (`ZeroDivisionError`
for an empty chain).  All chains, argument lists and position lists. -/
theorem positions_rejected_iff_insert (chain ins : List Nat) (pos : List Int) (h0 : ins ≠ [])
    (hl : pos.length = ins.length) :
    ((∃ r, insertResult chain ins pos = .ok r) ↔
        ∀ p ∈ pos, -(chain.length : Int) ≤ p ∧ p ≤ chain.length) ∧
    (∀ e, insertResult chain ins pos = .error e →
        e = if chain.length = 0 then "ZeroDivisionError" else "IndexError") := by
  have h0' : ¬ ins.length = 0 := by simpa using h0
  unfold insertResult
  rw [if_neg h0', if_neg (by omega)]
  constructor
  · rw [← normAll_ok_iff]
    cases normAll chain.length pos <;> simp
  · intro e he
    cases hn : normAll chain.length pos with
    | ok np => rw [hn] at he; cases he
    | error e' =>
      rw [hn] at he; injection he with he
      rw [← he]; exact normAll_error_class _ _ _ hn

/-- the two `ValueError`s of `tensor_insert` -/
theorem insertResult_valueError (chain ins : List Nat) (pos : List Int)
    (h : ins = [] ∨ pos.length ≠ ins.length) : insertResult chain ins pos = .error "ValueError" := by
  unfold insertResult
  by_cases h0 : ins.length = 0
  · rw [if_pos h0]
  · rw [if_neg h0, if_pos]
    rcases h with h | h
    · simp [h] at h0
    · exact h

/-- `tensor_merge` (as many positions as factors of `ins`, enough einsum letters) succeeds iff every
position lies in `[-ndim, ndim]`; otherwise `IndexError` (`ZeroDivisionError` for an empty chain). -/
theorem positions_rejected_iff_merge (chain ins : List Nat) (pos : List Int) (rank : Nat)
    (hl : pos.length = ins.length) (hlet : (ins.length + chain.length) * rank ≤ 52) :
    ((∃ r, mergeSlots chain ins pos rank = .ok r) ↔
        ∀ p ∈ pos, -(chain.length : Int) ≤ p ∧ p ≤ chain.length) ∧
    (∀ e, mergeSlots chain ins pos rank = .error e →
        e = if chain.length = 0 then "ZeroDivisionError" else "IndexError") := by
  unfold mergeSlots
  have h1 : ¬ (ins.length + chain.length) * rank > nLetters := by simp [nLetters]; omega
  rw [if_neg (by omega)]
  constructor
  · rw [← normAll_ok_iff]
    cases normAll chain.length pos <;> simp [h1]
  · intro e he
    cases hn : normAll chain.length pos with
    | ok np => rw [hn] at he; simp [h1] at he
    | error e' =>
      rw [hn] at he; injection he with he
      rw [← he]; exact normAll_error_class _ _ _ hn

example : insertResult [0, 1, 2] [3, 4] [-1, 4] = .error "IndexError" := by decide
example : insertResult [0, 1, 2] [3, 4] [-4, 0] = .error "IndexError" := by decide
example : mergeResult [0, 1, 2] [3, 4] [-1, 4] 2 = .error "IndexError" := by decide
example : insertResult [0, 1, 2] [] [] = .error "ValueError" := by decide
example : insertResult [0, 1, 2] [3, 4] [1] = .error "ValueError" := by decide

/-! ### (b) row-major flattening is a bijection -/

/-- `unravel_index (ravel_multi_index digits dims) = digits` for every list of dimensions and every
digit tuple within bounds. -/
theorem mixedRadix_decode_encode (dims digits : List Nat) (h : inBounds dims digits = true) :
    mixedRadixDecode dims (mixedRadixEncode dims digits) = digits ∧
      mixedRadixEncode dims digits < prod dims :=
  ⟨decode_encode h, encode_lt h⟩

/-- `ravel_multi_index (unravel_index n dims) = n` for every list of dimensions and every
`n < ∏ dims`, and the digits are within bounds.  Together with `mixedRadix_decode_encode`: row-major
flattening is a bijection between in-bounds digit tuples and `{0, …, ∏ dims - 1}`. -/
theorem mixedRadix_encode_decode (dims : List Nat) (n : Nat) (h : n < prod dims) :
    mixedRadixEncode dims (mixedRadixDecode dims n) = n ∧
      inBounds dims (mixedRadixDecode dims n) = true :=
  ⟨encode_decode h, decode_inBounds h⟩

example : mixedRadixEncode [2, 3, 4] [1, 2, 3] = 23 ∧ mixedRadixDecode [2, 3, 4] 17 = [1, 1, 1]
    ∧ inBounds [2, 3, 4] [1, 2, 3] = true ∧ prod [2, 3, 4] = 24 := by decide

/-! ### (c) `tensor_insert` -/

/-- **`tensor_insert` = `numpy.insert` on the chain.**  For every chain, every non-empty argument
list and every admissible position sequence of the same length (negative, end and repeated
positions included), the factor order produced by the loop of `tensor_insert` (normalise, stable
sort by position, insert the `i`-th sorted argument at `p+i`) is `insertSpec`: in front of original
factor `k` stand exactly the arguments whose normalised position is `k`, in argument order; after
the last factor those with position `ndim`; the original factors keep their order. -/
theorem insertResult_spec (chain ins : List Nat) (pos : List Int) (h0 : ins ≠ [])
    (hl : pos.length = ins.length)
    (hadm : ∀ p ∈ pos, -(chain.length : Int) ≤ p ∧ p ≤ chain.length) :
    insertResult chain ins pos
      = .ok (insertSpec 0 chain ((pos.map (normNat chain.length)).zip ins)) := by
  have h0' : ¬ ins.length = 0 := by simpa using h0
  unfold insertResult
  rw [if_neg h0', if_neg (by omega), normAll_admissible hadm]
  simp only
  rw [insertSlot_eq_spec]
  intro x hx
  obtain ⟨q, a⟩ := x
  have := (List.of_mem_zip hx).1
  rw [List.mem_map] at this
  obtain ⟨p, hp, rfl⟩ := this
  exact normNat_le (hadm p hp)

example : insertResult [0, 1, 2] [3, 4] [-1, 0] = .ok [4, 0, 1, 3, 2] := by decide
example : insertSpec 0 [0, 1, 2] [(2, 3), (0, 4)] = [4, 0, 1, 3, 2] := by decide
example : insertResult [0, 1] [2, 3, 4] [2, 0, 2] = .ok [3, 0, 1, 2, 4] := by decide
example : insertResult [0, 1] [2, 3] [0, 0] = .ok [2, 3, 0, 1] := by decide

/-- Whenever `tensor_insert` succeeds the result is a permutation of `chain ++ ins`, contains the
original chain as a subsequence (relative order of the original factors unchanged) and has
`chainLen + nArgs` factors. -/
theorem insertResult_perm (chain ins : List Nat) (pos : List Int) (r : List Nat)
    (h : insertResult chain ins pos = .ok r) :
    r.Perm (chain ++ ins) ∧ chain.Sublist r ∧ r.length = chain.length + ins.length := by
  unfold insertResult at h
  split at h
  · cases h
  · split at h
    · cases h
    · rename_i hl
      cases hn : normAll chain.length pos with
      | error e => rw [hn] at h; cases h
      | ok np =>
        rw [hn] at h
        injection h with h
        subst h
        have hnp : np.length = pos.length := by
          have : ∀ (pos : List Int) (np : List Nat), normAll chain.length pos = .ok np →
              np.length = pos.length := by
            intro pos
            induction pos with
            | nil => intro np h; simp [normAll] at h; cases h; rfl
            | cons p ps ih =>
              intro np h
              simp only [normAll] at h
              cases hp : normPos chain.length p with
              | error e => rw [hp] at h; cases h
              | ok q =>
                rw [hp] at h
                cases hps : normAll chain.length ps with
                | error e => rw [hps] at h; cases h
                | ok qs => rw [hps] at h; cases h; simp [ih qs hps]
          exact this pos np hn
        have hp : (insertLoop 0 chain (sortByPos (np.zip ins))).Perm (chain ++ ins) := by
          refine (insertLoop_perm 0 chain _).trans (List.Perm.append_left _ ?_)
          refine ((sortByPos_perm (np.zip ins)).map _).trans ?_
          rw [List.map_snd_zip (by omega)]
        exact ⟨hp, insertLoop_sublist 0 chain _, by simpa using hp.length_eq⟩

/-- Integer `pos`: the arguments are tensored first (binary tree of `tensor`, which keeps the order
of the arguments) and the block lands between the factors `q-1` and `q` of the chain, `q` the
normalised position. All chains, non-empty argument lists and admissible positions. -/
theorem insertResultInt_spec (chain ins : List Nat) (p : Int) (h0 : ins ≠ [])
    (hadm : -(chain.length : Int) ≤ p ∧ p ≤ chain.length) :
    insertResultInt chain ins p
      = .ok (chain.take (normNat chain.length p) ++ ins ++ chain.drop (normNat chain.length p)) := by
  have h0' : ¬ ins.length = 0 := by simpa using h0
  unfold insertResultInt
  rw [if_neg h0', normPos_admissible hadm]
  simp only [tensorChain_singletons ins h0]

example : insertResultInt [0, 1, 2] [3, 4, 5] (-1) = .ok [0, 1, 3, 4, 5, 2] := by decide

/-- `tensor(*args)`: the binary-tree evaluation returns the Kronecker product of the arguments in
their original order for every number (≥ 1) of arguments, each of which may itself be a chain. -/
theorem tensorChain_spec (args : List (List Nat)) (hne : args ≠ []) :
    tensorChain args = some args.flatten := tensorChain_eq args hne

example : tensorChain [[0], [1], [2], [3], [4]] = some [0, 1, 2, 3, 4] := by decide

/-! ### (e) `tensor_merge` -/

/-- **`tensor_merge` = `tensor_insert` on the chain**, slot by slot.  For every chain, every `ins`
chain, every admissible position list of the same length and every rank for which the 52 letters of
`string.ascii_letters` suffice, every one of the `rank` index slots of the output subscripts lists
the factors in the order `insertSpec` (ties between equal positions keep the order of `ins`,
whatever the letters — `sorted(zip(norm_pos, range(ins_ndim), ins_part))`). -/
theorem mergeSlots_spec (chain ins : List Nat) (pos : List Int) (rank : Nat)
    (hl : pos.length = ins.length)
    (hadm : ∀ p ∈ pos, -(chain.length : Int) ≤ p ∧ p ≤ chain.length)
    (hlet : (ins.length + chain.length) * rank ≤ 52) :
    mergeSlots chain ins pos rank
      = .ok (List.replicate rank
          (insertSpec 0 chain ((pos.map (normNat chain.length)).zip ins))) := by
  unfold mergeSlots
  rw [if_neg (by omega), normAll_admissible hadm]
  simp only
  rw [if_neg (by simp [nLetters]; omega)]
  congr 1
  unfold mergeOutSlots
  simp only [List.map_map]
  apply map_range_const
  intro r hr
  simp only [Function.comp_apply]
  apply mergeSlot_factors chain ins _ rank r hr hlet
  intro q hq
  rw [List.mem_map] at hq
  obtain ⟨p, hp, rfl⟩ := hq
  exact normNat_le (hadm p hp)

/-- `len(string.ascii_letters)`: the letter limit in `mergeSlots_spec` / `insertSubscripts_slots` -/
example : nLetters = 52 ∧ letters.length = 52 := by decide

/-- `mergeResult_spec`: under the hypotheses of `mergeSlots_spec` and `rank ≥ 1`, `tensor_merge`
returns the Kronecker chain with factor order `insertSpec`. -/
theorem mergeResult_spec (chain ins : List Nat) (pos : List Int) (rank : Nat) (hr : 0 < rank)
    (hl : pos.length = ins.length)
    (hadm : ∀ p ∈ pos, -(chain.length : Int) ≤ p ∧ p ≤ chain.length)
    (hlet : (ins.length + chain.length) * rank ≤ 52) :
    mergeResult chain ins pos rank
      = .ok (insertSpec 0 chain ((pos.map (normNat chain.length)).zip ins)) := by
  unfold mergeResult
  rw [mergeSlots_spec chain ins pos rank hl hadm hlet]
  obtain ⟨n, rfl⟩ : ∃ n, rank = n + 1 := ⟨rank - 1, by omega⟩
  simp [List.replicate_succ]

/-- Merging `ins` at `pos` gives the same factor order as inserting its factors one by one with
`tensor_insert` (`ins` non-empty because `tensor_insert` rejects zero args). -/
theorem mergeResult_eq_insertResult (chain ins : List Nat) (pos : List Int) (rank : Nat)
    (hr : 0 < rank) (h0 : ins ≠ []) (hl : pos.length = ins.length)
    (hadm : ∀ p ∈ pos, -(chain.length : Int) ≤ p ∧ p ≤ chain.length)
    (hlet : (ins.length + chain.length) * rank ≤ 52) :
    mergeResult chain ins pos rank = insertResult chain ins pos := by
  rw [mergeResult_spec chain ins pos rank hr hl hadm hlet,
    insertResult_spec chain ins pos h0 hl hadm]

/-- `tensor_merge` raises `ValueError` exactly when `len(pos)` differs from the number of factors
of `ins` (provided the 52 letters suffice; the check comes first, before the positions are
looked at). -/
theorem mergeResult_valueError_iff_length (chain ins : List Nat) (pos : List Int) (rank : Nat)
    (hlet : (ins.length + chain.length) * rank ≤ 52) :
    mergeResult chain ins pos rank = .error "ValueError" ↔ pos.length ≠ ins.length := by
  constructor
  · intro h hl
    unfold mergeResult at h
    cases hs : mergeSlots chain ins pos rank with
    | ok ss => rw [hs] at h; cases h
    | error e =>
      rw [hs] at h
      injection h with h
      have := (positions_rejected_iff_merge chain ins pos rank hl hlet).2 e hs
      rw [h] at this
      split at this <;> simp at this
  · intro hl
    unfold mergeResult mergeSlots
    rw [if_pos hl]

/-- mixed negative / non-negative positions -/
example : mergeResult [0, 1, 2] [3, 4] [-1, 0] 2 = .ok [4, 0, 1, 3, 2]
    ∧ insertResult [0, 1, 2] [3, 4] [-1, 0] = .ok [4, 0, 1, 3, 2] := by decide

example : mergeResult [0, 1, 2] [3, 4] [1, 2] 2 = .ok [0, 3, 1, 4, 2] := by decide
example : mergeResult [0, 1] [2, 3, 4] [-2, 2, 0] 1 = .ok [2, 4, 0, 1, 3] := by decide
example : mergeResult [0, 1, 2] [3, 4] [1] 2 = .error "ValueError"
    ∧ mergeResult [0, 1, 2] [3, 4] [1, 2, 9] 2 = .error "ValueError"
    ∧ mergeResult [0, 1, 2] [3, 4] [1, 9] 2 = .error "IndexError" := by decide

/-- The former inputs of the letter-order defect now give the documented chain: rank 1 with 27
factors in `ins` (letters `'a'…'z','A'`), rank 2 with 14 (second slot `'o'…'z','A','B'`), all
positions tied. -/
example : mergeResult [0] (List.range' 1 27) (List.replicate 27 0) 1
      = .ok (List.range' 1 27 ++ [0]) ∧
    mergeSlots [0] (List.range' 1 14) (List.replicate 14 0) 2
      = .ok [List.range' 1 14 ++ [0], List.range' 1 14 ++ [0]] := by decide

/-- Why the index component is needed: the previous tie-break by the letter
(`sorted(zip(norm_pos, ins_part))`, `oldMergeLe`) put `'A'` (letter 26) in front of `'z'`
(letter 25) for equal positions, because `string.ascii_letters` is not increasing in character code.
-/
example : (stableSort oldMergeLe [(0, 25), (0, 26)]).map (·.2) = [26, 25]
    ∧ (mergeSorted [0, 0] [25, 26] 2).map (·.2) = [25, 26] := by decide

/-! ### (f) `tensor_transpose` -/

/-- For every chain, every rank and every `order` that is a permutation of `0..ndim-1`, NumPy
accepts the axes list `[r*ndim + o for r in range(rank) for o in order]` and the new chain is
`order.map (chain[·])`: position `j` holds the old factor `order[j]`. -/
theorem transposeResult_spec (chain order : List Nat) (rank : Nat)
    (hp : order.Perm (List.range chain.length)) :
    transposeResult chain order rank = .ok (order.map fun o => chain.getD o 0) := by
  unfold transposeResult
  rw [if_neg (by simp [(orderIsRange_iff order chain.length).2 hp]),
    if_pos (transpose_valid_of_perm rank chain.length order hp)]

/-- Slot consistency of the axes list: for every `order` of length `ndim` the `r`-th group of
`ndim` new axes consists of the old axes `r*ndim + order[j]` (all in slot `r` when
`order[j] < ndim`). -/
theorem transposeAxes_slots (rank ndim : Nat) (order : List Nat) (hl : order.length = ndim) :
    chunks ndim rank (transposeAxes rank ndim order)
      = (List.range rank).map fun r => order.map fun o => r * ndim + o := by
  have := chunks_flatMap ndim (List.range rank) (fun r => order.map fun o => r * ndim + o)
    (by intro r _; simp [hl])
  simpa [transposeAxes] using this

/-- Inadmissible orders are rejected: `tensor_transpose` succeeds exactly when `order` is a
permutation of `0..ndim-1` (guard `sorted(order) != list(range(ndim))`); every rank. -/
theorem transposeResult_ok_iff (chain order : List Nat) (rank : Nat) :
    (∃ r, transposeResult chain order rank = .ok r) ↔ order.Perm (List.range chain.length) := by
  constructor
  · rintro ⟨r, h⟩
    unfold transposeResult at h
    split at h
    · cases h
    · rename_i hv; exact (orderIsRange_iff order chain.length).1 (by simpa using hv)
  · intro hp; exact ⟨_, transposeResult_spec chain order rank hp⟩

/-- … and otherwise the outcome is `ValueError` (repeats, out-of-range entries, wrong length). -/
theorem transposeResult_rejected (chain order : List Nat) (rank : Nat)
    (h : ¬ order.Perm (List.range chain.length)) :
    transposeResult chain order rank = .error "ValueError" := by
  unfold transposeResult
  rw [if_pos]
  cases hv : orderIsRange order chain.length with
  | true => exact absurd ((orderIsRange_iff order chain.length).1 hv) h
  | false => rfl

/-- negative entries of `order` are rejected with `ValueError` -/
theorem transposeResultInt_negative (chain : List Nat) (order : List Int) (rank : Nat)
    (h : ∃ o ∈ order, o < 0) : transposeResultInt chain order rank = .error "ValueError" := by
  unfold transposeResultInt
  rw [if_pos]
  obtain ⟨o, ho, hlt⟩ := h
  exact List.any_eq_true.2 ⟨o, ho, by simpa using hlt⟩

/-- identity permutation -/
theorem transposeResult_id (chain : List Nat) (rank : Nat) :
    transposeResult chain (List.range chain.length) rank = .ok chain := by
  rw [transposeResult_spec chain _ rank (List.Perm.refl _)]
  congr 1
  apply List.ext_getElem
  · simp
  · intro i h1 h2; simp [h2]

/-- composition law: transposing by `p` and then by `q` is transposing by `q.map (p[·])`, for all
permutations `p`, `q` of `0..ndim-1`. -/
theorem transposeResult_comp (chain p q : List Nat) (rank : Nat)
    (hp : p.Perm (List.range chain.length)) (hq : q.Perm (List.range chain.length)) :
    (transposeResult chain p rank).bind (fun c => transposeResult c q rank)
      = transposeResult chain (q.map fun j => p.getD j 0) rank := by
  have hpl : p.length = chain.length := by simpa using hp.length_eq
  rw [transposeResult_spec chain p rank hp]
  simp only [Except.bind]
  rw [transposeResult_spec _ q rank (by simpa [hpl] using hq),
    transposeResult_spec chain _ rank ((map_getD_perm_range p q _ hpl hq).trans hp)]
  congr 1
  rw [List.map_map]
  apply List.map_congr_left
  intro j hj
  have hjlt : j < p.length := by
    have := List.mem_range.1 (hq.mem_iff.1 hj); omega
  simp [hjlt]

example : transposeResult [10, 11, 12] [1, 2, 0] 2 = .ok [11, 12, 10] := by decide
example : transposeResult [10, 11, 12] [0, 0, 1] 2 = .error "ValueError" := by decide
example : transposeResult [10, 11, 12] [1, 0] 2 = .error "ValueError" := by decide
example : (transposeResult [10, 11, 12] [1, 2, 0] 2).bind (fun c => transposeResult c [2, 1, 0] 2)
    = transposeResult [10, 11, 12] [0, 2, 1] 2 := by decide
example : transposeResultInt [10, 11] [-1, 0] 2 = .error "ValueError"
    ∧ transposeResultInt [10, 11] [1, 0] 2 = .ok [11, 10] := by decide

/-! ### (g) Pauli basis index maps -/

/-- `equivalent_pauli_basis_elements(idx, N)` for a strictly increasing list `idx` of qubit
positions `< N`: the `j`-th returned index (`j < 4^|idx|` enumerating the sub-register Pauli tuples
row-major) is the row-major index, in the `N`-qubit basis, of the tuple that has the digits of `j`
at the positions `idx` and `0` (identity) elsewhere. -/
theorem equivalentPauli_spec (idx : List Nat) (N : Nat) (hs : idx.Pairwise (· < ·))
    (hlt : ∀ i ∈ idx, i < N) :
    equivalentPauli idx N = (List.range (4 ^ idx.length)).map fun j =>
      mixedRadixEncode (List.replicate N 4)
        (scatterAt N idx (mixedRadixDecode (List.replicate idx.length 4) j)) := by
  rw [equivalentPauli_eq, (scatter_eq_scatterAt N idx [] hs hlt).2]
  apply List.map_congr_left
  intro j _
  rw [(scatter_eq_scatterAt N idx _ hs hlt).1]

/-- The function only looks at the *set* of qubits in `idx`: order and repetitions of `idx` are
ignored (the sub-register tuples are always enumerated with the lower qubit position as the major
digit), entries `≥ N` or negative are silently dropped. -/
theorem equivalentPauli_set (idx idx' : List Nat) (N : Nat) (h : ∀ i, i ∈ idx ↔ i ∈ idx') :
    equivalentPauli idx N = equivalentPauli idx' N := by
  unfold equivalentPauli
  simp only [h]

example : equivalentPauli [0, 2] 3
    = [0, 1, 2, 3, 16, 17, 18, 19, 32, 33, 34, 35, 48, 49, 50, 51] := by decide
example : scatterAt 3 [0, 2] [2, 3] = [2, 0, 3] ∧ mixedRadixEncode [4, 4, 4] [2, 0, 3] = 35
    ∧ mixedRadixDecode [4, 4] 11 = [2, 3] := by decide
example : equivalentPauli [1, 0] 2 = equivalentPauli [0, 1] 2 := by decide

/-- `remap_pauli_basis_elements(order, N)`: the entry at the row-major index of the Pauli tuple
`(a_0, …, a_{N-1})` (digits `< 4`) is the row-major index of `(a_{order[0]}, …, a_{order[N-1]})`.
Any `order`. -/
theorem remapPauli_spec (order : List Nat) (N : Nat) (a : List Nat)
    (ha : inBounds (List.replicate N 4) a = true) :
    (remapPauli order N)[mixedRadixEncode (List.replicate N 4) a]?
      = some (mixedRadixEncode (List.replicate N 4) (order.map fun i => a.getD i 0)) := by
  have hlt := encode_lt ha
  rw [prod_replicate] at hlt
  unfold remapPauli
  simp only [List.getElem?_map, List.getElem?_range hlt, Option.map_some, decode_encode ha]

/-- `remapPauli` is a permutation of `0..4^N-1` whenever `order` is a permutation of `0..N-1`. -/
theorem remapPauli_perm (order : List Nat) (N : Nat) (hp : order.Perm (List.range N)) :
    (remapPauli order N).Perm (List.range (4 ^ N)) := remapPauli_perm_range order N hp

example : remapPauli [1, 0] 2 = [0, 4, 8, 12, 1, 5, 9, 13, 2, 6, 10, 14, 3, 7, 11, 15] := by decide
example : remapPauliChecked [0] 2 = .error "ValueError"
    ∧ remapPauliChecked [0, 2] 2 = .error "IndexError" := by decide

/-! ### (d) the einsum subscripts and the dims bookkeeping of `tensor_insert` -/

/-- **Subscripts of one insertion.**  For every `ndim`, every `pos ≤ ndim` and every `rank` with
`(ndim+1)*rank ≤ 52` letters: the output subscripts of `_tensor_insert_subscripts(ndim, pos, rank)`,
cut into the `rank` groups of `ndim+1` axes that `reshape(outshape)` flattens, consist, in group
`q`, of the slot-`q` axes of `arr`'s factors `0..pos-1`, the slot-`q` axis of the inserted tensor,
and the slot-`q` axes of factors `pos..ndim-1` — i.e. in every slot the inserted factor sits at
chain position `pos`. -/
theorem insertSubscripts_slots (ndim pos rank : Nat) (hp : pos ≤ ndim)
    (hlet : (ndim + 1) * rank ≤ 52) :
    insertOutSlots ndim pos rank = (List.range rank).map fun q =>
      (List.range pos).map (Axis.arr q) ++ Axis.ins q
        :: (List.range' pos (ndim - pos)).map (Axis.arr q) := by
  unfold insertOutSlots
  rw [insertSubscripts_out ndim pos rank hp hlet]
  have h := chunks_flatMap (ndim + 1) (List.range rank) (slotLetters rank ndim pos)
    (fun q _ => slotLetters_length rank ndim pos q hp)
  rw [List.length_range] at h
  rw [h, List.map_map]
  apply List.map_congr_left
  intro q hq
  exact letterAxis_slot ndim rank pos q (List.mem_range.1 hq) hp

/-- the same read off as factor positions: every slot has the factor order
`0, …, pos-1, new, pos, …, ndim-1` -/
theorem insertSubscripts_slotFactors (ndim pos rank : Nat) (hp : pos ≤ ndim)
    (hlet : (ndim + 1) * rank ≤ 52) (q : Nat) (hq : q < rank) :
    ((insertOutSlots ndim pos rank)[q]?).bind (slotFactors q)
      = some ((List.range pos).map some ++ none :: (List.range' pos (ndim - pos)).map some) := by
  rw [insertSubscripts_slots ndim pos rank hp hlet]
  simp only [List.getElem?_map, List.getElem?_range hq, Option.map_some, Option.bind_some]
  have h1 : ∀ l : List Nat, slotFactors q (l.map (Axis.arr q)) = some (l.map some) := by
    intro l
    induction l with
    | nil => rfl
    | cons k ks ih => simp [slotFactors, ih]
  have h2 : ∀ (l : List Nat) (rest : List Axis) (r : List (Option Nat)),
      slotFactors q rest = some r →
      slotFactors q (l.map (Axis.arr q) ++ rest) = some (l.map some ++ r) := by
    intro l rest r hr
    induction l with
    | nil => simpa using hr
    | cons k ks ih => simp [slotFactors, ih]
  apply h2
  simp [slotFactors, h1]

example : insertOutSlots 2 1 2
    = [[.arr 0 0, .ins 0, .arr 0 1], [.arr 1 0, .ins 1, .arr 1 1]] := by decide
example : (insertSubscripts 2 1 2).2.2 = [2, 0, 3, 4, 1, 5] := by decide  -- 'cadebf'
example : insertOutSlots 3 3 2 = [[.arr 0 0, .arr 0 1, .arr 0 2, .ins 0],
    [.arr 1 0, .arr 1 1, .arr 1 2, .ins 1]] := by decide

/-- **The `p` versus `p+i` discrepancy of the dims bookkeeping is harmless** (combinatorial part).
`tensor_insert` inserts the `i`-th sorted argument at `p+i` in the product but records its
dimensions at index `p` of `carr_dims`.  For every chain and all admissible positions, at every
call of `single_tensor_insert` (every state of the loop): behind the split position the recorded
dimension list *equals* the true one, in front of it it is a permutation of the true one, and the
split position is within the chain; and the loop ends with the factor order of `insertResult`. -/
theorem insertSubscripts_consistent {α : Type} (chain : List α) (ps : List (Nat × α))
    (hadm : ∀ x ∈ ps, x.1 ≤ chain.length) :
    (∀ st ∈ (insertTrace 0 chain chain (sortByPos ps)).1,
      st.chain.drop st.split = st.dims.drop st.split ∧
      (st.chain.take st.split).Perm (st.dims.take st.split) ∧
      st.split ≤ st.chain.length) ∧
    (insertTrace 0 chain chain (sortByPos ps)).2.1 = insertLoop 0 chain (sortByPos ps) :=
  ⟨insertTrace_invariant (sortByPos ps) 0 0 chain chain (sortByPos_sorted ps)
    (by
      intro x hx
      have := hadm x ((sortByPos_perm ps).mem_iff.1 hx)
      omega) rfl (List.Perm.refl _), insertTrace_final 0 chain chain _⟩

/-- (arithmetic part) The einsum + reshape of `single_tensor_insert` uses the recorded dimension
list `D` only through the product of the dimensions behind the split: source element `x` of a slot
of `arr` and `y` of the inserted tensor (dimension `e`) go to flat index
`(x / R) * (e * R) + y * R + x % R`, `R = ∏ D[pos:]`.  All `D`, `pos ≤ len D`, `x < ∏ D`. -/
theorem splitInsertIndex_formula (D : List Nat) (pos e x y : Nat) (hpos : pos ≤ D.length)
    (hx : x < prod D) :
    splitInsertIndex D pos e x y
      = (x / prod (D.drop pos)) * (e * prod (D.drop pos))
        + (y * prod (D.drop pos) + x % prod (D.drop pos)) :=
  splitInsertIndex_eq D pos e x y hpos hx

/-- Hence two dimension lists that agree behind the split and are permutations of each other in
front of it (the situation established by `insertSubscripts_consistent`, with heterogeneous
dimensions `dim`) give the same computed product: the wrong bookkeeping never changes the result. -/
theorem splitInsertIndex_bookkeeping {α : Type} (dim : α → Nat) (chain dims : List α)
    (split e x y : Nat) (hsuf : chain.drop split = dims.drop split)
    (hpre : (chain.take split).Perm (dims.take split)) (hsplit : split ≤ chain.length)
    (hx : x < prod (chain.map dim)) :
    splitInsertIndex (dims.map dim) split e x y = splitInsertIndex (chain.map dim) split e x y := by
  have hprodPerm : ∀ l l' : List α, l.Perm l' → prod (l.map dim) = prod (l'.map dim) := by
    intro l l' h
    induction h with
    | nil => rfl
    | cons a _ ih => simp [prod, ih]
    | swap a b l => simp [prod, Nat.mul_left_comm]
    | trans _ _ ih1 ih2 => exact ih1.trans ih2
  have hlen : dims.length = chain.length := by
    have h1 := congrArg List.length hsuf
    have h2 := hpre.length_eq
    simp only [List.length_drop, List.length_take] at h1 h2
    omega
  have hprod : prod (dims.map dim) = prod (chain.map dim) := by
    rw [← List.take_append_drop split dims, ← List.take_append_drop split chain,
      List.map_append, List.map_append, prod_append, prod_append, hsuf,
      hprodPerm _ _ hpre]
  rw [splitInsertIndex_eq _ _ _ _ _ (by simp; omega) (by rw [hprod]; exact hx),
    splitInsertIndex_eq _ _ _ _ _ (by simp; omega) hx]
  simp only [← List.map_drop, hsuf]

/-- a run with heterogeneous factors and tied / contiguous positions: the recorded order differs
from the true one (`[3, 4, 0, …]` vs `[4, 3, 0, …]`) only in front of the split -/
example : (insertTrace 0 [0, 1, 2] [0, 1, 2] (sortByPos [(0, 3), (0, 4), (1, 5)])) =
    ([⟨[0, 1, 2], [0, 1, 2], 0⟩, ⟨[3, 0, 1, 2], [3, 0, 1, 2], 1⟩,
      ⟨[3, 4, 0, 1, 2], [4, 3, 0, 1, 2], 3⟩], [3, 4, 0, 5, 1, 2], [4, 5, 3, 0, 1, 2]) := by decide
example : splitInsertIndex [2, 3, 5] 2 7 23 4 = splitInsertIndex [3, 2, 5] 2 7 23 4 := by decide

end FFVerif.C16
