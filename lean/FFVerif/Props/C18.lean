/-
C18 — computations never modify caller-owned data; failures leave pulses usable.

(B) Exception safety of the cache logic (core Lean, no Mathlib): `Model/CacheTrace.lean` lists, for
every public operation, the cached state at every point where the Python method can raise.  Here:
the trace ends in the state of the step model (`trace_last`) and starts in the entry state
(`trace_head`); every trace state is cache-coherent (`abort_preserves_Inv`), hence every later
request is served fresh (`abort_then_fresh`); lifted to arbitrary histories with failures
(`failures_reachable_Inv`, `failures_then_fresh`) and to several objects
(`hstep_other_unchanged`, `heap_failures_Inv`).

(A) Frame theorems over the effect model `Model/Effects.lean`: `frame_all_histories`,
`frame_violation_witness`, `frame_iff`, `frame_after_return`; the declared write-set table of the
public API satisfies the frame condition (`declared_frame_safe`, `never_returned_or_definition`,
`inPlace_calls`) and yields the frame theorem for histories of API calls (`api_history_frame`).

What is *not* a theorem: that the Python code writes only the declared cells (measured by the
harness through fingerprints: driver component `effects`) and that it raises only at the listed
raise points (measured by fault injection: driver component `cachetrace`).
-/
import FFVerif.Lemmas.CacheTraceAux

namespace FFVerif.C18
open FFVerif FFVerif.Model.Cache FFVerif.C07

theorem infidelityCorrT_last (tl idc : Bool) (s : Obj) :
    (infidelityCorrT tl s).getLast? = some (infidelityCorr tl idc s).1 := by
  unfold infidelityCorrT infidelityCorr
  cases tl
  · rfl
  · simp only [↓reduceIte]
    exact getLast?_cons_of _ _ _ (getLast?_append_of _ _ _ rfl)

theorem infidelityCorrT_head (tl : Bool) (s : Obj) :
    (infidelityCorrT tl s).head? = some s := by
  unfold infidelityCorrT; cases tl <;> rfl

/-- **The trace ends in the state of the step model**: the list of raise points of every operation
is consistent with the state machine whose final states the harness compares with Python. -/
theorem trace_last (s : Obj) (op : Op) : (trace s op).getLast? = some (step s op).1 := by
  cases op with
  | diagonalize => rfl
  | getCM g ci => exact getCMT_last g ci s
  | cacheCM g pc => exact cacheCMT_last g pc s
  | getFF g w o2 ci => exact getFFT_last g w o2 ci s
  | cacheFFvalue g w o2 => rfl
  | cacheFFfromCM g w pc =>
    show (cacheFFfromCMT g w pc s).getLast? = _
    unfold cacheFFfromCMT
    exact getLast?_cons_of _ _ _ (getLast?_append_of _ _ _ rfl)
  | cacheFFcompute g w o2 ci => exact cacheFFcomputedT_last g w o2 ci s
  | cacheCMcompute g ci => exact getLast?_append_of _ _ _ (cacheCMT_last g false _)
  | getPcFF w => exact getPcFFT_last w s
  | getPcCM => rfl
  | getPhases g => exact getPhasesT_last g s
  | cachePhases g => rfl
  | deriv g =>
    show (derivT g s).getLast? = some (deriv g s).1
    unfold derivT deriv
    exact getLast?_cons_of _ _ _ (getLast?_append_of _ _ _ (needEigT_last _))
  | totPropL => exact totPropLT_last s
  | eigAccess => exact needEigT_last s
  | totPropAccess => exact needTotPropT_last s
  | cleanup m => rfl
  | infidelity g tl corr idc =>
    unfold trace step
    cases corr
    · simp only [Bool.false_eq_true, ↓reduceIte]
      cases tl
      · simp only [Bool.false_eq_true, ↓reduceIte]
        exact getLast?_cons_of _ _ _ (getLast?_append_of _ _ _ rfl)
      · simp only [↓reduceIte]
        exact getLast?_cons_of _ _ _ (getLast?_append_of _ _ _ rfl)
    · simp only [↓reduceIte]
      cases ho : s.omega with
      | some h =>
        by_cases hh : (h == g) = true
        · simp only [hh, ↓reduceIte]
          exact infidelityCorrT_last tl idc s
        · simp only [hh, Bool.false_eq_true, ↓reduceIte]
          rfl
      | none => exact infidelityCorrT_last tl idc s
  | decayAmps g corr ci => exact decayAmpsT_last g corr ci s
  | cumulant g so =>
    unfold trace step
    cases so
    · simp only [Bool.false_eq_true, ↓reduceIte]
      exact getLast?_cons_of _ _ _ (getLast?_append_of _ _ _ rfl)
    · simp only [↓reduceIte]
      exact getLast?_cons_of _ _ _ (getLast?_append_of _ _ _ rfl)

/-- **Validation happens before any mutation**: the first raise point of every operation is the
entry state, so a call rejected for its arguments leaves the object exactly as it was. -/
theorem trace_head (s : Obj) (op : Op) : (trace s op).head? = some s := by
  cases op with
  | getCM g ci => exact getCMT_head g ci s
  | getFF g w o2 ci =>
    show (getFFT g w o2 ci s).head? = _
    unfold getFFT
    split
    · split <;> rfl
    · rfl
  | cacheFFcompute g w o2 ci =>
    show (cacheFFcomputedT g w o2 ci s).head? = _
    unfold cacheFFcomputedT
    cases o2 <;> rfl
  | cacheCMcompute g ci => exact head?_append_of _ _ _ (getCMT_head g ci s)
  | getPcFF w =>
    show (getPcFFT w s).head? = _
    unfold getPcFFT
    cases w <;> simp only [] <;> split <;> (try rfl) <;> split <;> rfl
  | getPhases g =>
    show (getPhasesT g s).head? = _
    unfold getPhasesT
    split
    · split <;> rfl
    · rfl
  | totPropL =>
    show (totPropLT s).head? = _
    unfold totPropLT
    split
    · rfl
    · exact head?_append_of _ _ _ (needTotPropT_head s)
  | eigAccess => exact needEigT_head s
  | totPropAccess => exact needTotPropT_head s
  | infidelity g tl corr idc =>
    unfold trace
    cases corr
    · cases tl <;> rfl
    · simp only [↓reduceIte]
      split
      · split
        · exact infidelityCorrT_head tl s
        · rfl
      · exact infidelityCorrT_head tl s
  | decayAmps g corr ci =>
    show (decayAmpsT g corr ci s).head? = _
    unfold decayAmpsT
    cases corr
    · simp only [Bool.false_eq_true, ↓reduceIte]; split <;> rfl
    · rfl
  | cumulant g so => cases so <;> rfl
  | _ => rfl

/-- every operation has at least one raise point (its entry) -/
theorem trace_ne_nil (s : Obj) (op : Op) : trace s op ≠ [] := by
  intro h
  have := trace_head s op
  rw [h] at this
  simp at this

/-- **A call that raises anywhere leaves the object coherent**: every state in which an exception
can surface during any public operation — started in a coherent state — satisfies the cache
coherence invariant of C07. -/
theorem abort_preserves_Inv (s : Obj) (op : Op) (h : Inv s) : ∀ s' ∈ trace s op, Inv s' := by
  intro s' hs
  cases op with
  | diagonalize => exact (diagonalizeT_same s s' hs).inv h
  | getCM g ci => exact getCMT_inv g ci s h s' hs
  | cacheCM g pc => exact cacheCMT_inv g pc s h s' hs
  | getFF g w o2 ci => exact getFFT_inv g w o2 ci s h s' hs
  | cacheFFvalue g w o2 =>
    change s' ∈ cacheFFvalueT g w o2 s at hs
    unfold cacheFFvalueT at hs
    simp only [List.mem_cons, List.not_mem_nil, or_false] at hs
    have hp := pre_invalidate g s h
    rcases hs with rfl | rfl | rfl | rfl
    · exact h
    · exact hp.1
    · exact (at_set_omega g _ hp).1
    · exact (at_cacheFFvalue g w o2 s h).1
  | cacheFFfromCM g w pc =>
    change s' ∈ cacheFFfromCMT g w pc s at hs
    unfold cacheFFfromCMT at hs
    simp only [List.mem_cons, List.mem_append, List.not_mem_nil, or_false] at hs
    have hp := pre_invalidate g s h
    have h2 := at_cacheCM g pc _ hp.1
    have h3 := at_pcFF g w pc _ h2
    rcases hs with rfl | (hs | rfl) | hs
    · exact h
    · exact cacheCMT_inv g pc _ hp.1 s' hs
    · exact h3.1
    · exact setFFT_inv g w _ (at_reset_omega g _ h3) s' hs
  | cacheFFcompute g w o2 ci => exact cacheFFcomputedT_inv g w o2 ci s h s' hs
  | cacheCMcompute g ci =>
    change s' ∈ getCMT g ci s ++ cacheCMT g false (getCM g ci s).1 at hs
    simp only [List.mem_append] at hs
    rcases hs with hs | hs
    · exact getCMT_inv g ci s h s' hs
    · exact cacheCMT_inv g false _ (getCM_spec g ci s h).1.1 s' hs
  | getPcFF w => exact getPcFFT_inv w s h s' hs
  | getPcCM =>
    change s' ∈ [s] at hs
    simp only [List.mem_singleton] at hs; subst hs; exact h
  | getPhases g => exact getPhasesT_inv g s h s' hs
  | cachePhases g => exact cachePhasesT_inv g s h s' hs
  | deriv g =>
    change s' ∈ derivT g s at hs
    unfold derivT at hs
    simp only [List.mem_cons, List.mem_append] at hs
    rcases hs with rfl | hs | hs
    · exact h
    · exact getCMT_inv g true s h s' hs
    · exact (needEigT_same _ s' hs).inv (getCM_spec g true s h).1.1
  | totPropL => exact (totPropLT_same s s' hs).inv h
  | eigAccess => exact (needEigT_same s s' hs).inv h
  | totPropAccess => exact (needTotPropT_same s s' hs).inv h
  | cleanup m =>
    change s' ∈ [s, cleanup m s] at hs
    simp only [List.mem_cons, List.not_mem_nil, or_false] at hs
    rcases hs with rfl | rfl
    · exact h
    · exact inv_cleanup m _ h
  | infidelity g tl corr idc =>
    unfold trace at hs
    have hpc : ∀ s' ∈ infidelityCorrT tl s, Inv s' := by
      intro s' hs
      unfold infidelityCorrT at hs
      cases tl
      · simp only [Bool.false_eq_true, ↓reduceIte, List.mem_cons, List.not_mem_nil,
          or_false] at hs
        subst hs; exact h
      · simp only [↓reduceIte, List.mem_cons, List.mem_append, List.not_mem_nil,
          or_false] at hs
        rcases hs with rfl | hs | rfl
        · exact h
        · exact getPcFFT_inv _ s h s' hs
        · exact inv_getPcFF _ s h
    cases corr
    · simp only [Bool.false_eq_true, ↓reduceIte] at hs
      cases tl
      · simp only [Bool.false_eq_true, ↓reduceIte, List.mem_cons, List.mem_append,
          List.not_mem_nil, or_false] at hs
        rcases hs with rfl | hs | rfl
        · exact h
        · exact getCMT_inv g false s h s' hs
        · exact (getCM_spec g false s h).1.1
      · simp only [↓reduceIte, List.mem_cons, List.mem_append, List.not_mem_nil, or_false] at hs
        have h1 := (getFF_spec g .fidelity false false s h).1.1
        rcases hs with rfl | (hs | hs) | rfl
        · exact h
        · exact getFFT_inv g _ _ _ s h s' hs
        · exact getCMT_inv g false _ h1 s' hs
        · exact (getCM_spec g false _ h1).1.1
    · simp only [↓reduceIte] at hs
      split at hs
      · split at hs
        · exact hpc s' hs
        · simp only [List.mem_singleton] at hs; subst hs; exact h
      · exact hpc s' hs
  | decayAmps g corr ci => exact decayAmpsT_inv g corr ci s h s' hs
  | cumulant g so =>
    unfold trace at hs
    have h1 := (decayAmps_spec g so s h).1.1
    cases so
    · simp only [Bool.false_eq_true, ↓reduceIte, List.mem_cons, List.mem_append,
        List.not_mem_nil, or_false] at hs
      rcases hs with rfl | hs | rfl
      · exact h
      · exact decayAmpsT_inv g false false s h s' hs
      · exact h1
    · simp only [↓reduceIte, List.mem_cons, List.mem_append, List.not_mem_nil, or_false] at hs
      rcases hs with rfl | (hs | hs) | rfl
      · exact h
      · exact decayAmpsT_inv g false true s h s' hs
      · exact getFFT_inv g _ _ _ _ h1 s' hs
      · exact (getFF_spec g _ _ _ _ h1).1.1

/-- **All subsequent results are still correct**: whatever operation raised, and wherever, the
next request for a frequency-dependent quantity on grid `g` returns a value computed for exactly
`g` from ingredients of `g`. -/
theorem abort_then_fresh (s s' : Obj) (op op' : Op) (g : Grid) (h : Inv s)
    (hs : s' ∈ trace s op) (hg : op'.grid = some g) : (step s' op').2 = .val g true :=
  served_value_is_fresh s' op' g (abort_preserves_Inv s op h s' hs) hg

/-! ### histories with failures -/

/-- whatever the outcome (normal completion, or an exception at the `k`-th raise point), the
state left behind is one of the trace states -/
theorem stepOutcome_mem (s : Obj) (op : Op) (o : Outcome) : stepOutcome s op o ∈ trace s op := by
  cases o with
  | done =>
    exact List.mem_of_getLast? (trace_last s op)
  | raisedAt k =>
    show (trace s op)[k]?.getD s ∈ trace s op
    cases hk : (trace s op)[k]? with
    | some x => exact List.mem_of_getElem? hk
    | none => exact List.mem_of_head? (trace_head s op)

/-- one call, completed or aborted anywhere, preserves cache coherence -/
theorem stepOutcome_Inv (s : Obj) (op : Op) (o : Outcome) (h : Inv s) :
    Inv (stepOutcome s op o) :=
  abort_preserves_Inv s op h _ (stepOutcome_mem s op o)

/-- histories with failures preserve cache coherence from any coherent start -/
theorem runWithFailures_preserves_Inv (hist : List (Op × Outcome)) (s : Obj) (h : Inv s) :
    Inv (runWithFailures s hist) := by
  induction hist generalizing s with
  | nil => exact h
  | cons p ps ih => exact ih _ (stepOutcome_Inv s p.1 p.2 h)

/-- **Coherence after every finite history in which any calls may have raised at any of their
raise points**, starting from a freshly constructed pulse. -/
theorem failures_reachable_Inv (hist : List (Op × Outcome)) : Inv (runWithFailures {} hist) :=
  runWithFailures_preserves_Inv hist _ inv_init

/-- **Failures leave pulses usable**: after any history with failures, every request for a
frequency-dependent quantity returns what the same request returns on a fresh pulse. -/
theorem failures_then_fresh (hist : List (Op × Outcome)) (op : Op) (g : Grid)
    (hg : op.grid = some g) :
    (step (runWithFailures {} hist) op).2 = .val g true ∧
    (step (runWithFailures {} hist) op).2 = (step {} op).2 := by
  have h1 := served_value_is_fresh _ op g (failures_reachable_Inv hist) hg
  exact ⟨h1, by rw [h1, served_value_is_fresh _ op g inv_init hg]⟩

/-- a history without failures is the ordinary run -/
theorem runWithFailures_done (ops : List Op) (s : Obj) :
    runWithFailures s (ops.map fun op => (op, Outcome.done)) = run s ops := by
  induction ops generalizing s with
  | nil => rfl
  | cons op ops ih => exact ih _

/-! ### several objects -/

/-- **Failures on one object never touch another**: an operation on object `i` — completed or
aborted at any raise point — leaves every other object of the heap unchanged. -/
theorem hstep_other_unchanged (h : List Obj) (i j : Nat) (op : Op) (o : Outcome) (hij : i ≠ j) :
    (hstepOutcome h i op o)[j]? = h[j]? ∧ ((hstep h (.on i op)).1)[j]? = h[j]? := by
  constructor
  · unfold hstepOutcome
    split
    · exact List.getElem?_set_ne hij
    · rfl
  · simp only [hstep]
    split
    · exact List.getElem?_set_ne hij
    · rfl

/-- the heap keeps its length under operations (objects are only added by copies) -/
theorem hstepOutcome_length (h : List Obj) (i : Nat) (op : Op) (o : Outcome) :
    (hstepOutcome h i op o).length = h.length := by
  unfold hstepOutcome
  split
  · exact List.length_set
  · rfl

/-- one heap event (an operation with any outcome on one object, or a copy) keeps every object
coherent -/
theorem hstepEvent_preserves (h : List Obj) (e : HEvent) (hi : AllInv h) :
    AllInv (hstepEvent h e) := by
  cases e with
  | on i op o =>
    simp only [hstepEvent, hstepOutcome]
    split
    · rename_i s hs
      intro x hx
      rcases List.mem_or_eq_of_mem_set hx with hx | hx
      · exact hi x hx
      · subst hx; exact stepOutcome_Inv s op o (hi s (List.mem_of_getElem? hs))
    · exact hi
  | copy i => exact hstep_preserves h (.copy i) hi

/-- **All finite histories with failures over a pulse and any number of its copies**: every object
stays coherent. -/
theorem heap_failures_Inv (es : List HEvent) : AllInv (hrunWithFailures [{}] es) := by
  have : ∀ h, AllInv h → AllInv (hrunWithFailures h es) := by
    induction es with
    | nil => intro h hi; exact hi
    | cons e es ih => intro h hi; exact ih _ (hstepEvent_preserves h e hi)
  apply this
  intro o ho
  simp only [List.mem_singleton] at ho
  subst ho; exact inv_init

/-- … hence every later request on any of the objects is served fresh -/
theorem heap_failures_then_fresh (es : List HEvent) (i : Nat) (op : Op) (g : Grid)
    (hg : op.grid = some g) (s : Obj) (hs : (hrunWithFailures [{}] es)[i]? = some s) :
    (hstep (hrunWithFailures [{}] es) (.on i op)).2 = .val g true := by
  simp only [hstep, hs]
  exact served_value_is_fresh s op g (heap_failures_Inv es s (List.mem_of_getElem? hs)) hg

/-! ### sharpness: why the raise points matter -/

/-- The state between `self._intermediates.update(**intermediates)` and `self.omega = omega` in
the from-scratch branch of `get_control_matrix(omega, cache_intermediates=True)` (reached from a
fresh pulse) is **not** coherent, and a following `cache_filter_function(omega', order=2)` for
another grid would consume the stale `control_matrix_step`.  No statement that can raise lies
between the two assignments (`dict.update`, then `cache_control_matrix` →
`_invalidate_frequency_dependent` → the `omega` setter), so this is not a finding under the
exception model of `Model/CacheTrace.lean`; it shows that the model is sharp: only an asynchronous
exception (`KeyboardInterrupt`) delivered exactly there could leave a pulse in this state. -/
theorem async_window_not_coherent :
    ¬ Inv (asyncWindow 1 {}) ∧
    (step (asyncWindow 1 {}) (.cacheFFcompute 2 .fidelity true false)).1.ff2 = some (2, false) := by
  constructor
  · intro h
    have := h.2.2.2.2.2.2.2.2.1
    unfold okTag asyncWindow at this
    simp at this
    exact absurd this (by decide)
  · decide

/-! ### non-vacuity -/

/-- a history in which calls fail at various raise points -/
def demoFailures : List (Op × Outcome) :=
  [(.getCM 1 true, .raisedAt 3), (.getFF 2 .generalized true false, .raisedAt 4),
   (.getFF 2 .fidelity false true, .done), (.cacheCM 3 false, .raisedAt 2),
   (.cumulant 1 true, .raisedAt 9), (.deriv 4, .raisedAt 5), (.cleanup .greedy, .done),
   (.infidelity 2 true false false, .raisedAt 7)]

example : (step (runWithFailures {} demoFailures) (.getFF 5 .generalized true false)).2
    = .val 5 true := by decide

example : (trace {} (.getCM 1 true)).length = 12 := by decide

example : (trace (run {} [.getFF 1 .fidelity false false]) (.cumulant 2 true)).length = 20 := by
  decide

/-! ## (A) the frame argument -/

section Frame
open FFVerif.Model.Effects

/-- **Frame theorem for all histories.**  If every operation of a history writes only cells owned
by `pulseCache` or `fresh`, every cell owned by `callerArg`, `returnedEarlier` or `pulseDefinition`
has the same content after the history as before — for histories of any length. -/
theorem frame_all_histories (cells : List Cell) (w : World) (h : List EOp)
    (hsafe : ∀ op ∈ h, op.FrameSafe cells) :
    ∀ c ∈ cells, c.owner.callerOwned = true → Model.Effects.run w h c.id = w c.id := by
  intro c hc hown
  rw [run_eq_count]
  have : writeCount c.id h = 0 := by
    unfold writeCount
    rw [List.countP_eq_zero]
    intro op hop hw
    have hmem : c.id ∈ op.writes := by simpa using hw
    rcases hsafe op hop c.id hmem c hc rfl with ho | ho <;> rw [ho] at hown <;> cases hown
  omega

/-- **A single write to a caller-owned cell is observable** (so the measured frame condition is
exactly what is needed): if any operation of the history writes cell `i`, the content of `i`
differs afterwards. -/
theorem frame_violation_witness (w : World) (h : List EOp) (op : EOp) (i : Nat)
    (hop : op ∈ h) (hw : i ∈ op.writes) : Model.Effects.run w h i ≠ w i := by
  rw [run_eq_count]
  have : 0 < writeCount i h := by
    unfold writeCount
    rw [List.countP_pos_iff]
    exact ⟨op, hop, by simpa using hw⟩
  omega

/-- frame condition, exactly: a cell is unchanged iff no operation of the history writes it -/
theorem frame_iff (w : World) (h : List EOp) (i : Nat) :
    Model.Effects.run w h i = w i ↔ ∀ op ∈ h, i ∉ op.writes := by
  constructor
  · intro he op hop hw
    exact frame_violation_witness w h op i hop hw he
  · intro hno
    rw [run_eq_count]
    have : writeCount i h = 0 := by
      unfold writeCount
      rw [List.countP_eq_zero]
      intro op hop hw
      exact hno op hop (by simpa using hw)
    omega

/-- **Arrays previously returned to the caller are never changed by later calls**: ownership is
dynamic — a cell allocated (`fresh`) during `h₁` and handed out becomes `returnedEarlier` for
everything that follows; if the later calls `h₂` are frame-safe for the layout `cells` in force
after `h₁`, its content stays what it was when it was returned. -/
theorem frame_after_return (cells : List Cell) (w : World) (h₁ h₂ : List EOp)
    (hsafe : ∀ op ∈ h₂, op.FrameSafe cells) :
    ∀ c ∈ cells, c.owner.callerOwned = true →
      Model.Effects.run w (h₁ ++ h₂) c.id = Model.Effects.run w h₁ c.id := by
  intro c hc hown
  rw [run_append]
  exact frame_all_histories cells _ h₂ hsafe c hc hown

/-! ### the declared write sets satisfy the frame condition -/

/-- the enumeration used by the driver and by the `decide` proofs below lists every call -/
theorem apiCall_all_complete (c : ApiCall) : c ∈ ApiCall.all := by
  cases c <;> decide

/-- the harness names are pairwise distinct, so `effects <name>` answers for the right call -/
theorem apiCall_ofName (c : ApiCall) : ApiCall.ofName c.name = some c := by
  cases c <;> decide

/-- **Every call that is not an in-place helper declares only library-owned cells**: no public
computation is *declared* to write an argument array, basis data, an `out` buffer, a previously
returned array or a pulse definition. -/
theorem declared_frame_safe (c : ApiCall) (hc : inPlace c = .no) :
    ∀ k ∈ declaredWrites c, k.owner = .pulseCache ∨ k.owner = .fresh := by
  cases c <;> first | decide | (exact absurd hc (by decide))

/-- the in-place helpers, exhaustively: four documented ones and `util.remove_float_errors`,
which modifies its argument without saying so (a finding) -/
theorem inPlace_calls :
    ApiCall.all.filter (fun c => inPlace c != .no) =
      [.numControlMatrixFromScratchOut, .basisNormalizeInPlace, .basisTidyup, .utilCexpOut,
       .utilRemoveFloatErrors] ∧
    ApiCall.all.filter (fun c => inPlace c == .undocumented) = [.utilRemoveFloatErrors] := by
  constructor <;> decide

/-- no call is declared to write the contents of a previously returned array or a pulse
definition — not even the in-place helpers -/
theorem never_returned_or_definition (c : ApiCall) :
    CellKind.returned ∉ declaredWrites c ∧ CellKind.pulseDef ∉ declaredWrites c := by
  cases c <;> decide

/-- an observed API call: which call, and the cells it wrote -/
structure ApiEvent where
  call : ApiCall
  writes : List Nat

/-- the observation conforms to the declaration (what the harness measures): every written cell
is of a declared kind -/
def ApiEvent.Conforms (kindOf : Nat → CellKind) (e : ApiEvent) : Prop :=
  ∀ i ∈ e.writes, kindOf i ∈ declaredWrites e.call

/-- **Frame theorem for histories of public API calls.**  For any assignment of kinds to cells:
if every call of a history conforms to its declared write set and none is an in-place helper, then
every argument array, basis, `out` buffer, previously returned array and pulse definition has the
same content after the history. -/
theorem api_history_frame (kindOf : Nat → CellKind) (w : World) (h : List ApiEvent)
    (hconf : ∀ e ∈ h, e.Conforms kindOf) (hno : ∀ e ∈ h, inPlace e.call = .no) (i : Nat)
    (hown : (kindOf i).owner.callerOwned = true) :
    Model.Effects.run w (h.map fun e => ⟨e.writes⟩) i = w i := by
  rw [frame_iff]
  intro op hop hw
  rw [List.mem_map] at hop
  obtain ⟨e, he, rfl⟩ := hop
  rcases declared_frame_safe e.call (hno e he) _ (hconf e he i hw) with ho | ho <;>
    rw [ho] at hown <;> cases hown

/-- … and the in-place helpers touch exactly what they are declared to touch: with them in the
history, everything of a kind none of them declares is still unchanged (e.g. pulse definitions
and previously returned arrays, by `never_returned_or_definition`). -/
theorem api_history_frame_kind (kindOf : Nat → CellKind) (w : World) (h : List ApiEvent)
    (hconf : ∀ e ∈ h, e.Conforms kindOf) (i : Nat)
    (hk : ∀ e ∈ h, kindOf i ∉ declaredWrites e.call) :
    Model.Effects.run w (h.map fun e => ⟨e.writes⟩) i = w i := by
  rw [frame_iff]
  intro op hop hw
  rw [List.mem_map] at hop
  obtain ⟨e, he, rfl⟩ := hop
  exact hk e he (hconf e he i hw)

/-- non-vacuity: a layout with one cell of every owner and a history of cache / fresh writes -/
example :
    let cells : List Cell := [⟨0, .callerArg⟩, ⟨1, .returnedEarlier⟩, ⟨2, .pulseDefinition⟩,
                              ⟨3, .pulseCache⟩, ⟨4, .fresh⟩]
    let h : List EOp := [⟨[3]⟩, ⟨[3, 4]⟩, ⟨[]⟩, ⟨[4]⟩]
    (∀ op ∈ h, op.FrameSafe cells) ∧ Model.Effects.run (fun _ => 0) h 3 = 2 ∧
      Model.Effects.run (fun _ => 0) h 0 = 0 := by
  refine ⟨?_, by decide, by decide⟩
  intro op hop i hi c hc hid
  simp only [List.mem_cons, List.not_mem_nil, or_false] at hop hc
  rcases hop with rfl | rfl | rfl | rfl <;> simp at hi <;>
    rcases hc with rfl | rfl | rfl | rfl | rfl <;> simp_all <;> omega

end Frame

end FFVerif.C18
