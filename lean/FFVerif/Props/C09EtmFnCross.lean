/-
C09 (continued) — cross-correlated noise: for a cross-spectral matrix that is positive semidefinite
at every grid frequency, the double sum `Σ_a Σ_b Γ_ab` of the decay amplitudes — the combination
that enters the cumulant function `error_transfer_matrix` exponentiates
(`etmFn_arg_is_sum_of_cumulants_cross`: `Σ_a Σ_b Re K(Γ_ab, Δ_ab)`, and `K` is linear in `Γ`) — is
positive semidefinite; hence `error_transfer_matrix` returns a completely positive map, with no
hypothesis on the decay amplitudes left.

The single blocks `Γ_ab` (`a ≠ b`) are real but NOT symmetric; their double sum is: it equals
`∫ Re(Bᴴ S B) dω / 2π` (trapezoid), and `Re(Bᴴ S B) = (M + conj M)/2` with `M = Bᴴ S B ⪰ 0` is
the real symmetric matrix that `etm_real_sum_choi_posSemidef` needs (its hypothesis is
`(Σ_x Γ_x).PosSemidef` for real `Γ_x`, which contains the symmetry).
Continues `FFVerif/Props/C09EtmFnShapes.lean`.
Property theorems only (helper lemmas: FFVerif/Lemmas/EtmFnCrossAux.lean).
-/
import FFVerif.Lemmas.EtmFnCrossAux
import FFVerif.Props.C09EtmFnShapes

namespace FFVerif.C09
open FFVerif FFVerif.Model FFVerif.Model.EtmFn Matrix NormedSpace
open scoped ComplexOrder

variable {N d nA nO m : Nat}

/-- **Pointwise quadratic form.**  For a positive-semidefinite cross-spectral matrix `S` (at one
frequency) and any control-matrix slice `B` (`m` noise operators × `N` basis elements) the real
matrix with entries `Re Σ_ab conj(B_ak) S_ab B_bl` is positive semidefinite. -/
theorem cross_integrand_posSemidef (S : Matrix (Fin m) (Fin m) ℂ) (hS : S.PosSemidef)
    (Bm : Matrix (Fin m) (Fin N) ℂ) :
    (Matrix.of fun k l : Fin N =>
      ((∑ a : Fin m, ∑ b : Fin m, (starRingEnd ℂ (Bm a k) * S a b * Bm b l).re : ℝ) : ℂ)).PosSemidef := by
  have h := crossBlock_posSemidef S hS Bm
  convert h using 1
  ext k l
  rw [Matrix.of_apply, crossBlock_apply]

/-- **The summed decay amplitudes of cross-correlated noise are positive semidefinite.**  Sorted
grid, cross-spectral matrix `S(ω)` Hermitian positive semidefinite at every grid frequency:
`Σ_a Σ_b Γ_ab` for `Γ = Model.decayAmplitudes3` is positive semidefinite. -/
theorem summed_decay_amplitudes3_posSemidef (ω : Vec ℝ nO)
    (hω : ∀ i j : Fin nO, i ≤ j → ω[i] ≤ ω[j]) (B : Ten3 ℂ nA N nO) (idx : Vec (Fin nA) m)
    (S : Ten3 ℂ m m nO)
    (hS : ∀ o : Fin nO, (Matrix.of fun a b : Fin m => S[a][b][o]).PosSemidef) :
    (∑ a : Fin m, ∑ b : Fin m, (gammaC (decayAmplitudes3 ω B idx S)[a] b).toMatrix).PosSemidef := by
  let g : Fin N → Fin N → Fin m × Fin m → Vec ℝ nO := fun k l p =>
    gammaIntegrand B[idx[p.1]] B[idx[p.2]] S[p.1][p.2] k l
  let f : Fin N → Fin N → Vec ℝ nO := fun k l =>
    Vector.ofFn fun o => ∑ p ∈ Finset.univ, (1 : ℝ) * (g k l p)[o]
  have hlin : ∀ k l, integrateR ω (f k l) = ∑ p, (1 : ℝ) * integrateR ω (g k l p) := fun k l =>
    integrateR_linear Finset.univ ω (fun _ => 1) (g k l)
  have hf : ∀ (k l : Fin N) (o : Fin nO), (((f k l)[o] : ℝ) : ℂ)
      = crossBlock (Matrix.of fun a b : Fin m => S[a][b][o])
          (Matrix.of fun (a : Fin m) (k : Fin N) => B[idx[a]][k][o]) k l := by
    intro k l o
    rw [crossBlock_apply]
    simp only [f, g, gammaIntegrand, Fin.getElem_fin, Vector.getElem_ofFn, one_mul,
      Matrix.of_apply, Fintype.sum_prod_type]
  have h := trapz_matrix_posSemidef ω hω _ (fun o => crossBlock_posSemidef _ (hS o) _) f hf
  convert h using 1
  ext k l
  rw [Matrix.of_apply, hlin, Matrix.sum_apply]
  simp only [Matrix.sum_apply, Mat.toMatrix_apply, gammaC, Mat.map, Mat.ofFn_get, one_mul,
    Fintype.sum_prod_type, Finset.sum_div, Complex.ofReal_sum, decayAmplitudes3_getElem, g]

/-- **… whichever path computes them** (`calculate_decay_amplitudes` for a 3-d spectrum: generalized
filter function cached — consistently — or not, memory-parsimonious or not): the hypothesis
`Σ_a Σ_b Γ_ab ⪰ 0` of `error_transfer_matrix_physical_cross` holds for every cross-spectral matrix
that is positive semidefinite at every grid frequency. -/
theorem summed_decay_amplitudes_posSemidef_cross (ffGenCached pars : Bool) (ω : Vec ℝ nO)
    (hω : ∀ i j : Fin nO, i ≤ j → ω[i] ≤ ω[j]) (B : Ten3 ℂ nA N nO)
    (Fgen : Ten5 ℂ nA nA N N nO) (hF : ffGenCached = true → Fgen = filterFunctionGen B)
    (idx : Vec (Fin nA) m) (S : Ten3 ℂ m m nO)
    (hS : ∀ o : Fin nO, (Matrix.of fun a b : Fin m => S[a][b][o]).PosSemidef) :
    (∑ a : Fin m, ∑ b : Fin m,
      (gammaC (decayAmplitudesSel3 ffGenCached pars ω B Fgen idx S)[a] b).toMatrix).PosSemidef := by
  have hsel : decayAmplitudesSel3 ffGenCached pars ω B Fgen idx S = decayAmplitudes3 ω B idx S := by
    cases hc : ffGenCached with
    | true =>
      exact (C08Integrand.decay_amplitudes_path_independent true pars ω B Fgen (hF hc) idx
        (Vector.replicate m (Vector.replicate nO 0)) S).2
    | false =>
      have h := (C08Integrand.decay_amplitudes_path_independent false pars ω B _ rfl idx
        (Vector.replicate m (Vector.replicate nO 0)) S).2
      have e : decayAmplitudesSel3 false pars ω B Fgen idx S
          = decayAmplitudesSel3 false pars ω B (filterFunctionGen B) idx S := by
        simp only [decayAmplitudesSel3, Bool.false_eq_true, if_false]
      rw [e]
      exact h
  rw [hsel]
  exact summed_decay_amplitudes3_posSemidef ω hω B idx S hS

/-- **End to end for cross-correlated noise**: sorted grid, cross-spectral matrix positive
semidefinite (in particular Hermitian, `S[a][b] = conj S[b][a]`) at every grid frequency, consistent
cache, complete orthonormal Hermitian basis with `C_{i0} = c·1` ⇒ `error_transfer_matrix` does not
raise and, under `U = exp Ksum`, returns a trace-preserving, unital, completely positive map — no
hypothesis on the decay amplitudes. -/
theorem error_transfer_matrix_physical_of_psd_cross_spectrum (p : PulseData ℂ nA N d nO)
    (S : Ten3 ℂ m m nO) (ω : Vec ℝ nO) (idx : Vec (Fin nA) m) (second pars sp ci : Bool)
    (hclose : p.close = true → ∀ (hN : N = 4) (hd : d = 2),
      Spec.basisOf (show Vector (Mat ℂ 2 2) 4 from hN ▸ hd ▸ p.basis) = Spec.pauliBasis)
    (hCo : Spec.IsComplete (Spec.basisOf p.basis)) (hH : Spec.IsOrthoHerm (Spec.basisOf p.basis))
    (i0 : Fin N) (c : ℂ) (h0 : Spec.basisOf p.basis i0 = c • (1 : Matrix (Fin d) (Fin d) ℂ))
    (hω : ∀ i j : Fin nO, i ≤ j → ω[i] ≤ ω[j])
    (hF : p.ffGenCached = true → p.Fgen = filterFunctionGen p.B)
    (hS : ∀ o : Fin nO, (Matrix.of fun a b : Fin m => S[a][b][o]).PosSemidef)
    (U : Matrix (Fin N) (Fin N) ℝ) :
    ∃ Ksum : Mat ℝ N N,
      etmFn (some p) (some (.cross S)) (some ω) idx second none sp pars ci = .ok ⟨N, N, Ksum⟩ ∧
      (U = exp Ksum.toMatrix →
        (∀ j, U i0 j = if j = i0 then 1 else 0) ∧ (∀ j, U j i0 = if j = i0 then 1 else 0) ∧
        (Spec.choiLiou (Spec.basisOf p.basis) (U.map Complex.ofReal)).PosSemidef) := by
  obtain ⟨Ksum, hK, h⟩ := error_transfer_matrix_physical_cross p S ω idx second pars sp ci hclose
    hCo hH i0 c h0 U
  refine ⟨Ksum, hK, fun hU => ?_⟩
  obtain ⟨h1, h2, h3⟩ := h hU
  exact ⟨h1, h2, h3 (summed_decay_amplitudes_posSemidef_cross p.ffGenCached pars ω hω p.B p.Fgen hF
    idx S hS)⟩

/-- the hypothesis on the cross-spectral matrix is satisfiable with genuinely correlated noise
sources: the all-ones matrix `S_ab(ω) = 1` (fully correlated, off-diagonal entries non-zero) is
positive semidefinite at every frequency -/
example : ∃ S : Ten3 ℂ 2 2 2,
    (∀ o : Fin 2, (Matrix.of fun a b : Fin 2 => S[a][b][o]).PosSemidef) ∧
    S[(0 : Fin 2)][(1 : Fin 2)][(0 : Fin 2)] ≠ 0 := by
  refine ⟨Vector.replicate 2 (Vector.replicate 2 (Vector.replicate 2 1)), fun o => ?_, by simp⟩
  have h := posSemidef_vecMulVec_self_star (fun _ : Fin 2 => (1 : ℂ))
  convert h using 1
  ext a b
  simp [vecMulVec_apply]

end FFVerif.C09
