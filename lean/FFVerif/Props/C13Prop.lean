/-
C13, propagator part — the control Hamiltonian, the cumulative propagators `Q_0 … Q_{n_dt}` and the
total propagator computed by the model of `PulseSequence.diagonalize` / `numeric.diagonalize`
(`FFVerif.Model.Diag`) do not change under

* the choice of the eigen-decomposition returned by `eigh` (two calls for the same Hamiltonian may
  return different eigenvectors / another order of degenerate eigenvalues),
* the order in which the control operators are listed, and operators with zero amplitude,
* splitting a segment, merging equal neighbours, inserting zero-duration segments, arbitrary
  refinements of the time grid,
* a change of the unit of time.

`nla.eigh` is an oracle: its output `(eigvals, eigvecs)` is an input of the model and its contract
`C02.IsEigh` is a hypothesis, separately for every pulse and every segment.  All statements are over
ℝ/ℂ (exact arithmetic); at IEEE doubles the identities hold up to rounding only (sums are
re-ordered, `exp` is evaluated at other arguments).
-/
import FFVerif.Lemmas.PropagatorInvAux
import FFVerif.Props.C13

namespace FFVerif.C13
open FFVerif FFVerif.Model FFVerif.C02 FFVerif.PropInvAux Matrix Complex

/-! ### 1. Independence of the eigen-decomposition -/

/-- **The segment propagator does not depend on the eigen-decomposition.**  If `(D, V)` and
`(D', V')` both satisfy the `eigh` contract for the same matrix `H` (different eigenvectors,
different order of the eigenvalues, different bases of degenerate eigenspaces), the spectral
expressions `V diag(e^{-i s D}) V†` and `V' diag(e^{-i s D'}) V'†` evaluated by the code coincide for
every real `s` — both are `exp(-i s H)` (`C02.piecewise_is_exp`). -/
theorem segment_propagator_unique {d : Nat} {H : Matrix (Fin d) (Fin d) ℂ} {D D' : Fin d → ℝ}
    {V V' : Matrix (Fin d) (Fin d) ℂ} (h : IsEigh H D V) (h' : IsEigh H D' V') (s : ℝ) :
    segProp D V s = segProp D' V' s := by
  rw [piecewise_is_exp h, piecewise_is_exp h']

/-- two genuinely different eigen-decompositions of `σ_z` satisfying the contract: eigenvalues
`(1, -1)` with `V = 1`, and eigenvalues `(-1, 1)` with `V = σ_x` -/
example : IsEigh (!![1, 0; 0, -1] : Matrix (Fin 2) (Fin 2) ℂ) ![1, -1] 1
    ∧ IsEigh (!![1, 0; 0, -1] : Matrix (Fin 2) (Fin 2) ℂ) ![-1, 1] !![0, 1; 1, 0] := by
  refine ⟨⟨?_, by simp, by simp⟩, ⟨?_, ?_, ?_⟩⟩
  · ext i j; fin_cases i <;> fin_cases j <;> simp
  · ext i j; fin_cases i <;> fin_cases j <;>
      simp [Matrix.mul_apply, Fin.sum_univ_two, Matrix.diagonal_apply]
  · ext i j; fin_cases i <;> fin_cases j <;>
      simp [Matrix.mul_apply, Fin.sum_univ_two, Matrix.conjTranspose_apply]
  · ext i j; fin_cases i <;> fin_cases j <;>
      simp [Matrix.mul_apply, Fin.sum_univ_two, Matrix.conjTranspose_apply]

/-- **`piecewise[g]` of the model does not depend on the eigen-decomposition** (data equality of
the model's outputs): segments `g` of one pulse and `g'` of another with the same Hamiltonian `H`
and the same duration, each with its own eigen-data satisfying the contract. -/
theorem piecewise_unique {nG nG' d : Nat}
    (eigvals : Mat ℝ nG d) (eigvecs : Vector (Mat ℂ d d) nG) (dt : Vec ℝ nG)
    (eigvals' : Mat ℝ nG' d) (eigvecs' : Vector (Mat ℂ d d) nG') (dt' : Vec ℝ nG')
    (H : Matrix (Fin d) (Fin d) ℂ) (g : Nat) (hg : g < nG) (g' : Nat) (hg' : g' < nG')
    (hE : IsEigh H (fun j => eigvals[g][j]) eigvecs[g].toMatrix)
    (hE' : IsEigh H (fun j => eigvals'[g'][j]) eigvecs'[g'].toMatrix) (hdt : dt'[g'] = dt[g]) :
    (piecewise eigvals' eigvecs' dt')[g'] = (piecewise eigvals eigvecs dt)[g] := by
  apply Mat.ext'
  rw [piecewise_entries, piecewise_entries, hdt]
  exact segment_propagator_unique hE' hE _

/-- **All cumulative propagators are independent of the eigen-decompositions**: two runs of
`numeric.diagonalize` on the same Hamiltonians `H_g` and durations, whose `eigh` calls returned
different data `(eigvals, eigvecs)`, `(eigvals', eigvecs')` (both satisfying the contract), return
the same array `propagators`. -/
theorem propagators_unique {nG d : Nat}
    (eigvals eigvals' : Mat ℝ nG d) (eigvecs eigvecs' : Vector (Mat ℂ d d) nG) (dt : Vec ℝ nG)
    (H : Fin nG → Matrix (Fin d) (Fin d) ℂ)
    (hE : ∀ g : Fin nG, IsEigh (H g) (fun j => eigvals[g.1][j]) eigvecs[g.1].toMatrix)
    (hE' : ∀ g : Fin nG, IsEigh (H g) (fun j => eigvals'[g.1][j]) eigvecs'[g.1].toMatrix)
    (k : Nat) (hk : k ≤ nG) :
    (propagators eigvals' eigvecs' dt)[k] = (propagators eigvals eigvecs dt)[k] := by
  apply Mat.ext'
  refine propagators_congr_prefix eigvals eigvecs dt eigvals' eigvecs' dt nG (Nat.le_refl _)
    (Nat.le_refl _) (fun j hj => ?_) k hk
  rw [stepMat_eq_expSeg _ _ _ (H ⟨j, hj⟩) j hj (hE' ⟨j, hj⟩),
    stepMat_eq_expSeg _ _ _ (H ⟨j, hj⟩) j hj (hE ⟨j, hj⟩)]

/-! ### 2. The Hamiltonian does not depend on how the control operators are listed -/

/-- **Re-listing the control operators.**  Let the operators of one pulse be listed inside the
operator list of another along an injective map `ι` (a permutation, or an embedding into a longer
list), with the same amplitude rows, and let every operator of the second list that is not hit have
amplitude zero on every segment.  Then the model `hamiltonian` (the contraction `'ijk,il->ljk'` of
`PulseSequence.diagonalize`) returns the same array for both, for all operator counts, segment
counts and dimensions.  (Over ℂ; at doubles the sum over `i` is evaluated in another order.) -/
theorem hamiltonian_reindex_opers {nC nC' nG d : Nat}
    (cOpers : Ten3 ℂ nC d d) (cCoeffs : Mat ℝ nC nG)
    (cOpers' : Ten3 ℂ nC' d d) (cCoeffs' : Mat ℝ nC' nG) (ι : Fin nC → Fin nC')
    (hι : Function.Injective ι)
    (hop : ∀ i : Fin nC, cOpers'[ι i] = cOpers[i]) (hco : ∀ i : Fin nC, cCoeffs'[ι i] = cCoeffs[i])
    (h0 : ∀ i' : Fin nC', (∀ i, ι i ≠ i') → ∀ (g : Nat) (hg : g < nG), cCoeffs'[i'][g] = 0) :
    hamiltonian cOpers' cCoeffs' = hamiltonian cOpers cCoeffs := by
  apply Vector.ext; intro g hg
  apply Vector.ext; intro j hj
  apply Vector.ext; intro k hk
  rw [hamiltonian_getElem, hamiltonian_getElem, InvAux.sum_of_injective ι hι]
  · refine Finset.sum_congr rfl fun i _ => ?_
    rw [hop, hco]
  · intro i' hi'
    rw [h0 i' hi' g hg, Complex.ofReal_zero, mul_zero]

/-- **Permuting the control operators** (operator list and rows of the amplitude matrix permuted
together by any permutation `σ`) does not change the Hamiltonian array. -/
theorem hamiltonian_perm_opers {nC nG d : Nat} (cOpers : Ten3 ℂ nC d d) (cCoeffs : Mat ℝ nC nG)
    (σ : Equiv.Perm (Fin nC)) :
    hamiltonian (Vector.ofFn fun i => cOpers[σ i]) (Vector.ofFn fun i => cCoeffs[σ i])
      = hamiltonian cOpers cCoeffs := by
  apply hamiltonian_reindex_opers cOpers cCoeffs _ _ σ.symm σ.symm.injective
  · intro i; simp only [InvAux.vec_ofFn_get, Equiv.apply_symm_apply]
  · intro i; simp only [InvAux.vec_ofFn_get, Equiv.apply_symm_apply]
  · intro i' hi'
    exact absurd (Equiv.symm_apply_apply σ i') (hi' (σ i'))

/-- **An operator with zero amplitude on every segment changes nothing**: appending any operator `A`
with an all-zero amplitude row to the lists gives the same Hamiltonian array. -/
theorem hamiltonian_zero_amplitude_oper {nC nG d : Nat} (cOpers : Ten3 ℂ nC d d)
    (cCoeffs : Mat ℝ nC nG) (A : Mat ℂ d d) (z : Vec ℝ nG) (hz : ∀ (g : Nat) (hg : g < nG), z[g] = 0) :
    hamiltonian (cOpers.push A) (cCoeffs.push z) = hamiltonian cOpers cCoeffs := by
  apply hamiltonian_reindex_opers cOpers cCoeffs _ _ Fin.castSucc (Fin.castSucc_injective _)
  · intro i
    simp only [Fin.getElem_fin, Fin.val_castSucc, Vector.getElem_push_lt i.2]
  · intro i
    simp only [Fin.getElem_fin, Fin.val_castSucc, Vector.getElem_push_lt i.2]
  · intro i' hi' g hg
    have hlast : i' = Fin.last nC := by
      by_contra h
      exact hi' (i'.castPred h) (Fin.castSucc_castPred _ _)
    subst hlast
    simp only [Fin.getElem_fin, Fin.val_last, Vector.getElem_push_eq, hz g hg]

/-- a concrete instance (`d = 2`, two operators `σ_x`, `σ_z`, two segments, the two operators
swapped) -/
example :
    hamiltonian (Vector.ofFn fun i => (#v[#v[#v[0, 1], #v[1, 0]], #v[#v[1, 0], #v[0, -1]]] :
        Ten3 ℂ 2 2 2)[(Equiv.swap (0 : Fin 2) 1) i])
      (Vector.ofFn fun i => (#v[#v[1, 2], #v[3, 4]] : Mat ℝ 2 2)[(Equiv.swap (0 : Fin 2) 1) i])
    = hamiltonian (#v[#v[#v[0, 1], #v[1, 0]], #v[#v[1, 0], #v[0, -1]]] : Ten3 ℂ 2 2 2)
        (#v[#v[1, 2], #v[3, 4]] : Mat ℝ 2 2) :=
  hamiltonian_perm_opers _ _ _

/-- **The Hamiltonian of a segment depends only on the amplitudes of that segment**, and is
homogeneous in them; operators may be re-listed as in `hamiltonian_reindex_opers`: if the amplitudes
of segment `l` of the second pulse are those of segment `g` of the first divided by `lam` (operators
matched along `ι`, unmatched operators with zero amplitude on segment `l`), then
`H'_l = (1/lam) H_g`. -/
theorem hamiltonian_segment_reindex {nC nC' nG nG' d : Nat}
    (cOpers : Ten3 ℂ nC d d) (cCoeffs : Mat ℝ nC nG)
    (cOpers' : Ten3 ℂ nC' d d) (cCoeffs' : Mat ℝ nC' nG') (ι : Fin nC → Fin nC')
    (hι : Function.Injective ι) (hop : ∀ i : Fin nC, cOpers'[ι i] = cOpers[i])
    (lam : ℝ) (g : Nat) (hg : g < nG) (l : Nat) (hl : l < nG')
    (hco : ∀ i : Fin nC, cCoeffs'[ι i][l] = cCoeffs[i][g] / lam)
    (h0 : ∀ i' : Fin nC', (∀ i, ι i ≠ i') → cCoeffs'[i'][l] = 0) :
    Mat.toMatrix (hamiltonian cOpers' cCoeffs')[l]
      = ((1 / lam : ℝ) : ℂ) • Mat.toMatrix (hamiltonian cOpers cCoeffs)[g] := by
  ext j k
  rw [Matrix.smul_apply, Mat.toMatrix_apply, Mat.toMatrix_apply]
  simp only [Fin.getElem_fin]
  rw [hamiltonian_getElem, hamiltonian_getElem, InvAux.sum_of_injective ι hι, smul_eq_mul,
    Finset.mul_sum]
  · refine Finset.sum_congr rfl fun i _ => ?_
    rw [hop, hco]
    push_cast
    ring
  · intro i' hi'
    rw [h0 i' hi', Complex.ofReal_zero, mul_zero]

/-! ### 3. Splitting a segment -/

/-- `IsSplit H dt H' dt' g₀ hg₀ a c`: the pulse with Hamiltonians `H'` and durations `dt'` (one
segment more) arises from the pulse `(H, dt)` by splitting segment `g₀`, of duration
`dt[g₀] = a + c`, into two consecutive segments `g₀`, `g₀ + 1` with the same Hamiltonian and
durations `a`, `c`; the segments before are unchanged, those after are shifted by one. -/
structure IsSplit {nG d : Nat} (H : Fin nG → Matrix (Fin d) (Fin d) ℂ) (dt : Vec ℝ nG)
    (H' : Fin (nG + 1) → Matrix (Fin d) (Fin d) ℂ) (dt' : Vec ℝ (nG + 1))
    (g₀ : Nat) (hg₀ : g₀ < nG) (a c : ℝ) : Prop where
  before : ∀ (l : Nat) (hl : l < nG), l < g₀ →
    H' ⟨l, Nat.lt_succ_of_lt hl⟩ = H ⟨l, hl⟩ ∧ dt'[l] = dt[l]
  first : H' ⟨g₀, Nat.lt_succ_of_lt hg₀⟩ = H ⟨g₀, hg₀⟩ ∧ dt'[g₀] = a
  second : H' ⟨g₀ + 1, Nat.succ_lt_succ hg₀⟩ = H ⟨g₀, hg₀⟩ ∧ dt'[g₀ + 1] = c
  after : ∀ (l : Nat) (hl : l < nG), g₀ < l →
    H' ⟨l + 1, Nat.succ_lt_succ hl⟩ = H ⟨l, hl⟩ ∧ dt'[l + 1] = dt[l]
  total : dt[g₀] = a + c

/-- **Splitting a segment leaves the cumulative propagators at the old boundaries and the total
propagator unchanged.**  Coarse pulse `(H, dt)`, fine pulse `(H', dt')` with `IsSplit` (`a`, `c` any
real numbers, also negative or zero); each pulse with its own `eigh` output satisfying the contract
(the eigen-data of the two pieces and of the original segment may all differ).  Then

* `Q'_k = Q_k` for `k ≤ g₀`,
* the new intermediate propagator is `Q'_{g₀+1} = exp(-i a H_{g₀}) Q_{g₀}`,
* `Q'_{k+1} = Q_k` for `g₀ < k ≤ n_dt`,
* `total_propagator` is the same.

Equalities between model outputs are equalities of the data arrays.  An arbitrary refinement is
obtained by iterating, or directly by `propagators_refine`. -/
theorem propagators_split_segment {nG d : Nat}
    (eigvals : Mat ℝ nG d) (eigvecs : Vector (Mat ℂ d d) nG) (dt : Vec ℝ nG)
    (eigvals' : Mat ℝ (nG + 1) d) (eigvecs' : Vector (Mat ℂ d d) (nG + 1)) (dt' : Vec ℝ (nG + 1))
    (H : Fin nG → Matrix (Fin d) (Fin d) ℂ) (H' : Fin (nG + 1) → Matrix (Fin d) (Fin d) ℂ)
    (hE : ∀ g : Fin nG, IsEigh (H g) (fun j => eigvals[g.1][j]) eigvecs[g.1].toMatrix)
    (hE' : ∀ g : Fin (nG + 1), IsEigh (H' g) (fun j => eigvals'[g.1][j]) eigvecs'[g.1].toMatrix)
    (g₀ : Nat) (hg₀ : g₀ < nG) (a c : ℝ) (hs : IsSplit H dt H' dt' g₀ hg₀ a c) :
    (∀ (k : Nat) (hk : k ≤ g₀),
      (propagators eigvals' eigvecs' dt')[k] = (propagators eigvals eigvecs dt)[k]) ∧
    (propagators eigvals' eigvecs' dt')[g₀ + 1].toMatrix
      = NormedSpace.exp ((-(I * (a : ℂ))) • H ⟨g₀, hg₀⟩)
        * (propagators eigvals eigvecs dt)[g₀].toMatrix ∧
    (∀ (k : Nat) (hk : k ≤ nG), g₀ < k →
      (propagators eigvals' eigvecs' dt')[k + 1] = (propagators eigvals eigvecs dt)[k]) ∧
    totalPropagator eigvals' eigvecs' dt' = totalPropagator eigvals eigvecs dt := by
  -- the factors of the two pulses in terms of the Hamiltonians
  have hst : ∀ (l : Nat) (hl : l < nG),
      stepMat eigvals eigvecs dt l hl = expSeg (H ⟨l, hl⟩) dt[l] :=
    fun l hl => stepMat_eq_expSeg _ _ _ _ l hl (hE ⟨l, hl⟩)
  have hst' : ∀ (l : Nat) (hl : l < nG + 1),
      stepMat eigvals' eigvecs' dt' l hl = expSeg (H' ⟨l, hl⟩) dt'[l] :=
    fun l hl => stepMat_eq_expSeg _ _ _ _ l hl (hE' ⟨l, hl⟩)
  have hA : ∀ (k : Nat) (hk : k ≤ g₀),
      (propagators eigvals' eigvecs' dt')[k].toMatrix = (propagators eigvals eigvecs dt)[k].toMatrix := by
    refine propagators_congr_prefix eigvals eigvecs dt eigvals' eigvecs' dt' g₀ (by omega) (by omega)
      (fun j hj => ?_)
    rw [hst' j (by omega), hst j (by omega), (hs.before j (by omega) hj).1,
      (hs.before j (by omega) hj).2]
  have hB : (propagators eigvals' eigvecs' dt')[g₀ + 1].toMatrix
      = expSeg (H ⟨g₀, hg₀⟩) a * (propagators eigvals eigvecs dt)[g₀].toMatrix := by
    rw [propagators_step eigvals' eigvecs' dt' g₀ (by omega), hst' g₀ (by omega), hs.first.1,
      hs.first.2, hA g₀ (Nat.le_refl _)]
  have hC : (propagators eigvals' eigvecs' dt')[g₀ + 1 + 1].toMatrix
      = (propagators eigvals eigvecs dt)[g₀ + 1].toMatrix := by
    rw [propagators_step eigvals' eigvecs' dt' (g₀ + 1) (by omega), hst' (g₀ + 1) (by omega),
      hs.second.1, hs.second.2, hB, ← Matrix.mul_assoc, ← expSeg_add,
      propagators_step eigvals eigvecs dt g₀ hg₀, hst g₀ hg₀, hs.total, add_comm c a]
  have hD : ∀ (k : Nat) (hk : k ≤ nG), g₀ < k →
      (propagators eigvals' eigvecs' dt')[k + 1].toMatrix
        = (propagators eigvals eigvecs dt)[k].toMatrix := by
    intro k hk hgk
    refine propagators_congr_shift' eigvals eigvecs dt eigvals' eigvecs' dt' (g₀ + 1) (g₀ + 1 + 1)
      (nG - (g₀ + 1)) (by omega) (by omega) hC (fun j hj => ?_) (k - (g₀ + 1)) (by omega)
      k (k + 1) (by omega) (by omega)
    rw [hst' _ (by omega), hst _ (by omega)]
    have h := hs.after (g₀ + 1 + j) (by omega) (by omega)
    have e : g₀ + 1 + 1 + j = g₀ + 1 + j + 1 := by omega
    simp only [e]
    rw [h.1, h.2]
  refine ⟨fun k hk => Mat.ext' (hA k hk), hB, fun k hk hgk => Mat.ext' (hD k hk hgk), ?_⟩
  exact Mat.ext' (hD nG (Nat.le_refl _) hg₀)

/-- `IsSplit` is satisfiable for every pulse, every segment `g₀` and every decomposition
`dt[g₀] = a + c` of its duration -/
theorem isSplit_exists {nG d : Nat} (H : Fin nG → Matrix (Fin d) (Fin d) ℂ) (dt : Vec ℝ nG)
    (g₀ : Nat) (hg₀ : g₀ < nG) (a c : ℝ) (h : dt[g₀] = a + c) :
    ∃ (H' : Fin (nG + 1) → Matrix (Fin d) (Fin d) ℂ) (dt' : Vec ℝ (nG + 1)),
      IsSplit H dt H' dt' g₀ hg₀ a c := by
  refine ⟨fun l => if h : l.1 ≤ g₀ then H ⟨l.1, by omega⟩ else H ⟨l.1 - 1, by omega⟩,
    Vector.ofFn fun l => if h : l.1 < g₀ then dt[l.1] else
      if l.1 = g₀ then a else if l.1 = g₀ + 1 then c else dt[l.1 - 1], ?_⟩
  refine ⟨fun l hl hlg => ⟨?_, ?_⟩, ⟨?_, ?_⟩, ⟨?_, ?_⟩, fun l hl hlg => ⟨?_, ?_⟩, h⟩
  · simp only [dif_pos (Nat.le_of_lt hlg)]
  · simp only [Vector.getElem_ofFn, dif_pos hlg]
  · simp only [dif_pos (Nat.le_refl g₀)]
  · simp only [Vector.getElem_ofFn, Nat.lt_irrefl, dite_false, if_true]
  · simp
  · simp
  · have : ¬ l + 1 ≤ g₀ := by omega
    simp only [this, dite_false, Nat.add_sub_cancel]
  · have h1 : ¬ l + 1 < g₀ := by omega
    have h2 : ¬ l + 1 = g₀ := by omega
    have h3 : ¬ l = g₀ := by omega
    simp only [Vector.getElem_ofFn, h1, h2, h3, dite_false, if_false, Nat.add_sub_cancel,
      Nat.add_right_cancel_iff]


/-- a concrete instance, `d = 2`: one segment `σ_z` of duration `3` (`eigh` output `(1, -1)`, `V = 1`)
split into pieces of durations `1` and `2`, the second piece diagonalized differently (eigenvalues
in the other order, `V = σ_x`): same total propagator -/
example :
    totalPropagator (#v[#v[1, -1], #v[-1, 1]] : Mat ℝ 2 2)
        (#v[#v[#v[1, 0], #v[0, 1]], #v[#v[0, 1], #v[1, 0]]] : Vector (Mat ℂ 2 2) 2)
        (#v[1, 2] : Vec ℝ 2)
      = totalPropagator (#v[#v[1, -1]] : Mat ℝ 1 2)
        (#v[#v[#v[1, 0], #v[0, 1]]] : Vector (Mat ℂ 2 2) 1) (#v[3] : Vec ℝ 1) := by
  refine (propagators_split_segment _ _ _ _ _ _
    (fun _ => (!![1, 0; 0, -1] : Matrix (Fin 2) (Fin 2) ℂ))
    (fun _ => (!![1, 0; 0, -1] : Matrix (Fin 2) (Fin 2) ℂ)) ?_ ?_ 0 (by norm_num) 1 2 ?_).2.2.2
  · intro g
    fin_cases g
    refine ⟨?_, ?_, ?_⟩ <;> ext i j <;> fin_cases i <;> fin_cases j <;>
      simp [Matrix.mul_apply, Fin.sum_univ_two, Matrix.diagonal_apply, Mat.toMatrix,
        Matrix.conjTranspose_apply]
  · intro g
    fin_cases g <;> refine ⟨?_, ?_, ?_⟩ <;> ext i j <;> fin_cases i <;> fin_cases j <;>
      simp [Matrix.mul_apply, Fin.sum_univ_two, Matrix.diagonal_apply, Mat.toMatrix,
        Matrix.conjTranspose_apply]
  · refine ⟨fun l hl hlg => absurd hlg (Nat.not_lt_zero _), ⟨rfl, by simp⟩, ⟨rfl, by simp⟩,
      fun l hl hlg => by omega, by norm_num⟩

/-- **Times under a split**: `t'_k = t_k` for `k ≤ g₀`, the new edge is `t_{g₀} + a`,
`t'_{k+1} = t_k` above, `tau` unchanged. -/
theorem times_split_segment {nG d : Nat} (dt : Vec ℝ nG) (dt' : Vec ℝ (nG + 1))
    (H : Fin nG → Matrix (Fin d) (Fin d) ℂ) (H' : Fin (nG + 1) → Matrix (Fin d) (Fin d) ℂ)
    (g₀ : Nat) (hg₀ : g₀ < nG) (a c : ℝ) (hs : IsSplit H dt H' dt' g₀ hg₀ a c) :
    (∀ (k : Nat) (hk : k ≤ g₀), (times dt')[k] = (times dt)[k]) ∧
    (times dt')[g₀ + 1] = (times dt)[g₀] + a ∧
    (∀ (k : Nat) (hk : k ≤ nG), g₀ < k → (times dt')[k + 1] = (times dt)[k]) ∧
    tau dt' = tau dt := by
  have hA : ∀ (k : Nat) (hk : k ≤ g₀), (times dt')[k] = (times dt)[k] := by
    intro k
    induction k with
    | zero => intro _; rw [times_zero, times_zero]
    | succ k ih =>
      intro hk
      rw [times_succ dt' k (by omega), times_succ dt k (by omega), ih (by omega),
        (hs.before k (by omega) (by omega)).2]
  have hB : (times dt')[g₀ + 1] = (times dt)[g₀] + a := by
    rw [times_succ dt' g₀ (by omega), hA g₀ (Nat.le_refl _), hs.first.2]
  have hD : ∀ (k : Nat), g₀ + 1 ≤ k → ∀ (hk : k ≤ nG), (times dt')[k + 1] = (times dt)[k] := by
    intro k hgk
    induction k, hgk using Nat.le_induction with
    | base =>
      intro hk
      rw [times_succ dt' (g₀ + 1) (by omega), hB, hs.second.2, times_succ dt g₀ hg₀, hs.total,
        add_assoc]
    | succ k hgk ih =>
      intro hk
      rw [times_succ dt' (k + 1) (by omega), ih (by omega), times_succ dt k (by omega),
        (hs.after k (by omega) (by omega)).2]
  exact ⟨hA, hB, fun k hk hgk => hD k hgk hk, hD nG hg₀ (Nat.le_refl _)⟩

/-! ### 4. Zero-duration segments and merging equal neighbours -/

/-- `IsZeroInsert H dt H' dt' p hp`: the pulse `(H', dt')` arises from `(H, dt)` by inserting at
position `p` (`0 ≤ p ≤ n_dt`, i.e. also in front or at the end) one segment of duration `0`; nothing
is assumed about the Hamiltonian `H' p` of that segment. -/
structure IsZeroInsert {nG d : Nat} (H : Fin nG → Matrix (Fin d) (Fin d) ℂ) (dt : Vec ℝ nG)
    (H' : Fin (nG + 1) → Matrix (Fin d) (Fin d) ℂ) (dt' : Vec ℝ (nG + 1))
    (p : Nat) (hp : p ≤ nG) : Prop where
  before : ∀ (l : Nat) (hl : l < nG), l < p →
    H' ⟨l, Nat.lt_succ_of_lt hl⟩ = H ⟨l, hl⟩ ∧ dt'[l] = dt[l]
  zero : dt'[p] = 0
  after : ∀ (l : Nat) (hl : l < nG), p ≤ l →
    H' ⟨l + 1, Nat.succ_lt_succ hl⟩ = H ⟨l, hl⟩ ∧ dt'[l + 1] = dt[l]

/-- **Inserting a zero-duration segment with any Hamiltonian** (any eigen-data satisfying the
contract) repeats one cumulative propagator and changes no other: `Q'_k = Q_k` for `k ≤ p`,
`Q'_{k+1} = Q_k` for `p ≤ k ≤ n_dt` (so `Q'_{p+1} = Q'_p = Q_p`), and the total propagator is the
same. -/
theorem propagators_zero_dt_segment {nG d : Nat}
    (eigvals : Mat ℝ nG d) (eigvecs : Vector (Mat ℂ d d) nG) (dt : Vec ℝ nG)
    (eigvals' : Mat ℝ (nG + 1) d) (eigvecs' : Vector (Mat ℂ d d) (nG + 1)) (dt' : Vec ℝ (nG + 1))
    (H : Fin nG → Matrix (Fin d) (Fin d) ℂ) (H' : Fin (nG + 1) → Matrix (Fin d) (Fin d) ℂ)
    (hE : ∀ g : Fin nG, IsEigh (H g) (fun j => eigvals[g.1][j]) eigvecs[g.1].toMatrix)
    (hE' : ∀ g : Fin (nG + 1), IsEigh (H' g) (fun j => eigvals'[g.1][j]) eigvecs'[g.1].toMatrix)
    (p : Nat) (hp : p ≤ nG) (hz : IsZeroInsert H dt H' dt' p hp) :
    (∀ (k : Nat) (hk : k ≤ p),
      (propagators eigvals' eigvecs' dt')[k] = (propagators eigvals eigvecs dt)[k]) ∧
    (∀ (k : Nat) (hk : k ≤ nG), p ≤ k →
      (propagators eigvals' eigvecs' dt')[k + 1] = (propagators eigvals eigvecs dt)[k]) ∧
    totalPropagator eigvals' eigvecs' dt' = totalPropagator eigvals eigvecs dt := by
  have hst : ∀ (l : Nat) (hl : l < nG),
      stepMat eigvals eigvecs dt l hl = expSeg (H ⟨l, hl⟩) dt[l] :=
    fun l hl => stepMat_eq_expSeg _ _ _ _ l hl (hE ⟨l, hl⟩)
  have hst' : ∀ (l : Nat) (hl : l < nG + 1),
      stepMat eigvals' eigvecs' dt' l hl = expSeg (H' ⟨l, hl⟩) dt'[l] :=
    fun l hl => stepMat_eq_expSeg _ _ _ _ l hl (hE' ⟨l, hl⟩)
  have hA : ∀ (k : Nat) (hk : k ≤ p),
      (propagators eigvals' eigvecs' dt')[k].toMatrix = (propagators eigvals eigvecs dt)[k].toMatrix := by
    refine propagators_congr_prefix eigvals eigvecs dt eigvals' eigvecs' dt' p (by omega) (by omega)
      (fun j hj => ?_)
    rw [hst' j (by omega), hst j (by omega), (hz.before j (by omega) hj).1,
      (hz.before j (by omega) hj).2]
  have hB : (propagators eigvals' eigvecs' dt')[p + 1].toMatrix
      = (propagators eigvals eigvecs dt)[p].toMatrix := by
    rw [propagators_step eigvals' eigvecs' dt' p (by omega), hst' p (by omega), hz.zero,
      expSeg_zero, Matrix.one_mul, hA p (Nat.le_refl _)]
  have hD : ∀ (k : Nat) (hk : k ≤ nG), p ≤ k →
      (propagators eigvals' eigvecs' dt')[k + 1].toMatrix
        = (propagators eigvals eigvecs dt)[k].toMatrix := by
    intro k hk hpk
    refine propagators_congr_shift' eigvals eigvecs dt eigvals' eigvecs' dt' p (p + 1)
      (nG - p) (by omega) (by omega) hB (fun j hj => ?_) (k - p) (by omega)
      k (k + 1) (by omega) (by omega)
    rw [hst' _ (by omega), hst _ (by omega)]
    have h := hz.after (p + j) (by omega) (by omega)
    have e : p + 1 + j = p + j + 1 := by omega
    simp only [e]
    rw [h.1, h.2]
  exact ⟨fun k hk => Mat.ext' (hA k hk), fun k hk hpk => Mat.ext' (hD k hk hpk),
    Mat.ext' (hD nG (Nat.le_refl _) hp)⟩

/-- `IsZeroInsert` is satisfiable for every pulse, every position and every Hamiltonian `X` of the
inserted segment -/
theorem isZeroInsert_exists {nG d : Nat} (H : Fin nG → Matrix (Fin d) (Fin d) ℂ) (dt : Vec ℝ nG)
    (p : Nat) (hp : p ≤ nG) (X : Matrix (Fin d) (Fin d) ℂ) :
    ∃ (H' : Fin (nG + 1) → Matrix (Fin d) (Fin d) ℂ) (dt' : Vec ℝ (nG + 1)),
      IsZeroInsert H dt H' dt' p hp ∧ H' ⟨p, Nat.lt_succ_of_le hp⟩ = X := by
  refine ⟨fun l => if h : l.1 < p then H ⟨l.1, by omega⟩ else
      if h' : l.1 = p then X else H ⟨l.1 - 1, by omega⟩,
    Vector.ofFn fun l => if h : l.1 < p then dt[l.1] else
      if h' : l.1 = p then 0 else dt[l.1 - 1], ⟨fun l hl hlp => ⟨?_, ?_⟩, ?_,
      fun l hl hlp => ⟨?_, ?_⟩⟩, ?_⟩
  · simp only [dif_pos hlp]
  · simp only [Vector.getElem_ofFn, dif_pos hlp]
  · simp
  · have h1 : ¬ l + 1 < p := by omega
    have h2 : ¬ l + 1 = p := by omega
    simp only [h1, h2, dite_false, Nat.add_sub_cancel]
  · have h1 : ¬ l + 1 < p := by omega
    have h2 : ¬ l + 1 = p := by omega
    simp only [Vector.getElem_ofFn, h1, h2, dite_false, Nat.add_sub_cancel]
  · simp


/-- **Times under insertion of a zero-duration segment**: one edge time is repeated, `tau`
unchanged. -/
theorem times_zero_dt_segment {nG d : Nat} (dt : Vec ℝ nG) (dt' : Vec ℝ (nG + 1))
    (H : Fin nG → Matrix (Fin d) (Fin d) ℂ) (H' : Fin (nG + 1) → Matrix (Fin d) (Fin d) ℂ)
    (p : Nat) (hp : p ≤ nG) (hz : IsZeroInsert H dt H' dt' p hp) :
    (∀ (k : Nat) (hk : k ≤ p), (times dt')[k] = (times dt)[k]) ∧
    (∀ (k : Nat) (hk : k ≤ nG), p ≤ k → (times dt')[k + 1] = (times dt)[k]) ∧
    tau dt' = tau dt := by
  have hA : ∀ (k : Nat) (hk : k ≤ p), (times dt')[k] = (times dt)[k] := by
    intro k
    induction k with
    | zero => intro _; rw [times_zero, times_zero]
    | succ k ih =>
      intro hk
      rw [times_succ dt' k (by omega), times_succ dt k (by omega), ih (by omega),
        (hz.before k (by omega) (by omega)).2]
  have hD : ∀ (k : Nat), p ≤ k → ∀ (hk : k ≤ nG), (times dt')[k + 1] = (times dt)[k] := by
    intro k hpk
    induction k, hpk using Nat.le_induction with
    | base =>
      intro hk
      rw [times_succ dt' p (by omega), hA p (Nat.le_refl _), hz.zero, add_zero]
    | succ k hpk ih =>
      intro hk
      rw [times_succ dt' (k + 1) (by omega), ih (by omega), times_succ dt k (by omega),
        (hz.after k (by omega) (by omega)).2]
  exact ⟨hA, fun k hk hpk => hD k hpk hk, hD nG hp (Nat.le_refl _)⟩

/-- `np.delete(c_coeffs, g₀, axis=1)`: column `g₀` of the amplitude matrix removed -/
def deleteCol {nC nG : Nat} (c : Mat ℝ nC (nG + 1)) (g₀ : Nat) : Mat ℝ nC nG :=
  Mat.ofFn fun i l => if l.1 < g₀ then c[i][l.1] else c[i][l.1 + 1]

/-- the durations returned by `_join_equal_segments` for one joined pair `(g₀, g₀ + 1)`:
`dt = np.delete(pulse.dt, g₀); dt[g₀] += pulse.dt[g₀]`, i.e. entry `g₀` is
`pulse.dt[g₀ + 1] + pulse.dt[g₀]` -/
def mergeDt {nG : Nat} (dt : Vec ℝ (nG + 1)) (g₀ : Nat) : Vec ℝ nG :=
  Vector.ofFn fun l =>
    if l.1 < g₀ then dt[l.1] else if l.1 = g₀ then dt[l.1 + 1] + dt[l.1] else dt[l.1 + 1]

/-- **Merging two equal neighbouring segments** as `_join_equal_segments` does for one index
`g₀` with equal amplitude columns `g₀`, `g₀ + 1` (the control part of its criterion): the merged
pulse has the amplitude matrix `np.delete(c_coeffs, g₀, axis=1)` and the durations `mergeDt`.  Both
pulses are diagonalized independently (own `eigh` outputs satisfying the contract for the model
`hamiltonian`).  Then the merged pulse's cumulative propagators are those of the original pulse at
the remaining boundaries (`Q_k = Q'_k` for `k ≤ g₀`, `Q_k = Q'_{k+1}` for `k > g₀`) and the total
propagator is the same.  (The converse reading of `propagators_split_segment`; several joined
indices are iterated single merges.) -/
theorem propagators_merge_equal {nC nG d : Nat} (cOpers : Ten3 ℂ nC d d)
    (cCoeffs' : Mat ℝ nC (nG + 1)) (dt' : Vec ℝ (nG + 1)) (g₀ : Nat) (hg₀ : g₀ < nG)
    (heq : ∀ i : Fin nC, cCoeffs'[i][g₀ + 1] = cCoeffs'[i][g₀])
    (eigvals' : Mat ℝ (nG + 1) d) (eigvecs' : Vector (Mat ℂ d d) (nG + 1))
    (eigvals : Mat ℝ nG d) (eigvecs : Vector (Mat ℂ d d) nG)
    (hE' : ∀ g : Fin (nG + 1), IsEigh (Mat.toMatrix (hamiltonian cOpers cCoeffs')[g.1])
      (fun j => eigvals'[g.1][j]) eigvecs'[g.1].toMatrix)
    (hE : ∀ g : Fin nG, IsEigh (Mat.toMatrix (hamiltonian cOpers (deleteCol cCoeffs' g₀))[g.1])
      (fun j => eigvals[g.1][j]) eigvecs[g.1].toMatrix) :
    (∀ (k : Nat) (hk : k ≤ g₀),
      (propagators eigvals eigvecs (mergeDt dt' g₀))[k] = (propagators eigvals' eigvecs' dt')[k]) ∧
    (∀ (k : Nat) (hk : k ≤ nG), g₀ < k →
      (propagators eigvals eigvecs (mergeDt dt' g₀))[k] = (propagators eigvals' eigvecs' dt')[k + 1]) ∧
    totalPropagator eigvals eigvecs (mergeDt dt' g₀) = totalPropagator eigvals' eigvecs' dt' := by
  have hcol : ∀ (l : Nat) (hl : l < nG) (m : Nat) (hm : m < nG + 1),
      (∀ i : Fin nC, (deleteCol cCoeffs' g₀)[i][l] = cCoeffs'[i][m]) →
      Mat.toMatrix (hamiltonian cOpers cCoeffs')[m]
        = Mat.toMatrix (hamiltonian cOpers (deleteCol cCoeffs' g₀))[l] := by
    intro l hl m hm h
    rw [hamiltonian_entries, hamiltonian_entries]
    exact Finset.sum_congr rfl fun i _ => by rw [h i]
  have hdel : ∀ (i : Fin nC) (l : Nat) (hl : l < nG),
      (deleteCol cCoeffs' g₀)[i][l] = if l < g₀ then cCoeffs'[i][l] else cCoeffs'[i][l + 1] := by
    intro i l hl
    simp only [deleteCol, Fin.getElem_fin, Mat.ofFn_getElem]
  have hmdt : ∀ (l : Nat) (hl : l < nG), (mergeDt dt' g₀)[l]
      = if l < g₀ then dt'[l] else if l = g₀ then dt'[l + 1] + dt'[l] else dt'[l + 1] := by
    intro l hl
    simp only [mergeDt, Vector.getElem_ofFn]
  have hs : IsSplit (fun g : Fin nG => Mat.toMatrix (hamiltonian cOpers (deleteCol cCoeffs' g₀))[g.1])
      (mergeDt dt' g₀) (fun g : Fin (nG + 1) => Mat.toMatrix (hamiltonian cOpers cCoeffs')[g.1]) dt'
      g₀ hg₀ dt'[g₀] dt'[g₀ + 1] := by
    refine ⟨fun l hl hlg => ⟨?_, ?_⟩, ⟨?_, rfl⟩, ⟨?_, rfl⟩, fun l hl hlg => ⟨?_, ?_⟩, ?_⟩
    · exact hcol l hl l (by omega) fun i => by rw [hdel i l hl, if_pos hlg]
    · rw [hmdt l hl, if_pos hlg]
    · exact hcol g₀ hg₀ g₀ (by omega) fun i => by
        rw [hdel i g₀ hg₀, if_neg (Nat.lt_irrefl _), heq i]
    · exact hcol g₀ hg₀ (g₀ + 1) (by omega) fun i => by
        rw [hdel i g₀ hg₀, if_neg (Nat.lt_irrefl _)]
    · exact hcol l hl (l + 1) (by omega) fun i => by
        rw [hdel i l hl, if_neg (by omega)]
    · rw [hmdt l hl, if_neg (by omega), if_neg (by omega)]
    · rw [hmdt g₀ hg₀, if_neg (Nat.lt_irrefl _), if_pos rfl, add_comm]
  obtain ⟨h1, _, h3, h4⟩ := propagators_split_segment eigvals eigvecs (mergeDt dt' g₀)
    eigvals' eigvecs' dt' _ _ hE hE' g₀ hg₀ _ _ hs
  exact ⟨fun k hk => (h1 k hk).symm, fun k hk hgk => (h3 k hk hgk).symm, h4.symm⟩

/-- a concrete instance, `d = 2`: `σ_z` with amplitudes `(2, 2, 5)` and durations `(1, 3, 4)`; the
first two segments are equal and are joined (the second one had been diagonalized with the other
eigenvalue order and `V = σ_x`) -/
example :
    totalPropagator (#v[#v[2, -2], #v[5, -5]] : Mat ℝ 2 2)
        (#v[#v[#v[1, 0], #v[0, 1]], #v[#v[1, 0], #v[0, 1]]] : Vector (Mat ℂ 2 2) 2)
        (mergeDt (#v[1, 3, 4] : Vec ℝ 3) 0)
      = totalPropagator (#v[#v[2, -2], #v[-2, 2], #v[5, -5]] : Mat ℝ 3 2)
        (#v[#v[#v[1, 0], #v[0, 1]], #v[#v[0, 1], #v[1, 0]], #v[#v[1, 0], #v[0, 1]]] :
          Vector (Mat ℂ 2 2) 3) (#v[1, 3, 4] : Vec ℝ 3) := by
  have hd : deleteCol (#v[#v[2, 2, 5]] : Mat ℝ 1 3) 0 = (#v[#v[2, 5]] : Mat ℝ 1 2) := by
    apply Vector.ext; intro i hi; apply Vector.ext; intro j hj
    interval_cases i; interval_cases j <;> simp [deleteCol, Mat.ofFn]
  refine (propagators_merge_equal (#v[#v[#v[1, 0], #v[0, -1]]] : Ten3 ℂ 1 2 2)
    (#v[#v[2, 2, 5]] : Mat ℝ 1 3) _ 0 (by norm_num) ?_ _ _ _ _ ?_ ?_).2.2
  · intro i; fin_cases i; simp
  · intro g
    fin_cases g <;> refine ⟨?_, ?_, ?_⟩ <;> ext i j <;> fin_cases i <;> fin_cases j <;>
      simp [hamiltonian_entries, Matrix.mul_apply, Fin.sum_univ_two, Matrix.diagonal_apply,
        Mat.toMatrix, Matrix.conjTranspose_apply]
  · rw [hd]
    intro g
    fin_cases g <;> refine ⟨?_, ?_, ?_⟩ <;> ext i j <;> fin_cases i <;> fin_cases j <;>
      simp [hamiltonian_entries, Matrix.mul_apply, Fin.sum_univ_two,
        Matrix.diagonal_apply, Mat.toMatrix, Matrix.conjTranspose_apply]

/-- merged durations of the example: `[1 + 3, 4]` -/
example : mergeDt (#v[1, 3, 4] : Vec ℝ 3) 0 = #v[3 + 1, 4] := by
  apply Vector.ext
  intro i hi
  interval_cases i <;> simp [mergeDt]

/-! ### 5. Arbitrary refinements of the time grid -/

/-- **Refinement of the segmentation (general form).**  Coarse pulse `(H, dt)` with `n_dt`
segments, fine pulse `(H', dt')` with `n_dt'` segments, each diagonalized on its own (contract
`IsEigh` for each).  `b k` is the index of the fine boundary that is the `k`-th coarse boundary:
`b 0 = 0`, `b` weakly increasing, `t'[b k] = t[k]`; every fine segment `l` between the boundaries
`b g` and `b (g+1)` has the Hamiltonian of the coarse segment `g` **or duration zero** (with any
Hamiltonian).  Then `Q'_{b k} = Q_k` for every coarse boundary `k`.  Covers splitting segments into
any number of pieces, inserting any number of zero-duration segments anywhere, and (read from right
to left) merging; durations may have any sign. -/
theorem propagators_refine {nG nG' d : Nat}
    (eigvals : Mat ℝ nG d) (eigvecs : Vector (Mat ℂ d d) nG) (dt : Vec ℝ nG)
    (eigvals' : Mat ℝ nG' d) (eigvecs' : Vector (Mat ℂ d d) nG') (dt' : Vec ℝ nG')
    (H : Fin nG → Matrix (Fin d) (Fin d) ℂ) (H' : Fin nG' → Matrix (Fin d) (Fin d) ℂ)
    (hE : ∀ g : Fin nG, IsEigh (H g) (fun j => eigvals[g.1][j]) eigvecs[g.1].toMatrix)
    (hE' : ∀ g : Fin nG', IsEigh (H' g) (fun j => eigvals'[g.1][j]) eigvecs'[g.1].toMatrix)
    (b : Nat → Nat) (hb0 : b 0 = 0) (hbmono : ∀ k, k < nG → b k ≤ b (k + 1))
    (hbN : ∀ k, k ≤ nG → b k ≤ nG')
    (hseg : ∀ (g : Nat) (hg : g < nG) (l : Nat) (hl : l < nG'), b g ≤ l → l < b (g + 1) →
      H' ⟨l, hl⟩ = H ⟨g, hg⟩ ∨ dt'[l] = 0)
    (htimes : ∀ (k : Nat) (hk : k ≤ nG),
      (times dt')[b k]'(Nat.lt_succ_of_le (hbN k hk)) = (times dt)[k])
    (k : Nat) (hk : k ≤ nG) :
    (propagators eigvals' eigvecs' dt')[b k]'(Nat.lt_succ_of_le (hbN k hk))
      = (propagators eigvals eigvecs dt)[k] := by
  apply Mat.ext'
  induction k with
  | zero =>
    have h : ∀ (m : Nat) (hm : m < nG' + 1), m = 0 →
        (propagators eigvals' eigvecs' dt')[m].toMatrix = 1 := by
      intro m hm h0; subst h0; exact propagators_zero _ _ _
    rw [h (b 0) _ hb0, propagators_zero]
  | succ k ih =>
    have hk' : k < nG := hk
    rw [propagators_run eigvals' eigvecs' dt' H' hE' (H ⟨k, hk'⟩) (b k) (b (k + 1)) (hbmono k hk')
        (hbN (k + 1) hk) (fun m hm h1 h2 => hseg k hk' m hm h1 h2),
      htimes (k + 1) hk, htimes k (Nat.le_of_succ_le hk), ih (Nat.le_of_succ_le hk),
      times_succ dt k hk', add_sub_cancel_left,
      propagators_step_exp eigvals eigvecs dt (H ⟨k, hk'⟩) k hk' (hE ⟨k, hk'⟩)]

/-- **Inside a refined segment**: under the hypotheses of `propagators_refine`, at every fine
boundary `l` between the coarse boundaries `b g` and `b (g+1)` the fine pulse's cumulative
propagator is `exp(-i (t'_l - t_g) H_g) Q_g`. -/
theorem propagators_refine_inner {nG nG' d : Nat}
    (eigvals : Mat ℝ nG d) (eigvecs : Vector (Mat ℂ d d) nG) (dt : Vec ℝ nG)
    (eigvals' : Mat ℝ nG' d) (eigvecs' : Vector (Mat ℂ d d) nG') (dt' : Vec ℝ nG')
    (H : Fin nG → Matrix (Fin d) (Fin d) ℂ) (H' : Fin nG' → Matrix (Fin d) (Fin d) ℂ)
    (hE : ∀ g : Fin nG, IsEigh (H g) (fun j => eigvals[g.1][j]) eigvecs[g.1].toMatrix)
    (hE' : ∀ g : Fin nG', IsEigh (H' g) (fun j => eigvals'[g.1][j]) eigvecs'[g.1].toMatrix)
    (b : Nat → Nat) (hb0 : b 0 = 0) (hbmono : ∀ k, k < nG → b k ≤ b (k + 1))
    (hbN : ∀ k, k ≤ nG → b k ≤ nG')
    (hseg : ∀ (g : Nat) (hg : g < nG) (l : Nat) (hl : l < nG'), b g ≤ l → l < b (g + 1) →
      H' ⟨l, hl⟩ = H ⟨g, hg⟩ ∨ dt'[l] = 0)
    (htimes : ∀ (k : Nat) (hk : k ≤ nG),
      (times dt')[b k]'(Nat.lt_succ_of_le (hbN k hk)) = (times dt)[k])
    (g : Nat) (hg : g < nG) (l : Nat) (hl1 : b g ≤ l) (hl2 : l ≤ b (g + 1)) :
    ((propagators eigvals' eigvecs' dt')[l]'(Nat.lt_succ_of_le
        (Nat.le_trans hl2 (hbN (g + 1) hg)))).toMatrix
      = NormedSpace.exp ((-(I * (((times dt')[l]'(Nat.lt_succ_of_le
            (Nat.le_trans hl2 (hbN (g + 1) hg))) - (times dt)[g] : ℝ) : ℂ))) • H ⟨g, hg⟩)
        * (propagators eigvals eigvecs dt)[g].toMatrix := by
  have hl : l ≤ nG' := Nat.le_trans hl2 (hbN (g + 1) hg)
  rw [propagators_run eigvals' eigvecs' dt' H' hE' (H ⟨g, hg⟩) (b g) l hl1 hl
      (fun m hm h1 h2 => hseg g hg m hm h1 (Nat.lt_of_lt_of_le h2 hl2)),
    htimes g (Nat.le_of_lt hg),
    propagators_refine eigvals eigvecs dt eigvals' eigvecs' dt' H H' hE hE' b hb0 hbmono hbN hseg
      htimes g (Nat.le_of_lt hg)]
  rfl

/-- … hence the total propagator of the refined pulse is that of the coarse pulse when the last
boundaries correspond (`b n_dt = n_dt'`). -/
theorem total_propagator_refine {nG nG' d : Nat}
    (eigvals : Mat ℝ nG d) (eigvecs : Vector (Mat ℂ d d) nG) (dt : Vec ℝ nG)
    (eigvals' : Mat ℝ nG' d) (eigvecs' : Vector (Mat ℂ d d) nG') (dt' : Vec ℝ nG')
    (H : Fin nG → Matrix (Fin d) (Fin d) ℂ) (H' : Fin nG' → Matrix (Fin d) (Fin d) ℂ)
    (hE : ∀ g : Fin nG, IsEigh (H g) (fun j => eigvals[g.1][j]) eigvecs[g.1].toMatrix)
    (hE' : ∀ g : Fin nG', IsEigh (H' g) (fun j => eigvals'[g.1][j]) eigvecs'[g.1].toMatrix)
    (b : Nat → Nat) (hb0 : b 0 = 0) (hbmono : ∀ k, k < nG → b k ≤ b (k + 1))
    (hbN : ∀ k, k ≤ nG → b k ≤ nG') (hblast : b nG = nG')
    (hseg : ∀ (g : Nat) (hg : g < nG) (l : Nat) (hl : l < nG'), b g ≤ l → l < b (g + 1) →
      H' ⟨l, hl⟩ = H ⟨g, hg⟩ ∨ dt'[l] = 0)
    (htimes : ∀ (k : Nat) (hk : k ≤ nG),
      (times dt')[b k]'(Nat.lt_succ_of_le (hbN k hk)) = (times dt)[k]) :
    totalPropagator eigvals' eigvecs' dt' = totalPropagator eigvals eigvecs dt := by
  have h := propagators_refine eigvals eigvecs dt eigvals' eigvecs' dt' H H' hE hE' b hb0 hbmono
    hbN hseg htimes nG (Nat.le_refl _)
  have hidx : ∀ (m : Nat) (hm : m < nG' + 1), m = nG' →
      (propagators eigvals' eigvecs' dt')[m] = totalPropagator eigvals' eigvecs' dt' := by
    intro m hm h0; subst h0; rfl
  rw [← hidx (b nG) (Nat.lt_succ_of_le (hbN nG (Nat.le_refl _))) hblast, h]
  rfl

/-! ### 6. Change of the unit of time -/

/-- **The `eigh` contract in another unit of time**: if `(eigvals[g], eigvecs[g])` satisfies the
contract for `H`, the eigenvalues divided by `lam` with the same eigenvectors satisfy it for
`H / lam`. -/
theorem eigh_contract_time_unit {nG d : Nat} (eigvals : Mat ℝ nG d)
    (eigvecs : Vector (Mat ℂ d d) nG) (H : Matrix (Fin d) (Fin d) ℂ) (lam : ℝ) (g : Nat) (hg : g < nG)
    (hE : IsEigh H (fun j => eigvals[g][j]) eigvecs[g].toMatrix) :
    IsEigh (((1 / lam : ℝ) : ℂ) • H)
      (fun j => (Vector.map (Vector.map (· / lam)) eigvals)[g][j]) eigvecs[g].toMatrix := by
  have h := isEigh_time_unit hE lam
  simpa only [Fin.getElem_fin, Vector.getElem_map] using h

/-- **The Hamiltonian in another unit of time**: amplitudes divided by `lam` give `H_g / lam`. -/
theorem hamiltonian_time_unit {nC nG d : Nat} (cOpers : Ten3 ℂ nC d d) (cCoeffs : Mat ℝ nC nG)
    (lam : ℝ) (g : Nat) (hg : g < nG) :
    Mat.toMatrix (hamiltonian cOpers (Vector.map (Vector.map (· / lam)) cCoeffs))[g]
      = ((1 / lam : ℝ) : ℂ) • Mat.toMatrix (hamiltonian cOpers cCoeffs)[g] := by
  refine hamiltonian_segment_reindex cOpers cCoeffs cOpers _ id Function.injective_id
    (fun _ => rfl) lam g hg g hg (fun i => ?_) (fun i' hi' => absurd rfl (hi' i'))
  simp only [id, Fin.getElem_fin, Vector.getElem_map]

/-- **The cumulative propagators do not see the unit of time** (pure algebra, no contract needed):
durations multiplied by `lam ≠ 0`, eigenvalues divided by `lam`, same eigenvectors — every
cumulative propagator returned by the model is the same array. -/
theorem propagators_time_unit {nG d : Nat} (eigvals : Mat ℝ nG d) (eigvecs : Vector (Mat ℂ d d) nG)
    (dt : Vec ℝ nG) (lam : ℝ) (hl : lam ≠ 0) (k : Nat) (hk : k ≤ nG) :
    (propagators (Vector.map (Vector.map (· / lam)) eigvals) eigvecs (Vector.map (lam * ·) dt))[k]
      = (propagators eigvals eigvecs dt)[k] := by
  have hlc : (lam : ℂ) ≠ 0 := by exact_mod_cast hl
  apply Mat.ext'
  refine propagators_congr_prefix eigvals eigvecs dt _ eigvecs _ nG (Nat.le_refl _) (Nat.le_refl _)
    (fun j hj => ?_) k hk
  unfold stepMat segProp
  congr 3
  funext m
  congr 2
  simp only [Fin.getElem_fin, Vector.getElem_map]
  push_cast
  field_simp

/-- **… also when the rescaled Hamiltonians are diagonalized afresh**: durations multiplied by
`lam ≠ 0`, and ANY eigen-data satisfying the contract for the Hamiltonians `H_g / lam`. -/
theorem propagators_time_unit_eigh {nG d : Nat}
    (eigvals eigvals' : Mat ℝ nG d) (eigvecs eigvecs' : Vector (Mat ℂ d d) nG) (dt : Vec ℝ nG)
    (H : Fin nG → Matrix (Fin d) (Fin d) ℂ) (lam : ℝ) (hl : lam ≠ 0)
    (hE : ∀ g : Fin nG, IsEigh (H g) (fun j => eigvals[g.1][j]) eigvecs[g.1].toMatrix)
    (hE' : ∀ g : Fin nG, IsEigh (((1 / lam : ℝ) : ℂ) • H g) (fun j => eigvals'[g.1][j])
      eigvecs'[g.1].toMatrix)
    (k : Nat) (hk : k ≤ nG) :
    (propagators eigvals' eigvecs' (Vector.map (lam * ·) dt))[k]
      = (propagators eigvals eigvecs dt)[k] := by
  apply Mat.ext'
  refine propagators_congr_prefix eigvals eigvecs dt eigvals' eigvecs' _ nG (Nat.le_refl _)
    (Nat.le_refl _) (fun j hj => ?_) k hk
  rw [stepMat_eq_expSeg _ _ _ _ j hj (hE' ⟨j, hj⟩), stepMat_eq_expSeg _ _ _ _ j hj (hE ⟨j, hj⟩),
    Vector.getElem_map, expSeg_time_unit _ _ _ hl]

/-- `PulseSequence.t` in another unit of time: `t' = lam · t` -/
theorem times_time_unit {nG : Nat} (dt : Vec ℝ nG) (lam : ℝ) (g : Nat) (hg : g ≤ nG) :
    (times (Vector.map (lam * ·) dt))[g] = lam * (times dt)[g] :=
  times_map_mul dt lam g hg

/-- `PulseSequence.tau` in another unit of time: `tau' = lam · tau` -/
theorem tau_time_unit {nG : Nat} (dt : Vec ℝ nG) (lam : ℝ) :
    tau (Vector.map (lam * ·) dt) = lam * tau dt :=
  times_map_mul dt lam nG (Nat.le_refl _)

/-- total propagator in another unit of time -/
theorem total_propagator_time_unit {nG d : Nat} (eigvals : Mat ℝ nG d)
    (eigvecs : Vector (Mat ℂ d d) nG) (dt : Vec ℝ nG) (lam : ℝ) (hl : lam ≠ 0) :
    totalPropagator (Vector.map (Vector.map (· / lam)) eigvals) eigvecs (Vector.map (lam * ·) dt)
      = totalPropagator eigvals eigvecs dt :=
  propagators_time_unit eigvals eigvecs dt lam hl nG (Nat.le_refl _)

/-! ### 7. All invariances together -/

/-- **The total propagator is invariant under all re-descriptions of the pulse at once.**
Pulse 1: operators `cOpers`, amplitudes `cCoeffs`, durations `dt`; pulse 2: `cOpers'`, `cCoeffs'`,
`dt'`.  Each is passed through the model of `PulseSequence.diagonalize` with its own `eigh` outputs
(contract `IsEigh` for the model `hamiltonian` of that pulse; the eigen-data are otherwise
unrelated).  Assume

* operators: pulse 1's operators occur in pulse 2's list along an injective `ι` (permutation /
  extension); operators of pulse 2 outside the image have amplitude zero on every segment;
* time unit: `lam ≠ 0`; amplitudes of pulse 2 are those of pulse 1 divided by `lam`, times are
  multiplied by `lam`;
* segmentation: `b` maps the boundaries of pulse 1 to boundaries of pulse 2 (`b 0 = 0`,
  `b n_dt = n_dt'`, weakly increasing, `t'[b k] = lam · t[k]`); every segment `l` of pulse 2 between
  `b g` and `b (g+1)` has the amplitudes of segment `g` (divided by `lam`) **or** duration zero (with
  arbitrary amplitudes).

Then both `total_propagator`s are the same array.  (With `b = id`, `lam = 1` this is invariance
under operator order; with `ι = id`, `lam = 1` under re-segmentation; with `ι = id`, `b = id` under
the change of the time unit.) -/
theorem total_propagator_invariant {nC nC' nG nG' d : Nat}
    (cOpers : Ten3 ℂ nC d d) (cCoeffs : Mat ℝ nC nG) (dt : Vec ℝ nG)
    (cOpers' : Ten3 ℂ nC' d d) (cCoeffs' : Mat ℝ nC' nG') (dt' : Vec ℝ nG')
    (eigvals : Mat ℝ nG d) (eigvecs : Vector (Mat ℂ d d) nG)
    (eigvals' : Mat ℝ nG' d) (eigvecs' : Vector (Mat ℂ d d) nG')
    (hE : ∀ g : Fin nG, IsEigh (Mat.toMatrix (hamiltonian cOpers cCoeffs)[g.1])
      (fun j => eigvals[g.1][j]) eigvecs[g.1].toMatrix)
    (hE' : ∀ g : Fin nG', IsEigh (Mat.toMatrix (hamiltonian cOpers' cCoeffs')[g.1])
      (fun j => eigvals'[g.1][j]) eigvecs'[g.1].toMatrix)
    (lam : ℝ) (hlam : lam ≠ 0)
    (ι : Fin nC → Fin nC') (hι : Function.Injective ι) (hop : ∀ i : Fin nC, cOpers'[ι i] = cOpers[i])
    (h0 : ∀ i' : Fin nC', (∀ i, ι i ≠ i') → ∀ (l : Nat) (hl : l < nG'), cCoeffs'[i'][l] = 0)
    (b : Nat → Nat) (hb0 : b 0 = 0) (hbmono : ∀ k, k < nG → b k ≤ b (k + 1))
    (hbN : ∀ k, k ≤ nG → b k ≤ nG') (hblast : b nG = nG')
    (hseg : ∀ (g : Nat) (hg : g < nG) (l : Nat) (hl : l < nG'), b g ≤ l → l < b (g + 1) →
      (∀ i : Fin nC, cCoeffs'[ι i][l] = cCoeffs[i][g] / lam) ∨ dt'[l] = 0)
    (htimes : ∀ (k : Nat) (hk : k ≤ nG),
      (times dt')[b k]'(Nat.lt_succ_of_le (hbN k hk)) = lam * (times dt)[k]) :
    totalPropagator eigvals' eigvecs' dt' = totalPropagator eigvals eigvecs dt := by
  rw [← total_propagator_time_unit eigvals eigvecs dt lam hlam]
  refine total_propagator_refine _ eigvecs _ eigvals' eigvecs' dt'
    (fun g => ((1 / lam : ℝ) : ℂ) • Mat.toMatrix (hamiltonian cOpers cCoeffs)[g.1])
    (fun g => Mat.toMatrix (hamiltonian cOpers' cCoeffs')[g.1])
    (fun g => eigh_contract_time_unit eigvals eigvecs _ lam g.1 g.2 (hE g)) hE' b hb0 hbmono hbN
    hblast (fun g hg l hl h1 h2 => ?_) (fun k hk => ?_)
  · rcases hseg g hg l hl h1 h2 with h | h
    · left
      exact hamiltonian_segment_reindex cOpers cCoeffs cOpers' cCoeffs' ι hι hop lam g hg l hl h
        (fun i' hi' => h0 i' hi' l hl)
    · right; exact h
  · rw [htimes k hk, times_map_mul dt lam k hk]

/-- the hypotheses of `total_propagator_invariant` are satisfiable by a non-trivial `d = 2` instance
using everything at once: pulse 1 lists `(σ_x, σ_z)` with amplitudes `(0, 2)` on one segment of
duration `3`; pulse 2 lists `(σ_z, σ_x)` (swapped), uses a time unit half as large (`lam = 2`:
amplitude `1`, total duration `6`), cuts the segment into durations `2` and `4`, inserts between them
a zero-duration segment with another Hamiltonian (`7σ_z`), and two of its three `eigh` outputs use
the other eigenvalue order with `V = σ_x`. -/
example :
    totalPropagator (#v[#v[1, -1], #v[-7, 7], #v[-1, 1]] : Mat ℝ 3 2)
        (#v[#v[#v[1, 0], #v[0, 1]], #v[#v[0, 1], #v[1, 0]], #v[#v[0, 1], #v[1, 0]]] :
          Vector (Mat ℂ 2 2) 3)
        (#v[2, 0, 4] : Vec ℝ 3)
      = totalPropagator (#v[#v[2, -2]] : Mat ℝ 1 2)
        (#v[#v[#v[1, 0], #v[0, 1]]] : Vector (Mat ℂ 2 2) 1) (#v[3] : Vec ℝ 1) := by
  refine total_propagator_invariant
    (#v[#v[#v[0, 1], #v[1, 0]], #v[#v[1, 0], #v[0, -1]]] : Ten3 ℂ 2 2 2)
    (#v[#v[0], #v[2]] : Mat ℝ 2 1) _
    (#v[#v[#v[1, 0], #v[0, -1]], #v[#v[0, 1], #v[1, 0]]] : Ten3 ℂ 2 2 2)
    (#v[#v[1, 7, 1], #v[0, 0, 0]] : Mat ℝ 2 3) _ _ _ _ _ ?_ ?_ 2 (by norm_num)
    (Equiv.swap (0 : Fin 2) 1) (Equiv.injective _) ?_ ?_ (fun k => 3 * k) rfl ?_ ?_ rfl ?_ ?_
  · intro g
    fin_cases g
    refine ⟨?_, ?_, ?_⟩ <;> ext i j <;> fin_cases i <;> fin_cases j <;>
      simp [hamiltonian_entries, Matrix.mul_apply, Fin.sum_univ_two, Matrix.diagonal_apply,
        Mat.toMatrix, Matrix.conjTranspose_apply]
  · intro g
    fin_cases g <;> refine ⟨?_, ?_, ?_⟩ <;> ext i j <;> fin_cases i <;> fin_cases j <;>
      simp [hamiltonian_entries, Matrix.mul_apply, Fin.sum_univ_two, Matrix.diagonal_apply,
        Mat.toMatrix, Matrix.conjTranspose_apply]
  · intro i; fin_cases i <;> simp
  · intro i' hi'
    exact absurd (Equiv.apply_symm_apply (Equiv.swap (0 : Fin 2) 1) i') (hi' _)
  · intro k hk; omega
  · intro k hk; omega
  · intro g hg l hl h1 h2
    obtain rfl : g = 0 := by omega
    interval_cases l
    · left; intro i; fin_cases i <;> simp
    · right; simp
    · left; intro i; fin_cases i <;> simp
  · intro k hk
    interval_cases k
    · simp [times_zero]
    · simp [times, scan]; norm_num

/-! ### 8. Link to the control-matrix theorems of `FFVerif.Props.C13` -/

/-- **The outputs of the model of `diagonalize` / `t` satisfy the hypotheses that
`C13.cm_split_segment` makes about cumulative propagators and segment start times.**  Coarse pulse
with `eigh` outputs satisfying the contract; fine pulse = the coarse one with segment `g₀` cut after
`τ₁` (the second piece listed in order, at position `p = g₀ + 1`), with the eigen-data of `g₀` reused
for both pieces (that is what `IsSegmentCut` requires).  With `props = propagators[:-1]`,
`t = t[:-1]` computed by the model for each pulse separately, `IsSegmentCut` holds; hence
`cm_split_segment`, `cm_split_segment_defect`, `cm_split_segment_error` apply to the model outputs
without any assumption on the propagators. -/
theorem isSegmentCut_of_model {nG d nA : Nat}
    (eigvals : Mat ℝ nG d) (eigvecs : Vector (Mat ℂ d d) nG) (nCoeffs : Mat ℝ nA nG)
    (dt : Vec ℝ nG)
    (eigvals' : Mat ℝ (nG + 1) d) (eigvecs' : Vector (Mat ℂ d d) (nG + 1))
    (nCoeffs' : Mat ℝ nA (nG + 1)) (dt' : Vec ℝ (nG + 1))
    (H : Fin nG → Matrix (Fin d) (Fin d) ℂ)
    (hE : ∀ g : Fin nG, IsEigh (H g) (fun j => eigvals[g.1][j]) eigvecs[g.1].toMatrix)
    (g₀ : Fin nG) (τ₁ τ₂ : ℝ) (hdt : dt[g₀] = τ₁ + τ₂)
    (hev : ∀ i : Fin nG, eigvals'[g₀.succ.succAbove i] = eigvals[i])
    (hvec : ∀ i : Fin nG, eigvecs'[g₀.succ.succAbove i] = eigvecs[i])
    (hco : ∀ (a : Fin nA) (i : Fin nG), nCoeffs'[a][g₀.succ.succAbove i] = nCoeffs[a][i])
    (hdt' : ∀ i : Fin nG, i ≠ g₀ → dt'[g₀.succ.succAbove i] = dt[i])
    (hdt1 : dt'[g₀.succ.succAbove g₀] = τ₁)
    (hev2 : eigvals'[g₀.succ] = eigvals[g₀]) (hvec2 : eigvecs'[g₀.succ] = eigvecs[g₀])
    (hco2 : ∀ a : Fin nA, nCoeffs'[a][g₀.succ] = nCoeffs[a][g₀]) (hdt2 : dt'[g₀.succ] = τ₂) :
    IsSegmentCut eigvals eigvecs
      (Vector.ofFn fun i : Fin nG => (propagators eigvals eigvecs dt)[i.1]) nCoeffs dt
      (Vector.ofFn fun i : Fin nG => (times dt)[i.1])
      eigvals' eigvecs'
      (Vector.ofFn fun i : Fin (nG + 1) => (propagators eigvals' eigvecs' dt')[i.1]) nCoeffs' dt'
      (Vector.ofFn fun i : Fin (nG + 1) => (times dt')[i.1]) g₀ g₀.succ τ₁ τ₂ := by
  have hval : ∀ (l : Nat) (hl : l < nG), l ≤ g₀.1 → (g₀.succ.succAbove ⟨l, hl⟩).1 = l := by
    intro l hl h; rw [succ_succAbove_val]; exact if_pos h
  have hval' : ∀ (l : Nat) (hl : l < nG), g₀.1 < l → (g₀.succ.succAbove ⟨l, hl⟩).1 = l + 1 := by
    intro l hl h; rw [succ_succAbove_val]; exact if_neg (by simpa using h)
  -- the fine pulse's eigen-data in terms of the coarse pulse's
  have hlow : ∀ (l : Nat) (hl : l < nG), l ≤ g₀.1 →
      eigvals'[l] = eigvals[l] ∧ eigvecs'[l] = eigvecs[l] := by
    intro l hl h
    rw [← vec_get_of_val_eq eigvals' _ l (by omega) (hval l hl h),
      ← vec_get_of_val_eq eigvecs' _ l (by omega) (hval l hl h)]
    exact ⟨hev ⟨l, hl⟩, hvec ⟨l, hl⟩⟩
  have hhigh : ∀ (l : Nat) (hl : l < nG), g₀.1 < l →
      eigvals'[l + 1] = eigvals[l] ∧ eigvecs'[l + 1] = eigvecs[l] := by
    intro l hl h
    rw [← vec_get_of_val_eq eigvals' _ (l + 1) (by omega) (hval' l hl h),
      ← vec_get_of_val_eq eigvecs' _ (l + 1) (by omega) (hval' l hl h)]
    exact ⟨hev ⟨l, hl⟩, hvec ⟨l, hl⟩⟩
  have hmid : eigvals'[g₀.1 + 1] = eigvals[g₀.1] ∧ eigvecs'[g₀.1 + 1] = eigvecs[g₀.1] :=
    ⟨hev2, hvec2⟩
  let H' : Fin (nG + 1) → Matrix (Fin d) (Fin d) ℂ := fun l =>
    if h : l.1 ≤ g₀.1 then H ⟨l.1, by omega⟩ else H ⟨l.1 - 1, by omega⟩
  have hE' : ∀ l : Fin (nG + 1),
      IsEigh (H' l) (fun j => eigvals'[l.1][j]) eigvecs'[l.1].toMatrix := by
    intro l
    by_cases h : l.1 ≤ g₀.1
    · have hl : l.1 < nG := by omega
      simp only [H', dif_pos h]
      rw [(hlow l.1 hl h).1, (hlow l.1 hl h).2]
      exact hE ⟨l.1, hl⟩
    · simp only [H', dif_neg h]
      obtain ⟨m, hm⟩ : ∃ m, l.1 = m + 1 := ⟨l.1 - 1, by omega⟩
      have hml : m < nG := by omega
      have key : eigvals'[l.1] = eigvals[m] ∧ eigvecs'[l.1].toMatrix = eigvecs[m].toMatrix := by
        by_cases hmg : m = g₀.1
        · subst hmg
          simp only [hm]
          exact ⟨hmid.1, by rw [hmid.2]⟩
        · simp only [hm]
          have := hhigh m hml (by omega)
          exact ⟨this.1, by rw [this.2]⟩
      rw [key.1, key.2]
      have : (⟨l.1 - 1, by omega⟩ : Fin nG) = ⟨m, hml⟩ := by
        apply Fin.ext; simp only; omega
      rw [this]
      exact hE ⟨m, hml⟩
  have hs : IsSplit H dt H' dt' g₀.1 g₀.2 τ₁ τ₂ := by
    refine ⟨fun l hl hlg => ⟨?_, ?_⟩, ⟨?_, ?_⟩, ⟨?_, ?_⟩, fun l hl hlg => ⟨?_, ?_⟩, hdt⟩
    · simp only [H', dif_pos (Nat.le_of_lt hlg)]
    · rw [← vec_get_of_val_eq dt' _ l (by omega) (hval l hl (Nat.le_of_lt hlg))]
      exact hdt' ⟨l, hl⟩ (fun h => by rw [← h] at hlg; exact Nat.lt_irrefl _ hlg)
    · simp only [H', dif_pos (Nat.le_refl _)]
    · rw [← vec_get_of_val_eq dt' _ g₀.1 (by omega) (hval g₀.1 g₀.2 (Nat.le_refl _))]
      exact hdt1
    · have : ¬ g₀.1 + 1 ≤ g₀.1 := by omega
      simp only [H', dif_neg this, Nat.add_sub_cancel]
    · exact hdt2
    · have : ¬ l + 1 ≤ g₀.1 := by omega
      simp only [H', dif_neg this, Nat.add_sub_cancel]
    · rw [← vec_get_of_val_eq dt' _ (l + 1) (by omega) (hval' l hl hlg)]
      exact hdt' ⟨l, hl⟩ (fun h => by rw [← h] at hlg; exact Nat.lt_irrefl _ hlg)
  obtain ⟨hQ1, hQ2, hQ3, _⟩ := propagators_split_segment eigvals eigvecs dt eigvals' eigvecs' dt'
    H H' hE hE' g₀.1 g₀.2 τ₁ τ₂ hs
  obtain ⟨hT1, hT2, hT3, _⟩ := times_split_segment dt dt' H H' g₀.1 g₀.2 τ₁ τ₂ hs
  refine ⟨hdt, hev, hvec, fun i => ?_, hco, fun i => ?_, hdt', hdt1, hev2, hvec2, ?_, hco2, ?_, hdt2⟩
  · rw [InvAux.vec_ofFn_get, InvAux.vec_ofFn_get]
    by_cases h : i.1 ≤ g₀.1
    · rw [vec_get_congr _ _ i.1 _ (by omega) (hval i.1 i.2 h)]
      exact hQ1 i.1 h
    · rw [vec_get_congr _ _ (i.1 + 1) _ (by omega) (hval' i.1 i.2 (by omega))]
      exact hQ3 i.1 (Nat.le_of_lt i.2) (by omega)
  · rw [InvAux.vec_ofFn_get, InvAux.vec_ofFn_get]
    by_cases h : i.1 ≤ g₀.1
    · rw [vec_get_congr _ _ i.1 _ (by omega) (hval i.1 i.2 h)]
      exact hT1 i.1 h
    · rw [vec_get_congr _ _ (i.1 + 1) _ (by omega) (hval' i.1 i.2 (by omega))]
      exact hT3 i.1 (Nat.le_of_lt i.2) (by omega)
  · rw [InvAux.vec_ofFn_get, InvAux.vec_ofFn_get, Useg_eq_segProp_mul]
    simp only [Fin.val_succ]
    rw [hQ2]
    exact congrArg (· * (propagators eigvals eigvecs dt)[g₀.1].toMatrix)
      (piecewise_is_exp (hE g₀) τ₁).symm
  · rw [InvAux.vec_ofFn_get, InvAux.vec_ofFn_get]
    exact hT2

end FFVerif.C13
