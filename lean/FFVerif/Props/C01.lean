/-
C01 — control matrix and first-order filter functions equal their defining integral.
Property theorems only (helper lemmas live in FFVerif/Lemmas).
-/
import Mathlib.Analysis.SpecialFunctions.Integrals.Basic
import Mathlib.Analysis.Complex.Exponential
import FFVerif.Lemmas.Inst
import FFVerif.Lemmas.Bridge
import FFVerif.Model.Numeric

namespace FFVerif.C01
open FFVerif FFVerif.Model Complex MeasureTheory intervalIntegral

/-- the defining segment integral `∫₀^{dt} e^{i x s} ds` -/
noncomputable def segIntegral (x dt : ℝ) : ℂ := ∫ s in (0:ℝ)..dt, Complex.exp (Complex.I * x * s)

theorem segIntegral_closed (x dt : ℝ) (hx : x ≠ 0) :
    segIntegral x dt = (Complex.exp (Complex.I * (x * dt)) - 1) / (Complex.I * x) := by
  unfold segIntegral
  have hc : (Complex.I * (x:ℂ)) ≠ 0 := mul_ne_zero Complex.I_ne_zero (by exact_mod_cast hx)
  rw [integral_exp_mul_complex hc]
  simp [mul_assoc]

theorem segIntegral_zero (dt : ℝ) : segIntegral 0 dt = dt := by
  unfold segIntegral; simp

/-- **Exact branch.** Where the mask holds, the entry computed by `_first_order_integral`
is the defining integral (every mask kind, every threshold `thr ≥ 0`). -/
theorem firstOrderEntry_exact (kind : MaskKind) (thr x dt : ℝ) (hthr : 0 ≤ thr)
    (hm : firstOrderMask kind thr x dt = true) :
    (firstOrderEntry kind thr x dt : ℂ) = segIntegral x dt := by
  have hx : x ≠ 0 := by
    rintro rfl
    cases kind <;> simp [firstOrderMask] at hm <;> linarith
  unfold firstOrderEntry
  rw [if_pos hm, segIntegral_closed x dt hx]
  simp


/-- **Truncated branch.** For the dimensionless guard `|x·dt| > thr`, where the mask does *not*
hold the value `dt` written by the code differs from the defining integral by at most
`thr · dt` (i.e. relative `thr` of the segment length), for every frequency, detuning and
duration. -/
theorem firstOrderEntry_masked_error (thr x dt : ℝ) (hthr1 : thr ≤ 1) (hdt : 0 ≤ dt)
    (hm : firstOrderMask .absTimesDtGt thr x dt = false) :
    ‖(firstOrderEntry .absTimesDtGt thr x dt : ℂ) - segIntegral x dt‖ ≤ thr * dt := by
  have hxd : |x * dt| ≤ thr := by
    simpa [firstOrderMask] using hm
  unfold firstOrderEntry
  rw [if_neg (by simp [hm])]
  by_cases hx : x = 0
  · subst hx
    simp [segIntegral_zero]
    exact mul_nonneg (by simpa using hxd) hdt
  · rw [segIntegral_closed x dt hx]
    have hIx : (Complex.I * (x:ℂ)) ≠ 0 := mul_ne_zero Complex.I_ne_zero (by exact_mod_cast hx)
    set z : ℂ := Complex.I * (x * dt) with hz
    have hznorm : ‖z‖ = |x * dt| := by
      rw [hz]; simp
    have key : (CplxOps.ofReal dt : ℂ) - (Complex.exp z - 1) / (Complex.I * x)
        = -(Complex.exp z - 1 - z) / (Complex.I * x) := by
      have hxc : (x:ℂ) ≠ 0 := by exact_mod_cast hx
      simp only [copsOfReal]
      rw [hz]
      field_simp
      ring
    rw [key, norm_div, norm_neg]
    have h1 : ‖Complex.exp z - 1 - z‖ ≤ ‖z‖ ^ 2 :=
      Complex.norm_exp_sub_one_sub_id_le (by rw [hznorm]; linarith)
    have hnx : ‖Complex.I * (x:ℂ)‖ = |x| := by simp
    rw [hnx, div_le_iff₀ (abs_pos.mpr hx)]
    calc ‖Complex.exp z - 1 - z‖ ≤ ‖z‖ ^ 2 := h1
      _ = |x * dt| * (|x| * dt) := by
            rw [hznorm, sq, abs_mul, abs_of_nonneg hdt]
      _ ≤ thr * (|x| * dt) := by
            apply mul_le_mul_of_nonneg_right hxd
            exact mul_nonneg (abs_nonneg _) hdt
      _ = thr * dt * |x| := by ring

/-- **The 1e-6 clause for the code as it is now**: with the guard shape and threshold read from
the source by the translator, *every* entry of `_first_order_integral` (both branches, every
frequency including exact and near resonances, every duration `dt ≥ 0` including zero-length
and very long segments) is within `1e-7·dt` of the defining integral. -/
theorem firstOrderEntry_error_current (x dt : ℝ) (hdt : 0 ≤ dt) :
    ‖(firstOrderEntry Gen.firstOrderMaskKind Gen.firstOrderMaskThr x dt : ℂ) - segIntegral x dt‖
      ≤ 1e-7 * dt := by
  have hk : Gen.firstOrderMaskKind = .absTimesDtGt := by decide
  have ht : (Gen.firstOrderMaskThr : ℝ) = 1e-7 := by
    unfold Gen.firstOrderMaskThr; norm_num
  rw [hk, ht]
  by_cases hm : firstOrderMask .absTimesDtGt (1e-7:ℝ) x dt = true
  · rw [firstOrderEntry_exact _ _ _ _ (by norm_num) hm]
    simp
    positivity
  · exact firstOrderEntry_masked_error _ x dt (by norm_num) hdt (by simpa using hm)

/-- zero-length segments contribute exactly nothing, in both branches and for any amplitudes -/
theorem firstOrderEntry_zero_dt (kind : MaskKind) (thr x : ℝ) :
    (firstOrderEntry kind thr x 0 : ℂ) = 0 := by
  unfold firstOrderEntry
  split <;> simp

/-- `I(-x) = conj I(x)`: the algorithm-level reason for `F(-ω) = conj F(ω)`. -/
theorem firstOrderEntry_neg (kind : MaskKind) (thr x dt : ℝ) :
    (firstOrderEntry kind thr (-x) dt : ℂ) = starRingEnd ℂ (firstOrderEntry kind thr x dt) := by
  have hmask : firstOrderMask kind thr (-x) dt = firstOrderMask kind thr x dt := by
    cases kind <;> simp [firstOrderMask]
  unfold firstOrderEntry
  rw [hmask]
  split
  · simp only [copsExpI, copsI, copsOfReal, map_div₀, map_sub, map_one, map_mul, Complex.conj_I,
      Complex.conj_ofReal, ← Complex.exp_conj]
    push_cast
    congr 1
    · congr 2; ring
    · ring
  · simp


/-! ### Filter functions from the control matrix (generated contractions) -/

/-- operand wiring of the `np.einsum(subscripts, …)` call of `calculate_filter_function`, as read
from the source: first operand conjugated, second not. -/
theorem ff_call_wiring :
    Gen.numeric_calculate_filter_function_call0_args = ["control_matrix.conj()", "control_matrix"] ∧
    Gen.numeric_calculate_filter_function_0_subscripts = "ako,bko->abo" ∧
    Gen.numeric_calculate_filter_function_1_subscripts = "ako,blo->abklo" := by decide

/-- generalized filter function `F_{ab,kl}(ω) = conj(B_ak(ω)) · B_bl(ω)` -/
theorem ff_generalized_def {nA nK nO : Nat} (B : Ten3 ℂ nA nK nO) (a b : Fin nA) (k l : Fin nK)
    (o : Fin nO) :
    (filterFunctionGen B)[a][b][k][l][o] = starRingEnd ℂ B[a][k][o] * B[b][l][o] := by
  simp only [filterFunctionGen, Gen.numeric_calculate_filter_function_1, Fin.getElem_fin,
    Vector.getElem_ofFn, Vector.getElem_map, copsConj]

/-- fidelity filter function `F_ab(ω) = Σ_k conj(B_ak(ω)) · B_bk(ω)` -/
theorem ff_fidelity_def {nA nK nO : Nat} (B : Ten3 ℂ nA nK nO) (a b : Fin nA) (o : Fin nO) :
    (filterFunctionFid B)[a][b][o] = ∑ k : Fin nK, starRingEnd ℂ B[a][k][o] * B[b][k][o] := by
  simp only [filterFunctionFid, Gen.numeric_calculate_filter_function_0, Fin.getElem_fin,
    Vector.getElem_ofFn, Vector.getElem_map, copsConj, fsum_eq_sum]

/-- … which is the trace of the generalized one over the basis indices -/
theorem ff_fidelity_is_trace {nA nK nO : Nat} (B : Ten3 ℂ nA nK nO) (a b : Fin nA) (o : Fin nO) :
    (filterFunctionFid B)[a][b][o] = ∑ k : Fin nK, (filterFunctionGen B)[a][b][k][k][o] := by
  rw [ff_fidelity_def]
  exact Finset.sum_congr rfl fun k _ => (ff_generalized_def B a b k k o).symm

/-- Hermitian in the noise indices -/
theorem ff_hermitian {nA nK nO : Nat} (B : Ten3 ℂ nA nK nO) (a b : Fin nA) (o : Fin nO) :
    (filterFunctionFid B)[a][b][o] = starRingEnd ℂ (filterFunctionFid B)[b][a][o] := by
  rw [ff_fidelity_def, ff_fidelity_def, map_sum]
  refine Finset.sum_congr rfl fun k _ => ?_
  rw [map_mul, Complex.conj_conj, mul_comm]

theorem ff_gen_hermitian {nA nK nO : Nat} (B : Ten3 ℂ nA nK nO) (a b : Fin nA) (k l : Fin nK)
    (o : Fin nO) :
    (filterFunctionGen B)[a][b][k][l][o] = starRingEnd ℂ (filterFunctionGen B)[b][a][l][k][o] := by
  rw [ff_generalized_def, ff_generalized_def, map_mul, Complex.conj_conj, mul_comm]

/-- Positive semidefinite in the noise indices: the quadratic form is a sum of squared moduli. -/
theorem ff_posSemidef {nA nK nO : Nat} (B : Ten3 ℂ nA nK nO) (c : Fin nA → ℂ) (o : Fin nO) :
    ∑ a, ∑ b, starRingEnd ℂ (c a) * (filterFunctionFid B)[a][b][o] * c b
      = ((∑ k : Fin nK, ‖∑ a, c a * B[a][k][o]‖ ^ 2 : ℝ) : ℂ) := by
  simp only [ff_fidelity_def]
  push_cast
  have h : ∀ k : Fin nK, ((‖∑ a, c a * B[a][k][o]‖ : ℂ)) ^ 2
      = ∑ a, ∑ b, starRingEnd ℂ (c a) * (starRingEnd ℂ B[a][k][o] * B[b][k][o]) * c b := by
    intro k
    rw [← Complex.conj_mul', map_sum, Finset.sum_mul_sum]
    refine Finset.sum_congr rfl fun a _ => Finset.sum_congr rfl fun b _ => ?_
    rw [map_mul]; ring
  simp only [h]
  let f : Fin nK → Fin nA → Fin nA → ℂ := fun k a b =>
    starRingEnd ℂ (c a) * (starRingEnd ℂ B[a][k][o] * B[b][k][o]) * c b
  have hswap : (∑ k, ∑ a, ∑ b, f k a b) = ∑ a, ∑ b, ∑ k, f k a b := by
    rw [Finset.sum_comm]
    exact Finset.sum_congr rfl fun a _ => Finset.sum_comm
  refine Eq.trans ?_ hswap.symm
  refine Finset.sum_congr rfl fun a _ => Finset.sum_congr rfl fun b _ => ?_
  rw [Finset.mul_sum, Finset.sum_mul]

/-- diagonal filter functions are real and non-negative -/
theorem ff_diag_nonneg {nA nK nO : Nat} (B : Ten3 ℂ nA nK nO) (a : Fin nA) (o : Fin nO) :
    (filterFunctionFid B)[a][a][o] = ((∑ k : Fin nK, ‖B[a][k][o]‖ ^ 2 : ℝ) : ℂ) := by
  rw [ff_fidelity_def]
  push_cast
  refine Finset.sum_congr rfl fun k _ => ?_
  rw [← Complex.conj_mul', mul_comm]

end FFVerif.C01
