/-
C05 — extension of pulses to a larger register (`pulse_sequence.extend`) equals the tensor-product
pulse computed afresh: the algebraic core, for two tensor factors ("pulse 1 on system 1, pulse 2 /
identity on system 2"; the `n`-fold case follows by associativity of the Kronecker product).

Objects: Mathlib matrices over product index types `ι × κ` (Kronecker product `⊗ₖ`) and their
row-major flattening `KronAux.kronFin A B = util.tensor(A, B)` on `Fin (d₁ * d₂)`
(`finProdFinEquiv`, `(i, j) ↦ i * d₂ + j`); `C02.IsEigh`, `C02.segProp`, `Model.propagators`,
`C01.segIntegrand`, `Model.controlMatrixFromScratch`, `Model.filterFunctionFid`.
-/
import FFVerif.Lemmas.KronAux
import FFVerif.Props.C01Seg
import FFVerif.Props.C16
import FFVerif.Props.C15

namespace FFVerif.C05
open FFVerif FFVerif.Model FFVerif.KronAux Matrix Complex
open scoped Kronecker

/-! ### 1. the assembled eigen-decomposition satisfies the `eigh` contract -/

section eigh
variable {ι κ : Type*} [Fintype ι] [DecidableEq ι] [Fintype κ] [DecidableEq κ]

/-- **Product-type form.** If `(D₁, V₁)` diagonalises `H₁` and `(D₂, V₂)` diagonalises `H₂` (the
`eigh` contract), then `V₁ ⊗ V₂` diagonalises `H₁ ⊗ 1 + 1 ⊗ H₂` with eigenvalues
`D₁ i + D₂ j` at index `(i, j)`, and is unitary.  All finite index types, no further hypothesis. -/
theorem kron_isEigh_prod {H₁ : Matrix ι ι ℂ} {D₁ : ι → ℝ} {V₁ : Matrix ι ι ℂ}
    {H₂ : Matrix κ κ ℂ} {D₂ : κ → ℝ} {V₂ : Matrix κ κ ℂ}
    (h₁ : IsEighG H₁ D₁ V₁) (h₂ : IsEighG H₂ D₂ V₂) :
    IsEighG (H₁ ⊗ₖ (1 : Matrix κ κ ℂ) + (1 : Matrix ι ι ℂ) ⊗ₖ H₂) (kronSum D₁ D₂) (V₁ ⊗ₖ V₂) :=
  kron_isEighG h₁ h₂

end eigh

section eighFin
variable {d₁ d₂ : ℕ}

/-- **What `extend` assembles satisfies the `eigh` contract** (flattened form, the arrays the code
stores): with `eigvals = tensor(eigvals₁, ones) + tensor(ones, eigvals₂)` (`kronSumFin`, entry
`i*d₂+j ↦ D₁ i + D₂ j`) and `eigvecs = tensor(eigvecs₁, eigvecs₂)` (`kronFin`), the pair is an
eigen-decomposition of the register Hamiltonian `tensor(H₁, 1) + tensor(1, H₂)` in the sense of
`C02.IsEigh`; hence every theorem of C01/C02 that assumes the contract applies to the assembled
cache.  All dimensions. -/
theorem kron_isEigh {H₁ : Matrix (Fin d₁) (Fin d₁) ℂ} {D₁ : Fin d₁ → ℝ}
    {V₁ : Matrix (Fin d₁) (Fin d₁) ℂ} {H₂ : Matrix (Fin d₂) (Fin d₂) ℂ} {D₂ : Fin d₂ → ℝ}
    {V₂ : Matrix (Fin d₂) (Fin d₂) ℂ} (h₁ : C02.IsEigh H₁ D₁ V₁) (h₂ : C02.IsEigh H₂ D₂ V₂) :
    C02.IsEigh (kronFin H₁ 1 + kronFin 1 H₂) (kronSumFin D₁ D₂) (kronFin V₁ V₂) := by
  rw [isEigh_iff] at h₁ h₂ ⊢
  exact (kron_isEighG h₁ h₂).reindex finProdFinEquiv

/-! ### 2. propagators factorise -/

/-- **Segment propagators factorise** (flattened form):
`V diag(e^{-i s λ}) V†` formed from the assembled eigen-data is the Kronecker product of the
factors' segment propagators, for every real elapsed time `s`.  No hypothesis on the data. -/
theorem kron_segProp (D₁ : Fin d₁ → ℝ) (V₁ : Matrix (Fin d₁) (Fin d₁) ℂ) (D₂ : Fin d₂ → ℝ)
    (V₂ : Matrix (Fin d₂) (Fin d₂) ℂ) (s : ℝ) :
    C02.segProp (kronSumFin D₁ D₂) (kronFin V₁ V₂) s
      = kronFin (C02.segProp D₁ V₁ s) (C02.segProp D₂ V₂ s) := by
  rw [segProp_eq, segProp_eq, segProp_eq]
  unfold kronSumFin kronFin
  rw [segPropG_reindex, kron_segPropG]

/-- **Independence of the decomposition**: *any* eigen-decomposition `(D, V)` of the register
Hamiltonian `tensor(H₁,1) + tensor(1,H₂)` that satisfies the `eigh` contract (e.g. the one a fresh
call of `eigh` on the register Hamiltonian returns, whose ordering / choice inside degenerate
subspaces differs from the assembled one) gives the same segment propagator, namely the Kronecker
product of the factors' propagators. -/
theorem kron_segProp_of_isEigh {H₁ : Matrix (Fin d₁) (Fin d₁) ℂ} {D₁ : Fin d₁ → ℝ}
    {V₁ : Matrix (Fin d₁) (Fin d₁) ℂ} {H₂ : Matrix (Fin d₂) (Fin d₂) ℂ} {D₂ : Fin d₂ → ℝ}
    {V₂ : Matrix (Fin d₂) (Fin d₂) ℂ} (h₁ : C02.IsEigh H₁ D₁ V₁) (h₂ : C02.IsEigh H₂ D₂ V₂)
    {D : Fin (d₁ * d₂) → ℝ} {V : Matrix (Fin (d₁ * d₂)) (Fin (d₁ * d₂)) ℂ}
    (h : C02.IsEigh (kronFin H₁ 1 + kronFin 1 H₂) D V) (s : ℝ) :
    C02.segProp D V s = kronFin (C02.segProp D₁ V₁ s) (C02.segProp D₂ V₂ s) := by
  rw [← kron_segProp, C02.piecewise_is_exp h, C02.piecewise_is_exp (kron_isEigh h₁ h₂)]

end eighFin

section cum
variable {ι κ : Type*} [Fintype ι] [DecidableEq ι] [Fintype κ] [DecidableEq κ]

/-- **Cumulative propagators factorise** (product-type form, induction over the segments):
if every segment propagator is a Kronecker product, so is every cumulative propagator
`Q_g = P_{g-1} ⋯ P_0`, in particular the total propagator. -/
theorem kron_propagators (P₁ : ℕ → Matrix ι ι ℂ) (P₂ : ℕ → Matrix κ κ ℂ) (g : ℕ) :
    cumProp (fun l => P₁ l ⊗ₖ P₂ l) g = cumProp P₁ g ⊗ₖ cumProp P₂ g :=
  kron_cumProp P₁ P₂ g

end cum

section model
variable {d₁ d₂ nG : ℕ}

/-- **`extend` caches what `diagonalize` would compute afresh** (model level).  Let the register
pulse carry the assembled eigen-data (`eigvecs[g] = tensor(eigvecs₁[g], eigvecs₂[g])`,
`eigvals[g][i*d₂+j] = eigvals₁[g][i] + eigvals₂[g][j]`) on the common time grid `dt`.  Then the
cumulative propagators that `numeric.diagonalize` computes from these data are, for every
`g ≤ n_dt`, the Kronecker products `tensor(propagators₁[g], propagators₂[g])` — the array `extend`
stores.  All dimensions and segment counts, arbitrary `dt`, no unitarity needed. -/
theorem kron_propagators_model
    (ev₁ : Mat ℝ nG d₁) (V₁ : Vector (Mat ℂ d₁ d₁) nG) (ev₂ : Mat ℝ nG d₂)
    (V₂ : Vector (Mat ℂ d₂ d₂) nG) (ev : Mat ℝ nG (d₁ * d₂))
    (V : Vector (Mat ℂ (d₁ * d₂) (d₁ * d₂)) nG) (dt : Vec ℝ nG)
    (hV : ∀ (g : ℕ) (hg : g < nG), V[g].toMatrix = kronFin V₁[g].toMatrix V₂[g].toMatrix)
    (hD : ∀ (g : ℕ) (hg : g < nG), (fun j : Fin (d₁ * d₂) => ev[g][j])
        = kronSumFin (fun i : Fin d₁ => ev₁[g][i]) (fun j : Fin d₂ => ev₂[g][j]))
    (g : ℕ) (hg : g ≤ nG) :
    (propagators ev V dt)[g].toMatrix
      = kronFin (propagators ev₁ V₁ dt)[g].toMatrix (propagators ev₂ V₂ dt)[g].toMatrix := by
  induction g with
  | zero => rw [C02.propagators_zero, C02.propagators_zero, C02.propagators_zero, kronFin_one]
  | succ g ih =>
    rw [C02.propagators_succ _ _ _ g hg, C02.propagators_succ _ _ _ g hg,
      C02.propagators_succ _ _ _ g hg, ih (Nat.le_of_succ_le hg), hV g hg, hD g hg, kron_segProp,
      kronFin_mul]

/-- the total propagator of the register pulse is the Kronecker product of the total propagators -/
theorem kron_total_propagator_model
    (ev₁ : Mat ℝ nG d₁) (V₁ : Vector (Mat ℂ d₁ d₁) nG) (ev₂ : Mat ℝ nG d₂)
    (V₂ : Vector (Mat ℂ d₂ d₂) nG) (ev : Mat ℝ nG (d₁ * d₂))
    (V : Vector (Mat ℂ (d₁ * d₂) (d₁ * d₂)) nG) (dt : Vec ℝ nG)
    (hV : ∀ (g : ℕ) (hg : g < nG), V[g].toMatrix = kronFin V₁[g].toMatrix V₂[g].toMatrix)
    (hD : ∀ (g : ℕ) (hg : g < nG), (fun j : Fin (d₁ * d₂) => ev[g][j])
        = kronSumFin (fun i : Fin d₁ => ev₁[g][i]) (fun j : Fin d₂ => ev₂[g][j])) :
    (totalPropagator ev V dt).toMatrix
      = kronFin (totalPropagator ev₁ V₁ dt).toMatrix (totalPropagator ev₂ V₂ dt).toMatrix :=
  kron_propagators_model ev₁ V₁ ev₂ V₂ ev V dt hV hD nG (Nat.le_refl _)

end model

/-! ### 3. traces against a product basis -/

section basis
variable {ι κ α β : Type*} [Fintype ι] [Fintype κ] [DecidableEq κ] [DecidableEq β]

/-- **Trace factorisation against a product basis element** (product-type form).
For the product basis `C_{(k,l)} = C¹_k ⊗ C²_l`, a noise operator `B ⊗ 1` acting on system 1 only,
and a product propagator `U₁ ⊗ U₂` with `U₂† U₂ = 1`:
`tr((U₁⊗U₂)† (B⊗1) (U₁⊗U₂) (C¹_k ⊗ C²_l)) = tr(U₁† B U₁ C¹_k) · tr(C²_l)`; and if the family `C²`
contains a multiple `c·1` of the identity at index `z` and is orthonormal *against that element*
(`tr(C²_z C²_l) = δ_{zl}`), then `tr(C²_l) = c⁻¹ δ_{lz}` (all other elements are traceless — this
follows, it is not assumed).  For the Pauli basis `c = 1/√d₂`, so `c⁻¹ = √d₂`
(`trace_basis_sqrt`).  `U₁`, `B`, `C¹` arbitrary. -/
theorem trace_kron_basis (C₁ : α → Matrix ι ι ℂ) (C₂ : β → Matrix κ κ ℂ) (z : β) (c : ℂ)
    (hz : C₂ z = c • (1 : Matrix κ κ ℂ))
    (ortho : ∀ l, Matrix.trace (C₂ z * C₂ l) = if z = l then 1 else 0)
    (U₁ B : Matrix ι ι ℂ) (U₂ : Matrix κ κ ℂ) (hU₂ : U₂ᴴ * U₂ = 1) (k : α) (l : β) :
    Matrix.trace ((U₁ ⊗ₖ U₂)ᴴ * (B ⊗ₖ (1 : Matrix κ κ ℂ)) * (U₁ ⊗ₖ U₂) * (C₁ k ⊗ₖ C₂ l))
        = Matrix.trace (U₁ᴴ * B * U₁ * C₁ k) * Matrix.trace (C₂ l)
      ∧ Matrix.trace (C₂ l) = if l = z then c⁻¹ else 0 := by
  refine ⟨?_, trace_of_ortho_identity C₂ z c hz ortho l⟩
  rw [trace_kron_conj, Matrix.mul_one, hU₂, Matrix.one_mul]

/-- for the normalisation `C_z = 1/√d` of the Pauli / GGM bases the trace of element `l` is
`√d δ_{lz}` -/
theorem trace_basis_sqrt {d : ℕ} (C : β → Matrix (Fin d) (Fin d) ℂ) (z : β)
    (hz : C z = ((1 / Real.sqrt d : ℝ) : ℂ) • (1 : Matrix (Fin d) (Fin d) ℂ))
    (ortho : ∀ l, Matrix.trace (C z * C l) = if z = l then 1 else 0) (l : β) :
    Matrix.trace (C l) = if l = z then ((Real.sqrt d : ℝ) : ℂ) else 0 := by
  rw [trace_of_ortho_identity C z _ hz ortho l]
  congr 1
  rw [← Complex.ofReal_inv, one_div, inv_inv]

/-! ### 4. the control matrix of an extended noise operator -/

/-- **`sqrt(scaling_factor)` rule, time-domain integrand, product-type form.**
The integrand `tr(U(t)† (B⊗1) U(t) C_{(k,l)})` of the control matrix of the extended noise operator
`B ⊗ 1` in the product basis, with `U(t) = U₁(t) ⊗ U₂(t)` and `U₂` unitary, is `c⁻¹` times the
integrand of pulse 1 at the basis elements `(k, z)` and vanishes at `(k, l ≠ z)`.  Since the
control matrix is `∫ e^{iωt} s_a(t) · (integrand) dt`, the same holds for `B_{a,(k,l)}(ω)`. -/
theorem extend_control_matrix_prod (C₁ : α → Matrix ι ι ℂ) (C₂ : β → Matrix κ κ ℂ) (z : β) (c : ℂ)
    (hz : C₂ z = c • (1 : Matrix κ κ ℂ))
    (ortho : ∀ l, Matrix.trace (C₂ z * C₂ l) = if z = l then 1 else 0)
    (U₁ B : Matrix ι ι ℂ) (U₂ : Matrix κ κ ℂ) (hU₂ : U₂ᴴ * U₂ = 1) (k : α) (l : β) :
    Matrix.trace ((U₁ ⊗ₖ U₂)ᴴ * (B ⊗ₖ (1 : Matrix κ κ ℂ)) * (U₁ ⊗ₖ U₂) * (C₁ k ⊗ₖ C₂ l))
      = if l = z then c⁻¹ * Matrix.trace (U₁ᴴ * B * U₁ * C₁ k) else 0 := by
  obtain ⟨h1, h2⟩ := trace_kron_basis C₁ C₂ z c hz ortho U₁ B U₂ hU₂ k l
  rw [h1, h2]
  split <;> ring

end basis

section cmFin
variable {d₁ d₂ : ℕ} {α β : Type*}

theorem trace_kronFin_conj (U₁ B₁ C₁ : Matrix (Fin d₁) (Fin d₁) ℂ)
    (U₂ B₂ C₂ : Matrix (Fin d₂) (Fin d₂) ℂ) :
    Matrix.trace ((kronFin U₁ U₂)ᴴ * kronFin B₁ B₂ * kronFin U₁ U₂ * kronFin C₁ C₂)
      = Matrix.trace (U₁ᴴ * B₁ * U₁ * C₁) * Matrix.trace (U₂ᴴ * B₂ * U₂ * C₂) := by
  rw [kronFin_conjTranspose, kronFin_mul, kronFin_mul, kronFin_mul, trace_kronFin]

/-- **`sqrt(scaling_factor)` rule** (flattened form, noise operator of the *first* pulse):
for `tensor(B, 1)`, `U(t) = tensor(U₁(t), U₂(t))` with `U₂` unitary, and the product basis
`tensor(C¹_k, C²_l)` with `C²_z = 1/√d₂` orthonormal against the other `C²_l`, the control-matrix
integrand is `√d₂ · tr(U₁† B U₁ C¹_k)` at the basis elements `(k, z)` and `0` at `(k, l ≠ z)`.
This is `control_matrix[n_oper_idx, basis_idx] = pulse.get_control_matrix(omega) *
np.sqrt(scaling_factor)` with `scaling_factor = d₂`, all other columns staying zero. -/
theorem extend_control_matrix [DecidableEq β] (C₁ : α → Matrix (Fin d₁) (Fin d₁) ℂ)
    (C₂ : β → Matrix (Fin d₂) (Fin d₂) ℂ) (z : β)
    (hz : C₂ z = ((1 / Real.sqrt d₂ : ℝ) : ℂ) • (1 : Matrix (Fin d₂) (Fin d₂) ℂ))
    (ortho : ∀ l, Matrix.trace (C₂ z * C₂ l) = if z = l then 1 else 0)
    (U₁ B : Matrix (Fin d₁) (Fin d₁) ℂ) (U₂ : Matrix (Fin d₂) (Fin d₂) ℂ) (hU₂ : U₂ᴴ * U₂ = 1)
    (k : α) (l : β) :
    Matrix.trace ((kronFin U₁ U₂)ᴴ * kronFin B 1 * kronFin U₁ U₂ * kronFin (C₁ k) (C₂ l))
      = if l = z then ((Real.sqrt d₂ : ℝ) : ℂ) * Matrix.trace (U₁ᴴ * B * U₁ * C₁ k) else 0 := by
  rw [trace_kronFin_conj, Matrix.mul_one, hU₂, Matrix.one_mul, trace_basis_sqrt C₂ z hz ortho l]
  split <;> ring

/-- the same for a noise operator of the *second* pulse, `tensor(1, B')`: `√d₁ · tr(U₂† B' U₂ C²_l)`
at `(z, l)` and `0` at `(k ≠ z, l)`. -/
theorem extend_control_matrix_right [DecidableEq α] (C₁ : α → Matrix (Fin d₁) (Fin d₁) ℂ)
    (C₂ : β → Matrix (Fin d₂) (Fin d₂) ℂ) (z : α)
    (hz : C₁ z = ((1 / Real.sqrt d₁ : ℝ) : ℂ) • (1 : Matrix (Fin d₁) (Fin d₁) ℂ))
    (ortho : ∀ k, Matrix.trace (C₁ z * C₁ k) = if z = k then 1 else 0)
    (U₁ : Matrix (Fin d₁) (Fin d₁) ℂ) (U₂ B : Matrix (Fin d₂) (Fin d₂) ℂ) (hU₁ : U₁ᴴ * U₁ = 1)
    (k : α) (l : β) :
    Matrix.trace ((kronFin U₁ U₂)ᴴ * kronFin 1 B * kronFin U₁ U₂ * kronFin (C₁ k) (C₂ l))
      = if k = z then ((Real.sqrt d₁ : ℝ) : ℂ) * Matrix.trace (U₂ᴴ * B * U₂ * C₂ l) else 0 := by
  rw [trace_kronFin_conj, Matrix.mul_one, hU₁, Matrix.one_mul, trace_basis_sqrt C₁ z hz ortho k]
  split <;> ring

/-- **The same for the integrand the algorithm integrates segment by segment**
(`C01.segIntegrand`, whose integral over the segments is the computed control matrix by
`C01.cm_segment_form`): on a segment where the register pulse carries the assembled eigen-data and
the Kronecker-product cumulative propagator, with `V₂`, `Q₂` unitary,
`integrand_register(a, (k,l)) = √d₂ · integrand₁(a, k)` for `l = z` and `0` otherwise, for every
frequency, local time, segment start time and noise coefficient. -/
theorem extend_segIntegrand [DecidableEq β] (C₁ : α → Matrix (Fin d₁) (Fin d₁) ℂ)
    (C₂ : β → Matrix (Fin d₂) (Fin d₂) ℂ) (z : β)
    (hz : C₂ z = ((1 / Real.sqrt d₂ : ℝ) : ℂ) • (1 : Matrix (Fin d₂) (Fin d₂) ℂ))
    (ortho : ∀ l, Matrix.trace (C₂ z * C₂ l) = if z = l then 1 else 0)
    (l₁ : Fin d₁ → ℝ) (V₁ Q₁ B : Matrix (Fin d₁) (Fin d₁) ℂ)
    (l₂ : Fin d₂ → ℝ) (V₂ Q₂ : Matrix (Fin d₂) (Fin d₂) ℂ)
    (hV₂ : V₂ᴴ * V₂ = 1) (hQ₂ : Q₂ᴴ * Q₂ = 1) (ω t0 sa s : ℝ) (k : α) (l : β) :
    C01.segIntegrand (kronSumFin l₁ l₂) (kronFin V₁ V₂) (kronFin Q₁ Q₂) (kronFin B 1)
        (kronFin (C₁ k) (C₂ l)) ω t0 sa s
      = if l = z then ((Real.sqrt d₂ : ℝ) : ℂ) * C01.segIntegrand l₁ V₁ Q₁ B (C₁ k) ω t0 sa s
        else 0 := by
  unfold C01.segIntegrand
  rw [Useg_kronFin, extend_control_matrix C₁ C₂ z hz ortho _ B _
    (Useg_unitary l₂ V₂ Q₂ s hV₂ hQ₂) k l]
  split <;> ring

end cmFin

section cmModel
variable {d₁ d₂ nG nO nA N₁ N₂ : ℕ}

/-- **Control matrix from scratch on Kronecker-product data** (model level, every guard shape
`kind` and threshold `thr` of the truncated segment integral — no "exact branch" assumption, any
basis family 2): with eigenvectors, cumulative propagators and basis elements Kronecker products
(`kronFin = util.tensor`), eigenvalues sums, noise operators `tensor(B_a, 1)` and `V²_g`, `Q²_g`
unitary,  `B_register[a][(k,l)][o] = tr(C²_l) · B₁[a][k][o]`. -/
theorem extend_control_matrix_model_trace (kind : MaskKind) (thr : ℝ)
    (ev₁ : Mat ℝ nG d₁) (V₁ Q₁ : Vector (Mat ℂ d₁ d₁) nG)
    (ev₂ : Mat ℝ nG d₂) (V₂ Q₂ : Vector (Mat ℂ d₂ d₂) nG)
    (ev : Mat ℝ nG (d₁ * d₂)) (V Q : Vector (Mat ℂ (d₁ * d₂) (d₁ * d₂)) nG)
    (omega : Vec ℝ nO) (basis₁ : Vector (Mat ℂ d₁ d₁) N₁) (basis₂ : Vector (Mat ℂ d₂ d₂) N₂)
    (basis : Vector (Mat ℂ (d₁ * d₂) (d₁ * d₂)) (N₁ * N₂))
    (nOpers₁ : Vector (Mat ℂ d₁ d₁) nA) (nOpers : Vector (Mat ℂ (d₁ * d₂) (d₁ * d₂)) nA)
    (nCoeffs : Mat ℝ nA nG) (dt t : Vec ℝ nG)
    (hV : ∀ g : Fin nG, V[g].toMatrix = kronFin V₁[g].toMatrix V₂[g].toMatrix)
    (hQ : ∀ g : Fin nG, Q[g].toMatrix = kronFin Q₁[g].toMatrix Q₂[g].toMatrix)
    (hD : ∀ g : Fin nG, (fun j : Fin (d₁ * d₂) => ev[g][j])
        = kronSumFin (fun i : Fin d₁ => ev₁[g][i]) (fun j : Fin d₂ => ev₂[g][j]))
    (hB : ∀ a : Fin nA, nOpers[a].toMatrix = kronFin nOpers₁[a].toMatrix 1)
    (hC : ∀ (k : Fin N₁) (l : Fin N₂), basis[finProdFinEquiv (k, l)].toMatrix
        = kronFin basis₁[k].toMatrix basis₂[l].toMatrix)
    (hV₂ : ∀ g : Fin nG, (V₂[g].toMatrix)ᴴ * V₂[g].toMatrix = 1)
    (hQ₂ : ∀ g : Fin nG, (Q₂[g].toMatrix)ᴴ * Q₂[g].toMatrix = 1)
    (a : Fin nA) (k : Fin N₁) (l : Fin N₂) (o : Fin nO) :
    (controlMatrixFromScratch kind thr ev V Q omega basis nOpers nCoeffs dt t)[a][finProdFinEquiv (k, l)][o]
      = Matrix.trace (basis₂[l].toMatrix)
          * (controlMatrixFromScratch kind thr ev₁ V₁ Q₁ omega basis₁ nOpers₁ nCoeffs dt t)[a][k][o] := by
  rw [C01.cm_entry, C01.cm_entry, Finset.mul_sum]
  refine Finset.sum_congr rfl fun g _ => ?_
  have hev : ∀ m : Fin (d₁ * d₂), ev[g][m]
      = kronSumFin (fun i : Fin d₁ => ev₁[g][i]) (fun j : Fin d₂ => ev₂[g][j]) m :=
    fun m => congrFun (hD g) m
  have hW : ((Q₂[g].toMatrix)ᴴ * V₂[g].toMatrix) * ((Q₂[g].toMatrix)ᴴ * V₂[g].toMatrix)ᴴ = 1 := by
    rw [Matrix.conjTranspose_mul, Matrix.conjTranspose_conjTranspose, Matrix.mul_assoc,
      ← Matrix.mul_assoc (V₂[g].toMatrix), mul_eq_one_comm.mp (hV₂ g), Matrix.one_mul, hQ₂ g]
  have htr : Matrix.trace (((Q₂[g].toMatrix)ᴴ * V₂[g].toMatrix)ᴴ * basis₂[l].toMatrix
      * ((Q₂[g].toMatrix)ᴴ * V₂[g].toMatrix)) = Matrix.trace (basis₂[l].toMatrix) := by
    rw [Matrix.trace_mul_comm, ← Matrix.mul_assoc, hW, Matrix.one_mul]
  simp only [hev]
  rw [hV g, hQ g, hB a, hC k l]
  simp only [kronFin_conjTranspose, kronFin_mul, Matrix.mul_one, hV₂ g]
  rw [cm_sum_kron (f := fun x => (firstOrderEntry kind thr x dt[g] : ℂ)), htr]

/-- **The control matrix computed from scratch on the register pulse is the cached one of pulse 1,
scaled and scattered** (model level).  In the situation of `extend_control_matrix_model_trace`,
if basis 2 has `C²_z = 1/√d₂` and is orthonormal against it, then for every noise operator `a`,
basis index `(k, l)` (flattened `k·N₂ + l`) and frequency `o`

`B_register[a][(k,l)][o] = √d₂ · B₁[a][k][o]` if `l = z`, and `0` otherwise,

i.e. exactly `control_matrix[n_oper_idx, basis_idx] = pulse.get_control_matrix(omega) *
np.sqrt(scaling_factor)` on a zero-initialised array. -/
theorem extend_control_matrix_model (kind : MaskKind) (thr : ℝ)
    (ev₁ : Mat ℝ nG d₁) (V₁ Q₁ : Vector (Mat ℂ d₁ d₁) nG)
    (ev₂ : Mat ℝ nG d₂) (V₂ Q₂ : Vector (Mat ℂ d₂ d₂) nG)
    (ev : Mat ℝ nG (d₁ * d₂)) (V Q : Vector (Mat ℂ (d₁ * d₂) (d₁ * d₂)) nG)
    (omega : Vec ℝ nO) (basis₁ : Vector (Mat ℂ d₁ d₁) N₁) (basis₂ : Vector (Mat ℂ d₂ d₂) N₂)
    (basis : Vector (Mat ℂ (d₁ * d₂) (d₁ * d₂)) (N₁ * N₂))
    (nOpers₁ : Vector (Mat ℂ d₁ d₁) nA) (nOpers : Vector (Mat ℂ (d₁ * d₂) (d₁ * d₂)) nA)
    (nCoeffs : Mat ℝ nA nG) (dt t : Vec ℝ nG)
    (hV : ∀ g : Fin nG, V[g].toMatrix = kronFin V₁[g].toMatrix V₂[g].toMatrix)
    (hQ : ∀ g : Fin nG, Q[g].toMatrix = kronFin Q₁[g].toMatrix Q₂[g].toMatrix)
    (hD : ∀ g : Fin nG, (fun j : Fin (d₁ * d₂) => ev[g][j])
        = kronSumFin (fun i : Fin d₁ => ev₁[g][i]) (fun j : Fin d₂ => ev₂[g][j]))
    (hB : ∀ a : Fin nA, nOpers[a].toMatrix = kronFin nOpers₁[a].toMatrix 1)
    (hC : ∀ (k : Fin N₁) (l : Fin N₂), basis[finProdFinEquiv (k, l)].toMatrix
        = kronFin basis₁[k].toMatrix basis₂[l].toMatrix)
    (z : Fin N₂)
    (hz : basis₂[z].toMatrix = ((1 / Real.sqrt d₂ : ℝ) : ℂ) • (1 : Matrix (Fin d₂) (Fin d₂) ℂ))
    (ortho : ∀ l : Fin N₂, Matrix.trace (basis₂[z].toMatrix * basis₂[l].toMatrix)
        = if z = l then 1 else 0)
    (hV₂ : ∀ g : Fin nG, (V₂[g].toMatrix)ᴴ * V₂[g].toMatrix = 1)
    (hQ₂ : ∀ g : Fin nG, (Q₂[g].toMatrix)ᴴ * Q₂[g].toMatrix = 1)
    (a : Fin nA) (k : Fin N₁) (l : Fin N₂) (o : Fin nO) :
    (controlMatrixFromScratch kind thr ev V Q omega basis nOpers nCoeffs dt t)[a][finProdFinEquiv (k, l)][o]
      = if l = z then ((Real.sqrt d₂ : ℝ) : ℂ)
          * (controlMatrixFromScratch kind thr ev₁ V₁ Q₁ omega basis₁ nOpers₁ nCoeffs dt t)[a][k][o]
        else 0 := by
  rw [extend_control_matrix_model_trace kind thr ev₁ V₁ Q₁ ev₂ V₂ Q₂ ev V Q omega basis₁ basis₂ basis
    nOpers₁ nOpers nCoeffs dt t hV hQ hD hB hC hV₂ hQ₂ a k l o,
    trace_basis_sqrt (fun l : Fin N₂ => basis₂[l].toMatrix) z hz ortho l]
  split <;> ring

end cmModel

/-! ### 5. the filter function of the extended pulse, block by block -/

section ff
variable {α β : Type*} [Fintype α] [Fintype β] [DecidableEq α] [DecidableEq β]

/-- fidelity filter function of a control matrix at one frequency, `Σ_K conj(B_aK) B_bK`
(`'ako,bko->abo'`, cf. `C01.ff_fidelity_def`) -/
def ffOf {ρ γ : Type*} [Fintype γ] (B : ρ → γ → ℂ) (a b : ρ) : ℂ :=
  ∑ K, starRingEnd ℂ (B a K) * B b K

/-- **Blocks of the filter function derived from the assembled control matrix.**
Let `Bext` be the control matrix `extend` assembles (at one frequency): rows of pulse 1
(`Sum.inl a`, operator `B_a ⊗ 1`) hold `r₂ · B¹_{ak}` at the basis elements `(k, z₂)` and zero
elsewhere, rows of pulse 2 (`Sum.inr b`, operator `1 ⊗ B'_b`) hold `r₁ · B²_{bl}` at `(z₁, l)` and
zero elsewhere (`r_i = √d_i`, `extend_control_matrix`, `extend_control_matrix_right`).  Then
`F = Σ_K conj(Bext_{·K}) Bext_{·K}` (what `numeric.calculate_filter_function(control_matrix)`
returns) has
* same-pulse blocks `r₂² F¹_{aa'}` resp. `r₁² F²_{bb'}` (`= d₂ F¹`, `d₁ F²`), and
* cross blocks `r₁ r₂ · conj(B¹_{a z₁}) · B²_{b z₂}` (and the Hermitian conjugate): only the
  identity components of the two control matrices survive.
The cross blocks vanish when all noise operators of one of the pulses are traceless (then
`B_{·z} = 0`) but not in general (`cross_block_nonzero`): filling only the diagonal blocks would be
wrong, deriving `F` from the assembled control matrix is right. -/
theorem extend_filter_function_blocks {nA nB : Type*} (B₁ : nA → α → ℂ) (B₂ : nB → β → ℂ)
    (z₁ : α) (z₂ : β) (r₁ r₂ : ℝ) (Bext : nA ⊕ nB → α × β → ℂ)
    (h₁ : ∀ a k l, Bext (Sum.inl a) (k, l) = if l = z₂ then (r₂ : ℂ) * B₁ a k else 0)
    (h₂ : ∀ b k l, Bext (Sum.inr b) (k, l) = if k = z₁ then (r₁ : ℂ) * B₂ b l else 0) :
    (∀ a a', ffOf Bext (Sum.inl a) (Sum.inl a') = ((r₂ ^ 2 : ℝ) : ℂ) * ffOf B₁ a a') ∧
    (∀ b b', ffOf Bext (Sum.inr b) (Sum.inr b') = ((r₁ ^ 2 : ℝ) : ℂ) * ffOf B₂ b b') ∧
    (∀ a b, ffOf Bext (Sum.inl a) (Sum.inr b)
      = ((r₁ * r₂ : ℝ) : ℂ) * (starRingEnd ℂ (B₁ a z₁) * B₂ b z₂)) ∧
    (∀ a b, ffOf Bext (Sum.inr b) (Sum.inl a)
      = ((r₁ * r₂ : ℝ) : ℂ) * (starRingEnd ℂ (B₂ b z₂) * B₁ a z₁)) := by
  refine ⟨?_, ?_, ?_, ?_⟩
  · intro a a'
    simp only [ffOf, Fintype.sum_prod_type, h₁, apply_ite (starRingEnd ℂ), map_mul, map_zero,
      Complex.conj_ofReal, ite_mul, mul_ite, zero_mul, mul_zero, Finset.sum_ite_eq',
      Finset.mem_univ, if_true, ← ite_and, and_self, Finset.mul_sum]
    refine Finset.sum_congr rfl fun k _ => ?_
    push_cast; ring
  · intro b b'
    simp only [ffOf, Fintype.sum_prod_type_right, h₂, apply_ite (starRingEnd ℂ), map_mul, map_zero,
      Complex.conj_ofReal, ite_mul, mul_ite, zero_mul, mul_zero, Finset.sum_ite_eq',
      Finset.mem_univ, if_true, ← ite_and, and_self, Finset.mul_sum]
    refine Finset.sum_congr rfl fun l _ => ?_
    push_cast; ring
  · intro a b
    simp only [ffOf, Fintype.sum_prod_type, h₁, h₂]
    rw [Finset.sum_eq_single z₁ (fun k _ hk => ?_) (fun h => absurd (Finset.mem_univ _) h)]
    · rw [Finset.sum_eq_single z₂ (fun l _ hl => ?_) (fun h => absurd (Finset.mem_univ _) h)]
      · simp only [if_true, map_mul, Complex.conj_ofReal]
        push_cast; ring
      · simp only [if_neg hl, map_zero, zero_mul]
    · simp only [if_neg hk, mul_zero, Finset.sum_const_zero]
  · intro a b
    simp only [ffOf, Fintype.sum_prod_type, h₁, h₂]
    rw [Finset.sum_eq_single z₁ (fun k _ hk => ?_) (fun h => absurd (Finset.mem_univ _) h)]
    · rw [Finset.sum_eq_single z₂ (fun l _ hl => ?_) (fun h => absurd (Finset.mem_univ _) h)]
      · simp only [if_true, map_mul, Complex.conj_ofReal]
        push_cast; ring
      · simp only [if_neg hl, mul_zero]
    · simp only [if_neg hk, map_zero, zero_mul, Finset.sum_const_zero]

/-- the cross blocks are non-zero as soon as both identity components are: for `r₁, r₂ ≠ 0`,
`B¹_{a z₁} ≠ 0`, `B²_{b z₂} ≠ 0` the cross block `F_{ab}` of `extend_filter_function_blocks` is
non-zero. -/
theorem cross_block_nonzero {nA nB : Type*} (B₁ : nA → α → ℂ) (B₂ : nB → β → ℂ)
    (z₁ : α) (z₂ : β) (r₁ r₂ : ℝ) (Bext : nA ⊕ nB → α × β → ℂ)
    (h₁ : ∀ a k l, Bext (Sum.inl a) (k, l) = if l = z₂ then (r₂ : ℂ) * B₁ a k else 0)
    (h₂ : ∀ b k l, Bext (Sum.inr b) (k, l) = if k = z₁ then (r₁ : ℂ) * B₂ b l else 0)
    (hr₁ : r₁ ≠ 0) (hr₂ : r₂ ≠ 0) (a : nA) (b : nB) (ha : B₁ a z₁ ≠ 0) (hb : B₂ b z₂ ≠ 0) :
    ffOf Bext (Sum.inl a) (Sum.inr b) ≠ 0 := by
  rw [(extend_filter_function_blocks B₁ B₂ z₁ z₂ r₁ r₂ Bext h₁ h₂).2.2.1 a b]
  refine mul_ne_zero ?_ (mul_ne_zero ?_ hb)
  · exact_mod_cast mul_ne_zero hr₁ hr₂
  · exact (map_ne_zero _).mpr ha

end ff

section ffModel
variable {nA nB N₁ N₂ nO : ℕ}

/-- **The same at the level of the model's arrays** (`Model.filterFunctionFid`, i.e. the generated
contraction `'ako,bko->abo'` of `numeric.calculate_filter_function`): rows `0..nA-1` of the
assembled control matrix are those of pulse 1, rows `nA..nA+nB-1` those of pulse 2, the basis axis
is the flattened pair `(k, l) ↦ k·N₂ + l`. -/
theorem extend_filter_function_model (B₁ : Ten3 ℂ nA N₁ nO) (B₂ : Ten3 ℂ nB N₂ nO)
    (Bext : Ten3 ℂ (nA + nB) (N₁ * N₂) nO) (z₁ : Fin N₁) (z₂ : Fin N₂) (r₁ r₂ : ℝ)
    (h₁ : ∀ (a : Fin nA) (k : Fin N₁) (l : Fin N₂) (o : Fin nO),
      Bext[Fin.castAdd nB a][finProdFinEquiv (k, l)][o]
        = if l = z₂ then (r₂ : ℂ) * B₁[a][k][o] else 0)
    (h₂ : ∀ (b : Fin nB) (k : Fin N₁) (l : Fin N₂) (o : Fin nO),
      Bext[Fin.natAdd nA b][finProdFinEquiv (k, l)][o]
        = if k = z₁ then (r₁ : ℂ) * B₂[b][l][o] else 0)
    (o : Fin nO) :
    (∀ a a' : Fin nA, (filterFunctionFid Bext)[Fin.castAdd nB a][Fin.castAdd nB a'][o]
      = ((r₂ ^ 2 : ℝ) : ℂ) * (filterFunctionFid B₁)[a][a'][o]) ∧
    (∀ b b' : Fin nB, (filterFunctionFid Bext)[Fin.natAdd nA b][Fin.natAdd nA b'][o]
      = ((r₁ ^ 2 : ℝ) : ℂ) * (filterFunctionFid B₂)[b][b'][o]) ∧
    (∀ (a : Fin nA) (b : Fin nB), (filterFunctionFid Bext)[Fin.castAdd nB a][Fin.natAdd nA b][o]
      = ((r₁ * r₂ : ℝ) : ℂ) * (starRingEnd ℂ B₁[a][z₁][o] * B₂[b][z₂][o])) ∧
    (∀ (a : Fin nA) (b : Fin nB), (filterFunctionFid Bext)[Fin.natAdd nA b][Fin.castAdd nB a][o]
      = ((r₁ * r₂ : ℝ) : ℂ) * (starRingEnd ℂ B₂[b][z₂][o] * B₁[a][z₁][o])) := by
  let emb : Fin nA ⊕ Fin nB → Fin (nA + nB) := Sum.elim (Fin.castAdd nB) (Fin.natAdd nA)
  let Bx : Fin nA ⊕ Fin nB → Fin N₁ × Fin N₂ → ℂ := fun r K => Bext[emb r][finProdFinEquiv K][o]
  have hff : ∀ r r', (filterFunctionFid Bext)[emb r][emb r'][o] = ffOf Bx r r' := by
    intro r r'
    rw [C01.ff_fidelity_def, ← (finProdFinEquiv (m := N₁) (n := N₂)).sum_comp]
    rfl
  have hff1 : ∀ a a', (filterFunctionFid B₁)[a][a'][o] = ffOf (fun (a : Fin nA) (k : Fin N₁) => B₁[a][k][o]) a a' :=
    fun a a' => C01.ff_fidelity_def B₁ a a' o
  have hff2 : ∀ b b', (filterFunctionFid B₂)[b][b'][o] = ffOf (fun (b : Fin nB) (l : Fin N₂) => B₂[b][l][o]) b b' :=
    fun b b' => C01.ff_fidelity_def B₂ b b' o
  obtain ⟨e1, e2, e3, e4⟩ := extend_filter_function_blocks (fun (a : Fin nA) (k : Fin N₁) => B₁[a][k][o])
    (fun (b : Fin nB) (l : Fin N₂) => B₂[b][l][o]) z₁ z₂ r₁ r₂ Bx (fun a k l => h₁ a k l o) (fun b k l => h₂ b k l o)
  refine ⟨fun a a' => ?_, fun b b' => ?_, fun a b => ?_, fun a b => ?_⟩
  · rw [hff1]; exact (hff (Sum.inl a) (Sum.inl a')).trans (e1 a a')
  · rw [hff2]; exact (hff (Sum.inr b) (Sum.inr b')).trans (e2 b b')
  · exact (hff (Sum.inl a) (Sum.inr b)).trans (e3 a b)
  · exact (hff (Sum.inr b) (Sum.inl a)).trans (e4 a b)

end ffModel

/-! ### the product basis is again orthonormal, Hermitian and complete -/

section productBasis
variable {d₁ d₂ N₁ N₂ : ℕ}

/-- the product basis on flattened indices: element `k·N₂ + l` is `tensor(C¹_k, C²_l)` -/
def kronBasisFin (C₁ : Fin N₁ → Matrix (Fin d₁) (Fin d₁) ℂ) (C₂ : Fin N₂ → Matrix (Fin d₂) (Fin d₂) ℂ) :
    Fin (N₁ * N₂) → Matrix (Fin (d₁ * d₂)) (Fin (d₁ * d₂)) ℂ :=
  fun K => kronFin (C₁ (finProdFinEquiv.symm K).1) (C₂ (finProdFinEquiv.symm K).2)

theorem kronBasisFin_apply (C₁ : Fin N₁ → Matrix (Fin d₁) (Fin d₁) ℂ)
    (C₂ : Fin N₂ → Matrix (Fin d₂) (Fin d₂) ℂ) (k : Fin N₁) (l : Fin N₂) :
    kronBasisFin C₁ C₂ (finProdFinEquiv (k, l)) = kronFin (C₁ k) (C₂ l) := by
  simp only [kronBasisFin, Equiv.symm_apply_apply]

/-- the product of two Hermitian orthonormal families is Hermitian orthonormal -/
theorem kronBasis_isOrthoHerm {C₁ : Fin N₁ → Matrix (Fin d₁) (Fin d₁) ℂ}
    {C₂ : Fin N₂ → Matrix (Fin d₂) (Fin d₂) ℂ} (h₁ : Spec.IsOrthoHerm C₁) (h₂ : Spec.IsOrthoHerm C₂) :
    Spec.IsOrthoHerm (kronBasisFin C₁ C₂) := by
  refine ⟨fun K => ?_, fun K K' => ?_⟩
  · obtain ⟨⟨k, l⟩, rfl⟩ := finProdFinEquiv.surjective K
    rw [kronBasisFin_apply, kronFin_conjTranspose, h₁.herm, h₂.herm]
  · obtain ⟨⟨k, l⟩, rfl⟩ := finProdFinEquiv.surjective K
    obtain ⟨⟨k', l'⟩, rfl⟩ := finProdFinEquiv.surjective K'
    rw [kronBasisFin_apply, kronBasisFin_apply, kronFin_mul, trace_kronFin, h₁.ortho, h₂.ortho]
    simp only [EmbeddingLike.apply_eq_iff_eq, Prod.mk.injEq]
    by_cases hk : k = k' <;> by_cases hl : l = l' <;> simp [hk, hl]

/-- the product of two complete families is complete (via the swap identity `C15.swap_identity`), so
every theorem of C01/C15 about complete bases applies to the register basis -/
theorem kronBasis_isComplete {C₁ : Fin N₁ → Matrix (Fin d₁) (Fin d₁) ℂ}
    {C₂ : Fin N₂ → Matrix (Fin d₂) (Fin d₂) ℂ} (h₁ : Spec.IsComplete C₁) (h₂ : Spec.IsComplete C₂) :
    Spec.IsComplete (kronBasisFin C₁ C₂) := by
  apply C15.complete_of_swap
  intro a b c e
  obtain ⟨⟨a1, a2⟩, rfl⟩ := finProdFinEquiv.surjective a
  obtain ⟨⟨b1, b2⟩, rfl⟩ := finProdFinEquiv.surjective b
  obtain ⟨⟨c1, c2⟩, rfl⟩ := finProdFinEquiv.surjective c
  obtain ⟨⟨e1, e2⟩, rfl⟩ := finProdFinEquiv.surjective e
  rw [sum_finProd]
  simp only [kronBasisFin_apply, kronFin_apply]
  have hs : ∀ k : Fin N₁, ∑ l : Fin N₂, C₁ k a1 b1 * C₂ l a2 b2 * (C₁ k c1 e1 * C₂ l c2 e2)
      = (C₁ k a1 b1 * C₁ k c1 e1) * ∑ l : Fin N₂, C₂ l a2 b2 * C₂ l c2 e2 := by
    intro k
    rw [Finset.mul_sum]
    exact Finset.sum_congr rfl fun l _ => by ring
  simp only [hs]
  rw [← Finset.sum_mul, C15.swap_identity h₁, C15.swap_identity h₂]
  simp only [EmbeddingLike.apply_eq_iff_eq, Prod.mk.injEq]
  by_cases h1 : a1 = e1 <;> by_cases h2 : b1 = c1 <;> by_cases h3 : a2 = e2 <;>
    by_cases h4 : b2 = c2 <;> simp [h1, h2, h3, h4]

/-- the Liouville representation of a product propagator in the product basis is the Kronecker
product of the Liouville representations -/
theorem kron_liouville (C₁ : Fin N₁ → Matrix (Fin d₁) (Fin d₁) ℂ)
    (C₂ : Fin N₂ → Matrix (Fin d₂) (Fin d₂) ℂ) (U₁ : Matrix (Fin d₁) (Fin d₁) ℂ)
    (U₂ : Matrix (Fin d₂) (Fin d₂) ℂ) (k k' : Fin N₁) (l l' : Fin N₂) :
    Spec.liou (kronBasisFin C₁ C₂) (kronFin U₁ U₂) (finProdFinEquiv (k, l)) (finProdFinEquiv (k', l'))
      = Spec.liou C₁ U₁ k k' * Spec.liou C₂ U₂ l l' := by
  unfold Spec.liou
  rw [kronBasisFin_apply, kronBasisFin_apply, kronFin_conjTranspose, kronFin_mul, kronFin_mul,
    kronFin_mul, trace_kronFin]

end productBasis

/-! ### the arrays `extend` assembles exist for all inputs; index bookkeeping; non-vacuity -/

section assembled
variable {d₁ d₂ nG : ℕ}

/-- `util.tensor(A, B)` on the model's arrays: entry `(i*d₂+j, k*d₂+l) = A[i][k] * B[j][l]` -/
def tensorMat (A : Mat ℂ d₁ d₁) (B : Mat ℂ d₂ d₂) : Mat ℂ (d₁ * d₂) (d₁ * d₂) :=
  Mat.ofFn fun r c => A[Fin.hi r][Fin.hi c] * B[Fin.lo r][Fin.lo c]

/-- `util.tensor(x, ones, rank=1) + util.tensor(ones, y, rank=1)` : entry `i*d₂+j = x[i] + y[j]` -/
def tensorSumVec (x : Vec ℝ d₁) (y : Vec ℝ d₂) : Vec ℝ (d₁ * d₂) :=
  Vector.ofFn fun r => x[Fin.hi r] + y[Fin.lo r]

theorem tensorMat_toMatrix (A : Mat ℂ d₁ d₁) (B : Mat ℂ d₂ d₂) :
    (tensorMat A B).toMatrix = kronFin A.toMatrix B.toMatrix := by
  ext r c
  obtain ⟨⟨i, j⟩, rfl⟩ := finProdFinEquiv.surjective r
  obtain ⟨⟨k, l⟩, rfl⟩ := finProdFinEquiv.surjective c
  rw [kronFin_apply]
  simp only [tensorMat, ← flat_eq_finProd, Mat.toMatrix_apply, Fin.getElem_fin, Mat.ofFn_getElem,
    Fin.eta, Fin.hi_flat, Fin.lo_flat]

theorem tensorSumVec_eq (x : Vec ℝ d₁) (y : Vec ℝ d₂) :
    (fun r : Fin (d₁ * d₂) => (tensorSumVec x y)[r])
      = kronSumFin (fun i : Fin d₁ => x[i]) (fun j : Fin d₂ => y[j]) := by
  funext r
  obtain ⟨⟨i, j⟩, rfl⟩ := finProdFinEquiv.surjective r
  rw [kronSumFin_apply]
  simp only [tensorSumVec, Fin.getElem_fin, Vector.getElem_ofFn]
  have h : (⟨(finProdFinEquiv (i, j)).1, (finProdFinEquiv (i, j)).2⟩ : Fin (d₁ * d₂))
      = Fin.flat i j := (flat_eq_finProd i j).symm
  rw [h]
  simp only [Fin.hi_flat, Fin.lo_flat]

/-- **`extend`'s propagators are the fresh ones — closed form without hypotheses**: for *all*
eigen-data of the two pulses on a common grid, the cumulative propagators computed by the model of
`numeric.diagonalize` from the assembled `eigvals`/`eigvecs` arrays are the Kronecker products of
the pulses' cumulative propagators (so the hypotheses of `kron_propagators_model` are satisfiable
for every input). -/
theorem extend_propagators (ev₁ : Mat ℝ nG d₁) (V₁ : Vector (Mat ℂ d₁ d₁) nG) (ev₂ : Mat ℝ nG d₂)
    (V₂ : Vector (Mat ℂ d₂ d₂) nG) (dt : Vec ℝ nG) (g : ℕ) (hg : g ≤ nG) :
    (propagators (Vector.ofFn fun l : Fin nG => tensorSumVec ev₁[l] ev₂[l])
        (Vector.ofFn fun l : Fin nG => tensorMat V₁[l] V₂[l]) dt)[g].toMatrix
      = kronFin (propagators ev₁ V₁ dt)[g].toMatrix (propagators ev₂ V₂ dt)[g].toMatrix := by
  refine kron_propagators_model ev₁ V₁ ev₂ V₂ _ _ dt (fun l hl => ?_) (fun l hl => ?_) g hg
  · rw [Vector.getElem_ofFn, tensorMat_toMatrix]; rfl
  · have h := tensorSumVec_eq ev₁[l] ev₂[l]
    simp only [Fin.getElem_fin, Vector.getElem_ofFn] at h ⊢
    exact h

end assembled

/-- non-vacuity of `kron_isEigh`: `σ_z ⊗ 1 + 1 ⊗ diag(0, 2)` -/
example : C02.IsEigh
    (kronFin (Matrix.diagonal fun i => ((![1, -1] : Fin 2 → ℝ) i : ℂ)) 1
      + kronFin 1 (Matrix.diagonal fun i => ((![0, 2] : Fin 2 → ℝ) i : ℂ)))
    (kronSumFin ![1, -1] ![0, 2]) (kronFin 1 1) :=
  kron_isEigh (isEigh_diagonal _) (isEigh_diagonal _)

/-- the normalised single-qubit Pauli basis `σ_i/√2` -/
noncomputable def pauliN : Fin 4 → Matrix (Fin 2) (Fin 2) ℂ :=
  fun i => ((1 / Real.sqrt (2 : ℕ) : ℝ) : ℂ) •
    (![1, !![0, 1; 1, 0], !![0, -Complex.I; Complex.I, 0], !![1, 0; 0, -1]] i)

theorem pauliN_zero : pauliN 0 = ((1 / Real.sqrt (2 : ℕ) : ℝ) : ℂ) • (1 : Matrix (Fin 2) (Fin 2) ℂ) :=
  rfl

theorem pauliN_ortho_zero (l : Fin 4) :
    Matrix.trace (pauliN 0 * pauliN l) = if 0 = l then 1 else 0 := by
  have h2 : ((1 / Real.sqrt (2 : ℕ) : ℝ) : ℂ) * ((1 / Real.sqrt (2 : ℕ) : ℝ) : ℂ) = 1 / 2 := by
    rw [← Complex.ofReal_mul, div_mul_div_comm, one_mul, Nat.cast_ofNat,
      Real.mul_self_sqrt (by norm_num)]
    norm_num
  rw [pauliN_zero, Matrix.smul_mul, Matrix.one_mul, pauliN, Matrix.trace_smul, Matrix.trace_smul,
    smul_eq_mul, smul_eq_mul, ← mul_assoc, h2]
  fin_cases l <;> simp [Matrix.trace_fin_two]

/-- non-vacuity of the basis hypotheses of `trace_kron_basis`, `extend_control_matrix`,
`extend_segIntegrand`, … : the Pauli basis with `z = 0`; and the value for the *non-traceless*
noise operator `|0⟩⟨0| ⊗ 1` of an idle two-qubit register at the identity element `(0, 0)` is
`√2 · 1/√2 = 1 ≠ 0` — the identity column of the control matrix, which feeds the cross blocks of
`extend_filter_function_blocks`, does not vanish. -/
example : Matrix.trace ((kronFin (1 : Matrix (Fin 2) (Fin 2) ℂ) (1 : Matrix (Fin 2) (Fin 2) ℂ))ᴴ
      * kronFin !![1, 0; 0, 0] 1 * kronFin 1 1 * kronFin (pauliN 0) (pauliN 0)) = 1 := by
  rw [extend_control_matrix pauliN pauliN 0 pauliN_zero pauliN_ortho_zero 1 !![1, 0; 0, 0] 1
    (by rw [Matrix.conjTranspose_one, Matrix.one_mul]) 0 0, if_pos rfl, Matrix.conjTranspose_one,
    Matrix.one_mul, Matrix.mul_one, pauliN_zero, Matrix.mul_smul, Matrix.mul_one, Matrix.trace_smul,
    smul_eq_mul, ← mul_assoc, ← Complex.ofReal_mul]
  have h : Real.sqrt (2 : ℕ) * (1 / Real.sqrt (2 : ℕ)) = 1 := by
    rw [Nat.cast_ofNat]
    field_simp
  rw [h]
  simp [Matrix.trace_fin_two]

/-- a concrete assembled control matrix with non-zero cross block: two single-qubit pulses with one
noise operator each whose identity components are `1/√2` (e.g. `|0⟩⟨0|` on an idle qubit at
`ω = 0`, `τ = 1`); the cross filter function is `√2·√2·(1/√2)·(1/√2) = 1`. -/
example : ∃ (B₁ B₂ : Fin 1 → Fin 4 → ℂ) (Bext : Fin 1 ⊕ Fin 1 → Fin 4 × Fin 4 → ℂ),
    (∀ a k l, Bext (Sum.inl a) (k, l)
      = if l = 0 then ((Real.sqrt 2 : ℝ) : ℂ) * B₁ a k else 0) ∧
    (∀ b k l, Bext (Sum.inr b) (k, l)
      = if k = 0 then ((Real.sqrt 2 : ℝ) : ℂ) * B₂ b l else 0) ∧
    ffOf Bext (Sum.inl 0) (Sum.inr 0) ≠ 0 := by
  let B : Fin 1 → Fin 4 → ℂ := fun _ k => if k = 0 then ((1 / Real.sqrt 2 : ℝ) : ℂ) else 0
  let Bext : Fin 1 ⊕ Fin 1 → Fin 4 × Fin 4 → ℂ := fun r K =>
    match r with
    | Sum.inl a => if K.2 = 0 then ((Real.sqrt 2 : ℝ) : ℂ) * B a K.1 else 0
    | Sum.inr b => if K.1 = 0 then ((Real.sqrt 2 : ℝ) : ℂ) * B b K.2 else 0
  have hs : Real.sqrt 2 ≠ 0 := by positivity
  have hB : B 0 0 ≠ 0 := by
    simp only [B, if_true]
    exact_mod_cast one_div_ne_zero hs
  exact ⟨B, B, Bext, fun _ _ _ => rfl, fun _ _ _ => rfl,
    cross_block_nonzero B B 0 0 _ _ Bext (fun _ _ _ => rfl) (fun _ _ _ => rfl) hs hs 0 0 hB hB⟩

/-! ### index bookkeeping: `equivalent_pauli_basis_elements` picks the columns `(k, 0)` -/

/-- For a two-qubit register, `equivalent_pauli_basis_elements([0], 2)` lists the flattened indices
`(k, 0) ↦ 4k` of the product basis (first pulse), `equivalent_pauli_basis_elements([1], 2)` the
indices `(0, l) ↦ l` (second pulse) — the columns at which `extend_control_matrix` /
`extend_control_matrix_right` say the control matrix is non-zero. -/
theorem equivalentPauli_two_qubits :
    (∀ k : Fin 4, (Model.Tensor.equivalentPauli [0] 2)[k.1]?
      = some (finProdFinEquiv (k, (0 : Fin 4))).1) ∧
    (∀ l : Fin 4, (Model.Tensor.equivalentPauli [1] 2)[l.1]?
      = some (finProdFinEquiv ((0 : Fin 4), l)).1) := by
  decide

/-- the same for a three-qubit register split as `{0,1} | {2}` (sub-register sizes `16` and `4`)
and as `{0} | {1,2}` -/
theorem equivalentPauli_three_qubits :
    (∀ k : Fin 16, (Model.Tensor.equivalentPauli [0, 1] 3)[k.1]?
      = some (finProdFinEquiv (k, (0 : Fin 4))).1) ∧
    (∀ l : Fin 4, (Model.Tensor.equivalentPauli [2] 3)[l.1]?
      = some (finProdFinEquiv ((0 : Fin 16), l)).1) ∧
    (∀ k : Fin 4, (Model.Tensor.equivalentPauli [0] 3)[k.1]?
      = some (finProdFinEquiv (k, (0 : Fin 16))).1) ∧
    (∀ l : Fin 16, (Model.Tensor.equivalentPauli [1, 2] 3)[l.1]?
      = some (finProdFinEquiv ((0 : Fin 4), l)).1) := by
  decide

section pauliIdxGeneral
open FFVerif.Model.Tensor FFVerif.TensorAux

/-- **General index correspondence, first pulse.**  For a register of `n₁ + n₂` qubits with the
pulse on the first `n₁` qubits, `equivalent_pauli_basis_elements(range(n₁), n₁+n₂)` is the list
`k ↦ k · 4^{n₂}` (`k < 4^{n₁}`), i.e. the flattened indices `finProdFinEquiv (k, 0)` of the product
basis elements `(k, identity)` — exactly the columns where `extend_control_matrix` puts
`√d₂ · B_{ak}` (`finProd_first_val`). -/
theorem equivalentPauli_first (n₁ n₂ : ℕ) :
    equivalentPauli (List.range n₁) (n₁ + n₂) = (List.range (4 ^ n₁)).map (· * 4 ^ n₂) := by
  rw [C16.equivalentPauli_spec _ _ List.pairwise_lt_range
    (fun i hi => by have := List.mem_range.mp hi; omega), List.length_range]
  apply List.map_congr_left
  intro j hj
  have hj' : j < prod (List.replicate n₁ 4) := by rw [prod_replicate]; exact List.mem_range.mp hj
  rw [scatterAt_range n₁ n₂ _ (by rw [decode_length, List.length_replicate]), List.replicate_add,
    encode_append (by rw [decode_length]), encode_decode hj', prod_replicate, encode_zeros,
    Nat.add_zero]

/-- **General index correspondence, second pulse**: for the pulse on the last `n₂` of `n₁ + n₂`
qubits the list is `l ↦ l` (`l < 4^{n₂}`), the flattened indices `finProdFinEquiv (0, l)`. -/
theorem equivalentPauli_second (n₁ n₂ : ℕ) :
    equivalentPauli (List.range' n₁ n₂) (n₁ + n₂) = List.range (4 ^ n₂) := by
  rw [C16.equivalentPauli_spec _ _ (List.pairwise_lt_range')
    (fun i hi => by have := List.mem_range'_1.mp hi; omega), List.length_range']
  conv_rhs => rw [← List.map_id (List.range (4 ^ n₂))]
  apply List.map_congr_left
  intro j hj
  have hj' : j < prod (List.replicate n₂ 4) := by rw [prod_replicate]; exact List.mem_range.mp hj
  rw [scatterAt_range' n₁ n₂ _ (by rw [decode_length, List.length_replicate]), List.replicate_add,
    encode_append (by simp), encode_decode hj', encode_zeros, Nat.zero_mul, Nat.zero_add]
  rfl


theorem finProd_first_val {N₁ N₂ : ℕ} (k : Fin N₁) (h : 0 < N₂) :
    (finProdFinEquiv (k, (⟨0, h⟩ : Fin N₂))).1 = k.1 * N₂ := by
  simp [finProdFinEquiv_apply_val, Nat.mul_comm]

theorem finProd_second_val {N₁ N₂ : ℕ} (l : Fin N₂) (h : 0 < N₁) :
    (finProdFinEquiv ((⟨0, h⟩ : Fin N₁), l)).1 = l.1 := by
  simp [finProdFinEquiv_apply_val]

end pauliIdxGeneral

end FFVerif.C05
