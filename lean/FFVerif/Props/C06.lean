/-
C06 — remapping qubits (`pulse_sequence.remap`) equals rebuilding the pulse with permuted tensor
factors; permutations compose; the identity permutation returns an equal pulse.  Algebraic core.

`util.tensor_transpose(A, order)` permutes the tensor factors of an operator, i.e. it re-indexes
rows and columns by a permutation `e` of the index set (`Matrix.reindex e e`).  For two factors
this is `Equiv.prodComm` (`swap_kron`); for `n` factors indexed by tuples `x : Fin n → ι` it is
`KronAux.tposeEquiv σ : x ↦ x ∘ σ` (`tensor_transpose_pi`).  Re-indexing is an isomorphism of
star-algebras that preserves the trace, so every cached quantity of the remapped pulse is the
re-indexed one, and quantities defined through traces against the (equally permuted) basis are
carried over by the permutation `π` of the *basis indices*.
-/
import FFVerif.Lemmas.KronAux
import FFVerif.Props.C01Seg
import FFVerif.Props.C16
import FFVerif.Spec.Basis
import FFVerif.Props.C15

namespace FFVerif.C06
open FFVerif FFVerif.Model FFVerif.KronAux Matrix Complex
open scoped Kronecker

/-! ### 6. swapping tensor factors; re-indexing is a trace-preserving star-algebra isomorphism -/

section swap
variable {ι κ : Type*} [Fintype ι] [DecidableEq ι] [Fintype κ] [DecidableEq κ]

omit [Fintype ι] [DecidableEq ι] [Fintype κ] [DecidableEq κ] in
/-- **Swap of two tensor factors**: `(A ⊗ B)` with rows and columns re-indexed by
`(i, j) ↦ (j, i)` is `B ⊗ A` (what `tensor_transpose(tensor(A, B), (1, 0))` returns). -/
theorem swap_kron (A : Matrix ι ι ℂ) (B : Matrix κ κ ℂ) :
    Matrix.reindex (Equiv.prodComm ι κ) (Equiv.prodComm ι κ) (A ⊗ₖ B) = B ⊗ₖ A :=
  KronAux.swap_kron A B

/-- **Re-indexing by any bijection `e` of the index set preserves products, the identity,
adjoints and traces** (so also unitarity, Hermiticity, eigen-decompositions, Liouville
representations, …). -/
theorem reindex_star_alg (e : ι ≃ κ) (M N : Matrix ι ι ℂ) :
    Matrix.reindex e e (M * N) = Matrix.reindex e e M * Matrix.reindex e e N ∧
    Matrix.reindex e e (1 : Matrix ι ι ℂ) = 1 ∧
    (Matrix.reindex e e M)ᴴ = Matrix.reindex e e Mᴴ ∧
    Matrix.trace (Matrix.reindex e e M) = Matrix.trace M :=
  ⟨reindex_mul e M N, reindex_one e, reindex_conjTranspose e M, trace_reindex e M⟩

/-- **The remapped eigen-decomposition satisfies the `eigh` contract**: if `(D, V)` diagonalises
`H`, then the re-indexed eigenvector matrix and the permuted eigenvalue vector
(`tensor_transpose(eigvals, order, rank=1)`) diagonalise the re-indexed Hamiltonian.
Any bijection `e`, in particular any permutation of tensor factors. -/
theorem remap_isEigh_gen {H : Matrix ι ι ℂ} {D : ι → ℝ} {V : Matrix ι ι ℂ} (h : IsEighG H D V)
    (e : ι ≃ κ) :
    IsEighG (Matrix.reindex e e H) (D ∘ e.symm) (Matrix.reindex e e V) :=
  h.reindex e

/-- segment propagators of the remapped pulse are the re-indexed ones -/
theorem remap_segProp_gen (e : ι ≃ κ) (D : ι → ℝ) (V : Matrix ι ι ℂ) (s : ℝ) :
    segPropG (D ∘ e.symm) (Matrix.reindex e e V) s = Matrix.reindex e e (segPropG D V s) :=
  segPropG_reindex e D V s

/-- cumulative propagators (and the total propagator) of the remapped pulse are the re-indexed
ones (induction over the segments) -/
theorem remap_propagators_gen (e : ι ≃ κ) (P : ℕ → Matrix ι ι ℂ) (g : ℕ) :
    cumProp (fun l => Matrix.reindex e e (P l)) g = Matrix.reindex e e (cumProp P g) :=
  cumProp_reindex e P g

end swap

section fin
variable {d d' : ℕ}

/-- `remap_isEigh_gen` for the arrays of the code (`C02.IsEigh` on `Fin d`); `e` may change the
flattened index type, e.g. `Fin (d₁*d₂) ≃ Fin (d₂*d₁)` for a swap of two factors. -/
theorem remap_isEigh {H : Matrix (Fin d) (Fin d) ℂ} {D : Fin d → ℝ} {V : Matrix (Fin d) (Fin d) ℂ}
    (h : C02.IsEigh H D V) (e : Fin d ≃ Fin d') :
    C02.IsEigh (Matrix.reindex e e H) (D ∘ e.symm) (Matrix.reindex e e V) := by
  rw [isEigh_iff] at h ⊢
  exact h.reindex e

theorem remap_segProp (e : Fin d ≃ Fin d') (D : Fin d → ℝ) (V : Matrix (Fin d) (Fin d) ℂ) (s : ℝ) :
    C02.segProp (D ∘ e.symm) (Matrix.reindex e e V) s = Matrix.reindex e e (C02.segProp D V s) :=
  segPropG_reindex e D V s

/-- **`remap` caches what `diagonalize` would compute afresh** (model level): if the remapped pulse
carries the re-indexed eigenvectors and the permuted eigenvalues of the original pulse (same time
grid), the cumulative propagators `numeric.diagonalize` computes from them are the re-indexed
cumulative propagators of the original pulse — the array `remap` stores
(`tensor_transpose(pulse.propagators, order)`) — for every `g ≤ n_dt`; likewise the total
propagator.  All dimensions, arbitrary data. -/
theorem remap_propagators {nG : ℕ} (e : Fin d ≃ Fin d')
    (ev : Mat ℝ nG d) (V : Vector (Mat ℂ d d) nG) (ev' : Mat ℝ nG d') (V' : Vector (Mat ℂ d' d') nG)
    (dt : Vec ℝ nG)
    (hV : ∀ (g : ℕ) (hg : g < nG), V'[g].toMatrix = Matrix.reindex e e V[g].toMatrix)
    (hD : ∀ (g : ℕ) (hg : g < nG), (fun j : Fin d' => ev'[g][j]) = (fun j : Fin d => ev[g][j]) ∘ e.symm)
    (g : ℕ) (hg : g ≤ nG) :
    (propagators ev' V' dt)[g].toMatrix = Matrix.reindex e e (propagators ev V dt)[g].toMatrix := by
  induction g with
  | zero => rw [C02.propagators_zero, C02.propagators_zero, reindex_one]
  | succ g ih =>
    rw [C02.propagators_succ _ _ _ g hg, C02.propagators_succ _ _ _ g hg,
      ih (Nat.le_of_succ_le hg), hV g hg, hD g hg, remap_segProp, reindex_mul]

theorem remap_total_propagator {nG : ℕ} (e : Fin d ≃ Fin d')
    (ev : Mat ℝ nG d) (V : Vector (Mat ℂ d d) nG) (ev' : Mat ℝ nG d') (V' : Vector (Mat ℂ d' d') nG)
    (dt : Vec ℝ nG)
    (hV : ∀ (g : ℕ) (hg : g < nG), V'[g].toMatrix = Matrix.reindex e e V[g].toMatrix)
    (hD : ∀ (g : ℕ) (hg : g < nG), (fun j : Fin d' => ev'[g][j]) = (fun j : Fin d => ev[g][j]) ∘ e.symm) :
    (totalPropagator ev' V' dt).toMatrix = Matrix.reindex e e (totalPropagator ev V dt).toMatrix :=
  remap_propagators e ev V ev' V' dt hV hD nG (Nat.le_refl _)

end fin

section swapFin
variable {d₁ d₂ : ℕ}

/-- the permutation of flattened indices induced by swapping two tensor factors:
`i*d₂ + j ↦ j*d₁ + i` -/
def swapFin (d₁ d₂ : ℕ) : Fin (d₁ * d₂) ≃ Fin (d₂ * d₁) :=
  finProdFinEquiv.symm.trans ((Equiv.prodComm _ _).trans finProdFinEquiv)

theorem swapFin_apply (i : Fin d₁) (j : Fin d₂) :
    swapFin d₁ d₂ (finProdFinEquiv (i, j)) = finProdFinEquiv (j, i) := by
  simp [swapFin]

/-- **Swap of two factors on the flattened arrays**: `tensor(B, A)` is `tensor(A, B)` with rows and
columns permuted by `i*d₂ + j ↦ j*d₁ + i`. -/
theorem swap_kronFin (A : Matrix (Fin d₁) (Fin d₁) ℂ) (B : Matrix (Fin d₂) (Fin d₂) ℂ) :
    Matrix.reindex (swapFin d₁ d₂) (swapFin d₁ d₂) (kronFin A B) = kronFin B A := by
  ext r c
  obtain ⟨⟨j, i⟩, rfl⟩ := finProdFinEquiv.surjective r
  obtain ⟨⟨l, k⟩, rfl⟩ := finProdFinEquiv.surjective c
  have h1 : (swapFin d₁ d₂).symm (finProdFinEquiv (j, i)) = finProdFinEquiv (i, j) := by
    rw [Equiv.symm_apply_eq, swapFin_apply]
  have h2 : (swapFin d₁ d₂).symm (finProdFinEquiv (l, k)) = finProdFinEquiv (k, l) := by
    rw [Equiv.symm_apply_eq, swapFin_apply]
  rw [kronFin_apply, Matrix.reindex_apply, Matrix.submatrix_apply, h1, h2, kronFin_apply, mul_comm]

/-- non-vacuity of `remap_isEigh` / `remap_segProp`: a diagonal two-qubit Hamiltonian with distinct
eigenvalues `0, 1, 2, 3`, remapped by the swap of the two qubits (a non-trivial permutation:
`swapFin 2 2` exchanges the flattened indices `1` and `2`). -/
example : C02.IsEigh
    (Matrix.reindex (swapFin 2 2) (swapFin 2 2)
      (Matrix.diagonal fun i : Fin (2 * 2) => (((fun i : Fin (2 * 2) => (i.1 : ℝ)) i : ℝ) : ℂ)))
    ((fun i : Fin (2 * 2) => (i.1 : ℝ)) ∘ (swapFin 2 2).symm)
    (Matrix.reindex (swapFin 2 2) (swapFin 2 2) 1) :=
  remap_isEigh (isEigh_diagonal _) _

example : swapFin 2 2 (1 : Fin (2 * 2)) = (2 : Fin (2 * 2)) := by decide

end swapFin

/-! ### 7. Liouville representation, control matrix and filter function under a remap -/

section liou
variable {ι κ α β : Type*} [Fintype ι] [DecidableEq ι] [Fintype κ] [DecidableEq κ]

omit [DecidableEq ι] [DecidableEq κ] in
/-- **The cached Liouville representation is carried over by the basis-index permutation.**
Let `e` re-index the Hilbert space, `π : α ≃ β` the basis labels, and let the basis `C'` of the
remapped pulse consist of the re-indexed elements, `C'_{π k} = reindex e (C_k)`.  Then for every
matrix `U` (unitary or not)
`L'(π i, π j) = tr(C'_{πi} U' C'_{πj} U'†) = tr(C_i U C_j U†) = L(i, j)`,
which is the scatter `remapped.total_propagator_liouville[perm.T, perm] = L`. -/
theorem remap_liouville (e : ι ≃ κ) (π : α ≃ β) (C : α → Matrix ι ι ℂ) (C' : β → Matrix κ κ ℂ)
    (hC : ∀ k, C' (π k) = Matrix.reindex e e (C k)) (U : Matrix ι ι ℂ) (i j : α) :
    liouG C' (Matrix.reindex e e U) (π i) (π j) = liouG C U i j := by
  unfold liouG
  rw [hC, hC, reindex_conjTranspose, ← reindex_mul, ← reindex_mul, ← reindex_mul, trace_reindex]

omit [DecidableEq ι] [DecidableEq κ] in
/-- **The control-matrix integrand is carried over by the basis-index permutation**:
`tr(U'† B' U' C'_{π k}) = tr(U† B U C_k)` for re-indexed `U' = reindex e U`, `B' = reindex e B`;
hence `B'_{a, π k}(ω) = B_{a k}(ω)` — the column scatter `remapped_control_matrix[·, perm] = B`. -/
theorem remap_control_matrix (e : ι ≃ κ) (π : α ≃ β) (C : α → Matrix ι ι ℂ)
    (C' : β → Matrix κ κ ℂ) (hC : ∀ k, C' (π k) = Matrix.reindex e e (C k))
    (U B : Matrix ι ι ℂ) (k : α) :
    Matrix.trace ((Matrix.reindex e e U)ᴴ * Matrix.reindex e e B * Matrix.reindex e e U * C' (π k))
      = Matrix.trace (Uᴴ * B * U * C k) := by
  rw [hC, reindex_conjTranspose, ← reindex_mul, ← reindex_mul, ← reindex_mul, trace_reindex]

omit [Fintype ι] [DecidableEq ι] [Fintype κ] [DecidableEq κ] in
/-- the product basis with swapped factors consists of the re-indexed elements of the product
basis, with the label permutation `(k, l) ↦ (l, k)`: the hypothesis `hC` of `remap_liouville` /
`remap_control_matrix` holds for `e = π = prodComm`. -/
theorem swap_product_basis {γ δ : Type*} (C₁ : γ → Matrix ι ι ℂ) (C₂ : δ → Matrix κ κ ℂ)
    (K : γ × δ) :
    (fun L : δ × γ => C₂ L.1 ⊗ₖ C₁ L.2) (Equiv.prodComm γ δ K)
      = Matrix.reindex (Equiv.prodComm ι κ) (Equiv.prodComm ι κ)
          ((fun K : γ × δ => C₁ K.1 ⊗ₖ C₂ K.2) K) :=
  (KronAux.swap_kron (C₁ K.1) (C₂ K.2)).symm

omit [DecidableEq ι] [DecidableEq κ] in
/-- `remap_liouville` for the swap of two tensor factors and the product basis:
`L'((l,k),(l',k')) = L((k,l),(k',l'))`. -/
theorem remap_liouville_swap {γ δ : Type*} (C₁ : γ → Matrix ι ι ℂ) (C₂ : δ → Matrix κ κ ℂ)
    (U : Matrix (ι × κ) (ι × κ) ℂ) (k k' : γ) (l l' : δ) :
    liouG (fun L : δ × γ => C₂ L.1 ⊗ₖ C₁ L.2)
        (Matrix.reindex (Equiv.prodComm ι κ) (Equiv.prodComm ι κ) U) (l, k) (l', k')
      = liouG (fun K : γ × δ => C₁ K.1 ⊗ₖ C₂ K.2) U (k, l) (k', l') :=
  remap_liouville (Equiv.prodComm ι κ) (Equiv.prodComm γ δ) _ _ (swap_product_basis C₁ C₂) U
    (k, l) (k', l')

end liou

section liouModel
variable {d d' N : ℕ}

/-- **`remap_liouville` for the model of `liouville_representation`**: if the remapped total
propagator is the re-indexed one and basis element `π k` of the remapped pulse is the re-indexed
element `k`, the Liouville matrix computed afresh on the remapped pulse satisfies
`L'[π i][π j] = L[i][j]` — the cached `total_propagator_liouville[perm.T, perm] = L`. -/
theorem remap_liouville_model (e : Fin d ≃ Fin d') (π : Fin N ≃ Fin N) (U : Mat ℂ d d)
    (U' : Mat ℂ d' d') (C : Vector (Mat ℂ d d) N) (C' : Vector (Mat ℂ d' d') N)
    (hU : U'.toMatrix = Matrix.reindex e e U.toMatrix)
    (hC : ∀ k : Fin N, C'[π k].toMatrix = Matrix.reindex e e C[k].toMatrix) (i j : Fin N) :
    (Model.liouville U' C' false)[π i][π j] = (Model.liouville U C false)[i][j] := by
  rw [C15.liouville_entries, C15.liouville_entries, liou_eq, liou_eq, hU]
  exact remap_liouville e π (Spec.basisOf C) (Spec.basisOf C') hC U.toMatrix i j

end liouModel

section cmModel
variable {d d' nG nO nA nK : ℕ}

/-- **The control matrix computed from scratch on the remapped pulse is the cached one with
permuted columns and re-sorted rows** (model level, `Model.controlMatrixFromScratch`, every guard
shape and threshold of the truncated segment integral).  Data of the remapped pulse: eigenvectors
and cumulative propagators re-indexed by `e`, eigenvalues permuted, basis element `π k` the
re-indexed element `k`; the noise operator stored at the new position `j` is the re-indexed old
operator `s j` with its coefficients (`n_opers[n_sort_idx]`, `n_coeffs[n_sort_idx]`); same time
grid.  Then `B'[j][π k][o] = B[s j][k][o]` for every noise operator, basis element and frequency,
which is the assignment `remapped_control_matrix[n_sort_idx.argsort()[:, None], perm] = B`
(`remap_scatter_gather`).  No unitarity, completeness or orthonormality needed. -/
theorem remap_control_matrix_model (kind : MaskKind) (thr : ℝ) (e : Fin d ≃ Fin d')
    (π : Fin nK ≃ Fin nK) (s : Fin nA ≃ Fin nA)
    (ev : Mat ℝ nG d) (V Q : Vector (Mat ℂ d d) nG)
    (ev' : Mat ℝ nG d') (V' Q' : Vector (Mat ℂ d' d') nG)
    (omega : Vec ℝ nO) (basis : Vector (Mat ℂ d d) nK) (basis' : Vector (Mat ℂ d' d') nK)
    (nOpers : Vector (Mat ℂ d d) nA) (nOpers' : Vector (Mat ℂ d' d') nA)
    (nCoeffs nCoeffs' : Mat ℝ nA nG) (dt t : Vec ℝ nG)
    (hV : ∀ g : Fin nG, V'[g].toMatrix = Matrix.reindex e e V[g].toMatrix)
    (hQ : ∀ g : Fin nG, Q'[g].toMatrix = Matrix.reindex e e Q[g].toMatrix)
    (hD : ∀ g : Fin nG, (fun j : Fin d' => ev'[g][j]) = (fun j : Fin d => ev[g][j]) ∘ e.symm)
    (hB : ∀ j : Fin nA, nOpers'[j].toMatrix = Matrix.reindex e e nOpers[s j].toMatrix)
    (hN : ∀ (j : Fin nA) (g : Fin nG), nCoeffs'[j][g] = nCoeffs[s j][g])
    (hC : ∀ k : Fin nK, basis'[π k].toMatrix = Matrix.reindex e e basis[k].toMatrix)
    (j : Fin nA) (k : Fin nK) (o : Fin nO) :
    (controlMatrixFromScratch kind thr ev' V' Q' omega basis' nOpers' nCoeffs' dt t)[j][π k][o]
      = (controlMatrixFromScratch kind thr ev V Q omega basis nOpers nCoeffs dt t)[s j][k][o] := by
  rw [C01.cm_entry, C01.cm_entry]
  refine Finset.sum_congr rfl fun g _ => ?_
  have hev : ∀ m : Fin d', ev'[g][m] = ((fun j : Fin d => ev[g][j]) ∘ e.symm) m :=
    fun m => congrFun (hD g) m
  simp only [hev]
  rw [hV g, hQ g, hB j, hC k, hN j g]
  simp only [reindex_conjTranspose, ← reindex_mul]
  exact cm_sum_reindex e _ _ _ _ (fun x => (firstOrderEntry kind thr x dt[g] : ℂ)) _ _

/-- every Mathlib matrix is the view of a model array, so the hypotheses `hV … hC` of
`remap_control_matrix_model` / `remap_propagators` can be met for every input and every `e` -/
theorem exists_mat_of_matrix {K : Type} {m n : ℕ} (M : Matrix (Fin m) (Fin n) K) :
    ∃ A : Mat K m n, A.toMatrix = M :=
  ⟨Mat.ofFn M, Mat.toMatrix_ofFn M⟩

end cmModel

/-! #### the fidelity filter function for complete bases; failure for incomplete ones -/

section parseval
variable {N N' d d' : ℕ}

/-- **Parseval for a complete Hermitian operator basis**: `Σ_k conj(tr(X C_k)) tr(Y C_k) = tr(X†Y)`
for all matrices `X`, `Y` (completeness in the sense `M = Σ_k tr(M C_k) C_k`). -/
theorem parseval_complete {C : Fin N → Matrix (Fin d) (Fin d) ℂ} (hC : Spec.IsComplete C)
    (hH : ∀ k, (C k)ᴴ = C k) (X Y : Matrix (Fin d) (Fin d) ℂ) :
    ∑ k, starRingEnd ℂ (Matrix.trace (X * C k)) * Matrix.trace (Y * C k) = Matrix.trace (Xᴴ * Y) := by
  conv_rhs => rw [hC Y]
  rw [Matrix.mul_sum, Matrix.trace_sum]
  refine Finset.sum_congr rfl fun k _ => ?_
  rw [Matrix.mul_smul, Matrix.trace_smul, smul_eq_mul, mul_comm]
  congr 1
  rw [starRingEnd_apply, ← Matrix.trace_conjTranspose, Matrix.conjTranspose_mul, hH k,
    Matrix.trace_mul_comm]

/-- **For complete Hermitian bases the (integrand of the) fidelity filter function of the remapped
pulse equals the original one whatever the two bases are** — separable or not, related by the
permutation or not, even of different cardinality: both sides are `tr((U†B_aU)† U†B_bU)`.
This is why `remap` may keep the cached fidelity filter function for a non-Pauli *complete* basis
(e.g. GGM) although it drops the control matrix. -/
theorem remap_filter_function_complete (e : Fin d ≃ Fin d')
    {C : Fin N → Matrix (Fin d) (Fin d) ℂ} {C' : Fin N' → Matrix (Fin d') (Fin d') ℂ}
    (hC : Spec.IsComplete C) (hH : ∀ k, (C k)ᴴ = C k)
    (hC' : Spec.IsComplete C') (hH' : ∀ k, (C' k)ᴴ = C' k)
    (U Ba Bb : Matrix (Fin d) (Fin d) ℂ) :
    ∑ K, starRingEnd ℂ (Matrix.trace ((Matrix.reindex e e U)ᴴ * Matrix.reindex e e Ba
            * Matrix.reindex e e U * C' K))
          * Matrix.trace ((Matrix.reindex e e U)ᴴ * Matrix.reindex e e Bb
            * Matrix.reindex e e U * C' K)
      = ∑ k, starRingEnd ℂ (Matrix.trace (Uᴴ * Ba * U * C k)) * Matrix.trace (Uᴴ * Bb * U * C k) := by
  rw [parseval_complete hC' hH', parseval_complete hC hH, reindex_conjTranspose, ← reindex_mul,
    ← reindex_mul, ← reindex_mul, ← reindex_mul, reindex_conjTranspose, ← reindex_mul,
    trace_reindex]

end parseval

/-- **`remap` is wrong for an incomplete basis that is not invariant under the permutation.**
`remap` keeps the basis of the pulse and the cached fidelity filter function
(`F[n_sort_idx, n_sort_idx]`) for *every* basis type.  Take two qubits, the one-element
orthonormal Hermitian family `C_0 = (σ_x ⊗ 1)/2`, an idle pulse (`U = 1`) and the noise operator
`σ_x ⊗ 1`; swapping the qubits gives the noise operator `1 ⊗ σ_x`.  The integrand of the original
control matrix is `tr((σ_x⊗1) C_0) = 2`, that of the rebuilt pulse `tr((1⊗σ_x) C_0) = 0`: the
retained filter function is not the one of the rebuilt pulse.  (Python witness: basis
`Basis([1, XI, YI, ZI]/2)`, `remap(pulse, (1, 0))` returns a pulse that compares equal to the
rebuilt one but carries `F = 11.19…` instead of `0`.) -/
theorem remap_ff_incomplete_basis_counterexample :
    let σx : Matrix (Fin 2) (Fin 2) ℂ := !![0, 1; 1, 0]
    let C₀ : Matrix (Fin 2 × Fin 2) (Fin 2 × Fin 2) ℂ := (1 / 2 : ℂ) • (σx ⊗ₖ (1 : Matrix (Fin 2) (Fin 2) ℂ))
    C₀ᴴ = C₀ ∧ Matrix.trace (C₀ * C₀) = 1 ∧
    Matrix.trace ((σx ⊗ₖ (1 : Matrix (Fin 2) (Fin 2) ℂ)) * C₀) = 2 ∧
    Matrix.trace (Matrix.reindex (Equiv.prodComm _ _) (Equiv.prodComm _ _)
      (σx ⊗ₖ (1 : Matrix (Fin 2) (Fin 2) ℂ)) * C₀) = 0 := by
  intro σx C₀
  have hxx : σx * σx = 1 := by
    ext i j; fin_cases i <;> fin_cases j <;> simp [σx, Matrix.mul_apply, Fin.sum_univ_two]
  have hxH : σxᴴ = σx := by
    ext i j; fin_cases i <;> fin_cases j <;> simp [σx, Matrix.conjTranspose_apply]
  have htx : Matrix.trace σx = 0 := by simp [σx, Matrix.trace_fin_two]
  have ht1 : Matrix.trace (1 : Matrix (Fin 2) (Fin 2) ℂ) = 2 := by simp
  refine ⟨?_, ?_, ?_, ?_⟩
  · simp only [C₀]
    rw [Matrix.conjTranspose_smul, conjTranspose_kronecker, hxH, Matrix.conjTranspose_one]
    congr 1
    simp
  · simp only [C₀]
    rw [Matrix.smul_mul, Matrix.mul_smul, ← mul_kronecker_mul, hxx, Matrix.one_mul, smul_smul,
      Matrix.trace_smul, trace_kronecker, ht1, smul_eq_mul]
    norm_num
  · simp only [C₀]
    rw [Matrix.mul_smul, ← mul_kronecker_mul, hxx, Matrix.one_mul, Matrix.trace_smul,
      trace_kronecker, ht1, smul_eq_mul]
    norm_num
  · simp only [C₀]
    rw [KronAux.swap_kron, Matrix.mul_smul, ← mul_kronecker_mul, Matrix.one_mul, Matrix.mul_one,
      Matrix.trace_smul, trace_kronecker, htx, smul_eq_mul]
    norm_num

/-! #### relation of `π` to `basis.remap_pauli_basis_elements` -/

/-- For two qubits and `order = (1, 0)`, `remap_pauli_basis_elements` is the label permutation
`(k, l) ↦ (l, k)` on flattened indices, i.e. the `π` of `remap_liouville_swap`. -/
theorem remapPauli_swap :
    ∀ k l : Fin 4, (Model.Tensor.remapPauli [1, 0] 2)[(finProdFinEquiv (k, l)).1]?
      = some (finProdFinEquiv (l, k)).1 := by
  decide

/-- row-major index of a Pauli label tuple `a : Fin n → Fin 4` -/
def pauliIndex {n : ℕ} (a : Fin n → Fin 4) : ℕ :=
  Model.Tensor.mixedRadixEncode (List.replicate n 4) (List.ofFn fun i => (a i).1)

/-- **`remap_pauli_basis_elements(order, N)` is `π : a ↦ a ∘ σ` on flattened labels**, for every
number of qubits and every `order = (σ 0, …, σ (n-1))` (any map `σ`, permutation or not): the entry
at the flattened index of the tuple `a` is the flattened index of `a ∘ σ` — the label of the
transposed basis element `σ_{a(σ 0)} ⊗ ⋯ ⊗ σ_{a(σ(n-1))} = tensor_transpose(C_a, order)`
(`tensor_transpose_pi`).  From `C16.remapPauli_spec`. -/
theorem remapPauli_pi {n : ℕ} (σ : Fin n → Fin n) (a : Fin n → Fin 4) :
    (Model.Tensor.remapPauli (List.ofFn fun j => (σ j).1) n)[pauliIndex a]?
      = some (pauliIndex (a ∘ σ)) := by
  have hb : Model.Tensor.inBounds (List.replicate n 4) (List.ofFn fun i => (a i).1) = true := by
    rw [TensorAux.inBounds_replicate_iff]
    refine ⟨List.length_ofFn, ?_⟩
    intro x hx
    rw [List.mem_ofFn] at hx
    obtain ⟨i, rfl⟩ := hx
    exact (a i).2
  unfold pauliIndex
  rw [C16.remapPauli_spec _ n _ hb]
  congr 2
  rw [List.map_ofFn]
  congr 1
  funext j
  simp only [Function.comp_apply]
  rw [List.getD_eq_getElem?_getD, List.getElem?_ofFn]
  simp

/-- the identity order leaves every basis label in place -/
theorem remapPauli_id {n : ℕ} (a : Fin n → Fin 4) :
    (Model.Tensor.remapPauli (List.ofFn fun j : Fin n => j.1) n)[pauliIndex a]?
      = some (pauliIndex a) :=
  remapPauli_pi id a

/-! ### 8. `n` factors: transposition is a re-indexing; composition; identity; bookkeeping -/

section pi
variable {n : ℕ} {ι : Type*}

/-- **`tensor_transpose` on `n` factors is a re-indexing**: the product with permuted factors
`A_{σ 0} ⊗ ⋯ ⊗ A_{σ(n-1)}` is `A_0 ⊗ ⋯ ⊗ A_{n-1}` with rows and columns re-indexed by
`x ↦ x ∘ σ` on index tuples.  Hence `swap_kron`-type statements (`remap_isEigh_gen`,
`remap_propagators_gen`, `remap_liouville`, `remap_control_matrix`) apply with
`e = tposeEquiv σ`; for a product basis `C_a = ⊗_i P_{a i}` the transposed element is
`C_{a ∘ σ}`, so `π = tposeEquiv σ` on labels (`remapPauli_pi`). -/
theorem tensor_transpose_pi (A : Fin n → Matrix ι ι ℂ) (σ : Equiv.Perm (Fin n)) :
    piKron (A ∘ σ) = Matrix.reindex (tposeEquiv σ) (tposeEquiv σ) (piKron A) :=
  piKron_comp_perm A σ

/-- product-basis elements under a transposition: `hC` of `remap_liouville` holds with
`e = π = tposeEquiv σ` and `C' = C`. -/
theorem product_basis_transpose {γ : Type*} (P : γ → Matrix ι ι ℂ) (σ : Equiv.Perm (Fin n))
    (a : Fin n → γ) :
    (fun b : Fin n → γ => piKron fun i => P (b i)) (tposeEquiv σ a)
      = Matrix.reindex (tposeEquiv σ) (tposeEquiv σ) (piKron fun i => P (a i)) := by
  rw [← piKron_comp_perm, tposeEquiv_apply]
  rfl

/-- **Permutations compose**: remapping by `σ` and then by `τ` re-indexes by `x ↦ x ∘ (σ * τ)`,
i.e. is the remap by the order `j ↦ σ (τ j)` (cf. `C16.transposeResult_comp` on factor lists). -/
theorem remap_compose (σ τ : Equiv.Perm (Fin n)) (M : Matrix (Fin n → ι) (Fin n → ι) ℂ) :
    Matrix.reindex (tposeEquiv τ) (tposeEquiv τ) (Matrix.reindex (tposeEquiv σ) (tposeEquiv σ) M)
      = Matrix.reindex (tposeEquiv (σ * τ)) (tposeEquiv (σ * τ)) M := by
  rw [← tposeEquiv_mul]
  rfl

/-- … and so do the label permutations of the basis: `π_τ (π_σ a) = π_{σ τ} a`. -/
theorem remap_compose_labels {γ : Type*} (σ τ : Equiv.Perm (Fin n)) (a : Fin n → γ) :
    tposeEquiv τ (tposeEquiv σ a) = tposeEquiv (σ * τ) a := by
  rw [← tposeEquiv_mul]
  rfl

/-- **The identity permutation changes nothing**: operators, eigen-data, propagators (re-indexing
by the identity) and labels. -/
theorem remap_id (M : Matrix (Fin n → ι) (Fin n → ι) ℂ) :
    Matrix.reindex (tposeEquiv (1 : Equiv.Perm (Fin n))) (tposeEquiv 1) M = M := by
  rw [tposeEquiv_one]
  rfl

theorem remap_id_labels {γ : Type*} (a : Fin n → γ) :
    tposeEquiv (1 : Equiv.Perm (Fin n)) a = a := by
  rw [tposeEquiv_one]
  rfl

/-- general (not necessarily tuple-indexed) form: re-indexings compose and the identity bijection
is the identity -/
theorem reindex_compose {κ μ : Type*} (e₁ : ι ≃ κ) (e₂ : κ ≃ μ) (M : Matrix ι ι ℂ) :
    Matrix.reindex e₂ e₂ (Matrix.reindex e₁ e₁ M) = Matrix.reindex (e₁.trans e₂) (e₁.trans e₂) M :=
  rfl

theorem reindex_refl (M : Matrix ι ι ℂ) : Matrix.reindex (Equiv.refl ι) (Equiv.refl ι) M = M :=
  rfl

end pi

/-! #### identifier bookkeeping (`_map_identifiers`, `argsort`) -/

/-- **`n_sort_idx.argsort()` is the inverse permutation.**  If the new operator list is the old one
gathered by `sort_idx` (`n_opers[sort_idx]`: new row `j` = old row `sort_idx[j]`), then old row `a`
sits at new position `argsort(sort_idx)[a]`: list model with `argsort` = indices sorted by key
(merge sort), `sort_idx` any permutation of `0..n-1`. -/
theorem argsort_is_inverse (s : List ℕ) (n : ℕ) (hs : s.Perm (List.range n)) (j : ℕ) (hj : j < n) :
    ∃ a, s[j]? = some a ∧ (argsort s)[a]? = some j :=
  argsort_apply_perm s n hs j hj

/-- `np.argsort` of any key list is a permutation of `0..n-1` (so `sort_idx` qualifies) -/
theorem argsort_is_perm {α : Type*} [LinearOrder α] (ids : List α) :
    (argsort ids).Perm (List.range ids.length) :=
  argsort_perm ids

/-- the same as a statement about permutations of `Fin n` -/
theorem argsort_perm_eq_symm {n : ℕ} (s : Equiv.Perm (Fin n)) :
    argsort (List.ofFn fun j => (s j).1) = List.ofFn fun a => (s.symm a).1 :=
  argsort_ofFn_perm s

/-- `sort_idx = [2, 0, 3, 1]` is an admissible input of `argsort_is_inverse`; its inverse is
`[1, 3, 0, 2]` -/
example : ([2, 0, 3, 1] : List ℕ).Perm (List.range 4) := by decide
example : argsort ([2, 0, 3, 1] : List ℕ) = [1, 3, 0, 2] := by
  simp [argsort, List.zipIdx, List.mergeSort, List.MergeSort.Internal.splitInTwo]

section ff
variable {nA nK : ℕ}

/-- fidelity filter function of a control matrix at one frequency -/
def ffOf {ρ γ : Type*} [Fintype γ] (B : ρ → γ → ℂ) (a b : ρ) : ℂ :=
  ∑ K, starRingEnd ℂ (B a K) * B b K

/-- **Scatter = gather with the inverse permutations.**  The assignment
`remapped[n_sort_idx.argsort()[:, None], perm] = B` (with `argsort(s) = s⁻¹`,
`argsort_perm_eq_symm`) defines `B'[j][K] = B[s j][π⁻¹ K]`: new row `j` is the control matrix of
the old operator `s j` — the operator now stored at position `j` — with columns permuted by `π`. -/
theorem remap_scatter_gather (s : Equiv.Perm (Fin nA)) (π : Equiv.Perm (Fin nK))
    (B B' : Fin nA → Fin nK → ℂ) (h : ∀ a k, B' (s.symm a) (π k) = B a k) (j : Fin nA)
    (K : Fin nK) : B' j K = B (s j) (π.symm K) := by
  have := h (s j) (π.symm K)
  simpa using this

/-- **The filter function of the remapped pulse**: with the remapped control matrix of
`remap_scatter_gather`, `F'[j][j'] = Σ_K conj(B'[j][K]) B'[j'][K] = F[s j][s j']` — the gather
`pulse.get_filter_function(omega)[n_sort_idx[:, None], n_sort_idx[None, :]]`; the permutation `π`
of the basis labels drops out of the sum. -/
theorem remap_filter_function (s : Equiv.Perm (Fin nA)) (π : Equiv.Perm (Fin nK))
    (B B' : Fin nA → Fin nK → ℂ) (h : ∀ a k, B' (s.symm a) (π k) = B a k) (j j' : Fin nA) :
    ffOf B' j j' = ffOf B (s j) (s j') := by
  unfold ffOf
  refine (Fintype.sum_equiv π _ _ fun k => ?_).symm
  have h1 := h (s j) k
  have h2 := h (s j') k
  simp only [Equiv.symm_apply_apply] at h1 h2
  rw [h1, h2]

/-- composition of the bookkeeping: remapping with row permutations `s`, then `s'`, gathers the
filter function by `s * s'` (`F''[j][j'] = F[s (s' j)][s (s' j')]`), and the identity gathers
nothing. -/
theorem remap_filter_function_compose (s s' : Equiv.Perm (Fin nA)) (F F' F'' : Fin nA → Fin nA → ℂ)
    (h : ∀ j j', F' j j' = F (s j) (s j')) (h' : ∀ j j', F'' j j' = F' (s' j) (s' j'))
    (j j' : Fin nA) : F'' j j' = F ((s * s') j) ((s * s') j') := by
  rw [h', h]
  rfl

end ff

end FFVerif.C06
