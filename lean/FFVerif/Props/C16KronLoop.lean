/-
Property C16 (numeric part, continued) — `tensor_insert` with SEVERAL inserted factors computes the
documented Kronecker chain numerically.

Objects: the executable array model `FFVerif.Model.TensorNum` (`rank = 2`, no broadcast axes),
`tensorInsertNum` = `util.tensor_insert` for a sequence `pos`: normalisation (`divmod`), stable sort
by position, loop `single_tensor_insert(result, arg, carr_dims, p + i)` with the dimension
bookkeeping `axis.insert(p, d)` AS IN THE SOURCE (recorded at `p`, not at `p + i`).
Specification vocabulary: `IsChain` (`Lemmas/TensorNumAux`), `insertSpec` (NumPy-`insert` on lists),
`normNat`; the factor order is the one of `C16.insertResult_spec`.
-/
import FFVerif.Lemmas.TensorNumLoopAux
import FFVerif.Props.C16KronIns

namespace FFVerif.C16Kron
open FFVerif.Model.Tensor FFVerif.Model.TensorNum FFVerif.TensorAux FFVerif.TensorNumAux

variable {α : Type} [CommSemiring α]

/-- **The `carr_dims` discrepancy (`p` versus `p + i`) is harmless numerically.**
`single_tensor_insert` returns the same array for any two recorded dimension lists of equal length
whose total products and whose products behind the split position agree (numeric counterpart of
`C16.splitInsertIndex_bookkeeping`). -/
theorem singleInsertNum_bookkeeping (T : NArr α) (a b : Nat) (dat : Array α)
    (C D : List (NArr α)) (s : Nat) (hTs : T.shape = [prod (rowsOf C), prod (colsOf C)])
    (hne : C ≠ []) (hlen : D.length = C.length) (hs : s ≤ C.length)
    (hlet : (C.length + 1) * 2 ≤ 52)
    (hrt : prod (rowsOf D) = prod (rowsOf C)) (hct : prod (colsOf D) = prod (colsOf C))
    (hr : prod ((rowsOf D).drop s) = prod ((rowsOf C).drop s))
    (hc : prod ((colsOf D).drop s) = prod ((colsOf C).drop s)) :
    singleInsertNum T (⟨[a, b], dat⟩ : NArr α) (rowsOf D) (colsOf D) s
      = singleInsertNum T (⟨[a, b], dat⟩ : NArr α) (rowsOf C) (colsOf C) s :=
  singleInsertNum_congr T a b dat C D s hTs hne hlen hs hlet hrt hct hr hc

/-- **Inserting several factors into a formed product** (`IsChain` form).  For every Kronecker chain
`T` of a non-empty list `L` of arbitrary heterogeneous shapes, every non-empty list `A` of
well-formed matrices, every position sequence of length `len(A)` with entries in
`[-len(L), len(L)]` (negative, repeated and end positions included) and as long as the 52 letters
suffice, `tensor_insert(T, *A, pos=pos, arr_dims=…)` succeeds and is the Kronecker chain of
`numpy.insert(L, pos, A)` (`insertSpec`, the order of `C16.insertResult_spec`). -/
theorem tensorInsertNum_isChain' (T : NArr α) (L A : List (NArr α)) (pos : List Int)
    (hL : IsChain T L) (hLne : L ≠ []) (hAne : A ≠ []) (hmA : ∀ X ∈ A, IsMat X)
    (hl : pos.length = A.length)
    (hadm : ∀ p ∈ pos, -(L.length : Int) ≤ p ∧ p ≤ L.length)
    (hlet : (L.length + A.length) * 2 ≤ 52) :
    ∃ T', tensorInsertNum T A pos [rowsOf L, colsOf L] = .ok T' ∧
      IsChain T' (insertSpec 0 L ((pos.map (normNat L.length)).zip A)) :=
  tensorInsertNum_isChain T L A pos hL hLne hAne hmA hl hadm hlet

/-- **`tensor_insert(tensor(*L), *A, pos=pos, …) = tensor(*numpy.insert(L, pos, A))` as arrays**
(shape and buffer), for all non-empty lists of well-formed matrices of arbitrary shapes and all
admissible position sequences. -/
theorem tensorInsertNum_eq_chain (L A : List (NArr α)) (pos : List Int) (hLne : L ≠ [])
    (hAne : A ≠ []) (hmL : ∀ X ∈ L, IsMat X) (hmA : ∀ X ∈ A, IsMat X)
    (hl : pos.length = A.length)
    (hadm : ∀ p ∈ pos, -(L.length : Int) ≤ p ∧ p ≤ L.length)
    (hlet : (L.length + A.length) * 2 ≤ 52) :
    ∃ T T', tensorChainNum L = .ok T ∧
      tensorInsertNum T A pos [rowsOf L, colsOf L] = .ok T' ∧
      tensorChainNum (insertSpec 0 L ((pos.map (normNat L.length)).zip A)) = .ok T' := by
  obtain ⟨T, hT, hcT⟩ := tensorChainNum_isChain L hLne hmL
  obtain ⟨T', hT', hc'⟩ := tensorInsertNum_isChain T L A pos hcT hLne hAne hmA hl hadm hlet
  have hnpl : (pos.map (normNat L.length)).length = A.length := by simp [hl]
  have hnpadm : ∀ q ∈ pos.map (normNat L.length), q ≤ L.length := by
    intro q hq
    obtain ⟨p, hp, rfl⟩ := List.mem_map.1 hq
    exact normNat_le (hadm p hp)
  have hm' : ∀ X ∈ insertSpec 0 L ((pos.map (normNat L.length)).zip A), IsMat X := by
    intro X hX
    rcases mem_insertSpec_merge L A _ hnpl hnpadm X hX with h | h
    · exact hmA X h
    · exact hmL X h
  have hne' : insertSpec 0 L ((pos.map (normNat L.length)).zip A) ≠ [] := by
    intro h
    have hp := mergeSigma_perm A.length L.length _ hnpl hnpadm
    have hlen := perm_length hp
    rw [← mergeSigma_factors A L _ hnpl] at h
    have := congrArg List.length h
    rw [List.length_map, hlen, List.length_nil] at this
    have hpos : 0 < L.length := List.length_pos_iff.2 hLne
    omega
  obtain ⟨T'', hT'', hc''⟩ := tensorChainNum_isChain _ hne' hm'
  rw [isChain_unique hc'' hc'] at hT''
  exact ⟨T, T', hT, hT', hT''⟩

/-- `tensor_insert` and `tensor_merge` agree numerically (the doctest
`tensor_merge(arr, tensor(I, X), pos=[0, 0], …) == tensor_insert(arr, I, X, pos=[0, 0], …)` for all
inputs): merging the formed product of `A` equals inserting the factors of `A` one by one. -/
theorem tensorInsertNum_eq_tensorMergeNum (L A : List (NArr α)) (pos : List Int) (hLne : L ≠ [])
    (hAne : A ≠ []) (hmL : ∀ X ∈ L, IsMat X) (hmA : ∀ X ∈ A, IsMat X)
    (hl : pos.length = A.length)
    (hadm : ∀ p ∈ pos, -(L.length : Int) ≤ p ∧ p ≤ L.length)
    (hlet : (L.length + A.length) * 2 ≤ 52) :
    ∃ T TA T', tensorChainNum L = .ok T ∧ tensorChainNum A = .ok TA ∧
      tensorInsertNum T A pos [rowsOf L, colsOf L] = .ok T' ∧
      tensorMergeNum T TA pos [rowsOf L, colsOf L] [rowsOf A, colsOf A] = .ok T' := by
  obtain ⟨T, hT, hcT⟩ := tensorChainNum_isChain L hLne hmL
  obtain ⟨TA, hTA, hcA⟩ := tensorChainNum_isChain A hAne hmA
  obtain ⟨T', hT', hc'⟩ := tensorInsertNum_isChain T L A pos hcT hLne hAne hmA hl hadm hlet
  obtain ⟨T'', hT'', hc''⟩ := tensorMergeNum_isChain T TA L A pos hcT hcA hLne hAne hl hadm
    (by omega)
  rw [isChain_unique hc'' hc'] at hT''
  exact ⟨T, TA, T', hT, hTA, hT', hT''⟩

/-- **Integer `pos` with several arguments**: `tensor_insert(T, *A, pos=p, arr_dims=…)` tensors the
arguments first (`util.tensor`, binary tree) and inserts the block; for a Kronecker chain `T` of a
non-empty `L`, non-empty `A` of well-formed matrices and `p ∈ [-len(L), len(L)]` the result is the
Kronecker chain of `L[:q] ++ A ++ L[q:]` (`q` = the index `p` stands for; the order of
`C16.insertResultInt_spec`). -/
theorem tensorInsertNumInt_isChain' (T : NArr α) (L A : List (NArr α)) (p : Int)
    (hL : IsChain T L) (hLne : L ≠ []) (hAne : A ≠ []) (hmA : ∀ X ∈ A, IsMat X)
    (hadm : -(L.length : Int) ≤ p ∧ p ≤ L.length) (hlet : (L.length + 1) * 2 ≤ 52) :
    ∃ T', tensorInsertNumInt T A p [rowsOf L, colsOf L] = .ok T' ∧
      IsChain T' (L.take (normNat L.length p) ++ (A ++ L.drop (normNat L.length p))) :=
  tensorInsertNumInt_isChain T L A p hL hLne hAne hmA hadm hlet

/-- a factor of a Kronecker chain that is itself a Kronecker chain may be replaced by its factors
(associativity of the chain at the level of arrays) -/
theorem isChain_flatten' (T B : NArr α) (L1 L2 A : List (NArr α))
    (hT : IsChain T (L1 ++ ([B] ++ L2))) (hB : IsChain B A) : IsChain T (L1 ++ (A ++ L2)) :=
  isChain_flatten T B L1 L2 A hT hB

/-! ### non-vacuity: tied positions, where the recorded dimensions differ from the true order -/

set_option maxRecDepth 8000 in
example : ((tensorChainNum [exB]).toOption.bind fun T =>
      (tensorInsertNum T [exC, exB, exC] [0, -1, 0] [[1], [2]]).toOption).map
        (fun T => (T.shape, T.data))
    = (tensorChainNum [exC, exB, exC, exB]).toOption.map (fun T => (T.shape, T.data)) := by
  decide

example : insertSpec 0 [10] ((([0, -1, 0] : List Int).map (normNat 1)).zip [0, 1, 2])
    = [0, 1, 2, 10] := by decide

end FFVerif.C16Kron
