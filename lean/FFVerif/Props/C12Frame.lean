/-
C12 (continued) — frame covariance and independence of the energy zero BEYOND FIRST ORDER:
second-order filter function (`Model.secondOrderFFFromScratch`), frequency shifts
(`Model.frequencyShifts1/2/3`), trace tensor / cumulant function (`Model.fourElementTraces`,
`Model.cumulantGeneral`) and error transfer matrix (`NormedSpace.exp` of the summed cumulant
function, as in `Props/C12Etm.lean`).

Transformations (the same data as in `C12.cm_energy_offset` / `C12.cm_frame_covariance`):
* energy zero: eigenvalues of segment `g` shifted by a real `c g`, cumulative propagator `props[g]`
  multiplied by ANY number `u g` of modulus one (the real ones are `exp(-i Σ_{g' ≤ g} c_g' dt_g')`);
* frame: one fixed isometry `W` (`W†W = 1`, a unitary in finite dimension): eigenvectors
  `V_g ↦ W V_g`, propagators `Q_g ↦ W Q_g W†`, noise operators `B ↦ W B W†`, basis elements
  `C ↦ W C W†`, all formed with the model's own `Mat.mul` / `Mat.adjoint`.
Every statement holds for every guard of `_first_order_integral`, all dimensions, segment counts,
frequencies, operators Hermitian or not.
Property theorems only (helper lemmas: FFVerif/Lemmas/C12FrameAux.lean).
-/
import FFVerif.Lemmas.C12FrameAux
import FFVerif.Props.C12
import FFVerif.Props.C12Etm
import FFVerif.Props.C10Shifts
import FFVerif.Props.C13SecondShifts
import FFVerif.Props.C01Bound

namespace FFVerif.C12
open FFVerif FFVerif.Model FFVerif.SecondOrderInv FFVerif.FrameAux Complex Matrix NormedSpace

variable {nG d nO nA N m : ℕ}

/-! ### Vocabulary -/

/-- `W X W†` with the model's own operations -/
noncomputable abbrev conjBy (W X : Mat ℂ d d) : Mat ℂ d d := Mat.mul (Mat.mul W X) (Mat.adjoint W)

/-- eigenvalues of segment `g` shifted by `c g` -/
noncomputable abbrev shiftEig (c : Fin nG → ℝ) (eigvals : Mat ℝ nG d) : Mat ℝ nG d :=
  Vector.ofFn fun g => Vector.map (· + c g) eigvals[g]

/-- cumulative propagator of segment `g` multiplied by `u g` -/
noncomputable abbrev phaseProps (u : Fin nG → ℂ) (props : Vector (Mat ℂ d d) nG) : Vector (Mat ℂ d d) nG :=
  Vector.ofFn fun g => Mat.smul (u g) props[g]

theorem conjBy_toMatrix (W X : Mat ℂ d d) :
    (conjBy W X).toMatrix = W.toMatrix * X.toMatrix * (W.toMatrix)ᴴ := conj_toMatrix W X

/-! ### 1. Second-order filter function -/

/-- **`secondOrderFF_energy_offset`: the second-order filter function does not depend on the energy
zero** (time-dependent offsets allowed).  Adding a real `c g` to all eigenvalues of segment `g` and
multiplying the cumulative propagator `props[g]` by any `u g` with `|u g| = 1` leaves every entry of
`calculate_second_order_filter_function` (no cached intermediates) unchanged: the kernel
`_second_order_integral` and the one-segment control matrices see eigenvalue differences only, and
`basis_transformed = (Q†V)† C (Q†V)` loses the phase. -/
theorem secondOrderFF_energy_offset (kind : MaskKind) (thr : ℝ)
    (eigvals : Mat ℝ nG d) (eigvecs props : Vector (Mat ℂ d d) nG) (omega : Vec ℝ nO)
    (basis : Vector (Mat ℂ d d) N) (nOpers : Vector (Mat ℂ d d) nA) (nCoeffs : Mat ℝ nA nG)
    (dt t : Vec ℝ nG) (c : Fin nG → ℝ) (u : Fin nG → ℂ) (hu : ∀ g, ‖u g‖ = 1)
    (a b : Fin nA) (k l : Fin N) (o : Fin nO) :
    (secondOrderFFFromScratch kind thr (Vector.ofFn fun g => Vector.map (· + c g) eigvals[g])
        eigvecs (Vector.ofFn fun g => Mat.smul (u g) props[g]) omega basis nOpers nCoeffs dt
        t)[a][b][k][l][o]
      = (secondOrderFFFromScratch kind thr eigvals eigvecs props omega basis nOpers nCoeffs dt
          t)[a][b][k][l][o] := by
  rw [F2_entry, F2_entry]
  congr 1 <;> funext g <;>
    simp only [InvAux.vec_ofFn_get, InvAux.vec_map_get, bMat_phase _ (hu g)]
  · exact segStep_shift _ _ _ _ _ _ _ _
  · exact congrArg _ (segCm_shift _ _ _ _ _ _ _ _ _)
  · exact segCm_shift _ _ _ _ _ _ _ _ _

/-- **`secondOrderFF_frame_covariance`: the second-order filter function is frame independent.**
Conjugating eigenvectors (`V_g ↦ W V_g`), cumulative propagators, noise operators and basis
elements (`X ↦ W X W†`) by one fixed isometry `W` leaves every entry of
`calculate_second_order_filter_function` (no cached intermediates) unchanged:
`n_opers_transformed = V†BV` and `basis_transformed = (Q†V)† C (Q†V)` are invariant segment by
segment. -/
theorem secondOrderFF_frame_covariance (kind : MaskKind) (thr : ℝ)
    (eigvals : Mat ℝ nG d) (eigvecs props : Vector (Mat ℂ d d) nG) (omega : Vec ℝ nO)
    (basis : Vector (Mat ℂ d d) N) (nOpers : Vector (Mat ℂ d d) nA) (nCoeffs : Mat ℝ nA nG)
    (dt t : Vec ℝ nG) (W : Mat ℂ d d) (hW : (W.toMatrix)ᴴ * W.toMatrix = 1)
    (a b : Fin nA) (k l : Fin N) (o : Fin nO) :
    (secondOrderFFFromScratch kind thr eigvals
        (Vector.map (fun V => Mat.mul W V) eigvecs)
        (Vector.map (fun Q => Mat.mul (Mat.mul W Q) (Mat.adjoint W)) props) omega
        (Vector.map (fun C => Mat.mul (Mat.mul W C) (Mat.adjoint W)) basis)
        (Vector.map (fun B => Mat.mul (Mat.mul W B) (Mat.adjoint W)) nOpers) nCoeffs dt
        t)[a][b][k][l][o]
      = (secondOrderFFFromScratch kind thr eigvals eigvecs props omega basis nOpers nCoeffs dt
          t)[a][b][k][l][o] := by
  rw [F2_entry, F2_entry]
  simp only [InvAux.vec_map_get, nMat_frame _ _ _ _ hW, bMat_frame _ _ _ _ hW]

/-! ### 2. Frequency shifts -/

/-- **`frequency_shifts_energy_offset`: `calculate_frequency_shifts` does not depend on the energy
zero**, for every spectrum shape (one spectrum, one per noise operator, cross-spectral matrix),
every selection of noise operators and every frequency grid. -/
theorem frequency_shifts_energy_offset (kind : MaskKind) (thr : ℝ)
    (eigvals : Mat ℝ nG d) (eigvecs props : Vector (Mat ℂ d d) nG) (omega : Vec ℝ nO)
    (basis : Vector (Mat ℂ d d) N) (nOpers : Vector (Mat ℂ d d) nA) (nCoeffs : Mat ℝ nA nG)
    (dt t : Vec ℝ nG) (c : Fin nG → ℝ) (u : Fin nG → ℂ) (hu : ∀ g, ‖u g‖ = 1)
    (idx : Vec (Fin nA) m) (S1 : Vec ℂ nO) (S2 : Mat ℂ m nO) (S3 : Ten3 ℂ m m nO) :
    frequencyShifts1 omega (secondOrderFFFromScratch kind thr
        (Vector.ofFn fun g => Vector.map (· + c g) eigvals[g]) eigvecs
        (Vector.ofFn fun g => Mat.smul (u g) props[g]) omega basis nOpers nCoeffs dt t) idx S1
      = frequencyShifts1 omega (secondOrderFFFromScratch kind thr eigvals eigvecs props omega basis
        nOpers nCoeffs dt t) idx S1 ∧
    frequencyShifts2 omega (secondOrderFFFromScratch kind thr
        (Vector.ofFn fun g => Vector.map (· + c g) eigvals[g]) eigvecs
        (Vector.ofFn fun g => Mat.smul (u g) props[g]) omega basis nOpers nCoeffs dt t) idx S2
      = frequencyShifts2 omega (secondOrderFFFromScratch kind thr eigvals eigvecs props omega basis
        nOpers nCoeffs dt t) idx S2 ∧
    frequencyShifts3 omega (secondOrderFFFromScratch kind thr
        (Vector.ofFn fun g => Vector.map (· + c g) eigvals[g]) eigvecs
        (Vector.ofFn fun g => Mat.smul (u g) props[g]) omega basis nOpers nCoeffs dt t) idx S3
      = frequencyShifts3 omega (secondOrderFFFromScratch kind thr eigvals eigvecs props omega basis
        nOpers nCoeffs dt t) idx S3 :=
  C10.frequency_shifts_congr omega _ _ idx
    (fun a b k l o => secondOrderFF_energy_offset kind thr eigvals eigvecs props omega basis nOpers
      nCoeffs dt t c u hu a b k l o) S1 S2 S3

/-- **`frequency_shifts_frame_independent`: `calculate_frequency_shifts` is frame independent**,
for every spectrum shape, every selection of noise operators and every frequency grid. -/
theorem frequency_shifts_frame_independent (kind : MaskKind) (thr : ℝ)
    (eigvals : Mat ℝ nG d) (eigvecs props : Vector (Mat ℂ d d) nG) (omega : Vec ℝ nO)
    (basis : Vector (Mat ℂ d d) N) (nOpers : Vector (Mat ℂ d d) nA) (nCoeffs : Mat ℝ nA nG)
    (dt t : Vec ℝ nG) (W : Mat ℂ d d) (hW : (W.toMatrix)ᴴ * W.toMatrix = 1)
    (idx : Vec (Fin nA) m) (S1 : Vec ℂ nO) (S2 : Mat ℂ m nO) (S3 : Ten3 ℂ m m nO) :
    frequencyShifts1 omega (secondOrderFFFromScratch kind thr eigvals
        (Vector.map (fun V => Mat.mul W V) eigvecs)
        (Vector.map (fun Q => Mat.mul (Mat.mul W Q) (Mat.adjoint W)) props) omega
        (Vector.map (fun C => Mat.mul (Mat.mul W C) (Mat.adjoint W)) basis)
        (Vector.map (fun B => Mat.mul (Mat.mul W B) (Mat.adjoint W)) nOpers) nCoeffs dt t) idx S1
      = frequencyShifts1 omega (secondOrderFFFromScratch kind thr eigvals eigvecs props omega basis
        nOpers nCoeffs dt t) idx S1 ∧
    frequencyShifts2 omega (secondOrderFFFromScratch kind thr eigvals
        (Vector.map (fun V => Mat.mul W V) eigvecs)
        (Vector.map (fun Q => Mat.mul (Mat.mul W Q) (Mat.adjoint W)) props) omega
        (Vector.map (fun C => Mat.mul (Mat.mul W C) (Mat.adjoint W)) basis)
        (Vector.map (fun B => Mat.mul (Mat.mul W B) (Mat.adjoint W)) nOpers) nCoeffs dt t) idx S2
      = frequencyShifts2 omega (secondOrderFFFromScratch kind thr eigvals eigvecs props omega basis
        nOpers nCoeffs dt t) idx S2 ∧
    frequencyShifts3 omega (secondOrderFFFromScratch kind thr eigvals
        (Vector.map (fun V => Mat.mul W V) eigvecs)
        (Vector.map (fun Q => Mat.mul (Mat.mul W Q) (Mat.adjoint W)) props) omega
        (Vector.map (fun C => Mat.mul (Mat.mul W C) (Mat.adjoint W)) basis)
        (Vector.map (fun B => Mat.mul (Mat.mul W B) (Mat.adjoint W)) nOpers) nCoeffs dt t) idx S3
      = frequencyShifts3 omega (secondOrderFFFromScratch kind thr eigvals eigvecs props omega basis
        nOpers nCoeffs dt t) idx S3 :=
  C10.frequency_shifts_congr omega _ _ idx
    (fun a b k l o => secondOrderFF_frame_covariance kind thr eigvals eigvecs props omega basis
      nOpers nCoeffs dt t W hW a b k l o) S1 S2 S3

/-! ### 3. Whole arrays (what the downstream routines consume) -/

/-- `cm_frame_covariance` for the whole control matrix -/
theorem cm_frame_covariance_array (kind : MaskKind) (thr : ℝ)
    (eigvals : Mat ℝ nG d) (eigvecs props : Vector (Mat ℂ d d) nG) (omega : Vec ℝ nO)
    (basis : Vector (Mat ℂ d d) N) (nOpers : Vector (Mat ℂ d d) nA) (nCoeffs : Mat ℝ nA nG)
    (dt t : Vec ℝ nG) (W : Mat ℂ d d) (hW : (W.toMatrix)ᴴ * W.toMatrix = 1) :
    controlMatrixFromScratch kind thr eigvals (Vector.map (fun V => Mat.mul W V) eigvecs)
        (Vector.map (conjBy W) props) omega (Vector.map (conjBy W) basis)
        (Vector.map (conjBy W) nOpers) nCoeffs dt t
      = controlMatrixFromScratch kind thr eigvals eigvecs props omega basis nOpers nCoeffs dt t :=
  ten3_ext fun a k o => cm_frame_covariance kind thr eigvals eigvecs props omega basis nOpers
    nCoeffs dt t W hW a k o

/-- `cm_energy_offset` for the whole control matrix -/
theorem cm_energy_offset_array (kind : MaskKind) (thr : ℝ)
    (eigvals : Mat ℝ nG d) (eigvecs props : Vector (Mat ℂ d d) nG) (omega : Vec ℝ nO)
    (basis : Vector (Mat ℂ d d) N) (nOpers : Vector (Mat ℂ d d) nA) (nCoeffs : Mat ℝ nA nG)
    (dt t : Vec ℝ nG) (c : Fin nG → ℝ) (u : Fin nG → ℂ) (hu : ∀ g, ‖u g‖ = 1) :
    controlMatrixFromScratch kind thr (shiftEig c eigvals) eigvecs (phaseProps u props) omega basis
        nOpers nCoeffs dt t
      = controlMatrixFromScratch kind thr eigvals eigvecs props omega basis nOpers nCoeffs dt t :=
  ten3_ext fun a k o => cm_energy_offset kind thr eigvals eigvecs props omega basis nOpers
    nCoeffs dt t c u hu a k o

/-- `secondOrderFF_frame_covariance` for the whole array -/
theorem secondOrderFF_frame_covariance_array (kind : MaskKind) (thr : ℝ)
    (eigvals : Mat ℝ nG d) (eigvecs props : Vector (Mat ℂ d d) nG) (omega : Vec ℝ nO)
    (basis : Vector (Mat ℂ d d) N) (nOpers : Vector (Mat ℂ d d) nA) (nCoeffs : Mat ℝ nA nG)
    (dt t : Vec ℝ nG) (W : Mat ℂ d d) (hW : (W.toMatrix)ᴴ * W.toMatrix = 1) :
    secondOrderFFFromScratch kind thr eigvals (Vector.map (fun V => Mat.mul W V) eigvecs)
        (Vector.map (conjBy W) props) omega (Vector.map (conjBy W) basis)
        (Vector.map (conjBy W) nOpers) nCoeffs dt t
      = secondOrderFFFromScratch kind thr eigvals eigvecs props omega basis nOpers nCoeffs dt t :=
  ten5_ext fun a b k l o => secondOrderFF_frame_covariance kind thr eigvals eigvecs props omega
    basis nOpers nCoeffs dt t W hW a b k l o

/-- `secondOrderFF_energy_offset` for the whole array -/
theorem secondOrderFF_energy_offset_array (kind : MaskKind) (thr : ℝ)
    (eigvals : Mat ℝ nG d) (eigvecs props : Vector (Mat ℂ d d) nG) (omega : Vec ℝ nO)
    (basis : Vector (Mat ℂ d d) N) (nOpers : Vector (Mat ℂ d d) nA) (nCoeffs : Mat ℝ nA nG)
    (dt t : Vec ℝ nG) (c : Fin nG → ℝ) (u : Fin nG → ℂ) (hu : ∀ g, ‖u g‖ = 1) :
    secondOrderFFFromScratch kind thr (shiftEig c eigvals) eigvecs (phaseProps u props) omega basis
        nOpers nCoeffs dt t
      = secondOrderFFFromScratch kind thr eigvals eigvecs props omega basis nOpers nCoeffs dt t :=
  ten5_ext fun a b k l o => secondOrderFF_energy_offset kind thr eigvals eigvecs props omega
    basis nOpers nCoeffs dt t c u hu a b k l o

/-! ### 4. Trace tensor and cumulant function -/

/-- **The trace tensor is frame invariant**: `tr(WC_iW† WC_jW† WC_kW† WC_lW†) = tr(C_i C_j C_k C_l)`
for an isometry `W` — `Basis.four_element_traces` of the conjugated basis is the SAME array, for
every family of matrices (no orthonormality, Hermiticity or completeness). -/
theorem fourElementTraces_frame_invariant (basis : Vector (Mat ℂ d d) N) (W : Mat ℂ d d)
    (hW : (W.toMatrix)ᴴ * W.toMatrix = 1) :
    fourElementTraces (Vector.map (conjBy W) basis) = fourElementTraces basis := by
  refine ten4_ext fun i j k l => ?_
  rw [C09.fourElementTraces_entries, C09.fourElementTraces_entries]
  simp only [Spec.basisOf, InvAux.vec_map_get, conjBy_toMatrix]
  exact trace4_conj _ _ _ _ _ hW

/-- … in the documented form: the nested-commutator traces `tr(C_i [C_k, [C_l, C_j]])` and
`tr(C_i [[C_k, C_l], C_j])` of the conjugated basis equal those of the original one. -/
theorem commutator_traces_frame_invariant (C : Fin N → Matrix (Fin d) (Fin d) ℂ)
    (W : Matrix (Fin d) (Fin d) ℂ) (hW : Wᴴ * W = 1) (i j k l : Fin N) :
    trace ((W * C i * Wᴴ) * Spec.comm (W * C k * Wᴴ) (Spec.comm (W * C l * Wᴴ) (W * C j * Wᴴ)))
      = trace (C i * Spec.comm (C k) (Spec.comm (C l) (C j))) ∧
    trace ((W * C i * Wᴴ) * Spec.comm (Spec.comm (W * C k * Wᴴ) (W * C l * Wᴴ)) (W * C j * Wᴴ))
      = trace (C i * Spec.comm (Spec.comm (C k) (C l)) (C j)) := by
  have hc : ∀ X Y : Matrix (Fin d) (Fin d) ℂ,
      Spec.comm (W * X * Wᴴ) (W * Y * Wᴴ) = W * Spec.comm X Y * Wᴴ := by
    intro X Y
    unfold Spec.comm
    rw [conj_mul_conj _ _ _ hW, conj_mul_conj _ _ _ hW, Matrix.mul_sub, Matrix.sub_mul]
  constructor
  · rw [hc, hc, trace2_conj _ _ _ hW]
  · rw [hc, hc, trace2_conj _ _ _ hW]

/-- **`cumulant_frame_invariant`: the cumulant function is frame invariant.**  For the same decay
amplitudes `Γ` and frequency shifts `Δ` (present or absent), the general branch of
`calculate_cumulant_function` evaluated with the trace tensor of the conjugated basis `W C W†`
returns the same matrix as with the trace tensor of `C`; in the documented form (`Spec.K1`,
`Spec.Kfull` of the conjugated family). -/
theorem cumulant_frame_invariant (basis : Vector (Mat ℂ d d) N) (W : Mat ℂ d d)
    (hW : (W.toMatrix)ᴴ * W.toMatrix = 1) (Γ : Mat ℂ N N) (Δ : Option (Mat ℂ N N)) :
    cumulantGeneral Γ Δ (fourElementTraces (Vector.map (conjBy W) basis))
      = cumulantGeneral Γ Δ (fourElementTraces basis) ∧
    (∀ (D : Mat ℂ N N) (i j : Fin N),
      Spec.K1 (fun k => W.toMatrix * Spec.basisOf basis k * (W.toMatrix)ᴴ) (C09.fn Γ) i j
        = Spec.K1 (Spec.basisOf basis) (C09.fn Γ) i j ∧
      Spec.Kfull (fun k => W.toMatrix * Spec.basisOf basis k * (W.toMatrix)ᴴ) (C09.fn Γ) (C09.fn D)
          i j
        = Spec.Kfull (Spec.basisOf basis) (C09.fn Γ) (C09.fn D) i j) := by
  refine ⟨by rw [fourElementTraces_frame_invariant basis W hW], fun D i j => ?_⟩
  have h1 : ∀ G : Fin N → Fin N → ℂ,
      Spec.K1 (fun k => W.toMatrix * Spec.basisOf basis k * (W.toMatrix)ᴴ) G i j
        = Spec.K1 (Spec.basisOf basis) G i j := by
    intro G
    unfold Spec.K1
    simp only [(commutator_traces_frame_invariant (Spec.basisOf basis) W.toMatrix hW _ _ _ _).1]
  have h2 : ∀ G : Fin N → Fin N → ℂ,
      Spec.K2 (fun k => W.toMatrix * Spec.basisOf basis k * (W.toMatrix)ᴴ) G i j
        = Spec.K2 (Spec.basisOf basis) G i j := by
    intro G
    unfold Spec.K2
    simp only [(commutator_traces_frame_invariant (Spec.basisOf basis) W.toMatrix hW _ _ _ _).2]
  exact ⟨h1 _, by unfold Spec.Kfull; rw [h1, h2]⟩

/-- **The single-qubit shortcut and a rotated Pauli basis.**  The conjugated Pauli basis
`W σ W†/√2` is in general no longer `Basis.pauli(1)`, so `calculate_cumulant_function` takes the
general branch for it; the result is nevertheless the shortcut's matrix for the unrotated basis. -/
theorem cumulant_single_qubit_frame (basis : Vector (Mat ℂ 2 2) 4)
    (hP : Spec.basisOf basis = Spec.pauliBasis) (W : Mat ℂ 2 2)
    (hW : (W.toMatrix)ᴴ * W.toMatrix = 1) (Γ : Mat ℂ 4 4) (Δ : Option (Mat ℂ 4 4)) :
    cumulantGeneral Γ Δ (fourElementTraces (Vector.map (conjBy W) basis))
      = cumulantSingleQubit Γ Δ := by
  rw [fourElementTraces_frame_invariant basis W hW]
  cases Δ with
  | none => exact ((C09.cumulant_single_qubit_eq_general basis hP Γ Γ).1).symm
  | some D => exact ((C09.cumulant_single_qubit_eq_general basis hP Γ D).2).symm

/-! ### 5. From the pulse data to the error transfer matrix -/

/-- the cumulant function `K_ab` (real matrix after `.real`) of the selected pair `p = (a, b)` of
noise sources for a cross-spectral matrix `S3`, from the pulse data:
`calculate_control_matrix_from_scratch` → `calculate_decay_amplitudes`; with `second = true` also
`calculate_second_order_filter_function` → `calculate_frequency_shifts`; general branch of
`calculate_cumulant_function` with the trace tensor of `basis`. -/
noncomputable def cumulantFromPulse3 (second : Bool) (kind : MaskKind) (thr : ℝ)
    (eigvals : Mat ℝ nG d) (eigvecs props : Vector (Mat ℂ d d) nG) (omega : Vec ℝ nO)
    (basis : Vector (Mat ℂ d d) N) (nOpers : Vector (Mat ℂ d d) nA) (nCoeffs : Mat ℝ nA nG)
    (dt t : Vec ℝ nG) (idx : Vec (Fin nA) m) (S3 : Ten3 ℂ m m nO) (p : Fin m × Fin m) :
    Matrix (Fin N) (Fin N) ℝ :=
  realPart (cumulantGeneral
    (toComplexMat (decayAmplitudes3 omega (controlMatrixFromScratch kind thr eigvals eigvecs props
      omega basis nOpers nCoeffs dt t) idx S3)[p.1][p.2])
    (if second then some (toComplexMat (frequencyShifts3 omega (secondOrderFFFromScratch kind thr
      eigvals eigvecs props omega basis nOpers nCoeffs dt t) idx S3)[p.1][p.2]) else none)
    (fourElementTraces basis))

/-- the same for one spectrum per noise source (`S2`), source `a` -/
noncomputable def cumulantFromPulse2 (second : Bool) (kind : MaskKind) (thr : ℝ)
    (eigvals : Mat ℝ nG d) (eigvecs props : Vector (Mat ℂ d d) nG) (omega : Vec ℝ nO)
    (basis : Vector (Mat ℂ d d) N) (nOpers : Vector (Mat ℂ d d) nA) (nCoeffs : Mat ℝ nA nG)
    (dt t : Vec ℝ nG) (idx : Vec (Fin nA) m) (S2 : Mat ℂ m nO) (a : Fin m) :
    Matrix (Fin N) (Fin N) ℝ :=
  realPart (cumulantGeneral
    (toComplexMat (decayAmplitudes2 omega (controlMatrixFromScratch kind thr eigvals eigvecs props
      omega basis nOpers nCoeffs dt t) idx S2)[a])
    (if second then some (toComplexMat (frequencyShifts2 omega (secondOrderFFFromScratch kind thr
      eigvals eigvecs props omega basis nOpers nCoeffs dt t) idx S2)[a]) else none)
    (fourElementTraces basis))

/-- **`etm_frame_invariant`: cumulant function and error transfer matrix are frame independent,
end to end from the pulse data, to first order and with `second_order=True`.**  With eigenvectors,
propagators, noise operators and basis conjugated by one isometry `W`: the cumulant function of
every selected pair (cross-spectral matrix) resp. source (one spectrum per source) is the same
matrix, hence so are the error transfer matrices `exp(Σ K)` (sum over all pairs resp. sources, as
in `error_transfer_matrix`).  Every guard, grid, selection, frequency. -/
theorem etm_frame_invariant (second : Bool) (kind : MaskKind) (thr : ℝ)
    (eigvals : Mat ℝ nG d) (eigvecs props : Vector (Mat ℂ d d) nG) (omega : Vec ℝ nO)
    (basis : Vector (Mat ℂ d d) N) (nOpers : Vector (Mat ℂ d d) nA) (nCoeffs : Mat ℝ nA nG)
    (dt t : Vec ℝ nG) (W : Mat ℂ d d) (hW : (W.toMatrix)ᴴ * W.toMatrix = 1)
    (idx : Vec (Fin nA) m) (S2 : Mat ℂ m nO) (S3 : Ten3 ℂ m m nO) :
    (∀ p, cumulantFromPulse3 second kind thr eigvals (Vector.map (fun V => Mat.mul W V) eigvecs)
          (Vector.map (conjBy W) props) omega (Vector.map (conjBy W) basis)
          (Vector.map (conjBy W) nOpers) nCoeffs dt t idx S3 p
        = cumulantFromPulse3 second kind thr eigvals eigvecs props omega basis nOpers nCoeffs dt t
          idx S3 p) ∧
    (∀ a, cumulantFromPulse2 second kind thr eigvals (Vector.map (fun V => Mat.mul W V) eigvecs)
          (Vector.map (conjBy W) props) omega (Vector.map (conjBy W) basis)
          (Vector.map (conjBy W) nOpers) nCoeffs dt t idx S2 a
        = cumulantFromPulse2 second kind thr eigvals eigvecs props omega basis nOpers nCoeffs dt t
          idx S2 a) ∧
    exp (∑ p, cumulantFromPulse3 second kind thr eigvals
          (Vector.map (fun V => Mat.mul W V) eigvecs) (Vector.map (conjBy W) props) omega
          (Vector.map (conjBy W) basis) (Vector.map (conjBy W) nOpers) nCoeffs dt t idx S3 p)
      = exp (∑ p, cumulantFromPulse3 second kind thr eigvals eigvecs props omega basis nOpers
          nCoeffs dt t idx S3 p) ∧
    exp (∑ a, cumulantFromPulse2 second kind thr eigvals
          (Vector.map (fun V => Mat.mul W V) eigvecs) (Vector.map (conjBy W) props) omega
          (Vector.map (conjBy W) basis) (Vector.map (conjBy W) nOpers) nCoeffs dt t idx S2 a)
      = exp (∑ a, cumulantFromPulse2 second kind thr eigvals eigvecs props omega basis nOpers
          nCoeffs dt t idx S2 a) := by
  have h3 : ∀ p, cumulantFromPulse3 second kind thr eigvals
        (Vector.map (fun V => Mat.mul W V) eigvecs) (Vector.map (conjBy W) props) omega
        (Vector.map (conjBy W) basis) (Vector.map (conjBy W) nOpers) nCoeffs dt t idx S3 p
      = cumulantFromPulse3 second kind thr eigvals eigvecs props omega basis nOpers nCoeffs dt t
        idx S3 p := by
    intro p
    unfold cumulantFromPulse3
    rw [cm_frame_covariance_array kind thr eigvals eigvecs props omega basis nOpers nCoeffs dt t W
      hW, secondOrderFF_frame_covariance_array kind thr eigvals eigvecs props omega basis nOpers
      nCoeffs dt t W hW, fourElementTraces_frame_invariant basis W hW]
  have h2 : ∀ a, cumulantFromPulse2 second kind thr eigvals
        (Vector.map (fun V => Mat.mul W V) eigvecs) (Vector.map (conjBy W) props) omega
        (Vector.map (conjBy W) basis) (Vector.map (conjBy W) nOpers) nCoeffs dt t idx S2 a
      = cumulantFromPulse2 second kind thr eigvals eigvecs props omega basis nOpers nCoeffs dt t
        idx S2 a := by
    intro a
    unfold cumulantFromPulse2
    rw [cm_frame_covariance_array kind thr eigvals eigvecs props omega basis nOpers nCoeffs dt t W
      hW, secondOrderFF_frame_covariance_array kind thr eigvals eigvecs props omega basis nOpers
      nCoeffs dt t W hW, fourElementTraces_frame_invariant basis W hW]
  exact ⟨h3, h2, by rw [funext h3], by rw [funext h2]⟩

/-- **`etm_energy_offset`: cumulant function and error transfer matrix do not depend on the energy
zero, end to end from the pulse data, to first order and with `second_order=True`.**  Eigenvalues
of segment `g` shifted by `c g`, cumulative propagators multiplied by unit-modulus numbers `u g`;
same basis (the trace tensor is untouched). -/
theorem etm_energy_offset (second : Bool) (kind : MaskKind) (thr : ℝ)
    (eigvals : Mat ℝ nG d) (eigvecs props : Vector (Mat ℂ d d) nG) (omega : Vec ℝ nO)
    (basis : Vector (Mat ℂ d d) N) (nOpers : Vector (Mat ℂ d d) nA) (nCoeffs : Mat ℝ nA nG)
    (dt t : Vec ℝ nG) (c : Fin nG → ℝ) (u : Fin nG → ℂ) (hu : ∀ g, ‖u g‖ = 1)
    (idx : Vec (Fin nA) m) (S2 : Mat ℂ m nO) (S3 : Ten3 ℂ m m nO) :
    (∀ p, cumulantFromPulse3 second kind thr (shiftEig c eigvals) eigvecs (phaseProps u props)
          omega basis nOpers nCoeffs dt t idx S3 p
        = cumulantFromPulse3 second kind thr eigvals eigvecs props omega basis nOpers nCoeffs dt t
          idx S3 p) ∧
    (∀ a, cumulantFromPulse2 second kind thr (shiftEig c eigvals) eigvecs (phaseProps u props)
          omega basis nOpers nCoeffs dt t idx S2 a
        = cumulantFromPulse2 second kind thr eigvals eigvecs props omega basis nOpers nCoeffs dt t
          idx S2 a) ∧
    exp (∑ p, cumulantFromPulse3 second kind thr (shiftEig c eigvals) eigvecs (phaseProps u props)
          omega basis nOpers nCoeffs dt t idx S3 p)
      = exp (∑ p, cumulantFromPulse3 second kind thr eigvals eigvecs props omega basis nOpers
          nCoeffs dt t idx S3 p) ∧
    exp (∑ a, cumulantFromPulse2 second kind thr (shiftEig c eigvals) eigvecs (phaseProps u props)
          omega basis nOpers nCoeffs dt t idx S2 a)
      = exp (∑ a, cumulantFromPulse2 second kind thr eigvals eigvecs props omega basis nOpers
          nCoeffs dt t idx S2 a) := by
  have h3 : ∀ p, cumulantFromPulse3 second kind thr (shiftEig c eigvals) eigvecs
        (phaseProps u props) omega basis nOpers nCoeffs dt t idx S3 p
      = cumulantFromPulse3 second kind thr eigvals eigvecs props omega basis nOpers nCoeffs dt t
        idx S3 p := by
    intro p
    unfold cumulantFromPulse3
    rw [cm_energy_offset_array kind thr eigvals eigvecs props omega basis nOpers nCoeffs dt t c u
      hu, secondOrderFF_energy_offset_array kind thr eigvals eigvecs props omega basis nOpers
      nCoeffs dt t c u hu]
  have h2 : ∀ a, cumulantFromPulse2 second kind thr (shiftEig c eigvals) eigvecs
        (phaseProps u props) omega basis nOpers nCoeffs dt t idx S2 a
      = cumulantFromPulse2 second kind thr eigvals eigvecs props omega basis nOpers nCoeffs dt t
        idx S2 a := by
    intro a
    unfold cumulantFromPulse2
    rw [cm_energy_offset_array kind thr eigvals eigvecs props omega basis nOpers nCoeffs dt t c u
      hu, secondOrderFF_energy_offset_array kind thr eigvals eigvecs props omega basis nOpers
      nCoeffs dt t c u hu]
  exact ⟨h3, h2, by rw [funext h3], by rw [funext h2]⟩

/-- `cumulantFromPulse3/2` are the expressions of `etm_basis_change_from_scratch` /
`C10.etm_basis_change_second_order_from_scratch` (definitional) -/
example (kind : MaskKind) (thr : ℝ)
    (eigvals : Mat ℝ nG d) (eigvecs props : Vector (Mat ℂ d d) nG) (omega : Vec ℝ nO)
    (basis : Vector (Mat ℂ d d) N) (nOpers : Vector (Mat ℂ d d) nA) (nCoeffs : Mat ℝ nA nG)
    (dt t : Vec ℝ nG) (idx : Vec (Fin nA) m) (S3 : Ten3 ℂ m m nO) (p : Fin m × Fin m) :
    cumulantFromPulse3 false kind thr eigvals eigvecs props omega basis nOpers nCoeffs dt t idx S3 p
      = realPart (cumulantGeneral (toComplexMat (decayAmplitudes3 omega
          (controlMatrixFromScratch kind thr eigvals eigvecs props omega basis nOpers nCoeffs dt t)
          idx S3)[p.1][p.2]) none (fourElementTraces basis)) := rfl

/-! ### Non-vacuity -/

/-- the hypothesis `hu` is satisfiable by the phases that actually arise: with offsets `c g` on
segments of duration `dt g`, `u g = exp(-i Σ_{g' ≤ g} c g' dt g')` has modulus one -/
example (c dt : Fin nG → ℝ) (g : Fin nG) :
    ‖Complex.exp (-(Complex.I * ((∑ g' : Fin nG, if g' ≤ g then c g' * dt g' else 0 : ℝ) : ℂ)))‖
      = 1 := by
  rw [← mul_neg, ← Complex.ofReal_neg, mul_comm, Complex.norm_exp_ofReal_mul_I]

/-- the hypothesis `W†W = 1` is satisfiable by model data that is neither diagonal nor real: the
matrix `[[0, i], [i, 0]]` -/
example : (Mat.toMatrix (#v[#v[0, Complex.I], #v[Complex.I, 0]] : Mat ℂ 2 2))ᴴ
    * Mat.toMatrix (#v[#v[0, Complex.I], #v[Complex.I, 0]] : Mat ℂ 2 2) = 1 := by
  ext i j
  fin_cases i <;> fin_cases j <;> simp [Matrix.mul_apply, Mat.toMatrix, Fin.sum_univ_two]

end FFVerif.C12

/-! ### 6. C01 for complete orthonormal bases with NON-Hermitian elements

`Spec.IsOrthoHS C`: `tr(C_k† C_l) = δ_kl`; `Spec.IsCompleteHS C`: `M = Σ_k tr(C_k† M) C_k` for every
`M` (for an orthonormal family: it spans, `Spec.isCompleteHS_of_ortho_of_span`; for Hermitian
elements: `Spec.IsComplete`, `Spec.isCompleteHS_iff_of_herm`).  The entry bound
`C01.cm_entry_norm_le` never needed Hermiticity (only `tr(C_k†C_k) = 1`); the Parseval identity and
the filter-function bound are extended here.  The reflection symmetry `C01.cm_neg_omega` DOES need
Hermitian elements: see `cm_neg_omega_needs_hermitian_basis` below. -/

namespace FFVerif.C01
open FFVerif FFVerif.Model FFVerif.BoundAux FFVerif.FrameAux FFVerif.SecondOrderInv
  FFVerif.SecondOrderAux Complex Matrix

variable {nG d nO nA nK : ℕ}

/-- **`ff_fid_eq_frob_sq_general`: Parseval form of the fidelity filter function for a complete
basis whose elements need not be Hermitian**: `F_aa(ω) = Σ_k |B_ak(ω)|² = ‖X_a(ω)‖_F²`
(`B_ak = tr(X_a C_k) = ⟨C_k†, X_a⟩` and `{C_k†}` is a complete orthonormal family too).  Only the
resolution of the identity `Spec.IsCompleteHS` is used; no unitarity. -/
theorem ff_fid_eq_frob_sq_general (kind : MaskKind) (thr : ℝ)
    (eigvals : Mat ℝ nG d) (eigvecs props : Vector (Mat ℂ d d) nG)
    (omega : Vec ℝ nO) (basis : Vector (Mat ℂ d d) nK) (nOpers : Vector (Mat ℂ d d) nA)
    (nCoeffs : Mat ℝ nA nG) (dt t : Vec ℝ nG) (a : Fin nA) (o : Fin nO)
    (hC : Spec.IsCompleteHS (Spec.basisOf basis)) :
    (filterFunctionFid (controlMatrixFromScratch kind thr eigvals eigvecs props omega basis nOpers
        nCoeffs dt t))[a][a][o]
      = ((frob (cmOp kind thr eigvals eigvecs props omega nOpers nCoeffs dt t a o) ^ 2 : ℝ) : ℂ) := by
  rw [ff_diag_nonneg]
  congr 1
  rw [← parseval_general hC]
  refine Finset.sum_congr rfl fun k _ => ?_
  rw [cm_entry_eq_trace]
  rfl

/-- **`ff_fid_le_general`: the bound of the property with constant 1 for every complete
(Hilbert–Schmidt orthonormal) operator basis, Hermitian or not.**  Unitary `V_g`, `Q_{g-1}`,
`dt_g ≥ 0`, any guard with `thr ≥ 0`, any noise operator, every frequency:

  `0 ≤ F_aa(ω) = Σ_k |B_ak(ω)|² ≤ (Σ_g |s_a^{(g)}| dt_g)² · ‖B_a‖_F²`. -/
theorem ff_fid_le_general (kind : MaskKind) (thr : ℝ) (hthr : 0 ≤ thr)
    (eigvals : Mat ℝ nG d) (eigvecs props : Vector (Mat ℂ d d) nG)
    (omega : Vec ℝ nO) (basis : Vector (Mat ℂ d d) nK) (nOpers : Vector (Mat ℂ d d) nA)
    (nCoeffs : Mat ℝ nA nG) (dt t : Vec ℝ nG) (a : Fin nA) (o : Fin nO)
    (hdt : ∀ g : Fin nG, 0 ≤ dt[g])
    (hV : ∀ g : Fin nG, (eigvecs[g].toMatrix)ᴴ * eigvecs[g].toMatrix = 1)
    (hQ : ∀ g : Fin nG, (props[g].toMatrix)ᴴ * props[g].toMatrix = 1)
    (hC : Spec.IsCompleteHS (Spec.basisOf basis)) :
    let B := controlMatrixFromScratch kind thr eigvals eigvecs props omega basis nOpers nCoeffs dt t
    (filterFunctionFid B)[a][a][o] = ((∑ k : Fin nK, ‖B[a][k][o]‖ ^ 2 : ℝ) : ℂ)
      ∧ 0 ≤ ∑ k : Fin nK, ‖B[a][k][o]‖ ^ 2
      ∧ ∑ k : Fin nK, ‖B[a][k][o]‖ ^ 2
          ≤ (∑ g : Fin nG, |nCoeffs[a][g]| * dt[g]) ^ 2 * frob nOpers[a].toMatrix ^ 2 := by
  intro B
  refine ⟨ff_diag_nonneg B a o, Finset.sum_nonneg fun _ _ => by positivity, ?_⟩
  have h1 := ff_fid_eq_frob_sq_general kind thr eigvals eigvecs props omega basis nOpers nCoeffs dt
    t a o hC
  rw [ff_diag_nonneg] at h1
  have h2 : ∑ k : Fin nK, ‖B[a][k][o]‖ ^ 2
      = frob (cmOp kind thr eigvals eigvecs props omega nOpers nCoeffs dt t a o) ^ 2 := by
    exact_mod_cast h1
  rw [h2, ← mul_pow]
  exact pow_le_pow_left₀ (frob_nonneg _)
    (frob_cmOp_le kind thr hthr eigvals eigvecs props omega nOpers nCoeffs dt t a o hdt hV hQ) 2

/-- **Off-diagonal elements, general complete basis**:
`|F_ab(ω)| ≤ (Σ_g |s_a^{(g)}| dt_g)(Σ_g |s_b^{(g)}| dt_g) ‖B_a‖_F ‖B_b‖_F`. -/
theorem ff_fid_offdiag_le_general (kind : MaskKind) (thr : ℝ) (hthr : 0 ≤ thr)
    (eigvals : Mat ℝ nG d) (eigvecs props : Vector (Mat ℂ d d) nG)
    (omega : Vec ℝ nO) (basis : Vector (Mat ℂ d d) nK) (nOpers : Vector (Mat ℂ d d) nA)
    (nCoeffs : Mat ℝ nA nG) (dt t : Vec ℝ nG) (a b : Fin nA) (o : Fin nO)
    (hdt : ∀ g : Fin nG, 0 ≤ dt[g])
    (hV : ∀ g : Fin nG, (eigvecs[g].toMatrix)ᴴ * eigvecs[g].toMatrix = 1)
    (hQ : ∀ g : Fin nG, (props[g].toMatrix)ᴴ * props[g].toMatrix = 1)
    (hC : Spec.IsCompleteHS (Spec.basisOf basis)) :
    ‖(filterFunctionFid (controlMatrixFromScratch kind thr eigvals eigvecs props omega basis nOpers
        nCoeffs dt t))[a][b][o]‖
      ≤ ((∑ g : Fin nG, |nCoeffs[a][g]| * dt[g]) * frob nOpers[a].toMatrix) *
          ((∑ g : Fin nG, |nCoeffs[b][g]| * dt[g]) * frob nOpers[b].toMatrix) := by
  rw [ff_fidelity_def]
  have hsq : ∀ c : Fin nA,
      Real.sqrt (∑ k : Fin nK, ‖(controlMatrixFromScratch kind thr eigvals eigvecs props omega basis
        nOpers nCoeffs dt t)[c][k][o]‖ ^ 2)
      ≤ (∑ g : Fin nG, |nCoeffs[c][g]| * dt[g]) * frob nOpers[c].toMatrix := by
    intro c
    obtain ⟨_, _, h3⟩ := ff_fid_le_general kind thr hthr eigvals eigvecs props omega basis nOpers
      nCoeffs dt t c o hdt hV hQ hC
    rw [← mul_pow] at h3
    refine (Real.sqrt_le_sqrt h3).trans (le_of_eq (Real.sqrt_sq ?_))
    exact mul_nonneg (Finset.sum_nonneg fun g _ => mul_nonneg (abs_nonneg _) (hdt g)) (frob_nonneg _)
  refine (norm_sum_le _ _).trans ?_
  simp only [norm_mul, RCLike.norm_conj]
  refine (Real.sum_mul_le_sqrt_mul_sqrt _ _ _).trans ?_
  exact mul_le_mul (hsq a) (hsq b) (Real.sqrt_nonneg _)
    (mul_nonneg (Finset.sum_nonneg fun g _ => mul_nonneg (abs_nonneg _) (hdt g)) (frob_nonneg _))

/-- the Hermitian case `C01.ff_fid_le` is the special case: for Hermitian elements the two notions
of completeness coincide -/
example (basis : Vector (Mat ℂ d d) nK) (hC : Spec.IsComplete (Spec.basisOf basis))
    (hH : ∀ k : Fin nK, (basis[k].toMatrix)ᴴ = basis[k].toMatrix) :
    Spec.IsCompleteHS (Spec.basisOf basis) :=
  (Spec.isCompleteHS_iff_of_herm _ hH).2 hC

/-! #### a complete orthonormal basis that is not Hermitian; `cm_neg_omega` needs Hermiticity -/

/-- the ladder-operator (matrix-unit) basis of `2 × 2` matrices: `|0⟩⟨0|, |1⟩⟨1|, σ₊ = |0⟩⟨1|,
σ₋ = |1⟩⟨0|` -/
def ladderBasis : Fin 4 → Matrix (Fin 2) (Fin 2) ℂ
  | 0 => !![1, 0; 0, 0]
  | 1 => !![0, 0; 0, 1]
  | 2 => !![0, 1; 0, 0]
  | 3 => !![0, 0; 1, 0]

/-- the ladder-operator basis is Hilbert–Schmidt orthonormal -/
theorem ladderBasis_ortho : Spec.IsOrthoHS ladderBasis := by
  intro k l
  fin_cases k <;> fin_cases l <;>
    simp [ladderBasis, Matrix.trace, Matrix.mul_apply, Fin.sum_univ_two]

/-- … complete (non-vacuity of the hypothesis of `ff_fid_eq_frob_sq_general`,
`ff_fid_le_general`) -/
theorem ladderBasis_complete : Spec.IsCompleteHS ladderBasis := by
  intro M
  ext i j
  fin_cases i <;> fin_cases j <;>
    simp [ladderBasis, Matrix.trace, Matrix.mul_apply, Fin.sum_univ_two, Fin.sum_univ_four,
      Matrix.sum_apply]

/-- … and not Hermitian, so `C01.ff_fid_le` does not apply to it -/
theorem ladderBasis_not_herm : (ladderBasis 2)ᴴ ≠ ladderBasis 2 := by
  intro h
  have := congrFun (congrFun h 0) 1
  simp [ladderBasis] at this

/-- the hypotheses of `ff_fid_le_general` are satisfiable by model data with a non-Hermitian basis -/
example : ∃ basis : Vector (Mat ℂ 2 2) 4, Spec.IsCompleteHS (Spec.basisOf basis) ∧
    Spec.IsOrthoHS (Spec.basisOf basis) ∧ (basis[(2 : Fin 4)].toMatrix)ᴴ ≠ basis[(2 : Fin 4)].toMatrix := by
  have h : Spec.basisOf (Vector.ofFn fun i => Mat.ofFn (ladderBasis i)) = ladderBasis := by
    funext i; ext a b
    simp [Spec.basisOf, Mat.toMatrix, Mat.ofFn]
  refine ⟨Vector.ofFn fun i => Mat.ofFn (ladderBasis i), ?_, ?_, ?_⟩
  · rw [h]; exact ladderBasis_complete
  · rw [h]; exact ladderBasis_ortho
  · show (Spec.basisOf (Vector.ofFn fun i => Mat.ofFn (ladderBasis i)) 2)ᴴ
      ≠ Spec.basisOf (Vector.ofFn fun i => Mat.ofFn (ladderBasis i)) 2
    rw [h]
    exact ladderBasis_not_herm

/-- **`cm_neg_omega` does need Hermitian basis elements.**  One segment of duration `1` starting at
`0`, eigenvalues `(π, 0)`, `V = Q = 1`, the Hermitian noise operator `σx` with sensitivity `1`, the
ladder-operator basis (complete, orthonormal, not Hermitian), exact guard, frequency `ω = 0 = −ω`:
the entry for `σ₋` is `2i/π`, which is NOT its own complex conjugate — so
`B_ak(−ω) = conj B_ak(ω)` fails for this basis, while the bound `ff_fid_le_general` holds. -/
theorem cm_neg_omega_needs_hermitian_basis :
    let B := controlMatrixFromScratch .neZero 0 #v[(#v[Real.pi, 0] : Vec ℝ 2)]
        #v[(Mat.one : Mat ℂ 2 2)] #v[(Mat.one : Mat ℂ 2 2)] (#v[0] : Vec ℝ 1)
        (Vector.ofFn fun k => Mat.ofFn (ladderBasis k) : Vector (Mat ℂ 2 2) 4)
        (#v[Mat.ofFn !![0, 1; 1, 0]] : Vector (Mat ℂ 2 2) 1) (Vector.ofFn fun _ => #v[1]) #v[1]
        #v[0]
    B[(0 : Fin 1)][(3 : Fin 4)][(0 : Fin 1)] = ((2 / Real.pi : ℝ) : ℂ) * I ∧
    B[(0 : Fin 1)][(3 : Fin 4)][(0 : Fin 1)]
      ≠ starRingEnd ℂ B[(0 : Fin 1)][(3 : Fin 4)][(0 : Fin 1)] := by
  intro B
  have hval : B[(0 : Fin 1)][(3 : Fin 4)][(0 : Fin 1)] = ((2 / Real.pi : ℝ) : ℂ) * I := by
    show (controlMatrixFromScratch .neZero 0 #v[(#v[Real.pi, 0] : Vec ℝ 2)]
        #v[(Mat.one : Mat ℂ 2 2)] #v[(Mat.one : Mat ℂ 2 2)] (#v[0] : Vec ℝ 1)
        (Vector.ofFn fun k => Mat.ofFn (ladderBasis k) : Vector (Mat ℂ 2 2) 4)
        (#v[Mat.ofFn !![0, 1; 1, 0]] : Vector (Mat ℂ 2 2) 1) (Vector.ofFn fun _ => #v[1]) #v[1]
        #v[0])[(0 : Fin 1)][(3 : Fin 4)][(0 : Fin 1)] = _
    rw [cm_single_eq_segCm .neZero 0 (#v[Real.pi, 0] : Vec ℝ 2) Mat.one Mat.one (#v[0] : Vec ℝ 1)
      _ _ (fun _ => 1) 1 0 0 3 0, ← segI_pi]
    unfold segCm nMat bMat
    simp only [Mat.toMatrix_one, InvAux.vec_ofFn_get, firstOrderEntry_neZero]
    simp [Fin.sum_univ_two, ladderBasis, Mat.ofFn]
  refine ⟨hval, ?_⟩
  rw [hval]
  intro h
  have him := congrArg Complex.im h
  rw [map_mul, Complex.conj_ofReal, Complex.conj_I, Complex.mul_I_im, Complex.ofReal_re, mul_neg,
    Complex.neg_im, Complex.mul_I_im, Complex.ofReal_re] at him
  have hpos : 0 < 2 / Real.pi := div_pos two_pos Real.pi_pos
  linarith

/-- **Reflection symmetry for a basis that is closed under taking adjoints** (the general form of
`C01.cm_neg_omega`): if `C_k' = C_k†`, then `B_ak'(−ω) = conj B_ak(ω)` for a Hermitian noise
operator.  For Hermitian elements `k' = k`; in the ladder-operator basis `σ₊ ↔ σ₋` are swapped. -/
theorem cm_neg_omega_adjoint (kind : MaskKind) (thr : ℝ)
    (eigvals : Mat ℝ nG d) (eigvecs props : Vector (Mat ℂ d d) nG)
    (omega omega' : Vec ℝ nO) (basis : Vector (Mat ℂ d d) nK) (nOpers : Vector (Mat ℂ d d) nA)
    (nCoeffs : Mat ℝ nA nG) (dt t : Vec ℝ nG)
    (a : Fin nA) (k k' : Fin nK) (o o' : Fin nO) (hω : omega'[o'] = -omega[o])
    (hB : (nOpers[a].toMatrix)ᴴ = nOpers[a].toMatrix)
    (hCk : basis[k'].toMatrix = (basis[k].toMatrix)ᴴ) :
    (controlMatrixFromScratch kind thr eigvals eigvecs props omega' basis nOpers nCoeffs dt t)[a][k'][o']
      = starRingEnd ℂ
          (controlMatrixFromScratch kind thr eigvals eigvecs props omega basis nOpers nCoeffs dt t)[a][k][o] := by
  rw [cm_entry, cm_entry, map_sum]
  refine Finset.sum_congr rfl fun g _ => ?_
  rw [map_sum]
  simp only [map_sum]
  rw [Finset.sum_comm]
  refine Finset.sum_congr rfl fun m _ => Finset.sum_congr rfl fun n _ => ?_
  have hx : omega'[o'] + (eigvals[g][n] - eigvals[g][m])
      = -(omega[o] + (eigvals[g][m] - eigvals[g][n])) := by rw [hω]; ring
  rw [hx, firstOrderEntry_neg, hω, hCk]
  simp only [map_mul, Complex.conj_ofReal, herm_sandwich_apply _ _ hB, adj_sandwich_apply,
    ← Complex.exp_conj, Complex.conj_I]
  congr 4
  push_cast
  ring
/-- **… hence the fidelity filter function of a basis closed under adjoints is still reflection
symmetric**: if `σ` is a permutation of the basis indices with `C_{σ k} = C_k†` (identity for
Hermitian bases, `σ₊ ↔ σ₋` for the ladder-operator basis), `F_ab(−ω) = conj F_ab(ω)` for Hermitian
noise operators.  So the failure of `cm_neg_omega` for non-Hermitian bases is a relabelling of the
rows of the control matrix and does not reach the filter function. -/
theorem ff_neg_omega_adjoint_closed (kind : MaskKind) (thr : ℝ)
    (eigvals : Mat ℝ nG d) (eigvecs props : Vector (Mat ℂ d d) nG)
    (omega omega' : Vec ℝ nO) (basis : Vector (Mat ℂ d d) nK) (nOpers : Vector (Mat ℂ d d) nA)
    (nCoeffs : Mat ℝ nA nG) (dt t : Vec ℝ nG)
    (a b : Fin nA) (o o' : Fin nO) (hω : omega'[o'] = -omega[o])
    (hBa : (nOpers[a].toMatrix)ᴴ = nOpers[a].toMatrix)
    (hBb : (nOpers[b].toMatrix)ᴴ = nOpers[b].toMatrix)
    (σ : Equiv.Perm (Fin nK)) (hσ : ∀ k, basis[σ k].toMatrix = (basis[k].toMatrix)ᴴ) :
    (filterFunctionFid (controlMatrixFromScratch kind thr eigvals eigvecs props omega' basis nOpers
        nCoeffs dt t))[a][b][o']
      = starRingEnd ℂ (filterFunctionFid (controlMatrixFromScratch kind thr eigvals eigvecs props
          omega basis nOpers nCoeffs dt t))[a][b][o] := by
  rw [ff_fidelity_def, ff_fidelity_def, map_sum, ← Equiv.sum_comp σ]
  refine Finset.sum_congr rfl fun k _ => ?_
  rw [cm_neg_omega_adjoint kind thr eigvals eigvecs props omega omega' basis nOpers nCoeffs dt t
      a k (σ k) o o' hω hBa (hσ k),
    cm_neg_omega_adjoint kind thr eigvals eigvecs props omega omega' basis nOpers nCoeffs dt t
      b k (σ k) o o' hω hBb (hσ k), map_mul]

/-- the data of `cm_neg_omega_needs_hermitian_basis` satisfy all OTHER hypotheses of
`C01.cm_neg_omega` and those of `ff_fid_le_general`: `ω' = −ω` at `ω = 0`, Hermitian noise
operator, unitary `V`, `Q` -/
example : (#v[0] : Vec ℝ 1)[(0 : Fin 1)] = -(#v[0] : Vec ℝ 1)[(0 : Fin 1)] ∧
    ((Mat.ofFn !![0, 1; 1, 0] : Mat ℂ 2 2).toMatrix)ᴴ = (Mat.ofFn !![0, 1; 1, 0] : Mat ℂ 2 2).toMatrix ∧
    ((Mat.one : Mat ℂ 2 2).toMatrix)ᴴ * (Mat.one : Mat ℂ 2 2).toMatrix = 1 := by
  refine ⟨by simp, ?_, by rw [Mat.toMatrix_one]; simp⟩
  ext i j
  fin_cases i <;> fin_cases j <;> simp [Mat.toMatrix, Mat.ofFn]

/-- the hypothesis of `ff_neg_omega_adjoint_closed` is satisfiable by a non-Hermitian basis: in the
ladder-operator basis the transposition `σ₊ ↔ σ₋` maps every element to its adjoint -/
example : ∀ k, ladderBasis (Equiv.swap 2 3 k) = (ladderBasis k)ᴴ := by
  intro k
  fin_cases k <;> ext i j <;> fin_cases i <;> fin_cases j <;>
    simp [ladderBasis, Equiv.swap_apply_def]

end FFVerif.C01
