/-
C20 — Inconsistent input is rejected with the documented exception, valid input never.

Model: `FFVerif/Model/Validate.lean` (every `raise` of the argument parsers, in source order, on
inputs abstracted to what the checks look at).  Vocabulary (`Lemmas/ValidateAux.lean`):

* `Valid… x`  — the DOCUMENTED domain of each function, stated declaratively and decidable
  (`ValidOpers`, `ValidHam`, `ValidArgs`, `ValidSpectrum`, `ValidRequest`, `ValidBasisArg`,
  `ValidConcat`, `ValidExtend`, …);
* `…Kind`, `…Kind.cls`, `…Violates x k` — the catalogue of corruptions, the exception class of
  each, and "input `x` is corrupted in way `k`";
* `…Regular x` / explicit hypotheses — inputs on which code and documentation can be compared.
  Where the code accepts what the documentation forbids, or rejects what it allows, the predicate
  is NOT bent: the equivalence is proved under a hypothesis excluding the discrepancy, and the
  discrepancy is recorded below as an `example` with a concrete input.

Shape of the results, for each validator `f`:
* `…_valid_never_rejected` : `Valid x → f x = .ok …`;
* `…_rejects_iff`          : `(∃ e, f x = .error e) ↔ ¬ Valid x`;
* `…_rejection_explained`  : `f x = .error e → ∃ k, Violates x k ∧ k.cls = e` (which class);
* `…_class_of_corruption`  : if `x` is invalid and every corruption present in `x` has class `e`
  (in particular: `x` is corrupted in exactly one way), the exception raised is `e`;
* `…_violation_invalid`    : every catalogued corruption does leave the documented domain.

DISCREPANCIES between code and documentation found while proving (concrete inputs; all reproduced
with the real package):
 D1  (REPAIRED) `PulseSequence([[X]], H_n, dt)` (sublists without coefficients) raised
     `IndexError`; now `TypeError`.
 D2  (REPAIRED by the check `parsed_opers.ndim != 3` in `_parse_Hamiltonian`) non-square operators
     were accepted when the stacked array happened to be "square": four `ndarray`s of shape
     `(1, 4)` with a `4 × 4` noise operator; two 1-d operators of length 2.  Now `ValueError`.
     `util.parse_operators` itself is unchanged, so `Basis.__new__` still needs `OperRegular`.
 D3  (REPAIRED, same check) `1 × 1` `ndarray` operators are squeezed to 0-d; they used to be
     accepted or rejected depending on their number, now they are always rejected.  The documented
     domain reads an `ndarray` operator up to axes of length one (`operDim`), as the parser
     squeezes on purpose: `(2, 2, 1)` is a `2 × 2` matrix (accepted), `(1, 1)` is a scalar
     (rejected; a `1 × 1` Qobj is accepted).
 D4  sublists with more than three entries are accepted, the extra entries ignored.
 D5  `parse_spectrum` accepts 0-d spectra and stretches axes of length one (`np.broadcast_to`).
 D6a `Basis(b)` for an existing `Basis` instance `b` takes it over without re-checking it.
 D6b `concatenate` compares bases and cached frequencies by hashing `tobytes()`
     (`util.all_array_equal`): arrays that are equal but differ in dtype or in the sign of a zero
     count as different (`ValueError`, or silently no filter function).
 D6c `concatenate([x])` returns a deep copy of `x` without any check (`concatenate([5]) == 5`).
 D6d `extend` compares the time grids the same way: `dt = [1, 1]` (int) vs `[1., 1.]`, or `0.0`
     vs `-0.0`, raise "All pulses should be defined on the same time steps".
 D6e `remap` computes the number of qubits as `int(np.log(d)/np.log(d_per_qubit))`, which is 2 for
     `d = 216 = 6³` (also for `1331 = 11³`): `remap` of such a pulse, and `extend` with a qubit
     tuple that is not ascending, raise `ValueError`.
 D6f `extend(…, additional_noise_Hamiltonian=H, cache_diagonalization=False,
     cache_filter_function=False)` raises "… but required" although nothing requires the
     diagonalization.
 D6g `extend([(pulse, q)], …)` with the pulse mapped onto its own qubits returns the pulse and
     silently ignores `additional_noise_Hamiltonian` (valid or malformed) and all options.
 D6h (`remap` inside `extend`) frequencies set on a pulse without any frequency dependent quantity
     are lost by `remap`, so `extend(…, cache_filter_function=True)` cannot infer them.
 D6i (REPAIRED, finding F48) `extend` with identifier mappings sending operators of different
     pulses to one name, and `remap` with a mapping that is not injective on the control or on the
     noise identifiers, returned a pulse with indistinguishable operators; now `ValueError`
     (`extend_duplicate_mapped_ids_rejected`, `remap_duplicate_mapped_ids_rejected`), and
     "identifiers unique after mapping" is part of the documented domain (`ValidExtendBack`,
     `ValidRemap`).  The DEFAULT mapping `identifier + '_' + qubits` is covered as well: it is not
     injective across entries either (`'Z' + '_' + '12'` for the qubits `(1, 2)` and for the qubit
     `12`; example `eDefaultClash`).
 D6j (REPAIRED, finding F50) an identifier mapping (`extend`: third element of an entry; `remap`:
     `oper_identifier_mapping`) that misses an identifier of its pulse was rejected with the bare
     `KeyError` of the dict look-up — neither `ValueError` nor `TypeError`
     (`extend([(p, 0, {'Z': 'a'}), (p, 1)])` for a pulse with the identifiers `X`, `Z`:
     `KeyError: 'X'`).  `_map_identifiers` now raises `ValueError` ("Identifier mapping has no
     entry for identifier …"); the order of the checks is unchanged (`extend_missing_key_rejected`,
     `remap_missing_key_rejected`, `extend_error_class`, `remap_error_class`).
Not expressible in the abstraction (observed with the real package): `dt = 'abc'` raises
`AttributeError`; a two-dimensional `dt` is accepted; option values are compared with `==`, so
`order=True` / `order=1.0` pass for `order=1`.
-/
import FFVerif.Lemmas.ValidateAux
import FFVerif.Props.C16

namespace FFVerif.C20
open FFVerif FFVerif.Model FFVerif.Model.Validate

/-! ### `_parse_Hamiltonian` -/

/-- A documented Hamiltonian argument is accepted — ALL inputs, no side condition: the operators
are stacked to shape `(n, d, d)` and the identifiers (given or default) are stored sorted. -/
theorem parse_hamiltonian_valid_never_rejected {H : HamSpec} {nDt : Nat} {pre : String}
    (hv : ValidHam H nDt pre) :
    ∃ d, hamDim H = some d ∧ parseHamiltonian H nDt pre =
      .ok ⟨[(hamItems H).length, d, d], Pulse.sortBy id (filledIds (hamItems H) pre)⟩ :=
  parseHamiltonian_of_valid hv

/-- `_parse_Hamiltonian` raises exactly on the arguments outside the documented domain
(`ValidHam`).  The only remaining hypothesis is `HamRegular` = "no sublist has more than three
entries" (D4: further entries are silently ignored, so such an undocumented input is accepted).
Since the check `parsed_opers.ndim != 3` was added, D2 and D3 are gone: stacks of row vectors,
1-d operators and squeezed `1 × 1` arrays are rejected. -/
theorem parse_hamiltonian_rejects_iff {H : HamSpec} {nDt : Nat} {pre : String} (hr : HamRegular H) :
    (∃ e, parseHamiltonian H nDt pre = .error e) ↔ ¬ ValidHam H nDt pre :=
  rejects_iff_of (fun hv => let ⟨_, _, h⟩ := parseHamiltonian_of_valid hv; ⟨_, h⟩)
    (fun _ h => valid_of_parseHamiltonian hr h)

/-- Every rejected argument is outside the documented domain (all inputs). -/
theorem parse_hamiltonian_rejected_invalid {H : HamSpec} {nDt : Nat} {pre : String} {e : Err}
    (h : parseHamiltonian H nDt pre = .error e) : ¬ ValidHam H nDt pre := by
  intro hv
  obtain ⟨_, _, h'⟩ := parseHamiltonian_of_valid hv
  rw [h'] at h; cases h

/-- Which exception (all inputs): every rejection is explained by a catalogued corruption of the
class raised (`TypeError`: not a list of lists, no sublist has coefficients, operator missing /
not array-like, coefficients missing / not a sequence; `ValueError`: empty, operators not square
matrices of one dimension, duplicate identifiers, wrong number of coefficients). -/
theorem parse_hamiltonian_rejection_explained {H : HamSpec} {nDt : Nat} {pre : String} {e : Err}
    (h : parseHamiltonian H nDt pre = .error e) :
    ∃ k, HamViolates H nDt pre k ∧ k.cls = e :=
  parseHamiltonian_error h

/-- Every catalogued corruption leaves the documented domain. -/
theorem parse_hamiltonian_violation_invalid {H : HamSpec} {nDt : Nat} {pre : String} {k : HamKind}
    (h : HamViolates H nDt pre k) : ¬ ValidHam H nDt pre :=
  not_valid_of_hamViolates h

/-- If the argument is invalid and all corruptions present have class `e` (e.g. exactly one
corruption), the exception raised is `e`.  (`HamRegular`: D4, see `parse_hamiltonian_rejects_iff`.) -/
theorem parse_hamiltonian_class_of_corruption {H : HamSpec} {nDt : Nat} {pre : String} {e : Err}
    (hr : HamRegular H) (hnv : ¬ ValidHam H nDt pre)
    (hall : ∀ k, HamViolates H nDt pre k → k.cls = e) : parseHamiltonian H nDt pre = .error e := by
  obtain ⟨e', he'⟩ := (parse_hamiltonian_rejects_iff hr).mpr hnv
  obtain ⟨k, hk, hc⟩ := parseHamiltonian_error he'
  rw [he', ← hc, hall k hk]

/-- The exception is always a `TypeError` or a `ValueError` (all inputs; after the repair of D1:
sublists without coefficients used to surface as an `IndexError`). -/
theorem parse_hamiltonian_error_class {H : HamSpec} {nDt : Nat} {pre : String} {e : Err}
    (h : parseHamiltonian H nDt pre = .error e) :
    e = .typeError ∨ e = .valueError :=
  parseHamiltonian_error_cases h

/-! ### `_parse_args` (the constructor `PulseSequence(H_c, H_n, dt, basis)`) -/

/-- Documented constructor arguments are accepted — ALL inputs, no side condition; the new pulse
has the sorted identifiers, the operators' dimension `d` and `len(dt)` segments. -/
theorem parse_args_valid_never_rejected {x : ArgsSpec} (hv : ValidArgs x) :
    ∃ d, hamDim x.Hc = some d ∧ parseArgs x = .ok
      ⟨Pulse.sortBy id (filledIds (hamItems x.Hc) "A"),
       Pulse.sortBy id (filledIds (hamItems x.Hn) "B"), d, (dtElems x.dt).length⟩ :=
  parseArgs_of_valid hv

/-- The constructor raises exactly on the arguments outside the documented domain (`ValidArgs`:
`dt` a sequence of real non-negative durations, both Hamiltonians valid with `len(dt)`
coefficients per operator, equal dimensions, basis — if given — a `Basis` of `d × d` elements).
`ArgsRegular`: no sublist of `H_c`, `H_n` has more than three entries (D4). -/
theorem parse_args_rejects_iff {x : ArgsSpec} (hr : ArgsRegular x) :
    (∃ e, parseArgs x = .error e) ↔ ¬ ValidArgs x :=
  rejects_iff_of (fun hv => let ⟨_, _, h⟩ := parseArgs_of_valid hv; ⟨_, h⟩)
    (fun _ h => valid_of_parseArgs hr h)

/-- Every rejected argument tuple is outside the documented domain (all inputs). -/
theorem parse_args_rejected_invalid {x : ArgsSpec} {e : Err} (h : parseArgs x = .error e) :
    ¬ ValidArgs x := by
  intro hv
  obtain ⟨_, _, h'⟩ := parseArgs_of_valid hv
  rw [h'] at h; cases h

/-- Which exception: `TypeError` for a `dt` without `__len__`; `ValueError` for complex or negative
durations, mismatching dimensions, a basis of the wrong type or shape; the class of the
Hamiltonian corruption otherwise.  (`ArgsRegular` is used for the last three kinds only, whose
statement refers to `ValidHam` of both Hamiltonians.) -/
theorem parse_args_rejection_explained {x : ArgsSpec} {e : Err} (hr : ArgsRegular x)
    (h : parseArgs x = .error e) : ∃ k, ArgsViolates x k ∧ k.cls = e :=
  parseArgs_error hr h

theorem parse_args_violation_invalid {x : ArgsSpec} {k : ArgsKind} (h : ArgsViolates x k) :
    ¬ ValidArgs x :=
  not_valid_of_argsViolates h

/-- If the arguments are invalid and all corruptions present have class `e`, `e` is raised. -/
theorem parse_args_class_of_corruption {x : ArgsSpec} {e : Err} (hr : ArgsRegular x)
    (hnv : ¬ ValidArgs x) (hall : ∀ k, ArgsViolates x k → k.cls = e) : parseArgs x = .error e := by
  obtain ⟨e', he'⟩ := (parse_args_rejects_iff hr).mpr hnv
  obtain ⟨k, hk, hc⟩ := parseArgs_error hr he'
  rw [he', ← hc, hall k hk]

/-- The exception is always a `TypeError` or a `ValueError` (all inputs). -/
theorem parse_args_error_class {x : ArgsSpec} {e : Err}
    (h : parseArgs x = .error e) : e = .typeError ∨ e = .valueError :=
  parseArgs_error_cases h

section Examples

/-- a valid `[operator, coefficients, identifier]` sublist for two segments -/
def item (id : Option String) (shape : List Nat := [2, 2]) (n : Nat := 2) : ItemSpec :=
  { nFields := if id.isSome then 3 else 2, oper := .array shape, coeff := .seq n, ident := id }

/-- `PulseSequence([[X, [a, b], 'X'], [Y, [a, b]]], [[Z, [s, s]]], [1, 1])` -/
def x0 : ArgsSpec :=
  { dt := .seq [.nonneg, .nonneg], Hc := .list [item (some "X"), item none], Hn := .list [item none] }

example : ValidArgs x0 ∧ ArgsRegular x0 := by decide
example : parseArgs x0 = .ok ⟨["A_1", "X"], ["B_0"], 2, 2⟩ := by decide
example : parseArgs { x0 with basis := some (.basis [4, 2, 2]) } = .ok ⟨["A_1", "X"], ["B_0"], 2, 2⟩ := by
  decide
example : ValidArgs { x0 with basis := some (.basis [3, 2, 2]) } := by decide

-- one corruption each
example : parseArgs { x0 with dt := .noLen } = .error .typeError := by decide
example : parseArgs { x0 with dt := .seq [.nonneg, .complex] } = .error .valueError := by decide
example : parseArgs { x0 with dt := .seq [.neg, .nonneg] } = .error .valueError := by decide
example : parseArgs { x0 with Hc := .notList } = .error .typeError := by decide
example : parseArgs { x0 with Hn := .list [item none, { isList := false }] } = .error .typeError := by
  decide
example : parseArgs { x0 with Hc := .list [] } = .error .valueError := by decide
example : parseArgs { x0 with Hn := .list [{ item none with oper := .other }] } = .error .typeError := by
  decide
example : parseArgs { x0 with Hc := .list [item (some "X"), item none [2, 3]] } = .error .valueError := by
  decide
example : parseArgs { x0 with Hc := .list [item (some "X") [2, 2, 2], item none [2, 2, 2]] } =
    .error .valueError := by decide
example : parseArgs { x0 with Hc := .list [item (some "X"), item none [3, 3]] } = .error .valueError := by
  decide
example : parseArgs { x0 with Hc := .list [{ item none with coeff := .noLen }] } = .error .typeError := by
  decide
example : parseArgs { x0 with Hc := .list [item (some "X"), item (some "X")] } = .error .valueError := by
  decide
example : parseArgs { x0 with Hc := .list [item (some "A_1"), item none] } = .error .valueError := by
  decide
example : parseArgs { x0 with Hn := .list [item none [2, 2] 3] } = .error .valueError := by decide
example : parseArgs { x0 with Hn := .list [item none [3, 3]] } = .error .valueError := by decide
example : parseArgs { x0 with basis := some .notBasis } = .error .valueError := by decide
example : parseArgs { x0 with basis := some (.basis [16, 4, 4]) } = .error .valueError := by decide
example : ArgsViolates { x0 with Hn := .list [item none [2, 2] 3] } (.noise .coeffWrongLength) := by
  decide

/-- D1 (repaired): sublists without coefficients raise `TypeError` (used to be an `IndexError`). -/
example : parseArgs { x0 with Hc := .list [{ item none with nFields := 1 }] } = .error .typeError := by
  decide
/-- D2 (repaired): four row vectors `(1, 4)` as control operators (they stack to a `4 × 4` array)
with a `4 × 4` noise operator are rejected — the stacked array does not have three axes. -/
def xRow : ArgsSpec :=
  { dt := .seq [.nonneg],
    Hc := .list [item none [1, 4] 1, item none [1, 4] 1, item none [1, 4] 1, item none [1, 4] 1],
    Hn := .list [item none [4, 4] 1] }
example : parseArgs xRow = .error .valueError ∧ ¬ ValidArgs xRow ∧ ArgsRegular xRow ∧
    ArgsViolates xRow (.control .opersNotSquare) := by decide
/-- D2 (repaired): two 1-d operators of length 2 -/
example : parseArgs { x0 with Hc := .list [item (some "X") [2], item none [2]] } =
    .error .valueError := by decide
/-- D3 (repaired): `1 × 1` `ndarray` operators are squeezed to scalars, which are not matrices
(`operDim`): consistently rejected, whatever their number. -/
def xOne : ArgsSpec :=
  { dt := .seq [.nonneg], Hc := .list [item none [1, 1] 1],
    Hn := .list [item none [1, 1] 1, item none [1, 1] 1] }
example : ¬ ValidArgs xOne ∧ parseArgs xOne = .error .valueError ∧ ArgsRegular xOne := by decide
example : parseArgs { xOne with Hn := .list [item none [1, 1] 1] } = .error .valueError := by decide
/-- a `1 × 1` Qobj (not squeezed) is a matrix of dimension one: accepted -/
def qOne : ItemSpec := { nFields := 2, oper := .convertible [1, 1], coeff := .seq 1 }
def xQOne : ArgsSpec := { dt := .seq [.nonneg], Hc := .list [qOne], Hn := .list [qOne] }
example : parseArgs xQOne = .ok ⟨["A_0"], ["B_0"], 1, 1⟩ ∧ ValidArgs xQOne := by decide
/-- an `ndarray` with additional axes of length one is the matrix it squeezes to: accepted -/
example : parseArgs { x0 with Hn := .list [item none [2, 2, 1]] } = .ok ⟨["A_1", "X"], ["B_0"], 2, 2⟩ ∧
    ValidArgs { x0 with Hn := .list [item none [2, 2, 1]] } := by decide
/-- D4 (the one remaining discrepancy): a fourth entry of a sublist is ignored. -/
def xFour : ArgsSpec := { x0 with Hn := .list [{ item (some "Z") with nFields := 4 }] }
example : parseArgs xFour = .ok ⟨["A_1", "X"], ["Z"], 2, 2⟩ ∧ ¬ ValidArgs xFour ∧
    ¬ ArgsRegular xFour := by decide

end Examples

/-! ### `util.parse_spectrum` -/

/-- A documented spectrum — shape `(n_omega,)`, `(n_nops, n_omega)` or Hermitian
`(n_nops, n_nops, n_omega)` — is accepted and returned with its own shape (all inputs). -/
theorem parse_spectrum_valid_never_rejected {shape : List Nat} {nIdx nOmega : Nat} {herm : Bool}
    (hv : ValidSpectrum shape nIdx nOmega herm) :
    parseSpectrum shape nIdx nOmega herm = .ok shape :=
  parseSpectrum_of_valid hv

/-- `parse_spectrum` raises — always a `ValueError` — exactly on the spectra outside the documented
domain, provided the spectrum is not 0-d and no axis of length one is stretched (D5). -/
theorem parse_spectrum_rejects_iff {shape : List Nat} {nIdx nOmega : Nat} {herm : Bool} (e : Err)
    (hs : ¬ Stretched shape nIdx nOmega) :
    parseSpectrum shape nIdx nOmega herm = .error e ↔
      ¬ ValidSpectrum shape nIdx nOmega herm ∧ e = .valueError := by
  constructor
  · intro h
    refine ⟨fun hv => ?_, parseSpectrum_error h⟩
    rw [parseSpectrum_of_valid hv] at h; cases h
  · rintro ⟨hnv, rfl⟩
    rcases except_cases (parseSpectrum shape nIdx nOmega herm) with ⟨e, he⟩ | ⟨r, hr⟩
    · rw [he, parseSpectrum_error he]
    · exact absurd (valid_of_parseSpectrum hs hr) hnv

/-- the only exception class of `parse_spectrum` is `ValueError` (all inputs) -/
theorem parse_spectrum_error_class {shape : List Nat} {nIdx nOmega : Nat} {herm : Bool} {e : Err}
    (h : parseSpectrum shape nIdx nOmega herm = .error e) : e = .valueError :=
  parseSpectrum_error h

section Examples
example : parseSpectrum [5] 2 5 false = .ok [5] := by decide
example : parseSpectrum [2, 5] 2 5 false = .ok [2, 5] := by decide
example : parseSpectrum [2, 2, 5] 2 5 true = .ok [2, 2, 5] := by decide
example : ¬ Stretched [2, 2, 5] 2 5 ∧ ValidSpectrum [2, 2, 5] 2 5 true := by decide
-- corruptions: wrong number of frequencies / of operators, non-Hermitian cross-spectra, 4 axes
example : parseSpectrum [4] 2 5 false = .error .valueError := by decide
example : parseSpectrum [3, 5] 2 5 false = .error .valueError := by decide
example : parseSpectrum [2, 3, 5] 2 5 true = .error .valueError := by decide
example : parseSpectrum [2, 2, 5] 2 5 false = .error .valueError := by decide
example : parseSpectrum [2, 2, 2, 5] 2 5 true = .error .valueError := by decide
/-- D5: a `(1, n_omega)` spectrum for two operators and a 0-d spectrum are accepted. -/
example : parseSpectrum [1, 5] 2 5 false = .ok [2, 5] ∧ ¬ ValidSpectrum [1, 5] 2 5 false ∧
    parseSpectrum [] 2 5 false = .ok [5] ∧ ¬ ValidSpectrum [] 2 5 false := by decide
end Examples

/-! ### `util.get_indices_from_identifiers` -/

/-- `get_indices_from_identifiers` raises — a `ValueError` — exactly when an identifier that is not
available is requested (all inputs; `None` selects everything, repetitions are allowed). -/
theorem identifiers_reject_iff (known : List String) (r : Requested) (e : Err) :
    indicesFromIdentifiers known r = .error e ↔ ¬ ValidRequest known r ∧ e = .valueError :=
  indices_error_iff known r e

theorem identifiers_valid_never_rejected {known : List String} {r : Requested}
    (hv : ValidRequest known r) : ∃ is, indicesFromIdentifiers known r = .ok is := by
  rcases except_cases (indicesFromIdentifiers known r) with ⟨e, he⟩ | h
  · exact absurd hv ((indices_error_iff known r e).mp he).1
  · exact h

/-- The indices returned select the requested identifiers in the requested order (for `None`: all
of them in stored order). -/
theorem identifiers_indices_correct {known : List String} {r : Requested} {is : List Nat}
    (h : indicesFromIdentifiers known r = .ok is) :
    is.map (fun i => known[i]?) = (requestedList known r).map some :=
  indices_ok_spec h

section Examples
example : indicesFromIdentifiers ["X", "Y", "Z"] (.many ["Z", "X", "Z"]) = .ok [2, 0, 2] := by decide
example : indicesFromIdentifiers ["X", "Y", "Z"] .all = .ok [0, 1, 2] := by decide
example : indicesFromIdentifiers ["X", "Y", "Z"] (.single "Y") = .ok [1] := by decide
example : indicesFromIdentifiers ["XY", "Z"] (.many ["X", "Y"]) = .error .valueError := by decide
example : indicesFromIdentifiers ["X", "Y", "Z"] (.single "W") = .error .valueError := by decide
end Examples

/-! ### `util.parse_optional_parameters` (option values) -/

/-- For EVERY function / parameter pair of the generated table `Gen.options` (read from the
decorators in the source): the decorator raises — a `ValueError` — exactly for the values that
are not in the documented tuple. -/
theorem options_reject_iff {entry : String × String × List String} (h : entry ∈ Gen.options)
    (value : String) (e : Err) :
    optionsOk entry.1 entry.2.1 value = .error e ↔ value ∉ entry.2.2 ∧ e = .valueError := by
  unfold optionsOk
  rw [allowedFor_of_mem h]
  simp only [List.contains_iff_mem]
  split
  · rename_i hm
    constructor
    · intro h'; cases h'
    · rintro ⟨h', -⟩; exact absurd hm h'
  · rename_i hm
    constructor
    · intro h'; cases h'; exact ⟨hm, rfl⟩
    · rintro ⟨-, rfl⟩; rfl

theorem options_valid_never_rejected {entry : String × String × List String}
    (h : entry ∈ Gen.options) {value : String} (hv : value ∈ entry.2.2) :
    optionsOk entry.1 entry.2.1 value = .ok () := by
  rcases except_cases (optionsOk entry.1 entry.2.1 value) with ⟨e, he⟩ | ⟨⟨⟩, h'⟩
  · exact absurd hv ((options_reject_iff h value e).mp he).1
  · exact h'

/-- parameters that do not occur in the table are not restricted -/
theorem options_unlisted_accepted {func param : String}
    (h : ∀ e ∈ Gen.options, ¬ (e.1 = func ∧ e.2.1 = param)) (value : String) :
    optionsOk func param value = .ok () := by
  unfold optionsOk; rw [allowedFor_none_of_not_mem h]

section Examples
example : optionsOk "numeric.infidelity" "which" "'correlations'" = .ok () := by decide
example : optionsOk "numeric.infidelity" "which" "'fidelity'" = .error .valueError := by decide
example : optionsOk "pulse_sequence.PulseSequence.cleanup" "method" "'frequency dependent'" = .ok () := by
  decide
example : optionsOk "pulse_sequence.PulseSequence.get_filter_function" "order" "3" =
    .error .valueError := by decide
example : ("pulse_sequence.concatenate", "which", ["'fidelity'", "'generalized'"]) ∈ Gen.options := by
  decide
end Examples

/-! ### `Basis.__new__` -/

/-- `Basis(basis_array, labels)` raises — a `TypeError` or a `ValueError` — exactly on arguments
outside the documented domain (`ValidBasisArg`), and accepts the others.  `BasisArgRegular`: there
is at least one element and the elements are `OperRegular` (at least two axes after squeezing —
`Basis.__new__` calls `parse_operators` without the `ndim == 3` check that `_parse_Hamiltonian`
now has, so two 1-d arrays of length 2 still make a "basis" of shape `(2, 2)`); an argument that already IS a `Basis` has a
valid shape — the constructor takes such an instance over WITHOUT re-checking it (D6a: an
overcomplete `Basis` obtained by array operations, e.g. `np.concatenate` of two bases viewed as
`Basis`, passes). -/
theorem basis_ctor_rejects_iff (a : BasisArg) (labels : Option Nat) (hr : BasisArgRegular a) :
    ((∃ e, basisNew a labels = .error e) ↔ ¬ ValidBasisArg a labels) ∧
    ∀ e, basisNew a labels = .error e → e = .typeError ∨ e = .valueError := by
  rcases basisNew_spec a labels hr with ⟨hv, r, hr'⟩ | ⟨hv, e, he, hc⟩
  · refine ⟨⟨?_, fun h => absurd hv h⟩, ?_⟩
    · rintro ⟨e, he⟩; rw [hr'] at he; cases he
    · intro e he; rw [hr'] at he; cases he
  · refine ⟨⟨fun _ => hv, fun _ => ⟨e, he⟩⟩, ?_⟩
    intro e' he'; rw [he] at he'; cases he'; exact hc

theorem basis_ctor_valid_never_rejected (a : BasisArg) (labels : Option Nat)
    (hr : BasisArgRegular a) (hv : ValidBasisArg a labels) : ∃ r, basisNew a labels = .ok r := by
  rcases basisNew_spec a labels hr with ⟨_, h⟩ | ⟨hnv, _⟩
  · exact h
  · exact absurd hv hnv

/-- For a list of elements: `TypeError` exactly when some element is not array-like; the stacked
shape of an accepted list is `(n, d, d)`. -/
theorem basis_ctor_elems (l : List OperSpec) (labels : Option Nat) (hne : l ≠ [])
    (hr : ∀ o ∈ l, OperRegular o) :
    (ValidBasisElems l labels ∧ ∃ d, basisNew (.elems l) labels = .ok [l.length, d, d]) ∨
    (¬ ValidBasisElems l labels ∧ ∃ e, basisNew (.elems l) labels = .error e ∧
      (e = .typeError ↔ ∃ o ∈ l, o = .other) ∧ (e = .typeError ∨ e = .valueError)) :=
  basisElems_spec l labels hne hr

section Examples
def pauliLike : List OperSpec := List.replicate 4 (.array [2, 2])
example : basisNew (.elems pauliLike) none = .ok [4, 2, 2] ∧ ValidBasisArg (.elems pauliLike) none := by
  decide
example : BasisArgRegular (.elems pauliLike) ∧ BasisArgRegular (.inst [4, 2, 2]) := by decide
example : basisNew (.single (.array [3, 3])) (some 1) = .ok [1, 3, 3] := by decide
example : basisNew .noGetitem none = .error .typeError := by decide
example : basisNew (.elems [.array [2, 2], .other]) none = .error .typeError := by decide
example : basisNew (.elems (.array [2, 2] :: pauliLike)) none = .error .valueError := by decide   -- overcomplete
example : basisNew (.elems [.array [2, 2], .array [2, 3]]) none = .error .valueError := by decide
example : basisNew (.elems pauliLike) (some 3) = .error .valueError := by decide               -- labels
/-- D6a: a `Basis` instance with 5 > 2² elements is accepted. -/
example : basisNew (.inst [5, 2, 2]) none = .ok [5, 2, 2] ∧ ¬ ValidBasisArg (.inst [5, 2, 2]) none := by
  decide
end Examples

/-! ### `PulseSequence.__getitem__` -/

/-- Slicing raises — an `IndexError` — exactly when no segment is selected. -/
theorem getitem_rejects_iff (nDt start stop : Nat) (e : Err) :
    getitemCheck nDt start stop = .error e ↔ (min stop nDt ≤ start ∧ e = .indexError) := by
  unfold getitemCheck
  simp only
  split
  · rename_i h
    have : min stop nDt - start = 0 := by simpa using h
    constructor
    · intro h'; cases h'; exact ⟨by omega, rfl⟩
    · rintro ⟨-, rfl⟩; rfl
  · rename_i h
    have : ¬ min stop nDt - start = 0 := by simpa using h
    constructor
    · intro h'; cases h'
    · rintro ⟨h', -⟩; omega

example : getitemCheck 3 1 3 = .ok 2 ∧ getitemCheck 3 3 7 = .error .indexError ∧
    getitemCheck 3 2 2 = .error .indexError := by decide

/-! ### `concatenate_without_filter_function`, `concatenate`, `concatenate_periodic` -/

/-- `concatenate_without_filter_function` accepts exactly the documented inputs (`ValidConcat`:
non-empty sequence of pulses of one dimension and basis, no operator under two identifiers,
sensitivities of missing noise operators inferable).  `ConcatRegular`: class invariants of the
pulses, and bases that are equal as arrays have equal bytes — the code compares `tobytes()`
hashes (`util.all_array_equal`), so bases differing only in the sign of a zero are "different"
(D6b). -/
theorem concat_without_ff_rejects_iff (pulses : List CPulse) (hr : ConcatRegular pulses) :
    (∃ e, concatWithoutFFChecks pulses = .error e) ↔ ¬ ValidConcat pulses := by
  rcases concatWithoutFF_spec pulses hr with ⟨hv, h⟩ | ⟨hv, k, _, h⟩
  · exact ⟨(fun ⟨e, he⟩ => by rw [h] at he; cases he), fun hn => absurd hv hn⟩
  · exact ⟨fun _ => hv, fun _ => ⟨_, h⟩⟩

theorem concat_without_ff_valid_never_rejected (pulses : List CPulse) (hr : ConcatRegular pulses)
    (hv : ValidConcat pulses) : concatWithoutFFChecks pulses = .ok () := by
  rcases concatWithoutFF_spec pulses hr with ⟨_, h⟩ | ⟨hnv, _⟩
  · exact h
  · exact absurd hv hnv

/-- Which exception: `TypeError` for an entry that is not a pulse, `ValueError` for no pulses,
different dimensions, different bases, an operator under two identifiers, sensitivities that
cannot be inferred. -/
theorem concat_without_ff_rejection_explained (pulses : List CPulse) (hr : ConcatRegular pulses)
    {e : Err} (h : concatWithoutFFChecks pulses = .error e) :
    ∃ k, ConcatViolates pulses k ∧ k.cls = e := by
  rcases concatWithoutFF_spec pulses hr with ⟨_, h'⟩ | ⟨_, k, hk, h'⟩
  · rw [h'] at h; cases h
  · rw [h'] at h; cases h; exact ⟨k, hk, rfl⟩

/-- `concatenate(pulses, calc_pulse_correlation_FF, calc_filter_function, omega)` outside the
single-entry shortcut (`concatShortcut`: one entry and nothing to compute): rejected exactly when the pulses are not `ValidConcat` or the frequencies
needed cannot be inferred (`FreqOk`); `OmegaRegular`: cached frequencies that are equal as arrays
have equal bytes (the code compares byte hashes: `[1, 2]` of dtype int vs float are "different",
D6b). -/
theorem concat_rejects_iff (pulses : List CPulse) (o : ConcatOpts)
    (hl : concatShortcut pulses o = false)
    (hr : ConcatRegular pulses) (hro : OmegaRegular pulses) :
    (∃ e, concatChecks pulses o = .error e) ↔ ¬ (ValidConcat pulses ∧ FreqOk pulses o) := by
  rcases concatWithoutFF_spec pulses hr with ⟨hv, h⟩ | ⟨hv, k, _, h⟩
  · rcases concatChecks_freq pulses o hl h hro with ⟨hf, h'⟩ | ⟨hf, h'⟩
    · exact ⟨(fun ⟨e, he⟩ => by rw [h'] at he; cases he), fun hn => absurd ⟨hv, hf⟩ hn⟩
    · exact ⟨fun _ hn => hf hn.2, fun _ => ⟨_, h'⟩⟩
  · have : concatChecks pulses o = .error k.cls := by
      unfold concatChecks
      rw [hl, h]; rfl
    exact ⟨fun _ hn => hv hn.1, fun _ => ⟨_, this⟩⟩

theorem concat_valid_never_rejected (pulses : List CPulse) (o : ConcatOpts)
    (hr : ConcatRegular pulses) (hro : OmegaRegular pulses)
    (hv : ValidConcat pulses) (hf : FreqOk pulses o) : concatChecks pulses o = .ok () := by
  cases hl : concatShortcut pulses o
  · rcases except_cases (concatChecks pulses o) with he | ⟨⟨⟩, h⟩
    · exact absurd ⟨hv, hf⟩ ((concat_rejects_iff pulses o hl hr hro).mp he)
    · exact h
  · unfold concatChecks; simp [hl]

/-- The exception class of `concatenate`: `TypeError` exactly when an entry is not a pulse,
`ValueError` otherwise. -/
theorem concat_error_class (pulses : List CPulse) (o : ConcatOpts) (hr : ConcatRegular pulses)
    (hro : OmegaRegular pulses) {e : Err} (h : concatChecks pulses o = .error e) :
    (e = .typeError ∧ ∃ p ∈ pulses, p.isPulse = false) ∨
    (e = .valueError ∧ ∀ p ∈ pulses, p.isPulse = true) := by
  cases hl : concatShortcut pulses o with
  | true => unfold concatChecks at h; simp [hl] at h
  | false =>
  rcases concatWithoutFF_spec pulses hr with ⟨hv, h'⟩ | ⟨hv, k, hk, h'⟩
  · rcases concatChecks_freq pulses o hl h' hro with ⟨_, h''⟩ | ⟨_, h''⟩
    · rw [h''] at h; cases h
    · rw [h''] at h; cases h; exact .inr ⟨rfl, hv.2.1⟩
  · have : concatChecks pulses o = .error k.cls := by
      unfold concatChecks
      rw [hl, h']; rfl
    rw [this] at h; cases h
    cases k with
    | notPulse => exact .inl ⟨rfl, hk⟩
    | _ =>
      right
      refine ⟨rfl, ?_⟩
      -- the check for non-pulses comes first: had there been one, the class would be TypeError
      intro p hp
      cases hip : p.isPulse with
      | true => rfl
      | false =>
        exfalso
        have hany : pulses.any (fun p => !p.isPulse) = true :=
          List.any_eq_true.mpr ⟨p, hp, by simp [hip]⟩
        unfold concatWithoutFFChecks at h'
        rw [if_pos hany] at h'
        cases h'

/-- D6c: `concatenate` of exactly one entry, when nothing has to be computed, returns a deep copy
of it WITHOUT any check — also when the entry is not a pulse (`concatenate([5])` returns `5`).
(With a forced calculation or requested correlations a single entry goes through all checks.) -/
theorem concat_single_unchecked (p : CPulse) (o : ConcatOpts)
    (h : concatShortcut [p] o = true) : concatChecks [p] o = .ok () := by
  unfold concatChecks; simp [h]

/-- `concatenate_periodic(pulse, repeats)` raises a `TypeError` exactly for a non-pulse. -/
theorem concat_periodic_rejects_iff (isPulse : Bool) (e : Err) :
    concatPeriodicCheck isPulse = .error e ↔ (isPulse = false ∧ e = .typeError) := by
  cases isPulse
  · simp [concatPeriodicCheck]; exact eq_comm
  · simp [concatPeriodicCheck]

section Examples
open Pulse in
def cp (b : Nat := 0) (c : List Term := [⟨0, "X", [1]⟩]) (n : List Term := [⟨1, "Z", [1]⟩]) : CPulse :=
  { d := 2, basisBytes := b, basisValue := b, cTerms := c, nTerms := n }

example : ValidConcat [cp, cp] ∧ concatChecks [cp, cp] {} = .ok () := by decide
example : ConcatRegular [cp, cp 0 [⟨0, "X", [1]⟩, ⟨3, "Y", [2]⟩]] ∧ OmegaRegular [cp, cp] := by decide
example : concatChecks [cp, { cp with d := 3 }] {} = .error .valueError := by decide
example : concatChecks [cp, cp 1] {} = .error .valueError := by decide
example : concatChecks [cp, { cp with isPulse := false }] {} = .error .typeError := by decide
example : concatChecks [] {} = .error .valueError := by decide
-- the operator `0` under the identifiers `X` and `Y`
example : concatChecks [cp, cp 0 [⟨0, "Y", [1]⟩]] {} = .error .valueError := by decide
-- noise operator `2` only in the second pulse, with sensitivities 1, 2
example : concatChecks [cp 0 [⟨0, "X", [1, 1]⟩] [⟨1, "Z", [1, 1]⟩],
    cp 0 [⟨0, "X", [1, 1]⟩] [⟨1, "Z", [1, 1]⟩, ⟨2, "Y", [1, 2]⟩]] {} = .error .valueError := by decide
-- filter function forced / pulse correlations requested without frequencies
example : concatChecks [cp, cp] { calcFF := some true } = .error .valueError := by decide
example : concatChecks [cp, cp] { calcPc := true } = .error .valueError := by decide
example : concatChecks [cp, cp] { calcPc := true, omegaGiven := true } = .ok () := by decide
example : concatChecks [{ cp with cmCached := true, omegaBytes := some 0, omegaValue := some 0 }, cp]
    { calcPc := true } = .ok () := by decide
/-- D6b: bases (frequencies) equal as arrays but with different bytes are rejected. -/
example : concatChecks [cp, { cp with basisBytes := 1 }] {} = .error .valueError ∧
    ValidConcat [cp, { cp with basisBytes := 1 }] := by decide
example : concatChecks [{ cp with cmCached := true, omegaBytes := some 0, omegaValue := some 0 },
    { cp with cmCached := true, omegaBytes := some 1, omegaValue := some 0 }] { calcFF := some true } =
    .error .valueError := by decide
end Examples

/-! ### `remap` -/

/-- The operator part of `remap(pulse, order, d_per_qubit)` (the two `tensor_transpose` calls)
raises — a `ValueError` — exactly when `order` is not a permutation of `0 … N-1` (negative
entries, repetitions, wrong length) or the dimension of the pulse is not `d_per_qubit ** N`; here
`N = logN` is what NumPy computes for `int(log(d)/log(d_per_qubit))`, which is the number of qubits
except for rounding (D6e: it is 2 for `d = 216`, `d_per_qubit = 6`, so every `order` is rejected
for that valid pulse). -/
theorem remap_shape_rejects_iff (d logN dpq : Nat) (order : List Int) (e : Err) :
    remapShapeChecks d logN dpq order = .error e ↔
      ¬ RemapShapeOk d logN dpq order ∧ e = .valueError := by
  unfold remapShapeChecks RemapShapeOk
  by_cases hneg : ∃ o ∈ order, o < 0
  · rw [C16.transposeResultInt_negative _ _ _ hneg]
    constructor
    · intro h; cases h
      refine ⟨?_, rfl⟩
      rintro ⟨h, -, -⟩
      obtain ⟨o, ho, hlt⟩ := hneg
      have := h o ho; omega
    · rintro ⟨-, rfl⟩; rfl
  · have hnn : ∀ o ∈ order, 0 ≤ o := by
      intro o ho
      apply Classical.byContradiction
      intro h; exact hneg ⟨o, ho, by omega⟩
    have hany : order.any (fun o => decide (o < 0)) = false := by
      rw [List.any_eq_false]; intro o ho; simpa using hnn o ho
    unfold Tensor.transposeResultInt
    rw [hany]
    simp only [Bool.false_eq_true, ↓reduceIte]
    by_cases hp : (order.map Int.toNat).Perm (List.range logN)
    · have hp' : (order.map Int.toNat).Perm (List.range (List.replicate logN dpq).length) := by
        simpa using hp
      rw [C16.transposeResult_spec _ _ _ hp']
      simp only
      by_cases hd : d = dpq ^ logN
      · subst hd
        simp only [bne_self_eq_false, Bool.false_eq_true, ↓reduceIte]
        constructor
        · intro h; cases h
        · rintro ⟨h, -⟩; exact absurd ⟨hnn, hp, trivial⟩ h
      · have : (d != dpq ^ logN) = true := by simpa using hd
        simp only [this, ↓reduceIte]
        constructor
        · intro h; cases h; exact ⟨fun h => hd h.2.2, rfl⟩
        · rintro ⟨-, rfl⟩; rfl
    · have hp' : ¬ (order.map Int.toNat).Perm (List.range (List.replicate logN dpq).length) := by
        simpa using hp
      rw [C16.transposeResult_rejected _ _ _ hp']
      constructor
      · intro h; cases h; exact ⟨fun h => hp h.2.1, rfl⟩
      · rintro ⟨-, rfl⟩; rfl

theorem remap_shape_ok_iff (d logN dpq : Nat) (order : List Int) :
    remapShapeChecks d logN dpq order = .ok () ↔ RemapShapeOk d logN dpq order := by
  cases h : remapShapeChecks d logN dpq order with
  | ok u =>
    refine ⟨fun _ => ?_, fun _ => rfl⟩
    apply Classical.byContradiction
    intro hn
    have := (remap_shape_rejects_iff d logN dpq order .valueError).mpr ⟨hn, rfl⟩
    rw [h] at this; cases this
  | error e =>
    constructor
    · intro h'; cases h'
    · intro hok
      exact absurd hok ((remap_shape_rejects_iff d logN dpq order e).mp h).1

/-- A documented call of `remap` (`ValidRemap`: `order` a permutation of the qubits, dimension
`d_per_qubit ** N`, the mapping — if given — covers all identifiers and is injective on the
control and on the noise identifiers) is never rejected.  ALL inputs. -/
theorem remap_valid_never_rejected (d logN dpq : Nat) (order : List Int) (cIds nIds : List String)
    (mapping : Option RemapDef.Dict) (hv : ValidRemap d logN dpq order cIds nIds mapping) :
    remapChecks d logN dpq order cIds nIds mapping = .ok () := by
  unfold remapChecks
  rw [(remap_shape_ok_iff d logN dpq order).mpr hv.1]
  rcases remapIdChecks_spec cIds nIds mapping with ⟨_, _, _, h⟩ | ⟨hn, _⟩ | ⟨_, hn, _⟩
  · exact h
  · exact absurd hv.2.1 hn
  · exact absurd hv.2.2 hn

/-- `remap(pulse, order, d_per_qubit, oper_identifier_mapping)` raises exactly outside the
documented domain (`ValidRemap`), and always a `ValueError` (ALL inputs): for an `order` / a
dimension that does not fit (first, `remap_shape_rejects_iff`); else when the mapping misses an
identifier (the repair of F50, D6j — formerly a `KeyError`); else when two control or two noise
operators get the same identifier (the repair of F48, D6i). -/
theorem remap_rejects_iff (d logN dpq : Nat) (order : List Int) (cIds nIds : List String)
    (mapping : Option RemapDef.Dict) (e : Err) :
    remapChecks d logN dpq order cIds nIds mapping = .error e ↔
      ¬ ValidRemap d logN dpq order cIds nIds mapping ∧ e = .valueError := by
  unfold remapChecks
  cases hs : remapShapeChecks d logN dpq order with
  | error e' =>
    obtain ⟨hn, rfl⟩ := (remap_shape_rejects_iff d logN dpq order e').mp hs
    simp only [Except.error.injEq]
    constructor
    · rintro rfl; exact ⟨fun hv => hn hv.1, rfl⟩
    · rintro ⟨-, rfl⟩; rfl
  | ok u =>
    have hok := (remap_shape_ok_iff d logN dpq order).mp (by rw [hs])
    simp only
    rcases remapIdChecks_spec cIds nIds mapping with ⟨ht, hc, hn, h⟩ | ⟨hnt, h⟩ | ⟨ht, hnd, h⟩
    · rw [h]
      constructor
      · intro h'; cases h'
      · rintro ⟨hnv, -⟩; exact absurd ⟨hok, ht, hc, hn⟩ hnv
    · rw [h]
      simp only [Except.error.injEq]
      constructor
      · rintro rfl; exact ⟨fun hv => hnt hv.2.1, rfl⟩
      · rintro ⟨-, rfl⟩; rfl
    · rw [h]
      simp only [Except.error.injEq]
      constructor
      · rintro rfl; exact ⟨fun hv => hnd hv.2.2, rfl⟩
      · rintro ⟨-, rfl⟩; rfl

/-- `remap` raises exactly on the calls outside `ValidRemap` (ALL inputs). -/
theorem remap_rejects_iff_invalid (d logN dpq : Nat) (order : List Int) (cIds nIds : List String)
    (mapping : Option RemapDef.Dict) :
    (∃ e, remapChecks d logN dpq order cIds nIds mapping = .error e) ↔
      ¬ ValidRemap d logN dpq order cIds nIds mapping := by
  constructor
  · rintro ⟨e, he⟩
    exact ((remap_rejects_iff _ _ _ _ _ _ _ _).mp he).1
  · intro hnv
    exact ⟨.valueError, (remap_rejects_iff _ _ _ _ _ _ _ _).mpr ⟨hnv, rfl⟩⟩

/-- **The repair of F48 in `remap`** (ALL inputs): a mapping that sends two control operators, or
two noise operators, to the same identifier is rejected with `ValueError` — whatever the other
arguments are. Without a mapping this concerns a pulse whose own identifiers repeat.
(Since the repair of F50 the hypothesis "the mapping covers the identifiers" is not needed any
more: a missing key is a `ValueError` as well, `remap_missing_key_rejected`.) -/
theorem remap_duplicate_mapped_ids_rejected (d logN dpq : Nat) (order : List Int)
    (cIds nIds : List String) (mapping : Option RemapDef.Dict)
    (hd : ¬ (remapMapped mapping cIds).Nodup ∨ ¬ (remapMapped mapping nIds).Nodup) :
    remapChecks d logN dpq order cIds nIds mapping = .error .valueError := by
  rw [remap_rejects_iff]
  refine ⟨?_, rfl⟩
  rintro ⟨-, -, h1, h2⟩
  exact hd.elim (fun h => h h1) (fun h => h h2)

/-- D6j (repaired, F50; ALL inputs): a mapping that misses an identifier is rejected with
`ValueError`, whatever `order` and the dimension are (formerly `KeyError` when they fit). -/
theorem remap_missing_key_rejected (d logN dpq : Nat) (order : List Int)
    (cIds nIds : List String) (mapping : Option RemapDef.Dict)
    (ht : ¬ RemapMappingTotal mapping (cIds ++ nIds)) :
    remapChecks d logN dpq order cIds nIds mapping = .error .valueError :=
  (remap_rejects_iff _ _ _ _ _ _ _ _).mpr ⟨fun hv => ht hv.2.1, rfl⟩

/-- The exception of `remap` is always a `ValueError` (ALL inputs). -/
theorem remap_error_class (d logN dpq : Nat) (order : List Int) (cIds nIds : List String)
    (mapping : Option RemapDef.Dict) {e : Err}
    (h : remapChecks d logN dpq order cIds nIds mapping = .error e) : e = .valueError :=
  ((remap_rejects_iff _ _ _ _ _ _ _ _).mp h).2

example : remapChecks 8 3 2 [2, 0, 1] = .ok () := by decide
example : remapChecks 8 3 2 [2, 0] = .error .valueError := by decide
example : remapChecks 8 3 2 [-1, 0, 1] = .error .valueError := by decide
example : remapChecks 8 3 2 [1, 1, 0] = .error .valueError := by decide
example : remapChecks 12 3 2 [2, 0, 1] = .error .valueError := by decide
/-- D6e -/
example : remapChecks 216 2 6 [1, 0, 2] = .error .valueError := by decide
-- identifiers: the pulse `extend([(X_pulse, 0), (X_pulse, 1)])` of the docstring of `extend`
example : ValidRemap 4 2 2 [1, 0] ["X_0", "X_1"] ["X_0", "X_1", "Z_0", "Z_1"] none ∧
    remapChecks 4 2 2 [1, 0] ["X_0", "X_1"] ["X_0", "X_1", "Z_0", "Z_1"] none = .ok () := by decide
/-- the example of the docstring of `remap` (identifiers swapped) -/
example : ValidRemap 4 2 2 [1, 0] ["XY"] ["YX"] (some [("XY", "YX"), ("YX", "XY")]) ∧
    remapChecks 4 2 2 [1, 0] ["XY"] ["YX"] (some [("XY", "YX"), ("YX", "XY")]) = .ok () := by decide
/-- D6i (repaired): a mapping that is not injective on the control identifiers … -/
example : remapChecks 4 2 2 [1, 0] ["X_0", "X_1"] ["Z_0", "Z_1"]
    (some [("X_0", "a"), ("X_1", "a"), ("Z_0", "b"), ("Z_1", "c")]) = .error .valueError := by decide
/-- … or on the noise identifiers; the same name for a control and a noise operator is fine -/
example : remapChecks 4 2 2 [1, 0] ["X_0", "X_1"] ["Z_0", "Z_1"]
    (some [("X_0", "a"), ("X_1", "b"), ("Z_0", "b"), ("Z_1", "b")]) = .error .valueError ∧
    remapChecks 4 2 2 [1, 0] ["X_0", "X_1"] ["Z_0", "Z_1"]
    (some [("X_0", "a"), ("X_1", "b"), ("Z_0", "a"), ("Z_1", "b")]) = .ok () := by decide
/-- D6j (repaired): `ValueError` for a missing key, as for a bad `order` -/
example : remapChecks 4 2 2 [1, 0] ["X_0", "X_1"] ["Z_0", "Z_1"] (some [("X_0", "a")]) =
      .error .valueError ∧
    remapChecks 4 2 2 [1, 1] ["X_0", "X_1"] ["Z_0", "Z_1"] (some [("X_0", "a")]) =
      .error .valueError := by decide
/-- hypotheses of `remap_duplicate_mapped_ids_rejected` / `remap_missing_key_rejected` are
satisfiable -/
example : ¬ (remapMapped (some [("X_0", "a"), ("X_1", "a")]) ["X_0", "X_1"]).Nodup ∧
    ¬ RemapMappingTotal (some [("X_0", "a")]) (["X_0", "X_1"] ++ []) := by
  decide

/-! ### `extend` -/

/-- A documented call of `extend` is never rejected.  Hypotheses: `ExtendRegularFront`,
`ExtendRegularBack` (they exclude the discrepancies D6d–D6g listed at `extend_rejects_iff`). -/
theorem extend_valid_never_rejected (x : ExtendSpec) (hrf : ExtendRegularFront x)
    (hrb : ExtendRegularBack x) (hv : ValidExtend x) : extendChecks x = .ok (extendN x) := by
  unfold extendChecks
  rcases extendFront_spec x hrf with ⟨hvf, hf⟩ | ⟨hnv, _⟩
  · rw [hf]
    simp only
    split
    · rfl
    · rcases extendBack_spec x (extendN x) hvf.1 hrb with ⟨_, hb⟩ | ⟨hnv, _⟩
      · exact hb
      · exact absurd hv.2 hnv
  · exact absurd hv.1 hnv

/-- `extend` raises exactly on the calls outside the documented domain (`ValidExtend`: non-empty
mapping; every pulse mapped to as many qubits as its dimension says; equal time grids; no qubit
used twice; `N` large enough; frequencies given or inferable when the filter function is forced;
diagonalization not switched off while needed; identifier mappings complete; control identifiers
and noise identifiers unique AFTER MAPPING (the repair of F48, D6i); additional noise Hamiltonian
valid, of the register's dimension, with new identifiers).  Hypotheses and the discrepancies they
exclude:
* `ExtendRegularFront`: time grids equal as arrays have equal bytes — the code hashes bytes, so
  `dt = [1, 1]` (int) vs `[1., 1.]`, or `0.0` vs `-0.0`, count as unequal (D6d); NumPy's
  `int(log(d)/log(d_per_qubit))` is exact — it is 2 for `d = 216 = 6³`, so `remap` (called for a
  qubit tuple that is not ascending) fails for a valid 3-qudit pulse (D6e); pulses that go through
  `remap` have unique identifiers of their own (invariant of `PulseSequence`; otherwise rejected
  too, but by the inner `remap`: `extend_own_duplicates_rejected`);
* `ExtendRegularBack`: the same for cached frequencies; `remap` keeps the cached frequencies;
  `cache_diagonalization=False` with an additional noise Hamiltonian is rejected even when no
  filter function is to be computed, i.e. when the diagonalization is NOT needed (D6f);
* no early return: a single pulse mapped onto its own qubits is returned as is, and the remaining
  arguments — including the additional noise Hamiltonian — are silently ignored (D6g). -/
theorem extend_rejects_iff (x : ExtendSpec) (hrf : ExtendRegularFront x)
    (hrb : ExtendRegularBack x) (hs : identityShortcut x.pulses (extendN x) = false) :
    (∃ e, extendChecks x = .error e) ↔ ¬ ValidExtend x := by
  unfold extendChecks
  rcases extendFront_spec x hrf with ⟨hvf, hf⟩ | ⟨hnv, _, hf⟩
  · rw [hf]
    simp only [hs, Bool.false_eq_true, ↓reduceIte]
    rcases extendBack_spec x (extendN x) hvf.1 hrb with ⟨hvb, hb⟩ | ⟨hnv, k, _, hb⟩
    · rw [hb]
      exact ⟨(fun ⟨e, he⟩ => by cases he), fun hn => absurd ⟨hvf, hvb⟩ hn⟩
    · rw [hb]
      exact ⟨fun _ hv => hnv hv.2, fun _ => ⟨_, rfl⟩⟩
  · rw [hf]
    exact ⟨fun _ hv => hnv hv.1, fun _ => ⟨_, rfl⟩⟩

/-- Which exception: every rejection is a `ValueError` explained by a corruption of the mapping,
or has the class of a corruption of the remaining arguments (`ValueError` — also for an incomplete
identifier mapping since the repair of F50, D6j — except for a malformed additional noise
Hamiltonian, which raises what the constructor raises for it). -/
theorem extend_rejection_explained (x : ExtendSpec) (hrf : ExtendRegularFront x)
    (hrb : ExtendRegularBack x) {e : Err} (h : extendChecks x = .error e) :
    (e = .valueError ∧ ∃ k, ExtFrontViolates x k) ∨
    (ValidExtendFront x ∧ ∃ k, ExtBackViolates x (extendN x) k ∧ k.cls = e) := by
  unfold extendChecks at h
  rcases extendFront_spec x hrf with ⟨hvf, hf⟩ | ⟨_, hk, hf⟩
  · rw [hf] at h
    simp only at h
    split at h
    · cases h
    · rcases extendBack_spec x (extendN x) hvf.1 hrb with ⟨_, hb⟩ | ⟨_, k, hk, hb⟩
      · rw [hb] at h; cases h
      · rw [hb] at h; cases h; exact .inr ⟨hvf, k, hk, rfl⟩
  · rw [hf] at h; cases h; exact .inl ⟨rfl, hk⟩

/-- The exception is a `ValueError` unless the additional noise Hamiltonian is malformed in a way
that raises `TypeError` in `_parse_Hamiltonian` (an incomplete identifier mapping raised
`KeyError` before the repair of F50, D6j). -/
theorem extend_error_class (x : ExtendSpec) (hrf : ExtendRegularFront x)
    (hrb : ExtendRegularBack x) {e : Err} (h : extendChecks x = .error e) :
    e = .valueError ∨ ∃ H k, x.additional = some H ∧ HamViolates H (extendNDt x) "B" k ∧ k.cls = e := by
  rcases extend_rejection_explained x hrf hrb h with ⟨rfl, _⟩ | ⟨_, k, hk, hc⟩
  · exact .inl rfl
  · cases k with
    | additional k' =>
      obtain ⟨H, hH, hv⟩ := hk
      exact .inr ⟨H, k', hH, hv, hc⟩
    | _ => left; simpa [ExtBackKind.cls] using hc.symm

/-- If the call is invalid and all corruptions present have class `e` (e.g. exactly one
corruption), the exception raised is `e`. -/
theorem extend_class_of_corruption (x : ExtendSpec) (hrf : ExtendRegularFront x)
    (hrb : ExtendRegularBack x) (hs : identityShortcut x.pulses (extendN x) = false) {e : Err}
    (hnv : ¬ ValidExtend x)
    (hfront : (∃ k, ExtFrontViolates x k) → e = .valueError)
    (hback : ∀ k, ExtBackViolates x (extendN x) k → k.cls = e) : extendChecks x = .error e := by
  obtain ⟨e', he'⟩ := (extend_rejects_iff x hrf hrb hs).mpr hnv
  rcases extend_rejection_explained x hrf hrb he' with ⟨rfl, hk⟩ | ⟨_, k, hk, hc⟩
  · rw [he', hfront hk]
  · rw [he', ← hc, hback k hk]

/-- **The repair of F48 in `extend`** (ALL inputs, no side condition but "no early return", D6g):
when two control operators, or two noise operators, of the mapped pulses get the same identifier
— through given mappings, through the default mapping, or because a pulse's own identifiers repeat
— the call is rejected with `ValueError`, whatever the other arguments are (every check that comes
earlier raises `ValueError` as well — since the repair of F50 also an incomplete mapping, so the
former hypothesis "mappings complete" is gone). -/
theorem extend_duplicate_mapped_ids_rejected (x : ExtendSpec)
    (hs : identityShortcut x.pulses (extendN x) = false)
    (hd : ¬ (mappedCIds x).Nodup ∨ ¬ (mappedNIds x).Nodup) :
    extendChecks x = .error .valueError := by
  unfold extendChecks
  cases hf : extendFront x with
  | error e => rw [extendFront_error hf]
  | ok N =>
    have hN := extendFront_ok hf
    subst hN
    simp only [hs, Bool.false_eq_true, ↓reduceIte]
    exact extendBack_of_not_unique x (extendN x) hd

/-- D6j (repaired, F50; ALL inputs, no early return): an identifier mapping that misses an
identifier of its pulse is rejected with `ValueError` (formerly `KeyError`, unless an earlier
check raised its `ValueError` first). -/
theorem extend_missing_key_rejected (x : ExtendSpec)
    (hs : identityShortcut x.pulses (extendN x) = false)
    (hk : ∃ p ∈ x.pulses, ¬ p.MappingTotal) :
    extendChecks x = .error .valueError := by
  unfold extendChecks
  cases hf : extendFront x with
  | error e => rw [extendFront_error hf]
  | ok N =>
    have hN := extendFront_ok hf
    subst hN
    simp only [hs, Bool.false_eq_true, ↓reduceIte]
    exact extendBack_of_missing_key x (extendN x) hk

/-- A pulse whose OWN control or noise identifiers repeat (not constructible through the public
interface, but the identifier arrays are plain attributes) is rejected with `ValueError` (ALL
inputs, no early return): by the inner `remap` when it is remapped, else by the uniqueness check
(or by the check of the mapping's keys). -/
theorem extend_own_duplicates_rejected (x : ExtendSpec)
    (hs : identityShortcut x.pulses (extendN x) = false)
    {p : EPulse} (hp : p ∈ x.pulses) (hd : ¬ p.cIds.Nodup ∨ ¬ p.nIds.Nodup) :
    extendChecks x = .error .valueError := by
  by_cases ht : ∀ q ∈ x.pulses, q.MappingTotal
  · apply extend_duplicate_mapped_ids_rejected x hs
    rcases hd with hd | hd
    · exact .inl (mappedCIds_not_nodup_of_own x hp (ht p hp) hd)
    · exact .inr (mappedNIds_not_nodup_of_own x hp (ht p hp) hd)
  · apply extend_missing_key_rejected x hs
    apply Classical.byContradiction
    intro hno
    apply ht
    intro q hq
    apply Classical.byContradiction
    intro hq'
    exact hno ⟨q, hq, hq'⟩

/-- The model's shortcut `EPulse.remapOk` for the `remap` call inside `extend` IS the check of
`remap` (no mapping is passed) for any `order` that is a permutation of the positions of the
entry's qubits. -/
theorem extend_inner_remap_consistent (p : EPulse) (dpq : Nat) (order : List Int)
    (hnn : ∀ o ∈ order, 0 ≤ o) (hperm : (order.map Int.toNat).Perm (List.range p.qubits.length)) :
    p.remapOk dpq = true ↔ remapChecks p.d p.logN dpq order p.cIds p.nIds none = .ok () := by
  have hlen : order.length = p.qubits.length := by
    have := hperm.length_eq
    simpa using this
  have hvalid : remapChecks p.d p.logN dpq order p.cIds p.nIds none = .ok () ↔
      ValidRemap p.d p.logN dpq order p.cIds p.nIds none := by
    constructor
    · intro h
      apply Classical.byContradiction
      intro hn
      obtain ⟨e, he⟩ := (remap_rejects_iff_invalid _ _ _ _ _ _ _).mpr hn
      rw [h] at he; cases he
    · exact remap_valid_never_rejected _ _ _ _ _ _ _
  rw [hvalid]
  unfold EPulse.remapOk ValidRemap RemapShapeOk remapMapped remapIds
  simp only [Bool.and_eq_true, beq_iff_eq, Bool.not_eq_true', hasDup_eq_false_iff,
    Option.getD_some]
  constructor
  · rintro ⟨⟨⟨hl, hd⟩, hc⟩, hn⟩
    exact ⟨⟨hnn, hl ▸ hperm, hd⟩, trivial, hc, hn⟩
  · rintro ⟨⟨-, hp, hd⟩, -, hc, hn⟩
    refine ⟨⟨⟨?_, hd⟩, hc⟩, hn⟩
    have := hp.length_eq
    simp only [List.length_map, List.length_range] at this
    omega

/-- D6g: with a single pulse mapped onto its own qubits, NOTHING after the mapping checks is
looked at — the call succeeds whatever the additional noise Hamiltonian and the options are. -/
theorem extend_shortcut_unchecked (x : ExtendSpec) (hrf : ExtendRegularFront x)
    (hvf : ValidExtendFront x) (hs : identityShortcut x.pulses (extendN x) = true) :
    extendChecks x = .ok (extendN x) := by
  unfold extendChecks
  rcases extendFront_spec x hrf with ⟨_, hf⟩ | ⟨hnv, _⟩
  · rw [hf]; simp [hs]
  · exact absurd hvf hnv

section Examples
def ep (q : Nat) (dt : Nat := 0) : EPulse :=
  { d := 2, logN := 1, qubits := [q], form := .bareInt, dtBytes := dt, dtValue := dt, nDt := 1,
    nIds := ["Z"] }
/-- a two-qubit pulse mapped to the qubits `qs` -/
def ep2 (qs : List Nat) : EPulse :=
  { d := 4, logN := 2, qubits := qs, form := .tuple, dtBytes := 0, dtValue := 0, nDt := 1,
    nIds := ["ZZ"] }
def addH (id : String) (d : Nat := 4) : HamSpec :=
  .list [{ nFields := 3, oper := .array [d, d], coeff := .seq 1, ident := some id }]
def e0 : ExtendSpec := { pulses := [ep 0, ep 1] }

example : ValidExtend e0 ∧ ExtendRegularFront e0 ∧ ExtendRegularBack e0 ∧ extendChecks e0 = .ok 2 := by
  decide
example : identityShortcut e0.pulses (extendN e0) = false := by decide
example : extendChecks { pulses := [ep2 [2, 0], ep 1], N := some 4 } = .ok 4 := by decide
example : ValidExtend { e0 with additional := some (addH "ZZ") } ∧
    extendChecks { e0 with additional := some (addH "ZZ") } = .ok 2 := by decide
-- corruptions
example : extendChecks { pulses := [] } = .error .valueError := by decide
example : extendChecks { pulses := [ep 0, ep 0] } = .error .valueError := by decide            -- clash
example : extendChecks { pulses := [ep2 [1, 1]] } = .error .valueError := by decide            -- clash
example : extendChecks { pulses := [ep 0, ep 1 7] } = .error .valueError := by decide          -- grids
example : extendChecks { pulses := [ep 0, { ep 1 with d := 3 }] } = .error .valueError := by decide
example : extendChecks { pulses := [{ ep2 [0, 1] with d := 8, logN := 3 }] } = .error .valueError := by
  decide
example : extendChecks { pulses := [{ ep2 [1, 0] with d := 8, logN := 3 }] } = .error .valueError := by
  decide
example : extendChecks { pulses := [ep 0, ep 2], N := some 2 } = .error .valueError := by decide
example : extendChecks { e0 with cacheFF := some true } = .error .valueError := by decide
example : extendChecks { e0 with cacheFF := some true, omegaGiven := true } = .ok 2 := by decide
def eConflict : ExtendSpec :=
  { e0 with additional := some (addH "ZZ"), cacheDiag := some false, cacheFF := some true, omegaGiven := true }
example : extendChecks eConflict = .error .valueError := by decide
example : extendChecks { e0 with additional := some (addH "Z_0") } = .error .valueError := by decide
example : extendChecks { e0 with additional := some (addH "ZZ" 2) } = .error .valueError := by decide
example : extendChecks { e0 with additional := some .notList } = .error .typeError := by decide
/-- D6d: equal time grids with different bytes. -/
example : extendChecks { pulses := [ep 0, { ep 1 with dtBytes := 1 }] } = .error .valueError ∧
    ValidExtend { pulses := [ep 0, { ep 1 with dtBytes := 1 }] } := by decide
/-- D6e: `d = 216`, `d_per_qubit = 6`, NumPy's `int(log(216)/log(6)) = 2`. -/
def eLog : ExtendSpec :=
  { pulses := [{ d := 216, logN := 2, qubits := [1, 0, 2], nDt := 1 }], dPerQubit := 6 }
example : extendChecks eLog = .error .valueError ∧ ValidExtend eLog := by decide
/-- D6f: `cache_diagonalization=False` + additional Hamiltonian + `cache_filter_function=False`. -/
def eDiag : ExtendSpec :=
  { e0 with additional := some (addH "ZZ"), cacheDiag := some false, cacheFF := some false }
example : extendChecks eDiag = .error .valueError ∧ ValidExtend eDiag := by decide
/-- D6g: a malformed additional noise Hamiltonian is ignored for `extend([(pulse, 0)], …)`. -/
def eId : ExtendSpec := { pulses := [ep 0], additional := some .notList, cacheFF := some true }
example : extendChecks eId = .ok 1 ∧ ¬ ValidExtend eId := by decide
-- identifier mappings (D6i, D6j).  `epm q m`: the pulse `X_pulse` of the docstring of `extend`
-- (control `X`, noise `X`, `Z`) mapped to qubit `q` with the identifier mapping `m`
def epm (q : Nat) (m : Option RemapDef.Dict) : EPulse :=
  { ep q with cIds := ["X"], nIds := ["X", "Z"], mapping := m }
/-- the example of the docstring: `extend([(X_pulse, 1, {'X': 'IX', 'Z': 'IZ'}), (Y_pulse, 0, …)])` -/
def eMap : ExtendSpec :=
  { pulses := [epm 1 (some [("X", "IX"), ("Z", "IZ")]),
               { epm 0 (some [("Y", "YI"), ("Z", "ZI")]) with cIds := ["Y"], nIds := ["Y", "Z"] }] }
example : ValidExtend eMap ∧ ExtendRegularFront eMap ∧ ExtendRegularBack eMap ∧
    extendChecks eMap = .ok 2 ∧ mappedCIds eMap = ["IX", "YI"] ∧
    mappedNIds eMap = ["IX", "IZ", "YI", "ZI"] := by decide
/-- default mappings: `X_0`, `X_1` / `X_0`, `Z_0`, `X_1`, `Z_1` -/
example : ValidExtend { pulses := [epm 0 none, epm 1 none] } ∧
    extendChecks { pulses := [epm 0 none, epm 1 none] } = .ok 2 ∧
    mappedNIds { pulses := [epm 0 none, epm 1 none] } = ["X_0", "Z_0", "X_1", "Z_1"] := by decide
/-- D6i (repaired): two control operators mapped to one name … -/
def eDupC : ExtendSpec :=
  { pulses := [epm 0 (some [("X", "a"), ("Z", "b")]), epm 1 (some [("X", "a"), ("Z", "c")])] }
example : extendChecks eDupC = .error .valueError ∧ ¬ ValidExtend eDupC ∧
    ¬ (mappedCIds eDupC).Nodup ∧ (∀ p ∈ eDupC.pulses, p.MappingTotal) ∧
    identityShortcut eDupC.pulses (extendN eDupC) = false := by decide
example : ExtBackViolates eDupC 2 .duplicateControl := by
  show ¬ (mappedCIds eDupC).Nodup
  decide
/-- … two noise operators of one pulse, or of different pulses, mapped to one name -/
def eDupN : ExtendSpec := { pulses := [epm 0 (some [("X", "a"), ("Z", "a")]), epm 1 none] }
example : extendChecks eDupN = .error .valueError ∧ ¬ ValidExtend eDupN := by decide
example : ExtBackViolates eDupN 2 .duplicateNoise := by
  show ¬ (mappedNIds eDupN).Nodup
  decide
example : extendChecks { pulses := [epm 0 (some [("X", "a"), ("Z", "b")]),
    epm 1 (some [("X", "c"), ("Z", "b")])] } = .error .valueError := by decide
/-- a given mapping colliding with the DEFAULT mapping of another entry -/
example : extendChecks { pulses := [epm 0 (some [("X", "X_1"), ("Z", "b")]), epm 1 none] } =
    .error .valueError := by decide
/-- the default mapping alone is not injective: qubits `(1, 2)` and qubit `12` both append `_12` -/
def eDefaultClash : ExtendSpec :=
  { pulses := [{ ep2 [1, 2] with nIds := ["Z"] }, ep 12] }
example : extendChecks eDefaultClash = .error .valueError ∧ ValidExtendFront eDefaultClash ∧
    mappedNIds eDefaultClash = ["Z_12", "Z_12"] := by decide
/-- the duplicate check comes before the additional noise Hamiltonian (a `TypeError` otherwise) … -/
example : extendChecks { eDupN with additional := some .notList } = .error .valueError := by decide
/-- D6j (repaired): `extend([(p, 0, {'Z': 'a'}), (p, 1)])` raised `KeyError: 'X'`, now `ValueError` -/
def eKey : ExtendSpec := { pulses := [epm 0 (some [("Z", "a")]), epm 1 none] }
example : extendChecks eKey = .error .valueError ∧ ¬ ValidExtend eKey ∧
    ExtendRegularFront eKey ∧ ExtendRegularBack eKey ∧
    identityShortcut eKey.pulses (extendN eKey) = false := by decide
example : ExtBackViolates eKey 2 .missingKey := by
  show ∃ p ∈ eKey.pulses, ¬ p.MappingTotal
  decide
example : extendChecks { eKey with cacheFF := some true } = .error .valueError ∧
    extendChecks { eKey with additional := some .notList } = .error .valueError := by decide
/-- the mapping is not looked at when the pulse is returned as is (D6g) -/
example : extendChecks { pulses := [epm 0 (some [("Z", "a")])] } = .ok 1 := by decide
/-- own identifiers repeated (`pulse.n_oper_identifiers` overwritten): rejected by the inner `remap`
when the qubits are permuted ("Could not remap"), by the uniqueness check otherwise -/
def epOwn (qs : List Nat) : EPulse := { ep2 qs with cIds := ["X_0", "X_1"], nIds := ["a", "a", "b"] }
example : extendFront { pulses := [epOwn [1, 0]], N := some 3 } = .error .valueError ∧
    extendFront { pulses := [epOwn [0, 1]], N := some 3 } = .ok 3 ∧
    extendChecks { pulses := [epOwn [0, 1]], N := some 3 } = .error .valueError ∧
    ¬ ExtendRegularFront { pulses := [epOwn [1, 0]], N := some 3 } := by decide
end Examples

/-! ### pulse-correlation quantities -/

/-- **Availability of pulse-correlation quantities** (`get_pulse_correlation_filter_function`,
`get_pulse_correlation_control_matrix`, `infidelity(…, which='correlations')`,
`calculate_decay_amplitudes(…, which='correlations')`), all cache states: a request for other
frequencies than the cached ones raises `ValueError`; otherwise a quantity that was not computed
during concatenation (`PcAvailable`: neither it nor the pulse-correlation control matrix it is
derived from is cached) raises `CalculationError`; otherwise the request succeeds. -/
theorem pc_availability (s : Cache.Obj) (r : PcRequest) :
    (OtherFreqRequested s r ∧ pcAvailability s r = .error .valueError) ∨
    (¬ OtherFreqRequested s r ∧ PcAvailable s r ∧ pcAvailability s r = .ok ()) ∨
    (¬ OtherFreqRequested s r ∧ ¬ PcAvailable s r ∧
      pcAvailability s r = .error .calculationError) :=
  pcAvailability_spec s r

theorem pc_rejects_iff (s : Cache.Obj) (r : PcRequest) :
    (∃ e, pcAvailability s r = .error e) ↔ ¬ (¬ OtherFreqRequested s r ∧ PcAvailable s r) := by
  rcases pcAvailability_spec s r with ⟨h1, h⟩ | ⟨h1, h2, h⟩ | ⟨h1, h2, h⟩
  · exact ⟨fun _ hn => hn.1 h1, fun _ => ⟨_, h⟩⟩
  · exact ⟨(fun ⟨e, he⟩ => by rw [h] at he; cases he), fun hn => absurd ⟨h1, h2⟩ hn⟩
  · exact ⟨fun _ hn => h2 hn.2, fun _ => ⟨_, h⟩⟩

/-- consistency with the cache model of C07 (`Model/Cache`) where both describe the same call -/
theorem pc_availability_agrees_with_cache (s : Cache.Obj) (g : Cache.Grid) :
    pcAvailability s (.infidelityCorr g true) = ofRet (Cache.step s (.infidelity g true true false)).2 ∧
    pcAvailability s (.decayAmpsCorr g) = ofRet (Cache.step s (.decayAmps g true false)).2 ∧
    ∀ w, pcAvailability s (.pcFF w) = ofRet (Cache.step s (.getPcFF w)).2 :=
  pcAvailability_eq_cache s g

/-- `infidelity(…, which='correlations')` for a traceless basis and noise operators **with a trace**:
served iff the frequencies match and the pulse-correlation control matrix is cached (the identity
component cannot be separated from a cached filter function) -/
theorem pc_infidelity_identity_component (s : Cache.Obj) (g : Cache.Grid) :
    pcInfidelityIdc s g = ofRet (Cache.step s (.infidelity g true true true)).2 :=
  pcInfidelityIdc_eq_cache s g

section Examples
/-- after `concatenate(…, calc_pulse_correlation_FF=True, omega=ω₁)` -/
def sPc : Cache.Obj := { omega := some 1, cmPc := some 1, ffPc := some 1, cm := some 1, ff := some 1 }
example : pcAvailability sPc (.pcFF .generalized) = .ok () := by decide
example : pcAvailability sPc (.infidelityCorr 1 true) = .ok () := by decide
example : pcAvailability sPc (.infidelityCorr 2 true) = .error .valueError := by decide
example : pcAvailability sPc (.decayAmpsCorr 2) = .error .valueError := by decide
example : pcAvailability {} (.pcFF .fidelity) = .error .calculationError := by decide
example : pcAvailability {} .pcCM = .error .calculationError := by decide
example : pcAvailability { omega := some 1, cm := some 1 } (.infidelityCorr 1 true) =
    .error .calculationError := by decide
/-- after `cleanup('greedy')` the fidelity pulse-correlation filter function survives, the control
matrix does not: a non-traceless basis then needs the missing control matrix -/
example : pcAvailability { sPc with cmPc := none } (.infidelityCorr 1 true) = .ok () ∧
    pcAvailability { sPc with cmPc := none } (.infidelityCorr 1 false) = .error .calculationError := by
  decide
end Examples

/-! ### smaller argument checks -/

/-- `get_filter_function_derivative`: a given `n_coeffs_deriv` is rejected (`ValueError`) exactly
when its shape is not `(n_nops, n_ctrl, n_dt)`. -/
theorem deriv_shape_rejects_iff (nN nC nDt : Nat) (shape : Option (List Nat)) (e : Err) :
    derivShapeCheck nN nC nDt shape = .error e ↔
      (∃ s, shape = some s ∧ s ≠ [nN, nC, nDt]) ∧ e = .valueError := by
  cases shape with
  | none => simp [derivShapeCheck]
  | some s =>
    by_cases h : s = [nN, nC, nDt]
    · subst h; simp [derivShapeCheck]
    · simp [derivShapeCheck, h]; exact eq_comm

/-- `calculate_cumulant_function`: `ValueError` exactly when neither (spectrum or frequencies) nor
the precomputed quantities needed are given, or correlations are combined with second order. -/
theorem cumulant_rejects_iff (sp om da fs so corr : Bool) (e : Err) :
    cumulantChecks sp om da fs so corr = .error e ↔
      ((sp = false ∧ om = false ∧ (da = false ∨ (fs = false ∧ so = true))) ∨
        (corr = true ∧ so = true)) ∧ e = .valueError := by
  cases sp <;> cases om <;> cases da <;> cases fs <;> cases so <;> cases corr <;>
    simp [cumulantChecks] <;> exact eq_comm

/-- `infidelity(…, test_convergence=True)`: `TypeError` for a spectrum that is not callable or an
`omega` that is not a dict, `ValueError` for an unknown spacing. -/
theorem convergence_rejects_iff (callable isDict spacingKnown : Bool) (e : Err) :
    convergenceChecks callable isDict spacingKnown = .error e ↔
      ((callable = false ∨ isDict = false) ∧ e = .typeError) ∨
      (callable = true ∧ isDict = true ∧ spacingKnown = false ∧ e = .valueError) := by
  cases callable <;> cases isDict <;> cases spacingKnown <;>
    simp [convergenceChecks] <;> exact eq_comm

end FFVerif.C20
