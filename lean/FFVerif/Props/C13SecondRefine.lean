/-
C13, second order — arbitrary refinements: any pulse obtained from a given one by finitely many
cuts of a segment (at any position, any splitting of the duration) and insertions of zero-duration
segments (any position, any amplitudes) has the same second-order filter function.
-/
import FFVerif.Props.C13Second

namespace FFVerif.C13
open FFVerif FFVerif.Model Complex Matrix

/-- the per-segment inputs of `calculate_second_order_filter_function` for a pulse with any number
of segments: `eigh` data, cumulative propagators `propagators[:-1]`, sensitivities, durations and
segment start times -/
structure SegData (d nA : ℕ) where
  nG : ℕ
  eigvals : Mat ℝ nG d
  eigvecs : Vector (Mat ℂ d d) nG
  props : Vector (Mat ℂ d d) nG
  nCoeffs : Mat ℝ nA nG
  dt : Vec ℝ nG
  t : Vec ℝ nG

/-- the second-order filter function of a `SegData` (exact guard) -/
noncomputable def SegData.F2 {d nA nO nK : ℕ} (P : SegData d nA) (thr : ℝ) (omega : Vec ℝ nO)
    (basis : Vector (Mat ℂ d d) nK) (nOpers : Vector (Mat ℂ d d) nA) : Ten5 ℂ nA nA nK nK nO :=
  secondOrderFFFromScratch .neZero thr P.eigvals P.eigvecs P.props omega basis nOpers P.nCoeffs
    P.dt P.t

/-- `Refines P P'`: `P'` arises from `P` by finitely many steps, each either
* `cut`: a segment `g₀` is cut in two consecutive pieces (`C13.IsSegmentCut` with the second piece
  directly after the first; `V†V = 1` for the eigenvector matrix of the cut segment), or
* `zero`: a segment of duration zero, with arbitrary data, is inserted at some position `p`. -/
inductive Refines {d nA : ℕ} : SegData d nA → SegData d nA → Prop
  | refl (P : SegData d nA) : Refines P P
  | cut (P P' : SegData d nA) (eigvals'' : Mat ℝ (P'.nG + 1) d)
      (eigvecs'' props'' : Vector (Mat ℂ d d) (P'.nG + 1)) (nCoeffs'' : Mat ℝ nA (P'.nG + 1))
      (dt'' t'' : Vec ℝ (P'.nG + 1)) (g₀ : Fin P'.nG) (τ₁ τ₂ : ℝ)
      (h : Refines P P')
      (hcut : IsSegmentCut P'.eigvals P'.eigvecs P'.props P'.nCoeffs P'.dt P'.t eigvals'' eigvecs''
        props'' nCoeffs'' dt'' t'' g₀ g₀.succ τ₁ τ₂)
      (hV : (P'.eigvecs[g₀].toMatrix)ᴴ * P'.eigvecs[g₀].toMatrix = 1) :
      Refines P ⟨P'.nG + 1, eigvals'', eigvecs'', props'', nCoeffs'', dt'', t''⟩
  | zero (P P' : SegData d nA) (eigvals'' : Mat ℝ (P'.nG + 1) d)
      (eigvecs'' props'' : Vector (Mat ℂ d d) (P'.nG + 1)) (nCoeffs'' : Mat ℝ nA (P'.nG + 1))
      (dt'' t'' : Vec ℝ (P'.nG + 1)) (p : Fin (P'.nG + 1))
      (h : Refines P P')
      (h0 : dt''[p] = 0)
      (hev : ∀ i : Fin P'.nG, eigvals''[p.succAbove i] = P'.eigvals[i])
      (hvec : ∀ i : Fin P'.nG, eigvecs''[p.succAbove i] = P'.eigvecs[i])
      (hprop : ∀ i : Fin P'.nG, props''[p.succAbove i] = P'.props[i])
      (hco : ∀ (a : Fin nA) (i : Fin P'.nG), nCoeffs''[a][p.succAbove i] = P'.nCoeffs[a][i])
      (hdt : ∀ i : Fin P'.nG, dt''[p.succAbove i] = P'.dt[i])
      (ht : ∀ i : Fin P'.nG, t''[p.succAbove i] = P'.t[i]) :
      Refines P ⟨P'.nG + 1, eigvals'', eigvecs'', props'', nCoeffs'', dt'', t''⟩

/-- **Arbitrary refinement.**  If `P'` arises from `P` by any finite sequence of cuts and
zero-duration insertions (`Refines`), the second-order filter functions of the two pulses coincide
— every entry, every frequency.  Exact arithmetic, exact guard, Hermitian noise operators and
basis elements (used by the cut steps, `secondOrder_split_segment`). -/
theorem secondOrder_refine {d nA nO nK : ℕ} (thr : ℝ) (omega : Vec ℝ nO)
    (basis : Vector (Mat ℂ d d) nK) (nOpers : Vector (Mat ℂ d d) nA)
    (hN : ∀ (a : Fin nA) (i j : Fin d), (starRingEnd ℂ) nOpers[a][i][j] = nOpers[a][j][i])
    (hC : ∀ (k : Fin nK) (i j : Fin d), (starRingEnd ℂ) basis[k][i][j] = basis[k][j][i])
    (P P' : SegData d nA) (h : Refines P P') (a b : Fin nA) (k l : Fin nK) (o : Fin nO) :
    (P'.F2 thr omega basis nOpers)[a][b][k][l][o] = (P.F2 thr omega basis nOpers)[a][b][k][l][o] := by
  induction h with
  | refl => rfl
  | cut P' eigvals'' eigvecs'' props'' nCoeffs'' dt'' t'' g₀ τ₁ τ₂ _ hcut hV ih =>
    rw [← ih]
    exact secondOrder_split_segment thr P'.eigvals P'.eigvecs P'.props eigvals'' eigvecs'' props''
      omega basis nOpers P'.nCoeffs nCoeffs'' P'.dt P'.t dt'' t'' g₀ τ₁ τ₂ hcut hV hN hC a b k l o
  | zero P' eigvals'' eigvecs'' props'' nCoeffs'' dt'' t'' p _ h0 hev hvec hprop hco hdt ht ih =>
    rw [← ih]
    unfold SegData.F2
    rw [secondOrder_zero_dt_segment .neZero thr eigvals'' eigvecs'' props'' omega basis nOpers
      nCoeffs'' dt'' t'' p h0 a b k l o]
    have e1 : (Vector.ofFn fun i : Fin P'.nG => eigvals''[p.succAbove i]) = P'.eigvals :=
      Vector.ext fun i hi => by rw [Vector.getElem_ofFn]; exact hev ⟨i, hi⟩
    have e2 : (Vector.ofFn fun i : Fin P'.nG => eigvecs''[p.succAbove i]) = P'.eigvecs :=
      Vector.ext fun i hi => by rw [Vector.getElem_ofFn]; exact hvec ⟨i, hi⟩
    have e3 : (Vector.ofFn fun i : Fin P'.nG => props''[p.succAbove i]) = P'.props :=
      Vector.ext fun i hi => by rw [Vector.getElem_ofFn]; exact hprop ⟨i, hi⟩
    have e4 : (Mat.ofFn fun (a : Fin nA) (i : Fin P'.nG) => nCoeffs''[a][p.succAbove i])
        = P'.nCoeffs :=
      Vector.ext fun a ha => Vector.ext fun i hi => by
        rw [Mat.ofFn_getElem]; exact hco ⟨a, ha⟩ ⟨i, hi⟩
    have e5 : (Vector.ofFn fun i : Fin P'.nG => dt''[p.succAbove i]) = P'.dt :=
      Vector.ext fun i hi => by rw [Vector.getElem_ofFn]; exact hdt ⟨i, hi⟩
    have e6 : (Vector.ofFn fun i : Fin P'.nG => t''[p.succAbove i]) = P'.t :=
      Vector.ext fun i hi => by rw [Vector.getElem_ofFn]; exact ht ⟨i, hi⟩
    rw [e1, e2, e3, e4, e5, e6]

/-- `Refines` is not only reflexive: every cut of every segment is a refinement step
(`C13.isSegmentCut_exists` provides the fine lists) -/
example {d nA : ℕ} (P : SegData d nA) (g₀ : Fin P.nG) (τ₁ τ₂ : ℝ) (hdt : P.dt[g₀] = τ₁ + τ₂)
    (hV : (P.eigvecs[g₀].toMatrix)ᴴ * P.eigvecs[g₀].toMatrix = 1) :
    ∃ P' : SegData d nA, P'.nG = P.nG + 1 ∧ Refines P P' := by
  obtain ⟨e, v, q, c, s, u, hcut⟩ := isSegmentCut_exists P.eigvals P.eigvecs P.props P.nCoeffs P.dt
    P.t g₀ g₀.succ τ₁ τ₂ hdt
  exact ⟨⟨P.nG + 1, e, v, q, c, s, u⟩, rfl,
    Refines.cut P P e v q c s u g₀ τ₁ τ₂ (Refines.refl P) hcut hV⟩

end FFVerif.C13
