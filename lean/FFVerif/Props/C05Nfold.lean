/-
C05Nfold — `pulse_sequence.extend` with ANY number of pulses (and idle qubits) on a register: the
control matrix and the complete fidelity filter function that `extend` assembles from the cached
control matrices of the mapped pulses equal those computed from scratch on the tensor-product
pulse.  The `n`-fold statements are obtained from the binary rule of `Props/C05` by splitting the
family of tensor factors at the pulse under consideration (`NfoldAux.piKronH_split`, a re-indexing
in the sense of `Props/C06`).

Objects.  A finite type `P` of *parties* (the mapped pulses; an idle block of qubits is a party with
the trivial pulse `eigvals = 0`, `eigvecs = propagators = 1`, which is what `extend` tensors in).
Party `q` has dimension `dims q` and `Ns q` basis elements.  `NfoldAux.piKronH A = ⊗_q A_q` is indexed
by dependent tuples; `e : (∀ q, Fin (dims q)) ≃ Fin D` and `f : (∀ q, Fin (Ns q)) ≃ Fin NN` are the
flattenings of the Hilbert-space and of the basis-label tuples to the NumPy indices of the
register (ARBITRARY in the algebraic theorems: any interleaving of the qubits of different pulses
is such a pair `e`, `f`; the concrete pair of `extend` is `RegLayout.regEquiv 2 σ`, `regEquiv 4 σ`, section 4).
-/
import FFVerif.Lemmas.NfoldAux
import FFVerif.Lemmas.ExtendAsmAux
import FFVerif.Lemmas.RegLayoutAux
import FFVerif.Props.C14
import FFVerif.Props.C05

namespace FFVerif.C05Nfold
open FFVerif FFVerif.Model FFVerif.KronAux FFVerif.NfoldAux FFVerif.ExtendAsmAux Matrix Complex
open FFVerif.Model.ExtendAsm FFVerif.Model.Tensor FFVerif.RegLayout
open scoped Kronecker

/-! ### 0. eigen-decomposition and propagators of the register pulse -/

section eighN
variable {P : Type} [Fintype P] [DecidableEq P] {dims : P → ℕ} {D nG : ℕ}

/-- **What `extend` assembles for `K` pulses satisfies the `eigh` contract** (flattened by an
arbitrary `e`): with `eigvecs = ⊗_q eigvecs_q` and `eigvals[x] = Σ_q eigvals_q[x_q]`, the pair is an
eigen-decomposition of the register Hamiltonian `Σ_q 1 ⊗ ⋯ ⊗ H_q ⊗ ⋯ ⊗ 1` (`NfoldAux.embedAt`) in
the sense of `C02.IsEigh` — `C05.kron_isEigh` for any number of factors. -/
theorem piKron_isEigh (e : (∀ q, Fin (dims q)) ≃ Fin D)
    {H : ∀ q, Matrix (Fin (dims q)) (Fin (dims q)) ℂ} {Dg : ∀ q, Fin (dims q) → ℝ}
    {V : ∀ q, Matrix (Fin (dims q)) (Fin (dims q)) ℂ} (h : ∀ q, C02.IsEigh (H q) (Dg q) (V q)) :
    C02.IsEigh (Matrix.reindex e e (∑ q, embedAt q (H q))) (piSum Dg ∘ e.symm)
      (Matrix.reindex e e (piKronH V)) := by
  rw [isEigh_iff]
  exact (piKron_isEighG fun q => (isEigh_iff _ _ _).mp (h q)).reindex e

/-- **Segment propagators factorise over all parties**, for every elapsed time `s`; no hypothesis
on the data. -/
theorem piKron_segProp (e : (∀ q, Fin (dims q)) ≃ Fin D) (Dg : ∀ q, Fin (dims q) → ℝ)
    (V : ∀ q, Matrix (Fin (dims q)) (Fin (dims q)) ℂ) (s : ℝ) :
    C02.segProp (piSum Dg ∘ e.symm) (Matrix.reindex e e (piKronH V)) s
      = Matrix.reindex e e (piKronH fun q => C02.segProp (Dg q) (V q) s) := by
  rw [segProp_eq, segPropG_reindex, piKron_segPropG]
  rfl

/-- **`extend` caches what `diagonalize` would compute afresh, for any number of pulses** (model
level): if the register pulse carries the assembled eigen-data on the common time grid, the
cumulative propagators `numeric.diagonalize` computes from them are the (flattened) Kronecker
products of the parties' cumulative propagators, for every `g ≤ n_dt`; in particular the total
propagator.  All dimensions and segment counts, arbitrary `dt`, no unitarity needed. -/
theorem piKron_propagators_model (e : (∀ q, Fin (dims q)) ≃ Fin D)
    (evs : ∀ q, Mat ℝ nG (dims q)) (Vs : ∀ q, Vector (Mat ℂ (dims q) (dims q)) nG)
    (ev : Mat ℝ nG D) (V : Vector (Mat ℂ D D) nG) (dt : Vec ℝ nG)
    (hV : ∀ (g : ℕ) (hg : g < nG), V[g].toMatrix
      = Matrix.reindex e e (piKronH fun q => (Vs q)[g].toMatrix))
    (hD : ∀ (g : ℕ) (hg : g < nG), (fun j : Fin D => ev[g][j])
      = piSum (fun q (i : Fin (dims q)) => (evs q)[g][i]) ∘ e.symm)
    (g : ℕ) (hg : g ≤ nG) :
    (propagators ev V dt)[g].toMatrix
      = Matrix.reindex e e (piKronH fun q => (propagators (evs q) (Vs q) dt)[g].toMatrix) := by
  induction g with
  | zero =>
    have h1 : (fun q => (propagators (evs q) (Vs q) dt)[0].toMatrix)
        = fun q => (1 : Matrix (Fin (dims q)) (Fin (dims q)) ℂ) :=
      funext fun q => C02.propagators_zero _ _ _
    rw [C02.propagators_zero, h1, piKronH_one, reindex_one]
  | succ g ih =>
    have h1 : (fun q => (propagators (evs q) (Vs q) dt)[g + 1].toMatrix)
        = fun q => C02.segProp (fun j => (evs q)[g][j]) (Vs q)[g].toMatrix dt[g]
            * (propagators (evs q) (Vs q) dt)[g].toMatrix :=
      funext fun q => C02.propagators_succ _ _ _ g hg
    rw [C02.propagators_succ _ _ _ g hg, ih (Nat.le_of_succ_le hg), hV g hg, hD g hg,
      piKron_segProp, ← reindex_mul, piKronH_mul, h1]

end eighN

/-! ### 1. the control matrix of a noise operator of pulse `p` on the register -/

section cm
variable {P : Type} [Fintype P] [DecidableEq P] {dims Ns : P → ℕ} {D NN nG nO nA : ℕ}

/-- **Control matrix from scratch on `n`-fold Kronecker-product data** (model level, every guard
shape `kind` and threshold `thr` of the truncated segment integral, any basis families).  Register
data: eigenvectors, cumulative propagators and basis elements are (re-indexed) Kronecker products
over the parties, eigenvalues the sums, the noise operator is `B_a` on party `p` and the identity
elsewhere, and `V^q_g`, `Q^q_g` are unitary for `q ≠ p`.  Then
`B_register[a][f k][o] = (∏_{q ≠ p} tr C^q_{k_q}) · B_p[a][k_p][o]`. -/
theorem extend_control_matrix_nfold_trace (kind : MaskKind) (thr : ℝ)
    (e : (∀ q, Fin (dims q)) ≃ Fin D) (f : (∀ q, Fin (Ns q)) ≃ Fin NN)
    (evs : ∀ q, Mat ℝ nG (dims q)) (Vs Qs : ∀ q, Vector (Mat ℂ (dims q) (dims q)) nG)
    (bases : ∀ q, Vector (Mat ℂ (dims q) (dims q)) (Ns q))
    (ev : Mat ℝ nG D) (V Q : Vector (Mat ℂ D D) nG) (omega : Vec ℝ nO)
    (basis : Vector (Mat ℂ D D) NN) (p : P)
    (nOpersP : Vector (Mat ℂ (dims p) (dims p)) nA) (nOpers : Vector (Mat ℂ D D) nA)
    (nCoeffs : Mat ℝ nA nG) (dt t : Vec ℝ nG)
    (hV : ∀ g : Fin nG, V[g].toMatrix
      = Matrix.reindex e e (piKronH fun q => (Vs q)[g].toMatrix))
    (hQ : ∀ g : Fin nG, Q[g].toMatrix
      = Matrix.reindex e e (piKronH fun q => (Qs q)[g].toMatrix))
    (hD : ∀ g : Fin nG, (fun j : Fin D => ev[g][j])
      = piSum (fun q (i : Fin (dims q)) => (evs q)[g][i]) ∘ e.symm)
    (hB : ∀ a : Fin nA, nOpers[a].toMatrix = Matrix.reindex e e (piKronH
      (Function.update (fun q => (1 : Matrix (Fin (dims q)) (Fin (dims q)) ℂ)) p
        nOpersP[a].toMatrix)))
    (hC : ∀ k : ∀ q, Fin (Ns q), basis[f k].toMatrix
      = Matrix.reindex e e (piKronH fun q => (bases q)[k q].toMatrix))
    (hVu : ∀ q, q ≠ p → ∀ g : Fin nG, ((Vs q)[g].toMatrix)ᴴ * (Vs q)[g].toMatrix = 1)
    (hQu : ∀ q, q ≠ p → ∀ g : Fin nG, ((Qs q)[g].toMatrix)ᴴ * (Qs q)[g].toMatrix = 1)
    (a : Fin nA) (k : ∀ q, Fin (Ns q)) (o : Fin nO) :
    (controlMatrixFromScratch kind thr ev V Q omega basis nOpers nCoeffs dt t)[a][f k][o]
      = (∏ q : {q // q ≠ p}, Matrix.trace ((bases q.1)[k q.1].toMatrix))
          * (controlMatrixFromScratch kind thr (evs p) (Vs p) (Qs p) omega (bases p) nOpersP
              nCoeffs dt t)[a][k p][o] := by
  rw [C01.cm_entry, C01.cm_entry, Finset.mul_sum]
  refine Finset.sum_congr rfl fun g _ => ?_
  have hev : ∀ m : Fin D, ev[g][m]
      = (piSum (fun q (i : Fin (dims q)) => (evs q)[g][i]) ∘ e.symm) m :=
    fun m => congrFun (hD g) m
  simp only [hev]
  rw [hV g, hQ g, hB a, hC k]
  exact cm_segment_piKron e p _ _ (fun x => (firstOrderEntry kind thr x dt[g] : ℂ)) _
    (fun q => (Vs q)[g].toMatrix) (fun q => (Qs q)[g].toMatrix)
    (fun q => (bases q)[k q].toMatrix) nOpersP[a].toMatrix
    (fun q (i : Fin (dims q)) => (evs q)[g][i]) (fun q hq => hVu q hq g) (fun q hq => hQu q hq g)

/-- **`extend_control_matrix_nfold`: the control matrix computed from scratch on the register pulse
is the cached one of pulse `p`, scaled and scattered** (model level, any number of parties, any
flattenings `e`, `f`).  In the situation of `extend_control_matrix_nfold_trace`, if the basis of
every other party `q ≠ p` contains `C^q_{z_q} = 1/√d_q` and is orthonormal against it (Pauli: `z_q =
0`), then for every noise operator `a` of pulse `p`, basis label tuple `k` and frequency `o`

`B_register[a][f k][o] = √(∏_{q≠p} d_q) · B_p[a][k_p][o]` if `k_q = z_q` for all `q ≠ p`, else `0`,

i.e. `control_matrix[n_oper_idx, basis_idx] = pulse.get_control_matrix(omega) *
np.sqrt(scaling_factor)` on a zero-initialised array, `scaling_factor = d_per_qubit**(N - len(ind))
= ∏_{q≠p} d_q`, `basis_idx` = the labels that are the identity on all other parties. -/
theorem extend_control_matrix_nfold (kind : MaskKind) (thr : ℝ)
    (e : (∀ q, Fin (dims q)) ≃ Fin D) (f : (∀ q, Fin (Ns q)) ≃ Fin NN)
    (evs : ∀ q, Mat ℝ nG (dims q)) (Vs Qs : ∀ q, Vector (Mat ℂ (dims q) (dims q)) nG)
    (bases : ∀ q, Vector (Mat ℂ (dims q) (dims q)) (Ns q))
    (ev : Mat ℝ nG D) (V Q : Vector (Mat ℂ D D) nG) (omega : Vec ℝ nO)
    (basis : Vector (Mat ℂ D D) NN) (p : P)
    (nOpersP : Vector (Mat ℂ (dims p) (dims p)) nA) (nOpers : Vector (Mat ℂ D D) nA)
    (nCoeffs : Mat ℝ nA nG) (dt t : Vec ℝ nG)
    (hV : ∀ g : Fin nG, V[g].toMatrix
      = Matrix.reindex e e (piKronH fun q => (Vs q)[g].toMatrix))
    (hQ : ∀ g : Fin nG, Q[g].toMatrix
      = Matrix.reindex e e (piKronH fun q => (Qs q)[g].toMatrix))
    (hD : ∀ g : Fin nG, (fun j : Fin D => ev[g][j])
      = piSum (fun q (i : Fin (dims q)) => (evs q)[g][i]) ∘ e.symm)
    (hB : ∀ a : Fin nA, nOpers[a].toMatrix = Matrix.reindex e e (piKronH
      (Function.update (fun q => (1 : Matrix (Fin (dims q)) (Fin (dims q)) ℂ)) p
        nOpersP[a].toMatrix)))
    (hC : ∀ k : ∀ q, Fin (Ns q), basis[f k].toMatrix
      = Matrix.reindex e e (piKronH fun q => (bases q)[k q].toMatrix))
    (hVu : ∀ q, q ≠ p → ∀ g : Fin nG, ((Vs q)[g].toMatrix)ᴴ * (Vs q)[g].toMatrix = 1)
    (hQu : ∀ q, q ≠ p → ∀ g : Fin nG, ((Qs q)[g].toMatrix)ᴴ * (Qs q)[g].toMatrix = 1)
    (z : ∀ q, Fin (Ns q))
    (hz : ∀ q, q ≠ p → (bases q)[z q].toMatrix
      = ((1 / Real.sqrt (dims q) : ℝ) : ℂ) • (1 : Matrix (Fin (dims q)) (Fin (dims q)) ℂ))
    (ortho : ∀ q, q ≠ p → ∀ l : Fin (Ns q),
      Matrix.trace ((bases q)[z q].toMatrix * (bases q)[l].toMatrix) = if z q = l then 1 else 0)
    (a : Fin nA) (k : ∀ q, Fin (Ns q)) (o : Fin nO) :
    (controlMatrixFromScratch kind thr ev V Q omega basis nOpers nCoeffs dt t)[a][f k][o]
      = if ∀ q, q ≠ p → k q = z q then
          ((Real.sqrt (∏ q : {q // q ≠ p}, (dims q.1 : ℝ)) : ℝ) : ℂ)
            * (controlMatrixFromScratch kind thr (evs p) (Vs p) (Qs p) omega (bases p) nOpersP
                nCoeffs dt t)[a][k p][o]
        else 0 := by
  rw [extend_control_matrix_nfold_trace kind thr e f evs Vs Qs bases ev V Q omega basis p nOpersP
    nOpers nCoeffs dt t hV hQ hD hB hC hVu hQu a k o]
  have htr : ∀ q : {q // q ≠ p}, Matrix.trace ((bases q.1)[k q.1].toMatrix)
      = if k q.1 = z q.1 then ((Real.sqrt (dims q.1) : ℝ) : ℂ) else 0 := fun q =>
    C05.trace_basis_sqrt (fun l : Fin (Ns q.1) => (bases q.1)[l].toMatrix) (z q.1) (hz q.1 q.2)
      (ortho q.1 q.2) (k q.1)
  rw [Finset.prod_congr rfl fun q _ => htr q, Fintype.prod_ite_zero,
    Real.sqrt_prod _ fun q _ => Nat.cast_nonneg (dims q.1), Complex.ofReal_prod]
  simp only [Subtype.forall, ite_mul, zero_mul]

end cm

section nonvacuity
variable {P : Type} [Fintype P] [DecidableEq P] {dims : P → ℕ} {D nG nA : ℕ}

/-- **The register arrays of the hypotheses exist for every input**: for all eigen-data of the
parties, every flattening `e` and all noise operators of party `p` there are register arrays
`ev, V, Q, nOpers` that satisfy `hV`, `hQ`, `hD`, `hB` of `extend_control_matrix_nfold` (they are
what `extend` assembles). -/
theorem register_data_exist (e : (∀ q, Fin (dims q)) ≃ Fin D)
    (evs : ∀ q, Mat ℝ nG (dims q)) (Vs Qs : ∀ q, Vector (Mat ℂ (dims q) (dims q)) nG) (p : P)
    (nOpersP : Vector (Mat ℂ (dims p) (dims p)) nA) :
    ∃ (ev : Mat ℝ nG D) (V Q : Vector (Mat ℂ D D) nG) (nOpers : Vector (Mat ℂ D D) nA),
      (∀ g : Fin nG, V[g].toMatrix
        = Matrix.reindex e e (piKronH fun q => (Vs q)[g].toMatrix)) ∧
      (∀ g : Fin nG, Q[g].toMatrix
        = Matrix.reindex e e (piKronH fun q => (Qs q)[g].toMatrix)) ∧
      (∀ g : Fin nG, (fun j : Fin D => ev[g][j])
        = piSum (fun q (i : Fin (dims q)) => (evs q)[g][i]) ∘ e.symm) ∧
      (∀ a : Fin nA, nOpers[a].toMatrix = Matrix.reindex e e (piKronH
        (Function.update (fun q => (1 : Matrix (Fin (dims q)) (Fin (dims q)) ℂ)) p
          nOpersP[a].toMatrix))) := by
  refine ⟨Mat.ofFn fun g j => (piSum (fun q (i : Fin (dims q)) => (evs q)[g][i]) ∘ e.symm) j,
    Vector.ofFn fun g => Mat.ofFn (Matrix.reindex e e (piKronH fun q => (Vs q)[g].toMatrix)),
    Vector.ofFn fun g => Mat.ofFn (Matrix.reindex e e (piKronH fun q => (Qs q)[g].toMatrix)),
    Vector.ofFn fun a => Mat.ofFn (Matrix.reindex e e (piKronH
        (Function.update (fun q => (1 : Matrix (Fin (dims q)) (Fin (dims q)) ℂ)) p
          nOpersP[a].toMatrix))), fun g => ?_, fun g => ?_, fun g => ?_, fun a => ?_⟩
  · simp only [Fin.getElem_fin, Vector.getElem_ofFn]; exact Mat.toMatrix_ofFn _
  · simp only [Fin.getElem_fin, Vector.getElem_ofFn]; exact Mat.toMatrix_ofFn _
  · funext j; simp only [Fin.getElem_fin, Mat.ofFn_getElem]
  · simp only [Fin.getElem_fin, Vector.getElem_ofFn]; exact Mat.toMatrix_ofFn _

end nonvacuity

/-! ### 2. all blocks of the fidelity filter function -/

section ff
variable {P : Type*} [Fintype P] [DecidableEq P] {α : P → Type*} [∀ q, Fintype (α q)]
  [∀ q, DecidableEq (α q)] {A : P → Type*}

/-- **`extend_filter_function_nfold`: every block of the filter function derived from the assembled
control matrix** (one frequency).  Let `Bext` be the control matrix `extend` assembles: the row of
noise operator `a` of pulse `p` holds `r_p · B^p_{a, k_p}` at the label tuples `k` that are the
identity `z_q` on every other party and zero elsewhere (`extend_control_matrix_nfold`,
`r_p = √(∏_{q≠p} d_q)`).  Then `F = Σ_k conj(Bext_{·k}) Bext_{·k}`
(`numeric.calculate_filter_function(control_matrix)`) has
* same-pulse blocks `r_p² F^p_{aa'}` (`= scaling_factor · F^p`),
* cross blocks between DIFFERENT pulses `r_p r_{p'} · conj(B^p_{a z_p}) · B^{p'}_{b z_{p'}}`: only the
  identity components survive (they vanish iff the noise operators of one of the pulses are
  traceless, `C05.cross_block_nonzero`),
* against ANY other row `x` of the control matrix (e.g. one of the additional noise Hamiltonian)
  `F_{x,(p,b)} = r_p Σ_j conj(Bext_{x, update z p j}) B^p_{b j}`: only the columns of pulse `p`
  contribute. -/
theorem extend_filter_function_nfold {ρ : Type*} (B : ∀ p, A p → α p → ℂ) (z : ∀ q, α q)
    (r : P → ℝ) (Bext : ρ → (∀ q, α q) → ℂ) (row : (Σ p, A p) → ρ)
    (h : ∀ p a k, Bext (row ⟨p, a⟩) k
      = if ∀ q, q ≠ p → k q = z q then (r p : ℂ) * B p a (k p) else 0) :
    (∀ p a a', C05.ffOf Bext (row ⟨p, a⟩) (row ⟨p, a'⟩)
      = ((r p ^ 2 : ℝ) : ℂ) * C05.ffOf (B p) a a') ∧
    (∀ p p' a b, p ≠ p' → C05.ffOf Bext (row ⟨p, a⟩) (row ⟨p', b⟩)
      = ((r p * r p' : ℝ) : ℂ) * (starRingEnd ℂ (B p a (z p)) * B p' b (z p'))) ∧
    (∀ x p b, C05.ffOf Bext x (row ⟨p, b⟩)
      = (r p : ℂ) * ∑ j, starRingEnd ℂ (Bext x (Function.update z p j)) * B p b j) := by
  refine ⟨fun p a a' => ?_, fun p p' a b hpp => ?_, fun x p b => ?_⟩
  · simp only [C05.ffOf, h]
    have hk : ∀ k : ∀ q, α q,
        starRingEnd ℂ (if ∀ q, q ≠ p → k q = z q then (r p : ℂ) * B p a (k p) else 0)
          * (if ∀ q, q ≠ p → k q = z q then (r p : ℂ) * B p a' (k p) else 0)
        = if ∀ q, q ≠ p → k q = z q then
            ((r p ^ 2 : ℝ) : ℂ) * (starRingEnd ℂ (B p a (k p)) * B p a' (k p)) else 0 := by
      intro k
      split
      · rw [map_mul, Complex.conj_ofReal]; push_cast; ring
      · rw [map_zero, zero_mul]
    simp only [hk]
    rw [sum_agree_off p z, Finset.mul_sum]
    refine Finset.sum_congr rfl fun j _ => ?_
    rw [Function.update_self]
  · simp only [C05.ffOf, h]
    rw [Finset.sum_eq_single z (fun k _ hk => ?_) (fun hz => absurd (Finset.mem_univ _) hz)]
    · rw [if_pos (fun _ _ => rfl), if_pos (fun _ _ => rfl), map_mul, Complex.conj_ofReal]
      push_cast; ring
    · by_cases h1 : ∀ q, q ≠ p → k q = z q
      · by_cases h2 : ∀ q, q ≠ p' → k q = z q
        · exact absurd (agree_off_two p p' hpp z k h1 h2) hk
        · rw [if_neg h2, mul_zero]
      · rw [if_neg h1, map_zero, zero_mul]
  · simp only [C05.ffOf, h]
    have hk : ∀ k : ∀ q, α q,
        starRingEnd ℂ (Bext x k)
          * (if ∀ q, q ≠ p → k q = z q then (r p : ℂ) * B p b (k p) else 0)
        = if ∀ q, q ≠ p → k q = z q then
            (r p : ℂ) * (starRingEnd ℂ (Bext x k) * B p b (k p)) else 0 := by
      intro k
      split
      · ring
      · rw [mul_zero]
    simp only [hk]
    rw [sum_agree_off p z, Finset.mul_sum]
    refine Finset.sum_congr rfl fun j _ => ?_
    rw [Function.update_self]

end ff

section ffModel
variable {P : Type} [Fintype P] [DecidableEq P] {nAs Ns : P → ℕ} {nTot NN nO : ℕ}

/-- **The same at the level of the model's arrays** (`Model.filterFunctionFid`, the generated
contraction `'ako,bko->abo'`): `row ⟨p, a⟩` is the position of noise operator `a` of pulse `p` in
the assembled control matrix (any map; in `extend` the pulses' blocks follow each other), `f` the
flattening of the basis-label tuples. -/
theorem extend_filter_function_nfold_model (B : ∀ p, Ten3 ℂ (nAs p) (Ns p) nO)
    (Bext : Ten3 ℂ nTot NN nO) (f : (∀ q, Fin (Ns q)) ≃ Fin NN)
    (row : (Σ p, Fin (nAs p)) → Fin nTot) (z : ∀ q, Fin (Ns q)) (r : P → ℝ)
    (h : ∀ (p : P) (a : Fin (nAs p)) (k : ∀ q, Fin (Ns q)) (o : Fin nO),
      Bext[row ⟨p, a⟩][f k][o]
        = if ∀ q, q ≠ p → k q = z q then (r p : ℂ) * (B p)[a][k p][o] else 0)
    (o : Fin nO) :
    (∀ (p : P) (a a' : Fin (nAs p)), (filterFunctionFid Bext)[row ⟨p, a⟩][row ⟨p, a'⟩][o]
      = ((r p ^ 2 : ℝ) : ℂ) * (filterFunctionFid (B p))[a][a'][o]) ∧
    (∀ (p p' : P) (a : Fin (nAs p)) (b : Fin (nAs p')), p ≠ p' →
      (filterFunctionFid Bext)[row ⟨p, a⟩][row ⟨p', b⟩][o]
        = ((r p * r p' : ℝ) : ℂ) * (starRingEnd ℂ (B p)[a][z p][o] * (B p')[b][z p'][o])) ∧
    (∀ (x : Fin nTot) (p : P) (b : Fin (nAs p)), (filterFunctionFid Bext)[x][row ⟨p, b⟩][o]
      = (r p : ℂ) * ∑ j : Fin (Ns p),
          starRingEnd ℂ Bext[x][f (Function.update z p j)][o] * (B p)[b][j][o]) := by
  let Bx : Fin nTot → (∀ q, Fin (Ns q)) → ℂ := fun x k => Bext[x][f k][o]
  have hff : ∀ x y : Fin nTot, (filterFunctionFid Bext)[x][y][o] = C05.ffOf Bx x y := by
    intro x y
    rw [C01.ff_fidelity_def, ← f.sum_comp]
    rfl
  obtain ⟨e1, e2, e3⟩ := extend_filter_function_nfold
    (fun p (a : Fin (nAs p)) (k : Fin (Ns p)) => (B p)[a][k][o]) z r Bx row
    (fun p a k => h p a k o)
  refine ⟨fun p a a' => ?_, fun p p' a b hpp => ?_, fun x p b => ?_⟩
  · rw [hff, e1, C01.ff_fidelity_def]; rfl
  · rw [hff, e2 p p' a b hpp]
  · rw [hff, e3]

end ffModel

/-! ### 3. the executable model of the assembly equals the from-scratch quantities -/

section scale
variable {P : Type} [Fintype P] [DecidableEq P]

/-- `scaling_factor = d_per_qubit**(N - len(ind)) = ∏_{q ≠ p} d_q` when the parties partition the
`N` qubits -/
theorem scaling_factor_eq (len : P → ℕ) (N : ℕ) (hN : ∑ q, len q = N) (p : P) :
    (∏ q : {q // q ≠ p}, (((2 ^ len q.1 : ℕ) : ℕ) : ℝ)) = ((2 ^ (N - len p) : ℕ) : ℝ) := by
  rw [← Nat.cast_prod, Finset.prod_pow_eq_pow_sum]
  congr 2
  rw [← hN, Fintype.sum_eq_add_sum_subtype_ne _ p, Nat.add_sub_cancel_left]

end scale

section modelRow
variable {P : Type} [Fintype P] [DecidableEq P] {nG nO nA : ℕ}

/-- **One assembled row equals the from-scratch row** (any number of parties on `N` qubits, ANY
flattenings `e`, `f` of the index tuples).  Party `q` sits on the `|idx q|` qubits `idx q`
(`Σ_q |idx q| = N`; idle qubits are parties with the trivial pulse), the register data are the
`e`-flattened Kronecker products of the parties' data, the register basis the `f`-flattened product
of the parties' bases (`hC`), and `equivalent_pauli_basis_elements(idx p, N)` lists the flattened
label tuples that are `z` outside party `p` (`hidx`).  Then the row that `Model.ExtendAsm.extendRow`
assembles from row `a` of the cached control matrix of pulse `p` IS row `a` of the control matrix
computed from scratch on the register pulse (every guard shape / threshold). -/
theorem extendRow_eq_from_scratch (idx : P → List ℕ) (N : ℕ) (hN : ∑ q, (idx q).length = N)
    (kind : MaskKind) (thr : ℝ)
    (e : (∀ q, Fin (2 ^ (idx q).length)) ≃ Fin (2 ^ N))
    (f : (∀ q, Fin (4 ^ (idx q).length)) ≃ Fin (4 ^ N))
    (evs : ∀ q, Mat ℝ nG (2 ^ (idx q).length))
    (Vs Qs : ∀ q, Vector (Mat ℂ (2 ^ (idx q).length) (2 ^ (idx q).length)) nG)
    (bases : ∀ q, Vector (Mat ℂ (2 ^ (idx q).length) (2 ^ (idx q).length)) (4 ^ (idx q).length))
    (ev : Mat ℝ nG (2 ^ N)) (V Q : Vector (Mat ℂ (2 ^ N) (2 ^ N)) nG) (omega : Vec ℝ nO)
    (basis : Vector (Mat ℂ (2 ^ N) (2 ^ N)) (4 ^ N)) (p : P)
    (nOpersP : Vector (Mat ℂ (2 ^ (idx p).length) (2 ^ (idx p).length)) nA)
    (nOpers : Vector (Mat ℂ (2 ^ N) (2 ^ N)) nA)
    (nCoeffs : Mat ℝ nA nG) (dt t : Vec ℝ nG)
    (hV : ∀ g : Fin nG, V[g].toMatrix
      = Matrix.reindex e e (piKronH fun q => (Vs q)[g].toMatrix))
    (hQ : ∀ g : Fin nG, Q[g].toMatrix
      = Matrix.reindex e e (piKronH fun q => (Qs q)[g].toMatrix))
    (hD : ∀ g : Fin nG, (fun j : Fin (2 ^ N) => ev[g][j])
      = piSum (fun q (i : Fin (2 ^ (idx q).length)) => (evs q)[g][i]) ∘ e.symm)
    (hB : ∀ a : Fin nA, nOpers[a].toMatrix = Matrix.reindex e e (piKronH
      (Function.update (fun q => (1 : Matrix (Fin (2 ^ (idx q).length))
        (Fin (2 ^ (idx q).length)) ℂ)) p nOpersP[a].toMatrix)))
    (hC : ∀ k : ∀ q, Fin (4 ^ (idx q).length), basis[f k].toMatrix
      = Matrix.reindex e e (piKronH fun q => (bases q)[k q].toMatrix))
    (hVu : ∀ q, q ≠ p → ∀ g : Fin nG, ((Vs q)[g].toMatrix)ᴴ * (Vs q)[g].toMatrix = 1)
    (hQu : ∀ q, q ≠ p → ∀ g : Fin nG, ((Qs q)[g].toMatrix)ᴴ * (Qs q)[g].toMatrix = 1)
    (z : ∀ q, Fin (4 ^ (idx q).length))
    (hz : ∀ q, q ≠ p → (bases q)[z q].toMatrix
      = ((1 / Real.sqrt ((2 ^ (idx q).length : ℕ) : ℝ) : ℝ) : ℂ)
          • (1 : Matrix (Fin (2 ^ (idx q).length)) (Fin (2 ^ (idx q).length)) ℂ))
    (ortho : ∀ q, q ≠ p → ∀ l : Fin (4 ^ (idx q).length),
      Matrix.trace ((bases q)[z q].toMatrix * (bases q)[l].toMatrix) = if z q = l then 1 else 0)
    (hidx : equivalentPauli (idx p) N
      = List.ofFn fun j : Fin (4 ^ (idx p).length) => (f (Function.update z p j)).1)
    (a : Fin nA) :
    extendRow (R := ℝ) N (idx p)
        (controlMatrixFromScratch kind thr (evs p) (Vs p) (Qs p) omega (bases p) nOpersP nCoeffs
          dt t)[a]
      = (controlMatrixFromScratch kind thr ev V Q omega basis nOpers nCoeffs dt t)[a] := by
  apply Vector.ext; intro K hK
  apply Vector.ext; intro o ho
  obtain ⟨k, hk⟩ := f.surjective ⟨K, hK⟩
  have h1 := extendRow_apply idx N f z p hidx
    (controlMatrixFromScratch kind thr (evs p) (Vs p) (Qs p) omega (bases p) nOpersP nCoeffs
      dt t)[a] k ⟨o, ho⟩
  have h2 := extend_control_matrix_nfold kind thr e f evs Vs Qs bases ev V Q omega basis p nOpersP
    nOpers nCoeffs dt t hV hQ hD hB hC hVu hQu z hz ortho a k ⟨o, ho⟩
  rw [scaling_factor_eq (fun q => (idx q).length) N hN p] at h2
  have hKk : K = (f k).1 := congrArg Fin.val hk.symm
  subst hKk
  exact h1.trans h2.symm

end modelRow

/-! ### 4. the concrete layout of `extend`: any placement of the pulses on the register -/

section layout
variable {P : Type} [Fintype P] [DecidableEq P] {nG nO nA : ℕ}

omit [DecidableEq P] in
/-- the parties of a layout partition the `N` qubits -/
theorem layout_card {n : P → ℕ} {N : ℕ} (σ : (Σ q, Fin (n q)) ≃ Fin N) : ∑ q, n q = N := by
  have h := Fintype.card_congr σ
  simpa [Fintype.card_sigma] using h

/-- **One assembled row equals the from-scratch row, for the index conventions of the real code.**
Party `q` (a mapped pulse, or an idle block with the trivial pulse) sits on the strictly ascending
qubit tuple `idx q` of the `N`-qubit register — neighbouring or not, interleaved with the qubits of
other parties or not (`σ ⟨q, j⟩ = idx q [j]` is a bijection onto the `N` qubits).  The register
arrays are the Kronecker products of the parties' arrays with every qubit at its register position
(`regEquiv 2 σ`: what `_merge_attrs` / `_insert_attrs` / `tensor_insert` produce,
`C05e.extend_registers_sorted`), both bases are the Pauli bases `Basis.pauli(·)` of the model, the
column list is the model of `equivalent_pauli_basis_elements`.  No hypothesis on the bases or on
the index lists is left: `hC`, `hz`, `ortho`, `hidx` of `extendRow_eq_from_scratch` are theorems
(`RegLayout.pauliBasis_regEquiv`, `C14.pauliBasis_first_is_identity`, `C14.pauliBasis_orthoHerm`,
`RegLayout.equivalentPauli_regEquiv`). -/
theorem extendRow_eq_from_scratch_layout (idx : P → List ℕ) (N : ℕ)
    (σ : (Σ q, Fin (idx q).length) ≃ Fin N)
    (hσ : ∀ (q : P) (j : Fin (idx q).length), (σ ⟨q, j⟩).1 = (idx q)[j])
    (hs : ∀ q, (idx q).Pairwise (· < ·))
    (kind : MaskKind) (thr : ℝ)
    (evs : ∀ q, Mat ℝ nG (2 ^ (idx q).length))
    (Vs Qs : ∀ q, Vector (Mat ℂ (2 ^ (idx q).length) (2 ^ (idx q).length)) nG)
    (ev : Mat ℝ nG (2 ^ N)) (V Q : Vector (Mat ℂ (2 ^ N) (2 ^ N)) nG) (omega : Vec ℝ nO) (p : P)
    (nOpersP : Vector (Mat ℂ (2 ^ (idx p).length) (2 ^ (idx p).length)) nA)
    (nOpers : Vector (Mat ℂ (2 ^ N) (2 ^ N)) nA)
    (nCoeffs : Mat ℝ nA nG) (dt t : Vec ℝ nG)
    (hV : ∀ g : Fin nG, V[g].toMatrix
      = Matrix.reindex (regEquiv 2 σ) (regEquiv 2 σ) (piKronH fun q => (Vs q)[g].toMatrix))
    (hQ : ∀ g : Fin nG, Q[g].toMatrix
      = Matrix.reindex (regEquiv 2 σ) (regEquiv 2 σ) (piKronH fun q => (Qs q)[g].toMatrix))
    (hD : ∀ g : Fin nG, (fun j : Fin (2 ^ N) => ev[g][j])
      = piSum (fun q (i : Fin (2 ^ (idx q).length)) => (evs q)[g][i]) ∘ (regEquiv 2 σ).symm)
    (hB : ∀ a : Fin nA, nOpers[a].toMatrix
      = Matrix.reindex (regEquiv 2 σ) (regEquiv 2 σ) (piKronH
          (Function.update (fun q => (1 : Matrix (Fin (2 ^ (idx q).length))
            (Fin (2 ^ (idx q).length)) ℂ)) p nOpersP[a].toMatrix)))
    (hVu : ∀ q, q ≠ p → ∀ g : Fin nG, ((Vs q)[g].toMatrix)ᴴ * (Vs q)[g].toMatrix = 1)
    (hQu : ∀ q, q ≠ p → ∀ g : Fin nG, ((Qs q)[g].toMatrix)ᴴ * (Qs q)[g].toMatrix = 1)
    (a : Fin nA) :
    extendRow (R := ℝ) N (idx p)
        (controlMatrixFromScratch kind thr (evs p) (Vs p) (Qs p) omega
          (pauliBasis (K := ℂ) (idx p).length) nOpersP nCoeffs dt t)[a]
      = (controlMatrixFromScratch kind thr ev V Q omega (pauliBasis (K := ℂ) N) nOpers nCoeffs
          dt t)[a] :=
  extendRow_eq_from_scratch idx N (layout_card σ) kind thr (regEquiv 2 σ) (regEquiv 4 σ) evs Vs Qs
    (fun q => pauliBasis (K := ℂ) (idx q).length) ev V Q omega (pauliBasis (K := ℂ) N) p nOpersP
    nOpers nCoeffs dt t hV hQ hD hB (fun k => pauliBasis_regEquiv σ k) hVu hQu (zeroLabel idx)
    (fun _ _ => C14.pauliBasis_first_is_identity _)
    (fun _ _ l => (C14.pauliBasis_orthoHerm _).ortho _ l)
    (equivalentPauli_regEquiv idx σ hσ hs p) a

end layout

/-- a row of the from-scratch control matrix depends only on its own noise operator and
coefficients -/
theorem cm_row_congr {nG d nO nA nA' nK : ℕ} (kind : MaskKind) (thr : ℝ) (ev : Mat ℝ nG d)
    (V Q : Vector (Mat ℂ d d) nG) (omega : Vec ℝ nO) (basis : Vector (Mat ℂ d d) nK)
    (nOpers : Vector (Mat ℂ d d) nA) (nOpers' : Vector (Mat ℂ d d) nA')
    (nCoeffs : Mat ℝ nA nG) (nCoeffs' : Mat ℝ nA' nG) (dt t : Vec ℝ nG) (a : Fin nA) (a' : Fin nA')
    (hB : nOpers[a] = nOpers'[a']) (hN : nCoeffs[a] = nCoeffs'[a']) :
    (controlMatrixFromScratch kind thr ev V Q omega basis nOpers nCoeffs dt t)[a]
      = (controlMatrixFromScratch kind thr ev V Q omega basis nOpers' nCoeffs' dt t)[a'] := by
  apply Vector.ext; intro k hk
  apply Vector.ext; intro o ho
  have h1 := C01.cm_entry kind thr ev V Q omega basis nOpers nCoeffs dt t a ⟨k, hk⟩ ⟨o, ho⟩
  have h2 := C01.cm_entry kind thr ev V Q omega basis nOpers' nCoeffs' dt t a' ⟨k, hk⟩ ⟨o, ho⟩
  rw [hB, hN] at h1
  exact h1.trans h2.symm

end FFVerif.C05Nfold
