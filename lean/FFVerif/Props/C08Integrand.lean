/-
C08 (continued) — `numeric._get_integrand`: every branch, and the equivalence of its input paths.

Models (`FFVerif/Model/Integrand.lean`): the eight control-matrix branches `Model.cmIntegrand…`
(generated contractions of the literal einsum strings), the eight filter-function branches
`Model.ffIntegrand…`, the dispatcher `Model.getIntegrand`; the paths of
`calculate_decay_amplitudes` (`Model.decayAmplitudesSel2/3`, `decayAmplitudesCorrSel2/3`: cached
generalized filter function → filter-function path, else control-matrix path, each one-shot or as
the memory-parsimonious loop) and the tail of `infidelity` (`Model.infidelityTail2/3`).
Naming: `…Fid…`/`…Gen…` is `which_FF`, `…Total…`/`…Corr…` is `which_pulse`, the suffix `2` is
`spectrum.ndim ∈ (1, 2)` (a one-dimensional spectrum is the two-dimensional case with the spectrum
replicated, `Model.Spectrum.one`), `3` is `spectrum.ndim == 3`.
Property theorems only (helpers: FFVerif/Lemmas/IntegrandAux.lean, IntegrandPathAux.lean,
IntegrandShapeAux.lean).
-/
import FFVerif.Lemmas.IntegrandSumAux
import FFVerif.Lemmas.IntegrandShapeAux
import FFVerif.Props.C08

namespace FFVerif.C08Integrand
open FFVerif FFVerif.Model FFVerif.Model.IntegrandAux

variable {G nA m N Nl nO d : Nat}

/-! ### closed entry formulas -/

/-- **Control-matrix branches, entry by entry.**  With `ctrl_left = conj(Bl)`, `ctrl_right = Br`
(`control_matrix=[Bl, Br]`; a single array is `Bl = Br`), the selection `idx` and the parsed
spectrum, the integrand is the real part of
* `('total', 'fidelity')`:        `Σ_k conj(Bl_{idx a,k}) S_a Br_{idx a,k}`,
  resp. `Σ_k conj(Bl_{idx a,k}) S_ab Br_{idx b,k}` for a cross-spectral matrix;
* `('total', 'generalized')`:     `conj(Bl_{idx a,k}) S_a Br_{idx a,l}`, resp.
  `conj(Bl_{idx a,k}) S_ab Br_{idx b,l}`;
* `('correlations', …)`: the same with the left factor of pulse `g` and the right factor of pulse
  `h`.
Only the diagonal pairs `(a, a)` occur for one- and two-dimensional spectra. -/
theorem integrand_entries_cm_total (Bl Br : Ten3 ℂ nA N nO) (Cl : Ten3 ℂ nA Nl nO)
    (idx : Vec (Fin nA) m) (S2 : Mat ℂ m nO) (S3 : Ten3 ℂ m m nO)
    (a b : Fin m) (k : Fin Nl) (l : Fin N) (o : Fin nO) :
    (cmIntegrandTotalFid2 Bl Br idx S2 : Mat ℝ m nO)[a][o]
      = (∑ k : Fin N, starRingEnd ℂ Bl[idx[a]][k][o] * S2[a][o] * Br[idx[a]][k][o]).re ∧
    (cmIntegrandTotalGen2 Cl Br idx S2 : Ten4 ℝ m Nl N nO)[a][k][l][o]
      = (starRingEnd ℂ Cl[idx[a]][k][o] * S2[a][o] * Br[idx[a]][l][o]).re ∧
    (cmIntegrandTotalFid3 Bl Br idx S3 : Ten3 ℝ m m nO)[a][b][o]
      = (∑ k : Fin N, starRingEnd ℂ Bl[idx[a]][k][o] * S3[a][b][o] * Br[idx[b]][k][o]).re ∧
    (cmIntegrandTotalGen3 Cl Br idx S3 : Ten5 ℝ m m Nl N nO)[a][b][k][l][o]
      = (starRingEnd ℂ Cl[idx[a]][k][o] * S3[a][b][o] * Br[idx[b]][l][o]).re :=
  ⟨cmIntegrandTotalFid2_get Bl Br idx S2 a o, cmIntegrandTotalGen2_get Cl Br idx S2 a k l o,
   cmIntegrandTotalFid3_get Bl Br idx S3 a b o, cmIntegrandTotalGen3_get Cl Br idx S3 a b k l o⟩

/-- `integrand_entries_cm_total` for `which_pulse='correlations'`, `which_FF='fidelity'`: left
factor of pulse `g`, right factor of pulse `h`. -/
theorem integrand_entries_cm_correlations_fidelity (Pl Pr : Vector (Ten3 ℂ nA N nO) G)
    (idx : Vec (Fin nA) m) (S2 : Mat ℂ m nO) (S3 : Ten3 ℂ m m nO)
    (g h : Fin G) (a b : Fin m) (o : Fin nO) :
    (cmIntegrandCorrFid2 Pl Pr idx S2 : Vector (Vector (Mat ℝ m nO) G) G)[g][h][a][o]
      = (∑ k : Fin N, starRingEnd ℂ Pl[g][idx[a]][k][o] * S2[a][o] * Pr[h][idx[a]][k][o]).re ∧
    (cmIntegrandCorrFid3 Pl Pr idx S3 : Vector (Vector (Ten3 ℝ m m nO) G) G)[g][h][a][b][o]
      = (∑ k : Fin N,
          starRingEnd ℂ Pl[g][idx[a]][k][o] * S3[a][b][o] * Pr[h][idx[b]][k][o]).re :=
  ⟨cmIntegrandCorrFid2_get Pl Pr idx S2 g h a o, cmIntegrandCorrFid3_get Pl Pr idx S3 g h a b o⟩

/-- `integrand_entries_cm_total` for `which_pulse='correlations'`, `which_FF='generalized'` -/
theorem integrand_entries_cm_correlations_generalized (Ql : Vector (Ten3 ℂ nA Nl nO) G)
    (Pr : Vector (Ten3 ℂ nA N nO) G) (idx : Vec (Fin nA) m) (S2 : Mat ℂ m nO)
    (S3 : Ten3 ℂ m m nO) (g h : Fin G) (a b : Fin m) (k : Fin Nl) (l : Fin N) (o : Fin nO) :
    (cmIntegrandCorrGen2 Ql Pr idx S2 : Vector (Vector (Ten4 ℝ m Nl N nO) G) G)[g][h][a][k][l][o]
      = (starRingEnd ℂ Ql[g][idx[a]][k][o] * S2[a][o] * Pr[h][idx[a]][l][o]).re ∧
    (cmIntegrandCorrGen3 Ql Pr idx S3
        : Vector (Vector (Ten5 ℝ m m Nl N nO) G) G)[g][h][a][b][k][l][o]
      = (starRingEnd ℂ Ql[g][idx[a]][k][o] * S3[a][b][o] * Pr[h][idx[b]][l][o]).re :=
  ⟨cmIntegrandCorrGen2_get Ql Pr idx S2 g h a k l o,
   cmIntegrandCorrGen3_get Ql Pr idx S3 g h a b k l o⟩

/-- **Filter-function branches, entry by entry.**  For ANY array handed in as `filter_function` the
integrand is `Re(F_{idx a, idx a}[, k, l] · S_a)` (diagonal pairs; one- and two-dimensional
spectra) resp. `Re(F_{idx a, idx b}[, k, l] · S_ab)`; a pulse-correlation filter function is
treated pair of pulses by pair of pulses.  In particular the two `moveaxis` calls of the
`'generalized'` case cancel. -/
theorem integrand_entries_ff_total (F : Ten3 ℂ nA nA nO) (Fg : Ten5 ℂ nA nA Nl N nO)
    (idx : Vec (Fin nA) m) (S2 : Mat ℂ m nO) (S3 : Ten3 ℂ m m nO)
    (a b : Fin m) (k : Fin Nl) (l : Fin N) (o : Fin nO) :
    (ffIntegrandFid2 F idx S2 : Mat ℝ m nO)[a][o] = (F[idx[a]][idx[a]][o] * S2[a][o]).re ∧
    (ffIntegrandGen2 Fg idx S2 : Ten4 ℝ m Nl N nO)[a][k][l][o]
      = (Fg[idx[a]][idx[a]][k][l][o] * S2[a][o]).re ∧
    (ffIntegrandFid3 F idx S3 : Ten3 ℝ m m nO)[a][b][o]
      = (F[idx[a]][idx[b]][o] * S3[a][b][o]).re ∧
    (ffIntegrandGen3 Fg idx S3 : Ten5 ℝ m m Nl N nO)[a][b][k][l][o]
      = (Fg[idx[a]][idx[b]][k][l][o] * S3[a][b][o]).re :=
  ⟨ffIntegrandFid2_get F idx S2 a o, ffIntegrandGen2_get Fg idx S2 a k l o,
    ffIntegrandFid3_get F idx S3 a b o, ffIntegrandGen3_get Fg idx S3 a b k l o⟩

/-- `integrand_entries_ff_total` for a pulse-correlation filter function (`which_pulse` is not
looked at on this path: the two leading pulse axes ride along in the ellipsis): pair of pulses by
pair of pulses the `total` branch. -/
theorem integrand_entries_ff_correlations (P : Vector (Vector (Ten3 ℂ nA nA nO) G) G)
    (Pg : Vector (Vector (Ten5 ℂ nA nA Nl N nO) G) G) (idx : Vec (Fin nA) m) (S2 : Mat ℂ m nO)
    (S3 : Ten3 ℂ m m nO) (g h : Fin G) :
    (ffIntegrandCorrFid2 P idx S2 : Vector (Vector (Mat ℝ m nO) G) G)[g][h]
      = ffIntegrandFid2 P[g][h] idx S2 ∧
    (ffIntegrandCorrGen2 Pg idx S2 : Vector (Vector (Ten4 ℝ m Nl N nO) G) G)[g][h]
      = ffIntegrandGen2 Pg[g][h] idx S2 ∧
    (ffIntegrandCorrFid3 P idx S3 : Vector (Vector (Ten3 ℝ m m nO) G) G)[g][h]
      = ffIntegrandFid3 P[g][h] idx S3 ∧
    (ffIntegrandCorrGen3 Pg idx S3 : Vector (Vector (Ten5 ℝ m m Nl N nO) G) G)[g][h]
      = ffIntegrandGen3 Pg[g][h] idx S3 :=
  ⟨ffIntegrandCorrFid2_get P idx S2 g h, ffIntegrandCorrGen2_get Pg idx S2 g h,
   ffIntegrandCorrFid3_get P idx S3 g h, ffIntegrandCorrGen3_get Pg idx S3 g h⟩

/-- the filter functions the package computes from a control matrix
(`calculate_filter_function`, `calculate_pulse_correlation_filter_function`), entry by entry -/
theorem filter_function_entries (B : Ten3 ℂ nA N nO) (P : Vector (Ten3 ℂ nA N nO) G)
    (g h : Fin G) (a b : Fin nA) (k l : Fin N) (o : Fin nO) :
    (filterFunctionFid B)[a][b][o] = ∑ k : Fin N, starRingEnd ℂ B[a][k][o] * B[b][k][o] ∧
    (filterFunctionGen B)[a][b][k][l][o] = starRingEnd ℂ B[a][k][o] * B[b][l][o] ∧
    (pulseCorrelationFFFid P)[g][h][a][b][o]
      = ∑ k : Fin N, starRingEnd ℂ P[g][a][k][o] * P[h][b][k][o] ∧
    (pulseCorrelationFFGen P)[g][h][a][b][k][l][o]
      = starRingEnd ℂ P[g][a][k][o] * P[h][b][l][o] :=
  ⟨filterFunctionFid_get B a b o, filterFunctionGen_get B a b k l o,
   pulseCorrelationFFFid_get P g h a b o, pulseCorrelationFFGen_get P g h a b k l o⟩

/-- a one-dimensional spectrum is the two-dimensional case with the spectrum replicated along the
noise-operator axis (broadcasting of the ellipsis resp. of `…*spectrum`): by definition. -/
theorem single_spectrum_is_broadcast (idx : Vec (Fin nA) m) (s : Vec ℂ nO)
    (c : IntegrandCall ℂ G nA Nl N nO) :
    (getIntegrand idx (.one s) c : Integrand ℝ G m Nl N nO)
      = getIntegrand idx (.perOp (replicateSpectrum s)) c := rfl

/-! ### the filter-function path returns the integrand of the control-matrix path -/

/-- **`integrand_ff_path_eq_cm_path`, branch by branch.**  If the filter function handed to
`_get_integrand` is the one the package computes from the control matrix `B` — `conj(B) B`
(`'generalized'`), its trace over the basis index (`'fidelity'`), for one pulse or for every pair
of pulses — the filter-function path returns EXACTLY (as real arrays, entry by entry, over ℝ) the
integrand of the control-matrix path with `control_matrix=B`: for `total` and `correlations`, for
`spectrum.ndim ∈ (1, 2)` and `spectrum.ndim == 3`, for every selection `idx` (any order, with
repetitions, empty), every spectrum (Hermitian or not) and every control matrix. -/
theorem integrand_ff_path_eq_cm_path (B : Ten3 ℂ nA N nO) (P : Vector (Ten3 ℂ nA N nO) G)
    (idx : Vec (Fin nA) m) (S2 : Mat ℂ m nO) (S3 : Ten3 ℂ m m nO) :
    (ffIntegrandFid2 (filterFunctionFid B) idx S2 : Mat ℝ m nO)
      = cmIntegrandTotalFid2 B B idx S2 ∧
    (ffIntegrandGen2 (filterFunctionGen B) idx S2 : Ten4 ℝ m N N nO)
      = cmIntegrandTotalGen2 B B idx S2 ∧
    (ffIntegrandFid3 (filterFunctionFid B) idx S3 : Ten3 ℝ m m nO)
      = cmIntegrandTotalFid3 B B idx S3 ∧
    (ffIntegrandGen3 (filterFunctionGen B) idx S3 : Ten5 ℝ m m N N nO)
      = cmIntegrandTotalGen3 B B idx S3 ∧
    (ffIntegrandCorrFid2 (pulseCorrelationFFFid P) idx S2 : Vector (Vector (Mat ℝ m nO) G) G)
      = cmIntegrandCorrFid2 P P idx S2 ∧
    (ffIntegrandCorrGen2 (pulseCorrelationFFGen P) idx S2
        : Vector (Vector (Ten4 ℝ m N N nO) G) G)
      = cmIntegrandCorrGen2 P P idx S2 ∧
    (ffIntegrandCorrFid3 (pulseCorrelationFFFid P) idx S3 : Vector (Vector (Ten3 ℝ m m nO) G) G)
      = cmIntegrandCorrFid3 P P idx S3 ∧
    (ffIntegrandCorrGen3 (pulseCorrelationFFGen P) idx S3
        : Vector (Vector (Ten5 ℝ m m N N nO) G) G)
      = cmIntegrandCorrGen3 P P idx S3 :=
  ⟨ffFid2_eq_cm B idx S2, ffGen2_eq_cm B idx S2, ffFid3_eq_cm B idx S3, ffGen3_eq_cm B idx S3,
   ffCorrFid2_eq_cm P idx S2, ffCorrGen2_eq_cm P idx S2, ffCorrFid3_eq_cm P idx S3,
   ffCorrGen3_eq_cm P idx S3⟩

/-- **`integrand_ff_path_eq_cm_path` for the dispatcher.**  For every call `c` of `_get_integrand`
with a single control matrix (`c.IsSingle`; all four (`which_pulse`, `which_FF`) combinations) and
every spectrum shape (`(n_omega,)`, `(len(idx), n_omega)`, `(len(idx), len(idx), n_omega)`),
replacing the control matrix by the filter function computed from it (`c.viaFilterFunction`)
does not change the result. -/
theorem getIntegrand_ff_path_eq_cm_path (idx : Vec (Fin nA) m) (S : Spectrum ℂ m nO)
    (c : IntegrandCall ℂ G nA N N nO) (hc : c.IsSingle) :
    (getIntegrand idx S c.viaFilterFunction : Integrand ℝ G m N N nO) = getIntegrand idx S c := by
  cases S <;> cases c <;>
    simp only [IntegrandCall.IsSingle] at hc <;> try subst hc
  all_goals
    simp only [getIntegrand, getIntegrand2, getIntegrand3, IntegrandCall.viaFilterFunction,
      ffFid2_eq_cm, ffGen2_eq_cm, ffFid3_eq_cm, ffGen3_eq_cm, ffCorrFid2_eq_cm, ffCorrGen2_eq_cm,
      ffCorrFid3_eq_cm, ffCorrGen3_eq_cm]

/-- the hypothesis `IsSingle` holds for `control_matrix=B` in each of the four combinations, and
for every filter-function call -/
example (B : Ten3 ℂ nA N nO) (P : Vector (Ten3 ℂ nA N nO) G) (F : Ten3 ℂ nA nA nO) :
    (IntegrandCall.cmTotalFid B B : IntegrandCall ℂ G nA N N nO).IsSingle ∧
    (IntegrandCall.cmTotalGen B B : IntegrandCall ℂ G nA N N nO).IsSingle ∧
    (IntegrandCall.cmCorrFid P P : IntegrandCall ℂ G nA N N nO).IsSingle ∧
    (IntegrandCall.cmCorrGen P P : IntegrandCall ℂ G nA N N nO).IsSingle ∧
    (IntegrandCall.ffTotalFid F : IntegrandCall ℂ G nA N N nO).IsSingle :=
  ⟨rfl, rfl, rfl, rfl, trivial⟩

/-- **The arguments of the memory-parsimonious loop agree, too**: the slice
`filter_function[..., k:k+1, :, :]` of the filter function of `B` gives the integrand of
`control_matrix=[B[..., k:k+1, :], B]`, for every `k`. -/
theorem integrand_ff_slice_eq_cm_pair (B : Ten3 ℂ nA N nO) (idx : Vec (Fin nA) m)
    (S2 : Mat ℂ m nO) (S3 : Ten3 ℂ m m nO) (k : Fin N) :
    (ffIntegrandGen2 (sliceFF k (filterFunctionGen B)) idx S2 : Ten4 ℝ m 1 N nO)
      = cmIntegrandTotalGen2 (sliceCM k B) B idx S2 ∧
    (ffIntegrandGen3 (sliceFF k (filterFunctionGen B)) idx S3 : Ten5 ℝ m m 1 N nO)
      = cmIntegrandTotalGen3 (sliceCM k B) B idx S3 :=
  ⟨ffGen2_slice_eq_cm_pair B idx S2 k, ffGen3_slice_eq_cm_pair B idx S3 k⟩

/-! ### caller level: `calculate_decay_amplitudes` -/

/-- **The decay amplitudes do not depend on the path** (`which='total'`).  Let `B` be the control
matrix and `Fgen` what `pulse.get_filter_function(omega, which='generalized')` returns, and assume
the cache is consistent, `Fgen = conj(B) B` (`Model.filterFunctionGen B` =
`numeric.calculate_filter_function(B, 'generalized')`).  Then for both values of
`pulse.is_cached('filter_function_gen')` (filter-function path / control-matrix path) and both
values of `memory_parsimonious` (one shot / loop over `k` with `[B[..., k:k+1, :], B]` resp.
`Fgen[..., k:k+1, :, :]`), `calculate_decay_amplitudes` returns the array
`Model.decayAmplitudes2` / `decayAmplitudes3` of `Props/C08.lean` (`decay_amplitudes_entries`):
four paths, one result.  (The control-matrix loop is `C08.decay_amplitudes_parsimonious`.) -/
theorem decay_amplitudes_path_independent (ffGenCached pars : Bool) (ω : Vec ℝ nO)
    (B : Ten3 ℂ nA N nO) (Fgen : Ten5 ℂ nA nA N N nO) (hF : Fgen = filterFunctionGen B)
    (idx : Vec (Fin nA) m) (S2 : Mat ℂ m nO) (S3 : Ten3 ℂ m m nO) :
    decayAmplitudesSel2 ffGenCached pars ω B Fgen idx S2 = decayAmplitudes2 ω B idx S2 ∧
    decayAmplitudesSel3 ffGenCached pars ω B Fgen idx S3 = decayAmplitudes3 ω B idx S3 := by
  subst hF
  have hp := C08.decay_amplitudes_parsimonious ω B idx S2 S3
  have h2 : decayAmplitudesFF2 ω (filterFunctionGen B) idx S2 = decayAmplitudes2 ω B idx S2 := by
    rw [decayAmplitudes2_eq_integ, decayAmplitudesFF2, ffGen2_eq_cm]
  have h3 : decayAmplitudesFF3 ω (filterFunctionGen B) idx S3 = decayAmplitudes3 ω B idx S3 := by
    rw [decayAmplitudes3_eq_integ, decayAmplitudesFF3, ffGen3_eq_cm]
  constructor
  · cases ffGenCached <;> cases pars <;>
      simp only [decayAmplitudesSel2, Bool.not_true, Bool.not_false, if_true, if_false,
        Bool.false_eq_true, decayAmplitudesFF2Pars_eq, h2, hp.1]
  · cases ffGenCached <;> cases pars <;>
      simp only [decayAmplitudesSel3, Bool.not_true, Bool.not_false, if_true, if_false,
        Bool.false_eq_true, decayAmplitudesFF3Pars_eq, h3, hp.2]

/-- the cache-consistency hypothesis of `decay_amplitudes_path_independent` is what
`cache_filter_function` stores for a pulse with a rank-3 control matrix -/
example (B : Ten3 ℂ nA N nO) : ∃ Fgen : Ten5 ℂ nA nA N N nO, Fgen = filterFunctionGen B := ⟨_, rfl⟩

/-- **The same for `which='correlations'`**: with `Bpc = pulse.get_pulse_correlation_control_matrix()`
and a consistent cache `Fpc = calculate_pulse_correlation_filter_function(Bpc, 'generalized')`, the
filter-function path (`pulse.is_cached('filter_function_pc_gen')`) and the control-matrix path,
one-shot or memory-parsimonious, all return `Model.decayAmplitudesCorr2/3`, whose entries are
`Γ^{(gh)}_{ab,kl} = ∫ Re(conj(B^{(g)}_{ak}) S_ab B^{(h)}_{bl}) dω / 2π` (trapezoid). -/
theorem decay_amplitudes_correlations_path_independent (ffPcGenCached pars : Bool) (ω : Vec ℝ nO)
    (Bpc : Vector (Ten3 ℂ nA N nO) G) (Fpc : Vector (Vector (Ten5 ℂ nA nA N N nO) G) G)
    (hF : Fpc = pulseCorrelationFFGen Bpc) (idx : Vec (Fin nA) m) (S2 : Mat ℂ m nO)
    (S3 : Ten3 ℂ m m nO) :
    decayAmplitudesCorrSel2 ffPcGenCached pars ω Bpc Fpc idx S2
      = decayAmplitudesCorr2 ω Bpc idx S2 ∧
    decayAmplitudesCorrSel3 ffPcGenCached pars ω Bpc Fpc idx S3
      = decayAmplitudesCorr3 ω Bpc idx S3 := by
  subst hF
  have h2 : decayAmplitudesCorrFF2 ω (pulseCorrelationFFGen Bpc) idx S2
      = decayAmplitudesCorr2 ω Bpc idx S2 := by
    rw [decayAmplitudesCorrFF2, decayAmplitudesCorr2, ffCorrGen2_eq_cm]
  have h3 : decayAmplitudesCorrFF3 ω (pulseCorrelationFFGen Bpc) idx S3
      = decayAmplitudesCorr3 ω Bpc idx S3 := by
    rw [decayAmplitudesCorrFF3, decayAmplitudesCorr3, ffCorrGen3_eq_cm]
  constructor
  · cases ffPcGenCached <;> cases pars <;>
      simp only [decayAmplitudesCorrSel2, Bool.not_true, Bool.not_false, if_true, if_false,
        Bool.false_eq_true, decayAmplitudesCorrFF2Pars_eq, decayAmplitudesCorr2Pars_eq, h2]
  · cases ffPcGenCached <;> cases pars <;>
      simp only [decayAmplitudesCorrSel3, Bool.not_true, Bool.not_false, if_true, if_false,
        Bool.false_eq_true, decayAmplitudesCorrFF3Pars_eq, decayAmplitudesCorr3Pars_eq, h3]

/-- entries of the pulse-correlation decay amplitudes -/
theorem decay_amplitudes_correlations_entries (ω : Vec ℝ nO) (Bpc : Vector (Ten3 ℂ nA N nO) G)
    (idx : Vec (Fin nA) m) (S2 : Mat ℂ m nO) (S3 : Ten3 ℂ m m nO) (g h : Fin G) (a b : Fin m)
    (k l : Fin N) :
    (decayAmplitudesCorr2 ω Bpc idx S2)[g][h][a][k][l]
      = integrateR ω (Vector.ofFn fun o =>
          (starRingEnd ℂ Bpc[g][idx[a]][k][o] * S2[a][o] * Bpc[h][idx[a]][l][o]).re)
        / (2 * Real.pi) ∧
    (decayAmplitudesCorr3 ω Bpc idx S3)[g][h][a][b][k][l]
      = integrateR ω (Vector.ofFn fun o =>
          (starRingEnd ℂ Bpc[g][idx[a]][k][o] * S3[a][b][o] * Bpc[h][idx[b]][l][o]).re)
        / (2 * Real.pi) := by
  constructor
  · unfold decayAmplitudesCorr2
    rw [map_get', map_get', integ4_get]
    congr 2
    refine vec_ext_fin fun o => ?_
    rw [cmIntegrandCorrGen2_get, ofFn_get']
  · unfold decayAmplitudesCorr3
    rw [map_get', map_get', integ5_get]
    congr 2
    refine vec_ext_fin fun o => ?_
    rw [cmIntegrandCorrGen3_get, ofFn_get']

/-! ### caller level: `infidelity` -/

/-- **The infidelity does not depend on how the fidelity filter function was obtained.**
`infidelity` always calls `_get_integrand(…, 'fidelity', filter_function=F)`
(`Model.infidelityTail2/3`, which is the tail `Model.infidelityDiag/Full` used by the models of
`Props/C08.lean`).  For a consistent cache — `F` is `calculate_filter_function(B, 'fidelity')`, or
the trace `Fgen.trace(axis1=2, axis2=3)` of the generalized filter function `conj(B) B` that
`cache_filter_function(which='generalized')` stores next to it — the result equals the one of the
control-matrix path `_get_integrand(…, 'fidelity', control_matrix=B)` (`Model.infidelityTailCM2/3`),
for every spectrum shape, selection, grid and `d`. -/
theorem infidelity_path_independent (ω : Vec ℝ nO) (B : Ten3 ℂ nA N nO) (idx : Vec (Fin nA) m)
    (S2 : Mat ℂ m nO) (S3 : Ten3 ℂ m m nO) (d : Nat) :
    infidelityTail2 ω (filterFunctionFid B) idx S2 d = infidelityTailCM2 ω B idx S2 d ∧
    infidelityTail3 ω (filterFunctionFid B) idx S3 d = infidelityTailCM3 ω B idx S3 d ∧
    infidelityTail2 ω (ffTraceGen (filterFunctionGen B)) idx S2 d = infidelityTailCM2 ω B idx S2 d ∧
    infidelityTail3 ω (ffTraceGen (filterFunctionGen B)) idx S3 d = infidelityTailCM3 ω B idx S3 d ∧
    (∀ F : Ten3 ℂ nA nA nO, infidelityTail2 ω F idx S2 d = infidelityDiag ω F idx S2 d) ∧
    (∀ F : Ten3 ℂ nA nA nO, infidelityTail3 ω F idx S3 d = infidelityFull ω F idx S3 d) := by
  have h2 : infidelityTail2 ω (filterFunctionFid B) idx S2 d = infidelityTailCM2 ω B idx S2 d := by
    rw [infidelityTail2, infidelityTailCM2, ffFid2_eq_cm]
  have h3 : infidelityTail3 ω (filterFunctionFid B) idx S3 d = infidelityTailCM3 ω B idx S3 d := by
    rw [infidelityTail3, infidelityTailCM3, ffFid3_eq_cm]
  refine ⟨h2, h3, ?_, ?_, fun F => infidelityTail2_eq_diag ω F idx S2 d,
    fun F => infidelityTail3_eq_full ω F idx S3 d⟩
  · rw [ffTraceGen_filterFunctionGen, h2]
  · rw [ffTraceGen_filterFunctionGen, h3]

/-- the traceless branch of the existing model `Model.infidelityFromCM2/3` with an empty
`_identity_element_index` is this tail on `calculate_filter_function(B, 'fidelity')`, hence equal to
the control-matrix path, too -/
theorem infidelityFromCM_eq_cm_path (ω : Vec ℝ nO) (B : Ten3 ℂ nA N nO) (T : Ten4 ℂ N N N N)
    (idEmpty : Vec (Fin N) 0) (idx : Vec (Fin nA) m) (S2 : Mat ℂ m nO) (S3 : Ten3 ℂ m m nO)
    (d : Nat) :
    infidelityFromCM2 true d ω B T idEmpty idx S2 = infidelityTailCM2 ω B idx S2 d ∧
    infidelityFromCM3 true d ω B T idEmpty idx S3 = infidelityTailCM3 ω B idx S3 d := by
  obtain ⟨h2, h3, -, -, e2, e3⟩ := infidelity_path_independent ω B idx S2 S3 d
  constructor
  · rw [← h2, e2]
    simp only [infidelityFromCM2, fidelityFF, Bool.not_true, Bool.false_eq_true, if_false, if_true]
  · rw [← h3, e3]
    simp only [infidelityFromCM3, fidelityFF, Bool.not_true, Bool.false_eq_true, if_false, if_true]

/-! ### pulse correlations sum to the total -/

/-- **Summing the `correlations` integrand over both pulse indices gives the `total` integrand**
when the control matrix of the whole sequence is the sum of the pulse-correlation control matrices
over the pulses (`Model.totalControlMatrix P` = `control_matrix_pc.sum(axis=0)`, what
`PulseSequence.get_control_matrix` returns for a concatenated pulse): all four
(`which_FF`, spectrum rank) combinations, every entry. -/
theorem integrand_correlations_sum_to_total (P : Vector (Ten3 ℂ nA N nO) G)
    (idx : Vec (Fin nA) m) (S2 : Mat ℂ m nO) (S3 : Ten3 ℂ m m nO) (a b : Fin m) (k l : Fin N)
    (o : Fin nO) :
    ∑ g : Fin G, ∑ h : Fin G,
        (cmIntegrandCorrFid2 P P idx S2 : Vector (Vector (Mat ℝ m nO) G) G)[g][h][a][o]
      = (cmIntegrandTotalFid2 (totalControlMatrix P) (totalControlMatrix P) idx S2
          : Mat ℝ m nO)[a][o] ∧
    ∑ g : Fin G, ∑ h : Fin G,
        (cmIntegrandCorrGen2 P P idx S2 : Vector (Vector (Ten4 ℝ m N N nO) G) G)[g][h][a][k][l][o]
      = (cmIntegrandTotalGen2 (totalControlMatrix P) (totalControlMatrix P) idx S2
          : Ten4 ℝ m N N nO)[a][k][l][o] ∧
    ∑ g : Fin G, ∑ h : Fin G,
        (cmIntegrandCorrFid3 P P idx S3 : Vector (Vector (Ten3 ℝ m m nO) G) G)[g][h][a][b][o]
      = (cmIntegrandTotalFid3 (totalControlMatrix P) (totalControlMatrix P) idx S3
          : Ten3 ℝ m m nO)[a][b][o] ∧
    ∑ g : Fin G, ∑ h : Fin G,
        (cmIntegrandCorrGen3 P P idx S3
          : Vector (Vector (Ten5 ℝ m m N N nO) G) G)[g][h][a][b][k][l][o]
      = (cmIntegrandTotalGen3 (totalControlMatrix P) (totalControlMatrix P) idx S3
          : Ten5 ℝ m m N N nO)[a][b][k][l][o] :=
  ⟨cmCorrFid2_sum P idx S2 a o, cmCorrGen2_sum P idx S2 a k l o, cmCorrFid3_sum P idx S3 a b o,
   cmCorrGen3_sum P idx S3 a b k l o⟩

/-- **The same on the filter-function path, for ANY pulse-correlation filter function**: the
integrand of `F_pc.sum(axis=(0, 1))` (`Model.pcSumGen`, `pcSumFid`: what `cache_filter_function`
stores as the total filter function of a concatenated pulse) is the sum over the pulse pairs of the
`correlations` integrand (linearity of the filter-function branch in the filter function). -/
theorem integrand_ff_correlations_sum_to_total (F : Vector (Vector (Ten3 ℂ nA nA nO) G) G)
    (Fg : Vector (Vector (Ten5 ℂ nA nA N N nO) G) G) (idx : Vec (Fin nA) m) (S2 : Mat ℂ m nO)
    (S3 : Ten3 ℂ m m nO) (a b : Fin m) (k l : Fin N) (o : Fin nO) :
    (ffIntegrandFid2 (pcSumFid F) idx S2 : Mat ℝ m nO)[a][o]
      = ∑ g : Fin G, ∑ h : Fin G,
          (ffIntegrandCorrFid2 F idx S2 : Vector (Vector (Mat ℝ m nO) G) G)[g][h][a][o] ∧
    (ffIntegrandGen2 (pcSumGen Fg) idx S2 : Ten4 ℝ m N N nO)[a][k][l][o]
      = ∑ g : Fin G, ∑ h : Fin G,
          (ffIntegrandCorrGen2 Fg idx S2
            : Vector (Vector (Ten4 ℝ m N N nO) G) G)[g][h][a][k][l][o] ∧
    (ffIntegrandFid3 (pcSumFid F) idx S3 : Ten3 ℝ m m nO)[a][b][o]
      = ∑ g : Fin G, ∑ h : Fin G,
          (ffIntegrandCorrFid3 F idx S3 : Vector (Vector (Ten3 ℝ m m nO) G) G)[g][h][a][b][o] ∧
    (ffIntegrandGen3 (pcSumGen Fg) idx S3 : Ten5 ℝ m m N N nO)[a][b][k][l][o]
      = ∑ g : Fin G, ∑ h : Fin G,
          (ffIntegrandCorrGen3 Fg idx S3
            : Vector (Vector (Ten5 ℝ m m N N nO) G) G)[g][h][a][b][k][l][o] := by
  refine ⟨?_, ?_, ?_, ?_⟩
  · simp only [ffIntegrandCorrFid2_get, ffIntegrandFid2_get, pcSumFid_get, re_sum_pairs_mul]
  · simp only [ffIntegrandCorrGen2_get, ffIntegrandGen2_get, pcSumGen_get, re_sum_pairs_mul]
  · simp only [ffIntegrandCorrFid3_get, ffIntegrandFid3_get, pcSumFid_get, re_sum_pairs_mul]
  · simp only [ffIntegrandCorrGen3_get, ffIntegrandGen3_get, pcSumGen_get, re_sum_pairs_mul]

/-- **Pulse-correlation decay amplitudes sum to the total decay amplitudes**, end to end:
`Σ_{g,g'} Γ^{(gg')}_{ab,kl} = Γ_{ab,kl}` for `calculate_decay_amplitudes(which='correlations')`
against `which='total'` on the summed control matrix — whatever path (cached filter functions or
not, memory-parsimonious or not) either call takes, provided the caches are consistent.  (The
infidelity version is `C08.pulse_correlations_sum_to_total`.) -/
theorem decay_amplitudes_correlations_sum_to_total (c c' p p' : Bool) (ω : Vec ℝ nO)
    (Bpc : Vector (Ten3 ℂ nA N nO) G) (Fpc : Vector (Vector (Ten5 ℂ nA nA N N nO) G) G)
    (hFpc : Fpc = pulseCorrelationFFGen Bpc) (Fgen : Ten5 ℂ nA nA N N nO)
    (hFgen : Fgen = filterFunctionGen (totalControlMatrix Bpc))
    (idx : Vec (Fin nA) m) (S2 : Mat ℂ m nO) (S3 : Ten3 ℂ m m nO) (a b : Fin m) (k l : Fin N) :
    ∑ g : Fin G, ∑ h : Fin G, (decayAmplitudesCorrSel2 c p ω Bpc Fpc idx S2)[g][h][a][k][l]
      = (decayAmplitudesSel2 c' p' ω (totalControlMatrix Bpc) Fgen idx S2)[a][k][l] ∧
    ∑ g : Fin G, ∑ h : Fin G, (decayAmplitudesCorrSel3 c p ω Bpc Fpc idx S3)[g][h][a][b][k][l]
      = (decayAmplitudesSel3 c' p' ω (totalControlMatrix Bpc) Fgen idx S3)[a][b][k][l] := by
  obtain ⟨e2, e3⟩ := decay_amplitudes_correlations_path_independent c p ω Bpc Fpc hFpc idx S2 S3
  obtain ⟨t2, t3⟩ := decay_amplitudes_path_independent c' p' ω (totalControlMatrix Bpc) Fgen hFgen
    idx S2 S3
  rw [e2, e3, t2, t3]
  exact ⟨decayAmplitudesCorr2_sum ω Bpc idx S2 a k l, decayAmplitudesCorr3_sum ω Bpc idx S3 a b k l⟩

/-! ### which calls are rejected, and how

`Model.IntegrandShape.integrandShape` is `_get_integrand` on SHAPES (arbitrary ranks and lengths,
any combination of the two sources) with the class of the exception raised; it is compared with
the real function on documented and perturbed shapes by `corr_c08integrand.py` (`shape/…`). -/

section shapes
open FFVerif.Model.IntegrandShape

/-- **Outcome of a call with one source of the documented shape** — `control_matrix` of shape
`([G,] n_nops, N, nO')`, resp. `filter_function` of shape `([G, G,] n_nops, n_nops, [Nl, N,] nO')` —
for an ARBITRARY spectrum shape, index list and `len(omega)`: in this order
1. `util.parse_spectrum` fails → `ValueError`;
2. the bounds check of `…[..., idx, :, :]` resp. `…[..., idx, idx, :]` fails (`indexOK`, see
   `index_check_iff`) → `IndexError`;
3. the frequency axes `nO'` of the source and `len(omega)` of the spectrum are not broadcastable
   (`bdim nO' len(omega) = none`, see `frequency_axes_rejected_iff`) → `ValueError` (from
   `np.einsum` resp. from `*`);
4. otherwise the result has the documented shape `([G, G,] m, [m,] [Nl, N,] o)` (`docOut`), with
   two `m` axes iff the parsed spectrum has three axes. -/
theorem integrand_shape_documented (wp : IntegrandShape.WhichPulse) (wf : IntegrandShape.WhichFF)
    (sh : List Nat) (herm : Bool) (nΩ : Nat) (idx : List Nat) (G nA Nl N nO' : Nat) :
    integrandShape ⟨sh, herm, nΩ, idx, wp, wf, some (.single (docCM wp G nA N nO')), none⟩
      = docOutcome (Validate.parseSpectrum sh idx.length nΩ herm)
          (indexOK idx [nA] (leadCM wp G ++ [idx.length, N, nO'])) nO' nΩ
          (fun cross o => docOut wp wf cross G idx.length N N o) ∧
    integrandShape ⟨sh, herm, nΩ, idx, wp, wf, none, some (docFF wp wf G nA Nl N nO')⟩
      = docOutcome (Validate.parseSpectrum sh idx.length nΩ herm)
          (indexOK idx [nA, nA] (leadFF wp G ++ basisAxes wf Nl N
            ++ selAxes (match Validate.parseSpectrum sh idx.length nΩ herm with
                | .ok S => S.length == 3
                | .error _ => false) idx.length ++ [nO'])) nO' nΩ
          (fun cross o => docOut wp wf cross G idx.length Nl N o) := by
  refine ⟨integrandShape_cm_doc wp wf sh herm nΩ idx G nA N nO', ?_⟩
  cases hP : Validate.parseSpectrum sh idx.length nΩ herm with
  | error e =>
    rw [integrandShape_ff_doc_err wp wf sh herm nΩ idx G nA Nl N nO' e hP]
    rfl
  | ok S =>
    rcases parse_ok_cases hP with rfl | rfl | rfl
    · exact integrandShape_ff_doc1 wp wf sh herm nΩ idx G nA Nl N nO' hP
    · exact integrandShape_ff_doc2 wp wf sh herm nΩ idx G nA Nl N nO' hP
    · exact integrandShape_ff_doc3 wp wf sh herm nΩ idx G nA Nl N nO' hP

/-- **`integrand_rejects_iff`.**  A call with a single control matrix of the documented shape raises
an exception of class `e` IFF
* `parse_spectrum` rejects the spectrum and `e` is `ValueError`
  (`Validate.parseSpectrum`, characterised in `Props/C20`: wrong shape, more than three axes, or a
  non-Hermitian cross-spectral matrix), or
* the spectrum is accepted, the bounds check fails and `e` is `IndexError`, or
* both pass, the frequency axes are not broadcastable and `e` is `ValueError`;
the same for a filter function of the documented shape.  Nothing else is raised, and in all other
cases the result has the documented shape (`integrand_shape_documented`). -/
theorem integrand_rejects_iff (wp : IntegrandShape.WhichPulse) (wf : IntegrandShape.WhichFF)
    (sh : List Nat) (herm : Bool) (nΩ : Nat) (idx : List Nat) (G nA Nl N nO' : Nat) (e : Err) :
    (integrandShape ⟨sh, herm, nΩ, idx, wp, wf, some (.single (docCM wp G nA N nO')), none⟩
        = .error e ↔
      ((∃ e', Validate.parseSpectrum sh idx.length nΩ herm = .error e') ∧ e = .valueError) ∨
      ((∃ S, Validate.parseSpectrum sh idx.length nΩ herm = .ok S) ∧
        indexOK idx [nA] (leadCM wp G ++ [idx.length, N, nO']) = false ∧ e = .indexError) ∨
      ((∃ S, Validate.parseSpectrum sh idx.length nΩ herm = .ok S) ∧
        indexOK idx [nA] (leadCM wp G ++ [idx.length, N, nO']) = true ∧
        bdim nO' nΩ = none ∧ e = .valueError)) ∧
    (integrandShape ⟨sh, herm, nΩ, idx, wp, wf, none, some (docFF wp wf G nA Nl N nO')⟩
        = .error e ↔
      ((∃ e', Validate.parseSpectrum sh idx.length nΩ herm = .error e') ∧ e = .valueError) ∨
      ((∃ S, Validate.parseSpectrum sh idx.length nΩ herm = .ok S) ∧
        indexOK idx [nA, nA] (leadFF wp G ++ basisAxes wf Nl N
          ++ selAxes (match Validate.parseSpectrum sh idx.length nΩ herm with
              | .ok S => S.length == 3
              | .error _ => false) idx.length ++ [nO']) = false ∧ e = .indexError) ∨
      ((∃ S, Validate.parseSpectrum sh idx.length nΩ herm = .ok S) ∧
        indexOK idx [nA, nA] (leadFF wp G ++ basisAxes wf Nl N
          ++ selAxes (match Validate.parseSpectrum sh idx.length nΩ herm with
              | .ok S => S.length == 3
              | .error _ => false) idx.length ++ [nO']) = true ∧
        bdim nO' nΩ = none ∧ e = .valueError)) := by
  obtain ⟨h1, h2⟩ := integrand_shape_documented wp wf sh herm nΩ idx G nA Nl N nO'
  rw [h1, h2]
  exact ⟨docOutcome_error_iff _ _ _ _ _ _, docOutcome_error_iff _ _ _ _ _ _⟩

/-- the bounds check in words (numpy 1.26): every index is smaller than the length of every indexed
axis — or the indexing result is empty (has an axis of length 0), in which case numpy only warns.
For arrays without axes of length 0 and a non-empty `idx` this is `∀ i ∈ idx, i < n_nops`. -/
theorem index_check_iff (idx bounds result : List Nat) :
    indexOK idx bounds result = true ↔ (∀ n ∈ bounds, ∀ i ∈ idx, i < n) ∨ 0 ∈ result :=
  indexOK_iff idx bounds result

/-- the frequency axes are rejected iff they differ and neither has length 1: a source evaluated
on ONE frequency, or a spectrum given on one frequency, is silently broadcast, not rejected. -/
theorem frequency_axes_rejected_iff (nO' nΩ : Nat) :
    bdim nO' nΩ = none ↔ nO' ≠ nΩ ∧ nO' ≠ 1 ∧ nΩ ≠ 1 :=
  bdim_eq_none_iff nO' nΩ

/-- non-vacuity: a documented call that is accepted, one rejected by each of the three checks
(shapes as in `corr_c08integrand.py`) -/
example :
    integrandShape ⟨[2, 5], false, 5, [2, 0], .correlations, .generalized,
      some (.single [3, 3, 4, 5]), none⟩ = .ok [3, 3, 2, 4, 4, 5] ∧
    integrandShape ⟨[3, 5], false, 5, [2, 0], .total, .fidelity, some (.single [3, 4, 5]), none⟩
      = .error .valueError ∧
    integrandShape ⟨[5], false, 5, [3, 0], .total, .fidelity, none, some [3, 3, 5]⟩
      = .error .indexError ∧
    integrandShape ⟨[4], false, 4, [1], .total, .generalized, none, some [3, 3, 4, 4, 5]⟩
      = .error .valueError := by
  decide

/-- **Neither source given**: always an exception, but a `ValueError` only by accident —
`AxisError` (a `ValueError` and an `IndexError`) from `np.moveaxis(None, …)` for `'generalized'`;
for `'fidelity'` the `ValueError` of `parse_spectrum` if the spectrum is bad, else
`UnboundLocalError` (`ctrl_left` was never assigned). -/
theorem integrand_neither_source (wp : IntegrandShape.WhichPulse) (wf : IntegrandShape.WhichFF)
    (sh : List Nat) (herm : Bool) (nΩ : Nat) (idx : List Nat) :
    integrandShape ⟨sh, herm, nΩ, idx, wp, wf, none, none⟩
      = match wf with
        | .generalized => .error .axisError
        | .fidelity =>
          match Validate.parseSpectrum sh idx.length nΩ herm with
          | .error _ => .error .valueError
          | .ok _ => .error .unboundLocalError :=
  integrandShape_neither wp wf sh herm nΩ idx

/-- **Both sources given: NOT rejected.**  The filter-function branch is taken
(`if filter_function is not None`), the control matrix is ignored; for `'fidelity'` the result is
that of the filter function alone (any shapes). -/
theorem integrand_both_sources_fidelity (wp : IntegrandShape.WhichPulse) (sh : List Nat)
    (herm : Bool) (nΩ : Nat) (idx : List Nat) (c : CM) (f : List Nat) :
    integrandShape ⟨sh, herm, nΩ, idx, wp, .fidelity, some c, some f⟩
      = integrandShape ⟨sh, herm, nΩ, idx, wp, .fidelity, none, some f⟩ :=
  integrandShape_both_fidelity wp sh herm nΩ idx c f

/-- … and for `'generalized'` the `np.moveaxis` of the head is SKIPPED (it sits in the `else` of
`if control_matrix is not None`), so `[..., idx, idx, :]` indexes the two BASIS axes: no exception,
an array of the undocumented shape `(m, n_nops, n_nops, n_omega)` (here `(2, 3, 3, 5)` instead of
`(2, 4, 4, 5)`; the real function returns exactly this, see REPORT.md). -/
example :
    integrandShape ⟨[5], false, 5, [2, 0], .total, .generalized, some (.single [3, 4, 5]),
      some [3, 3, 4, 4, 5]⟩ = .ok [2, 3, 3, 5] ∧
    integrandShape ⟨[5], false, 5, [2, 0], .total, .generalized, none,
      some [3, 3, 4, 4, 5]⟩ = .ok [2, 4, 4, 5] := by
  decide

/-- the einsum strings of the shape model are the generated ones (the literal strings of the
source) -/
theorem einsum_strings :
    subscripts12 .correlations .fidelity = "g...ko,...o,h...ko->gh...o" ∧
    subscripts12 .correlations .generalized = "g...ko,...o,h...lo->gh...klo" ∧
    subscripts12 .total .fidelity = "...ko,...o,...ko->...o" ∧
    subscripts12 .total .generalized = "...ko,...o,...lo->...klo" ∧
    subscripts3 .correlations .fidelity = "gako,abo,hbko->ghabo" ∧
    subscripts3 .correlations .generalized = "gako,abo,hblo->ghabklo" ∧
    subscripts3 .total .fidelity = "ako,abo,bko->abo" ∧
    subscripts3 .total .generalized = "ako,abo,blo->abklo" :=
  ⟨rfl, rfl, rfl, rfl, rfl, rfl, rfl, rfl⟩

end shapes

end FFVerif.C08Integrand
