/-
C19 (finite width) — "For finite-width π pulses the numerical filter function converges to these
expressions as the pulse width goes to zero."

Objects: the control-matrix model `Model.controlMatrixFromScratch` (model of
`numeric.calculate_control_matrix_from_scratch`, property C01) and `Model.filterFunctionFid`
evaluated on
  (W) the finite-width pulse `WidthAux.FiniteWidth n w θ …`: `2n + 1` segments, free evolution
      (`H = 0`) interleaved with `n` rectangular π pulses `H = (π/w) σ_x/2` of width `w`; noise
      operator `σ_z/2` with CONSTANT sensitivity `1`; `eigvals`/`eigvecs` any `eigh` output
      satisfying the contract `C02.IsEigh`, cumulative propagators as the model computes them;
  (I) the sign-flip pulse of `C19Engine` (`NoControl`, `SignSequence δ (-1)^j τ`).
Placement of the pulses: the `j`-th flip time `θ_j = δ_j τ` lies anywhere inside the `j`-th pulse
(centred pulses — the physical choice —, pulses starting or ending at the flip times are covered).

Chain proved here (exact arithmetic, ℝ/ℂ):
  `cm_toggling_frame`      any dimension: segments with zero eigenvalues on which `Q†BQ = ε_g B`
                           contribute `tr(B C_k) ε_g s_g e^{iωt_g} I(ω, dt_g)`; the other segments at
                           most `|s_g| dt_g ‖B‖_F ‖C_k‖_F`
  `cm_finite_width_free`   (W): `|B_w − tr(BC_k) Σ_j (-1)^j ∫_{free j} e^{iωu} du| ≤ n w ‖B‖_F ‖C_k‖_F`
  `cm_finite_width`        `|B_w(ω) − B_ideal(ω)| ≤ n w (|tr(B C_k)| + ‖B‖_F ‖C_k‖_F)`
                           — the constant does not depend on `ω` or `τ`
  `ff_finite_width`        `|ω² F_w(ω) − ω² F_ideal(ω)|` explicit `O(w)` bound
  `finite_width_tendsto`   `ω² F_w(ω) → Spec.ddF n δ (ωτ)` as `w → 0⁺`
  `finite_width_tendsto_se / _pdd / _cpmg / _udd`  the shipped closed forms of `analytic.py`.
Helper lemmas: FFVerif/Lemmas/WidthAux.lean.
-/
import Mathlib.Topology.Algebra.Order.LiminfLimsup
import FFVerif.Lemmas.WidthAux
import FFVerif.Props.C01Bound
import FFVerif.Props.C19Engine

namespace FFVerif.C19
open FFVerif FFVerif.Model FFVerif.EngineAux FFVerif.BoundAux FFVerif.WidthAux Complex Matrix

/-! ### 1. toggling frame, any dimension -/

section general
variable {nG d nO nA nK : Nat}
  (eigvals : Mat ℝ nG d) (eigvecs props : Vector (Mat ℂ d d) nG)
  (omega : Vec ℝ nO) (basis : Vector (Mat ℂ d d) nK) (nOpers : Vector (Mat ℂ d d) nA)
  (nCoeffs : Mat ℝ nA nG) (dt t : Vec ℝ nG) (a : Fin nA) (k : Fin nK) (o : Fin nO)

/-- **Toggling-frame decomposition of the control matrix** (any dimension, any guard with
`thr ≥ 0`, both branches of `_first_order_integral`).  Let `P` be a set of segments ("pulses").
If on every segment `g ∉ P` the eigenvalues are `0` (free evolution), the eigenvector matrix is
unitary and the noise operator in the frame of the cumulative propagator is a multiple of itself,
`Q_g† B_a Q_g = ε_g B_a`, and on the segments in `P` eigenvector matrices and propagators are unitary
and `dt_g ≥ 0`, then

  `|B_ak(ω) − tr(B_a C_k) Σ_{g∉P} ε_g s_g e^{iωt_g} I(ω, dt_g)| ≤ (Σ_{g∈P} |s_g| dt_g) ‖B_a‖_F ‖C_k‖_F`

with `I(ω, dt)` the scalar written by `_first_order_integral` and `‖·‖_F` the Frobenius norm. -/
theorem cm_toggling_frame (kind : MaskKind) (thr : ℝ) (hthr : 0 ≤ thr)
    (P : Finset (Fin nG)) (ε : Fin nG → ℂ)
    (hfree0 : ∀ g ∉ P, ∀ m : Fin d, eigvals[g][m] = 0)
    (hfreeV : ∀ g ∉ P, eigvecs[g].toMatrix * (eigvecs[g].toMatrix)ᴴ = 1)
    (hfreeQ : ∀ g ∉ P, (props[g].toMatrix)ᴴ * nOpers[a].toMatrix * props[g].toMatrix
        = ε g • nOpers[a].toMatrix)
    (hPV : ∀ g ∈ P, (eigvecs[g].toMatrix)ᴴ * eigvecs[g].toMatrix = 1)
    (hPQ : ∀ g ∈ P, (props[g].toMatrix)ᴴ * props[g].toMatrix = 1)
    (hPdt : ∀ g ∈ P, 0 ≤ dt[g]) :
    ‖(controlMatrixFromScratch kind thr eigvals eigvecs props omega basis nOpers nCoeffs dt t)[a][k][o]
      - Matrix.trace (nOpers[a].toMatrix * basis[k].toMatrix) *
          ∑ g ∈ Pᶜ, ε g * (nCoeffs[a][g] : ℂ) *
            Complex.exp (Complex.I * ((omega[o] : ℂ) * (t[g] : ℂ))) *
            (firstOrderEntry kind thr omega[o] dt[g] : ℂ)‖
      ≤ (∑ g ∈ P, |nCoeffs[a][g]| * dt[g]) * frob nOpers[a].toMatrix * frob basis[k].toMatrix := by
  rw [cm_entry_trace, cmOp, ← Finset.sum_compl_add_sum P, Matrix.add_mul, Matrix.trace_add]
  have hfree : Matrix.trace ((∑ g ∈ Pᶜ,
      (Complex.exp (Complex.I * ((omega[o] : ℂ) * (t[g] : ℂ))) * (nCoeffs[a][g] : ℂ)) •
        segOp kind thr (fun m => eigvals[g][m]) eigvecs[g].toMatrix props[g].toMatrix
          nOpers[a].toMatrix omega[o] dt[g]) * basis[k].toMatrix)
      = Matrix.trace (nOpers[a].toMatrix * basis[k].toMatrix) *
          ∑ g ∈ Pᶜ, ε g * (nCoeffs[a][g] : ℂ) *
            Complex.exp (Complex.I * ((omega[o] : ℂ) * (t[g] : ℂ))) *
            (firstOrderEntry kind thr omega[o] dt[g] : ℂ) := by
    rw [Matrix.sum_mul, Matrix.trace_sum, Finset.mul_sum]
    refine Finset.sum_congr rfl fun g hg => ?_
    have hg' : g ∉ P := Finset.mem_compl.mp hg
    rw [segOp_free kind thr _ _ _ _ _ _ (hfree0 g hg') (hfreeV g hg'), hfreeQ g hg', smul_smul,
      smul_smul, Matrix.smul_mul, Matrix.trace_smul, smul_eq_mul]
    ring
  rw [hfree, add_sub_cancel_left]
  refine (norm_trace_mul_le _ _).trans (mul_le_mul_of_nonneg_right ?_ (frob_nonneg _))
  refine (frob_sum_le _ _).trans ?_
  rw [Finset.sum_mul]
  refine Finset.sum_le_sum fun g hg => ?_
  rw [frob_smul, norm_mul, norm_expI_mul, one_mul, Complex.norm_real, Real.norm_eq_abs, mul_assoc]
  exact mul_le_mul_of_nonneg_left
    (frob_segOp_le kind thr hthr _ _ _ _ _ _ (hPdt g hg) (hPV g hg) (hPQ g hg)) (abs_nonneg _)

end general

/-! ### 2. the finite-width pulse: control matrix -/

section qubit
variable {nG nO nA nK : Nat}
  (eigvals : Mat ℝ nG 2) (eigvecs props : Vector (Mat ℂ 2 2) nG)
  (omega : Vec ℝ nO) (basis : Vector (Mat ℂ 2 2) nK) (nOpers : Vector (Mat ℂ 2 2) nA)
  (nCoeffs : Mat ℝ nA nG) (dt t : Vec ℝ nG) (a : Fin nA) (k : Fin nK) (o : Fin nO)

/-- **Control matrix of the finite-width pulse, toggling frame.**  For `n` rectangular π pulses of
width `w` (`FiniteWidth`), noise operator `σ_z/2` with constant sensitivity `1`, any basis element
`C_k`, and every frequency at which no FREE segment with `ω·dt_g ≠ 0` is in the masked branch (the
pulse segments may be in either branch):

  `|B_k(ω) − tr(B C_k) Σ_{j=0}^{n} (-1)^j ∫_{T_{2j}}^{T_{2j+1}} e^{iωu} du| ≤ n · w · ‖B‖_F ‖C_k‖_F`

(`T_g = timesFn dt g` the start time of segment `g`; the free segment `j` is `[T_{2j}, T_{2j+1}]`). -/
theorem cm_finite_width_free (n : ℕ) (w : ℝ) (θ : ℕ → ℝ)
    (hF : FiniteWidth n w θ eigvals eigvecs props dt t)
    (hB : nOpers[a].toMatrix = (1 / 2 : ℂ) • Spec.sigma 3)
    (hs : ∀ g : Fin nG, nCoeffs[a][g] = 1)
    (hmask : ∀ g : Fin nG, g.1 % 2 = 0 →
      firstOrderMask Gen.firstOrderMaskKind Gen.firstOrderMaskThr omega[o] dt[g] = true
        ∨ omega[o] * dt[g] = 0) :
    ‖(controlMatrixFromScratch Gen.firstOrderMaskKind Gen.firstOrderMaskThr eigvals eigvecs props
        omega basis nOpers nCoeffs dt t)[a][k][o]
      - Matrix.trace (nOpers[a].toMatrix * basis[k].toMatrix) *
          ∑ j ∈ Finset.range (n + 1), ((-1 : ℂ) ^ j) *
            E omega[o] (timesFn dt (2 * j)) (timesFn dt (2 * j + 1))‖
      ≤ n * w * frob nOpers[a].toMatrix * frob basis[k].toMatrix := by
  have hlen := hF.len
  subst hlen
  have hV : ∀ g : Fin (2 * n + 1), (eigvecs[g].toMatrix)ᴴ * eigvecs[g].toMatrix = 1 :=
    fun g => (hF.eigh g).left
  have hQ : ∀ g : Fin (2 * n + 1), (props[g].toMatrix)ᴴ * props[g].toMatrix = 1 := fun g => by
    rw [props_width hF g]; exact piX_pow_unitary _
  have hodd : ∀ g : Fin (2 * n + 1),
      g ∉ (Finset.univ.filter fun g : Fin (2 * n + 1) => g.1 % 2 = 1) → g.1 % 2 = 0 := by
    intro g hg
    simp only [Finset.mem_filter, Finset.mem_univ, true_and] at hg
    omega
  have h := cm_toggling_frame eigvals eigvecs props omega basis nOpers nCoeffs dt t a k o
    Gen.firstOrderMaskKind Gen.firstOrderMaskThr maskThr_nonneg
    (Finset.univ.filter fun g : Fin (2 * n + 1) => g.1 % 2 = 1) (fun g => (-1 : ℂ) ^ (g.1 / 2))
    (fun g hg m => by
      have hE := hF.eigh g
      rw [widthH_even (hodd g hg)] at hE
      exact eigvals_zero_of_eigh_zero hE m)
    (fun g _ => (hF.eigh g).right)
    (fun g _ => by rw [hB]; exact props_conj_sigmaZ hF g)
    (fun g _ => hV g) (fun g _ => hQ g) (fun g _ => hF.dur_nonneg g)
  -- the sum over the free segments
  have hfree : ∑ g ∈ (Finset.univ.filter fun g : Fin (2 * n + 1) => g.1 % 2 = 1)ᶜ,
        (-1 : ℂ) ^ (g.1 / 2) * (nCoeffs[a][g] : ℂ) *
          Complex.exp (Complex.I * ((omega[o] : ℂ) * (t[g] : ℂ))) *
          (firstOrderEntry Gen.firstOrderMaskKind Gen.firstOrderMaskThr omega[o] dt[g] : ℂ)
      = ∑ j ∈ Finset.range (n + 1), ((-1 : ℂ) ^ j) *
            E omega[o] (timesFn dt (2 * j)) (timesFn dt (2 * j + 1)) := by
    have h1 : ∀ g ∈ (Finset.univ.filter fun g : Fin (2 * n + 1) => g.1 % 2 = 1)ᶜ,
        (-1 : ℂ) ^ (g.1 / 2) * (nCoeffs[a][g] : ℂ) *
          Complex.exp (Complex.I * ((omega[o] : ℂ) * (t[g] : ℂ))) *
          (firstOrderEntry Gen.firstOrderMaskKind Gen.firstOrderMaskThr omega[o] dt[g] : ℂ)
        = (fun x : ℕ => (-1 : ℂ) ^ (x / 2) *
            E omega[o] (timesFn dt x) (timesFn dt (x + 1))) g.1 := by
      intro g hg
      have hg0 := hodd g (Finset.mem_compl.mp hg)
      have ht : t[g] = timesFn dt g.1 := by
        rw [hF.time g, timesFn_of_le dt g.1 (Nat.le_of_lt g.2)]
      have ht1 : timesFn dt (g.1 + 1) = t[g] + dt[g] := by
        rw [timesFn_succ dt g.1 g.2, ht]; rfl
      rw [firstOrderEntry_exact_or _ _ _ _ maskThr_nonneg (hmask g hg0), hs g, mul_assoc,
        expI_mul_segIntegral]
      show _ = (-1 : ℂ) ^ (g.1 / 2) * E omega[o] (timesFn dt g.1) (timesFn dt (g.1 + 1))
      rw [ht1, ← ht]
      simp
    refine (Finset.sum_congr rfl h1).trans ((sum_fin_even n (fun x : ℕ => (-1 : ℂ) ^ (x / 2) *
        E omega[o] (timesFn dt x) (timesFn dt (x + 1)))).trans ?_)
    refine Finset.sum_congr rfl fun j _ => ?_
    simp
  -- the total duration of the pulse segments
  have hpulse : ∑ g ∈ Finset.univ.filter fun g : Fin (2 * n + 1) => g.1 % 2 = 1,
        |nCoeffs[a][g]| * dt[g] = n * w := by
    have h1 : ∀ g ∈ Finset.univ.filter fun g : Fin (2 * n + 1) => g.1 % 2 = 1,
        |nCoeffs[a][g]| * dt[g] = (fun _ : ℕ => w) g.1 := by
      intro g hg
      simp only [Finset.mem_filter, Finset.mem_univ, true_and] at hg
      rw [hs g, hF.pulse_dur g hg]
      simp
    refine (Finset.sum_congr rfl h1).trans ((sum_fin_odd n (fun _ : ℕ => w)).trans ?_)
    rw [Finset.sum_const, Finset.card_range, nsmul_eq_mul]
  rw [hfree, hpulse] at h
  exact h

end qubit

/-! ### 3. finite-width pulse versus sign-flip pulse -/

section compare
variable {nG nG' nO nA nA' nK : Nat}
  -- the finite-width pulse
  (eigvals : Mat ℝ nG 2) (eigvecs props : Vector (Mat ℂ 2 2) nG)
  (nOpers : Vector (Mat ℂ 2 2) nA) (nCoeffs : Mat ℝ nA nG) (dt t : Vec ℝ nG) (a : Fin nA)
  -- the sign-flip pulse of C19Engine
  (eigvals' : Mat ℝ nG' 2) (eigvecs' props' : Vector (Mat ℂ 2 2) nG')
  (nOpers' : Vector (Mat ℂ 2 2) nA') (nCoeffs' : Mat ℝ nA' nG') (dt' t' : Vec ℝ nG') (a' : Fin nA')
  -- common
  (omega : Vec ℝ nO) (basis : Vector (Mat ℂ 2 2) nK) (k : Fin nK) (o : Fin nO)

/-- **The control matrix of the finite-width pulse is within `O(w)` of the control matrix of the
sign-flip pulse.**  (W) `n` rectangular π pulses of width `w` about `x` (`FiniteWidth`, the `j`-th
flip time `δ_j τ` anywhere inside the `j`-th pulse), noise `σ_z/2` with constant sensitivity `1`;
(I) the pulse of `C19.engine_eq_ddF`: no control, `n + 1` segments `dt_j = (δ_{j+1} − δ_j) τ`,
sensitivities `(-1)^j` on `σ_z/2`.  For every basis element `C_k` and every frequency at which no
free segment with `ω·dt ≠ 0` of either pulse is in the masked branch,

  `|B^{(w)}_k(ω) − B^{ideal}_k(ω)| ≤ n · w · (|tr(B C_k)| + ‖B‖_F ‖C_k‖_F)`,  `B = σ_z/2`.

The constant is independent of `ω`, `τ` and of the flip times: `n w |tr(B C_k)|` is the shortening
of the free periods, `n w ‖B‖_F ‖C_k‖_F` the contribution of the pulse segments (integrand bounded by
the Hilbert–Schmidt norms, either branch of `_first_order_integral`). -/
theorem cm_finite_width (n : ℕ) (w : ℝ) (δ : ℕ → ℝ) (τ : ℝ)
    (hF : FiniteWidth n w (fun j => δ j * τ) eigvals eigvecs props dt t)
    (hB : nOpers[a].toMatrix = (1 / 2 : ℂ) • Spec.sigma 3)
    (hs : ∀ g : Fin nG, nCoeffs[a][g] = 1)
    (hmask : ∀ g : Fin nG, g.1 % 2 = 0 →
      firstOrderMask Gen.firstOrderMaskKind Gen.firstOrderMaskThr omega[o] dt[g] = true
        ∨ omega[o] * dt[g] = 0)
    (hnG' : nG' = n + 1) (hN : NoControl eigvals' eigvecs' props')
    (hB' : nOpers'[a'].toMatrix = (1 / 2 : ℂ) • Spec.sigma 3)
    (hseq : SignSequence δ (fun j => (-1) ^ j) τ nCoeffs'[a'] dt' t') (hδ0 : δ 0 = 0)
    (hmask' : ∀ g : Fin nG',
      firstOrderMask Gen.firstOrderMaskKind Gen.firstOrderMaskThr omega[o] dt'[g] = true
        ∨ omega[o] * dt'[g] = 0) :
    ‖(controlMatrixFromScratch Gen.firstOrderMaskKind Gen.firstOrderMaskThr eigvals eigvecs props
        omega basis nOpers nCoeffs dt t)[a][k][o]
      - (controlMatrixFromScratch Gen.firstOrderMaskKind Gen.firstOrderMaskThr eigvals' eigvecs'
          props' omega basis nOpers' nCoeffs' dt' t')[a'][k][o]‖
      ≤ n * w * (‖Matrix.trace (nOpers[a].toMatrix * basis[k].toMatrix)‖
          + frob nOpers[a].toMatrix * frob basis[k].toMatrix) := by
  subst hnG'
  have h1 := cm_finite_width_free eigvals eigvecs props omega basis nOpers nCoeffs dt t a k o n w _
    hF hB hs hmask
  have h2 : (controlMatrixFromScratch Gen.firstOrderMaskKind Gen.firstOrderMaskThr eigvals' eigvecs'
          props' omega basis nOpers' nCoeffs' dt' t')[a'][k][o]
      = Matrix.trace (nOpers[a].toMatrix * basis[k].toMatrix) *
          ∑ j ∈ Finset.range (n + 1), ((-1 : ℂ) ^ j) * E omega[o] (δ j * τ) (δ (j + 1) * τ) := by
    rw [cm_no_control eigvals' eigvecs' props' omega basis nOpers' nCoeffs' dt' t' a' k o hN hmask',
      hB', hB]
    congr 1
    refine (sensInt_signSequence hseq hδ0 omega[o]).trans ?_
    refine Finset.sum_congr rfl fun j _ => ?_
    push_cast
    rfl
  have h3 := finiteWidth_timing hF omega[o]
  rw [h2]
  set X := (controlMatrixFromScratch Gen.firstOrderMaskKind Gen.firstOrderMaskThr eigvals eigvecs
    props omega basis nOpers nCoeffs dt t)[a][k][o] with hX
  set c := Matrix.trace (nOpers[a].toMatrix * basis[k].toMatrix) with hc
  set S1 := ∑ j ∈ Finset.range (n + 1), ((-1 : ℂ) ^ j) *
    E omega[o] (timesFn dt (2 * j)) (timesFn dt (2 * j + 1)) with hS1
  set S2 := ∑ j ∈ Finset.range (n + 1), ((-1 : ℂ) ^ j) * E omega[o] (δ j * τ) (δ (j + 1) * τ)
    with hS2
  have h4 : X - c * S2 = (X - c * S1) + c * (S1 - S2) := by ring
  rw [h4]
  refine (norm_add_le _ _).trans ?_
  rw [norm_mul]
  have h5 : ‖c‖ * ‖S1 - S2‖ ≤ ‖c‖ * (n * w) := mul_le_mul_of_nonneg_left h3 (norm_nonneg _)
  calc ‖X - c * S1‖ + ‖c‖ * ‖S1 - S2‖
      ≤ n * w * frob nOpers[a].toMatrix * frob basis[k].toMatrix + ‖c‖ * (n * w) :=
        add_le_add h1 h5
    _ = n * w * (‖c‖ + frob nOpers[a].toMatrix * frob basis[k].toMatrix) := by ring

end compare

/-! ### 4. the limit `w → 0⁺` -/

section limit
open Filter Topology
variable {nG nO nA : Nat}
  (eigvals : ℝ → Mat ℝ nG 2) (eigvecs props : ℝ → Vector (Mat ℂ 2 2) nG)
  (nOpers : Vector (Mat ℂ 2 2) nA) (nCoeffs : Mat ℝ nA nG) (dt t : ℝ → Vec ℝ nG) (a : Fin nA)
  (omega : Vec ℝ nO) (o : Fin nO)

/-- `ω² F_w(ω)`: the fidelity filter function the model computes (`filterFunctionFid ∘
controlMatrixFromScratch`, guard and threshold of the source, Pauli basis `Basis.pauli(1)`) for the
`w`-dependent inputs, times `ω²` -/
noncomputable def omegaSqFF (w : ℝ) : ℂ :=
  (omega[o] : ℂ) ^ 2 *
    (filterFunctionFid (controlMatrixFromScratch Gen.firstOrderMaskKind Gen.firstOrderMaskThr
      (eigvals w) (eigvecs w) (props w) omega (pauliBasis (K := ℂ) 1) nOpers nCoeffs (dt w)
      (t w)))[a][a][o]

/-- **Finite-width π pulses: the numerical filter function converges to the sign-sequence
specification as the width goes to zero.**  Let the inputs of the model depend on the width `w`
in any way such that for all sufficiently small `w > 0` they are the finite-width pulse
`FiniteWidth n w (δ_j τ)` (any `eigh` output satisfying the contract on every segment; the `j`-th flip
time anywhere inside the `j`-th pulse) with no free segment with `ω·dt ≠ 0` in the masked branch;
noise operator `σ_z/2` with constant sensitivity `1`, Pauli basis.  If no ideal period
`(δ_{j+1} − δ_j) τ` with `ω·dt ≠ 0` is in the masked branch either, then

  `ω² F_w(ω) → Spec.ddF n δ (ωτ) = |Σ_j (-1)^j (e^{iωτδ_{j+1}} − e^{iωτδ_j})|²/2`  as `w → 0⁺`,

for every number of pulses `n`, all flip-time fractions `δ`, every `τ` and `ω`. -/
theorem finite_width_tendsto (n : ℕ) (δ : ℕ → ℝ) (τ : ℝ)
    (hF : ∀ᶠ w in 𝓝[>] (0 : ℝ),
      FiniteWidth n w (fun j => δ j * τ) (eigvals w) (eigvecs w) (props w) (dt w) (t w))
    (hB : nOpers[a].toMatrix = (1 / 2 : ℂ) • Spec.sigma 3)
    (hs : ∀ g : Fin nG, nCoeffs[a][g] = 1)
    (hmask : ∀ᶠ w in 𝓝[>] (0 : ℝ), ∀ g : Fin nG, g.1 % 2 = 0 →
      firstOrderMask Gen.firstOrderMaskKind Gen.firstOrderMaskThr omega[o] (dt w)[g] = true
        ∨ omega[o] * (dt w)[g] = 0)
    (hδ0 : δ 0 = 0)
    (hmask' : ∀ j : Fin (n + 1),
      firstOrderMask Gen.firstOrderMaskKind Gen.firstOrderMaskThr omega[o]
          ((δ (j.1 + 1) - δ j.1) * τ) = true
        ∨ omega[o] * ((δ (j.1 + 1) - δ j.1) * τ) = 0) :
    Tendsto (omegaSqFF eigvals eigvecs props nOpers nCoeffs dt t a omega o) (𝓝[>] (0 : ℝ))
      (𝓝 ((Spec.ddF n δ (omega[o] * τ) : ℝ) : ℂ)) := by
  -- the sign-flip pulse of C19Engine
  have hN := noControl_canonical (n + 1) 2
  have hseq := signSequence_canonical (n + 1) δ (fun j => (-1) ^ j) τ
  set s' : Vec ℝ (n + 1) := Vector.ofFn fun g : Fin (n + 1) => (-1 : ℝ) ^ g.1 with hs'
  set dt' : Vec ℝ (n + 1) := Vector.ofFn fun g : Fin (n + 1) => (δ (g.1 + 1) - δ g.1) * τ
    with hdt'
  set t' : Vec ℝ (n + 1) := Vector.ofFn fun g : Fin (n + 1) =>
    (times dt')[g.1]'(Nat.lt_succ_of_lt g.2) with ht'
  set nCoeffs' : Mat ℝ nA (n + 1) := Vector.ofFn fun _ : Fin nA => s' with hnC'
  have hrow : nCoeffs'[a] = s' := C01.vec_ofFn_get _ a
  have hseq' : SignSequence δ (fun j => (-1) ^ j) τ nCoeffs'[a] dt' t' := by rw [hrow]; exact hseq
  have hm' : ∀ g : Fin (n + 1),
      firstOrderMask Gen.firstOrderMaskKind Gen.firstOrderMaskThr omega[o] dt'[g] = true
        ∨ omega[o] * dt'[g] = 0 := by
    intro g
    have : dt'[g] = (δ (g.1 + 1) - δ g.1) * τ := C01.vec_ofFn_get _ g
    rw [this]
    exact hmask' g
  have hY := engine_eq_ddF _ _ _ omega nOpers nCoeffs' dt' t' a o n rfl δ τ hN hB hseq' hδ0 hm'
  rw [← hY]
  unfold omegaSqFF
  simp only [C01.ff_fidelity_def]
  refine Tendsto.const_mul _ (tendsto_ff_of_cm _ _
    (fun k => n * (‖Matrix.trace (nOpers[a].toMatrix * (pauliBasis (K := ℂ) 1)[k].toMatrix)‖
      + frob nOpers[a].toMatrix * frob (pauliBasis (K := ℂ) 1)[k].toMatrix)) ?_)
  filter_upwards [hF, hmask] with w hFw hmw k
  have h := cm_finite_width (eigvals w) (eigvecs w) (props w) nOpers nCoeffs (dt w) (t w) a
    _ _ _ nOpers nCoeffs' dt' t' a omega (pauliBasis (K := ℂ) 1) k o n w δ τ hFw hB hs hmw rfl hN hB
    hseq' hδ0 hm'
  refine h.trans (le_of_eq ?_)
  ring

/-- **The guard on the free segments of the finite-width pulse follows from the strict guard on the
ideal periods**: if every ideal period satisfies `1e-7 < |ω·dt'_j|` or `ω·dt'_j = 0`, then for all
sufficiently small `w > 0` no free segment with `ω·dt ≠ 0` of the finite-width pulse is in the
masked branch (because `dt'_j − 2w ≤ dt_{2j} ≤ dt'_j`). -/
theorem finite_width_mask_eventually (n : ℕ) (δ : ℕ → ℝ) (τ : ℝ)
    (hF : ∀ᶠ w in 𝓝[>] (0 : ℝ),
      FiniteWidth n w (fun j => δ j * τ) (eigvals w) (eigvecs w) (props w) (dt w) (t w))
    (hstrict : ∀ j : Fin (n + 1),
      1e-7 < |omega[o] * ((δ (j.1 + 1) - δ j.1) * τ)|
        ∨ omega[o] * ((δ (j.1 + 1) - δ j.1) * τ) = 0) :
    ∀ᶠ w in 𝓝[>] (0 : ℝ), ∀ g : Fin nG, g.1 % 2 = 0 →
      firstOrderMask Gen.firstOrderMaskKind Gen.firstOrderMaskThr omega[o] (dt w)[g] = true
        ∨ omega[o] * (dt w)[g] = 0 := by
  set ω := omega[o] with hω
  set d : ℕ → ℝ := fun j => (δ (j + 1) - δ j) * τ with hd
  set W : Fin (n + 1) → ℝ := fun j =>
    if 1e-7 < |ω * d j.1| then (|ω * d j.1| - 1e-7) / (2 * |ω|) else 1 with hW
  have hωpos : ∀ j : Fin (n + 1), 1e-7 < |ω * d j.1| → 0 < |ω| := by
    intro j h
    refine abs_pos.mpr ?_
    rintro h0
    rw [h0, zero_mul, abs_zero] at h
    norm_num at h
  have hWpos : ∀ j, 0 < W j := by
    intro j
    simp only [hW]
    split
    · rename_i h
      exact div_pos (sub_pos.mpr h) (mul_pos two_pos (hωpos j h))
    · exact one_pos
  have hev : ∀ᶠ w in 𝓝[>] (0 : ℝ), ∀ j, w < W j :=
    Filter.eventually_all.mpr fun j =>
      Filter.mem_of_superset (Ioo_mem_nhdsGT (hWpos j)) fun w hw => hw.2
  filter_upwards [hF, hev] with w hFw hw g hg
  have hlen := hFw.len
  have hjn : g.1 / 2 < n + 1 := by have := g.2; omega
  obtain ⟨hub, hlb⟩ := finiteWidth_free_dur hFw g hg
  have hd0 := hFw.dur_nonneg g
  have hdj : d (g.1 / 2) = δ (g.1 / 2 + 1) * τ - δ (g.1 / 2) * τ := by simp only [hd]; ring
  rw [← hdj] at hub hlb
  rcases hstrict ⟨g.1 / 2, hjn⟩ with h1 | h0
  · left
    rw [mask_current]
    have h1' : 1e-7 < |ω * d (g.1 / 2)| := h1
    have hωp := hωpos ⟨g.1 / 2, hjn⟩ h1'
    have hWj : W ⟨g.1 / 2, hjn⟩ = (|ω * d (g.1 / 2)| - 1e-7) / (2 * |ω|) := if_pos h1'
    have hwlt := hw ⟨g.1 / 2, hjn⟩
    rw [hWj, lt_div_iff₀ (mul_pos two_pos hωp)] at hwlt
    have hdpos : 0 ≤ d (g.1 / 2) := by linarith
    rw [abs_mul, abs_of_nonneg hdpos] at hwlt h1'
    rw [abs_mul, abs_of_nonneg hd0]
    have := mul_le_mul_of_nonneg_left hlb (le_of_lt hωp)
    nlinarith
  · right
    have h0' : ω * d (g.1 / 2) = 0 := h0
    rcases mul_eq_zero.mp h0' with hz | hz
    · rw [hz, zero_mul]
    · have : (dt w)[g] = 0 := le_antisymm (by linarith) hd0
      rw [this, mul_zero]

/-- **`finite_width_tendsto` with hypotheses on the ideal sequence only**: if every ideal period
satisfies the strict guard `1e-7 < |ω·(δ_{j+1} − δ_j)τ|` or `ω·(δ_{j+1} − δ_j)τ = 0`, then
`ω² F_w(ω) → Spec.ddF n δ (ωτ)` as `w → 0⁺` for every family of inputs that is eventually the
finite-width pulse. -/
theorem finite_width_tendsto_strict (n : ℕ) (δ : ℕ → ℝ) (τ : ℝ)
    (hF : ∀ᶠ w in 𝓝[>] (0 : ℝ),
      FiniteWidth n w (fun j => δ j * τ) (eigvals w) (eigvecs w) (props w) (dt w) (t w))
    (hB : nOpers[a].toMatrix = (1 / 2 : ℂ) • Spec.sigma 3)
    (hs : ∀ g : Fin nG, nCoeffs[a][g] = 1)
    (hδ0 : δ 0 = 0)
    (hstrict : ∀ j : Fin (n + 1),
      1e-7 < |omega[o] * ((δ (j.1 + 1) - δ j.1) * τ)|
        ∨ omega[o] * ((δ (j.1 + 1) - δ j.1) * τ) = 0) :
    Tendsto (omegaSqFF eigvals eigvecs props nOpers nCoeffs dt t a omega o) (𝓝[>] (0 : ℝ))
      (𝓝 ((Spec.ddF n δ (omega[o] * τ) : ℝ) : ℂ)) :=
  finite_width_tendsto eigvals eigvecs props nOpers nCoeffs dt t a omega o n δ τ hF hB hs
    (finite_width_mask_eventually eigvals eigvecs props dt t omega o n δ τ hF hstrict) hδ0
    (fun j => (hstrict j).imp (fun h => (mask_current _ _).mpr h) id)

/-! ### the shipped closed forms -/

/-- **Spin echo with a finite-width π pulse** (flip time `τ/2` inside the pulse, e.g. centred):
`ω² F_w(ω) → SE(ωτ) = 8 sin⁴(ωτ/4)` of `analytic.py` as `w → 0⁺`. -/
theorem finite_width_tendsto_se (τ : ℝ)
    (hF : ∀ᶠ w in 𝓝[>] (0 : ℝ),
      FiniteWidth 1 w (fun j => (j : ℝ) / 2 * τ) (eigvals w) (eigvecs w) (props w) (dt w) (t w))
    (hB : nOpers[a].toMatrix = (1 / 2 : ℂ) • Spec.sigma 3)
    (hs : ∀ g : Fin nG, nCoeffs[a][g] = 1)
    (hmask : ∀ᶠ w in 𝓝[>] (0 : ℝ), ∀ g : Fin nG, g.1 % 2 = 0 →
      firstOrderMask Gen.firstOrderMaskKind Gen.firstOrderMaskThr omega[o] (dt w)[g] = true
        ∨ omega[o] * (dt w)[g] = 0)
    (hmask' : ∀ j : Fin (1 + 1),
      firstOrderMask Gen.firstOrderMaskKind Gen.firstOrderMaskThr omega[o]
          ((((j.1 + 1 : ℕ) : ℝ) / 2 - (j.1 : ℝ) / 2) * τ) = true
        ∨ omega[o] * ((((j.1 + 1 : ℕ) : ℝ) / 2 - (j.1 : ℝ) / 2) * τ) = 0) :
    Tendsto (omegaSqFF eigvals eigvecs props nOpers nCoeffs dt t a omega o) (𝓝[>] (0 : ℝ))
      (𝓝 ((Model.Analytic.SE (R := ℝ) (omega[o] * τ) : ℝ) : ℂ)) := by
  have h := finite_width_tendsto eigvals eigvecs props nOpers nCoeffs dt t a omega o 1
    (fun j => (j : ℝ) / 2) τ hF hB hs hmask (by simp) hmask'
  rwa [se_closed_form] at h

/-- **PDD with finite-width π pulses**, every order `n`: `ω² F_w(ω) → PDD(ωτ, n)` of `analytic.py`
as `w → 0⁺` (away from the pole of the shipped `tan`). -/
theorem finite_width_tendsto_pdd (n : ℕ) (τ : ℝ)
    (hF : ∀ᶠ w in 𝓝[>] (0 : ℝ),
      FiniteWidth n w (fun j => Spec.pddTimes n j * τ) (eigvals w) (eigvecs w) (props w) (dt w) (t w))
    (hB : nOpers[a].toMatrix = (1 / 2 : ℂ) • Spec.sigma 3)
    (hs : ∀ g : Fin nG, nCoeffs[a][g] = 1)
    (hmask : ∀ᶠ w in 𝓝[>] (0 : ℝ), ∀ g : Fin nG, g.1 % 2 = 0 →
      firstOrderMask Gen.firstOrderMaskKind Gen.firstOrderMaskThr omega[o] (dt w)[g] = true
        ∨ omega[o] * (dt w)[g] = 0)
    (hc : Real.cos (omega[o] * τ / (2 * n + 2)) ≠ 0)
    (hmask' : ∀ j : Fin (n + 1),
      firstOrderMask Gen.firstOrderMaskKind Gen.firstOrderMaskThr omega[o]
          ((Spec.pddTimes n (j.1 + 1) - Spec.pddTimes n j.1) * τ) = true
        ∨ omega[o] * ((Spec.pddTimes n (j.1 + 1) - Spec.pddTimes n j.1) * τ) = 0) :
    Tendsto (omegaSqFF eigvals eigvecs props nOpers nCoeffs dt t a omega o) (𝓝[>] (0 : ℝ))
      (𝓝 ((Model.Analytic.PDD (R := ℝ) (omega[o] * τ) n : ℝ) : ℂ)) := by
  have h := finite_width_tendsto eigvals eigvecs props nOpers nCoeffs dt t a omega o n
    (Spec.pddTimes n) τ hF hB hs hmask (by simp [Spec.pddTimes]) hmask'
  rwa [pdd_closed_form n _ hc] at h

/-- **CPMG with finite-width π pulses**, every order `n ≥ 1`: `ω² F_w(ω) → CPMG(ωτ, n)` of
`analytic.py` as `w → 0⁺` (away from the zero of the shipped denominator). -/
theorem finite_width_tendsto_cpmg (n : ℕ) (hn : 1 ≤ n) (τ : ℝ)
    (hF : ∀ᶠ w in 𝓝[>] (0 : ℝ),
      FiniteWidth n w (fun j => Spec.cpmgTimes n j * τ) (eigvals w) (eigvecs w) (props w) (dt w) (t w))
    (hB : nOpers[a].toMatrix = (1 / 2 : ℂ) • Spec.sigma 3)
    (hs : ∀ g : Fin nG, nCoeffs[a][g] = 1)
    (hmask : ∀ᶠ w in 𝓝[>] (0 : ℝ), ∀ g : Fin nG, g.1 % 2 = 0 →
      firstOrderMask Gen.firstOrderMaskKind Gen.firstOrderMaskThr omega[o] (dt w)[g] = true
        ∨ omega[o] * (dt w)[g] = 0)
    (hc : Real.cos (omega[o] * τ / (2 * n)) ≠ 0)
    (hmask' : ∀ j : Fin (n + 1),
      firstOrderMask Gen.firstOrderMaskKind Gen.firstOrderMaskThr omega[o]
          ((Spec.cpmgTimes n (j.1 + 1) - Spec.cpmgTimes n j.1) * τ) = true
        ∨ omega[o] * ((Spec.cpmgTimes n (j.1 + 1) - Spec.cpmgTimes n j.1) * τ) = 0) :
    Tendsto (omegaSqFF eigvals eigvecs props nOpers nCoeffs dt t a omega o) (𝓝[>] (0 : ℝ))
      (𝓝 ((Model.Analytic.CPMG (R := ℝ) (omega[o] * τ) n : ℝ) : ℂ)) := by
  have h := finite_width_tendsto eigvals eigvecs props nOpers nCoeffs dt t a omega o n
    (Spec.cpmgTimes n) τ hF hB hs hmask (by simp [Spec.cpmgTimes]) hmask'
  rwa [cpmg_closed_form n _ hn hc] at h

/-- **UDD with finite-width π pulses**, every order `n`: `ω² F_w(ω) → UDD(ωτ, n)` of `analytic.py`
as `w → 0⁺`. -/
theorem finite_width_tendsto_udd (n : ℕ) (τ : ℝ)
    (hF : ∀ᶠ w in 𝓝[>] (0 : ℝ),
      FiniteWidth n w (fun j => Spec.uddTimes n j * τ) (eigvals w) (eigvecs w) (props w) (dt w) (t w))
    (hB : nOpers[a].toMatrix = (1 / 2 : ℂ) • Spec.sigma 3)
    (hs : ∀ g : Fin nG, nCoeffs[a][g] = 1)
    (hmask : ∀ᶠ w in 𝓝[>] (0 : ℝ), ∀ g : Fin nG, g.1 % 2 = 0 →
      firstOrderMask Gen.firstOrderMaskKind Gen.firstOrderMaskThr omega[o] (dt w)[g] = true
        ∨ omega[o] * (dt w)[g] = 0)
    (hmask' : ∀ j : Fin (n + 1),
      firstOrderMask Gen.firstOrderMaskKind Gen.firstOrderMaskThr omega[o]
          ((Spec.uddTimes n (j.1 + 1) - Spec.uddTimes n j.1) * τ) = true
        ∨ omega[o] * ((Spec.uddTimes n (j.1 + 1) - Spec.uddTimes n j.1) * τ) = 0) :
    Tendsto (omegaSqFF eigvals eigvecs props nOpers nCoeffs dt t a omega o) (𝓝[>] (0 : ℝ))
      (𝓝 ((Model.Analytic.UDD (R := ℝ) (K := ℂ) (omega[o] * τ) n : ℝ) : ℂ)) := by
  have h := finite_width_tendsto eigvals eigvecs props nOpers nCoeffs dt t a omega o n
    (Spec.uddTimes n) τ hF hB hs hmask (by simp [Spec.uddTimes]) hmask'
  rwa [udd_closed_form] at h

end limit

/-! ### 5. non-vacuity: a spin echo with one centred π pulse of width `w` (`τ = 1`, `ω = 3`) -/

section example_se
open Filter Topology

theorem sew_mask (w : ℝ) (hw1 : w ≤ 1 / 2) : ∀ g : Fin 3, g.1 % 2 = 0 →
    firstOrderMask Gen.firstOrderMaskKind Gen.firstOrderMaskThr SE.omega[(0 : Fin 1)] (SEW.dt w)[g]
      = true ∨ SE.omega[(0 : Fin 1)] * (SEW.dt w)[g] = 0 := by
  intro g hg
  left
  rw [mask_current]
  have h3 : SE.omega[(0 : Fin 1)] = 3 := by simp [SE.omega]
  have hd : (SEW.dt w)[g] = 1 / 2 - w / 2 := by
    fin_cases g
    · simp [SEW.dt]
    · simp at hg
    · simp [SEW.dt]
  rw [h3, hd, abs_of_nonneg (by linarith)]
  linarith

theorem sew_coeffs : ∀ g : Fin 3, SEW.coeffs[(0 : Fin 1)][g] = 1 := by
  intro g
  fin_cases g <;> simp [SEW.coeffs]

/-- the data `WidthAux.SEW.*` (three segments `1/2 − w/2, w, 1/2 − w/2`; Hamiltonians
`0, (π/w)σ_x/2, 0`; an explicit `eigh` output; noise `σ_z/2` with sensitivity `1`; `ω = 3`) satisfy,
for every width `0 < w ≤ 1/2`, all hypotheses of `cm_finite_width_free` and — together with the
sign-flip spin echo `EngineAux.SE.*` (`n = 1`, `δ_j = j/2`, `τ = 1`) — of `cm_finite_width` -/
example (w : ℝ) (hw0 : 0 < w) (hw1 : w ≤ 1 / 2) :
    FiniteWidth 1 w (fun j => (j : ℝ) / 2 * 1) (SEW.eigvals w) SEW.eigvecs (SEW.props w) (SEW.dt w)
      (SEW.t w)
    ∧ SE.noise[(0 : Fin 1)].toMatrix = (1 / 2 : ℂ) • Spec.sigma 3
    ∧ (∀ g : Fin 3, SEW.coeffs[(0 : Fin 1)][g] = 1)
    ∧ (∀ g : Fin 3, g.1 % 2 = 0 →
        firstOrderMask Gen.firstOrderMaskKind Gen.firstOrderMaskThr SE.omega[(0 : Fin 1)]
          (SEW.dt w)[g] = true ∨ SE.omega[(0 : Fin 1)] * (SEW.dt w)[g] = 0)
    ∧ NoControl SE.eigvals SE.ident SE.ident
    ∧ SignSequence (fun j => (j : ℝ) / 2) (fun j => (-1) ^ j) 1 SE.coeffs[(0 : Fin 1)] SE.dt SE.t
    ∧ (∀ g : Fin 2, firstOrderMask Gen.firstOrderMaskKind Gen.firstOrderMaskThr
        SE.omega[(0 : Fin 1)] SE.dt[g] = true ∨ SE.omega[(0 : Fin 1)] * SE.dt[g] = 0) :=
  ⟨SEW.finiteWidth w hw0 (by linarith), SE.noise_eq, sew_coeffs, sew_mask w hw1, SE.noControl,
    SE.seq, se_example_mask⟩

/-- … hence the model's control matrix of the spin echo with a π pulse of width `w` is within
`w · (|tr(BC_k)| + ‖B‖_F‖C_k‖_F)` of the model's control matrix of the ideal spin echo (every Pauli
basis element, `ω = 3`, every `0 < w ≤ 1/2`) -/
theorem se_width_example (w : ℝ) (hw0 : 0 < w) (hw1 : w ≤ 1 / 2) (k : Fin (4 ^ 1)) :
    ‖(controlMatrixFromScratch Gen.firstOrderMaskKind Gen.firstOrderMaskThr (SEW.eigvals w)
        SEW.eigvecs (SEW.props w) SE.omega (pauliBasis (K := ℂ) 1) SE.noise SEW.coeffs (SEW.dt w)
        (SEW.t w))[(0 : Fin 1)][k][(0 : Fin 1)]
      - (controlMatrixFromScratch Gen.firstOrderMaskKind Gen.firstOrderMaskThr SE.eigvals SE.ident
          SE.ident SE.omega (pauliBasis (K := ℂ) 1) SE.noise SE.coeffs SE.dt
          SE.t)[(0 : Fin 1)][k][(0 : Fin 1)]‖
      ≤ (1 : ℕ) * w * (‖Matrix.trace (SE.noise[(0 : Fin 1)].toMatrix *
            (pauliBasis (K := ℂ) 1)[k].toMatrix)‖
          + frob SE.noise[(0 : Fin 1)].toMatrix * frob (pauliBasis (K := ℂ) 1)[k].toMatrix) :=
  cm_finite_width (SEW.eigvals w) SEW.eigvecs (SEW.props w) SE.noise SEW.coeffs (SEW.dt w) (SEW.t w)
    0 SE.eigvals SE.ident SE.ident SE.noise SE.coeffs SE.dt SE.t 0 SE.omega (pauliBasis (K := ℂ) 1)
    k 0 1 w (fun j => (j : ℝ) / 2) 1 (SEW.finiteWidth w hw0 (by linarith)) SE.noise_eq sew_coeffs
    (sew_mask w hw1) rfl SE.noControl SE.noise_eq SE.seq (by simp) se_example_mask

/-- … and the filter function of this concrete finite-width spin echo, times `ω²`, tends to the
shipped `SE(ω · 1)` as `w → 0⁺` (all hypotheses of `finite_width_tendsto_se` are met) -/
theorem se_width_tendsto_example :
    Tendsto (omegaSqFF SEW.eigvals (fun _ => SEW.eigvecs) SEW.props SE.noise SEW.coeffs SEW.dt SEW.t
        (0 : Fin 1) SE.omega (0 : Fin 1)) (𝓝[>] (0 : ℝ))
      (𝓝 ((Model.Analytic.SE (R := ℝ) (SE.omega[(0 : Fin 1)] * 1) : ℝ) : ℂ)) := by
  have hI : Set.Ioo (0 : ℝ) (1 / 2) ∈ 𝓝[>] (0 : ℝ) := Ioo_mem_nhdsGT (by norm_num)
  refine finite_width_tendsto_se SEW.eigvals (fun _ => SEW.eigvecs) SEW.props SE.noise SEW.coeffs
    SEW.dt SEW.t 0 SE.omega 0 1 ?_ SE.noise_eq sew_coeffs ?_ ?_
  · filter_upwards [hI] with w hw
    exact SEW.finiteWidth w hw.1 (by linarith [hw.2])
  · filter_upwards [hI] with w hw
    exact sew_mask w (le_of_lt hw.2)
  · intro j
    left
    rw [mask_current]
    have h3 : SE.omega[(0 : Fin 1)] = 3 := by simp [SE.omega]
    rw [h3]
    fin_cases j <;> norm_num

end example_se

end FFVerif.C19
