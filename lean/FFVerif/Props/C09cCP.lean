/-
C09 (continued) — the first-order cumulant function is conditionally completely positive (cCP);
Lindblad generators are cCP (needed by C15); second-order terms only add a unitary part.

All statements are about the executable model of `superoperator.liouville_is_cCP`
(`Model.projectedChoi S C` is the argument `Q @ choi @ Q` of `nla.eigh`, `Model.cpTestAfterEigh` the
verdict as a function of the eigenvalues the oracle returns) in the index conventions of
`liouville_to_choi` (`FFVerif.C15.choi_entries`).  `eigh` is an oracle: what is used of it is
`IsEigvals` (every returned number is an eigenvalue of the matrix it was given).

* `choi_of_linear_map` — for a complete basis, `liouville_to_choi` of `S_ij = tr(C_i Φ(C_j))` has the
  entry `Φ(E_ab)_{ce}` at row `(a, c)`, column `(b, e)`.
* `gks_generator_cCP` — `Φ(ρ) = Σ_kl W_kl A_k ρ A_l† + G ρ + ρ G'` with `W ⪰ 0` has a
  positive-semidefinite projected Choi matrix (any `A_k`, `G`, `G'`).
* `lindblad_generator_cCP`, `lindblad_cCP_verdict` — Lindblad generators.
* `cumulant_first_order_cCP`, `cumulant_first_order_cCP_verdict` — the model's
  `K = cumulantGeneral Γ none` for a Hermitian positive-semidefinite `Γ`.
* `second_order_unitary_part`, `second_order_projected_choi_zero`, `second_order_same_projected_choi`,
  `cumulant_second_order_cCP` — the second-order contribution is `ρ ↦ -i[H, ρ]`, `H` Hermitian, and
  does not change the projected Choi matrix.
* `cCP_necessary_transition_rates`, `cCP_test_rejects_negative_rate`, `negative_rate_not_cCP`,
  `cumulant_nonpsd_not_cCP` — the test rejects generators with a negative transition rate (verdict
  `False` under the full `eigh` contract `C02.IsEigh`); a non-PSD `Γ` whose `K` is not cCP.
* `isEigvals_of_isEigh`, `exists_eigenvalue_le_diag`, `verdict_false_of_diag` — full contract.
Property theorems only (helper lemmas: FFVerif/Lemmas/C09cCPAux.lean).
-/
import FFVerif.Props.C09
import FFVerif.Props.C02
import FFVerif.Lemmas.C09cCPAux

namespace FFVerif.C09
open FFVerif Matrix
open scoped ComplexOrder

variable {N d : Nat}

/-! ### The `eigh` oracle and the verdict -/

/-- what the theorems use of `nla.eigh(M)`: every returned number `D_i` is an eigenvalue of `M`
(there is a non-zero `v` with `M v = D_i v`).  The full contract of `eigh` (`M V = V diag D`, `V`
unitary, ascending order) implies it. -/
def IsEigvals {n : Nat} (M : Matrix (Fin n) (Fin n) ℂ) (D : Vec ℝ n) : Prop :=
  ∀ i : Fin n, ∃ v : Fin n → ℂ, v ≠ 0 ∧ M *ᵥ v = ((D[i] : ℝ) : ℂ) • v

/-- **A positive-semidefinite matrix passes the test**: if the matrix handed to `eigh` is positive
semidefinite and `D` are eigenvalues of it, then `(D >= -atol).all()` is `True` for the default
tolerance (`atol = None`, any `basis._atol ≥ 0`) and for every explicit `atol ≥ 0`. -/
theorem verdict_of_posSemidef {n : Nat} (M : Matrix (Fin n) (Fin n) ℂ) (hM : M.PosSemidef)
    (D : Vec ℝ n) (hD : IsEigvals M D) (basisAtol : ℝ) (hb : 0 ≤ basisAtol) (atol : Option ℝ)
    (ha : ∀ a, atol = some a → 0 ≤ a) :
    Model.cpTestAfterEigh basisAtol atol D = true := by
  have hnn : ∀ i : Fin n, 0 ≤ D[i] := by
    intro i
    obtain ⟨v, hv, h⟩ := hD i
    exact Spec.eigenvalue_nonneg_of_posSemidef hM v hv _ h
  have key : ∀ a : ℝ, 0 ≤ a → Model.cpVerdictB D a = true := by
    intro a ha'
    rw [Model.cpVerdictB_iff]
    intro i
    exact le_trans (neg_nonpos.mpr ha') (hnn i)
  cases atol with
  | none => exact key _ (Model.defaultAtol_nonneg basisAtol hb D)
  | some a => exact key a (ha a rfl)

/-- a negative eigenvalue below `-atol` makes the verdict `False` (explicit tolerance) -/
theorem verdict_false_of_eigenvalue {n : Nat} (D : Vec ℝ n) (basisAtol a : ℝ) (i : Fin n)
    (h : D[i] < -a) : Model.cpTestAfterEigh basisAtol (some a) D = false := by
  rw [Bool.eq_false_iff]
  intro hv
  have := (Model.cpVerdictB_iff D a).mp hv i
  exact absurd this (not_le.mpr h)

/-- the full contract of `eigh` (`FFVerif.C02.IsEigh`: `M V = V diag(D)`, `V` unitary) implies the
part `IsEigvals` used by the positive results -/
theorem isEigvals_of_isEigh {n : Nat} (M : Matrix (Fin n) (Fin n) ℂ) (D : Vec ℝ n)
    (V : Matrix (Fin n) (Fin n) ℂ) (h : C02.IsEigh M (fun i => D[i]) V) : IsEigvals M D := by
  intro i
  refine ⟨fun r => V r i, ?_, ?_⟩
  · intro h0
    have h1 := congrFun (congrFun h.left i) i
    rw [Matrix.mul_apply, Matrix.one_apply_eq] at h1
    have h2 : ∀ r, V r i = 0 := fun r => congrFun h0 r
    simp only [h2, mul_zero, Finset.sum_const_zero] at h1
    exact zero_ne_one h1
  · funext r
    have h1 := congrFun (congrFun h.eig r) i
    rw [Matrix.mul_apply, Matrix.mul_diagonal] at h1
    rw [Matrix.mulVec, dotProduct, h1, Pi.smul_apply, smul_eq_mul, mul_comm]

/-- under the full `eigh` contract some returned eigenvalue is at most any given diagonal entry of
the matrix (`M_rr = Σ_i D_i |V_ri|²` is a convex combination of the eigenvalues) -/
theorem exists_eigenvalue_le_diag {n : Nat} {M : Matrix (Fin n) (Fin n) ℂ} {D : Fin n → ℝ}
    {V : Matrix (Fin n) (Fin n) ℂ} (h : C02.IsEigh M D V) (r : Fin n) :
    ∃ i, D i ≤ (M r r).re := by
  by_contra hcon
  simp only [not_exists, not_le] at hcon
  have hM : (M r r).re = ∑ i, D i * Complex.normSq (V r i) := by
    have h1 := congrFun (congrFun h.spectral r) r
    rw [h1, Matrix.mul_apply, Complex.re_sum]
    refine Finset.sum_congr rfl fun i _ => ?_
    rw [Matrix.mul_diagonal, Matrix.conjTranspose_apply, Complex.star_def, mul_assoc,
      mul_comm (D i : ℂ), ← mul_assoc, Complex.mul_conj, ← Complex.ofReal_mul, Complex.ofReal_re,
      mul_comm]
  have hw : ∑ i, Complex.normSq (V r i) = 1 := by
    have h1 := congrFun (congrFun h.right r) r
    rw [Matrix.mul_apply, Matrix.one_apply_eq] at h1
    simp only [Matrix.conjTranspose_apply, Complex.star_def, Complex.mul_conj] at h1
    exact_mod_cast h1
  have hz : ∑ i, (D i - (M r r).re) * Complex.normSq (V r i) = 0 := by
    simp only [sub_mul, Finset.sum_sub_distrib, ← Finset.mul_sum, hw, ← hM]
    ring
  have hall := (Finset.sum_eq_zero_iff_of_nonneg fun i _ =>
    mul_nonneg (sub_nonneg.mpr (hcon i).le) (Complex.normSq_nonneg _)).mp hz
  have h0 : ∀ i, Complex.normSq (V r i) = 0 := by
    intro i
    rcases mul_eq_zero.mp (hall i (Finset.mem_univ i)) with h1 | h1
    · exact absurd h1 (sub_pos.mpr (hcon i)).ne'
    · exact h1
  simp only [h0, Finset.sum_const_zero] at hw
  exact zero_ne_one hw

/-- **A diagonal entry below `-atol` makes the verdict `False`** under the full `eigh` contract
(explicit tolerance). -/
theorem verdict_false_of_diag {n : Nat} (M : Matrix (Fin n) (Fin n) ℂ) (D : Vec ℝ n)
    (V : Matrix (Fin n) (Fin n) ℂ) (h : C02.IsEigh M (fun i => D[i]) V) (r : Fin n)
    (basisAtol a : ℝ) (hr : (M r r).re < -a) :
    Model.cpTestAfterEigh basisAtol (some a) D = false := by
  obtain ⟨i, hi⟩ := exists_eigenvalue_le_diag h r
  exact verdict_false_of_eigenvalue D basisAtol a i (lt_of_le_of_lt hi hr)

/-! ### Choi matrix of a linear map -/

/-- **`liouville_to_choi` computes the Choi matrix `Σ_ab E_ab ⊗ Φ(E_ab)`**: for a complete basis
(Hermitian or not) and a linear map `Φ` with Liouville matrix `S_ij = tr(C_i Φ(C_j))`, the entry at
row `(a, c)`, column `(b, e)` is `Φ(E_ab)_{ce}`. -/
theorem choi_of_linear_map (C : Vector (Mat ℂ d d) N) (hC : Spec.IsComplete (Spec.basisOf C))
    (Φ : Matrix (Fin d) (Fin d) ℂ →ₗ[ℂ] Matrix (Fin d) (Fin d) ℂ) (S : Mat ℂ N N)
    (hS : ∀ i j : Fin N, S[i][j] = trace (Spec.basisOf C i * Φ (Spec.basisOf C j)))
    (a c b e : Fin d) :
    (Model.liouvilleToChoi S C)[Fin.flat a c][Fin.flat b e] = Φ (Matrix.single a b 1) c e := by
  have h := congrFun (congrFun (Model.liouvilleToChoi_of_liouFun C hC Φ S hS) (Fin.flat a c))
    (Fin.flat b e)
  rw [Mat.toMatrix_apply] at h
  rw [h, Spec.choiMap]
  simp only [Fin.hi_flat, Fin.lo_flat]

/-! ### Generators in Gorini–Kossakowski–Sudarshan / Lindblad form -/

/-- **Generators in GKS form are cCP.**  For every complete basis `C` (any `d`, `N`), every
positive-semidefinite weight matrix `W` (`M × M`), arbitrary operators `A_1 … A_M`, `G`, `G'`: if
`S` is the Liouville matrix of `Φ(ρ) = Σ_kl W_kl A_k ρ A_l† + G ρ + ρ G'`, then the matrix
`Q @ choi @ Q` that `liouville_is_cCP` hands to `eigh` is positive semidefinite (it equals
`(Q V) W (Q V)†`, `V` the matrix with columns `|A_k⟫`; the `G`-terms are `|G⟫⟨⟨1| + |1⟫⟨⟨G'†|`,
annihilated by `Q`). -/
theorem gks_generator_cCP {M : Nat} (C : Vector (Mat ℂ d d) N)
    (hC : Spec.IsComplete (Spec.basisOf C)) (W : Matrix (Fin M) (Fin M) ℂ) (hW : W.PosSemidef)
    (A : Fin M → Matrix (Fin d) (Fin d) ℂ) (G G' : Matrix (Fin d) (Fin d) ℂ) (S : Mat ℂ N N)
    (hS : ∀ i j : Fin N,
      S[i][j] = trace (Spec.basisOf C i * Spec.gksMap W A G G' (Spec.basisOf C j))) :
    (Model.projectedChoi (R := ℝ) S C).toMatrix.PosSemidef := by
  rw [Model.projectedChoi_toMatrix,
    Model.liouvilleToChoi_of_liouFun C hC (Spec.gksLin W A G G') S hS]
  exact Spec.projQ_choi_gks_posSemidef W hW A G G'

/-- the Lindblad generator
`𝓛(ρ) = -i[H, ρ] + Σ_m γ_m (A_m ρ A_m† - ½{A_m† A_m, ρ})` -/
noncomputable def lindblad {M : Nat} (H : Matrix (Fin d) (Fin d) ℂ)
    (A : Fin M → Matrix (Fin d) (Fin d) ℂ) (γ : Fin M → ℝ) (ρ : Matrix (Fin d) (Fin d) ℂ) :
    Matrix (Fin d) (Fin d) ℂ :=
  -Complex.I • (H * ρ - ρ * H)
    + ∑ m, (γ m : ℂ) • (A m * ρ * (A m)ᴴ
        - (1 / 2 : ℂ) • ((A m)ᴴ * A m * ρ + ρ * ((A m)ᴴ * A m)))

/-- the Lindblad generator in GKS form: `W = diag(γ)`,
`G = -iH - ½ Σ γ_m A_m†A_m`, `G' = iH - ½ Σ γ_m A_m†A_m` -/
theorem lindblad_eq_gks {M : Nat} (H : Matrix (Fin d) (Fin d) ℂ)
    (A : Fin M → Matrix (Fin d) (Fin d) ℂ) (γ : Fin M → ℝ) (ρ : Matrix (Fin d) (Fin d) ℂ) :
    lindblad H A γ ρ = Spec.gksMap (Matrix.diagonal fun m => (γ m : ℂ)) A
      (-Complex.I • H - (1 / 2 : ℂ) • ∑ m, (γ m : ℂ) • ((A m)ᴴ * A m))
      (Complex.I • H - (1 / 2 : ℂ) • ∑ m, (γ m : ℂ) • ((A m)ᴴ * A m)) ρ := by
  unfold lindblad Spec.gksMap
  have hdiag : ∀ k, ∑ l, (Matrix.diagonal fun m => (γ m : ℂ)) k l • (A k * ρ * (A l)ᴴ)
      = (γ k : ℂ) • (A k * ρ * (A k)ᴴ) := by
    intro k
    rw [Finset.sum_eq_single k]
    · rw [Matrix.diagonal_apply_eq]
    · intro l _ hl
      rw [Matrix.diagonal_apply_ne _ (Ne.symm hl), zero_smul]
    · intro h; exact absurd (Finset.mem_univ k) h
  simp only [hdiag]
  simp only [Matrix.sub_mul, Matrix.mul_sub, Matrix.smul_mul, Matrix.mul_smul, Matrix.sum_mul,
    Matrix.mul_sum, Matrix.neg_mul, neg_smul, smul_sub, smul_add,
    Finset.sum_sub_distrib, Finset.sum_add_distrib, Finset.smul_sum, Matrix.mul_assoc]
  have hc : ∀ (m : Fin M) (X : Matrix (Fin d) (Fin d) ℂ),
      (γ m : ℂ) • (1 / 2 : ℂ) • X = (1 / 2 : ℂ) • (γ m : ℂ) • X := fun m X => smul_comm _ _ _
  simp only [hc]
  abel

/-- **Lindblad generators are cCP** (the statement C15 needs).  For every complete basis `C`, every
operator `H` (Hermitian or not — Hermiticity is not needed for this conclusion), arbitrary jump
operators `A_m` and rates `γ_m ≥ 0`: if `S_ij = tr(C_i 𝓛(C_j))` is the Liouville matrix of
`𝓛(ρ) = -i[H,ρ] + Σ_m γ_m (A_m ρ A_m† - ½{A_m†A_m, ρ})`, then the projected Choi matrix
`Q @ choi @ Q` of `liouville_is_cCP` is positive semidefinite. -/
theorem lindblad_generator_cCP {M : Nat} (C : Vector (Mat ℂ d d) N)
    (hC : Spec.IsComplete (Spec.basisOf C)) (H : Matrix (Fin d) (Fin d) ℂ)
    (A : Fin M → Matrix (Fin d) (Fin d) ℂ) (γ : Fin M → ℝ) (hγ : ∀ m, 0 ≤ γ m) (S : Mat ℂ N N)
    (hS : ∀ i j : Fin N, S[i][j] = trace (Spec.basisOf C i * lindblad H A γ (Spec.basisOf C j))) :
    (Model.projectedChoi (R := ℝ) S C).toMatrix.PosSemidef := by
  refine gks_generator_cCP C hC (Matrix.diagonal fun m => (γ m : ℂ)) ?_ A
    (-Complex.I • H - (1 / 2 : ℂ) • ∑ m, (γ m : ℂ) • ((A m)ᴴ * A m))
    (Complex.I • H - (1 / 2 : ℂ) • ∑ m, (γ m : ℂ) • ((A m)ᴴ * A m)) S ?_
  · exact PosSemidef.diagonal fun m => Complex.zero_le_real.mpr (hγ m)
  · intro i j
    rw [hS, lindblad_eq_gks]

/-- **The package's verdict on a Lindblad generator is `True`** under the `eigh` contract, for the
default tolerance and every explicit `atol ≥ 0`. -/
theorem lindblad_cCP_verdict {M : Nat} (C : Vector (Mat ℂ d d) N)
    (hC : Spec.IsComplete (Spec.basisOf C)) (H : Matrix (Fin d) (Fin d) ℂ)
    (A : Fin M → Matrix (Fin d) (Fin d) ℂ) (γ : Fin M → ℝ) (hγ : ∀ m, 0 ≤ γ m) (S : Mat ℂ N N)
    (hS : ∀ i j : Fin N, S[i][j] = trace (Spec.basisOf C i * lindblad H A γ (Spec.basisOf C j)))
    (D : Vec ℝ (d * d)) (hD : IsEigvals (Model.projectedChoi (R := ℝ) S C).toMatrix D)
    (basisAtol : ℝ) (hb : 0 ≤ basisAtol) (atol : Option ℝ) (ha : ∀ a, atol = some a → 0 ≤ a) :
    Model.cpTestAfterEigh basisAtol atol D = true :=
  verdict_of_posSemidef _ (lindblad_generator_cCP C hC H A γ hγ S hS) D hD basisAtol hb atol ha

/-! ### The cumulant function -/

/-- `Γˢ = (Γ + Γᵀ)/2` is positive semidefinite when `Γ` is -/
theorem symmetrised_posSemidef (Γ : Matrix (Fin N) (Fin N) ℂ) (hΓ : Γ.PosSemidef) :
    (Matrix.of fun k l => (Γ k l + Γ l k) / 2).PosSemidef := by
  have h2 : (0 : ℂ) ≤ 1 / 2 := by
    rw [show (1 / 2 : ℂ) = ((1 / 2 : ℝ) : ℂ) by push_cast; ring]
    exact Complex.zero_le_real.mpr (by norm_num)
  have h := (hΓ.add hΓ.transpose).smul h2
  convert h using 1
  ext k l
  simp only [Matrix.of_apply, Matrix.smul_apply, Matrix.add_apply, Matrix.transpose_apply,
    smul_eq_mul]
  ring

/-- **The first-order cumulant function is conditionally completely positive.**  For every complete
basis `C` of Hermitian matrices (any `d`; `N = d²` follows), every positive-semidefinite (hence
Hermitian) complex `N × N` matrix `Γ` — the decay amplitudes of one noise source, or their sum over
all pairs for a positive-semidefinite cross-spectral matrix — the model's
`K = cumulantGeneral Γ none (fourElementTraces C)` (general branch of
`calculate_cumulant_function`, `second_order=False`) has a positive-semidefinite projected Choi
matrix `Q @ liouville_to_choi(K) @ Q`.
(`𝒦(ρ) = -½ΣΓ_kl[C_k,[C_l,ρ]] = Σ_kl Γˢ_kl C_k ρ C_l + Gρ + ρG'`, `Γˢ = (Γ+Γᵀ)/2 ⪰ 0`.) -/
theorem cumulant_first_order_cCP (C : Vector (Mat ℂ d d) N)
    (hC : Spec.IsComplete (Spec.basisOf C)) (hH : ∀ i, (Spec.basisOf C i)ᴴ = Spec.basisOf C i)
    (Γ : Mat ℂ N N) (hΓ : Γ.toMatrix.PosSemidef) :
    (Model.projectedChoi (R := ℝ) (Model.cumulantGeneral Γ none (Model.fourElementTraces C))
      C).toMatrix.PosSemidef := by
  refine gks_generator_cCP C hC _ (symmetrised_posSemidef Γ.toMatrix hΓ) (Spec.basisOf C)
    (-(1 / 2 : ℂ) • ∑ k, ∑ l, (fn Γ) k l • (Spec.basisOf C k * Spec.basisOf C l))
    (-(1 / 2 : ℂ) • ∑ k, ∑ l, (fn Γ) k l • (Spec.basisOf C l * Spec.basisOf C k)) _ ?_
  intro i j
  rw [(cumulant_general_model C Γ Γ i j).1, Spec.K1_eq_trace_K1Map, Spec.K1Map_eq_gks hH]
  rfl

/-- **The package's cCP verdict on the first-order cumulant function is `True`** under the `eigh`
contract, for the default tolerance (`atol=None`, `basis._atol ≥ 0`) and every explicit
`atol ≥ 0`. -/
theorem cumulant_first_order_cCP_verdict (C : Vector (Mat ℂ d d) N)
    (hC : Spec.IsComplete (Spec.basisOf C)) (hH : ∀ i, (Spec.basisOf C i)ᴴ = Spec.basisOf C i)
    (Γ : Mat ℂ N N) (hΓ : Γ.toMatrix.PosSemidef) (D : Vec ℝ (d * d))
    (hD : IsEigvals (Model.projectedChoi (R := ℝ)
      (Model.cumulantGeneral Γ none (Model.fourElementTraces C)) C).toMatrix D)
    (basisAtol : ℝ) (hb : 0 ≤ basisAtol) (atol : Option ℝ) (ha : ∀ a, atol = some a → 0 ≤ a) :
    Model.cpTestAfterEigh basisAtol atol D = true :=
  verdict_of_posSemidef _ (cumulant_first_order_cCP C hC hH Γ hΓ) D hD basisAtol hb atol ha

/-! ### Second order -/

/-- the Hermitian operator of the second-order contribution,
`H = -(i/2) Σ_kl Δ_kl [C_k, C_l]` -/
noncomputable def secondOrderH (C : Fin N → Matrix (Fin d) (Fin d) ℂ) (Δ : Fin N → Fin N → ℂ) :
    Matrix (Fin d) (Fin d) ℂ := Complex.I • Spec.K2Op C Δ

/-- **Second-order terms add only a unitary (Hamiltonian) part.**  For every family `C` of Hermitian
matrices and every real `Δ` (the frequency shifts; the formula antisymmetrises them through
`[C_k, C_l]`), the difference between the cumulant function with and without `second_order` is the
Liouville matrix of `ρ ↦ -i[H, ρ]` with the Hermitian `H = -(i/2) Σ_kl Δ_kl [C_k, C_l]` — for
every `Γ`. -/
theorem second_order_unitary_part (C : Vector (Mat ℂ d d) N)
    (hH : ∀ i, (Spec.basisOf C i)ᴴ = Spec.basisOf C i) (Γ Δ : Mat ℂ N N)
    (hΔ : ∀ k l : Fin N, starRingEnd ℂ Δ[k][l] = Δ[k][l]) :
    (secondOrderH (Spec.basisOf C) (fn Δ))ᴴ = secondOrderH (Spec.basisOf C) (fn Δ) ∧
    ∀ i j : Fin N,
      (Model.cumulantGeneral Γ (some Δ) (Model.fourElementTraces C))[i][j]
          - (Model.cumulantGeneral Γ none (Model.fourElementTraces C))[i][j]
        = trace (Spec.basisOf C i * (-Complex.I •
            (secondOrderH (Spec.basisOf C) (fn Δ) * Spec.basisOf C j
              - Spec.basisOf C j * secondOrderH (Spec.basisOf C) (fn Δ)))) := by
  constructor
  · unfold secondOrderH
    rw [conjTranspose_smul, Spec.K2Op_conjTranspose hH (fn Δ) hΔ, smul_neg, Complex.star_def,
      Complex.conj_I, neg_smul, neg_neg]
  · intro i j
    rw [(cumulant_general_model C Γ Δ i j).1, (cumulant_general_model C Γ Δ i j).2, Spec.Kfull,
      add_sub_cancel_left, Spec.K2_eq_trace_comm]
    unfold secondOrderH Spec.comm
    simp only [Matrix.smul_mul, Matrix.mul_smul, ← smul_sub, smul_smul]
    rw [show -Complex.I * Complex.I = 1 by rw [neg_mul, Complex.I_mul_I, neg_neg], one_smul]

/-- the zero matrix of decay amplitudes -/
def zeroMat (N : Nat) : Mat ℂ N N := Mat.ofFn fun _ _ => 0

/-- **The second-order contribution alone has projected Choi matrix `0`** (so both it and its
negative are cCP): for every complete basis and EVERY `Δ` (real or not), with `Γ = 0`. -/
theorem second_order_projected_choi_zero (C : Vector (Mat ℂ d d) N)
    (hC : Spec.IsComplete (Spec.basisOf C)) (Δ : Mat ℂ N N) :
    (Model.projectedChoi (R := ℝ)
      (Model.cumulantGeneral (zeroMat N) (some Δ) (Model.fourElementTraces C)) C).toMatrix = 0 := by
  have hS : ∀ i j : Fin N,
      (Model.cumulantGeneral (zeroMat N) (some Δ) (Model.fourElementTraces C))[i][j]
        = trace (Spec.basisOf C i * Spec.gksLin (0 : Matrix (Fin 0) (Fin 0) ℂ) (fun _ => 0)
            (Spec.K2Op (Spec.basisOf C) (fn Δ)) (-Spec.K2Op (Spec.basisOf C) (fn Δ))
            (Spec.basisOf C j)) := by
    intro i j
    rw [(cumulant_general_model C (zeroMat N) Δ i j).2, Spec.Kfull, Spec.K2_eq_trace_comm,
      Spec.comm_eq_gks, Spec.gksLin_apply]
    have h0 : Spec.K1 (Spec.basisOf C) (fn (zeroMat N)) i j = 0 := by
      unfold Spec.K1 fn zeroMat
      simp only [Mat.ofFn_get, zero_mul, Finset.sum_const_zero, mul_zero]
    rw [h0, zero_add]
  rw [Model.projectedChoi_toMatrix, Model.liouvilleToChoi_of_liouFun C hC _ _ hS]
  exact Spec.projQ_choi_commutator_like _ _

/-- **Second-order terms do not change the projected Choi matrix**: for every complete Hermitian
basis, every `Γ` and every `Δ`, `Q choi(K(Γ, Δ)) Q = Q choi(K(Γ)) Q`. -/
theorem second_order_same_projected_choi (C : Vector (Mat ℂ d d) N)
    (hC : Spec.IsComplete (Spec.basisOf C)) (hH : ∀ i, (Spec.basisOf C i)ᴴ = Spec.basisOf C i)
    (Γ Δ : Mat ℂ N N) :
    Model.projectedChoi (R := ℝ) (Model.cumulantGeneral Γ (some Δ) (Model.fourElementTraces C)) C
      = Model.projectedChoi (R := ℝ)
          (Model.cumulantGeneral Γ none (Model.fourElementTraces C)) C := by
  apply Mat.ext'
  have h1 : ∀ i j : Fin N,
      (Model.cumulantGeneral Γ none (Model.fourElementTraces C))[i][j]
        = trace (Spec.basisOf C i * Spec.gksLin
            (Matrix.of fun k l => ((fn Γ) k l + (fn Γ) l k) / 2) (Spec.basisOf C)
            (-(1 / 2 : ℂ) • ∑ k, ∑ l, (fn Γ) k l • (Spec.basisOf C k * Spec.basisOf C l))
            (-(1 / 2 : ℂ) • ∑ k, ∑ l, (fn Γ) k l • (Spec.basisOf C l * Spec.basisOf C k))
            (Spec.basisOf C j)) := by
    intro i j
    rw [(cumulant_general_model C Γ Γ i j).1, Spec.K1_eq_trace_K1Map, Spec.K1Map_eq_gks hH,
      Spec.gksLin_apply]
  have h2 : ∀ i j : Fin N,
      (Model.cumulantGeneral Γ (some Δ) (Model.fourElementTraces C))[i][j]
        = trace (Spec.basisOf C i * Spec.gksLin
            (Matrix.of fun k l => ((fn Γ) k l + (fn Γ) l k) / 2) (Spec.basisOf C)
            (-(1 / 2 : ℂ) • ∑ k, ∑ l, (fn Γ) k l • (Spec.basisOf C k * Spec.basisOf C l)
              + Spec.K2Op (Spec.basisOf C) (fn Δ))
            (-(1 / 2 : ℂ) • ∑ k, ∑ l, (fn Γ) k l • (Spec.basisOf C l * Spec.basisOf C k)
              - Spec.K2Op (Spec.basisOf C) (fn Δ))
            (Spec.basisOf C j)) := by
    intro i j
    rw [(cumulant_general_model C Γ Δ i j).2, Spec.Kfull, Spec.K1_eq_trace_K1Map,
      Spec.K2_eq_trace_comm, ← trace_add, ← Matrix.mul_add, Spec.K1Map_eq_gks hH,
      Spec.gksMap_add_comm, Spec.gksLin_apply]
  rw [Model.projectedChoi_toMatrix, Model.projectedChoi_toMatrix,
    Model.liouvilleToChoi_of_liouFun C hC _ _ h1, Model.liouvilleToChoi_of_liouFun C hC _ _ h2]
  exact (Spec.projQ_mul_choi_gks_mul_projQ _ _ _ _).trans
    (Spec.projQ_mul_choi_gks_mul_projQ _ _ _ _).symm

/-- **The cumulant function up to second order is cCP** for positive-semidefinite `Γ` and every
`Δ`. -/
theorem cumulant_second_order_cCP (C : Vector (Mat ℂ d d) N)
    (hC : Spec.IsComplete (Spec.basisOf C)) (hH : ∀ i, (Spec.basisOf C i)ᴴ = Spec.basisOf C i)
    (Γ Δ : Mat ℂ N N) (hΓ : Γ.toMatrix.PosSemidef) :
    (Model.projectedChoi (R := ℝ) (Model.cumulantGeneral Γ (some Δ) (Model.fourElementTraces C))
      C).toMatrix.PosSemidef := by
  rw [second_order_same_projected_choi C hC hH]
  exact cumulant_first_order_cCP C hC hH Γ hΓ

/-! ### What the test rejects -/

/-- **Necessary condition (non-negative transition rates).**  If a linear map `Φ` moves population
from a basis state `a` to a different state `c` at a negative rate, `⟨c|Φ(|a⟩⟨a|)|c⟩ < 0`, then the
projected Choi matrix of its Liouville matrix is NOT positive semidefinite: the diagonal entry at
the off-diagonal index `(a, c)` is untouched by `Q` and equals `Φ(E_aa)_{cc}`. -/
theorem cCP_necessary_transition_rates (C : Vector (Mat ℂ d d) N)
    (hC : Spec.IsComplete (Spec.basisOf C))
    (Φ : Matrix (Fin d) (Fin d) ℂ →ₗ[ℂ] Matrix (Fin d) (Fin d) ℂ) (S : Mat ℂ N N)
    (hS : ∀ i j : Fin N, S[i][j] = trace (Spec.basisOf C i * Φ (Spec.basisOf C j)))
    (a c : Fin d) (hac : a ≠ c) (hneg : (Φ (Matrix.single a a 1) c c).re < 0) :
    ¬ (Model.projectedChoi (R := ℝ) S C).toMatrix.PosSemidef := by
  intro hP
  have h := hP.diag_nonneg (i := Fin.flat a c)
  rw [Model.projectedChoi_toMatrix,
    Spec.projQ_mul_mul_projQ_offdiag _ _ (by rw [Fin.lo_flat, Fin.hi_flat]; exact hac.symm),
    Model.liouvilleToChoi_of_liouFun C hC Φ S hS, Spec.choiMap, Fin.hi_flat, Fin.lo_flat] at h
  exact absurd (Complex.nonneg_iff.mp h).1 (not_le.mpr hneg)

/-- **… and the package's test says so**: under the full `eigh` contract, `liouville_is_cCP` with an
explicit tolerance `atol` returns `False` for every linear map with a transition rate
`⟨c|Φ(|a⟩⟨a|)|c⟩ < -atol`, `a ≠ c`. -/
theorem cCP_test_rejects_negative_rate (C : Vector (Mat ℂ d d) N)
    (hC : Spec.IsComplete (Spec.basisOf C))
    (Φ : Matrix (Fin d) (Fin d) ℂ →ₗ[ℂ] Matrix (Fin d) (Fin d) ℂ) (S : Mat ℂ N N)
    (hS : ∀ i j : Fin N, S[i][j] = trace (Spec.basisOf C i * Φ (Spec.basisOf C j)))
    (a c : Fin d) (hac : a ≠ c) (basisAtol atol : ℝ)
    (hneg : (Φ (Matrix.single a a 1) c c).re < -atol) (D : Vec ℝ (d * d))
    (V : Matrix (Fin (d * d)) (Fin (d * d)) ℂ)
    (hD : C02.IsEigh (Model.projectedChoi (R := ℝ) S C).toMatrix (fun i => D[i]) V) :
    Model.cpTestAfterEigh basisAtol (some atol) D = false := by
  refine verdict_false_of_diag _ D V hD (Fin.flat a c) basisAtol atol ?_
  rw [Model.projectedChoi_toMatrix,
    Spec.projQ_mul_mul_projQ_offdiag _ _ (by rw [Fin.lo_flat, Fin.hi_flat]; exact hac.symm),
    Model.liouvilleToChoi_of_liouFun C hC Φ S hS, Spec.choiMap, Fin.hi_flat, Fin.lo_flat]
  exact hneg

/-- the normalised Pauli basis as a model basis array -/
noncomputable def pauliVec : Vector (Mat ℂ 2 2) 4 :=
  Vector.ofFn fun i => Mat.ofFn (Spec.pauliBasis i)

theorem pauliVec_basisOf : Spec.basisOf pauliVec = Spec.pauliBasis := by
  funext i; ext a b
  simp [pauliVec, Spec.basisOf, Mat.toMatrix, Mat.ofFn]

/-- **A non-Lindblad generator is judged not cCP**: on the Pauli basis, the "Lindblad form" with
jump operator `σ_x` and the negative rate `γ = -1` (`𝓛(ρ) = ρ - σ_x ρ σ_x`) has a projected Choi
matrix that is not positive semidefinite (`⟨1|𝓛(|0⟩⟨0|)|1⟩ = -1`), and under the full `eigh` contract
`liouville_is_cCP(…, atol=a)` returns `False` for every `a < 1`. -/
theorem negative_rate_not_cCP :
    ∃ (C : Vector (Mat ℂ 2 2) 4) (S : Mat ℂ 4 4),
      Spec.IsOrthoHerm (Spec.basisOf C) ∧ Spec.IsComplete (Spec.basisOf C) ∧
      (∀ i j : Fin 4, S[i][j] = trace (Spec.basisOf C i *
        lindblad (M := 1) 0 (fun _ => Spec.sigma 1) (fun _ => -1) (Spec.basisOf C j))) ∧
      ¬ (Model.projectedChoi (R := ℝ) S C).toMatrix.PosSemidef ∧
      ∀ (D : Vec ℝ (2 * 2)) (V : Matrix (Fin (2 * 2)) (Fin (2 * 2)) ℂ),
        C02.IsEigh (Model.projectedChoi (R := ℝ) S C).toMatrix (fun i => D[i]) V →
        ∀ basisAtol a : ℝ, a < 1 → Model.cpTestAfterEigh basisAtol (some a) D = false := by
  let S : Mat ℂ 4 4 := Mat.ofFn fun i j => trace (Spec.pauliBasis i *
    lindblad (M := 1) 0 (fun _ => Spec.sigma 1) (fun _ => -1) (Spec.pauliBasis j))
  have hS : ∀ i j : Fin 4, S[i][j] = trace (Spec.basisOf pauliVec i *
      lindblad (M := 1) 0 (fun _ => Spec.sigma 1) (fun _ => -1) (Spec.basisOf pauliVec j)) := by
    intro i j
    rw [pauliVec_basisOf]
    simp only [S, Mat.ofFn_get]
  have hC : Spec.IsComplete (Spec.basisOf pauliVec) := pauliVec_basisOf ▸ Spec.pauliBasis_complete
  refine ⟨pauliVec, S, pauliVec_basisOf ▸ Spec.pauliBasis_orthoHerm, hC, hS, ?_⟩
  have hS' : ∀ i j : Fin 4, S[i][j] = trace (Spec.basisOf pauliVec i *
      Spec.gksLin (Matrix.diagonal fun _ : Fin 1 => ((-1 : ℝ) : ℂ)) (fun _ => Spec.sigma 1)
        (-Complex.I • (0 : Matrix (Fin 2) (Fin 2) ℂ)
          - (1 / 2 : ℂ) • ∑ _m : Fin 1, ((-1 : ℝ) : ℂ) • ((Spec.sigma 1)ᴴ * Spec.sigma 1))
        (Complex.I • (0 : Matrix (Fin 2) (Fin 2) ℂ)
          - (1 / 2 : ℂ) • ∑ _m : Fin 1, ((-1 : ℝ) : ℂ) • ((Spec.sigma 1)ᴴ * Spec.sigma 1))
        (Spec.basisOf pauliVec j)) := by
    intro i j
    rw [hS, lindblad_eq_gks, Spec.gksLin_apply]
  have hrate : (Spec.gksLin (Matrix.diagonal fun _ : Fin 1 => ((-1 : ℝ) : ℂ))
      (fun _ => Spec.sigma 1)
      (-Complex.I • (0 : Matrix (Fin 2) (Fin 2) ℂ)
        - (1 / 2 : ℂ) • ∑ _m : Fin 1, ((-1 : ℝ) : ℂ) • ((Spec.sigma 1)ᴴ * Spec.sigma 1))
      (Complex.I • (0 : Matrix (Fin 2) (Fin 2) ℂ)
        - (1 / 2 : ℂ) • ∑ _m : Fin 1, ((-1 : ℝ) : ℂ) • ((Spec.sigma 1)ᴴ * Spec.sigma 1))
      (Matrix.single (0 : Fin 2) 0 1) 1 1).re = -1 := by
    rw [Spec.gksLin_apply, ← lindblad_eq_gks]
    unfold lindblad
    rw [Spec.negrate_map, Spec.flip_entry]
    norm_num
  refine ⟨cCP_necessary_transition_rates pauliVec hC _ S hS' 0 1 (by decide) (by rw [hrate]; norm_num),
    fun D V hD basisAtol a ha => ?_⟩
  exact cCP_test_rejects_negative_rate pauliVec hC _ S hS' 0 1 (by decide) basisAtol a
    (by rw [hrate]; linarith) D V hD

/-- **A non-positive-semidefinite `Γ` whose cumulant function is not cCP** (so the hypothesis
`Γ ⪰ 0` of `cumulant_first_order_cCP` cannot be dropped): Pauli basis, `Γ = -e_1 e_1ᵀ` (real,
symmetric, one negative eigenvalue); `𝒦(ρ) = ¼[σ_x,[σ_x,ρ]]` has `⟨1|𝒦(|0⟩⟨0|)|1⟩ = -½`; under the full
`eigh` contract the package's verdict with `atol = a < ½` is `False`. -/
theorem cumulant_nonpsd_not_cCP :
    ∃ (C : Vector (Mat ℂ 2 2) 4) (Γ : Mat ℂ 4 4),
      Spec.IsOrthoHerm (Spec.basisOf C) ∧ Spec.IsComplete (Spec.basisOf C) ∧
      Γ.toMatrix.IsHermitian ∧
      ¬ (Model.projectedChoi (R := ℝ) (Model.cumulantGeneral Γ none (Model.fourElementTraces C))
        C).toMatrix.PosSemidef ∧
      ∀ (D : Vec ℝ (2 * 2)) (V : Matrix (Fin (2 * 2)) (Fin (2 * 2)) ℂ),
        C02.IsEigh (Model.projectedChoi (R := ℝ)
          (Model.cumulantGeneral Γ none (Model.fourElementTraces C)) C).toMatrix (fun i => D[i]) V →
        ∀ basisAtol a : ℝ, a < 1 / 2 → Model.cpTestAfterEigh basisAtol (some a) D = false := by
  let Γ : Mat ℂ 4 4 := Mat.ofFn fun k l => if k = 1 ∧ l = 1 then -1 else 0
  have hΓ : fn Γ = fun k l => if k = 1 ∧ l = 1 then -1 else 0 := by
    funext k l
    simp only [fn, Γ, Mat.ofFn_get]
  have hC : Spec.IsComplete (Spec.basisOf pauliVec) := pauliVec_basisOf ▸ Spec.pauliBasis_complete
  have hO : Spec.IsOrthoHerm (Spec.basisOf pauliVec) :=
    pauliVec_basisOf ▸ Spec.pauliBasis_orthoHerm
  refine ⟨pauliVec, Γ, hO, hC, ?_, ?_⟩
  · ext k l
    simp only [Matrix.conjTranspose_apply, Mat.toMatrix_apply, Γ, Mat.ofFn_get]
    by_cases h : l = 1 ∧ k = 1
    · rw [if_pos h, if_pos ⟨h.2, h.1⟩]; simp
    · rw [if_neg h, if_neg (fun h' => h ⟨h'.2, h'.1⟩)]; simp
  · have hS : ∀ i j : Fin 4,
        (Model.cumulantGeneral Γ none (Model.fourElementTraces pauliVec))[i][j]
          = trace (Spec.basisOf pauliVec i * Spec.gksLin
              (Matrix.of fun k l => ((fn Γ) k l + (fn Γ) l k) / 2) (Spec.basisOf pauliVec)
              (-(1 / 2 : ℂ) • ∑ k, ∑ l, (fn Γ) k l • (Spec.basisOf pauliVec k * Spec.basisOf pauliVec l))
              (-(1 / 2 : ℂ) • ∑ k, ∑ l, (fn Γ) k l • (Spec.basisOf pauliVec l * Spec.basisOf pauliVec k))
              (Spec.basisOf pauliVec j)) := by
      intro i j
      rw [(cumulant_general_model pauliVec Γ Γ i j).1, Spec.K1_eq_trace_K1Map,
        Spec.K1Map_eq_gks hO.herm, Spec.gksLin_apply]
    have hrate : (Spec.gksLin
        (Matrix.of fun k l => ((fn Γ) k l + (fn Γ) l k) / 2) (Spec.basisOf pauliVec)
        (-(1 / 2 : ℂ) • ∑ k, ∑ l, (fn Γ) k l • (Spec.basisOf pauliVec k * Spec.basisOf pauliVec l))
        (-(1 / 2 : ℂ) • ∑ k, ∑ l, (fn Γ) k l • (Spec.basisOf pauliVec l * Spec.basisOf pauliVec k))
        (Matrix.single (0 : Fin 2) 0 1) 1 1).re = -(1 / 2) := by
      rw [Spec.gksLin_apply, ← Spec.K1Map_eq_gks hO.herm, pauliVec_basisOf, hΓ,
        Spec.K1Map_pauli_neg, Matrix.smul_apply, Spec.flip_entry]
      norm_num
    refine ⟨cCP_necessary_transition_rates pauliVec hC _ _ hS 0 1 (by decide)
      (by rw [hrate]; norm_num), fun D V hD basisAtol a ha => ?_⟩
    exact cCP_test_rejects_negative_rate pauliVec hC _ _ hS 0 1 (by decide) basisAtol a
      (by rw [hrate]; linarith) D V hD

/-! ### Non-vacuity -/

/-- the hypotheses of `cumulant_first_order_cCP` are satisfiable: Pauli basis, `Γ = 1` -/
example : ∃ (C : Vector (Mat ℂ 2 2) 4) (Γ : Mat ℂ 4 4),
    Spec.IsComplete (Spec.basisOf C) ∧ (∀ i, (Spec.basisOf C i)ᴴ = Spec.basisOf C i) ∧
    Γ.toMatrix.PosSemidef :=
  ⟨pauliVec, Mat.one, pauliVec_basisOf ▸ Spec.pauliBasis_complete,
    (pauliVec_basisOf ▸ Spec.pauliBasis_orthoHerm).herm, by
      rw [Mat.toMatrix_one]; exact PosSemidef.one⟩

/-- `IsEigvals` is satisfiable (and is what `eigh` delivers): the unit matrix with `D = (1, 1)` -/
example : IsEigvals (1 : Matrix (Fin 2) (Fin 2) ℂ) #v[1, 1] := by
  intro i
  refine ⟨fun _ => 1, fun h => one_ne_zero (congrFun h 0), ?_⟩
  rw [Matrix.one_mulVec]
  fin_cases i <;> simp

/-- the hypotheses of `lindblad_generator_cCP` are satisfiable with a non-trivial generator
(amplitude damping on the Pauli basis) -/
example : ∃ (C : Vector (Mat ℂ 2 2) 4) (S : Mat ℂ 4 4) (γ : Fin 1 → ℝ),
    Spec.IsComplete (Spec.basisOf C) ∧ (∀ m, 0 ≤ γ m) ∧
    ∀ i j : Fin 4, S[i][j] = trace (Spec.basisOf C i *
      lindblad (Spec.sigma 3) (fun _ => Matrix.single 0 1 1) γ (Spec.basisOf C j)) :=
  ⟨pauliVec, Mat.ofFn fun i j => trace (Spec.basisOf pauliVec i *
      lindblad (Spec.sigma 3) (fun _ => Matrix.single 0 1 1) (fun _ => 1) (Spec.basisOf pauliVec j)),
    fun _ => 1, pauliVec_basisOf ▸ Spec.pauliBasis_complete, fun _ => zero_le_one,
    fun i j => Mat.ofFn_get _ i j⟩

end FFVerif.C09
