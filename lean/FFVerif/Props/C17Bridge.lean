/-
C17, last clause — "equal pulses have equal propagators and filter functions": the bridge between the
discrete model of `PulseSequence.__eq__` (`Model/Pulse.lean`, `Props/C17.lean`: operators are tokens,
coefficients and durations integers) and the numeric models of `diagonalize` / `calculate_control_
matrix_from_scratch` / `calculate_filter_function` (`Model/Diag.lean`, `Model/Numeric.lean`).

Interpretation (`C17BridgeAux.Interp`): a matrix `op u` for every operator token `u`, a real value
`cv c` for every integer coefficient entry `c`, the duration `unit` of one time step (the integer
durations `n` of the model stand for `unit · n`).  `cOpersOf / cCoeffsOf / nOpersOf / nCoeffsOf /
dtOf I p` are the arrays `c_opers, c_coeffs, n_opers, n_coeffs, dt` of the pulse `p` IN ITS OWN STORED
ORDER; each pulse is diagonalized on its own: its `eigh` output `(eigvals, eigvecs)` is an input and
the contract `C02.IsEigh` for the model Hamiltonian `hamiltonian (cOpersOf I p) (cCoeffsOf I p)` a
hypothesis, separately for the two pulses.

Which features of the abstraction matter:
* durations are compared EXACTLY by the model (`np.allclose` in the source): the theorems speak about
  pulses whose durations agree exactly after joining; for durations that agree only up to `allclose`
  tolerances the propagators agree only approximately (not covered here);
* coefficients are compared exactly in model and source (`np.array_equal`); the interpretation `cv`
  need not be injective for the direction proved here;
* durations must be `≥ 0` (the constructor rejects negative ones); zero-length segments are allowed.
  `__eq__` does not merge a zero-length segment with different coefficients, so some pulses with the
  same H(t) compare unequal — the theorems below are therefore proved from the weaker hypothesis
  `SameFunction A B` (same unit-step unrolling) and cover those pulses too;
* all statements are over ℝ/ℂ (exact arithmetic).
-/
import FFVerif.Lemmas.C17BridgeAux
import FFVerif.Props.C17

namespace FFVerif.C17
open FFVerif FFVerif.Model FFVerif.Model.Pulse FFVerif.C02 FFVerif.C17BridgeAux Matrix Complex

/-- `__eq__` returning `True` implies `SameFunction` (well-formed pulses, durations `≥ 0`). -/
theorem eq_model_same_function (A B : PulseData) (hA : WF A) (hB : WF B)
    (pA : ∀ x ∈ A.dt, 0 ≤ x) (pB : ∀ x ∈ B.dt, 0 ≤ x) (h : pulseEq A B = true) :
    SameFunction A B :=
  eq_implies_same_function A B hA hB pA pB h

/-- **`eq_model_same_hamiltonian_function`: pulses that compare equal have the same piecewise
constant control Hamiltonian `H(t)` and noise sensitivities `s_a(t)` on `[0, τ]`.**  Time is resolved
on the common refinement of all segmentations, the unit-step grid (durations are integer multiples
of `unit`): the total durations agree; for every unit step `n` the control Hamiltonian
`hamAtStep I · n` (the interpretation `Σ_i cv(c_i) op_i` of the coefficient column valid during
`[unit·n, unit·(n+1))`, `none` beyond the end of the pulse) is the same; the noise operators listed in
identifier order are the same tokens with the same identifiers, and their sensitivities
`sensAtStep I · j n` agree for every position `j` and step `n`. -/
theorem eq_model_same_hamiltonian_function {d : Nat} (I : Interp d) (A B : PulseData) (hA : WF A)
    (hB : WF B) (pA : ∀ x ∈ A.dt, 0 ≤ x) (pB : ∀ x ∈ B.dt, 0 ≤ x) (h : pulseEq A B = true) :
    A.dt.sum = B.dt.sum ∧
    (∀ n, hamAtStep I A n = hamAtStep I B n) ∧
    opIds (sortBy (·.id) A.nTerms) = opIds (sortBy (·.id) B.nTerms) ∧
    (∀ j n, sensAtStep I A j n = sensAtStep I B j n) ∧
    A.basis = B.basis := by
  have hs := eq_model_same_function A B hA hB pA pB h
  refine ⟨hs.total_duration pA pB, fun n => ?_, hs.2.2.1, fun j n => ?_, hs.1⟩
  · unfold hamAtStep; rw [hs.sortedOps, hs.2.2.2]
  · unfold sensAtStep; rw [hs.2.2.2]

/-- **`H(t)` of `eq_model_same_hamiltonian_function` is the model's Hamiltonian array, segment by
segment**: during every unit step `n` inside segment `g` (integer edge times
`dt[0]+…+dt[g-1] ≤ n < dt[0]+…+dt[g]`) `hamAtStep I p n` is `hamiltonian (c_opers) (c_coeffs) [g]` of the
pulse in its stored order (durations `≥ 0`; zero-length segments contain no unit step). -/
theorem hamiltonian_function_is_model_array {d : Nat} (I : Interp d) (p : PulseData)
    (hnn : ∀ x ∈ p.dt, 0 ≤ x) (g : Nat) (hg : g < p.dt.length) (n : Nat)
    (h1 : (p.dt.take g).sum ≤ (n : Int)) (h2 : (n : Int) < (p.dt.take (g + 1)).sum) :
    hamAtStep I p n = some (Mat.toMatrix (hamiltonian (cOpersOf I p) (cCoeffsOf I p))[g]) :=
  hamAtStep_segment I p hnn g hg n h1 h2

/-- non-vacuity, discrete side: a pulse with a segment written split in two and its control operators
listed in another order compares equal to the merged one; both are well-formed with durations `≥ 0`
and pairwise distinct noise identifiers -/
example : pulseEq exSplit exMerged = true ∧ WF exSplit ∧ WF exMerged ∧
    (∀ x ∈ exSplit.dt, 0 ≤ x) ∧ (∀ x ∈ exMerged.dt, 0 ≤ x) ∧
    (exSplit.nTerms.map (·.id)).Nodup := by
  refine ⟨by decide, ?_, ?_, by decide, by decide, by decide⟩
  · constructor <;> simp [exSplit]
  · constructor <;> simp [exMerged]

/-- **Pulses describing the same piecewise constant Hamiltonians have the same propagators**, each
pulse with its OWN `eigh` output: the total propagators coincide, and the cumulative propagators
coincide at all common segment edges — edge `i` of `A` and edge `j` of `B` whenever the edge times
`dt_A[0] + … + dt_A[i-1]` and `dt_B[0] + … + dt_B[j-1]` agree.  (Data equality of the model outputs;
any interpretation, any dimension, any numbers of segments and operators, durations `≥ 0`.) -/
theorem same_function_same_propagators {d : Nat} (I : Interp d) (A B : PulseData)
    (pA : ∀ x ∈ A.dt, 0 ≤ x) (pB : ∀ x ∈ B.dt, 0 ≤ x) (h : SameFunction A B)
    (evA : Mat ℝ A.dt.length d) (vecA : Vector (Mat ℂ d d) A.dt.length)
    (evB : Mat ℝ B.dt.length d) (vecB : Vector (Mat ℂ d d) B.dt.length)
    (hEA : ∀ g : Fin A.dt.length,
      IsEigh (Mat.toMatrix (hamiltonian (cOpersOf I A) (cCoeffsOf I A))[g.1])
        (fun j => evA[g.1][j]) vecA[g.1].toMatrix)
    (hEB : ∀ g : Fin B.dt.length,
      IsEigh (Mat.toMatrix (hamiltonian (cOpersOf I B) (cCoeffsOf I B))[g.1])
        (fun j => evB[g.1][j]) vecB[g.1].toMatrix) :
    totalPropagator evA vecA (dtOf I A) = totalPropagator evB vecB (dtOf I B) ∧
    ∀ (i j : Nat) (hi : i ≤ A.dt.length) (hj : j ≤ B.dt.length),
      (A.dt.take i).sum = (B.dt.take j).sum →
      (propagators evA vecA (dtOf I A))[i] = (propagators evB vecB (dtOf I B))[j] := by
  have key : ∀ (i j : Nat) (hi : i ≤ A.dt.length) (hj : j ≤ B.dt.length),
      (A.dt.take i).sum = (B.dt.take j).sum →
      (propagators evA vecA (dtOf I A))[i] = (propagators evB vecB (dtOf I B))[j] := by
    intro i j hi hj hij
    apply Mat.ext'
    rw [propagators_eq_propSem I A pA evA vecA hEA i hi,
      propagators_eq_propSem I B pB evB vecB hEB j hj, h.sortedOps, h.2.2.2, hij]
  refine ⟨?_, key⟩
  exact key A.dt.length B.dt.length (Nat.le_refl _) (Nat.le_refl _)
    (by rw [List.take_length, List.take_length]; exact h.total_duration pA pB)

/-- **`eq_model_same_propagators`: pulses that compare equal have equal propagators.**  If the model
of `__eq__` returns `True` for two well-formed pulses (durations `≥ 0`), then under every
interpretation the total propagators and the cumulative propagators at the common segment edges
computed by the model of `diagonalize` coincide, each pulse with its own `eigh` output and its own
stored operator order and segmentation. -/
theorem eq_model_same_propagators {d : Nat} (I : Interp d) (A B : PulseData) (hA : WF A) (hB : WF B)
    (pA : ∀ x ∈ A.dt, 0 ≤ x) (pB : ∀ x ∈ B.dt, 0 ≤ x) (h : pulseEq A B = true)
    (evA : Mat ℝ A.dt.length d) (vecA : Vector (Mat ℂ d d) A.dt.length)
    (evB : Mat ℝ B.dt.length d) (vecB : Vector (Mat ℂ d d) B.dt.length)
    (hEA : ∀ g : Fin A.dt.length,
      IsEigh (Mat.toMatrix (hamiltonian (cOpersOf I A) (cCoeffsOf I A))[g.1])
        (fun j => evA[g.1][j]) vecA[g.1].toMatrix)
    (hEB : ∀ g : Fin B.dt.length,
      IsEigh (Mat.toMatrix (hamiltonian (cOpersOf I B) (cCoeffsOf I B))[g.1])
        (fun j => evB[g.1][j]) vecB[g.1].toMatrix) :
    totalPropagator evA vecA (dtOf I A) = totalPropagator evB vecB (dtOf I B) ∧
    ∀ (i j : Nat) (hi : i ≤ A.dt.length) (hj : j ≤ B.dt.length),
      (A.dt.take i).sum = (B.dt.take j).sum →
      (propagators evA vecA (dtOf I A))[i] = (propagators evB vecB (dtOf I B))[j] :=
  same_function_same_propagators I A B pA pB (eq_model_same_function A B hA hB pA pB h)
    evA vecA evB vecB hEA hEB

/-- non-vacuity, numeric side: for EVERY interpretation by Hermitian matrices (any dimension) both
example pulses have `eigh` outputs meeting the contract, and for all such outputs the total
propagators of the split and of the merged pulse coincide -/
example {d : Nat} (I : Interp d) (hH : ∀ u, (I.op u).toMatrix.IsHermitian) :
    ∃ (evA : Mat ℝ exSplit.dt.length d) (vecA : Vector (Mat ℂ d d) exSplit.dt.length)
      (evB : Mat ℝ exMerged.dt.length d) (vecB : Vector (Mat ℂ d d) exMerged.dt.length),
      (∀ g : Fin exSplit.dt.length,
        IsEigh (Mat.toMatrix (hamiltonian (cOpersOf I exSplit) (cCoeffsOf I exSplit))[g.1])
          (fun j => evA[g.1][j]) vecA[g.1].toMatrix) ∧
      (∀ g : Fin exMerged.dt.length,
        IsEigh (Mat.toMatrix (hamiltonian (cOpersOf I exMerged) (cCoeffsOf I exMerged))[g.1])
          (fun j => evB[g.1][j]) vecB[g.1].toMatrix) ∧
      totalPropagator evA vecA (dtOf I exSplit) = totalPropagator evB vecB (dtOf I exMerged) := by
  obtain ⟨evA, vecA, hEA⟩ := eigh_data_exists I hH exSplit
  obtain ⟨evB, vecB, hEB⟩ := eigh_data_exists I hH exMerged
  refine ⟨evA, vecA, evB, vecB, hEA, hEB, ?_⟩
  refine (eq_model_same_propagators I exSplit exMerged ?_ ?_ (by decide) (by decide) (by decide)
    evA vecA evB vecB hEA hEB).1
  · constructor <;> simp [exSplit]
  · constructor <;> simp [exMerged]

/-! ### control matrix and filter functions -/

/-- **Pulses describing the same piecewise constant Hamiltonians have the same control matrix**
(exact branch of `_first_order_integral`).  Pulses `A`, `B` with `SameFunction A B`, durations `≥ 0`,
the noise identifiers of `A` pairwise distinct (class invariant); each pulse in its own stored
operator order and segmentation, diagonalized on its own (own `eigh` outputs satisfying the
contract), its control matrix computed by the model of `calculate_control_matrix_from_scratch` as
`get_control_matrix` calls it (`propagators[:-1]`, `t[:-1]`, basis = interpretation `basisOf` of the
pulse's basis token).  For a noise operator `a` of `A` and `a'` of `B` with the SAME IDENTIFIER (the
rows may sit at different positions), every basis element `k` and every frequency `o` at which all
entries of `_first_order_integral` of BOTH pulses are computed by the closed form (`hmA`, `hmB`; any
guard shape, any `thr ≥ 0`; for the exact kernel this is every non-resonant frequency): the entries
coincide.  For the production guard at arbitrary frequencies see
`same_function_same_control_matrix_error`. -/
theorem same_function_same_control_matrix {d nO nK : Nat} (I : Interp d)
    (basisOf : Nat → Vector (Mat ℂ d d) nK) (A B : PulseData)
    (pA : ∀ x ∈ A.dt, 0 ≤ x) (pB : ∀ x ∈ B.dt, 0 ≤ x) (h : SameFunction A B)
    (hnd : (A.nTerms.map (·.id)).Nodup) (kind : MaskKind) (thr : ℝ) (hthr : 0 ≤ thr)
    (evA : Mat ℝ A.dt.length d) (vecA : Vector (Mat ℂ d d) A.dt.length)
    (evB : Mat ℝ B.dt.length d) (vecB : Vector (Mat ℂ d d) B.dt.length)
    (hEA : ∀ g : Fin A.dt.length,
      IsEigh (Mat.toMatrix (hamiltonian (cOpersOf I A) (cCoeffsOf I A))[g.1])
        (fun j => evA[g.1][j]) vecA[g.1].toMatrix)
    (hEB : ∀ g : Fin B.dt.length,
      IsEigh (Mat.toMatrix (hamiltonian (cOpersOf I B) (cCoeffsOf I B))[g.1])
        (fun j => evB[g.1][j]) vecB[g.1].toMatrix)
    (omega : Vec ℝ nO) (a : Fin A.nTerms.length) (a' : Fin B.nTerms.length)
    (hid : (A.nTerms[a.1]).id = (B.nTerms[a'.1]).id) (k : Fin nK) (o : Fin nO)
    (hmA : ∀ (g : Fin A.dt.length) (m n : Fin d),
      firstOrderMask kind thr (omega[o] + (evA[g][m] - evA[g][n])) (dtOf I A)[g] = true)
    (hmB : ∀ (g : Fin B.dt.length) (m n : Fin d),
      firstOrderMask kind thr (omega[o] + (evB[g][m] - evB[g][n])) (dtOf I B)[g] = true) :
    (controlMatrixFromScratch kind thr evA vecA (propsOf evA vecA (dtOf I A)) omega
        (basisOf A.basis) (nOpersOf I A) (nCoeffsOf I A) (dtOf I A) (startTimes (dtOf I A)))[a][k][o]
      = (controlMatrixFromScratch kind thr evB vecB (propsOf evB vecB (dtOf I B)) omega
        (basisOf B.basis) (nOpersOf I B) (nCoeffsOf I B) (dtOf I B) (startTimes (dtOf I B)))[a'][k][o] := by
  obtain ⟨j, hjA, hjB, hop⟩ := noise_row_match h hnd a a' hid
  rw [cm_eq_cmSem I A pA a j hjA kind thr hthr evA vecA hEA omega _ k o hmA,
    cm_eq_cmSem I B pB a' j hjB kind thr hthr evB vecB hEB omega _ k o hmB,
    h.sortedOps, h.2.2.2, hop, h.1]

/-- **`eq_model_same_control_matrix`: pulses that compare equal have equal control matrices**
(exact kernel / exact branch; rows matched by identifier).  Hypotheses as in
`same_function_same_control_matrix` with `pulseEq A B = true` in place of `SameFunction`. -/
theorem eq_model_same_control_matrix {d nO nK : Nat} (I : Interp d)
    (basisOf : Nat → Vector (Mat ℂ d d) nK) (A B : PulseData) (hA : WF A) (hB : WF B)
    (pA : ∀ x ∈ A.dt, 0 ≤ x) (pB : ∀ x ∈ B.dt, 0 ≤ x) (h : pulseEq A B = true)
    (hnd : (A.nTerms.map (·.id)).Nodup) (kind : MaskKind) (thr : ℝ) (hthr : 0 ≤ thr)
    (evA : Mat ℝ A.dt.length d) (vecA : Vector (Mat ℂ d d) A.dt.length)
    (evB : Mat ℝ B.dt.length d) (vecB : Vector (Mat ℂ d d) B.dt.length)
    (hEA : ∀ g : Fin A.dt.length,
      IsEigh (Mat.toMatrix (hamiltonian (cOpersOf I A) (cCoeffsOf I A))[g.1])
        (fun j => evA[g.1][j]) vecA[g.1].toMatrix)
    (hEB : ∀ g : Fin B.dt.length,
      IsEigh (Mat.toMatrix (hamiltonian (cOpersOf I B) (cCoeffsOf I B))[g.1])
        (fun j => evB[g.1][j]) vecB[g.1].toMatrix)
    (omega : Vec ℝ nO) (a : Fin A.nTerms.length) (a' : Fin B.nTerms.length)
    (hid : (A.nTerms[a.1]).id = (B.nTerms[a'.1]).id) (k : Fin nK) (o : Fin nO)
    (hmA : ∀ (g : Fin A.dt.length) (m n : Fin d),
      firstOrderMask kind thr (omega[o] + (evA[g][m] - evA[g][n])) (dtOf I A)[g] = true)
    (hmB : ∀ (g : Fin B.dt.length) (m n : Fin d),
      firstOrderMask kind thr (omega[o] + (evB[g][m] - evB[g][n])) (dtOf I B)[g] = true) :
    (controlMatrixFromScratch kind thr evA vecA (propsOf evA vecA (dtOf I A)) omega
        (basisOf A.basis) (nOpersOf I A) (nCoeffsOf I A) (dtOf I A) (startTimes (dtOf I A)))[a][k][o]
      = (controlMatrixFromScratch kind thr evB vecB (propsOf evB vecB (dtOf I B)) omega
        (basisOf B.basis) (nOpersOf I B) (nCoeffsOf I B) (dtOf I B) (startTimes (dtOf I B)))[a'][k][o] :=
  same_function_same_control_matrix I basisOf A B pA pB (eq_model_same_function A B hA hB pA pB h)
    hnd kind thr hthr evA vecA evB vecB hEA hEB omega a a' hid k o hmA hmB

/-- the truncation bound of `C01.cm_segment_form_error` for one entry of the control matrix of the
pulse `p` (production guard): `Σ_g 1e-7·dt_g·|s_a^{(g)}|·Σ_{mn} |(V†B_aV)_{mn}|·|(W†C_kW)_{nm}|` -/
noncomputable def cmTruncBound {d nK : Nat} (I : Interp d) (p : PulseData)
    (ev : Mat ℝ p.dt.length d) (vec : Vector (Mat ℂ d d) p.dt.length)
    (basis : Vector (Mat ℂ d d) nK) (a : Fin p.nTerms.length) (k : Fin nK) : ℝ :=
  ∑ g : Fin p.dt.length, 1e-7 * (dtOf I p)[g] * |(nCoeffsOf I p)[a][g]| *
    ∑ m : Fin d, ∑ n : Fin d,
      ‖((vec[g].toMatrix)ᴴ * (nOpersOf I p)[a].toMatrix * vec[g].toMatrix) m n‖ *
      ‖((((propsOf ev vec (dtOf I p))[g].toMatrix)ᴴ * vec[g].toMatrix)ᴴ * basis[k].toMatrix *
        (((propsOf ev vec (dtOf I p))[g].toMatrix)ᴴ * vec[g].toMatrix)) n m‖

/-- the control-matrix entry computed by the code as it is now is within `cmTruncBound` of the
time-domain integral over the unit-step unrolling (one pulse; `unit ≥ 0`, durations `≥ 0`) -/
theorem cm_error_sem {d nO nK : Nat} (I : Interp d) (hu : 0 ≤ I.unit) (p : PulseData)
    (hnn : ∀ x ∈ p.dt, 0 ≤ x) (a : Fin p.nTerms.length) (j : Nat)
    (hj : (sortBy (·.id) p.nTerms)[j]? = some p.nTerms[a.1])
    (ev : Mat ℝ p.dt.length d) (vec : Vector (Mat ℂ d d) p.dt.length)
    (hE : ∀ g : Fin p.dt.length,
      IsEigh (Mat.toMatrix (hamiltonian (cOpersOf I p) (cCoeffsOf I p))[g.1])
        (fun j => ev[g.1][j]) vec[g.1].toMatrix)
    (omega : Vec ℝ nO) (basis : Vector (Mat ℂ d d) nK) (k : Fin nK) (o : Fin nO) :
    ‖(controlMatrixFromScratch Gen.firstOrderMaskKind Gen.firstOrderMaskThr ev vec
        (propsOf ev vec (dtOf I p)) omega basis (nOpersOf I p) (nCoeffsOf I p)
        (dtOf I p) (startTimes (dtOf I p)))[a][k][o]
      - cmSem I (sortedOps p) (I.op (p.nTerms[a.1]).op).toMatrix basis[k].toMatrix omega[o] j
          (unrollPulse (sortedP p))‖
      ≤ cmTruncBound I p ev vec basis a k := by
  have hdt : ∀ g : Fin p.dt.length, 0 ≤ (dtOf I p)[g] := by
    intro g
    rw [Fin.getElem_fin, dtOf_getElem]
    exact mul_nonneg hu (by exact_mod_cast hnn _ (List.getElem_mem g.2))
  rw [← foldl_segs_eq_cmSem I p hnn, ← cm_integral_eq_foldl I p a j hj ev vec hE omega basis k o]
  exact C01.cm_segment_form_error ev vec (propsOf ev vec (dtOf I p)) omega basis (nOpersOf I p)
    (nCoeffsOf I p) (dtOf I p) (startTimes (dtOf I p)) a k o hdt

/-- **Control matrices of pulses describing the same functions, code as it is now, all
frequencies** (guard shape and threshold read from the source; both branches of
`_first_order_integral`; `unit ≥ 0`): the two entries differ by at most the sum of the two
truncation bounds `cmTruncBound` — both are within their bound of the SAME time-domain integral.
(The difference is not `0` in general: inside the grey zone `|x·dt| ≤ 1e-7` the truncated branch is
taken for different segments of the two pulses.) -/
theorem same_function_same_control_matrix_error {d nO nK : Nat} (I : Interp d) (hu : 0 ≤ I.unit)
    (basisOf : Nat → Vector (Mat ℂ d d) nK) (A B : PulseData)
    (pA : ∀ x ∈ A.dt, 0 ≤ x) (pB : ∀ x ∈ B.dt, 0 ≤ x) (h : SameFunction A B)
    (hnd : (A.nTerms.map (·.id)).Nodup)
    (evA : Mat ℝ A.dt.length d) (vecA : Vector (Mat ℂ d d) A.dt.length)
    (evB : Mat ℝ B.dt.length d) (vecB : Vector (Mat ℂ d d) B.dt.length)
    (hEA : ∀ g : Fin A.dt.length,
      IsEigh (Mat.toMatrix (hamiltonian (cOpersOf I A) (cCoeffsOf I A))[g.1])
        (fun j => evA[g.1][j]) vecA[g.1].toMatrix)
    (hEB : ∀ g : Fin B.dt.length,
      IsEigh (Mat.toMatrix (hamiltonian (cOpersOf I B) (cCoeffsOf I B))[g.1])
        (fun j => evB[g.1][j]) vecB[g.1].toMatrix)
    (omega : Vec ℝ nO) (a : Fin A.nTerms.length) (a' : Fin B.nTerms.length)
    (hid : (A.nTerms[a.1]).id = (B.nTerms[a'.1]).id) (k : Fin nK) (o : Fin nO) :
    ‖(controlMatrixFromScratch Gen.firstOrderMaskKind Gen.firstOrderMaskThr evA vecA
        (propsOf evA vecA (dtOf I A)) omega (basisOf A.basis) (nOpersOf I A) (nCoeffsOf I A)
        (dtOf I A) (startTimes (dtOf I A)))[a][k][o]
      - (controlMatrixFromScratch Gen.firstOrderMaskKind Gen.firstOrderMaskThr evB vecB
        (propsOf evB vecB (dtOf I B)) omega (basisOf B.basis) (nOpersOf I B) (nCoeffsOf I B)
        (dtOf I B) (startTimes (dtOf I B)))[a'][k][o]‖
      ≤ cmTruncBound I A evA vecA (basisOf A.basis) a k
        + cmTruncBound I B evB vecB (basisOf B.basis) a' k := by
  obtain ⟨j, hjA, hjB, hop⟩ := noise_row_match h hnd a a' hid
  have eA := cm_error_sem I hu A pA a j hjA evA vecA hEA omega (basisOf A.basis) k o
  have eB := cm_error_sem I hu B pB a' j hjB evB vecB hEB omega (basisOf B.basis) k o
  have hsem : cmSem I (sortedOps B) (I.op (B.nTerms[a'.1]).op).toMatrix
        (basisOf B.basis)[k].toMatrix omega[o] j (unrollPulse (sortedP B))
      = cmSem I (sortedOps A) (I.op (A.nTerms[a.1]).op).toMatrix
        (basisOf A.basis)[k].toMatrix omega[o] j (unrollPulse (sortedP A)) := by
    rw [h.sortedOps, h.2.2.2, hop, h.1]
  rw [hsem, norm_sub_rev] at eB
  exact (norm_sub_le_norm_sub_add_norm_sub _ _ _).trans (add_le_add eA eB)

/-- **`eq_model_same_filter_function`: pulses that compare equal have equal filter functions.**  The
fidelity filter function `F_ab(ω) = Σ_k conj(R_ak) R_bk` and the generalized one
`F_ab,kl(ω) = conj(R_ak) R_bl` formed by the model of `calculate_filter_function` from the two control
matrices coincide for noise operators matched by identifier (`a ↔ a'`, `b ↔ b'`), at every frequency at
which both pulses are on the exact branch (hypotheses of `eq_model_same_control_matrix`). -/
theorem eq_model_same_filter_function {d nO nK : Nat} (I : Interp d)
    (basisOf : Nat → Vector (Mat ℂ d d) nK) (A B : PulseData) (hA : WF A) (hB : WF B)
    (pA : ∀ x ∈ A.dt, 0 ≤ x) (pB : ∀ x ∈ B.dt, 0 ≤ x) (h : pulseEq A B = true)
    (hnd : (A.nTerms.map (·.id)).Nodup) (kind : MaskKind) (thr : ℝ) (hthr : 0 ≤ thr)
    (evA : Mat ℝ A.dt.length d) (vecA : Vector (Mat ℂ d d) A.dt.length)
    (evB : Mat ℝ B.dt.length d) (vecB : Vector (Mat ℂ d d) B.dt.length)
    (hEA : ∀ g : Fin A.dt.length,
      IsEigh (Mat.toMatrix (hamiltonian (cOpersOf I A) (cCoeffsOf I A))[g.1])
        (fun j => evA[g.1][j]) vecA[g.1].toMatrix)
    (hEB : ∀ g : Fin B.dt.length,
      IsEigh (Mat.toMatrix (hamiltonian (cOpersOf I B) (cCoeffsOf I B))[g.1])
        (fun j => evB[g.1][j]) vecB[g.1].toMatrix)
    (omega : Vec ℝ nO) (a b : Fin A.nTerms.length) (a' b' : Fin B.nTerms.length)
    (hida : (A.nTerms[a.1]).id = (B.nTerms[a'.1]).id)
    (hidb : (A.nTerms[b.1]).id = (B.nTerms[b'.1]).id) (o : Fin nO)
    (hmA : ∀ (g : Fin A.dt.length) (m n : Fin d),
      firstOrderMask kind thr (omega[o] + (evA[g][m] - evA[g][n])) (dtOf I A)[g] = true)
    (hmB : ∀ (g : Fin B.dt.length) (m n : Fin d),
      firstOrderMask kind thr (omega[o] + (evB[g][m] - evB[g][n])) (dtOf I B)[g] = true) :
    (filterFunctionFid (controlMatrixFromScratch kind thr evA vecA (propsOf evA vecA (dtOf I A))
        omega (basisOf A.basis) (nOpersOf I A) (nCoeffsOf I A) (dtOf I A)
        (startTimes (dtOf I A))))[a][b][o]
      = (filterFunctionFid (controlMatrixFromScratch kind thr evB vecB (propsOf evB vecB (dtOf I B))
        omega (basisOf B.basis) (nOpersOf I B) (nCoeffsOf I B) (dtOf I B)
        (startTimes (dtOf I B))))[a'][b'][o] ∧
    ∀ k l : Fin nK,
      (filterFunctionGen (controlMatrixFromScratch kind thr evA vecA (propsOf evA vecA (dtOf I A))
          omega (basisOf A.basis) (nOpersOf I A) (nCoeffsOf I A) (dtOf I A)
          (startTimes (dtOf I A))))[a][b][k][l][o]
        = (filterFunctionGen (controlMatrixFromScratch kind thr evB vecB
          (propsOf evB vecB (dtOf I B)) omega (basisOf B.basis) (nOpersOf I B) (nCoeffsOf I B)
          (dtOf I B) (startTimes (dtOf I B))))[a'][b'][k][l][o] := by
  have hcm := fun (x : Fin A.nTerms.length) (x' : Fin B.nTerms.length)
      (hx : (A.nTerms[x.1]).id = (B.nTerms[x'.1]).id) (k : Fin nK) =>
    eq_model_same_control_matrix I basisOf A B hA hB pA pB h hnd kind thr hthr evA vecA evB vecB
      hEA hEB omega x x' hx k o hmA hmB
  constructor
  · rw [C01.ff_fidelity_def, C01.ff_fidelity_def]
    exact Finset.sum_congr rfl fun k _ => by rw [hcm a a' hida k, hcm b b' hidb k]
  · intro k l
    rw [C01.ff_generalized_def, C01.ff_generalized_def, hcm a a' hida k, hcm b b' hidb l]

/-- non-vacuity of the mask hypotheses `hmA`, `hmB`: in dimension `d = 1` (all eigenvalue differences
vanish) with the exact kernel (`kind = .neZero`) they hold at every frequency `ω ≠ 0`, for every pulse
and every `eigh` output -/
example (I : Interp 1) (p : PulseData) (ev : Mat ℝ p.dt.length 1) (thr : ℝ) (omega : Vec ℝ 1)
    (hω : omega[0] ≠ 0) (g : Fin p.dt.length) (m n : Fin 1) :
    firstOrderMask .neZero thr (omega[(0 : Fin 1)] + (ev[g][m] - ev[g][n])) (dtOf I p)[g] = true := by
  have hmn : m = n := Subsingleton.elim _ _
  subst hmn
  simp only [firstOrderMask, ropsLt, ropsAbs, decide_eq_true_eq, sub_self, add_zero]
  exact abs_pos.mpr hω

end FFVerif.C17
