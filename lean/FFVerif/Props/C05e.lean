/-
C05e — Register bookkeeping of `extend`: `_merge_attrs` / `_insert_attrs` put the tensor factors of
every mapped pulse at the position of their qubit, for any number of pulses and any interleaving.

Model: `FFVerif/Model/Registers.lean` (`bisect`, `insort`, `mergeAttrs`, `insertAttrs`,
`extendRegisters`; the factor orders of `util.tensor_merge` / `util.tensor_insert` are those of
`Model/Tensor.lean`, property C16; cross-checked against the real helpers and the real `extend` by
`py/xcheck_registers.py`).  A chain is the list of the qubit labels of its factors; the state of the
loop is `some (chain, registers)` or `none` (`registers is None`).
Vocabulary (`Lemmas/RegistersAux.lean`): `countLE l x` — number of elements `≤ x`;
`l.Pairwise (· < ·)` — "sorted and duplicate-free"; `insertSpec` (C16) — `numpy.insert` on chains:
positions refer to the chain BEFORE anything is inserted.

HYPOTHESES the code needs (all guaranteed by `extend` before the loops run):
 H1  every multi-qubit block is ascending in the tensor order of its pulse — `extend` sorts the
     qubit tuple and `remap`s the pulse (l. 2287-2299).  Needed for the FIRST block (it is taken
     over as it is, `registers = qubits.copy()`) and whenever two qubits of a block fall into the
     same gap of the registers (`tensor_merge` keeps the block order for tied positions); see
     `unsorted_block_counterexamples`.
 H2  no qubit twice ("Qubit clash", l. 2324-2326) and every qubit `< N` (l. 2328-2334).
 H3  `N ≤ 26`: `tensor_merge` names the `2·N` axes with `string.ascii_letters` (52 letters); beyond
     it raises `ValueError`.  (Irrelevant in practice: `d = 2^27`.)

DEVIATIONS / remarks (code versus docstrings), found while modelling:
 R1  `ID_idx = list(all_qubits.difference(active_qubits))` is a list made from a `set`, so the
     order of the idle qubits handed to `_merge_attrs` is CPython's set order, which is ascending
     for `N ≤ 8` but not in general: `N = 9`, qubits `0..4` active gives `ID_idx = [8, 5, 6, 7]`
     (Python 3.12).  Harmless ONLY because the merged block is an identity, whose factors are
     indistinguishable: `idle_order_irrelevant`.  With labelled factors the chain would be
     `0,…,4,8,5,6,7` (example below).  A `sorted(...)` would make the code independent of that.
 R2  The return annotation of both helpers is `Tuple[ndarray, List[int]]`; a LIST of arrays is
     returned.  `registers` is updated in place (`bisect.insort` on the argument) and returned; on
     the first call `_merge_attrs` returns the list `new_attrs` itself (no copy of the arrays) but a
     copy of `qubits`.  The docstrings ("merge into the tensor product array defined on the qubit
     registers in old_attrs at qubits") do not say that `qubits` must be ascending, nor that
     `registers` must be sorted and must describe `old_attrs` (`len(registers)` is used as the
     number of factors of `old_attrs`).
 R3  `_insert_attrs` keeps "chain = registers" for EVERY register list, sorted or not
     (`insert_keeps_chain_eq_registers`); `_merge_attrs` does not
     (`unsorted_block_counterexamples`).
-/
import FFVerif.Lemmas.RegistersAux

namespace FFVerif.C05e
open FFVerif.Model.Tensor FFVerif.Model.Registers FFVerif.TensorAux FFVerif.RegistersAux

/-! ### 1. `bisect` and `insort` -/

/-- **`bisect` / `insort` on sorted lists.**  For every list `l` sorted ascending (repetitions
allowed) and every `x`: the binary search `bisect.bisect(l, x)` returns the number of elements
`≤ x`; `bisect.insort(l, x)` gives a sorted list again that consists of the elements of `l` and one
more `x`. -/
theorem bisect_sorted (l : List Nat) (x : Nat) (hs : l.Pairwise (· ≤ ·)) :
    bisect l x = (l.filter (· ≤ x)).length ∧
      (insort l x).Pairwise (· ≤ ·) ∧ (insort l x).Perm (x :: l) := by
  refine ⟨?_, insort_sorted l x hs⟩
  rw [bisect_eq_countLE l x hs, countLE, List.countP_eq_length_filter]

/-- … and a duplicate-free sorted list stays duplicate-free when `x` is new. -/
theorem insort_strict (l : List Nat) (x : Nat) (hs : l.Pairwise (· < ·)) (hx : x ∉ l) :
    (insort l x).Pairwise (· < ·) ∧ (insort l x).Perm (x :: l) :=
  RegistersAux.insort_strict l x hs hx

/-- For ANY list (sorted or not) the binary search stops inside the list: `bisect l x ≤ len(l)`, so
the position is always accepted by `tensor_insert` / `tensor_merge`. -/
theorem bisect_le_length (l : List Nat) (x : Nat) : bisect l x ≤ l.length :=
  RegistersAux.bisect_le_length l x

example : bisect [0, 2, 2, 5] 2 = 3 ∧ bisect [0, 2, 2, 5] 1 = 1 ∧ bisect [0, 2, 2, 5] 7 = 4
    ∧ insort [0, 2, 2, 5] 3 = [0, 2, 2, 3, 5] ∧ bisect [] 3 = 0 := by decide
/-- the real binary search on an unsorted list (not the count of elements `≤ x`, which is 1) -/
example : bisect [2, 0] 1 = 2 ∧ insort [2, 0] 1 = [2, 0, 1] := by decide

/-! ### 2. one call of `_merge_attrs` / `_insert_attrs` -/

/-- `registers is None`: the block / the factor is taken over as it is. -/
theorem first_step (qubits : List Nat) (q : Nat) :
    mergeAttrs none qubits = .ok (some (qubits, qubits)) ∧
      insertAttrs none q = .ok (some ([q], [q])) := ⟨rfl, rfl⟩

/-- **`_merge_attrs` keeps the chain sorted by qubit.**  Let the chain be labelled exactly like
`registers`, a sorted duplicate-free list, and let `qubits` be sorted, duplicate-free and disjoint
from `registers`, with at most 26 qubits altogether.  Then `_merge_attrs` succeeds, the new chain is
again labelled exactly like the new `registers`, and these are the sorted merge of both lists:
sorted, duplicate-free, with the elements of `registers` and `qubits`.  (`r` is also the result of
the `insort` loop, last conjunct.) -/
theorem merge_step (regs qubits : List Nat) (hs : regs.Pairwise (· < ·))
    (hq : qubits.Pairwise (· < ·)) (hd : ∀ q ∈ qubits, q ∉ regs)
    (hlet : qubits.length + regs.length ≤ 26) :
    ∃ r, mergeAttrs (some (regs, regs)) qubits = .ok (some (r, r)) ∧
      r.Pairwise (· < ·) ∧ r.Perm (regs ++ qubits) ∧ r = insortAll regs qubits := by
  obtain ⟨h1, h2, h3, h4⟩ := mergeAttrs_some regs qubits hs hq hd (by omega)
  exact ⟨insortAll regs qubits, by rw [h1, h2], h3, h4, rfl⟩

example : mergeAttrs (some ([0, 1, 3, 6], [0, 1, 3, 6])) [2, 4, 5]
    = .ok (some ([0, 1, 2, 3, 4, 5, 6], [0, 1, 2, 3, 4, 5, 6])) := by decide

/-- **`_insert_attrs` keeps the chain sorted by qubit.**  Chain labelled like the sorted
duplicate-free `registers`, `q` not yet present: the new chain is labelled like the new
`registers`, which is sorted, duplicate-free and has exactly `q` added.  Any number of qubits
(`tensor_insert` with an integer position; the letter limit of its einsum is not part of the
model). -/
theorem insert_step (regs : List Nat) (q : Nat) (hs : regs.Pairwise (· < ·)) (hd : q ∉ regs) :
    ∃ r, insertAttrs (some (regs, regs)) q = .ok (some (r, r)) ∧
      r.Pairwise (· < ·) ∧ r.Perm (regs ++ [q]) ∧ r = insort regs q := by
  have h := RegistersAux.insort_strict regs q hs hd
  exact ⟨insort regs q, insertAttrs_some regs q, h.1,
    h.2.trans (List.perm_append_singleton q regs).symm, rfl⟩

example : insertAttrs (some ([0, 1, 3, 6], [0, 1, 3, 6])) 4
    = .ok (some ([0, 1, 3, 4, 6], [0, 1, 3, 4, 6])) := by decide

/-- (R3) `_insert_attrs` keeps the chain labelled like `registers` for EVERY register list, sorted
or not: the factor goes where `insort` puts the label. -/
theorem insert_keeps_chain_eq_registers (regs : List Nat) (q : Nat) :
    insertAttrs (some (regs, regs)) q = .ok (some (insort regs q, insort regs q)) :=
  insertAttrs_some regs q

/-- If `len(registers)` is not the number of factors of the chain both helpers fail (`ValueError`
from the `reshape` with `arr_dims=[[d]*len(registers)]*2`). -/
theorem length_mismatch (chain regs qubits : List Nat) (q : Nat) (h : chain.length ≠ regs.length) :
    mergeAttrs (some (chain, regs)) qubits = .error "ValueError" ∧
      insertAttrs (some (chain, regs)) q = .error "ValueError" := by
  unfold mergeAttrs insertAttrs
  simp [h]

/-! ### 3. the loops of `extend` -/

/-- **The extended operator is the tensor product in ascending qubit order.**  For every list
`multi` of qubit blocks and every list `single` of qubits — any number of pulses, any interleaving
of their qubits — such that every block is ascending (H1), no qubit occurs twice, all qubits are
`< N` (H2) and `1 ≤ N ≤ 26` (H3): the loops of `extend` (merge the multi-qubit pulses, insert the
single-qubit pulses, merge an identity block for the idle qubits) succeed and end with the chain
`[0, 1, …, N-1]` = `registers`: every factor sits at the position of its qubit, idle qubits are
filled. -/
theorem extend_registers_sorted (multi : List (List Nat)) (single : List Nat) (N : Nat)
    (hb : ∀ b ∈ multi, b.Pairwise (· < ·)) (hn : (multi.flatten ++ single).Nodup)
    (hlt : ∀ q ∈ multi.flatten ++ single, q < N) (hN : 0 < N) (hN26 : N ≤ 26) :
    extendRegisters multi single N = .ok (some (List.range N, List.range N)) := by
  have hlen := length_le_of_nodup_lt _ N hn hlt
  obtain ⟨s1, s2, h1, h2, h3, h4⟩ := extend_prefix multi single hb hn (by omega)
  obtain ⟨i1, i2, i3⟩ := idle_facts _ N hn hlt
  unfold extendRegisters extendRegistersIdle
  simp only [h1, h2]
  generalize idleQubits (multi.flatten ++ single) N = idle at i1 i2 i3
  split
  · -- no idle qubit
    rename_i he
    have he : idle = [] := by simpa using he
    subst he
    rw [List.append_nil] at i3
    have hp := h4.trans i3
    cases s2 with
    | none =>
      have := hp.length_eq
      simp [regsOf] at this
      omega
    | some p =>
      obtain ⟨c, r⟩ := p
      obtain ⟨rfl, hs⟩ := h3 c r rfl
      rw [eq_of_strict_of_perm hs List.pairwise_lt_range hp]
  · have hd : ∀ q ∈ idle, q ∉ regsOf s2 := fun q hq hr => i2 q hq (h4.mem_iff.1 hr)
    have hl : (idle.length + (regsOf s2).length) * 2 ≤ 52 := by
      have := i3.length_eq
      rw [List.length_append, List.length_range, ← h4.length_eq] at this
      omega
    obtain ⟨r, e1, e2, e3⟩ := mergeAttrs_inv s2 idle h3 i1 hd hl
    rw [e1, eq_of_strict_of_perm e2 List.pairwise_lt_range
      (e3.trans ((h4.append_right idle).trans i3))]

/-- the 5-qubit interleavings `(0,1),(2,4),3` and `(3,4),(0,2),1`, an idle qubit in the middle, only
single-qubit pulses in descending order, one block plus idle qubits on both sides -/
example : extendRegisters [[0, 1], [2, 4]] [3] 5 = .ok (some ([0, 1, 2, 3, 4], [0, 1, 2, 3, 4]))
    ∧ extendRegisters [[3, 4], [0, 2]] [1] 5 = .ok (some ([0, 1, 2, 3, 4], [0, 1, 2, 3, 4]))
    ∧ extendRegisters [[0, 4]] [3, 1] 5 = .ok (some ([0, 1, 2, 3, 4], [0, 1, 2, 3, 4]))
    ∧ extendRegisters [] [4, 2, 3, 0, 1] 5 = .ok (some ([0, 1, 2, 3, 4], [0, 1, 2, 3, 4]))
    ∧ extendRegisters [[1, 3]] [] 5 = .ok (some ([0, 1, 2, 3, 4], [0, 1, 2, 3, 4]))
    ∧ extendRegisters [[1, 5, 6], [0, 3]] [4] 8
      = .ok (some ([0, 1, 2, 3, 4, 5, 6, 7], [0, 1, 2, 3, 4, 5, 6, 7])) :=
  ⟨by decide, by decide, by decide, by decide, by decide, by decide⟩

/-- the intermediate states of `(3,4),(0,2),1` on 5 qubits -/
example : mergeAll none [[3, 4], [0, 2]] = .ok (some ([0, 2, 3, 4], [0, 2, 3, 4]))
    ∧ insertAll (some ([0, 2, 3, 4], [0, 2, 3, 4])) [1]
      = .ok (some ([0, 1, 2, 3, 4], [0, 1, 2, 3, 4]))
    ∧ idleQubits [3, 4, 0, 2, 1] 5 = [] ∧ idleQubits [1, 3] 5 = [0, 2, 4] := by decide

/-- the hypotheses of `extend_registers_sorted` hold for the first interleaving -/
example : (∀ b ∈ [[0, 1], [2, 4]], b.Pairwise (· < ·)) ∧ ([[0, 1], [2, 4]].flatten ++ [3]).Nodup
    ∧ (∀ q ∈ [[0, 1], [2, 4]].flatten ++ [3], q < 5) := by decide

/-- H3 is a limit of the model's `tensor_merge` (52 axis letters): 27 qubits in two blocks -/
example : extendRegisters [List.range 26, [26]] [] 27 = .error "ValueError" := by decide

/-- (H1) **What goes wrong with a block that is not ascending** (the reason why `extend` sorts the
qubit tuple and remaps the pulse).  (a) A first block `(2, 0)` is taken over as it is: `registers`
is unsorted, the chain is `2, 0` and a later pulse on qubit 1 is appended BEHIND both.  (b) A later
block `(2, 1)` whose qubits fall into the same gap keeps its order: chain `0, 2, 1` while
`registers` says `0, 1, 2`.  (c) A later unsorted block whose qubits fall into different gaps is
placed correctly. -/
theorem unsorted_block_counterexamples :
    extendRegisters [[2, 0]] [1] 3 = .ok (some ([2, 0, 1], [2, 0, 1])) ∧
    mergeAttrs (some ([0], [0])) [2, 1] = .ok (some ([0, 2, 1], [0, 1, 2])) ∧
    mergeAttrs (some ([1], [1])) [2, 0] = .ok (some ([0, 1, 2], [0, 1, 2])) := by decide

/-! ### 4. the positions are those BEFORE the merge -/

/-- **The positions of `_merge_attrs` are computed against the registers before the block is
merged, and that is what `tensor_merge` expects.**  For sorted `registers` (length of the chain =
`len(registers)`, at most 26 qubits): every position is the number of OLD registers `≤ q`, none of
them is updated while the block is processed, and `tensor_merge` (C16 `mergeResult_spec`) returns
`insertSpec` of these positions — the `numpy.insert` convention "indices in the original chain
before which the constituents of `ins` are inserted".  Under the hypotheses of `merge_step` this
chain is the `insort`ed register list. -/
theorem positions_before_merge (chain regs qubits : List Nat) (hs : regs.Pairwise (· ≤ ·))
    (hlen : chain.length = regs.length) (hlet : qubits.length + regs.length ≤ 26) :
    mergePositions regs qubits = qubits.map (fun q => (countLE regs q : Int)) ∧
    mergeResult chain qubits (mergePositions regs qubits) 2
      = .ok (insertSpec 0 chain (qubits.map fun q => (countLE regs q, q))) ∧
    (chain = regs → regs.Pairwise (· < ·) → qubits.Pairwise (· < ·) → (∀ q ∈ qubits, q ∉ regs) →
      insertSpec 0 chain (qubits.map fun q => (countLE regs q, q)) = insortAll regs qubits) := by
  refine ⟨?_, mergeResult_keyed chain regs qubits hs hlen (by omega), ?_⟩
  · unfold mergePositions
    apply List.map_congr_left
    intro q _
    rw [bisect_eq_countLE regs q hs]
  · rintro rfl hs' hq hd
    exact (mergeAttrs_some chain qubits hs' hq hd (by omega)).2.1

/-- block `(2, 4)` into `0, 1, 3`: positions `2, 3` (both against `0, 1, 3`) -/
example : mergePositions [0, 1, 3] [2, 4] = [2, 3]
    ∧ mergeResult [0, 1, 3] [2, 4] [2, 3] 2 = .ok [0, 1, 2, 3, 4]
    ∧ insertSpec 0 [0, 1, 3] [(2, 2), (3, 4)] = [0, 1, 2, 3, 4] := by decide

/-- slip 1 (NOT the code): positions computed one after the other against registers that are
already updated -/
def mergePositionsIncremental (regs : List Nat) : List Nat → List Int
  | [] => []
  | q :: qs => (bisect regs q : Int) :: mergePositionsIncremental (insort regs q) qs

/-- slip 2 (NOT the code): `for p, q in zip(pos, qubits): registers.insert(p, q)` with the positions
computed before the merge, instead of `bisect.insort(registers, q)` -/
def insertAtAll (regs : List Nat) : List (Nat × Nat) → List Nat
  | [] => regs
  | (p, q) :: rest => insertAtAll (insertAt regs p q) rest

/-- the repaired form of slip 2: `registers.insert(p + i, q)` for the `i`-th qubit -/
def insertAtAllShift (i : Nat) (regs : List Nat) : List (Nat × Nat) → List Nat
  | [] => regs
  | (p, q) :: rest => insertAtAllShift (i + 1) (insertAt regs (p + i) q) rest

/-- **Counterexamples for the two realistic slips.**  (1) Positions updated in between: block
`(2, 3)` into `0, 1, 4` gets positions `2, 3` instead of `2, 2` and `tensor_merge` returns the chain
`0, 1, 2, 4, 3`; block `(2, 4)` into `0, 1, 3` gets `2, 4` and `tensor_merge` raises `IndexError`
(position 4 in a chain of 3 factors).  (2) Updating the registers with `registers.insert(p, q)` at
the positions computed before the merge: block `(1, 3)` into `0, 2, 4` (the two qubits are not
adjacent in the result) has positions `1, 2` and yields the unsorted registers `0, 1, 3, 2, 4`
(`insort`: `0, 1, 2, 3, 4`); a block falling into one gap, `(1, 2)` into `0, 3`, yields
`0, 2, 1, 3`.  With `p + i` both come out right. -/
theorem slips_counterexamples :
    (mergePositionsIncremental [0, 1, 4] [2, 3] = [2, 3] ∧ mergePositions [0, 1, 4] [2, 3] = [2, 2]
      ∧ mergeResult [0, 1, 4] [2, 3] (mergePositionsIncremental [0, 1, 4] [2, 3]) 2
        = .ok [0, 1, 2, 4, 3]
      ∧ mergeResult [0, 1, 4] [2, 3] (mergePositions [0, 1, 4] [2, 3]) 2 = .ok [0, 1, 2, 3, 4]
      ∧ mergeResult [0, 1, 3] [2, 4] (mergePositionsIncremental [0, 1, 3] [2, 4]) 2
        = .error "IndexError") ∧
    (mergePositions [0, 2, 4] [1, 3] = [1, 2]
      ∧ insertAtAll [0, 2, 4] [(1, 1), (2, 3)] = [0, 1, 3, 2, 4]
      ∧ insortAll [0, 2, 4] [1, 3] = [0, 1, 2, 3, 4]
      ∧ insertAtAll [0, 3] [(1, 1), (1, 2)] = [0, 2, 1, 3]
      ∧ insertAtAllShift 0 [0, 2, 4] [(1, 1), (2, 3)] = [0, 1, 2, 3, 4]
      ∧ insertAtAllShift 0 [0, 3] [(1, 1), (1, 2)] = [0, 1, 2, 3]) := by decide

/-! ### 5. the order of the idle qubits -/

/-- (R1) **The order in which Python lists the idle qubits does not matter — because the block is
an identity.**  Under H1–H3 and with at least one mapped qubit, let `idle` be the idle qubits in
ANY order (a permutation of `idleQubits`), and let `f` be any relabelling that does not distinguish
the idle qubits (`f q = c` for all of them — all factors of `np.eye(d**len(ID_idx))` are the same
matrix).  Then the loops succeed, `registers` ends as `[0, …, N-1]`, and the final chain read
through `f` is `[0, …, N-1]` read through `f`: every pulse factor sits at the position of its qubit
and all other positions hold identity factors. -/
theorem idle_order_irrelevant (multi : List (List Nat)) (single idle : List Nat) (N : Nat)
    (hb : ∀ b ∈ multi, b.Pairwise (· < ·)) (hn : (multi.flatten ++ single).Nodup)
    (hlt : ∀ q ∈ multi.flatten ++ single, q < N) (hne : multi.flatten ++ single ≠ [])
    (hN26 : N ≤ 26) (hidle : idle.Perm (idleQubits (multi.flatten ++ single) N))
    (f : Nat → Nat) (c : Nat) (hf : ∀ q ∈ idle, f q = c) :
    ∃ chain, extendRegistersIdle multi single idle = .ok (some (chain, List.range N)) ∧
      chain.map f = (List.range N).map f := by
  have hlen := length_le_of_nodup_lt _ N hn hlt
  obtain ⟨s1, s2, h1, h2, h3, h4⟩ := extend_prefix multi single hb hn (by omega)
  obtain ⟨i1, i2, i3⟩ := idle_facts _ N hn hlt
  have i3' : (multi.flatten ++ single ++ idle).Perm (List.range N) :=
    (hidle.append_left _).trans i3
  unfold extendRegistersIdle
  simp only [h1, h2]
  cases s2 with
  | none =>
    have := h4.length_eq
    simp only [regsOf, List.length_nil] at this
    exact absurd (List.eq_nil_of_length_eq_zero this.symm) hne
  | some p =>
    obtain ⟨c', r⟩ := p
    obtain ⟨rfl, hs⟩ := h3 c' r rfl
    simp only [regsOf] at h4
    split
    · rename_i he
      have he : idle = [] := by simpa using he
      subst he
      rw [List.append_nil] at i3'
      rw [eq_of_strict_of_perm hs List.pairwise_lt_range (h4.trans i3')]
      exact ⟨_, rfl, rfl⟩
    · have hd : ∀ q ∈ idle, q ∉ c' := fun q hq hr => i2 q (hidle.mem_iff.1 hq) (h4.mem_iff.1 hr)
      have hl : (idle.length + c'.length) * 2 ≤ 52 := by
        have := i3'.length_eq
        rw [List.length_append, List.length_range, ← h4.length_eq] at this
        omega
      obtain ⟨chain, e1, e2, e3, e4⟩ := mergeAttrs_collapse c' idle hs
        (hidle.nodup_iff.2 (nodup_of_strict i1)) hd hl f c hf
      have er : insortAll c' idle = List.range N :=
        eq_of_strict_of_perm e3 List.pairwise_lt_range
          (e4.trans ((h4.append_right idle).trans i3'))
      rw [er] at e1 e2
      exact ⟨chain, e1, e2⟩

/-- `N = 9`, qubits `0..4` active: CPython lists the idle qubits as `8, 5, 6, 7`.  With labelled
factors the chain would end `…, 8, 5, 6, 7` (registers sorted); read through a relabelling that
identifies the idle qubits it is the sorted chain. -/
example : extendRegistersIdle [[0, 1, 2, 3, 4]] [] [8, 5, 6, 7]
      = .ok (some ([0, 1, 2, 3, 4, 8, 5, 6, 7], [0, 1, 2, 3, 4, 5, 6, 7, 8]))
    ∧ [0, 1, 2, 3, 4, 8, 5, 6, 7].map (fun q => if q < 5 then q else 9)
      = (List.range 9).map (fun q => if q < 5 then q else 9)
    ∧ idleQubits [0, 1, 2, 3, 4] 9 = [5, 6, 7, 8] := by decide

end FFVerif.C05e
