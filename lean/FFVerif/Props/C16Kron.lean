/-
Property C16 (numeric part) — the tensor helpers of `util.py` compute the documented Kronecker
chains *numerically*, not only the documented factor order.

Objects: the executable array model `FFVerif.Model.TensorNum` (`rank = 2`, no broadcast axes):
`tensorChainNum` = `util.tensor(*args)`, `tensorTransposeNum` = `util.tensor_transpose`,
`tensorInsertNum` = `util.tensor_insert`, `tensorMergeNum` = `util.tensor_merge`, all computing on
shape + row-major buffer with reshape / einsum / transpose evaluated by mixed-radix index arithmetic.
Specification vocabulary (`FFVerif.TensorNumAux`): `IsMat`, `entry`, `kronEntry`, `IsChain`; here
`kronMat L`, the iterated `Matrix.kroneckerMap (· * ·)` of the list re-indexed row-major with
`finProdFinEquiv` (the mixed-radix equivalence of `mixedRadix_decode_encode` /
`mixedRadix_encode_decode`, one factor at a time).

The scalars are an arbitrary commutative semiring (ℝ, ℂ in particular).
-/
import FFVerif.Lemmas.TensorNumTransAux
import Mathlib.LinearAlgebra.Matrix.Kronecker
import Mathlib.Logic.Equiv.Fin.Basic
import Mathlib.Data.Complex.Basic

namespace FFVerif.C16Kron
open FFVerif.Model.Tensor FFVerif.Model.TensorNum FFVerif.TensorAux FFVerif.TensorNumAux

variable {α : Type} [CommSemiring α]

/-! ### the specification: iterated Kronecker product -/

/-- a two-dimensional array as a Mathlib matrix -/
def toMatrix (A : NArr α) : Matrix (Fin (nrows A)) (Fin (ncols A)) α := fun i j => entry A i j

/-- `L[0] ⊗ L[1] ⊗ …` (right-nested `Matrix.kroneckerMap (· * ·)`), each product re-indexed
row-major by `finProdFinEquiv : Fin m × Fin n ≃ Fin (m * n)`; the empty product is the `1 × 1`
matrix `1`. -/
def kronMat : (L : List (NArr α)) → Matrix (Fin (prod (rowsOf L))) (Fin (prod (colsOf L))) α
  | [] => fun _ _ => 1
  | A :: L => Matrix.reindex finProdFinEquiv finProdFinEquiv
      (Matrix.kroneckerMap (· * ·) (toMatrix A) (kronMat L))

theorem kronMat_cons_apply (A : NArr α) (L : List (NArr α))
    (i : Fin (nrows A * prod (rowsOf L))) (j : Fin (ncols A * prod (colsOf L))) :
    kronMat (A :: L) i j = entry A (i.1 / prod (rowsOf L)) (j.1 / prod (colsOf L)) *
      kronMat L (finProdFinEquiv.symm i).2 (finProdFinEquiv.symm j).2 := by
  show (Matrix.reindex finProdFinEquiv finProdFinEquiv
    (Matrix.kroneckerMap (· * ·) (toMatrix A) (kronMat L))) i j = _
  rw [Matrix.reindex_apply, Matrix.submatrix_apply, Matrix.kroneckerMap_apply]
  simp [toMatrix, finProdFinEquiv, Fin.divNat]

/-- closed form of the iterated Kronecker product: the element with row digits `x` and column
digits `y` (mixed radix over the factor dimensions) is `∏ₖ L[k][x[k], y[k]]` -/
theorem kronMat_apply (L : List (NArr α)) (i : Fin (prod (rowsOf L))) (j : Fin (prod (colsOf L))) :
    kronMat L i j
      = kronEntry L (mixedRadixDecode (rowsOf L) i.1) (mixedRadixDecode (colsOf L) j.1) := by
  induction L with
  | nil => simp [kronMat, kronEntry, rowsOf, colsOf, mixedRadixDecode]
  | cons A L ih =>
    refine (kronMat_cons_apply A L i j).trans ?_
    rw [ih]
    simp [kronEntry, rowsOf, colsOf, mixedRadixDecode, finProdFinEquiv, Fin.modNat]
    rfl

/-- `IsChain T L` in Mathlib terms: `T` is the row-major buffer of `kronMat L` -/
theorem isChain_iff_kronMat (T : NArr α) (L : List (NArr α)) :
    IsChain T L ↔ T.shape = [prod (rowsOf L), prod (colsOf L)] ∧
      T.data.size = prod (rowsOf L) * prod (colsOf L) ∧
      ∀ (i : Fin (prod (rowsOf L))) (j : Fin (prod (colsOf L))),
        T.at (i.1 * prod (colsOf L) + j.1) = kronMat L i j := by
  constructor
  · intro h
    exact ⟨h.shape, h.size, fun i j => by rw [kronMat_apply]; exact h.entry _ _ i.2 j.2⟩
  · rintro ⟨h1, h2, h3⟩
    exact ⟨h1, h2, fun i j hi hj => by
      have := h3 ⟨i, hi⟩ ⟨j, hj⟩
      rw [kronMat_apply] at this
      exact this⟩

/-! ### `util.tensor` -/

/-- **`util.tensor(*L)` is the Kronecker product of the list.**  For every non-empty list `L` of
well-formed matrices (arbitrary, heterogeneous, also non-square shapes) the model of
`util.tensor` — binary-tree evaluation order, one `einsum('ab,cd->acbd')` + `reshape` per pair —
succeeds, returns an array of shape `(∏ rows, ∏ cols)` and its element `(i, j)` is the element
`(i, j)` of the iterated `Matrix.kroneckerMap (· * ·)` re-indexed row-major. -/
theorem tensorChain_eq_kron (L : List (NArr α)) (hne : L ≠ []) (hm : ∀ A ∈ L, IsMat A) :
    ∃ T, tensorChainNum L = .ok T ∧ T.shape = [prod (rowsOf L), prod (colsOf L)] ∧
      T.data.size = prod (rowsOf L) * prod (colsOf L) ∧
      ∀ (i : Fin (prod (rowsOf L))) (j : Fin (prod (colsOf L))),
        T.at (i.1 * prod (colsOf L) + j.1) = kronMat L i j := by
  obtain ⟨T, hT, hc⟩ := tensorChainNum_isChain L hne hm
  exact ⟨T, hT, (isChain_iff_kronMat T L).1 hc⟩

/-- the same with the digit-wise closed form: element `(i, j)` is `∏ₖ L[k][iₖ, jₖ]` where `iₖ`,
`jₖ` are the mixed-radix digits (`np.unravel_index`) of `i`, `j` over the factor dimensions -/
theorem tensorChain_entry (L : List (NArr α)) (hne : L ≠ []) (hm : ∀ A ∈ L, IsMat A) :
    ∃ T, tensorChainNum L = .ok T ∧ IsChain T L :=
  tensorChainNum_isChain L hne hm

/-! ### `util.tensor_transpose` -/

/-- **Transposing the formed product = forming the product of the permuted factor list.**
For every non-empty list `L` of well-formed matrices of arbitrary shapes and every `order` that is a
permutation of `0..len(L)-1`, `tensor_transpose(tensor(*L), order, arr_dims)` (reshape to the
factor dimensions, permute the axes, reshape back) succeeds and is *equal as an array* (shape and
buffer) to `tensor(*[L[o] for o in order])`. -/
theorem tensorTransposeNum_eq_chain (L : List (NArr α)) (o : List Nat) (hne : L ≠ [])
    (hm : ∀ A ∈ L, IsMat A) (hp : o.Perm (List.range L.length)) :
    ∃ T T', tensorChainNum L = .ok T ∧
      tensorTransposeNum T (o.map Int.ofNat) [rowsOf L, colsOf L] = .ok T' ∧
      tensorChainNum (o.map fun k => L.getD k default) = .ok T' := by
  obtain ⟨T, hT, hc⟩ := tensorChainNum_isChain L hne hm
  obtain ⟨T', hT', hc'⟩ := tensorTransposeNum_isChain T L o hne hc hp
  have hlen : o.length = L.length := perm_length hp
  have hne' : (o.map fun k => L.getD k default) ≠ [] := by
    intro h
    have := congrArg List.length h
    rw [List.length_map, hlen] at this
    exact hne (List.length_eq_zero_iff.1 this)
  have hm' : ∀ A ∈ (o.map fun k => L.getD k default), IsMat A := by
    intro A hA
    rw [List.mem_map] at hA
    obtain ⟨k, hk, rfl⟩ := hA
    have hlt := perm_lt hp hk
    apply hm
    rw [List.getD_eq_getElem?_getD, List.getElem?_eq_getElem hlt]
    exact List.getElem_mem hlt
  obtain ⟨T'', hT'', hc''⟩ := tensorChainNum_isChain _ hne' hm'
  rw [isChain_unique hc'' hc'] at hT''
  exact ⟨T, T', hT, hT', hT''⟩

/-- the same for any array that is a Kronecker chain of `L` (not necessarily produced by
`tensorChainNum`), in Mathlib terms: the result is the buffer of `kronMat` of the permuted list -/
theorem tensorTransposeNum_eq_kron (T : NArr α) (L : List (NArr α)) (o : List Nat) (hne : L ≠ [])
    (hT : IsChain T L) (hp : o.Perm (List.range L.length)) :
    ∃ T', tensorTransposeNum T (o.map Int.ofNat) [rowsOf L, colsOf L] = .ok T' ∧
      ∀ i j, T'.at (i.1 * prod (colsOf (o.map fun k => L.getD k default)) + j.1)
        = kronMat (o.map fun k => L.getD k default) i j := by
  obtain ⟨T', hT', hc'⟩ := tensorTransposeNum_isChain T L o hne hT hp
  exact ⟨T', hT', ((isChain_iff_kronMat _ _).1 hc').2.2⟩

/-! ### non-vacuity -/

/-- a `2 × 3` and a `1 × 2` integer matrix -/
def exA : NArr ℤ := ⟨[2, 3], #[1, 2, 3, 4, 5, 6]⟩
def exB : NArr ℤ := ⟨[1, 2], #[7, -1]⟩
def exC : NArr ℤ := ⟨[2, 1], #[2, 5]⟩

example : IsMat exA ∧ IsMat exB ∧ IsMat exC := ⟨⟨rfl, rfl⟩, ⟨rfl, rfl⟩, ⟨rfl, rfl⟩⟩

example : (tensorChainNum [exA, exB]).toOption.map (fun T => (T.shape, T.data))
    = some ([2, 6], #[7, -1, 14, -2, 21, -3, 28, -4, 35, -5, 42, -6]) := by decide

/-- heterogeneous, non-square factors; a non-trivial permutation -/
example : ((tensorChainNum [exA, exB, exC]).toOption.bind fun T =>
      (tensorTransposeNum T [2, 0, 1] [[2, 1, 2], [3, 2, 1]]).toOption).map
        (fun T => (T.shape, T.data))
    = (tensorChainNum [exC, exA, exB]).toOption.map (fun T => (T.shape, T.data)) := by decide

example : [2, 0, 1].Perm (List.range [exA, exB, exC].length) := by decide

end FFVerif.C16Kron
