/-
Property C16 (numeric part, continued) — `tensor_merge` and `tensor_insert` compute the documented
Kronecker chains numerically.

Objects: the executable array model `FFVerif.Model.TensorNum` (`rank = 2`, no broadcast axes),
`tensorMergeNum` = `util.tensor_merge`, `tensorInsertNum` = `util.tensor_insert`.
Specification vocabulary: `IsChain` / `kronMat` (`Props/C16Kron`), `insertSpec` (NumPy-`insert` on
lists, `FFVerif.TensorAux`), `normNat` (the index a position in `[-ndim, ndim]` stands for),
`mergeSigma I N np` (the factor order as indices into `ins-factors ++ arr-factors`).
-/
import FFVerif.Lemmas.TensorNumInsAux
import FFVerif.Props.C16Kron
import FFVerif.Props.C16

namespace FFVerif.C16Kron
open FFVerif.Model.Tensor FFVerif.Model.TensorNum FFVerif.TensorAux FFVerif.TensorNumAux

variable {α : Type} [CommSemiring α]

/-! ### `util.tensor_merge` -/

/-- the factor order used below is the one of `C16.mergeResult_spec`: with the factors of `arr`
labelled `I, …, I+N-1` and those of `ins` labelled `0, …, I-1`, the discrete model `mergeResult`
(subscripts of `tensor_merge`) returns `mergeSigma I N (normalised positions)` -/
theorem mergeSigma_eq_mergeResult (I N : Nat) (pos : List Int) (hl : pos.length = I)
    (hadm : ∀ p ∈ pos, -(N : Int) ≤ p ∧ p ≤ N) (hlet : (I + N) * 2 ≤ 52) :
    mergeResult (List.range' I N) (List.range I) pos 2
      = .ok (mergeSigma I N (pos.map (normNat N))) := by
  have := C16.mergeResult_spec (List.range' I N) (List.range I) pos 2 (by omega) (by simpa using hl)
    (by simpa using hadm) (by simpa using hlet)
  simpa [mergeSigma] using this

/-- **Merging two formed products = forming the product of the merged factor list** (`IsChain`
form).  For every non-empty chain `L` (`arr = L[0] ⊗ L[1] ⊗ …`) and every non-empty chain `A`
(`ins`), of arbitrary heterogeneous shapes, every position list of length `len(A)` with entries in
`[-len(L), len(L)]` (negative, repeated and end positions included) and as long as the 52 letters
suffice, `tensor_merge(arr, ins, pos, arr_dims, ins_dims)` succeeds and is the Kronecker chain of
`numpy.insert(L, pos, A)` (`insertSpec`, the order proved in `C16.mergeResult_spec`). -/
theorem tensorMergeNum_isChain' (T TA : NArr α) (L A : List (NArr α)) (pos : List Int)
    (hL : IsChain T L) (hA : IsChain TA A) (hLne : L ≠ []) (hAne : A ≠ [])
    (hl : pos.length = A.length)
    (hadm : ∀ p ∈ pos, -(L.length : Int) ≤ p ∧ p ≤ L.length)
    (hlet : (A.length + L.length) * 2 ≤ 52) :
    ∃ T', tensorMergeNum T TA pos [rowsOf L, colsOf L] [rowsOf A, colsOf A] = .ok T' ∧
      IsChain T' (insertSpec 0 L ((pos.map (normNat L.length)).zip A)) :=
  tensorMergeNum_isChain T TA L A pos hL hA hLne hAne hl hadm hlet

/-- members of the merged factor list are factors of `L` or `A` -/
theorem mem_insertSpec_merge (L A : List (NArr α)) (np : List Nat) (hl : np.length = A.length)
    (hadm : ∀ q ∈ np, q ≤ L.length) (X : NArr α) (hX : X ∈ insertSpec 0 L (np.zip A)) :
    X ∈ A ∨ X ∈ L := by
  rw [← mergeSigma_factors A L np hl] at hX
  obtain ⟨k, hk, rfl⟩ := List.mem_map.1 hX
  have hlt := perm_lt (mergeSigma_perm A.length L.length np hl hadm) hk
  have : (A ++ L).getD k default ∈ A ++ L := by
    rw [List.getD_eq_getElem?_getD, List.getElem?_eq_getElem (by simpa using hlt)]
    exact List.getElem_mem _
  exact List.mem_append.1 this

/-- **`tensor_merge(tensor(*L), tensor(*A), pos, …) = tensor(*numpy.insert(L, pos, A))` as arrays**
(shape and buffer), for all non-empty lists of well-formed matrices of arbitrary shapes and all
admissible position lists. -/
theorem tensorMergeNum_eq_chain (L A : List (NArr α)) (pos : List Int) (hLne : L ≠ [])
    (hAne : A ≠ []) (hmL : ∀ X ∈ L, IsMat X) (hmA : ∀ X ∈ A, IsMat X)
    (hl : pos.length = A.length)
    (hadm : ∀ p ∈ pos, -(L.length : Int) ≤ p ∧ p ≤ L.length)
    (hlet : (A.length + L.length) * 2 ≤ 52) :
    ∃ T TA T', tensorChainNum L = .ok T ∧ tensorChainNum A = .ok TA ∧
      tensorMergeNum T TA pos [rowsOf L, colsOf L] [rowsOf A, colsOf A] = .ok T' ∧
      tensorChainNum (insertSpec 0 L ((pos.map (normNat L.length)).zip A)) = .ok T' := by
  obtain ⟨T, hT, hcT⟩ := tensorChainNum_isChain L hLne hmL
  obtain ⟨TA, hTA, hcA⟩ := tensorChainNum_isChain A hAne hmA
  obtain ⟨T', hT', hc'⟩ := tensorMergeNum_isChain T TA L A pos hcT hcA hLne hAne hl hadm hlet
  have hnpl : (pos.map (normNat L.length)).length = A.length := by simp [hl]
  have hnpadm : ∀ q ∈ pos.map (normNat L.length), q ≤ L.length := by
    intro q hq
    obtain ⟨p, hp, rfl⟩ := List.mem_map.1 hq
    exact normNat_le (hadm p hp)
  have hm' : ∀ X ∈ insertSpec 0 L ((pos.map (normNat L.length)).zip A), IsMat X := by
    intro X hX
    rcases mem_insertSpec_merge L A _ hnpl hnpadm X hX with h | h
    · exact hmA X h
    · exact hmL X h
  have hne' : insertSpec 0 L ((pos.map (normNat L.length)).zip A) ≠ [] := by
    intro h
    have hp := mergeSigma_perm A.length L.length _ hnpl hnpadm
    have hlen := perm_length hp
    rw [← mergeSigma_factors A L _ hnpl] at h
    have := congrArg List.length h
    rw [List.length_map, hlen, List.length_nil] at this
    have hpos : 0 < L.length := List.length_pos_iff.2 hLne
    omega
  obtain ⟨T'', hT'', hc''⟩ := tensorChainNum_isChain _ hne' hm'
  rw [isChain_unique hc'' hc'] at hT''
  exact ⟨T, TA, T', hT, hTA, hT', hT''⟩

/-! ### `util.tensor_insert`, a single inserted factor -/

/-- `insertAt L q X` is the order of `C16.insertResult_spec` for one argument -/
theorem insertSpec_single {β : Type} (L : List β) (q : Nat) (X : β) (hq : q ≤ L.length) :
    insertSpec 0 L [(q, X)] = insertAt L q X := by
  rw [← insertSlot_eq_spec L [(q, X)] (by simpa using hq)]
  simp [sortByPos, stableSort, insertBy, insertLoop]

/-- **Inserting one factor into a formed product** (`IsChain` form): for every non-empty chain `L`
of arbitrary heterogeneous shapes, every well-formed matrix `X` and every position
`p ∈ [-len(L), len(L)]` (negative and end positions included; 52 letters must suffice),
`tensor_insert(arr, X, pos=(p,), arr_dims)` succeeds and is the Kronecker chain of `L` with `X`
inserted in front of the factor `p` stands for (`normNat`). -/
theorem tensorInsertNum_single_isChain' (T X : NArr α) (L : List (NArr α)) (p : Int)
    (hL : IsChain T L) (hX : IsMat X) (hLne : L ≠ [])
    (hadm : -(L.length : Int) ≤ p ∧ p ≤ L.length) (hlet : (L.length + 1) * 2 ≤ 52) :
    ∃ T', tensorInsertNum T [X] [p] [rowsOf L, colsOf L] = .ok T' ∧
      IsChain T' (insertAt L (normNat L.length p) X) :=
  tensorInsertNum_single_isChain T X L p hL hX hLne hadm hlet

/-- **`tensor_insert(tensor(*L), X, pos=(p,), …) = tensor(*numpy.insert(L, p, X))` as arrays**
(partial: ONE inserted factor; the full statement for several factors — the loop over the sorted
triples with the `carr_dims` bookkeeping — is not proved, see REPORT). -/
theorem tensorInsertNum_eq_chain_partial (L : List (NArr α)) (X : NArr α) (p : Int) (hLne : L ≠ [])
    (hmL : ∀ Y ∈ L, IsMat Y) (hX : IsMat X)
    (hadm : -(L.length : Int) ≤ p ∧ p ≤ L.length) (hlet : (L.length + 1) * 2 ≤ 52) :
    ∃ T T', tensorChainNum L = .ok T ∧
      tensorInsertNum T [X] [p] [rowsOf L, colsOf L] = .ok T' ∧
      tensorChainNum (insertAt L (normNat L.length p) X) = .ok T' := by
  obtain ⟨T, hT, hcT⟩ := tensorChainNum_isChain L hLne hmL
  obtain ⟨T', hT', hc'⟩ := tensorInsertNum_single_isChain T X L p hcT hX hLne hadm hlet
  have hm' : ∀ Y ∈ insertAt L (normNat L.length p) X, IsMat Y := by
    intro Y hY
    have := (insertAt_perm L (normNat L.length p) X).mem_iff.1 hY
    rcases List.mem_cons.1 this with h | h
    · rw [h]; exact hX
    · exact hmL Y h
  have hne' : insertAt L (normNat L.length p) X ≠ [] := by
    unfold insertAt; simp
  obtain ⟨T'', hT'', hc''⟩ := tensorChainNum_isChain _ hne' hm'
  rw [isChain_unique hc'' hc'] at hT''
  exact ⟨T, T', hT, hT', hT''⟩

/-! ### non-vacuity -/

example : ((tensorChainNum [exA, exB]).toOption.bind fun T =>
      (tensorChainNum [exC]).toOption.bind fun TA =>
      (tensorMergeNum T TA [-1] [[2, 1], [3, 2]] [[2], [1]]).toOption).map
        (fun T => (T.shape, T.data))
    = (tensorChainNum [exA, exC, exB]).toOption.map (fun T => (T.shape, T.data)) := by decide

example : ((tensorChainNum [exA, exB]).toOption.bind fun T =>
      (tensorInsertNum T [exC] [2] [[2, 1], [3, 2]]).toOption).map (fun T => (T.shape, T.data))
    = (tensorChainNum [exA, exB, exC]).toOption.map (fun T => (T.shape, T.data)) := by decide

example : normNat 2 (-1) = 1 ∧ insertSpec 0 [exA, exB] [(1, exC)] = insertAt [exA, exB] 1 exC :=
  ⟨by decide, insertSpec_single _ _ _ (by decide)⟩

end FFVerif.C16Kron
