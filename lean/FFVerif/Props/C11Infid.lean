/-
C11 (end to end) — the array returned by `gradient.infidelity_derivative` IS the derivative of the
modelled infidelity it differentiates.

Model: `Model/GradientInfid.lean` (`pulseInfidelityDerivative0/1`, `infidFilterFunctionDeriv`,
`pulseFilterFunctionDerivative`): `infidelity_derivative` and
`PulseSequence.get_filter_function_derivative` composed from the models of
`calculate_control_matrix_from_scratch`, `calculate_derivative_of_control_matrix_from_scratch`,
`calculate_filter_function_derivative`, the identity-component correction applied when
`n_coeffs_deriv` is given (repair of finding F49), the einsum `'...o,...tho->...tho'` and
`util.integrate`, with identifier selections `n_idx`, `c_idx` and `n_coeffs_deriv` (executed against
the real package by `corr_c11infid.py`, driver component `infidderiv`).

WHICH infidelity:
* without `n_coeffs_deriv`: `GradientInfidAux.fidelityIntegral dim ω S_a B_a`
  `= util.integrate(S_a · Σ_k |B_ak|², ω) / (2π·dim)` — the fidelity filter function summed over ALL
  basis elements; for constant sensitivities its derivative equals the one of `numeric.infidelity`
  (the identity component does not depend on the controls);
* with `n_coeffs_deriv`: `fidelityIntegral` MINUS the identity component
  `util.integrate(S_a |ι_a|², ω)/(2π·dim)`, `ι` = `identity_component` of the repaired code — for a
  basis with an identity element and a Hermitian noise operator this is the model of
  `numeric.infidelity`.

Vocabulary (`Lemmas/GradientInfidAux.lean`): `AmplitudeFamily H C g' eigvals eigvecs` — the family
of pulses with the amplitude of `C` shifted by `u` in segment `g'`, `eigh` contract for every `u`;
`LocalSensitivity s g' ds` — a sensitivity row that depends on `u` in segment `g'` only, with
derivative `ds` and `s(0)[g'] ≠ 0`; `selectNcd` — `n_coeffs_deriv[n_idx][:, c_idx]`;
`ofRealSpec` — a real spectrum as the complex array `numeric.infidelity` takes; `identityGap`
(`Lemmas/GradientInfidGapAux.lean`) — the derivative of the identity component.

1. `infidelityDeriv_hasDerivAt`       : constant sensitivities (`n_coeffs_deriv = None`), spectrum
                                        `(k, n_omega)` and `(n_omega,)`, selections included;
   `infidelityDeriv_uncorrected_hasDerivAt_sens` : control-dependent sensitivities, the UNCORRECTED
                                        trapezoid integral of `get_filter_function_derivative` (old output);
   `infidelityDeriv_hasDerivAt_sens`  : control-dependent sensitivities, the repaired output is the
                                        derivative of the identity-corrected integral;
2. `infidelityDeriv_selection`        : identifier selections return the `[n_idx, :, c_idx]` slice of the
                                        full derivative; a 2-d spectrum is indexed by the SELECTED operators;
3. `identity_component_independent_of_control` : the identity row of the control matrix (closed form);
   `fidelityIntegral_vs_numeric_infidelity`    : relation to the model of `numeric.infidelity`;
   `infidelityDeriv_is_numeric_infidelity_deriv` : constant sensitivities — the output is the derivative of
                                        the model of `numeric.infidelity`, noise operators with a trace included;
   `infidelityDeriv_uncorrected_gap`  : what the unrepaired function missed: `identityGap`
                                        (`identityGap_vanishes`, non-zero example);
   `identityGap_is_subtracted`        : repaired output = old output − `identityGap`;
   `infidelityDeriv_is_numeric_infidelity_deriv_sens` : control-dependent sensitivities — the repaired
                                        output is the derivative of the model of `numeric.infidelity`
                                        for ALL (Hermitian) noise operators, traceless or not.

Property theorems only (helper lemmas: `Lemmas/GradientInfidAux.lean`, `GradientInfidIdAux.lean`,
`GradientInfidGapAux.lean`, `GradientInfidFixAux.lean`).
-/
import FFVerif.Lemmas.GradientInfidFixAux

namespace FFVerif.C11
open FFVerif FFVerif.Model FFVerif.GradientAux FFVerif.GradientAsmAux FFVerif.GradientInfidAux
  FFVerif.CmDerivAux Matrix Complex
open FFVerif.C02 (IsEigh)
open scoped Matrix

/-! ### 1. the returned array is the derivative of the modelled infidelity -/

/-- **`infidelity_derivative` is the derivative of the modelled infidelity (constant
sensitivities, `n_coeffs_deriv = None`).**

One-parameter family of pulses (`AmplitudeFamily`): the amplitude of the SELECTED control operator
`c_opers[c_idx[h]]` is shifted by `u` in segment `g'` (`H_{g'} + u C`), all other segments keep
`H_g`; for every `u` the arrays `eigvals u`, `eigvecs u` satisfy the `eigh` contract (not assumed
continuous in `u`), the cumulative propagators are the model's `propagators`.  `nOpers`, `nCoeffs`,
`cOpers` are ALL operators of the pulse, `nIdx`, `cIdx` the index lists of the identifier selections
(any order, repetitions allowed), `dim = pulse.d`.  Then, for the selected noise operator number `a`
(`= n_opers[n_idx[a]]`),

  `u ↦ util.integrate(S_a(ω) · Σ_k |B_{n_idx[a],k}(ω; u)|², ω) / (2π·dim)`   (`fidelityIntegral`)

— `B(u)` the model of `calculate_control_matrix_from_scratch` of the perturbed pulse — has at
`u = 0` the derivative `infid_deriv[a][g'][h]` returned by the model of `infidelity_derivative`
evaluated on the unperturbed pulse, for a spectrum of shape `(len(n_idx), n_omega)` (row `a` belongs
to the `a`-th SELECTED operator) and for a spectrum of shape `(n_omega,)`.

Hypotheses (at every frequency of the grid; as in `controlMatrixDeriv_hasDerivAt`): Hermitian,
orthonormal and complete operator basis; no pair of levels of segment `g'` in the grey zone of the
`A_mat` mask; none of the masked quantities of `_derivative_integral` in the grey zone; no
first-order integral in its truncated branch for `u` near `0`.  No assumption on the grid (sorted or
not, any number of points), the spectrum, the sign of `dt`, degeneracies, or the noise operators
(Hermitian or not, traceless or not). -/
theorem infidelityDeriv_hasDerivAt {nG d nO nAll nCAll nA nH nK : Nat} (kind : MaskKind)
    (thrF thrD thrA : ℝ) (castReal : Bool) (hthrF : 0 ≤ thrF) (hthrD : 0 < thrD)
    (hthrA : 0 < thrA) (dim : Nat) (omega : Vec ℝ nO) (basis : Vector (Mat ℂ d d) nK)
    (hB : Spec.IsOrthoHerm (Spec.basisOf basis)) (hBc : Spec.IsComplete (Spec.basisOf basis))
    (t : Vec ℝ (nG + 1)) (dt : Vec ℝ nG) (nOpers : Vector (Mat ℂ d d) nAll)
    (nCoeffs : Mat ℝ nAll nG) (cOpers : Vector (Mat ℂ d d) nCAll)
    (nIdx : Vector (Fin nAll) nA) (cIdx : Vector (Fin nCAll) nH)
    (H : Fin nG → Matrix (Fin d) (Fin d) ℂ) (h : Fin nH)
    (g' : Fin nG) (eigvals : ℝ → Mat ℝ nG d) (eigvecs : ℝ → Vector (Mat ℂ d d) nG)
    (hE : AmplitudeFamily H cOpers[cIdx[h]] g' eigvals eigvecs)
    (a : Fin nA)
    (hsharpA : AMatSharp thrA (eigvals 0)[g'] dt[g'])
    (hS : ∀ o : Fin nO, DerivIntegralSharp thrD omega[o] (eigvals 0)[g'])
    (hmaskU : ∀ o : Fin nO, ∀ᶠ u in nhds (0 : ℝ), ∀ g : Fin nG,
      FirstOrderExact kind thrF omega[o] (eigvals u)[g] dt[g]) :
    (∀ S1 : Mat ℝ nA nO,
      HasDerivAt (fun u : ℝ => fidelityIntegral dim omega S1[a]
          (controlMatrixFromScratch kind thrF (eigvals u) (eigvecs u)
            (dropLast (propagators (eigvals u) (eigvecs u) dt)) omega basis nOpers nCoeffs dt
            (dropLast t))[nIdx[a]])
        (pulseInfidelityDerivative1 kind thrF thrD thrA castReal dim omega
          (propagators (eigvals 0) (eigvecs 0) dt) (eigvals 0) (eigvecs 0) basis t dt nOpers
          nCoeffs cOpers nIdx cIdx none S1)[a][g'][h] 0) ∧
    (∀ S0 : Vec ℝ nO,
      HasDerivAt (fun u : ℝ => fidelityIntegral dim omega S0
          (controlMatrixFromScratch kind thrF (eigvals u) (eigvecs u)
            (dropLast (propagators (eigvals u) (eigvecs u) dt)) omega basis nOpers nCoeffs dt
            (dropLast t))[nIdx[a]])
        (pulseInfidelityDerivative0 kind thrF thrD thrA castReal dim omega
          (propagators (eigvals 0) (eigvecs 0) dt) (eigvals 0) (eigvecs 0) basis t dt nOpers
          nCoeffs cOpers nIdx cIdx none S0)[a][g'][h] 0) := by
  simp only [pulseInfidelityDerivative1_eq, pulseInfidelityDerivative0_eq]
  refine infid_hasDerivAt_of_cm dim omega
    (fun u : ℝ => controlMatrixFromScratch kind thrF (eigvals u) (eigvecs u)
      (dropLast (propagators (eigvals u) (eigvecs u) dt)) omega basis nOpers nCoeffs dt (dropLast t))
    (controlMatrixDerivFromScratch kind thrF thrD thrA castReal omega
      (propagators (eigvals 0) (eigvecs 0) dt) (eigvals 0) (eigvecs 0) basis t dt
      (selectRows nIdx nOpers) (selectRows nIdx nCoeffs) (selectRows cIdx cOpers) none)
    nIdx a g' h (fun o k => ?_)
  have hcm := controlMatrixDeriv_hasDerivAt kind thrF thrD thrA castReal hthrF hthrD hthrA omega
    basis hB hBc t dt (selectRows nIdx nOpers) (selectRows nIdx nCoeffs) (selectRows cIdx cOpers) H
    h g' eigvals eigvecs (isEigh_family_select cOpers cIdx H h g' eigvals eigvecs hE) a k o hsharpA
    (hS o) (hmaskU o)
  refine hcm.congr_of_eventuallyEq (Filter.Eventually.of_forall fun u => ?_)
  exact (cm_selectRows kind thrF (eigvals u) (eigvecs u) _ omega basis nOpers nCoeffs dt _ nIdx a k
    o).symm

/-- **The UNCORRECTED integral with control-dependent sensitivities** (what `infidelity_derivative`
computed before the repair of finding F49, and still the first term of the repaired output).  In
addition to the amplitude shift, the sensitivity of the selected noise operator `a` in segment `g'`
depends on `u` (`nC u`, `LocalSensitivity`; its other segments are fixed — the locality assumption of
the docstring), differentiably at `u = 0` with derivative `n_coeffs_deriv[a][h][g']` — the array is
indexed by the SELECTED noise operators and the SELECTED controls, in the order of the request — and
`s(0) ≠ 0` (the code divides by it, finding F12).  Then `fidelityIntegral` of the perturbed pulse has
at `u = 0` the derivative `util.integrate(S_a · filter_function_deriv[a][g'][h], ω)/(2π·dim)` with
`filter_function_deriv = get_filter_function_derivative(…, n_coeffs_deriv)` (no identity correction);
both spectrum shapes.  Other hypotheses as in `infidelityDeriv_hasDerivAt`. -/
theorem infidelityDeriv_uncorrected_hasDerivAt_sens {nG d nO nAll nCAll nA nH nK : Nat} (kind : MaskKind)
    (thrF thrD thrA : ℝ) (castReal : Bool) (hthrF : 0 ≤ thrF) (hthrD : 0 < thrD)
    (hthrA : 0 < thrA) (dim : Nat) (omega : Vec ℝ nO) (basis : Vector (Mat ℂ d d) nK)
    (hB : Spec.IsOrthoHerm (Spec.basisOf basis)) (hBc : Spec.IsComplete (Spec.basisOf basis))
    (t : Vec ℝ (nG + 1)) (dt : Vec ℝ nG) (nOpers : Vector (Mat ℂ d d) nAll)
    (nC : ℝ → Mat ℝ nAll nG) (D : Vector (Mat ℝ nH nG) nA) (cOpers : Vector (Mat ℂ d d) nCAll)
    (nIdx : Vector (Fin nAll) nA) (cIdx : Vector (Fin nCAll) nH)
    (H : Fin nG → Matrix (Fin d) (Fin d) ℂ) (h : Fin nH)
    (g' : Fin nG) (eigvals : ℝ → Mat ℝ nG d) (eigvecs : ℝ → Vector (Mat ℂ d d) nG)
    (hE : AmplitudeFamily H cOpers[cIdx[h]] g' eigvals eigvecs)
    (a : Fin nA)
    (hsens : LocalSensitivity (fun u => (nC u)[nIdx[a]]) g' D[a][h][g'])
    (hsharpA : AMatSharp thrA (eigvals 0)[g'] dt[g'])
    (hS : ∀ o : Fin nO, DerivIntegralSharp thrD omega[o] (eigvals 0)[g'])
    (hmaskU : ∀ o : Fin nO, ∀ᶠ u in nhds (0 : ℝ), ∀ g : Fin nG,
      FirstOrderExact kind thrF omega[o] (eigvals u)[g] dt[g]) :
    (∀ S1 : Mat ℝ nA nO,
      HasDerivAt (fun u : ℝ => fidelityIntegral dim omega S1[a]
          (controlMatrixFromScratch kind thrF (eigvals u) (eigvecs u)
            (dropLast (propagators (eigvals u) (eigvecs u) dt)) omega basis nOpers (nC u) dt
            (dropLast t))[nIdx[a]])
        (infidelityDerivative1 dim omega S1
          (pulseFilterFunctionDerivative kind thrF thrD thrA castReal omega
            (propagators (eigvals 0) (eigvecs 0) dt) (eigvals 0) (eigvecs 0) basis t dt nOpers
            (nC 0) cOpers nIdx cIdx (some D)))[a][g'][h] 0) ∧
    (∀ S0 : Vec ℝ nO,
      HasDerivAt (fun u : ℝ => fidelityIntegral dim omega S0
          (controlMatrixFromScratch kind thrF (eigvals u) (eigvecs u)
            (dropLast (propagators (eigvals u) (eigvecs u) dt)) omega basis nOpers (nC u) dt
            (dropLast t))[nIdx[a]])
        (infidelityDerivative0 dim omega S0
          (pulseFilterFunctionDerivative kind thrF thrD thrA castReal omega
            (propagators (eigvals 0) (eigvecs 0) dt) (eigvals 0) (eigvecs 0) basis t dt nOpers
            (nC 0) cOpers nIdx cIdx (some D)))[a][g'][h] 0) := by
  have hsens := sens_select nC nIdx a g' _ hsens
  simp only [pulseFilterFunctionDerivative_eq]
  refine infid_hasDerivAt_of_cm dim omega
    (fun u : ℝ => controlMatrixFromScratch kind thrF (eigvals u) (eigvecs u)
      (dropLast (propagators (eigvals u) (eigvecs u) dt)) omega basis nOpers (nC u) dt (dropLast t))
    (controlMatrixDerivFromScratch kind thrF thrD thrA castReal omega
      (propagators (eigvals 0) (eigvecs 0) dt) (eigvals 0) (eigvecs 0) basis t dt
      (selectRows nIdx nOpers) (selectRows nIdx (nC 0)) (selectRows cIdx cOpers) (some D))
    nIdx a g' h (fun o k => ?_)
  have hcm := controlMatrixDeriv_hasDerivAt_sens kind thrF thrD thrA castReal hthrF hthrD hthrA
    omega basis hB hBc t dt (selectRows nIdx nOpers) (fun u => selectRows nIdx (nC u)) D
    (selectRows cIdx cOpers) H h g' eigvals eigvecs
    (isEigh_family_select cOpers cIdx H h g' eigvals eigvecs hE) a k o hsens.1 hsens.2.1 hsens.2.2
    hsharpA (hS o) (hmaskU o)
  refine hcm.congr_of_eventuallyEq (Filter.Eventually.of_forall fun u => ?_)
  exact (cm_selectRows kind thrF (eigvals u) (eigvecs u) _ omega basis nOpers (nC u) dt _ nIdx a k
    o).symm

/-- **`infidelity_derivative` with `n_coeffs_deriv` is the derivative of the IDENTITY-CORRECTED
integral** (the repaired function, finding F49).  With control-dependent sensitivities
(`LocalSensitivity`, as in `infidelityDeriv_uncorrected_hasDerivAt_sens`) the function

  `u ↦ util.integrate(S_a · (Σ_k |B_{n_idx[a],k}(ω; u)|² − |ι_a(ω; u)|²), ω) / (2π·dim)`,
  `ι_a(ω_o; u) = Re tr(B_a)/√dim · Σ_g s_a^{(g)}(u) · I(ω_o, dt_g) e^{i t_g ω_o}`

— `ι` the array `identity_component` of the repaired code (`identityComponent`), the component of the
noise operator along the identity, which depends on `u` through the sensitivity only — has at
`u = 0` the derivative `infid_deriv[a][g'][h]` returned by the model of the repaired
`infidelity_derivative` with `n_coeffs_deriv = some D`; spectrum `(len(n_idx), n_omega)` and
`(n_omega,)`.  No assumption on the basis beyond those of `infidelityDeriv_hasDerivAt` (it need not
contain an identity element), nor on the trace of the noise operator.  For a basis with an identity
element and a Hermitian noise operator the corrected integral IS the model of `numeric.infidelity`:
`infidelityDeriv_is_numeric_infidelity_deriv_sens`. -/
theorem infidelityDeriv_hasDerivAt_sens {nG d nO nAll nCAll nA nH nK : Nat} (kind : MaskKind)
    (thrF thrD thrA : ℝ) (castReal : Bool) (hthrF : 0 ≤ thrF) (hthrD : 0 < thrD)
    (hthrA : 0 < thrA) (dim : Nat) (omega : Vec ℝ nO) (basis : Vector (Mat ℂ d d) nK)
    (hB : Spec.IsOrthoHerm (Spec.basisOf basis)) (hBc : Spec.IsComplete (Spec.basisOf basis))
    (t : Vec ℝ (nG + 1)) (dt : Vec ℝ nG) (nOpers : Vector (Mat ℂ d d) nAll)
    (nC : ℝ → Mat ℝ nAll nG) (D : Vector (Mat ℝ nH nG) nA) (cOpers : Vector (Mat ℂ d d) nCAll)
    (nIdx : Vector (Fin nAll) nA) (cIdx : Vector (Fin nCAll) nH)
    (H : Fin nG → Matrix (Fin d) (Fin d) ℂ) (h : Fin nH)
    (g' : Fin nG) (eigvals : ℝ → Mat ℝ nG d) (eigvecs : ℝ → Vector (Mat ℂ d d) nG)
    (hE : AmplitudeFamily H cOpers[cIdx[h]] g' eigvals eigvecs)
    (a : Fin nA)
    (hsens : LocalSensitivity (fun u => (nC u)[nIdx[a]]) g' D[a][h][g'])
    (hsharpA : AMatSharp thrA (eigvals 0)[g'] dt[g'])
    (hS : ∀ o : Fin nO, DerivIntegralSharp thrD omega[o] (eigvals 0)[g'])
    (hmaskU : ∀ o : Fin nO, ∀ᶠ u in nhds (0 : ℝ), ∀ g : Fin nG,
      FirstOrderExact kind thrF omega[o] (eigvals u)[g] dt[g]) :
    (∀ S1 : Mat ℝ nA nO,
      HasDerivAt (fun u : ℝ => fidelityIntegral dim omega S1[a]
          (controlMatrixFromScratch kind thrF (eigvals u) (eigvecs u)
            (dropLast (propagators (eigvals u) (eigvecs u) dt)) omega basis nOpers (nC u) dt
            (dropLast t))[nIdx[a]]
        - fidelityIntegral dim omega S1[a]
          (#v[(identityComponent (identityTraces dim (selectRows nIdx nOpers))
            (selectRows nIdx (nC u)) (identitySegmentIntegral (K := ℂ) kind thrF omega t dt))[a]] :
            Mat ℂ 1 nO))
        (pulseInfidelityDerivative1 kind thrF thrD thrA castReal dim omega
          (propagators (eigvals 0) (eigvecs 0) dt) (eigvals 0) (eigvecs 0) basis t dt nOpers
          (nC 0) cOpers nIdx cIdx (some D) S1)[a][g'][h] 0) ∧
    (∀ S0 : Vec ℝ nO,
      HasDerivAt (fun u : ℝ => fidelityIntegral dim omega S0
          (controlMatrixFromScratch kind thrF (eigvals u) (eigvecs u)
            (dropLast (propagators (eigvals u) (eigvecs u) dt)) omega basis nOpers (nC u) dt
            (dropLast t))[nIdx[a]]
        - fidelityIntegral dim omega S0
          (#v[(identityComponent (identityTraces dim (selectRows nIdx nOpers))
            (selectRows nIdx (nC u)) (identitySegmentIntegral (K := ℂ) kind thrF omega t dt))[a]] :
            Mat ℂ 1 nO))
        (pulseInfidelityDerivative0 kind thrF thrD thrA castReal dim omega
          (propagators (eigvals 0) (eigvecs 0) dt) (eigvals 0) (eigvecs 0) basis t dt nOpers
          (nC 0) cOpers nIdx cIdx (some D) S0)[a][g'][h] 0) := by
  have hu := infidelityDeriv_uncorrected_hasDerivAt_sens kind thrF thrD thrA castReal hthrF hthrD
    hthrA dim omega basis hB hBc t dt nOpers nC D cOpers nIdx cIdx H h g' eigvals eigvecs hE a hsens
    hsharpA hS hmaskU
  have hic := fun S : Vec ℝ nO => fidelityIntegral_row_hasDerivAt dim omega S
    (fun u : ℝ => (identityComponent (identityTraces dim (selectRows nIdx nOpers))
      (selectRows nIdx (nC u)) (identitySegmentIntegral (K := ℂ) kind thrF omega t dt))[a]) _
    (identityComponent_hasDerivAt (identityTraces dim (selectRows nIdx nOpers)) nC nIdx D
      (identitySegmentIntegral (K := ℂ) kind thrF omega t dt) a g' h hsens)
  have hcorr := infidelityDerivative_corrected dim omega
    (pulseFilterFunctionDerivative kind thrF thrD thrA castReal omega
      (propagators (eigvals 0) (eigvecs 0) dt) (eigvals 0) (eigvecs 0) basis t dt nOpers (nC 0)
      cOpers nIdx cIdx (some D))
    (identityComponent (identityTraces dim (selectRows nIdx nOpers)) (selectRows nIdx (nC 0))
      (identitySegmentIntegral (K := ℂ) kind thrF omega t dt))
    (identityComponentDeriv (identityTraces dim (selectRows nIdx nOpers)) D
      (identitySegmentIntegral (K := ℂ) kind thrF omega t dt)) a g' h
  refine ⟨fun S1 => ?_, fun S0 => ?_⟩
  · rw [pulseInfidelityDerivative1_def, infidFilterFunctionDeriv_some, hcorr.1 S1]
    exact (hu.1 S1).sub (hic S1[a])
  · rw [pulseInfidelityDerivative0_def, infidFilterFunctionDeriv_some, hcorr.2 S0]
    exact (hu.2 S0).sub (hic S0)

/-! ### 2. identifier selections return slices of the full derivative -/

/-- **Selecting controls or noise operators by identifier returns the corresponding slice of the
full derivative**, from the array models of the whole chain.  The "full derivative" is the call
without identifiers (`n_idx = arange(n_nops_all)`, `c_idx = arange(n_ctrl_all)`, `allIdx`) with
`n_coeffs_deriv = D` of shape `(n_nops_all, n_ctrl_all, n_dt)` (or `None`) and, for the 2-d case,
a spectrum `Sfull` of shape `(n_nops_all, n_omega)`.  For index lists `nIdx`, `cIdx` (any order,
repetitions allowed — what `get_indices_from_identifiers` returns for the requested identifiers)
the call with the selection, with `n_coeffs_deriv = D[n_idx][:, c_idx]` (`selectNcd`) and with the
spectrum rows of the SELECTED operators `Sfull[n_idx]` (`selectRows nIdx Sfull`: the first axis of
a 2-d spectrum is indexed by the selected operators, in the order of the request — the point of
finding F11) returns

* `get_filter_function_derivative`: `full[n_idx[i], g, c_idx[h], o]`,
* `infidelity_derivative`, spectrum `(k, n_omega)`: `full[n_idx[i], g, c_idx[h]]`,
* `infidelity_derivative`, spectrum `(n_omega,)`: `full[n_idx[i], g, c_idx[h]]`

(the identity-component correction that the repaired `infidelity_derivative` applies when
`n_coeffs_deriv` is given included: it is row-wise in the noise operator and in the control too).

No hypotheses: all dimensions, segment counts, masks, thresholds, grids, operators. -/
theorem infidelityDeriv_selection {nG d nO nAll nCAll nA nH nK : Nat} (kind : MaskKind)
    (thrF thrD thrA : ℝ) (castReal : Bool) (dim : Nat) (omega : Vec ℝ nO)
    (props : Vector (Mat ℂ d d) (nG + 1)) (eigvals : Mat ℝ nG d) (eigvecs : Vector (Mat ℂ d d) nG)
    (basis : Vector (Mat ℂ d d) nK) (t : Vec ℝ (nG + 1)) (dt : Vec ℝ nG)
    (nOpers : Vector (Mat ℂ d d) nAll) (nCoeffs : Mat ℝ nAll nG) (cOpers : Vector (Mat ℂ d d) nCAll)
    (nIdx : Vector (Fin nAll) nA) (cIdx : Vector (Fin nCAll) nH)
    (D : Option (Vector (Mat ℝ nCAll nG) nAll)) (Sfull : Mat ℝ nAll nO) (S0 : Vec ℝ nO)
    (i : Fin nA) (g : Fin nG) (h : Fin nH) :
    (∀ o : Fin nO,
      (pulseFilterFunctionDerivative kind thrF thrD thrA castReal omega props eigvals eigvecs basis t
          dt nOpers nCoeffs cOpers nIdx cIdx (selectNcd nIdx cIdx D))[i][g][h][o]
        = (pulseFilterFunctionDerivative kind thrF thrD thrA castReal omega props eigvals eigvecs
            basis t dt nOpers nCoeffs cOpers (allIdx nAll) (allIdx nCAll) D)[nIdx[i]][g][cIdx[h]][o]) ∧
    (pulseInfidelityDerivative1 kind thrF thrD thrA castReal dim omega props eigvals eigvecs basis t
        dt nOpers nCoeffs cOpers nIdx cIdx (selectNcd nIdx cIdx D) (selectRows nIdx Sfull))[i][g][h]
      = (pulseInfidelityDerivative1 kind thrF thrD thrA castReal dim omega props eigvals eigvecs basis
          t dt nOpers nCoeffs cOpers (allIdx nAll) (allIdx nCAll) D Sfull)[nIdx[i]][g][cIdx[h]] ∧
    (pulseInfidelityDerivative0 kind thrF thrD thrA castReal dim omega props eigvals eigvecs basis t
        dt nOpers nCoeffs cOpers nIdx cIdx (selectNcd nIdx cIdx D) S0)[i][g][h]
      = (pulseInfidelityDerivative0 kind thrF thrD thrA castReal dim omega props eigvals eigvecs basis
          t dt nOpers nCoeffs cOpers (allIdx nAll) (allIdx nCAll) D S0)[nIdx[i]][g][cIdx[h]] := by
  have hff := pulseFFD_select kind thrF thrD thrA castReal omega props eigvals eigvecs basis t dt
    nOpers nCoeffs cOpers nIdx cIdx D i g h
  have hid := infidFFD_select kind thrF thrD thrA castReal dim omega props eigvals eigvecs basis t dt
    nOpers nCoeffs cOpers nIdx cIdx D i g h
  refine ⟨hff, ?_, ?_⟩
  · rw [pulseInfidelityDerivative1_def, pulseInfidelityDerivative1_def, infidelityDerivative1_get,
      infidelityDerivative1_get, selectRows_get]
    simp only [hid]
  · rw [pulseInfidelityDerivative0_def, pulseInfidelityDerivative0_def, infidelityDerivative0_get,
      infidelityDerivative0_get]
    simp only [hid]

/-- non-vacuity / reading of `infidelityDeriv_selection`: with all operators selected in stored
order and the full `n_coeffs_deriv`, the "selection" is the full call -/
example {nG nAll nCAll : Nat} (D : Vector (Mat ℝ nCAll nG) nAll) (i : Fin nAll) (h : Fin nCAll)
    (g : Fin nG) :
    ∃ D' : Vector (Mat ℝ nCAll nG) nAll,
      selectNcd (allIdx nAll) (allIdx nCAll) (some D) = some D' ∧ D'[i][h][g] = D[i][h][g] := by
  refine ⟨_, rfl, ?_⟩
  simp only [allIdx, Fin.getElem_fin, Vector.getElem_ofFn]

/-! ### 3. relation to the model of `numeric.infidelity`; the identity component -/

/-- **The identity component of the control matrix does not depend on the control.**  If the basis
element `k0` is a multiple `c·1` of the identity (the element `_identity_element_index` finds), then
for ANY two sets of eigen-data / cumulative propagators with unitary eigenvector matrices and unitary
propagators (two different control Hamiltonians on the same time grid), the same noise operators
and the same sensitivities, the rows `k0` of the two control matrices coincide, and both equal

  `B[a][k0](ω_o) = Σ_g e^{iω_o t_g} · s_a^{(g)} · I(ω_o, dt_g) · c · tr(B_a)`

(`I` the first-order integral entry for a vanishing level difference).  Hence for CONSTANT
sensitivities the correction `−|B[a][k0]|²` that `numeric.infidelity` subtracts for a noise operator
with a trace has zero derivative with respect to every control amplitude. -/
theorem identity_component_independent_of_control {nG d nO nA nK : Nat} (kind : MaskKind) (thr : ℝ)
    (eigvals eigvals' : Mat ℝ nG d) (eigvecs props eigvecs' props' : Vector (Mat ℂ d d) nG)
    (omega : Vec ℝ nO) (basis : Vector (Mat ℂ d d) nK) (nOpers : Vector (Mat ℂ d d) nA)
    (nCoeffs : Mat ℝ nA nG) (dt t : Vec ℝ nG) (k0 : Fin nK) (c : ℂ)
    (h0 : basis[k0].toMatrix = c • (1 : Matrix (Fin d) (Fin d) ℂ))
    (hV : ∀ g : Fin nG, (eigvecs[g].toMatrix)ᴴ * eigvecs[g].toMatrix = 1)
    (hQ : ∀ g : Fin nG, (props[g].toMatrix)ᴴ * props[g].toMatrix = 1)
    (hV' : ∀ g : Fin nG, (eigvecs'[g].toMatrix)ᴴ * eigvecs'[g].toMatrix = 1)
    (hQ' : ∀ g : Fin nG, (props'[g].toMatrix)ᴴ * props'[g].toMatrix = 1)
    (a : Fin nA) (o : Fin nO) :
    (controlMatrixFromScratch kind thr eigvals eigvecs props omega basis nOpers nCoeffs dt t)[a][k0][o]
      = (controlMatrixFromScratch kind thr eigvals' eigvecs' props' omega basis nOpers nCoeffs dt
          t)[a][k0][o] ∧
    (controlMatrixFromScratch kind thr eigvals eigvecs props omega basis nOpers nCoeffs dt t)[a][k0][o]
      = ∑ g : Fin nG, Complex.exp (Complex.I * ((omega[o] : ℂ) * (t[g] : ℂ))) * (nCoeffs[a][g] : ℂ) *
          (firstOrderEntry kind thr omega[o] dt[g] : ℂ) * c * trace nOpers[a].toMatrix := by
  have h1 := cm_identity_row kind thr eigvals eigvecs props omega basis nOpers nCoeffs dt t k0 c h0
    hV hQ a o
  have h2 := cm_identity_row kind thr eigvals' eigvecs' props' omega basis nOpers nCoeffs dt t k0 c
    h0 hV' hQ' a o
  exact ⟨h1.trans h2.symm, h1⟩

/-- **The quantity `infidelity_derivative` differentiates, in terms of the model of
`numeric.infidelity`** (`which='total'`, traceless-basis branch, real spectrum of shape
`(k, n_omega)`; `ofRealSpec S` is `S` as the complex array that model takes):
* (i) if the basis has no identity element, `numeric.infidelity` IS `fidelityIntegral`;
* (ii) if the basis element `k0` is `c·1`, `numeric.infidelity` is `fidelityIntegral` MINUS the
  identity component `util.integrate(S_a |B[a][k0]|², ω)/(2π·dim)`;
* (iii) for a traceless selected noise operator (unitary eigenvector matrices / propagators) the
  identity component vanishes and `numeric.infidelity` IS `fidelityIntegral` again — this is
  `C08.infidelity_traceless_noise_opers` (`_identity_element_index` reporting `[k0]` or nothing makes
  no difference) combined with (i). -/
theorem fidelityIntegral_vs_numeric_infidelity {nG d nO nA nK m : Nat} (kind : MaskKind) (thr : ℝ)
    (eigvals : Mat ℝ nG d) (eigvecs props : Vector (Mat ℂ d d) nG)
    (omega : Vec ℝ nO) (basis : Vector (Mat ℂ d d) nK) (nOpers : Vector (Mat ℂ d d) nA)
    (nCoeffs : Mat ℝ nA nG) (dt t : Vec ℝ nG) (dim : Nat) (T : Ten4 ℂ nK nK nK nK)
    (idx : Vec (Fin nA) m) (S : Mat ℝ m nO) (a : Fin m) :
    (infidelityFromCM2 true dim omega
        (controlMatrixFromScratch kind thr eigvals eigvecs props omega basis nOpers nCoeffs dt t)
        T (#v[] : Vec (Fin nK) 0) idx (ofRealSpec S))[a]
      = fidelityIntegral dim omega S[a]
          (controlMatrixFromScratch kind thr eigvals eigvecs props omega basis nOpers nCoeffs dt
            t)[idx[a]] ∧
    (∀ k0 : Fin nK, (infidelityFromCM2 true dim omega
        (controlMatrixFromScratch kind thr eigvals eigvecs props omega basis nOpers nCoeffs dt t)
        T #v[k0] idx (ofRealSpec S))[a]
      = fidelityIntegral dim omega S[a]
          (controlMatrixFromScratch kind thr eigvals eigvecs props omega basis nOpers nCoeffs dt
            t)[idx[a]]
        - fidelityIntegral dim omega S[a]
          (#v[(controlMatrixFromScratch kind thr eigvals eigvecs props omega basis nOpers nCoeffs dt
            t)[idx[a]][k0]] : Mat ℂ 1 nO)) ∧
    (∀ (k0 : Fin nK) (c : ℂ), basis[k0].toMatrix = c • (1 : Matrix (Fin d) (Fin d) ℂ) →
      (∀ g : Fin nG, (eigvecs[g].toMatrix)ᴴ * eigvecs[g].toMatrix = 1) →
      (∀ g : Fin nG, (props[g].toMatrix)ᴴ * props[g].toMatrix = 1) →
      (∀ a : Fin m, trace nOpers[idx[a]].toMatrix = 0) →
      (infidelityFromCM2 true dim omega
        (controlMatrixFromScratch kind thr eigvals eigvecs props omega basis nOpers nCoeffs dt t)
        T #v[k0] idx (ofRealSpec S))[a]
      = fidelityIntegral dim omega S[a]
          (controlMatrixFromScratch kind thr eigvals eigvecs props omega basis nOpers nCoeffs dt
            t)[idx[a]]) := by
  have h := infidelityFromCM2_fidelityIntegral dim omega
    (controlMatrixFromScratch kind thr eigvals eigvecs props omega basis nOpers nCoeffs dt t) T idx S a
  refine ⟨h.1, h.2, fun k0 c h0 hV hQ htr => ?_⟩
  have ht := (C08.infidelity_traceless_noise_opers kind thr eigvals eigvecs props omega basis nOpers
    nCoeffs dt t dim T idx (Vector.ofFn fun _ => 0) (ofRealSpec S)
    (Vector.ofFn fun _ => Vector.ofFn fun _ => Vector.ofFn fun _ => 0) k0 c h0 hV hQ htr).2.1
  rw [ht]
  exact h.1

/-- **For constant sensitivities `infidelity_derivative` is also the derivative of the model of
`numeric.infidelity`, for noise operators WITH a trace.**  Traceless-basis branch, the basis element
`k0` a multiple `c·1` of the identity (what `_identity_element_index` reports), real spectrum of shape
`(k, n_omega)` (`ofRealSpec S1`): the entry `a` of the model `infidelityFromCM2` of
`numeric.infidelity(pulse(u), S, ω, n_oper_identifiers)` — which subtracts the identity component —
has at `u = 0` the derivative `infid_deriv[a][g'][h]` of the model of `infidelity_derivative`
(`n_coeffs_deriv = None`): the subtracted term does not depend on `u`
(`identity_component_independent_of_control`).  No tracelessness assumption on the noise operators;
hypotheses of `infidelityDeriv_hasDerivAt`. -/
theorem infidelityDeriv_is_numeric_infidelity_deriv {nG d nO nAll nCAll nA nH nK : Nat}
    (kind : MaskKind)
    (thrF thrD thrA : ℝ) (castReal : Bool) (hthrF : 0 ≤ thrF) (hthrD : 0 < thrD)
    (hthrA : 0 < thrA) (dim : Nat) (omega : Vec ℝ nO) (basis : Vector (Mat ℂ d d) nK)
    (hB : Spec.IsOrthoHerm (Spec.basisOf basis)) (hBc : Spec.IsComplete (Spec.basisOf basis))
    (t : Vec ℝ (nG + 1)) (dt : Vec ℝ nG) (nOpers : Vector (Mat ℂ d d) nAll)
    (nCoeffs : Mat ℝ nAll nG) (cOpers : Vector (Mat ℂ d d) nCAll)
    (nIdx : Vector (Fin nAll) nA) (cIdx : Vector (Fin nCAll) nH)
    (H : Fin nG → Matrix (Fin d) (Fin d) ℂ) (h : Fin nH)
    (g' : Fin nG) (eigvals : ℝ → Mat ℝ nG d) (eigvecs : ℝ → Vector (Mat ℂ d d) nG)
    (hE : AmplitudeFamily H cOpers[cIdx[h]] g' eigvals eigvecs)
    (a : Fin nA)
    (hsharpA : AMatSharp thrA (eigvals 0)[g'] dt[g'])
    (hS : ∀ o : Fin nO, DerivIntegralSharp thrD omega[o] (eigvals 0)[g'])
    (hmaskU : ∀ o : Fin nO, ∀ᶠ u in nhds (0 : ℝ), ∀ g : Fin nG,
      FirstOrderExact kind thrF omega[o] (eigvals u)[g] dt[g])
    (T : Ten4 ℂ nK nK nK nK) (k0 : Fin nK) (c : ℂ)
    (h0 : basis[k0].toMatrix = c • (1 : Matrix (Fin d) (Fin d) ℂ)) (S1 : Mat ℝ nA nO) :
    HasDerivAt (fun u : ℝ => (infidelityFromCM2 true dim omega
        (controlMatrixFromScratch kind thrF (eigvals u) (eigvecs u)
          (dropLast (propagators (eigvals u) (eigvecs u) dt)) omega basis nOpers nCoeffs dt
          (dropLast t)) T #v[k0] nIdx (ofRealSpec S1))[a])
      (pulseInfidelityDerivative1 kind thrF thrD thrA castReal dim omega
        (propagators (eigvals 0) (eigvecs 0) dt) (eigvals 0) (eigvecs 0) basis t dt nOpers
        nCoeffs cOpers nIdx cIdx none S1)[a][g'][h] 0 := by
  have hmain := (infidelityDeriv_hasDerivAt kind thrF thrD thrA castReal hthrF hthrD hthrA dim omega
    basis hB hBc t dt nOpers nCoeffs cOpers nIdx cIdx H h g' eigvals eigvecs hE a hsharpA hS
    hmaskU).1 S1
  have hfun : (fun u : ℝ => (infidelityFromCM2 true dim omega
        (controlMatrixFromScratch kind thrF (eigvals u) (eigvecs u)
          (dropLast (propagators (eigvals u) (eigvecs u) dt)) omega basis nOpers nCoeffs dt
          (dropLast t)) T #v[k0] nIdx (ofRealSpec S1))[a])
      = fun u : ℝ => fidelityIntegral dim omega S1[a]
          (controlMatrixFromScratch kind thrF (eigvals u) (eigvecs u)
            (dropLast (propagators (eigvals u) (eigvecs u) dt)) omega basis nOpers nCoeffs dt
            (dropLast t))[nIdx[a]]
        - fidelityIntegral dim omega S1[a]
          (#v[(controlMatrixFromScratch kind thrF (eigvals 0) (eigvecs 0)
            (dropLast (propagators (eigvals 0) (eigvecs 0) dt)) omega basis nOpers nCoeffs dt
            (dropLast t))[nIdx[a]][k0]] : Mat ℂ 1 nO) := by
    funext u
    rw [(infidelityFromCM2_fidelityIntegral dim omega _ T nIdx S1 a).2 k0,
      family_identity_row_const kind thrF omega basis t dt nOpers hE nCoeffs k0 c h0 nIdx[a] u]
  rw [hfun]
  exact hmain.sub_const _

/-- **What the UNREPAIRED function did with control-dependent sensitivities and a noise operator
with a trace** (finding F49).  Under the hypotheses of `infidelityDeriv_hasDerivAt_sens`, with the
basis element `k0` a multiple `c·1` of the identity, the model of `numeric.infidelity`
(traceless-basis branch, which subtracts the identity component) of the perturbed pulse has at
`u = 0` the derivative

  `util.integrate(S_a · get_filter_function_derivative(…)[a][g'][h], ω)/(2π·dim)  −  identityGap`,

`identityGap = util.integrate(S_a · 2 Re(conj(B[a][k0]) · r'), ω)/(2π·dim)`,
`r'(ω) = e^{iω t_{g'}} · n_coeffs_deriv[a][h][g'] · I(ω, dt_{g'}) · c · tr(B_a)` the derivative of the
identity row: the uncorrected trapezoid integral (the old output) misses `identityGap`, which is
non-zero in general (example below; on the unrepaired package: noise operator `(1+Z)/2`, Pauli
basis: 0.36 at values of size 0.33) and vanishes for a traceless noise operator or a constant
sensitivity (`identityGap_vanishes`).  The repaired function subtracts it:
`identityGap_is_subtracted`. -/
theorem infidelityDeriv_uncorrected_gap {nG d nO nAll nCAll nA nH nK : Nat} (kind : MaskKind)
    (thrF thrD thrA : ℝ) (castReal : Bool) (hthrF : 0 ≤ thrF) (hthrD : 0 < thrD)
    (hthrA : 0 < thrA) (dim : Nat) (omega : Vec ℝ nO) (basis : Vector (Mat ℂ d d) nK)
    (hB : Spec.IsOrthoHerm (Spec.basisOf basis)) (hBc : Spec.IsComplete (Spec.basisOf basis))
    (t : Vec ℝ (nG + 1)) (dt : Vec ℝ nG) (nOpers : Vector (Mat ℂ d d) nAll)
    (nC : ℝ → Mat ℝ nAll nG) (D : Vector (Mat ℝ nH nG) nA) (cOpers : Vector (Mat ℂ d d) nCAll)
    (nIdx : Vector (Fin nAll) nA) (cIdx : Vector (Fin nCAll) nH)
    (H : Fin nG → Matrix (Fin d) (Fin d) ℂ) (h : Fin nH)
    (g' : Fin nG) (eigvals : ℝ → Mat ℝ nG d) (eigvecs : ℝ → Vector (Mat ℂ d d) nG)
    (hE : AmplitudeFamily H cOpers[cIdx[h]] g' eigvals eigvecs)
    (a : Fin nA)
    (hsens : LocalSensitivity (fun u => (nC u)[nIdx[a]]) g' D[a][h][g'])
    (hsharpA : AMatSharp thrA (eigvals 0)[g'] dt[g'])
    (hS : ∀ o : Fin nO, DerivIntegralSharp thrD omega[o] (eigvals 0)[g'])
    (hmaskU : ∀ o : Fin nO, ∀ᶠ u in nhds (0 : ℝ), ∀ g : Fin nG,
      FirstOrderExact kind thrF omega[o] (eigvals u)[g] dt[g])
    (T : Ten4 ℂ nK nK nK nK) (k0 : Fin nK) (c : ℂ)
    (h0 : basis[k0].toMatrix = c • (1 : Matrix (Fin d) (Fin d) ℂ)) (S1 : Mat ℝ nA nO) :
    HasDerivAt (fun u : ℝ => (infidelityFromCM2 true dim omega
        (controlMatrixFromScratch kind thrF (eigvals u) (eigvecs u)
          (dropLast (propagators (eigvals u) (eigvecs u) dt)) omega basis nOpers (nC u) dt
          (dropLast t)) T #v[k0] nIdx (ofRealSpec S1))[a])
      ((infidelityDerivative1 dim omega S1
          (pulseFilterFunctionDerivative kind thrF thrD thrA castReal omega
            (propagators (eigvals 0) (eigvecs 0) dt) (eigvals 0) (eigvecs 0) basis t dt nOpers
            (nC 0) cOpers nIdx cIdx (some D)))[a][g'][h]
        - identityGap kind thrF dim omega S1[a]
            (controlMatrixFromScratch kind thrF (eigvals 0) (eigvecs 0)
              (dropLast (propagators (eigvals 0) (eigvecs 0) dt)) omega basis nOpers (nC 0) dt
              (dropLast t))[nIdx[a]][k0]
            (dropLast t)[g'] dt[g'] D[a][h][g'] c (trace nOpers[nIdx[a]].toMatrix)) 0 := by
  have hmain := (infidelityDeriv_uncorrected_hasDerivAt_sens kind thrF thrD thrA castReal hthrF hthrD
    hthrA dim omega basis hB hBc t dt nOpers nC D cOpers nIdx cIdx H h g' eigvals eigvecs hE a hsens
    hsharpA hS hmaskU).1 S1
  have hid := fidelityIntegral_row_hasDerivAt dim omega S1[a]
    (fun u : ℝ => (controlMatrixFromScratch kind thrF (eigvals u) (eigvecs u)
      (dropLast (propagators (eigvals u) (eigvecs u) dt)) omega basis nOpers (nC u) dt
      (dropLast t))[nIdx[a]][k0]) _
    (family_identity_row_hasDerivAt kind thrF omega basis t dt nOpers hE nC k0 c h0 nIdx[a]
      D[a][h][g'] hsens)
  exact numeric_hasDerivAt_of_parts dim omega
    (fun u : ℝ => controlMatrixFromScratch kind thrF (eigvals u) (eigvecs u)
      (dropLast (propagators (eigvals u) (eigvecs u) dt)) omega basis nOpers (nC u) dt (dropLast t))
    T k0 nIdx S1 a _ _ hmain hid

/-- the gap of `infidelityDeriv_uncorrected_gap` vanishes for a traceless noise operator and for
a vanishing sensitivity derivative -/
theorem identityGap_vanishes {nO : Nat} (kind : MaskKind) (thr : ℝ) (dim : Nat) (omega S : Vec ℝ nO)
    (R0 : Vec ℂ nO) (tg dtg ds : ℝ) (c trB : ℂ) (h : ds = 0 ∨ trB = 0) :
    identityGap kind thr dim omega S R0 tg dtg ds c trB = 0 :=
  identityGap_zero kind thr dim omega S R0 tg dtg ds c trB
    (h.elim Or.inl fun h => Or.inr (Or.inr h))

/-- **The repaired output is the old output minus `identityGap`.**  For a pulse with unitary
eigenvector matrices and cumulative propagators, a basis whose element `k0` is `c·1` with
`|c|²·dim = 1` (an orthonormal basis and `dim = pulse.d = d`: `c = ±1/√d`) and a noise operator with
a REAL trace (a Hermitian one; the code takes `.real` of the trace), the model of the repaired
`infidelity_derivative` with `n_coeffs_deriv = some D` returns, for a spectrum `(len(n_idx), n_omega)`,

  `util.integrate(S_a · get_filter_function_derivative(…)[a][g'][h], ω)/(2π·dim) − identityGap`

with `identityGap` evaluated on the identity row `B[n_idx[a]][k0]` of the control matrix of the pulse
— exactly the term `infidelityDeriv_uncorrected_gap` shows to be missing.  (The code computes the
identity row from `tr(B_a)/√d` and the segment integrals instead of reading it off the control
matrix; `identity_row_eq_seg`.) -/
theorem identityGap_is_subtracted {nG d nO nAll nCAll nA nH nK : Nat} (kind : MaskKind)
    (thrF thrD thrA : ℝ) (castReal : Bool) (dim : Nat) (omega : Vec ℝ nO)
    (props : Vector (Mat ℂ d d) (nG + 1)) (eigvals : Mat ℝ nG d) (eigvecs : Vector (Mat ℂ d d) nG)
    (basis : Vector (Mat ℂ d d) nK) (t : Vec ℝ (nG + 1)) (dt : Vec ℝ nG)
    (nOpers : Vector (Mat ℂ d d) nAll) (nCoeffs : Mat ℝ nAll nG) (cOpers : Vector (Mat ℂ d d) nCAll)
    (nIdx : Vector (Fin nAll) nA) (cIdx : Vector (Fin nCAll) nH) (D : Vector (Mat ℝ nH nG) nA)
    (k0 : Fin nK) (c : ℂ) (h0 : basis[k0].toMatrix = c • (1 : Matrix (Fin d) (Fin d) ℂ))
    (hc : Complex.normSq c * (dim : ℝ) = 1)
    (hV : ∀ g : Fin nG, (eigvecs[g].toMatrix)ᴴ * eigvecs[g].toMatrix = 1)
    (hQ : ∀ g : Fin nG, ((dropLast props)[g].toMatrix)ᴴ * (dropLast props)[g].toMatrix = 1)
    (a : Fin nA) (htr : (trace nOpers[nIdx[a]].toMatrix).im = 0) (g' : Fin nG) (h : Fin nH)
    (S1 : Mat ℝ nA nO) :
    (pulseInfidelityDerivative1 kind thrF thrD thrA castReal dim omega props eigvals eigvecs basis t
        dt nOpers nCoeffs cOpers nIdx cIdx (some D) S1)[a][g'][h]
      = (infidelityDerivative1 dim omega S1
          (pulseFilterFunctionDerivative kind thrF thrD thrA castReal omega props eigvals eigvecs basis
            t dt nOpers nCoeffs cOpers nIdx cIdx (some D)))[a][g'][h]
        - identityGap kind thrF dim omega S1[a]
            (controlMatrixFromScratch kind thrF eigvals eigvecs (dropLast props) omega basis nOpers
              nCoeffs dt (dropLast t))[nIdx[a]][k0]
            (dropLast t)[g'] dt[g'] D[a][h][g'] c (trace nOpers[nIdx[a]].toMatrix) := by
  rw [pulseInfidelityDerivative1_def, infidFilterFunctionDeriv_some,
    (infidelityDerivative_corrected dim omega _ _ _ a g' h).1 S1]
  unfold identityGap
  congr 3
  refine congrArg Vector.ofFn (funext fun o => ?_)
  rw [identity_row_eq_seg kind thrF eigvals eigvecs (dropLast props) omega basis nOpers nCoeffs dt t
      k0 c h0 hV hQ nIdx[a] o,
    identityComponent_get, identityComponentDeriv_get, identityTraces_get, selectRows_get,
    identitySegmentIntegral_get, dropLast_get, mul_comm (omega[o] : ℂ) ((t[g'.1]'(by omega) : ℝ) : ℂ)]
  have hrow : ∀ g : Fin nG, (selectRows nIdx nCoeffs)[a][g] = nCoeffs[nIdx[a]][g] :=
    fun g => by rw [selectRows_get]
  simp only [hrow]
  rw [correction_integrand_eq dim c (trace nOpers[nIdx[a]].toMatrix) _ _ _ D[a][h][g'] hc htr]

/-- **With control-dependent sensitivities the repaired `infidelity_derivative` IS the derivative of
the model of `numeric.infidelity` — for ALL noise operators, traceless or not** (the gap of finding
F49 is closed).  Traceless-basis branch of `numeric.infidelity`, the basis element `k0` a multiple
`c·1` of the identity (what `_identity_element_index` reports) with `|c|²·dim = 1`, real spectrum of
shape `(k, n_omega)` (`ofRealSpec S1`), a selected noise operator with a real trace (Hermitian):
the entry `a` of `infidelityFromCM2` for the perturbed pulse — sensitivities depending on the varied
amplitude (`LocalSensitivity`) — has at `u = 0` the derivative `infid_deriv[a][g'][h]` of the model
of the repaired `infidelity_derivative` with `n_coeffs_deriv = some D`.  Other hypotheses as in
`infidelityDeriv_hasDerivAt_sens`. -/
theorem infidelityDeriv_is_numeric_infidelity_deriv_sens {nG d nO nAll nCAll nA nH nK : Nat}
    (kind : MaskKind)
    (thrF thrD thrA : ℝ) (castReal : Bool) (hthrF : 0 ≤ thrF) (hthrD : 0 < thrD)
    (hthrA : 0 < thrA) (dim : Nat) (omega : Vec ℝ nO) (basis : Vector (Mat ℂ d d) nK)
    (hB : Spec.IsOrthoHerm (Spec.basisOf basis)) (hBc : Spec.IsComplete (Spec.basisOf basis))
    (t : Vec ℝ (nG + 1)) (dt : Vec ℝ nG) (nOpers : Vector (Mat ℂ d d) nAll)
    (nC : ℝ → Mat ℝ nAll nG) (D : Vector (Mat ℝ nH nG) nA) (cOpers : Vector (Mat ℂ d d) nCAll)
    (nIdx : Vector (Fin nAll) nA) (cIdx : Vector (Fin nCAll) nH)
    (H : Fin nG → Matrix (Fin d) (Fin d) ℂ) (h : Fin nH)
    (g' : Fin nG) (eigvals : ℝ → Mat ℝ nG d) (eigvecs : ℝ → Vector (Mat ℂ d d) nG)
    (hE : AmplitudeFamily H cOpers[cIdx[h]] g' eigvals eigvecs)
    (a : Fin nA)
    (hsens : LocalSensitivity (fun u => (nC u)[nIdx[a]]) g' D[a][h][g'])
    (hsharpA : AMatSharp thrA (eigvals 0)[g'] dt[g'])
    (hS : ∀ o : Fin nO, DerivIntegralSharp thrD omega[o] (eigvals 0)[g'])
    (hmaskU : ∀ o : Fin nO, ∀ᶠ u in nhds (0 : ℝ), ∀ g : Fin nG,
      FirstOrderExact kind thrF omega[o] (eigvals u)[g] dt[g])
    (T : Ten4 ℂ nK nK nK nK) (k0 : Fin nK) (c : ℂ)
    (h0 : basis[k0].toMatrix = c • (1 : Matrix (Fin d) (Fin d) ℂ))
    (hc : Complex.normSq c * (dim : ℝ) = 1)
    (htr : (trace nOpers[nIdx[a]].toMatrix).im = 0) (S1 : Mat ℝ nA nO) :
    HasDerivAt (fun u : ℝ => (infidelityFromCM2 true dim omega
        (controlMatrixFromScratch kind thrF (eigvals u) (eigvecs u)
          (dropLast (propagators (eigvals u) (eigvecs u) dt)) omega basis nOpers (nC u) dt
          (dropLast t)) T #v[k0] nIdx (ofRealSpec S1))[a])
      (pulseInfidelityDerivative1 kind thrF thrD thrA castReal dim omega
          (propagators (eigvals 0) (eigvecs 0) dt) (eigvals 0) (eigvecs 0) basis t dt nOpers
          (nC 0) cOpers nIdx cIdx (some D) S1)[a][g'][h] 0 := by
  have hmain := (infidelityDeriv_hasDerivAt_sens kind thrF thrD thrA castReal hthrF hthrD hthrA dim
    omega basis hB hBc t dt nOpers nC D cOpers nIdx cIdx H h g' eigvals eigvecs hE a hsens hsharpA
    hS hmaskU).1 S1
  refine hmain.congr_of_eventuallyEq (Filter.Eventually.of_forall fun u => ?_)
  exact numeric_eq_corrected dim omega _ T k0 nIdx S1 a _
    (family_identity_row_normSq kind thrF dim omega basis t dt nOpers nIdx hE nC k0 c h0 hc a htr u)

/-! ### non-vacuity: an explicit non-commuting instance of all hypotheses

A qubit, two segments `H_0 = H_1 = σ_z` of length `1`, the amplitude of the control `σ_z` varied in
segment `0` (explicit `eigh` data, `C11.exFamily`), two noise operators `σ_z`, `σ_x` of which the
SECOND (`n_idx = [1]`, `σ_x`, not commuting with the control) is selected, grid `ω = (1/4, 1/2)`,
Pauli basis, thresholds `1e-7`, arbitrary spectrum. -/

section example_data

theorem ex_derivIntegralSharp' : DerivIntegralSharp (1e-7 : ℝ) (1 / 4 : ℝ) (exVals 0)[(0 : Fin 2)] := by
  intro p q m n
  simp only [exVals_get]
  fin_cases p <;> fin_cases q <;> fin_cases m <;> fin_cases n <;>
    refine ⟨sharp_of ?_, sharp_of ?_, sharp_of ?_⟩ <;> norm_num [exSgn]

theorem ex_firstOrderExact' (u : ℝ) (hu : |u| < 1 / 2) (g : Fin 2) :
    FirstOrderExact .absTimesDtGt (1e-7 : ℝ) (1 / 4 : ℝ) (exVals u)[g] (1 : ℝ) := by
  intro m n
  rw [exVals_get, exVals_get]
  have h1 := (abs_lt.mp hu).1
  have h2 := (abs_lt.mp hu).2
  simp only [firstOrderMask, ropsLt, ropsAbs, decide_eq_true_eq, mul_one, lt_abs]
  fin_cases g <;> fin_cases m <;> fin_cases n <;> norm_num [exSgn] <;>
    first | (left; linarith) | (right; linarith)

theorem ex_amplitudeFamily :
    AmplitudeFamily (fun _ : Fin 2 => exSz.toMatrix)
      (#v[exSz] : Vector (Mat ℂ 2 2) 1)[(#v[0] : Vector (Fin 1) 1)[(0 : Fin 1)]] (0 : Fin 2) exVals
      (fun _ => (#v[Mat.one, Mat.one] : Vector (Mat ℂ 2 2) 2)) :=
  fun u g => exFamily u g

theorem ex_hS : ∀ o : Fin 2, DerivIntegralSharp (1e-7 : ℝ) (#v[1 / 4, 1 / 2] : Vec ℝ 2)[o]
    (exVals 0)[(0 : Fin 2)] := by
  intro o
  fin_cases o
  · exact ex_derivIntegralSharp'
  · exact ex_derivIntegralSharp

theorem ex_hmaskU : ∀ o : Fin 2, ∀ᶠ u in nhds (0 : ℝ), ∀ g : Fin 2,
    FirstOrderExact .absTimesDtGt (1e-7 : ℝ) (#v[1 / 4, 1 / 2] : Vec ℝ 2)[o] (exVals u)[g]
      (#v[1, 1] : Vec ℝ 2)[g] := by
  intro o
  have hball : Set.Ioo (-(1 / 2 : ℝ)) (1 / 2) ∈ nhds (0 : ℝ) :=
    Ioo_mem_nhds (by norm_num) (by norm_num)
  filter_upwards [hball] with u hu g
  have habs : |u| < 1 / 2 := abs_lt.mpr ⟨hu.1, hu.2⟩
  fin_cases o
  · have := ex_firstOrderExact' u habs g
    fin_cases g <;> exact this
  · have := ex_firstOrderExact u habs g
    fin_cases g <;> exact this

example (S1 : Mat ℝ 1 2) :
    HasDerivAt (fun u : ℝ => fidelityIntegral 2 (#v[1 / 4, 1 / 2] : Vec ℝ 2) S1[(0 : Fin 1)]
        (controlMatrixFromScratch .absTimesDtGt (1e-7 : ℝ) (exVals u)
          (#v[Mat.one, Mat.one] : Vector (Mat ℂ 2 2) 2)
          (dropLast (propagators (exVals u) (#v[Mat.one, Mat.one] : Vector (Mat ℂ 2 2) 2)
            (#v[1, 1] : Vec ℝ 2)))
          (#v[1 / 4, 1 / 2] : Vec ℝ 2) (pauli1 (K := ℂ)) (#v[exSz, exSx] : Vector (Mat ℂ 2 2) 2)
          (#v[#v[1, 1], #v[1, 1]] : Mat ℝ 2 2) (#v[1, 1] : Vec ℝ 2)
          (dropLast (#v[0, 1, 2] : Vec ℝ 3)))[(#v[1] : Vector (Fin 2) 1)[(0 : Fin 1)]])
      (pulseInfidelityDerivative1 .absTimesDtGt (1e-7 : ℝ) (1e-7 : ℝ) (1e-7 : ℝ) true 2
        (#v[1 / 4, 1 / 2] : Vec ℝ 2)
        (propagators (exVals 0) (#v[Mat.one, Mat.one] : Vector (Mat ℂ 2 2) 2) (#v[1, 1] : Vec ℝ 2))
        (exVals 0) (#v[Mat.one, Mat.one] : Vector (Mat ℂ 2 2) 2) (pauli1 (K := ℂ))
        (#v[0, 1, 2] : Vec ℝ 3) (#v[1, 1] : Vec ℝ 2) (#v[exSz, exSx] : Vector (Mat ℂ 2 2) 2)
        (#v[#v[1, 1], #v[1, 1]] : Mat ℝ 2 2) (#v[exSz] : Vector (Mat ℂ 2 2) 1)
        (#v[1] : Vector (Fin 2) 1) (#v[0] : Vector (Fin 1) 1) none
        S1)[(0 : Fin 1)][(0 : Fin 2)][(0 : Fin 1)] 0 :=
  (infidelityDeriv_hasDerivAt .absTimesDtGt (1e-7 : ℝ) (1e-7 : ℝ) (1e-7 : ℝ) true
    (by norm_num) (by norm_num) (by norm_num) 2 (#v[1 / 4, 1 / 2] : Vec ℝ 2) (pauli1 (K := ℂ))
    C14.pauli1_orthoHerm C14.pauli1_complete (#v[0, 1, 2] : Vec ℝ 3) (#v[1, 1] : Vec ℝ 2)
    (#v[exSz, exSx] : Vector (Mat ℂ 2 2) 2) (#v[#v[1, 1], #v[1, 1]] : Mat ℝ 2 2)
    (#v[exSz] : Vector (Mat ℂ 2 2) 1) (#v[1] : Vector (Fin 2) 1) (#v[0] : Vector (Fin 1) 1)
    (fun _ => exSz.toMatrix) (0 : Fin 1) (0 : Fin 2) exVals
    (fun _ => (#v[Mat.one, Mat.one] : Vector (Mat ℂ 2 2) 2)) ex_amplitudeFamily (0 : Fin 1)
    ex_aMatSharp ex_hS ex_hmaskU).1 S1

/-- sensitivities of the two noise operators: the one of operator `1` on segment `0` is `1 + 2u` -/
def exNC (u : ℝ) : Mat ℝ 2 2 := Mat.ofFn fun a g => if a = 1 ∧ g = 0 then 1 + 2 * u else 1

theorem ex_localSensitivity :
    LocalSensitivity (fun u => (exNC u)[(#v[1] : Vector (Fin 2) 1)[(0 : Fin 1)]]) (0 : Fin 2)
      (Vector.ofFn fun _ : Fin 1 => (Mat.ofFn fun _ _ => (2 : ℝ) : Mat ℝ 1 2))[(0 : Fin 1)][(0 : Fin 1)][(0 : Fin 2)] := by
  have h1 : (#v[1] : Vector (Fin 2) 1)[(0 : Fin 1)] = (1 : Fin 2) := rfl
  refine ⟨fun u g hg => ?_, ?_, ?_⟩
  · simp only [h1, exNC, Mat.ofFn_get]
    rw [if_neg (fun h => hg h.2), if_neg (fun h => hg h.2)]
  · have e : (fun u : ℝ => (exNC u)[(#v[1] : Vector (Fin 2) 1)[(0 : Fin 1)]][(0 : Fin 2)])
        = fun u : ℝ => 1 + 2 * u := by
      funext u
      simp only [h1, exNC, Mat.ofFn_get, and_self, if_true]
    have hd : (Vector.ofFn fun _ : Fin 1 => (Mat.ofFn fun _ _ => (2 : ℝ) : Mat ℝ 1 2))[(0 : Fin 1)][(0 : Fin 1)][(0 : Fin 2)]
        = (2 : ℝ) := by
      simp only [vget, Mat.ofFn_get]
    rw [hd]
    show HasDerivAt (fun u : ℝ => (exNC u)[(#v[1] : Vector (Fin 2) 1)[(0 : Fin 1)]][(0 : Fin 2)]) 2 0
    rw [e]
    simpa using ((hasDerivAt_id (0 : ℝ)).const_mul (2 : ℝ)).const_add (1 : ℝ)
  · show (exNC 0)[(#v[1] : Vector (Fin 2) 1)[(0 : Fin 1)]][(0 : Fin 2)] ≠ 0
    simp only [h1, exNC, Mat.ofFn_get, and_self, if_true]
    norm_num

example (S0 : Vec ℝ 2) :
    HasDerivAt (fun u : ℝ => fidelityIntegral 2 (#v[1 / 4, 1 / 2] : Vec ℝ 2) S0
        (controlMatrixFromScratch .absTimesDtGt (1e-7 : ℝ) (exVals u)
          (#v[Mat.one, Mat.one] : Vector (Mat ℂ 2 2) 2)
          (dropLast (propagators (exVals u) (#v[Mat.one, Mat.one] : Vector (Mat ℂ 2 2) 2)
            (#v[1, 1] : Vec ℝ 2)))
          (#v[1 / 4, 1 / 2] : Vec ℝ 2) (pauli1 (K := ℂ)) (#v[exSz, exSx] : Vector (Mat ℂ 2 2) 2)
          (exNC u) (#v[1, 1] : Vec ℝ 2)
          (dropLast (#v[0, 1, 2] : Vec ℝ 3)))[(#v[1] : Vector (Fin 2) 1)[(0 : Fin 1)]]
      - fidelityIntegral 2 (#v[1 / 4, 1 / 2] : Vec ℝ 2) S0
        (#v[(identityComponent (identityTraces 2
            (selectRows (#v[1] : Vector (Fin 2) 1) (#v[exSz, exSx] : Vector (Mat ℂ 2 2) 2)))
          (selectRows (#v[1] : Vector (Fin 2) 1) (exNC u))
          (identitySegmentIntegral (K := ℂ) .absTimesDtGt (1e-7 : ℝ) (#v[1 / 4, 1 / 2] : Vec ℝ 2)
            (#v[0, 1, 2] : Vec ℝ 3) (#v[1, 1] : Vec ℝ 2)))[(0 : Fin 1)]] : Mat ℂ 1 2))
      (pulseInfidelityDerivative0 .absTimesDtGt (1e-7 : ℝ) (1e-7 : ℝ) (1e-7 : ℝ) true 2
        (#v[1 / 4, 1 / 2] : Vec ℝ 2)
        (propagators (exVals 0) (#v[Mat.one, Mat.one] : Vector (Mat ℂ 2 2) 2) (#v[1, 1] : Vec ℝ 2))
        (exVals 0) (#v[Mat.one, Mat.one] : Vector (Mat ℂ 2 2) 2) (pauli1 (K := ℂ))
        (#v[0, 1, 2] : Vec ℝ 3) (#v[1, 1] : Vec ℝ 2) (#v[exSz, exSx] : Vector (Mat ℂ 2 2) 2)
        (exNC 0) (#v[exSz] : Vector (Mat ℂ 2 2) 1)
        (#v[1] : Vector (Fin 2) 1) (#v[0] : Vector (Fin 1) 1)
        (some (Vector.ofFn fun _ => Mat.ofFn fun _ _ => (2 : ℝ)))
        S0)[(0 : Fin 1)][(0 : Fin 2)][(0 : Fin 1)] 0 :=
  (infidelityDeriv_hasDerivAt_sens .absTimesDtGt (1e-7 : ℝ) (1e-7 : ℝ) (1e-7 : ℝ) true
    (by norm_num) (by norm_num) (by norm_num) 2 (#v[1 / 4, 1 / 2] : Vec ℝ 2) (pauli1 (K := ℂ))
    C14.pauli1_orthoHerm C14.pauli1_complete (#v[0, 1, 2] : Vec ℝ 3) (#v[1, 1] : Vec ℝ 2)
    (#v[exSz, exSx] : Vector (Mat ℂ 2 2) 2) exNC (Vector.ofFn fun _ => Mat.ofFn fun _ _ => (2 : ℝ))
    (#v[exSz] : Vector (Mat ℂ 2 2) 1) (#v[1] : Vector (Fin 2) 1) (#v[0] : Vector (Fin 1) 1)
    (fun _ => exSz.toMatrix) (0 : Fin 1) (0 : Fin 2) exVals
    (fun _ => (#v[Mat.one, Mat.one] : Vector (Mat ℂ 2 2) 2)) ex_amplitudeFamily (0 : Fin 1)
    ex_localSensitivity ex_aMatSharp ex_hS ex_hmaskU).2 S0

/-- the gap is not identically zero: grid `ω = (0, 1)`, spectrum `(1, 0)`, identity row `(1, 1)`,
segment `[0, 1]`, `∂s = 1`, `c = tr B = 1`, `dim = 2`: `identityGap = 1/(4π)` -/
example : identityGap .absTimesDtGt (1e-7 : ℝ) 2 (#v[0, 1] : Vec ℝ 2) (#v[1, 0] : Vec ℝ 2)
    (#v[1, 1] : Vec ℂ 2) 0 1 1 1 1 = 1 / (4 * Real.pi) := by
  unfold identityGap
  rw [integrate_two]
  have e1 : (Vector.ofFn fun o : Fin 2 => (#v[1, 0] : Vec ℝ 2)[o] * (2 * (starRingEnd ℂ (#v[1, 1] : Vec ℂ 2)[o]
      * (Complex.exp (Complex.I * (((#v[0, 1] : Vec ℝ 2)[o] : ℂ) * ((0 : ℝ) : ℂ))) * ((1 : ℝ) : ℂ)
          * (firstOrderEntry .absTimesDtGt (1e-7 : ℝ) (#v[0, 1] : Vec ℝ 2)[o] 1 : ℂ) * 1 * 1)).re))[1] = 0 := by
    rw [Vector.getElem_ofFn]
    have : (#v[1, 0] : Vec ℝ 2)[(⟨1, by omega⟩ : Fin 2)] = 0 := rfl
    rw [this, zero_mul]
  have e0 : (Vector.ofFn fun o : Fin 2 => (#v[1, 0] : Vec ℝ 2)[o] * (2 * (starRingEnd ℂ (#v[1, 1] : Vec ℂ 2)[o]
      * (Complex.exp (Complex.I * (((#v[0, 1] : Vec ℝ 2)[o] : ℂ) * ((0 : ℝ) : ℂ))) * ((1 : ℝ) : ℂ)
          * (firstOrderEntry .absTimesDtGt (1e-7 : ℝ) (#v[0, 1] : Vec ℝ 2)[o] 1 : ℂ) * 1 * 1)).re))[0] = 2 := by
    rw [Vector.getElem_ofFn]
    have h1 : (#v[1, 0] : Vec ℝ 2)[(⟨0, by omega⟩ : Fin 2)] = 1 := rfl
    have h2 : (#v[1, 1] : Vec ℂ 2)[(⟨0, by omega⟩ : Fin 2)] = 1 := rfl
    have h3 : (#v[0, 1] : Vec ℝ 2)[(⟨0, by omega⟩ : Fin 2)] = 0 := rfl
    rw [h1, h2, h3]
    have hf : (firstOrderEntry .absTimesDtGt (1e-7 : ℝ) 0 1 : ℂ) = 1 := by
      simp [firstOrderEntry, firstOrderMask, ropsLt, ropsAbs, copsOfReal]
      norm_num
    rw [hf]
    simp
  rw [e1, e0]
  have x1 : (#v[0, 1] : Vec ℝ 2)[1] = 1 := rfl
  have x0 : (#v[0, 1] : Vec ℝ 2)[0] = 0 := rfl
  rw [x1, x0]
  push_cast
  field_simp
  ring

theorem ex_pauli1_identity :
    (pauli1 (K := ℂ))[(0 : Fin 4)].toMatrix
      = ((1 / Real.sqrt ((2 : Nat) : ℝ) : ℝ) : ℂ) • (1 : Matrix (Fin 2) (Fin 2) ℂ) := by
  ext a b
  have h := Model.pauli1_apply 0 a b
  simp only [Spec.basisOf] at h
  rw [h, Matrix.smul_apply, smul_eq_mul]
  congr 1
  have h2 := congrFun (congrFun (Model.paulis_zero_toMatrix) a) b
  simpa [Mat.toMatrix_apply] using h2


theorem ex_normSq_c : Complex.normSq (((1 / Real.sqrt ((2 : Nat) : ℝ) : ℝ)) : ℂ) * ((2 : Nat) : ℝ) = 1 := by
  rw [Complex.normSq_ofReal, div_mul_div_comm, Real.mul_self_sqrt (Nat.cast_nonneg _)]
  norm_num

/-- a noise operator WITH a trace for the example: the projector `(1 + σ_z)/2` -/
def exP : Mat ℂ 2 2 := Mat.ofFn fun i j => if i = 0 ∧ j = 0 then 1 else 0

theorem ex_trace_real :
    (trace (#v[exSz, exP] : Vector (Mat ℂ 2 2) 2)[(#v[1] : Vector (Fin 2) 1)[(0 : Fin 1)]].toMatrix).im = 0 := by
  have h1 : (#v[exSz, exP] : Vector (Mat ℂ 2 2) 2)[(#v[1] : Vector (Fin 2) 1)[(0 : Fin 1)]] = exP := rfl
  rw [h1]
  simp [Matrix.trace, exP]

/-- **Non-vacuity of `infidelityDeriv_is_numeric_infidelity_deriv_sens`** with a noise operator that
HAS a trace: the same pulse with noise operators `(σ_z, (1+σ_z)/2)`, the projector selected
(`n_idx = [1]`), sensitivity `1 + 2u`, Pauli basis with identity element `k0 = 0`, `c = 1/√2`,
`dim = 2`, any trace tensor `T`. -/
example (T : Ten4 ℂ 4 4 4 4) (S1 : Mat ℝ 1 2) :
    HasDerivAt (fun u : ℝ => (infidelityFromCM2 true 2 (#v[1 / 4, 1 / 2] : Vec ℝ 2)
        (controlMatrixFromScratch .absTimesDtGt (1e-7 : ℝ) (exVals u)
          (#v[Mat.one, Mat.one] : Vector (Mat ℂ 2 2) 2)
          (dropLast (propagators (exVals u) (#v[Mat.one, Mat.one] : Vector (Mat ℂ 2 2) 2)
            (#v[1, 1] : Vec ℝ 2)))
          (#v[1 / 4, 1 / 2] : Vec ℝ 2) (pauli1 (K := ℂ)) (#v[exSz, exP] : Vector (Mat ℂ 2 2) 2)
          (exNC u) (#v[1, 1] : Vec ℝ 2) (dropLast (#v[0, 1, 2] : Vec ℝ 3)))
        T #v[(0 : Fin 4)] (#v[1] : Vector (Fin 2) 1) (ofRealSpec S1))[(0 : Fin 1)])
      (pulseInfidelityDerivative1 .absTimesDtGt (1e-7 : ℝ) (1e-7 : ℝ) (1e-7 : ℝ) true 2
          (#v[1 / 4, 1 / 2] : Vec ℝ 2)
          (propagators (exVals 0) (#v[Mat.one, Mat.one] : Vector (Mat ℂ 2 2) 2) (#v[1, 1] : Vec ℝ 2))
          (exVals 0) (#v[Mat.one, Mat.one] : Vector (Mat ℂ 2 2) 2) (pauli1 (K := ℂ))
          (#v[0, 1, 2] : Vec ℝ 3) (#v[1, 1] : Vec ℝ 2) (#v[exSz, exP] : Vector (Mat ℂ 2 2) 2)
          (exNC 0) (#v[exSz] : Vector (Mat ℂ 2 2) 1)
          (#v[1] : Vector (Fin 2) 1) (#v[0] : Vector (Fin 1) 1)
          (some (Vector.ofFn fun _ => Mat.ofFn fun _ _ => (2 : ℝ)))
          S1)[(0 : Fin 1)][(0 : Fin 2)][(0 : Fin 1)]
      0 :=
  infidelityDeriv_is_numeric_infidelity_deriv_sens .absTimesDtGt (1e-7 : ℝ) (1e-7 : ℝ) (1e-7 : ℝ)
    true (by norm_num) (by norm_num) (by norm_num) 2 (#v[1 / 4, 1 / 2] : Vec ℝ 2) (pauli1 (K := ℂ))
    C14.pauli1_orthoHerm C14.pauli1_complete (#v[0, 1, 2] : Vec ℝ 3) (#v[1, 1] : Vec ℝ 2)
    (#v[exSz, exP] : Vector (Mat ℂ 2 2) 2) exNC (Vector.ofFn fun _ => Mat.ofFn fun _ _ => (2 : ℝ))
    (#v[exSz] : Vector (Mat ℂ 2 2) 1) (#v[1] : Vector (Fin 2) 1) (#v[0] : Vector (Fin 1) 1)
    (fun _ => exSz.toMatrix) (0 : Fin 1) (0 : Fin 2) exVals
    (fun _ => (#v[Mat.one, Mat.one] : Vector (Mat ℂ 2 2) 2)) ex_amplitudeFamily (0 : Fin 1)
    ex_localSensitivity ex_aMatSharp ex_hS ex_hmaskU T (0 : Fin 4) _ ex_pauli1_identity ex_normSq_c
    ex_trace_real S1

end example_data

end FFVerif.C11
