/-
C02 — diagonalization and propagators solve the pulse's Schrödinger equation.

`nla.eigh` is an oracle; its contract for one segment is `IsEigh`.  Everything that does not
mention `IsEigh` holds for arbitrary `eigvals` / `eigvecs` arrays.
-/
import Mathlib.Analysis.Normed.Algebra.MatrixExponential
import Mathlib.Analysis.SpecialFunctions.Exponential
import Mathlib.LinearAlgebra.UnitaryGroup
import Mathlib.Analysis.Calculus.Deriv.Shift
import FFVerif.Lemmas.DiagAux

namespace FFVerif.C02
open FFVerif FFVerif.Model Matrix Complex

/-! ### a. the contract of `eigh` and the segment propagator in spectral form -/

/-- contract of `nla.eigh` for one segment: `H V = V diag(D)`, `V` unitary. -/
structure IsEigh {d : Nat} (H : Matrix (Fin d) (Fin d) ℂ) (D : Fin d → ℝ)
    (V : Matrix (Fin d) (Fin d) ℂ) : Prop where
  eig : H * V = V * diagonal (fun i => (D i : ℂ))
  left : Vᴴ * V = 1
  right : V * Vᴴ = 1

/-- `P(s) = V diag(e^{-i s λ}) V†` : what the code evaluates for a segment with eigen-data
`(λ, V)` and elapsed time `s`. -/
noncomputable def segProp {d : Nat} (D : Fin d → ℝ) (V : Matrix (Fin d) (Fin d) ℂ) (s : ℝ) :
    Matrix (Fin d) (Fin d) ℂ :=
  V * diagonal (fun j => Complex.exp (-(I * ((s : ℂ) * (D j : ℂ))))) * Vᴴ

/-- the control Hamiltonian formed by `PulseSequence.diagonalize` is `H_g = Σ_i a_i(g) A_i`
(all operator counts, segment counts, dimensions). -/
theorem hamiltonian_entries {nC nG d : Nat} (cOpers : Ten3 ℂ nC d d) (cCoeffs : Mat ℝ nC nG)
    (g : Nat) (hg : g < nG) :
    Mat.toMatrix (hamiltonian cOpers cCoeffs)[g]
      = ∑ i : Fin nC, ((cCoeffs[i][g] : ℝ) : ℂ) • Mat.toMatrix cOpers[i] := by
  ext j k
  simp only [hamiltonian, Gen.pulse_sequence_PulseSequence_diagonalize_0, Mat.toMatrix_apply,
    Fin.getElem_fin, Vector.getElem_ofFn, Vector.getElem_map, fsum_eq_sum, copsOfReal,
    Matrix.sum_apply, Matrix.smul_apply, smul_eq_mul]
  exact Finset.sum_congr rfl fun i _ => mul_comm _ _

/-! ### b. the `piecewise` array -/

/-- **`piecewise[g] = V_g diag(e^{-i dt_g λ_g}) V_g†`** — unfolding of the generated contraction
`'lij,jl,lkj->lik'`; no assumption on `eigvals`, `eigvecs`, `dt`. -/
theorem piecewise_entries {nG d : Nat} (eigvals : Mat ℝ nG d) (eigvecs : Vector (Mat ℂ d d) nG)
    (dt : Vec ℝ nG) (g : Nat) (hg : g < nG) :
    (piecewise eigvals eigvecs dt)[g].toMatrix
      = segProp (fun j => eigvals[g][j]) eigvecs[g].toMatrix dt[g] := by
  ext i k
  rw [segProp, Matrix.mul_apply]
  simp only [piecewise, Gen.numeric_diagonalize_0, diagPhases, Mat.toMatrix_apply,
    Fin.getElem_fin, Vector.getElem_ofFn, Vector.getElem_map, Mat.ofFn_getElem, fsum_eq_sum,
    copsExpI, copsConj, Matrix.mul_diagonal, Matrix.conjTranspose_apply, RCLike.star_def]
  refine Finset.sum_congr rfl fun j _ => ?_
  congr 3
  push_cast
  ring

/-! ### c. the spectral form is the matrix exponential / solves the Schrödinger equation -/

section spectral
variable {d : Nat}

theorem diagonal_exp_conjTranspose (D : Fin d → ℝ) (s : ℝ) :
    (diagonal (fun j => Complex.exp (-(I * ((s : ℂ) * (D j : ℂ))))))ᴴ
      = diagonal (fun j => Complex.exp (-(I * (((-s : ℝ) : ℂ) * (D j : ℂ))))) := by
  rw [Matrix.diagonal_conjTranspose]
  congr 1
  funext j
  simp only [Pi.star_apply, RCLike.star_def, ← Complex.exp_conj, map_neg, map_mul,
    Complex.conj_I, Complex.conj_ofReal, Complex.ofReal_neg, neg_mul, mul_neg, neg_neg]

theorem segProp_conjTranspose (D : Fin d → ℝ) (V : Matrix (Fin d) (Fin d) ℂ) (s : ℝ) :
    (segProp D V s)ᴴ = segProp D V (-s) := by
  unfold segProp
  rw [Matrix.conjTranspose_mul, Matrix.conjTranspose_mul, Matrix.conjTranspose_conjTranspose,
    diagonal_exp_conjTranspose, Matrix.mul_assoc]

/-- `P(0) = 1` (needs `V V† = 1`). -/
theorem segProp_zero (D : Fin d → ℝ) (V : Matrix (Fin d) (Fin d) ℂ) (hV : V * Vᴴ = 1) :
    segProp D V 0 = 1 := by
  unfold segProp
  have : (fun j => Complex.exp (-(I * (((0 : ℝ) : ℂ) * (D j : ℂ))))) = fun _ : Fin d => (1 : ℂ) := by
    funext j; simp
  rw [this, Matrix.diagonal_one, Matrix.mul_one, hV]

/-- group law `P(s + r) = P(s) P(r)` (needs `V† V = 1`). -/
theorem segProp_add (D : Fin d → ℝ) (V : Matrix (Fin d) (Fin d) ℂ) (hV : Vᴴ * V = 1) (s r : ℝ) :
    segProp D V (s + r) = segProp D V s * segProp D V r := by
  unfold segProp
  have h : ∀ (a b : Matrix (Fin d) (Fin d) ℂ), V * a * Vᴴ * (V * b * Vᴴ) = V * (a * b) * Vᴴ := by
    intro a b
    calc V * a * Vᴴ * (V * b * Vᴴ) = V * a * (Vᴴ * V) * b * Vᴴ := by
          simp only [Matrix.mul_assoc]
      _ = V * (a * b) * Vᴴ := by rw [hV, Matrix.mul_one, Matrix.mul_assoc V a b]
  rw [h, Matrix.diagonal_mul_diagonal]
  congr 3
  funext j
  rw [← Complex.exp_add]
  congr 1
  push_cast
  ring

/-- `P(s)` is unitary for every real `s` when `V` is unitary. -/
theorem segProp_unitary (D : Fin d → ℝ) (V : Matrix (Fin d) (Fin d) ℂ) (hV : Vᴴ * V = 1) (s : ℝ) :
    (segProp D V s)ᴴ * segProp D V s = 1 ∧ segProp D V s * (segProp D V s)ᴴ = 1 := by
  have hV' : V * Vᴴ = 1 := mul_eq_one_comm.mp hV
  rw [segProp_conjTranspose, ← segProp_add D V hV, ← segProp_add D V hV, neg_add_cancel,
    add_neg_cancel]
  exact ⟨segProp_zero D V hV', segProp_zero D V hV'⟩

theorem segProp_mem_unitaryGroup (D : Fin d → ℝ) (V : Matrix (Fin d) (Fin d) ℂ) (hV : Vᴴ * V = 1)
    (s : ℝ) : segProp D V s ∈ Matrix.unitaryGroup (Fin d) ℂ := by
  rw [Matrix.mem_unitaryGroup_iff]
  exact (segProp_unitary D V hV s).2

/-- under the `eigh` contract `H = V diag(D) V†` -/
theorem IsEigh.spectral {H : Matrix (Fin d) (Fin d) ℂ} {D : Fin d → ℝ}
    {V : Matrix (Fin d) (Fin d) ℂ} (h : IsEigh H D V) :
    H = V * diagonal (fun i => (D i : ℂ)) * Vᴴ := by
  rw [← h.eig, Matrix.mul_assoc, h.right, Matrix.mul_one]

/-- under the `eigh` contract `H` is Hermitian (so the contract can only be met for Hermitian
input; `eigh` reads one triangle only and silently symmetrises any other input). -/
theorem IsEigh.isHermitian {H : Matrix (Fin d) (Fin d) ℂ} {D : Fin d → ℝ}
    {V : Matrix (Fin d) (Fin d) ℂ} (h : IsEigh H D V) : H.IsHermitian := by
  unfold Matrix.IsHermitian
  conv_lhs => rw [h.spectral]
  conv_rhs => rw [h.spectral]
  rw [Matrix.conjTranspose_mul, Matrix.conjTranspose_mul, Matrix.conjTranspose_conjTranspose,
    Matrix.diagonal_conjTranspose, Matrix.mul_assoc]
  congr 3
  funext j
  simp

/-- **`piecewise` is the matrix exponential**: under the `eigh` contract for `(H, D, V)`,
`V diag(e^{-i s D}) V† = exp(-i s H)` for every real `s` (in particular `s = dt_g`), where `exp` is
Mathlib's `NormedSpace.exp` on matrices (the sum of the exponential series). -/
theorem piecewise_is_exp {H : Matrix (Fin d) (Fin d) ℂ} {D : Fin d → ℝ}
    {V : Matrix (Fin d) (Fin d) ℂ} (h : IsEigh H D V) (s : ℝ) :
    segProp D V s = NormedSpace.exp ((-(I * (s : ℂ))) • H) := by
  have hinv : V⁻¹ = Vᴴ := Matrix.inv_eq_right_inv h.right
  have hunit : IsUnit V := ⟨⟨V, Vᴴ, h.right, h.left⟩, rfl⟩
  have hH : (-(I * (s : ℂ))) • H
      = V * diagonal (fun j => -(I * ((s : ℂ) * (D j : ℂ)))) * V⁻¹ := by
    conv_lhs => rw [h.spectral]
    rw [hinv, ← Matrix.smul_mul, ← Matrix.mul_smul, ← Matrix.diagonal_smul]
    congr 3
    funext j
    simp only [Pi.smul_apply, smul_eq_mul]
    ring
  rw [hH, Matrix.exp_conj _ _ hunit, Matrix.exp_diagonal, hinv, Pi.exp_def]
  simp only [← Complex.exp_eq_exp_ℂ]
  rfl

/-- entries of the spectral form -/
theorem segProp_apply (D : Fin d → ℝ) (V : Matrix (Fin d) (Fin d) ℂ) (s : ℝ) (i k : Fin d) :
    segProp D V s i k
      = ∑ j, V i j * Complex.exp (-(I * ((s : ℂ) * (D j : ℂ)))) * star (V k j) := by
  rw [segProp, Matrix.mul_apply]
  simp only [Matrix.mul_diagonal, Matrix.conjTranspose_apply]

/-- under the `eigh` contract, `-i H P(s) = V diag(-i D e^{-i s D}) V†` -/
theorem IsEigh.neg_I_smul_mul_segProp {H : Matrix (Fin d) (Fin d) ℂ} {D : Fin d → ℝ}
    {V : Matrix (Fin d) (Fin d) ℂ} (h : IsEigh H D V) (s : ℝ) :
    (-I) • (H * segProp D V s)
      = V * diagonal (fun j => -(I * (D j : ℂ)) * Complex.exp (-(I * ((s : ℂ) * (D j : ℂ))))) * Vᴴ := by
  unfold segProp
  rw [← Matrix.mul_assoc, ← Matrix.mul_assoc, h.eig, Matrix.mul_assoc V, Matrix.diagonal_mul_diagonal,
    ← Matrix.smul_mul, ← Matrix.mul_smul, ← Matrix.diagonal_smul]
  congr 3
  funext j
  simp only [Pi.smul_apply, smul_eq_mul]
  ring

/-- **Schrödinger equation inside a segment** (entrywise derivative with respect to the real
elapsed time): under the `eigh` contract, `d/ds P(s) = -i H P(s)` for every real `s`; together with
`segProp_zero` (`P(0) = 1`) this characterises `P(s) = exp(-i s H)` without mentioning the
exponential series. -/
theorem segProp_hasDerivAt {H : Matrix (Fin d) (Fin d) ℂ} {D : Fin d → ℝ}
    {V : Matrix (Fin d) (Fin d) ℂ} (h : IsEigh H D V) (s : ℝ) (i k : Fin d) :
    HasDerivAt (fun u : ℝ => segProp D V u i k) (((-I) • (H * segProp D V s)) i k) s := by
  rw [h.neg_I_smul_mul_segProp, Matrix.mul_apply]
  simp only [Matrix.mul_diagonal, Matrix.conjTranspose_apply]
  have hfun : (fun u : ℝ => segProp D V u i k)
      = fun u : ℝ => ∑ j, V i j * Complex.exp (-(I * ((u : ℂ) * (D j : ℂ)))) * star (V k j) := by
    funext u; exact segProp_apply D V u i k
  rw [hfun]
  refine HasDerivAt.fun_sum fun j _ => ?_
  have h1 : HasDerivAt (fun u : ℝ => (u : ℂ)) 1 s := Complex.ofRealCLM.hasDerivAt
  have h2 : HasDerivAt (fun u : ℝ => V i j * Complex.exp (-(I * ((u : ℂ) * (D j : ℂ)))) * star (V k j))
      (V i j * (Complex.exp (-(I * ((s : ℂ) * (D j : ℂ)))) * -(I * (1 * (D j : ℂ)))) * star (V k j)) s :=
    (((h1.mul_const (D j : ℂ)).const_mul I).neg.cexp.const_mul (V i j)).mul_const (star (V k j))
  exact h2.congr_deriv (by ring)

end spectral

/-! ### d. cumulative propagators -/

section cumul
variable {nG d : Nat} (eigvals : Mat ℝ nG d) (eigvecs : Vector (Mat ℂ d d) nG) (dt : Vec ℝ nG)

/-- `Q_0 = 1`. -/
theorem propagators_zero : (propagators eigvals eigvecs dt)[0].toMatrix = 1 := by
  unfold propagators
  rw [cumulative_getElem_zero, Mat.toMatrix_one]

/-- `Q_{g+1} = P_g Q_g` with `P_g = V_g diag(e^{-i dt_g λ_g}) V_g†`. -/
theorem propagators_succ (g : Nat) (hg : g < nG) :
    (propagators eigvals eigvecs dt)[g + 1].toMatrix
      = segProp (fun j => eigvals[g][j]) eigvecs[g].toMatrix dt[g]
        * (propagators eigvals eigvecs dt)[g].toMatrix := by
  unfold propagators
  rw [cumulative_getElem_succ _ g hg, Mat.toMatrix_mul, piecewise_entries]

/-- `total_propagator = propagators[-1]` (definitional in the model as in the Python). -/
theorem total_propagator_is_last :
    totalPropagator eigvals eigvecs dt = (propagators eigvals eigvecs dt)[nG] := rfl

/-- **every cumulative propagator is unitary** when every eigenvector matrix is (induction over the
segments; all segment counts, dimensions, durations — the durations need not be positive). -/
theorem propagators_unitary
    (hV : ∀ (g : Nat) (hg : g < nG), (eigvecs[g].toMatrix)ᴴ * eigvecs[g].toMatrix = 1)
    (g : Nat) (hg : g ≤ nG) :
    ((propagators eigvals eigvecs dt)[g].toMatrix)ᴴ * (propagators eigvals eigvecs dt)[g].toMatrix = 1
    ∧ (propagators eigvals eigvecs dt)[g].toMatrix * ((propagators eigvals eigvecs dt)[g].toMatrix)ᴴ = 1 := by
  have key : ∀ (g : Nat) (hg : g ≤ nG),
      (propagators eigvals eigvecs dt)[g].toMatrix ∈ Matrix.unitaryGroup (Fin d) ℂ := by
    intro g
    induction g with
    | zero => intro _; rw [propagators_zero]; exact one_mem _
    | succ g ih =>
      intro hg
      rw [propagators_succ eigvals eigvecs dt g hg]
      exact mul_mem (segProp_mem_unitaryGroup _ _ (hV g hg) _) (ih (Nat.le_of_succ_le hg))
  have h := key g hg
  exact ⟨Matrix.mem_unitaryGroup_iff'.mp h, Matrix.mem_unitaryGroup_iff.mp h⟩

/-- the total propagator is unitary when every eigenvector matrix is -/
theorem total_propagator_unitary
    (hV : ∀ (g : Nat) (hg : g < nG), (eigvecs[g].toMatrix)ᴴ * eigvecs[g].toMatrix = 1) :
    ((totalPropagator eigvals eigvecs dt).toMatrix)ᴴ * (totalPropagator eigvals eigvecs dt).toMatrix = 1
    ∧ (totalPropagator eigvals eigvecs dt).toMatrix * ((totalPropagator eigvals eigvecs dt).toMatrix)ᴴ = 1 :=
  propagators_unitary eigvals eigvecs dt hV nG (Nat.le_refl _)

/-- a zero-length segment does not change the cumulative propagator -/
theorem propagators_succ_of_dt_zero (g : Nat) (hg : g < nG) (h0 : dt[g] = 0)
    (hV : (eigvecs[g].toMatrix)ᴴ * eigvecs[g].toMatrix = 1) :
    (propagators eigvals eigvecs dt)[g + 1].toMatrix = (propagators eigvals eigvecs dt)[g].toMatrix := by
  rw [propagators_succ eigvals eigvecs dt g hg, h0, segProp_zero _ _ (mul_eq_one_comm.mp hV),
    Matrix.one_mul]

/-- **`Q_{g+1} = exp(-i dt_g H_g) Q_g`** under the `eigh` contract for segment `g`. -/
theorem propagators_succ_exp (H : Matrix (Fin d) (Fin d) ℂ) (g : Nat) (hg : g < nG)
    (hE : IsEigh H (fun j => eigvals[g][j]) eigvecs[g].toMatrix) :
    (propagators eigvals eigvecs dt)[g + 1].toMatrix
      = NormedSpace.exp ((-(I * (dt[g] : ℂ))) • H) * (propagators eigvals eigvecs dt)[g].toMatrix := by
  rw [propagators_succ eigvals eigvecs dt g hg, piecewise_is_exp hE]

/-- **the cumulative propagators are the time-ordered products**
`Q_g = exp(-i dt_{g-1} H_{g-1}) ⋯ exp(-i dt_1 H_1) exp(-i dt_0 H_0)` (later segments to the left),
for every `g ≤ n_dt`, under the `eigh` contract for every segment. -/
theorem propagators_eq_timeOrderedProduct (H : Fin nG → Matrix (Fin d) (Fin d) ℂ)
    (hE : ∀ g : Fin nG, IsEigh (H g) (fun j => eigvals[g.1][j]) eigvecs[g.1].toMatrix)
    (g : Nat) (hg : g ≤ nG) :
    (propagators eigvals eigvecs dt)[g].toMatrix
      = (List.ofFn fun l : Fin g =>
          NormedSpace.exp ((-(I * (dt[l.1]'(Nat.lt_of_lt_of_le l.2 hg) : ℂ))) •
            H ⟨l.1, Nat.lt_of_lt_of_le l.2 hg⟩)).reverse.prod := by
  induction g with
  | zero => simp [propagators_zero]
  | succ g ih =>
    rw [propagators_succ_exp eigvals eigvecs dt (H ⟨g, hg⟩) g hg (hE ⟨g, hg⟩),
      ih (Nat.le_of_succ_le hg), List.ofFn_succ', List.concat_eq_append, List.reverse_append,
      List.reverse_singleton, List.singleton_append, List.prod_cons]
    rfl

end cumul

/-! ### e. times and total duration -/

section times
variable {nG : Nat} (dt : Vec ℝ nG)

/-- `t[0] = 0` -/
theorem times_zero : (times dt)[0] = 0 := times_getElem_zero dt

/-- `t[g+1] = t[g] + dt[g]` -/
theorem times_succ (g : Nat) (hg : g < nG) : (times dt)[g + 1] = (times dt)[g] + dt[g] :=
  times_getElem_succ dt g hg

/-- `t[g] = Σ_{l<g} dt[l]` for every `g ≤ n_dt` -/
theorem times_eq_sum (g : Nat) (hg : g ≤ nG) :
    (times dt)[g] = ∑ l : Fin g, dt[l.1]'(Nat.lt_of_lt_of_le l.2 hg) := by
  induction g with
  | zero => simp [times_zero]
  | succ g ih =>
    rw [times_succ dt g hg, ih (Nat.le_of_succ_le hg), Fin.sum_univ_castSucc]
    rfl

/-- `tau = t[-1] = Σ_g dt[g]` -/
theorem tau_eq_sum : tau dt = ∑ g : Fin nG, dt[g] := by
  unfold tau
  rw [times_eq_sum dt nG (Nat.le_refl _)]
  rfl

/-- the other branch of the `tau` property (`self.dt.sum()`, used while `_t` is `None`) is the same
real number.  (At IEEE doubles the two branches differ in the last bit for some inputs, so the
reported `tau` depends on whether `pulse.t` was read before; see the report.) -/
theorem tauSum_eq_tau : tauSum dt = tau dt := by
  rw [tau_eq_sum, tauSum, fsum_eq_sum]

/-- for non-negative durations the times are (weakly) increasing -/
theorem times_mono (hdt : ∀ (g : Nat) (hg : g < nG), 0 ≤ dt[g]) (i j : Nat) (hij : i ≤ j)
    (hj : j ≤ nG) : (times dt)[i] ≤ (times dt)[j] := by
  induction j, hij using Nat.le_induction with
  | base => exact le_refl _
  | succ j hij ih =>
    rw [times_succ dt j hj]
    have := hdt j hj
    have := ih (Nat.le_of_succ_le hj)
    linarith

/-- for positive durations the times are strictly increasing -/
theorem times_strictMono (hdt : ∀ (g : Nat) (hg : g < nG), 0 < dt[g]) (i j : Nat) (hij : i < j)
    (hj : j ≤ nG) : (times dt)[i] < (times dt)[j] := by
  have h1 := times_mono dt (fun g hg => le_of_lt (hdt g hg)) (i + 1) j hij hj
  have h2 := times_succ dt i (Nat.lt_of_lt_of_le hij hj)
  have := hdt i (Nat.lt_of_lt_of_le hij hj)
  linarith

/-- all times lie in `[0, tau]` for non-negative durations -/
theorem times_mem_Icc (hdt : ∀ (g : Nat) (hg : g < nG), 0 ≤ dt[g]) (g : Nat) (hg : g ≤ nG) :
    0 ≤ (times dt)[g] ∧ (times dt)[g] ≤ tau dt := by
  constructor
  · rw [← times_zero dt]; exact times_mono dt hdt 0 g (Nat.zero_le _) hg
  · exact times_mono dt hdt g nG hg (Nat.le_refl _)

end times

section concat
variable {n1 n2 : Nat} (dt1 : Vec ℝ n1) (dt2 : Vec ℝ n2)

/-- times of a concatenated pulse, first part: `t_{12}[g] = t_1[g]` for `g ≤ n_1` -/
theorem times_append_left (g : Nat) (hg : g ≤ n1) :
    (times (dt1 ++ dt2))[g] = (times dt1)[g] := by
  induction g with
  | zero => rw [times_zero, times_zero]
  | succ g ih =>
    rw [times_succ _ g (by omega), times_succ _ g hg, ih (Nat.le_of_succ_le hg),
      Vector.getElem_append_left hg]

/-- times of a concatenated pulse, second part: `t_{12}[n_1 + g] = tau_1 + t_2[g]` for `g ≤ n_2` -/
theorem times_append_right (g : Nat) (hg : g ≤ n2) :
    (times (dt1 ++ dt2))[n1 + g] = tau dt1 + (times dt2)[g] := by
  induction g with
  | zero =>
    show (times (dt1 ++ dt2))[n1] = tau dt1 + (times dt2)[0]
    rw [times_zero, add_zero]; exact times_append_left dt1 dt2 n1 (Nat.le_refl _)
  | succ g ih =>
    have h := times_succ (dt1 ++ dt2) (n1 + g) (by omega)
    show (times (dt1 ++ dt2))[n1 + g + 1] = tau dt1 + (times dt2)[g + 1]
    rw [h, ih (Nat.le_of_succ_le hg), times_succ _ g hg,
      Vector.getElem_append_right (by omega) (by omega), add_assoc]
    simp

/-- **`tau` is additive under concatenation** of the duration arrays -/
theorem tau_append : tau (dt1 ++ dt2) = tau dt1 + tau dt2 := by
  have := times_append_right dt1 dt2 n2 (Nat.le_refl _)
  unfold tau
  exact this

end concat

/-- `np.tile(dt, G)` : `tile[r] = dt[r mod n]` -/
def tile {n : Nat} (G : Nat) (dt : Vec ℝ n) : Vec ℝ (G * n) :=
  Vector.ofFn fun r => dt[Fin.lo r]

/-- **`tau` of a `G`-fold repeated pulse is `G · tau`** -/
theorem tau_tile {n : Nat} (G : Nat) (dt : Vec ℝ n) : tau (tile G dt) = G * tau dt := by
  rw [tau_eq_sum, tau_eq_sum, ← (finProdFinEquiv (m := G) (n := n)).sum_comp, Fintype.sum_prod_type]
  have : ∀ (i : Fin G) (j : Fin n), (tile G dt)[finProdFinEquiv (i, j)] = dt[j] := by
    intro i j
    simp only [tile, Fin.getElem_fin, Vector.getElem_ofFn]
    congr 1
    simp only [Fin.lo, finProdFinEquiv_apply_val]
    rw [Nat.add_mul_mod_self_left, Nat.mod_eq_of_lt j.2]
  simp only [this, Finset.sum_const, Finset.card_univ, Fintype.card_fin, nsmul_eq_mul]


/-! ### f. the propagator at an arbitrary time -/

/-- `U_curr = V diag(e^{-i (x - t_idx) λ}) V†` — unfolding of the generated contraction of
`propagator_at_arb_t` for one query time; no assumption on the data. -/
theorem arbUcurr_entries {d : Nat} (ev : Vec ℝ d) (V : Mat ℂ d d) (tIdx x : ℝ) :
    (arbUcurr ev V tIdx x).toMatrix = segProp (fun j => ev[j]) V.toMatrix (x - tIdx) := by
  ext i k
  rw [segProp, Matrix.mul_apply]
  simp only [arbUcurr, Gen.pulse_sequence_PulseSequence_propagator_at_arb_t_0, arbPhases,
    Mat.toMatrix_apply, Fin.getElem_fin, Vector.getElem_ofFn, Vector.getElem_map, Mat.ofFn_getElem,
    fsum_eq_sum, copsExpI, copsConj, Matrix.mul_diagonal, Matrix.conjTranspose_apply,
    RCLike.star_def, Vector.getElem_mk, List.getElem_toArray, List.getElem_cons_zero]
  refine Finset.sum_congr rfl fun j _ => ?_
  congr 3
  push_cast
  ring

section arb
variable {nG d : Nat} (eigvals : Mat ℝ nG d) (eigvecs : Vector (Mat ℂ d d) nG) (dt : Vec ℝ nG)

/-- segment selection: for non-negative durations and `t[g] < x ≤ t[g+1]` the code selects
segment `g` (zero-length segments, i.e. repeated edge times, allowed). -/
theorem arbIdx_eq (hdt : ∀ (g : Nat) (hg : g < nG), 0 ≤ dt[g]) (g : Nat) (hg : g < nG) (x : ℝ)
    (hlo : (times dt)[g] < x) (hhi : x ≤ (times dt)[g + 1]) : arbIdx dt x = g := by
  unfold arbIdx
  rw [searchsortedLeft_eq (times dt) x (g + 1) (by omega)]
  · rfl
  · intro i hi hic
    exact lt_of_le_of_lt (times_mono dt hdt i g (by omega) (by omega)) hlo
  · intro i hi hic
    exact le_trans hhi (times_mono dt hdt (g + 1) i hic (by omega))

/-- segment selection at (and before) the start: for `x ≤ 0` the `-1` is reset to `0`. -/
theorem arbIdx_eq_zero (hdt : ∀ (g : Nat) (hg : g < nG), 0 ≤ dt[g]) (x : ℝ) (hx : x ≤ 0) :
    arbIdx dt x = 0 := by
  unfold arbIdx
  rw [searchsortedLeft_eq (times dt) x 0 (by omega)]
  · intro i hi hic; omega
  · intro i hi _
    exact le_trans hx (times_mem_Icc dt hdt i (by omega)).1

/-- **`propagator_at_arb_t`, interior and right edge of a segment**: for non-negative durations and
`t[g] < x ≤ t[g+1]` the result is `P_g(x - t_g) Q_g` with `P_g(s) = V_g diag(e^{-i s λ_g}) V_g†`
(`= exp(-i (x - t_g) H_g) Q_g` under the `eigh` contract, `piecewise_is_exp`). -/
theorem propagatorAtArbT_spec (hdt : ∀ (g : Nat) (hg : g < nG), 0 ≤ dt[g]) (g : Nat) (hg : g < nG)
    (x : ℝ) (hlo : (times dt)[g] < x) (hhi : x ≤ (times dt)[g + 1]) :
    ∃ U, propagatorAtArbT eigvals eigvecs dt x = some U ∧
      U.toMatrix = segProp (fun j => eigvals[g][j]) eigvecs[g].toMatrix (x - (times dt)[g])
        * (propagators eigvals eigvecs dt)[g].toMatrix := by
  have hidx := arbIdx_eq dt hdt g hg x hlo hhi
  unfold propagatorAtArbT
  simp only [hidx, hg, dite_true]
  exact ⟨_, rfl, by rw [Mat.toMatrix_mul, arbUcurr_entries]⟩

/-- **`propagator_at_arb_t` at `x ≤ 0`** (in particular `x = 0`): segment `0` is used with elapsed
time `x`, i.e. the result is `P_0(x)`; at `x = 0` this is the identity when `V_0` is unitary. -/
theorem propagatorAtArbT_spec_zero (hdt : ∀ (g : Nat) (hg : g < nG), 0 ≤ dt[g]) (hn : 0 < nG)
    (x : ℝ) (hx : x ≤ 0) :
    ∃ U, propagatorAtArbT eigvals eigvecs dt x = some U ∧
      U.toMatrix = segProp (fun j => eigvals[0][j]) eigvecs[0].toMatrix x := by
  have hidx := arbIdx_eq_zero dt hdt x hx
  unfold propagatorAtArbT
  simp only [hidx, hn, dite_true]
  refine ⟨_, rfl, ?_⟩
  rw [Mat.toMatrix_mul, arbUcurr_entries, propagators_zero, Matrix.mul_one, times_zero, sub_zero]

theorem propagatorAtArbT_at_zero (hdt : ∀ (g : Nat) (hg : g < nG), 0 ≤ dt[g]) (hn : 0 < nG)
    (hV : eigvecs[0].toMatrix * (eigvecs[0].toMatrix)ᴴ = 1) :
    ∃ U, propagatorAtArbT eigvals eigvecs dt 0 = some U ∧ U.toMatrix = 1 := by
  obtain ⟨U, h1, h2⟩ := propagatorAtArbT_spec_zero eigvals eigvecs dt hdt hn 0 (le_refl _)
  exact ⟨U, h1, by rw [h2, segProp_zero _ _ hV]⟩

/-- **continuity at a segment edge, from the left**: at the right edge `x = t[g+1]` of a segment
of positive length the result is the cumulative propagator `Q_{g+1}`. -/
theorem propagatorAtArbT_edge (hdt : ∀ (g : Nat) (hg : g < nG), 0 ≤ dt[g]) (g : Nat) (hg : g < nG)
    (hpos : 0 < dt[g]) :
    ∃ U, propagatorAtArbT eigvals eigvecs dt (times dt)[g + 1] = some U ∧
      U.toMatrix = (propagators eigvals eigvecs dt)[g + 1].toMatrix := by
  have hs := times_succ dt g hg
  obtain ⟨U, h1, h2⟩ := propagatorAtArbT_spec eigvals eigvecs dt hdt g hg (times dt)[g + 1]
    (by linarith) (le_refl _)
  refine ⟨U, h1, ?_⟩
  rw [h2, propagators_succ eigvals eigvecs dt g hg]
  congr 2
  linarith

/-- **continuity at a segment edge, from the right**: the expression the code uses inside segment
`g` (`t[g] < x ≤ t[g+1]`), evaluated at the left edge `x = t[g]` (zero elapsed time), is `Q_g` —
the value the code returns *at* that edge coming from the previous segment
(`propagatorAtArbT_edge`).  Needs `V_g` unitary. -/
theorem segment_start_value (g : Nat) (hg : g < nG)
    (hV : eigvecs[g].toMatrix * (eigvecs[g].toMatrix)ᴴ = 1) :
    segProp (fun j => eigvals[g][j]) eigvecs[g].toMatrix ((times dt)[g] - (times dt)[g])
        * (propagators eigvals eigvecs dt)[g].toMatrix
      = (propagators eigvals eigvecs dt)[g].toMatrix := by
  rw [sub_self, segProp_zero _ _ hV, Matrix.one_mul]

/-- beyond the last edge (`x > tau`) the Python raises `IndexError` (`self.eigvecs[idx]` with
`idx = n_dt`); the model returns `none`. -/
theorem propagatorAtArbT_beyond (hdt : ∀ (g : Nat) (hg : g < nG), 0 ≤ dt[g]) (x : ℝ)
    (hx : tau dt < x) : propagatorAtArbT eigvals eigvecs dt x = none := by
  have hidx : arbIdx dt x = nG := by
    unfold arbIdx
    rw [searchsortedLeft_eq (times dt) x (nG + 1) (Nat.le_refl _)]
    · rfl
    · intro i hi _
      exact lt_of_le_of_lt (times_mem_Icc dt hdt i (by omega)).2 hx
    · intro i hi hic; omega
  unfold propagatorAtArbT
  simp only [hidx, Nat.lt_irrefl, dite_false]

/-- for every `x ≤ tau` the call succeeds (no `IndexError`) when there is at least one segment
(any durations). -/
theorem propagatorAtArbT_isSome (hn : 0 < nG) (x : ℝ)
    (hx : x ≤ tau dt) : (propagatorAtArbT eigvals eigvecs dt x).isSome = true := by
  have hle : searchsortedLeft (times dt) x ≤ nG := by
    by_contra hcon
    have hcnt : ∀ (k : Nat) (hk : k ≤ nG + 1), countLt (times dt) x k hk ≤ k := by
      intro k
      induction k with
      | zero => intro _; simp [countLt]
      | succ k ih => intro hk; rw [countLt]; have := ih (Nat.le_of_succ_le hk); split <;> omega
    have h1 : countLt (times dt) x (nG + 1) (Nat.le_refl _) = nG + 1 := by
      have := hcnt (nG + 1) (Nat.le_refl _)
      unfold searchsortedLeft at hcon
      omega
    rw [countLt] at h1
    have h2 := hcnt nG (Nat.le_succ _)
    have h3 : RealOps.lt (times dt)[nG] x = true := by
      by_contra h
      simp only [h] at h1
      simp at h1
      omega
    rw [ropsLt, decide_eq_true_eq] at h3
    exact absurd hx (not_le.mpr h3)
  have hidx : arbIdx dt x < nG := by unfold arbIdx; omega
  unfold propagatorAtArbT
  simp only [hidx, dite_true, Option.isSome_some]

/-- under the `eigh` contract for segment `g`, the result for `t[g] < x ≤ t[g+1]` is
`exp(-i (x - t_g) H_g) Q_g` (the statement of the property). -/
theorem propagatorAtArbT_is_exp (hdt : ∀ (g : Nat) (hg : g < nG), 0 ≤ dt[g]) (g : Nat) (hg : g < nG)
    (H : Matrix (Fin d) (Fin d) ℂ) (hE : IsEigh H (fun j => eigvals[g][j]) eigvecs[g].toMatrix)
    (x : ℝ) (hlo : (times dt)[g] < x) (hhi : x ≤ (times dt)[g + 1]) :
    ∃ U, propagatorAtArbT eigvals eigvecs dt x = some U ∧
      U.toMatrix = NormedSpace.exp ((-(I * ((x - (times dt)[g] : ℝ) : ℂ))) • H)
        * (propagators eigvals eigvecs dt)[g].toMatrix := by
  obtain ⟨U, h1, h2⟩ := propagatorAtArbT_spec eigvals eigvecs dt hdt g hg x hlo hhi
  exact ⟨U, h1, by rw [h2, piecewise_is_exp hE]⟩

/-- **the returned propagator solves the Schrödinger equation** `dU/dx = -i H_g U(x)` at every
time strictly inside segment `g` (entrywise derivative in the query time `x`), under the `eigh`
contract for that segment and non-negative durations.  (`getD Mat.one` only unwraps the `Option`;
the value is `some _` there by `propagatorAtArbT_spec`.) -/
theorem propagatorAtArbT_hasDerivAt (hdt : ∀ (g : Nat) (hg : g < nG), 0 ≤ dt[g]) (g : Nat)
    (hg : g < nG) (H : Matrix (Fin d) (Fin d) ℂ)
    (hE : IsEigh H (fun j => eigvals[g][j]) eigvecs[g].toMatrix)
    (x : ℝ) (hlo : (times dt)[g] < x) (hhi : x < (times dt)[g + 1]) (i k : Fin d) :
    HasDerivAt
      (fun y => ((propagatorAtArbT eigvals eigvecs dt y).getD Mat.one).toMatrix i k)
      (((-I) • (H * ((propagatorAtArbT eigvals eigvecs dt x).getD Mat.one).toMatrix)) i k) x := by
  obtain ⟨U, h1, h2⟩ := propagatorAtArbT_spec eigvals eigvecs dt hdt g hg x hlo (le_of_lt hhi)
  rw [h1, Option.getD_some, h2, ← Matrix.mul_assoc, ← Matrix.smul_mul, Matrix.mul_apply]
  have hev : (fun y => ((propagatorAtArbT eigvals eigvecs dt y).getD Mat.one).toMatrix i k)
      =ᶠ[nhds x] fun y => ∑ m, segProp (fun j => eigvals[g][j]) eigvecs[g].toMatrix
          (y - (times dt)[g]) i m * (propagators eigvals eigvecs dt)[g].toMatrix m k := by
    filter_upwards [Ioo_mem_nhds hlo hhi] with y hy
    obtain ⟨U', h1', h2'⟩ := propagatorAtArbT_spec eigvals eigvecs dt hdt g hg y hy.1 (le_of_lt hy.2)
    rw [h1', Option.getD_some, h2', Matrix.mul_apply]
  refine HasDerivAt.congr_of_eventuallyEq ?_ hev
  refine HasDerivAt.fun_sum fun m _ => ?_
  exact ((segProp_hasDerivAt hE (x - (times dt)[g]) i m).comp_sub_const x (times dt)[g]).mul_const _

/-- **continuity at a segment edge, from the right, as a limit**: for a segment `g` of positive
length with unitary `V_g`, every entry of the returned propagator tends to the entry of `Q_g` as
`x ↓ t[g]` (`Q_g` is also the value returned at `x = t[g]` when the previous segment has positive
length, `propagatorAtArbT_edge`, and the identity `= Q_0` at `x = 0`, `propagatorAtArbT_at_zero`). -/
theorem propagatorAtArbT_tendsto_right (hdt : ∀ (g : Nat) (hg : g < nG), 0 ≤ dt[g]) (g : Nat)
    (hg : g < nG) (hpos : 0 < dt[g])
    (hV : eigvecs[g].toMatrix * (eigvecs[g].toMatrix)ᴴ = 1) (i k : Fin d) :
    Filter.Tendsto
      (fun x => ((propagatorAtArbT eigvals eigvecs dt x).getD Mat.one).toMatrix i k)
      (nhdsWithin (times dt)[g] (Set.Ioi (times dt)[g]))
      (nhds ((propagators eigvals eigvecs dt)[g].toMatrix i k)) := by
  have hs := times_succ dt g hg
  let F : ℝ → ℂ := fun x =>
    (segProp (fun j => eigvals[g][j]) eigvecs[g].toMatrix (x - (times dt)[g])
      * (propagators eigvals eigvecs dt)[g].toMatrix) i k
  have hcont : Continuous F := by
    simp only [F, Matrix.mul_apply, segProp_apply]
    fun_prop
  have hF0 : F (times dt)[g] = (propagators eigvals eigvecs dt)[g].toMatrix i k := by
    simp only [F]
    rw [segment_start_value eigvals eigvecs dt g hg hV]
  have hev : ∀ᶠ x in nhdsWithin (times dt)[g] (Set.Ioi (times dt)[g]),
      F x = ((propagatorAtArbT eigvals eigvecs dt x).getD Mat.one).toMatrix i k := by
    have hmem : Set.Ioc (times dt)[g] (times dt)[g + 1]
        ∈ nhdsWithin (times dt)[g] (Set.Ioi (times dt)[g]) :=
      Ioc_mem_nhdsGT (by linarith)
    filter_upwards [hmem] with x hx
    obtain ⟨U, h1, h2⟩ := propagatorAtArbT_spec eigvals eigvecs dt hdt g hg x hx.1 hx.2
    rw [h1, Option.getD_some, h2]
  have ht : Filter.Tendsto F (nhdsWithin (times dt)[g] (Set.Ioi (times dt)[g]))
      (nhds (F (times dt)[g])) :=
    tendsto_nhdsWithin_of_tendsto_nhds hcont.continuousAt.tendsto
  rw [hF0] at ht
  exact ht.congr' hev

end arb

/-! ### source pin and satisfiability of the hypotheses -/

/-- the `eigh` contract is satisfiable by a non-diagonal instance: `σ_x = W diag(1, -1) W†` with
`W = (1/√2) [[1, 1], [1, -1]]`. -/
example : IsEigh (!![0, 1; 1, 0] : Matrix (Fin 2) (Fin 2) ℂ) ![1, -1]
    (((1 / Real.sqrt 2 : ℝ) : ℂ) • !![1, 1; 1, -1]) := by
  have h2 : ((1 / Real.sqrt 2 : ℝ) : ℂ) * ((1 / Real.sqrt 2 : ℝ) : ℂ) = 1 / 2 := by
    rw [← Complex.ofReal_mul, div_mul_div_comm, one_mul, Real.mul_self_sqrt (by norm_num)]
    norm_num
  have hW : (!![1, 1; 1, -1] : Matrix (Fin 2) (Fin 2) ℂ) * !![1, 1; 1, -1] = (2 : ℂ) • 1 := by
    ext i j; fin_cases i <;> fin_cases j <;> simp [Matrix.mul_apply, Fin.sum_univ_two] <;> norm_num
  have hWH : (!![1, 1; 1, -1] : Matrix (Fin 2) (Fin 2) ℂ)ᴴ = !![1, 1; 1, -1] := by
    ext i j; fin_cases i <;> fin_cases j <;> simp [Matrix.conjTranspose_apply]
  have hc : (starRingEnd ℂ) ((1 / Real.sqrt 2 : ℝ) : ℂ) = ((1 / Real.sqrt 2 : ℝ) : ℂ) :=
    Complex.conj_ofReal _
  refine ⟨?_, ?_, ?_⟩
  · rw [Matrix.mul_smul, Matrix.smul_mul]
    congr 1
    ext i j; fin_cases i <;> fin_cases j <;>
      simp [Matrix.mul_apply, Fin.sum_univ_two, Matrix.diagonal_apply]
  · rw [Matrix.conjTranspose_smul, hWH, Matrix.smul_mul, Matrix.mul_smul, hW, smul_smul, smul_smul,
      RCLike.star_def, hc, h2]
    norm_num
  · rw [Matrix.conjTranspose_smul, hWH, Matrix.smul_mul, Matrix.mul_smul, hW, smul_smul, smul_smul,
      RCLike.star_def, hc, h2]
    norm_num

/-- the hypotheses on the data (`V_g` unitary, `dt ≥ 0` with a zero-length segment) are satisfiable -/
example : (∀ (g : Nat) (hg : g < 3), (0 : ℝ) ≤ (#v[1, 0, 2] : Vec ℝ 3)[g]) ∧
    (∀ (g : Nat) (hg : g < 3),
      ((Vector.replicate 3 (Mat.one : Mat ℂ 2 2))[g].toMatrix)ᴴ
        * (Vector.replicate 3 (Mat.one : Mat ℂ 2 2))[g].toMatrix = 1) := by
  constructor
  · intro g hg
    interval_cases g <;> simp
  · intro g hg
    simp [Mat.toMatrix_one]

end FFVerif.C02
