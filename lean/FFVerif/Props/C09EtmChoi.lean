/-
C09 (continued) — the Choi matrix of the error transfer matrix `exp(K)` is positive semidefinite,
hence `superoperator.liouville_is_CP` accepts it under the `eigh` contract.

`Props/C09EtmCP.lean` shows `P (exp K)` for every predicate `P` with the closure properties
`Spec.CPCone`; here the cone is instantiated with the package's own criterion
`Spec.IsCPChoi C S ↔ liouville_to_choi(S) ⪰ 0` (`Spec.cpCone_isCPChoi`: Kraus form ⇔ Choi ⪰ 0,
closure under sums, products and limits; complete orthonormal Hermitian basis), which makes the
statements unconditional.  `expm` and `eigh` are oracles: `U = exp K` and `IsEigvals` are the
contracts assumed of them.

* `choi_cone` — `CPCone (IsCPChoi C)` and `IsCPChoi C (L(A))` for all `A`.
* `etm_choi_posSemidef` — `liouville_to_choi(exp K) ⪰ 0` for `K = cumulantGeneral Γ Δ`, `Γ` real
  positive semidefinite, `Δ` real or absent.
* `etm_sum_choi_posSemidef` — the same for `exp(Σ_a K_a)` with `Σ_a Γ_a ⪰ 0`.
* `etm_real_sum_choi_posSemidef` — for the real matrix the Python exponentiates (`.real`).
* `etm_CP_verdict` — `liouville_is_CP(U, basis)` is `True` for `U = exp(Σ_a K_a)`.
* `exp_lindblad_choi_posSemidef` — `exp` of a Lindblad generator has a positive-semidefinite Choi
  matrix.
Property theorems only (helper lemmas: FFVerif/Lemmas/ChoiConeAux.lean).
-/
import FFVerif.Props.C09EtmCP
import FFVerif.Lemmas.ChoiConeAux

namespace FFVerif.C09
open FFVerif Matrix NormedSpace
open scoped ComplexOrder

variable {N d : Nat}

/-- **The package's CP criterion defines a CP cone**: for a complete orthonormal Hermitian basis,
"`liouville_to_choi(S)` is positive semidefinite" contains the identity and the maps `ρ ↦ AρA†`
and is closed under sums, non-negative multiples, products (composition) and limits. -/
theorem choi_cone (C : Fin N → Matrix (Fin d) (Fin d) ℂ) (hC : Spec.IsComplete C)
    (hH : Spec.IsOrthoHerm C) :
    Spec.CPCone (Spec.IsCPChoi C) ∧ ∀ A : Matrix (Fin d) (Fin d) ℂ, Spec.IsCPChoi C (Spec.liou C A) :=
  ⟨Spec.cpCone_isCPChoi hC hH, Spec.isCPChoi_liou hC⟩

/-- **Kraus ⇔ Choi**: `liouville_to_choi(S) ⪰ 0` iff `S` is a finite sum of Liouville matrices of
maps `ρ ↦ A_m ρ A_m†` (complete orthonormal Hermitian basis). -/
theorem choi_posSemidef_iff_kraus (C : Fin N → Matrix (Fin d) (Fin d) ℂ) (hC : Spec.IsComplete C)
    (hH : Spec.IsOrthoHerm C) (S : Matrix (Fin N) (Fin N) ℂ) :
    Spec.IsCPChoi C S ↔
      ∃ A : Fin (d * d) → Matrix (Fin d) (Fin d) ℂ, S = ∑ m, Spec.liou C (A m) := by
  constructor
  · exact Spec.exists_kraus hC hH.ortho S
  · rintro ⟨A, rfl⟩
    exact Spec.isCPChoi_sum_liou hC _ A

/-- **The error transfer matrix is completely positive (Choi form).**  For every complete
orthonormal Hermitian basis `C` (any `d`), real positive-semidefinite decay amplitudes `Γ` and real
frequency shifts `Δ` (`none`: first order only), the matrix `liouville_to_choi` computes from
`exp(K)`, `K = cumulantGeneral Γ Δ (fourElementTraces C)`, is positive semidefinite. -/
theorem etm_choi_posSemidef (C : Vector (Mat ℂ d d) N) (hC : Spec.IsComplete (Spec.basisOf C))
    (hH : Spec.IsOrthoHerm (Spec.basisOf C)) (Γ : Mat ℂ N N) (hΓ : Γ.toMatrix.PosSemidef)
    (hΓr : ∀ k l : Fin N, starRingEnd ℂ Γ[k][l] = Γ[k][l]) (Δ : Option (Mat ℂ N N))
    (hΔr : ∀ D, Δ = some D → ∀ k l : Fin N, starRingEnd ℂ D[k][l] = D[k][l]) :
    (Spec.choiLiou (Spec.basisOf C)
      (exp (Model.cumulantGeneral Γ Δ (Model.fourElementTraces C)).toMatrix)).PosSemidef :=
  etm_completely_positive (Spec.cpCone_isCPChoi hC hH) C hH (Spec.isCPChoi_liou hC) Γ hΓ hΓr Δ hΔr

/-- **… for the sum over noise sources** (`expm(K.sum(axis=leading axes))`), `Σ_a Γ_a ⪰ 0`. -/
theorem etm_sum_choi_posSemidef {ι : Type} (s : Finset ι) (C : Vector (Mat ℂ d d) N)
    (hC : Spec.IsComplete (Spec.basisOf C)) (hH : Spec.IsOrthoHerm (Spec.basisOf C))
    (Γ : ι → Mat ℂ N N) (hΓ : (∑ a ∈ s, (Γ a).toMatrix).PosSemidef)
    (hΓr : ∀ a ∈ s, ∀ k l : Fin N, starRingEnd ℂ (Γ a)[k][l] = (Γ a)[k][l])
    (Δ : ι → Option (Mat ℂ N N))
    (hΔr : ∀ a ∈ s, ∀ D, Δ a = some D → ∀ k l : Fin N, starRingEnd ℂ D[k][l] = D[k][l]) :
    (Spec.choiLiou (Spec.basisOf C) (exp (∑ a ∈ s,
      (Model.cumulantGeneral (Γ a) (Δ a) (Model.fourElementTraces C)).toMatrix))).PosSemidef :=
  etm_sum_completely_positive s (Spec.cpCone_isCPChoi hC hH) C hH (Spec.isCPChoi_liou hC) Γ hΓ hΓr
    Δ hΔr

set_option backward.isDefEq.respectTransparency false in
/-- the matrix exponential commutes with the embedding of real into complex matrices -/
theorem exp_map_ofReal (Kr : Matrix (Fin N) (Fin N) ℝ) :
    (exp Kr).map Complex.ofReal = exp (Kr.map Complex.ofReal) := by
  open scoped Matrix.Norms.Operator in
  exact map_exp (Complex.ofRealHom.mapMatrix (m := Fin N))
    (Continuous.matrix_map continuous_id Complex.continuous_ofReal) Kr

/-- **The same for the real matrix the Python actually exponentiates**
(`calculate_cumulant_function` ends with `.real`; `error_transfer_matrix` applies `expm` to the real
matrix with entries `Re Σ_a (K_a)_ij`, and `liouville_is_CP` promotes the real result to complex). -/
theorem etm_real_sum_choi_posSemidef {ι : Type} (s : Finset ι) (C : Vector (Mat ℂ d d) N)
    (hC : Spec.IsComplete (Spec.basisOf C)) (hH : Spec.IsOrthoHerm (Spec.basisOf C))
    (Γ : ι → Mat ℂ N N) (hΓ : (∑ a ∈ s, (Γ a).toMatrix).PosSemidef)
    (hΓr : ∀ a ∈ s, ∀ k l : Fin N, starRingEnd ℂ (Γ a)[k][l] = (Γ a)[k][l])
    (Δ : ι → Option (Mat ℂ N N))
    (hΔr : ∀ a ∈ s, ∀ D, Δ a = some D → ∀ k l : Fin N, starRingEnd ℂ D[k][l] = D[k][l]) :
    (Spec.choiLiou (Spec.basisOf C) ((exp (∑ a ∈ s, Matrix.of fun i j : Fin N =>
      ((Model.cumulantGeneral (Γ a) (Δ a) (Model.fourElementTraces C))[i][j]).re)).map
        Complex.ofReal)).PosSemidef := by
  have hreal : ∀ a ∈ s, ∀ i j : Fin N,
      (((Model.cumulantGeneral (Γ a) (Δ a) (Model.fourElementTraces C))[i][j]).re : ℂ)
        = (Model.cumulantGeneral (Γ a) (Δ a) (Model.fourElementTraces C))[i][j] := by
    intro a ha i j
    apply Complex.conj_eq_iff_re.mp
    cases h : Δ a with
    | none => exact (cumulant_real C hH.herm (Γ a) (Γ a) (hΓr a ha) (hΓr a ha) i j).1
    | some D => exact (cumulant_real C hH.herm (Γ a) D (hΓr a ha) (hΔr a ha D h) i j).2
  have hK : (∑ a ∈ s, Matrix.of fun i j : Fin N =>
      ((Model.cumulantGeneral (Γ a) (Δ a) (Model.fourElementTraces C))[i][j]).re).map Complex.ofReal
      = ∑ a ∈ s, (Model.cumulantGeneral (Γ a) (Δ a) (Model.fourElementTraces C)).toMatrix := by
    ext i j
    rw [Matrix.map_apply, Matrix.sum_apply, Matrix.sum_apply, Complex.ofReal_sum]
    exact Finset.sum_congr rfl fun a ha => by
      rw [Matrix.of_apply, hreal a ha i j, Mat.toMatrix_apply]
  rw [exp_map_ofReal, hK]
  exact etm_sum_choi_posSemidef s C hC hH Γ hΓ hΓr Δ hΔr

/-- **`liouville_is_CP` accepts the error transfer matrix.**  Let `U` be the array returned by
`error_transfer_matrix` — under the contract of `expm`, `U = exp(Σ_a K_a)` (as a complex array) —
and `D` eigenvalues of `liouville_to_choi(U, basis)` as returned by `eigh`.  Then
`(D >= -atol).all()` is `True` for the default tolerance and every explicit `atol ≥ 0`. -/
theorem etm_CP_verdict {ι : Type} (s : Finset ι) (C : Vector (Mat ℂ d d) N)
    (hC : Spec.IsComplete (Spec.basisOf C)) (hH : Spec.IsOrthoHerm (Spec.basisOf C))
    (Γ : ι → Mat ℂ N N) (hΓ : (∑ a ∈ s, (Γ a).toMatrix).PosSemidef)
    (hΓr : ∀ a ∈ s, ∀ k l : Fin N, starRingEnd ℂ (Γ a)[k][l] = (Γ a)[k][l])
    (Δ : ι → Option (Mat ℂ N N))
    (hΔr : ∀ a ∈ s, ∀ D, Δ a = some D → ∀ k l : Fin N, starRingEnd ℂ D[k][l] = D[k][l])
    (U : Mat ℂ N N)
    (hU : U.toMatrix = exp (∑ a ∈ s,
      (Model.cumulantGeneral (Γ a) (Δ a) (Model.fourElementTraces C)).toMatrix))
    (D : Vec ℝ (d * d)) (hD : IsEigvals (Model.liouvilleToChoi U C).toMatrix D)
    (basisAtol : ℝ) (hb : 0 ≤ basisAtol) (atol : Option ℝ) (ha : ∀ a, atol = some a → 0 ≤ a) :
    Model.cpTestAfterEigh basisAtol atol D = true := by
  refine verdict_of_posSemidef _ ?_ D hD basisAtol hb atol ha
  rw [Spec.liouvilleToChoi_toMatrix, hU]
  exact etm_sum_choi_posSemidef s C hC hH Γ hΓ hΓr Δ hΔr

/-- **`exp` of a Lindblad generator has a positive-semidefinite Choi matrix** (Hermitian `H`,
arbitrary jump operators, rates `γ_m ≥ 0`, complete orthonormal Hermitian basis). -/
theorem exp_lindblad_choi_posSemidef {M : Nat} (C : Fin N → Matrix (Fin d) (Fin d) ℂ)
    (hC : Spec.IsComplete C) (hH : Spec.IsOrthoHerm C) (H : Matrix (Fin d) (Fin d) ℂ)
    (hHerm : Hᴴ = H) (A : Fin M → Matrix (Fin d) (Fin d) ℂ) (γ : Fin M → ℝ) (hγ : ∀ m, 0 ≤ γ m)
    (K : Matrix (Fin N) (Fin N) ℂ) (hK : ∀ i j, K i j = trace (C i * lindblad H A γ (C j))) :
    (Spec.choiLiou C (exp K)).PosSemidef :=
  exp_lindblad_cp (Spec.cpCone_isCPChoi hC hH) C hH.ortho (Spec.isCPChoi_liou hC) H hHerm A γ hγ K
    hK

/-- the hypotheses of `etm_choi_posSemidef` are satisfiable: Pauli basis, `Γ = 1`, `Δ = 1` -/
example : ∃ (C : Vector (Mat ℂ 2 2) 4) (Γ : Mat ℂ 4 4) (Δ : Option (Mat ℂ 4 4)),
    Spec.IsComplete (Spec.basisOf C) ∧ Spec.IsOrthoHerm (Spec.basisOf C) ∧
    Γ.toMatrix.PosSemidef ∧ (∀ k l : Fin 4, starRingEnd ℂ Γ[k][l] = Γ[k][l]) ∧
    (∀ D, Δ = some D → ∀ k l : Fin 4, starRingEnd ℂ D[k][l] = D[k][l]) := by
  have h1 : ∀ k l : Fin 4,
      starRingEnd ℂ (Mat.one : Mat ℂ 4 4)[k][l] = (Mat.one : Mat ℂ 4 4)[k][l] := by
    intro k l
    simp only [Mat.one, Mat.ofFn_get]
    split_ifs <;> simp
  refine ⟨pauliVec, Mat.one, some Mat.one, pauliVec_basisOf ▸ Spec.pauliBasis_complete,
    pauliVec_basisOf ▸ Spec.pauliBasis_orthoHerm, ?_, h1, ?_⟩
  · rw [Mat.toMatrix_one]; exact PosSemidef.one
  · intro D hD
    cases hD
    exact h1

end FFVerif.C09
