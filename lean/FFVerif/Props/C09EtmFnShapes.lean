/-
C09 (continued) — `numeric.error_transfer_matrix` for the two remaining spectrum shapes (one
spectrum for all noise operators; Hermitian cross-spectral matrix), and the exact list of rejections
of `calculate_cumulant_function`.  Continues `FFVerif/Props/C09EtmFn.lean`.
Property theorems only (helper lemmas: FFVerif/Lemmas/EtmFnShapesAux.lean).
-/
import FFVerif.Lemmas.EtmFnShapesAux
import FFVerif.Props.C09EtmFn
import FFVerif.Props.C08Integrand

namespace FFVerif.C09
open FFVerif FFVerif.Model FFVerif.Model.EtmFn Matrix NormedSpace
open scoped ComplexOrder

variable {N d nA nO m : Nat}

/-! ### What is exponentiated -/

/-- **What `error_transfer_matrix` exponentiates (a single spectrum of shape `(n_omega,)`).**  The
same spectrum `s` is used for every selected noise operator (`parse_spectrum` leaves it 1-d and the
products broadcast it): the call never raises and hands to `expm` the real matrix
`Σ_a Re K(Γ_a, Δ_a)` with `Γ` the decay amplitudes for the replicated spectrum and `Δ` (iff
`second_order`) `calculate_frequency_shifts` for the 1-d spectrum. -/
theorem etmFn_arg_is_sum_of_cumulants_single (p : PulseData ℂ nA N d nO) (s : Vec ℂ nO)
    (ω : Vec ℝ nO) (idx : Vec (Fin nA) m) (second pars sp ci : Bool) :
    etmFn (some p) (some (.one s : Spectrum ℂ m nO)) (some ω) idx second none sp pars ci
      = .ok ⟨N, N, Mat.ofFn fun i j => ∑ a : Fin m,
          ((cumulantLeaf (shortcutTaken N d p.btype p.close) (fourElementTraces p.basis)
            (gammaC (decayAmplitudesSel2 p.ffGenCached pars ω p.B p.Fgen idx
              (replicateSpectrum s : Mat ℂ m nO)) a)
            (deltaC second (frequencyShifts1 ω p.F2 idx s) a))[i][j]).re⟩ := by
  cases second
  · simp only [etmFn, cumulantFromPulse, cumulantFunction, gammaTotal, deltaTotal, Arr.complexify,
      complexify, Bool.not_true, Bool.false_and, Bool.and_false, Bool.false_eq_true, if_false,
      Option.isNone_none, Bool.and_true, expmArgOf, if_true, sumLeading]
    refine congrArg (fun M => Except.ok (Mat2.mk N N M)) ?_
    congr 1; funext i j
    refine (Stack.sum_map_map_one _ _ _ _ _).trans (Finset.sum_congr rfl fun a _ => ?_)
    exact re2_get _ _ _
  · simp only [etmFn, cumulantFromPulse, cumulantFunction, gammaTotal, deltaTotal, Arr.complexify,
      complexify, Bool.not_true, Bool.false_and, Bool.and_false, Bool.false_eq_true,
      Option.isNone_none, Bool.and_true, expmArgOf, beq_iff_eq, reduceCtorEq,
      ↓reduceDIte, ↓reduceIte, sumLeading]
    refine congrArg (fun M => Except.ok (Mat2.mk N N M)) ?_
    congr 1; funext i j
    refine (Stack.sum_zipWith_map_map_one _ _ _ _ _ _ _).trans (Finset.sum_congr rfl fun a _ => ?_)
    exact re2_get _ _ _

/-- **What `error_transfer_matrix` exponentiates (cross-spectral matrix of shape
`(m, m, n_omega)`).**  The cumulant function has one `N × N` block per PAIR `(a, b)` of selected
noise sources; `cumulant_function.sum(axis=(0, 1))` sums over BOTH noise axes: the call never raises
and hands to `expm` the real matrix `Σ_a Σ_b Re K(Γ_ab, Δ_ab)`. -/
theorem etmFn_arg_is_sum_of_cumulants_cross (p : PulseData ℂ nA N d nO) (S : Ten3 ℂ m m nO)
    (ω : Vec ℝ nO) (idx : Vec (Fin nA) m) (second pars sp ci : Bool) :
    etmFn (some p) (some (.cross S)) (some ω) idx second none sp pars ci
      = .ok ⟨N, N, Mat.ofFn fun i j => ∑ a : Fin m, ∑ b : Fin m,
          ((cumulantLeaf (shortcutTaken N d p.btype p.close) (fourElementTraces p.basis)
            (gammaC (decayAmplitudesSel3 p.ffGenCached pars ω p.B p.Fgen idx S)[a] b)
            (deltaC second (frequencyShifts3 ω p.F2 idx S)[a] b))[i][j]).re⟩ := by
  cases second
  · simp only [etmFn, cumulantFromPulse, cumulantFunction, gammaTotal, deltaTotal, Arr.complexify,
      complexify, Bool.not_true, Bool.false_and, Bool.and_false, Bool.false_eq_true, if_false,
      Option.isNone_none, Bool.and_true, expmArgOf, if_true, sumLeading]
    refine congrArg (fun M => Except.ok (Mat2.mk N N M)) ?_
    congr 1; funext i j
    refine (Stack.sum_map_map_two _ _ _ _ _ _).trans
      (Finset.sum_congr rfl fun a _ => Finset.sum_congr rfl fun b _ => ?_)
    exact re2_get _ _ _
  · simp only [etmFn, cumulantFromPulse, cumulantFunction, gammaTotal, deltaTotal, Arr.complexify,
      complexify, Bool.not_true, Bool.false_and, Bool.and_false, Bool.false_eq_true,
      Option.isNone_none, Bool.and_true, expmArgOf, beq_iff_eq, reduceCtorEq,
      ↓reduceDIte, ↓reduceIte, sumLeading]
    refine congrArg (fun M => Except.ok (Mat2.mk N N M)) ?_
    congr 1; funext i j
    refine (Stack.sum_zipWith_map_map_two _ _ _ _ _ _ _ _).trans
      (Finset.sum_congr rfl fun a _ => Finset.sum_congr rfl fun b _ => ?_)
    exact re2_get _ _ _

/-! ### End to end: the returned matrix is a physical channel -/

/-- **From the Σ-formula to the channel properties** (any finite index type of noise sources or
pairs of noise sources): if the matrix `Ksum` handed to `expm` has the entries
`Σ_x Re K(Γ_x, Δ_x)` — `K` evaluated by whichever branch the selector picks, `np.allclose` to the
Pauli basis idealised as equality (`hclose`) — with real `Γ_x`, `Δ_x`, and the basis is complete,
orthonormal, Hermitian with `C_{i0} = c·1`, then `U = exp Ksum` has the unit vector `e_{i0}` as row
and column `i0`, and a positive-semidefinite Choi matrix whenever `Σ_x Γ_x ⪰ 0`. -/
theorem etm_physical_of_sum {ι : Type} [Fintype ι] (C : Vector (Mat ℂ d d) N) (bt : BType)
    (close : Bool)
    (hclose : close = true → ∀ (hN : N = 4) (hd : d = 2),
      Spec.basisOf (show Vector (Mat ℂ 2 2) 4 from hN ▸ hd ▸ C) = Spec.pauliBasis)
    (hCo : Spec.IsComplete (Spec.basisOf C)) (hH : Spec.IsOrthoHerm (Spec.basisOf C))
    (i0 : Fin N) (c : ℂ) (h0 : Spec.basisOf C i0 = c • (1 : Matrix (Fin d) (Fin d) ℂ))
    (Γ : ι → Mat ℂ N N) (Δ : ι → Option (Mat ℂ N N))
    (hΓr : ∀ x, ∀ k l : Fin N, starRingEnd ℂ (Γ x)[k][l] = (Γ x)[k][l])
    (hΔr : ∀ x, ∀ D, Δ x = some D → ∀ k l : Fin N, starRingEnd ℂ D[k][l] = D[k][l])
    (Ksum : Mat ℝ N N)
    (hK : ∀ i j : Fin N, Ksum[i][j] = ∑ x : ι,
      ((cumulantLeaf (shortcutTaken N d bt close) (fourElementTraces C) (Γ x) (Δ x))[i][j]).re)
    (U : Matrix (Fin N) (Fin N) ℝ) (hU : U = exp Ksum.toMatrix) :
    (∀ j, U i0 j = if j = i0 then 1 else 0) ∧ (∀ j, U j i0 = if j = i0 then 1 else 0) ∧
    ((∑ x : ι, (Γ x).toMatrix).PosSemidef →
      (Spec.choiLiou (Spec.basisOf C) (U.map Complex.ofReal)).PosSemidef) := by
  have hKm : Ksum.toMatrix = ∑ x : ι, Matrix.of fun i j : Fin N =>
      ((cumulantGeneral (Γ x) (Δ x) (fourElementTraces C))[i][j]).re := by
    ext i j
    rw [Mat.toMatrix_apply, hK, Matrix.sum_apply]
    refine Finset.sum_congr rfl fun x _ => ?_
    rw [Matrix.of_apply, (cumulant_branch_selection C bt close hclose _ _).2.2]
  rw [hU, hKm]
  refine ⟨fun j => ?_, fun j => ?_, fun hΓ => ?_⟩
  · exact (etm_real_sum_trace_preserving_unital Finset.univ C i0 c h0 _ _ j).1
  · exact (etm_real_sum_trace_preserving_unital Finset.univ C i0 c h0 _ _ j).2
  · exact etm_real_sum_choi_posSemidef Finset.univ C hCo hH _ hΓ (fun x _ => hΓr x) _
      (fun x _ => hΔr x)

/-- **`error_transfer_matrix` returns a trace-preserving, unital, completely positive map — single
spectrum `(n_omega,)`.**  Hypotheses and conclusion as in `error_transfer_matrix_physical`. -/
theorem error_transfer_matrix_physical_single (p : PulseData ℂ nA N d nO) (s : Vec ℂ nO)
    (ω : Vec ℝ nO) (idx : Vec (Fin nA) m) (second pars sp ci : Bool)
    (hclose : p.close = true → ∀ (hN : N = 4) (hd : d = 2),
      Spec.basisOf (show Vector (Mat ℂ 2 2) 4 from hN ▸ hd ▸ p.basis) = Spec.pauliBasis)
    (hCo : Spec.IsComplete (Spec.basisOf p.basis)) (hH : Spec.IsOrthoHerm (Spec.basisOf p.basis))
    (i0 : Fin N) (c : ℂ) (h0 : Spec.basisOf p.basis i0 = c • (1 : Matrix (Fin d) (Fin d) ℂ))
    (U : Matrix (Fin N) (Fin N) ℝ) :
    ∃ Ksum : Mat ℝ N N,
      etmFn (some p) (some (.one s : Spectrum ℂ m nO)) (some ω) idx second none sp pars ci
        = .ok ⟨N, N, Ksum⟩ ∧
      (U = exp Ksum.toMatrix →
        (∀ j, U i0 j = if j = i0 then 1 else 0) ∧ (∀ j, U j i0 = if j = i0 then 1 else 0) ∧
        ((∑ a : Fin m, (gammaC (decayAmplitudesSel2 p.ffGenCached pars ω p.B p.Fgen idx
            (replicateSpectrum s : Mat ℂ m nO)) a).toMatrix).PosSemidef →
          (Spec.choiLiou (Spec.basisOf p.basis) (U.map Complex.ofReal)).PosSemidef)) := by
  refine ⟨_, etmFn_arg_is_sum_of_cumulants_single p s ω idx second pars sp ci, fun hU => ?_⟩
  exact etm_physical_of_sum p.basis p.btype p.close hclose hCo hH i0 c h0 _ _
    (fun a k l => gammaC_real _ a k l) (fun a D hD k l => deltaC_real second _ a D hD k l) _
    (fun i j => Mat.ofFn_get _ i j) U hU

/-- **… — cross-spectral matrix `(m, m, n_omega)`**: the sum runs over all PAIRS of selected noise
sources; complete positivity needs `Σ_a Σ_b Γ_ab ⪰ 0`. -/
theorem error_transfer_matrix_physical_cross (p : PulseData ℂ nA N d nO) (S : Ten3 ℂ m m nO)
    (ω : Vec ℝ nO) (idx : Vec (Fin nA) m) (second pars sp ci : Bool)
    (hclose : p.close = true → ∀ (hN : N = 4) (hd : d = 2),
      Spec.basisOf (show Vector (Mat ℂ 2 2) 4 from hN ▸ hd ▸ p.basis) = Spec.pauliBasis)
    (hCo : Spec.IsComplete (Spec.basisOf p.basis)) (hH : Spec.IsOrthoHerm (Spec.basisOf p.basis))
    (i0 : Fin N) (c : ℂ) (h0 : Spec.basisOf p.basis i0 = c • (1 : Matrix (Fin d) (Fin d) ℂ))
    (U : Matrix (Fin N) (Fin N) ℝ) :
    ∃ Ksum : Mat ℝ N N,
      etmFn (some p) (some (.cross S)) (some ω) idx second none sp pars ci = .ok ⟨N, N, Ksum⟩ ∧
      (U = exp Ksum.toMatrix →
        (∀ j, U i0 j = if j = i0 then 1 else 0) ∧ (∀ j, U j i0 = if j = i0 then 1 else 0) ∧
        ((∑ a : Fin m, ∑ b : Fin m,
            (gammaC (decayAmplitudesSel3 p.ffGenCached pars ω p.B p.Fgen idx S)[a] b).toMatrix
            ).PosSemidef →
          (Spec.choiLiou (Spec.basisOf p.basis) (U.map Complex.ofReal)).PosSemidef)) := by
  refine ⟨_, etmFn_arg_is_sum_of_cumulants_cross p S ω idx second pars sp ci, fun hU => ?_⟩
  have h := etm_physical_of_sum (ι := Fin m × Fin m) p.basis p.btype p.close hclose hCo hH i0 c h0
    (fun x => gammaC (decayAmplitudesSel3 p.ffGenCached pars ω p.B p.Fgen idx S)[x.1] x.2)
    (fun x => deltaC second (frequencyShifts3 ω p.F2 idx S)[x.1] x.2)
    (fun x k l => gammaC_real _ x.2 k l) (fun x D hD k l => deltaC_real second _ x.2 D hD k l) _
    (fun i j => by rw [Mat.ofFn_get, Fintype.sum_prod_type]) U hU
  refine ⟨h.1, h.2.1, fun hΓ => h.2.2 ?_⟩
  rw [Fintype.sum_prod_type]
  exact hΓ

/-! ### Rejections of `calculate_cumulant_function` -/

/-- **`calculate_cumulant_function` raises iff** (in the order of the source)
1. neither `spectrum` nor `omega` is given and `decay_amplitudes` is missing, or `frequency_shifts`
   is missing while `second_order` — `ValueError('Require either spectrum and frequencies …')`;
2. `which == 'correlations' and second_order` — `ValueError('Cannot compute correlation …')`;
3. `decay_amplitudes` must be computed but exactly one of `spectrum`, `omega` is `None` — an
   exception escapes from `calculate_decay_amplitudes` (`Err.calleeNone`);
4. `second_order`, `frequency_shifts` must be computed but exactly one of `spectrum`, `omega` is
   `None` — the same from `calculate_frequency_shifts`;
5. `second_order` and the shapes of the frequency shifts and decay amplitudes (given or computed)
   differ — `ValueError('Frequency shifts not same shape as decay amplitudes')`;
and it raises exactly that class.  Every other argument combination is accepted. -/
theorem cumulantFunction_rejects_iff (shortcut : Bool) (T : Ten4 ℂ N N N N)
    (hasS hasO : Bool) (which : Which) (second : Bool)
    (gArg dArg : Option (Arr (Mat ℂ N N))) (gCalc dCalc : Unit → Arr (Mat ℂ N N)) (e : Err) :
    let c1 := hasS = false ∧ hasO = false ∧ (gArg = none ∨ (dArg = none ∧ second = true))
    let c2 := which = .correlations ∧ second = true
    let c3 := gArg = none ∧ ¬(hasS = true ∧ hasO = true)
    let c4 := second = true ∧ dArg = none ∧ ¬(hasS = true ∧ hasO = true)
    let c5 := second = true ∧ (dArg.getD (dCalc ())).shape ≠ (gArg.getD (gCalc ())).shape
    cumulantFunction (R := ℝ) shortcut T hasS hasO which second gArg dArg gCalc dCalc = .error e ↔
      (c1 ∧ e = .requireSpectrumOrAmplitudes) ∨
      (¬c1 ∧ c2 ∧ e = .correlationsSecondOrder) ∨
      (¬c1 ∧ ¬c2 ∧ c3 ∧ e = .calleeNone) ∨
      (¬c1 ∧ ¬c2 ∧ ¬c3 ∧ c4 ∧ e = .calleeNone) ∨
      (¬c1 ∧ ¬c2 ∧ ¬c3 ∧ ¬c4 ∧ c5 ∧ e = .shiftsShape) := by
  intro c1 c2 c3 c4 c5
  cases gArg <;> cases dArg <;> cases hasS <;> cases hasO <;> cases second <;>
    simp [cumulantFunction, c1, c2, c3, c4, c5]
  all_goals clear c1 c2 c3 c4 c5
  all_goals first
    | exact eq_comm
    | (split_ifs <;> simp_all [eq_comm])

/-- the first rejection is reachable (nothing given at all), and a complete first-order call is
accepted -/
example (T : Ten4 ℂ N N N N) (g : Unit → Arr (Mat ℂ N N)) :
    cumulantFunction (R := ℝ) false T false false .total false none none g g
      = .error .requireSpectrumOrAmplitudes ∧
    ∀ e, cumulantFunction (R := ℝ) false T true true .total false none none g g ≠ .error e := by
  refine ⟨(cumulantFunction_rejects_iff false T false false .total false none none g g _).2
    (Or.inl ⟨⟨rfl, rfl, Or.inl rfl⟩, rfl⟩), fun e h => ?_⟩
  have := (cumulantFunction_rejects_iff false T true true .total false none none g g e).1 h
  simp at this


/-! ### Non-negative spectra give positive-semidefinite decay amplitudes -/

/-- **The decay amplitudes of one noise source are positive semidefinite for a non-negative
spectrum.**  On a sorted frequency grid, for a real non-negative spectrum `S_a(ω) = s(ω) ≥ 0`, the
real symmetric matrix the code forms, `Γ_a,kl = ∫ Re(conj(B_ak) S_a B_al) dω/2π` (trapezoid), is a
non-negative combination of the matrices `Re(conj(b) bᵀ) = (b̄bᵀ + b b̄ᵀ)/2`, hence positive
semidefinite (as a complex Hermitian matrix). -/
theorem decay_amplitudes_posSemidef (ω : Vec ℝ nO) (hω : ∀ i j : Fin nO, i ≤ j → ω[i] ≤ ω[j])
    (B : Ten3 ℂ nA N nO) (idx : Vec (Fin nA) m) (S : Mat ℂ m nO) (s : Fin m → Fin nO → ℝ)
    (hs : ∀ a o, 0 ≤ s a o) (hS : ∀ (a : Fin m) (o : Fin nO), S[a][o] = (s a o : ℂ)) (a : Fin m) :
    (gammaC (decayAmplitudes2 ω B idx S) a).toMatrix.PosSemidef := by
  have h := gamma_block_posSemidef ω hω B[idx[a]] S[a] (s a) (hs a) (hS a)
  convert h using 1
  ext k l
  rw [Mat.toMatrix_apply, Matrix.of_apply]
  simp only [gammaC, Mat.map, Mat.ofFn_get]
  rw [decayAmplitudes2_getElem]

/-- **… and so is their sum over the selected noise sources, whichever path computes them**
(`calculate_decay_amplitudes` with the generalized filter function cached — consistently,
`Fgen = conj(B) B` — or not, memory-parsimonious or not): the hypothesis `Σ_a Γ_a ⪰ 0` of
`error_transfer_matrix_physical` holds for every non-negative spectrum of shape `(m, n_omega)`. -/
theorem summed_decay_amplitudes_posSemidef (ffGenCached pars : Bool) (ω : Vec ℝ nO)
    (hω : ∀ i j : Fin nO, i ≤ j → ω[i] ≤ ω[j]) (B : Ten3 ℂ nA N nO)
    (Fgen : Ten5 ℂ nA nA N N nO) (hF : ffGenCached = true → Fgen = filterFunctionGen B)
    (idx : Vec (Fin nA) m) (S : Mat ℂ m nO) (s : Fin m → Fin nO → ℝ)
    (hs : ∀ a o, 0 ≤ s a o) (hS : ∀ (a : Fin m) (o : Fin nO), S[a][o] = (s a o : ℂ)) :
    (∑ a : Fin m, (gammaC (decayAmplitudesSel2 ffGenCached pars ω B Fgen idx S) a).toMatrix
      ).PosSemidef := by
  have hsel : decayAmplitudesSel2 ffGenCached pars ω B Fgen idx S = decayAmplitudes2 ω B idx S := by
    cases hc : ffGenCached with
    | true =>
      exact (C08Integrand.decay_amplitudes_path_independent true pars ω B Fgen (hF hc) idx S
        (Vector.replicate m (Vector.replicate m (Vector.replicate nO 0)))).1
    | false =>
      have h := (C08Integrand.decay_amplitudes_path_independent false pars ω B _ rfl idx S
        (Vector.replicate m (Vector.replicate m (Vector.replicate nO 0)))).1
      have e : decayAmplitudesSel2 false pars ω B Fgen idx S
          = decayAmplitudesSel2 false pars ω B (filterFunctionGen B) idx S := by
        simp only [decayAmplitudesSel2, Bool.false_eq_true, if_false]
      rw [e]
      exact h
  rw [hsel]
  exact posSemidef_sum _ fun a _ => decay_amplitudes_posSemidef ω hω B idx S s hs hS a

/-- **End to end for non-negative spectra (shape `(m, n_omega)`)**: sorted grid, non-negative real
spectra, consistent cache, complete orthonormal Hermitian basis with `C_{i0} = c·1` ⇒
`error_transfer_matrix` does not raise and, under `U = exp Ksum`, returns a trace-preserving,
unital, completely positive map — no hypothesis on the decay amplitudes. -/
theorem error_transfer_matrix_physical_of_nonneg_spectrum (p : PulseData ℂ nA N d nO)
    (S : Mat ℂ m nO) (ω : Vec ℝ nO) (idx : Vec (Fin nA) m) (second pars sp ci : Bool)
    (hclose : p.close = true → ∀ (hN : N = 4) (hd : d = 2),
      Spec.basisOf (show Vector (Mat ℂ 2 2) 4 from hN ▸ hd ▸ p.basis) = Spec.pauliBasis)
    (hCo : Spec.IsComplete (Spec.basisOf p.basis)) (hH : Spec.IsOrthoHerm (Spec.basisOf p.basis))
    (i0 : Fin N) (c : ℂ) (h0 : Spec.basisOf p.basis i0 = c • (1 : Matrix (Fin d) (Fin d) ℂ))
    (hω : ∀ i j : Fin nO, i ≤ j → ω[i] ≤ ω[j])
    (hF : p.ffGenCached = true → p.Fgen = filterFunctionGen p.B)
    (s : Fin m → Fin nO → ℝ) (hs : ∀ a o, 0 ≤ s a o)
    (hS : ∀ (a : Fin m) (o : Fin nO), S[a][o] = (s a o : ℂ))
    (U : Matrix (Fin N) (Fin N) ℝ) :
    ∃ Ksum : Mat ℝ N N,
      etmFn (some p) (some (.perOp S)) (some ω) idx second none sp pars ci = .ok ⟨N, N, Ksum⟩ ∧
      (U = exp Ksum.toMatrix →
        (∀ j, U i0 j = if j = i0 then 1 else 0) ∧ (∀ j, U j i0 = if j = i0 then 1 else 0) ∧
        (Spec.choiLiou (Spec.basisOf p.basis) (U.map Complex.ofReal)).PosSemidef) := by
  obtain ⟨Ksum, hK, h⟩ := error_transfer_matrix_physical p S ω idx second pars sp ci hclose hCo hH
    i0 c h0 U
  refine ⟨Ksum, hK, fun hU => ?_⟩
  obtain ⟨h1, h2, h3⟩ := h hU
  exact ⟨h1, h2, h3 (summed_decay_amplitudes_posSemidef p.ffGenCached pars ω hω p.B p.Fgen hF idx S
    s hs hS)⟩

/-- **… and for a single non-negative spectrum `(n_omega,)`** used for every noise operator. -/
theorem error_transfer_matrix_physical_of_nonneg_spectrum_single (p : PulseData ℂ nA N d nO)
    (sv : Vec ℂ nO) (ω : Vec ℝ nO) (idx : Vec (Fin nA) m) (second pars sp ci : Bool)
    (hclose : p.close = true → ∀ (hN : N = 4) (hd : d = 2),
      Spec.basisOf (show Vector (Mat ℂ 2 2) 4 from hN ▸ hd ▸ p.basis) = Spec.pauliBasis)
    (hCo : Spec.IsComplete (Spec.basisOf p.basis)) (hH : Spec.IsOrthoHerm (Spec.basisOf p.basis))
    (i0 : Fin N) (c : ℂ) (h0 : Spec.basisOf p.basis i0 = c • (1 : Matrix (Fin d) (Fin d) ℂ))
    (hω : ∀ i j : Fin nO, i ≤ j → ω[i] ≤ ω[j])
    (hF : p.ffGenCached = true → p.Fgen = filterFunctionGen p.B)
    (s : Fin nO → ℝ) (hs : ∀ o, 0 ≤ s o) (hS : ∀ o : Fin nO, sv[o] = (s o : ℂ))
    (U : Matrix (Fin N) (Fin N) ℝ) :
    ∃ Ksum : Mat ℝ N N,
      etmFn (some p) (some (.one sv : Spectrum ℂ m nO)) (some ω) idx second none sp pars ci
        = .ok ⟨N, N, Ksum⟩ ∧
      (U = exp Ksum.toMatrix →
        (∀ j, U i0 j = if j = i0 then 1 else 0) ∧ (∀ j, U j i0 = if j = i0 then 1 else 0) ∧
        (Spec.choiLiou (Spec.basisOf p.basis) (U.map Complex.ofReal)).PosSemidef) := by
  obtain ⟨Ksum, hK, h⟩ := error_transfer_matrix_physical_single (m := m) p sv ω idx second pars sp
    ci hclose hCo hH i0 c h0 U
  refine ⟨Ksum, hK, fun hU => ?_⟩
  obtain ⟨h1, h2, h3⟩ := h hU
  refine ⟨h1, h2, h3 (summed_decay_amplitudes_posSemidef p.ffGenCached pars ω hω p.B p.Fgen hF idx
    _ (fun _ o => s o) (fun _ o => hs o) fun a o => ?_)⟩
  simp only [replicateSpectrum, Fin.getElem_fin, Vector.getElem_ofFn]
  exact hS o

/-- the hypotheses on grid and spectrum are satisfiable (two-point grid, white spectrum) -/
example : ∃ (ω : Vec ℝ 2) (S : Mat ℂ 1 2) (s : Fin 1 → Fin 2 → ℝ),
    (∀ i j : Fin 2, i ≤ j → ω[i] ≤ ω[j]) ∧ (∀ a o, 0 ≤ s a o) ∧
    ∀ (a : Fin 1) (o : Fin 2), S[a][o] = (s a o : ℂ) :=
  ⟨#v[0, 1], #v[#v[1, 1]], fun _ _ => 1, by
    intro i j h
    fin_cases i <;> fin_cases j <;> first | exact absurd h (by decide) | simp, fun _ _ => zero_le_one, by
    intro a o; fin_cases a; fin_cases o <;> simp⟩

end FFVerif.C09
