/-
C10, assembly level — the loop of `numeric.calculate_second_order_filter_function`
(`Model.secondOrderFF`): what it sums, and the identity `F2_{ab,kl} + conj F2_{ba,lk} = F1_{ab,kl}`
for the arrays it produces.  Property theorems only.
-/
import FFVerif.Props.C10
import FFVerif.Props.C01Seg
import FFVerif.Lemmas.SecondOrderAsm
import FFVerif.Lemmas.SecondOrderScratch

namespace FFVerif.C10
open FFVerif FFVerif.Model FFVerif.SecondOrderAux FFVerif.SecondOrderAsm Complex Finset

/-- **What the loop computes.**  Entry `[a][b][k][l][o]` of the result of
`calculate_second_order_filter_function` (any number of segments, dimensions, frequencies; any
per-segment inputs) is
`Σ_g [ Σ_ijmn I²_g[o,i,j,m,n] (nT_g[a,i,j] bT_g[k,j,i]) (nT_g[b,m,n] bT_g[l,n,m])
        + conj(cm_g[a,k,o]) Σ_{g'<g} cm_{g'}[b,l,o] ]`
which is the formula of the docstring. -/
theorem secondOrderFF_entry {nG d nO nA nK : ℕ} (ints : Vector (Vector (Ten4 ℂ d d d d) nO) nG)
    (nT : Vector (Ten3 ℂ nA d d) nG) (bT : Vector (Ten3 ℂ nK d d) nG)
    (cm : Vector (Ten3 ℂ nA nK nO) nG) (a b : Fin nA) (k l : Fin nK) (o : Fin nO) :
    (secondOrderFF ints nT bT cm)[a][b][k][l][o]
      = ∑ g : Fin nG,
          ((∑ i : Fin d, ∑ j : Fin d, ∑ m : Fin d, ∑ n : Fin d,
              ints[g][o][i][j][m][n] * (nT[g][a][i][j] * bT[g][k][j][i])
                * (nT[g][b][m][n] * bT[g][l][n][m]))
            + (starRingEnd ℂ) (cm[g][a][k][o])
              * ∑ g' : Fin g.1, (cm[g'.1]'(Nat.lt_trans g'.2 g.2))[b][l][o]) := by
  rw [secondOrderFF_get]
  refine Finset.sum_congr rfl fun g _ => ?_
  rw [secondOrderStep_get, secondOrderCross_get]

/-- **Telescoping.**  If every segment satisfies the diagonal identity
`step_g[a,b,k,l,o] + conj step_g[b,a,l,k,o] = conj(cm_g[a,k,o]) cm_g[b,l,o]`, then the assembled
second-order filter function satisfies
`F2[a,b,k,l,o] + conj F2[b,a,l,k,o] = conj(B[a,k,o]) B[b,l,o]` with `B = Σ_g cm_g` the total
control matrix (the order in which the loop updates `ctrlmat_step_cumulative` is what makes the
cross terms add up to exactly the off-diagonal `g ≠ g'` part). -/
theorem secondOrderFF_plus_adjoint_of_segments {nG d nO nA nK : ℕ}
    (ints : Vector (Vector (Ten4 ℂ d d d d) nO) nG)
    (nT : Vector (Ten3 ℂ nA d d) nG) (bT : Vector (Ten3 ℂ nK d d) nG)
    (cm : Vector (Ten3 ℂ nA nK nO) nG) (a b : Fin nA) (k l : Fin nK) (o : Fin nO)
    (hseg : ∀ g : Fin nG,
      (secondOrderStep ints[g] nT[g] bT[g])[a][b][k][l][o]
        + (starRingEnd ℂ) ((secondOrderStep ints[g] nT[g] bT[g])[b][a][l][k][o])
        = (starRingEnd ℂ) (cm[g][a][k][o]) * cm[g][b][l][o]) :
    (secondOrderFF ints nT bT cm)[a][b][k][l][o]
        + (starRingEnd ℂ) ((secondOrderFF ints nT bT cm)[b][a][l][k][o])
      = (starRingEnd ℂ) (∑ g : Fin nG, cm[g][a][k][o]) * ∑ g : Fin nG, cm[g][b][l][o] := by
  rw [secondOrderFF_get, secondOrderFF_get]
  simp only [secondOrderCross_get]
  exact ff_telescope_fin nG
    (fun g => (secondOrderStep ints[g] nT[g] bT[g])[a][b][k][l][o])
    (fun g => (secondOrderStep ints[g] nT[g] bT[g])[b][a][l][k][o])
    (fun g => cm[g][a][k][o]) (fun g => cm[g][b][l][o]) hseg

/-- **Per-segment diagonal identity for the code's kernels.**  For one segment with level
energies `ev`, duration `dt`, frequencies `omega`, Hermitian transformed noise operators
`nT[a]` and Hermitian transformed basis elements `bT[k]`, a unimodular phase `ph[o]`
(`e^{iω t_{g-1}}`), the "last interval" term built from `_second_order_integral` and the
control-matrix contribution of the segment built (einsum `o,jmn,omn,knm->jko`) from
`_first_order_integral` with an exact `≠ 0` guard satisfy
`step[a,b,k,l,o] + conj step[b,a,l,k,o] = conj(cm[a,k,o]) cm[b,l,o]`
for every frequency (including all resonances). -/
theorem secondOrderStep_plus_adjoint {d nO nA nK : ℕ} (omega : Vec ℝ nO) (ev : Vec ℝ d)
    (dt thr : ℝ) (ph : Vec ℂ nO) (nT : Ten3 ℂ nA d d) (bT : Ten3 ℂ nK d d)
    (hph : ∀ o : Fin nO, (starRingEnd ℂ) ph[o] * ph[o] = 1)
    (hnT : ∀ (a : Fin nA) (i j : Fin d), (starRingEnd ℂ) nT[a][i][j] = nT[a][j][i])
    (hbT : ∀ (k : Fin nK) (i j : Fin d), (starRingEnd ℂ) bT[k][i][j] = bT[k][j][i])
    (a b : Fin nA) (k l : Fin nK) (o : Fin nO) :
    (secondOrderStep (secondOrderIntegral omega ev dt) nT bT)[a][b][k][l][o]
        + (starRingEnd ℂ) ((secondOrderStep (secondOrderIntegral omega ev dt) nT bT)[b][a][l][k][o])
      = (starRingEnd ℂ) ((Gen.numeric_calculate_control_matrix_from_scratch_0 ph nT
            (firstOrderIntegral .neZero thr omega ev dt) bT)[a][k][o])
          * (Gen.numeric_calculate_control_matrix_from_scratch_0 ph nT
            (firstOrderIntegral .neZero thr omega ev dt) bT)[b][l][o] := by
  rw [secondOrderStep_get, secondOrderStep_get, C01.einsum_cm_entry, C01.einsum_cm_entry]
  simp only [secondOrderIntegral_get, C01.firstOrderIntegral_get]
  exact step_plus_adjoint_alg'
    (fun i j => nT[a][i][j]) (fun i j => bT[k][i][j]) (fun i j => nT[b][i][j])
    (fun i j => bT[l][i][j])
    (fun m n => (firstOrderEntry .neZero thr (omega[o] + (ev[m] - ev[n])) dt : ℂ))
    (fun i j m n => (secondOrderEntry omega[o] (ev[i] - ev[j]) (ev[m] - ev[n]) dt : ℂ)) ph[o]
    (hnT a) (hbT k) (hnT b) (hbT l)
    (fun i j m n => by
      have h := secondOrderEntry_plus_adjoint omega[o] (ev[i] - ev[j]) (ev[m] - ev[n]) dt thr
      rw [neg_sub, neg_sub] at h
      exact h)
    (hph o)

/-- **`F2 + F2† = F1` for the assembled arrays.**  Let the per-segment inputs of the loop be:
second-order integrals `_second_order_integral(omega, eigvals[g], dt[g])`; Hermitian `nT[g][a]`
and `bT[g][k]`; control-matrix contributions `cm[g]` equal to the einsum `o,jmn,omn,knm->jko`
of a unimodular phase, `nT[g]`, the first-order integrals with exact `≠ 0` guard, and `bT[g]`.
Then for every number of segments, dimension, noise operators `a, b`, basis elements `k, l` and
every frequency `omega[o]` (resonant or not)
`F2[a,b,k,l,o] + conj F2[b,a,l,k,o] = conj(B[a,k,o]) · B[b,l,o]`, `B = Σ_g cm[g]`,
i.e. the generalized first-order filter function of the total control matrix.
(With the production guard `|x·dt| > 1e-7` of `_first_order_integral` the identity holds up to
the truncation error quantified in C01, since `cm[g]` then uses the truncated values.) -/
theorem secondOrderFF_plus_adjoint {nG d nO nA nK : ℕ} (omega : Vec ℝ nO) (eigvals : Mat ℝ nG d)
    (dt : Vec ℝ nG) (thr : ℝ) (ph : Vector (Vec ℂ nO) nG)
    (nT : Vector (Ten3 ℂ nA d d) nG) (bT : Vector (Ten3 ℂ nK d d) nG)
    (cm : Vector (Ten3 ℂ nA nK nO) nG)
    (hph : ∀ (g : Fin nG) (o : Fin nO), (starRingEnd ℂ) ph[g][o] * ph[g][o] = 1)
    (hnT : ∀ (g : Fin nG) (a : Fin nA) (i j : Fin d),
      (starRingEnd ℂ) nT[g][a][i][j] = nT[g][a][j][i])
    (hbT : ∀ (g : Fin nG) (k : Fin nK) (i j : Fin d),
      (starRingEnd ℂ) bT[g][k][i][j] = bT[g][k][j][i])
    (hcm : ∀ (g : Fin nG) (a : Fin nA) (k : Fin nK) (o : Fin nO), cm[g][a][k][o]
      = (Gen.numeric_calculate_control_matrix_from_scratch_0 ph[g] nT[g]
          (firstOrderIntegral .neZero thr omega eigvals[g] dt[g]) bT[g])[a][k][o])
    (a b : Fin nA) (k l : Fin nK) (o : Fin nO) :
    (secondOrderFF (Vector.ofFn fun g => secondOrderIntegral omega eigvals[g] dt[g]) nT bT
        cm)[a][b][k][l][o]
      + (starRingEnd ℂ) ((secondOrderFF
          (Vector.ofFn fun g => secondOrderIntegral omega eigvals[g] dt[g]) nT bT
          cm)[b][a][l][k][o])
      = (starRingEnd ℂ) (∑ g : Fin nG, cm[g][a][k][o]) * ∑ g : Fin nG, cm[g][b][l][o] := by
  apply secondOrderFF_plus_adjoint_of_segments
  intro g
  rw [vec_ofFn_get, hcm, hcm]
  exact secondOrderStep_plus_adjoint omega eigvals[g] dt[g] thr ph[g] nT[g] bT[g] (hph g) (hnT g)
    (hbT g) a b k l o

/-- **End to end: `F2 + F2† = F1` for `calculate_second_order_filter_function` without cached
intermediates.**  For every number of segments, dimension, eigen-decomposition data
`eigvals/eigvecs` (NOT assumed unitary or even related to a Hamiltonian), cumulative propagators
`props`, segment times `dt`, `t`, sensitivities `nCoeffs`, Hermitian noise operators and Hermitian
basis elements (complete or not, orthonormal or not), and every frequency — resonant or not —
the array `F2` computed by the second-order routine (model `secondOrderFFFromScratch`: transformed
operators, one-segment control-matrix calls, `_second_order_integral`, the three einsums and the
cumulative-sum loop) satisfies, in exact arithmetic and with the exact `≠ 0` guard in
`_first_order_integral`,
`F2[a,b,k,l,o] + conj F2[b,a,l,k,o] = calculate_filter_function(B, 'generalized')[a,b,k,l,o]`
with `B = calculate_control_matrix_from_scratch(…)` for the same inputs.
In IEEE arithmetic the Python violates this identity by O(1) at frequencies within ~1e-7 of a
resonance `ω = -Ω_mn` (exact-zero masks of `_second_order_integral`, known finding F9), and
satisfies it to ~1e-13 elsewhere and AT the resonances. -/
theorem secondOrderFFFromScratch_plus_adjoint {nG d nO nA nK : ℕ} (thr : ℝ)
    (eigvals : Mat ℝ nG d) (eigvecs props : Vector (Mat ℂ d d) nG) (omega : Vec ℝ nO)
    (basis : Vector (Mat ℂ d d) nK) (nOpers : Vector (Mat ℂ d d) nA) (nCoeffs : Mat ℝ nA nG)
    (dt t : Vec ℝ nG)
    (hN : ∀ (a : Fin nA) (i j : Fin d), (starRingEnd ℂ) nOpers[a][i][j] = nOpers[a][j][i])
    (hC : ∀ (k : Fin nK) (i j : Fin d), (starRingEnd ℂ) basis[k][i][j] = basis[k][j][i])
    (a b : Fin nA) (k l : Fin nK) (o : Fin nO) :
    (secondOrderFFFromScratch .neZero thr eigvals eigvecs props omega basis nOpers nCoeffs dt
        t)[a][b][k][l][o]
      + (starRingEnd ℂ) ((secondOrderFFFromScratch .neZero thr eigvals eigvecs props omega basis
          nOpers nCoeffs dt t)[b][a][l][k][o])
      = (filterFunctionGen (controlMatrixFromScratch .neZero thr eigvals eigvecs props omega basis
          nOpers nCoeffs dt t))[a][b][k][l][o] := by
  have hsum : ∀ (a' : Fin nA) (k' : Fin nK),
      (∑ g : Fin nG, (Vector.ofFn fun g => controlMatrixFromScratch .neZero thr #v[eigvals[g]]
        #v[eigvecs[g]] #v[props[g]] omega basis nOpers (Vector.ofFn fun a => #v[nCoeffs[a][g]])
        #v[dt[g]] #v[t[g]])[g][a'][k'][o])
      = (controlMatrixFromScratch .neZero thr eigvals eigvecs props omega basis nOpers nCoeffs dt
          t)[a'][k'][o] := by
    intro a' k'
    rw [cm_multi_entry]
    refine Finset.sum_congr rfl fun g _ => ?_
    rw [vec_ofFn_get, cm_single_entry]
  have key := secondOrderFF_plus_adjoint omega eigvals dt thr
    (Vector.ofFn fun g => Vector.ofFn fun o => (CplxOps.expI (omega[o] * t[g]) : ℂ))
    (Vector.ofFn fun g => Vector.ofFn fun a =>
      Mat.smul (CplxOps.ofReal nCoeffs[a][g]) (transformByUnitary eigvecs[g] nOpers[a]))
    (Vector.ofFn fun g => Vector.ofFn fun k =>
      transformByUnitary
        ((Vector.ofFn fun g => Mat.mul (Mat.adjoint props[g]) eigvecs[g])[g]) basis[k])
    (Vector.ofFn fun g => controlMatrixFromScratch .neZero thr #v[eigvals[g]] #v[eigvecs[g]]
      #v[props[g]] omega basis nOpers (Vector.ofFn fun a => #v[nCoeffs[a][g]]) #v[dt[g]] #v[t[g]])
    (by
      intro g o
      rw [vec_ofFn_get, vec_ofFn_get, copsExpI, ← Complex.exp_conj, ← Complex.exp_add]
      simp)
    (by
      intro g a i j
      rw [vec_ofFn_get, vec_ofFn_get, C01.smul_getElem, C01.smul_getElem, map_mul,
        transformByUnitary_herm _ _ (hN a), copsOfReal, Complex.conj_ofReal])
    (by
      intro g k i j
      rw [vec_ofFn_get, vec_ofFn_get]
      exact transformByUnitary_herm _ _ (hC k) i j)
    (by
      intro g a k o
      rw [vec_ofFn_get, cm_single_entry, C01.einsum_cm_entry]
      refine Finset.sum_congr rfl fun m _ => Finset.sum_congr rfl fun n _ => ?_
      rw [C01.firstOrderIntegral_get, vec_ofFn_get, vec_ofFn_get, vec_ofFn_get, vec_ofFn_get,
        vec_ofFn_get, vec_ofFn_get, vec_ofFn_get])
    a b k l o
  rw [hsum a k, hsum b l] at key
  rw [ffgen_entry]
  unfold secondOrderFFFromScratch
  exact key
/-- the Hermiticity hypotheses are satisfiable by a non-trivial instance (Pauli `Y`) -/
example : ∀ (a : Fin 1) (i j : Fin 2),
    (starRingEnd ℂ) (#v[#v[#v[0, -Complex.I], #v[Complex.I, 0]]] : Vector (Mat ℂ 2 2) 1)[a][i][j]
      = (#v[#v[#v[0, -Complex.I], #v[Complex.I, 0]]] : Vector (Mat ℂ 2 2) 1)[a][j][i] := by
  intro a i j
  fin_cases a; fin_cases i <;> fin_cases j <;> simp

end FFVerif.C10
