/-
C04 / C03 (continued) — the capstones of `Props/C04Tile.lean` without the restriction on how the
tiled / sequenced pulse was diagonalized.

`C04Tile.periodic_cm_eq_tiled_from_scratch` and `C04Tile.concat_cm_eq_diag_from_scratch` compare the
control matrix cached by `concatenate_periodic` / `concatenate` with
`calculate_control_matrix_from_scratch` applied to the tiled / sequenced pulse DIAGONALIZED WITH THE
PARTS' EIGEN-DATA REPEATED.  A fresh `PulseSequence` built from the tiled / concatenated
coefficients calls `eigh` on its own and may get other eigenvectors (phases, bases of degenerate
eigenspaces, order of equal eigenvalues, and different ones on different copies of the same
segment).  With `C01.cm_eigh_independent` this does not matter: the theorems below hold for an
ARBITRARY output of `eigh` for the tiled / sequenced pulse that satisfies the contract `C02.IsEigh`.
-/
import FFVerif.Props.C01Unique
import FFVerif.Props.C04Tile

namespace FFVerif.C04Tile
open FFVerif FFVerif.Model FFVerif.C02 FFVerif.TileAux Matrix Complex

section
variable {d nA : Nat}

/-- **A diagonalized pulse's control matrix does not depend on the output of `eigh`** (record form
of `C01.cm_eigh_independent_diagonalize`): `PulseData.ofDiag` of two outputs of `eigh` for the same
segment Hamiltonians — cumulative propagators and times computed by the model of `diagonalize` / `t`
from each run's own data — have the same from-scratch control matrix. -/
theorem ofDiag_cm_eigh_independent {n nO nK : Nat} (kind : MaskKind) (thr : ℝ)
    (omega : Vec ℝ nO) (basis : Vector (Mat ℂ d d) nK) (nOpers : Vector (Mat ℂ d d) nA)
    (ev ev' : Mat ℝ n d) (V V' : Vector (Mat ℂ d d) n) (nCoeffs : Mat ℝ nA n) (dt : Vec ℝ n)
    (H : Fin n → Matrix (Fin d) (Fin d) ℂ)
    (hE : ∀ g : Fin n, IsEigh (H g) (fun j => ev[g.1][j]) V[g.1].toMatrix)
    (hE' : ∀ g : Fin n, IsEigh (H g) (fun j => ev'[g.1][j]) V'[g.1].toMatrix) :
    (PulseData.ofDiag ev' V' nCoeffs dt : PulseData ℝ ℂ d nA).cm kind thr omega basis nOpers
      = (PulseData.ofDiag ev V nCoeffs dt : PulseData ℝ ℂ d nA).cm kind thr omega basis nOpers :=
  C01.cm_eigh_independent_diagonalize kind thr ev ev' V V' omega basis nOpers nCoeffs dt
    (Vector.ofFn fun i : Fin n => (times dt)[i.1]) H hE hE'

/-- **C04, control matrix: periodic shortcut = the tiled pulse from scratch, the tiled pulse
diagonalized on its own.**  As `periodic_cm_eq_tiled_from_scratch`, but the tiled pulse carries an
ARBITRARY output `(evT, VT)` of `eigh` for the tiled Hamiltonians `H'_g = H_{g mod n}` (contract
`hT`; the copies of one segment may have been diagonalized differently), `(ev, V)` being the output
for the original pulse (contract `hE`). -/
theorem periodic_cm_eq_tiled_from_scratch' {n nO nK : Nat} (kind : MaskKind) (thr : ℝ)
    (omega : Vec ℝ nO) (basis : Vector (Mat ℂ d d) nK) (nOpers : Vector (Mat ℂ d d) nA)
    (hC : Spec.IsComplete (Spec.basisOf basis))
    (ev : Mat ℝ n d) (V : Vector (Mat ℂ d d) n) (nCoeffs : Mat ℝ nA n) (dt : Vec ℝ n) (G : Nat)
    (H : Fin n → Matrix (Fin d) (Fin d) ℂ)
    (hE : ∀ g : Fin n, IsEigh (H g) (fun j => ev[g.1][j]) V[g.1].toMatrix)
    (evT : Mat ℝ (G * n) d) (VT : Vector (Mat ℂ d d) (G * n))
    (hT : ∀ g : Fin (G * n), IsEigh (H (Fin.lo g)) (fun j => evT[g.1][j]) VT[g.1].toMatrix)
    (a : Fin nA) (k : Fin nK) (o : Fin nO) :
    (periodicApply ((PulseData.ofDiag ev V nCoeffs dt).cm kind thr omega basis nOpers)
        (Vector.ofFn fun o => geomSum (Mat.smul
          ((PulseData.ofDiag ev V nCoeffs dt : PulseData ℝ ℂ d nA).totalPhases omega)[o]
          (liouville (totalPropagator ev V dt) basis false)) G))[a][k][o]
      = ((PulseData.ofDiag evT VT (tileCoeffs G nCoeffs) (tileVec G dt)).cm kind thr omega basis
          nOpers)[a][k][o] := by
  rw [periodic_cm_eq_tiled_from_scratch kind thr omega basis nOpers hC ev V nCoeffs dt G a k o,
    ofDiag_cm_eigh_independent kind thr omega basis nOpers (tileVec G ev) evT (tileVec G V) VT
      (tileCoeffs G nCoeffs) (tileVec G dt) (fun g => H (Fin.lo g))
      (isEigh_tileVec G ev V H (fun g => H (Fin.lo g)) hE (fun _ => rfl)) hT]

/-- **C03, control matrix: `concatenate` = the sequenced pulse from scratch, the sequenced pulse
diagonalized on its own.**  As `concat_cm_eq_diag_from_scratch`, but the sequenced pulse carries an
ARBITRARY output `(evS, VS)` of `eigh` for its segment Hamiltonians `HS` (contract `hS`); the parts'
eigen-data put one after the other (`PulseData.concatSeq ps`) satisfy the contract for the same
Hamiltonians (`hE`: the sequenced pulse's segments ARE the parts' segments; `hE` holds with
`HS g = V_g diag(D_g) V_g†` as soon as the parts' eigenvector matrices are unitary,
`EighUniqueAux.isEigh_of_unitary`). -/
theorem concat_cm_eq_diag_from_scratch' {nO nK : Nat} (kind : MaskKind) (thr : ℝ)
    (omega : Vec ℝ nO) (basis : Vector (Mat ℂ d d) nK) (nOpers : Vector (Mat ℂ d d) nA)
    (hC : Spec.IsComplete (Spec.basisOf basis)) (ps : List (PulseData ℝ ℂ d nA))
    (h : ∀ P ∈ ps, IsDiag P)
    (HS : Fin (PulseData.concatSeq ps).nG → Matrix (Fin d) (Fin d) ℂ)
    (hE : ∀ g : Fin (PulseData.concatSeq ps).nG, IsEigh (HS g)
      (fun j => (PulseData.concatSeq ps).eigvals[g.1][j]) (PulseData.concatSeq ps).eigvecs[g.1].toMatrix)
    (evS : Mat ℝ (PulseData.concatSeq ps).nG d) (VS : Vector (Mat ℂ d d) (PulseData.concatSeq ps).nG)
    (hS : ∀ g : Fin (PulseData.concatSeq ps).nG, IsEigh (HS g) (fun j => evS[g.1][j]) VS[g.1].toMatrix)
    (a : Fin nA) (k : Fin nK) (o : Fin nO) :
    (PulseData.concatenateCM kind thr omega basis nOpers false ps)[a][k][o]
      = ((PulseData.ofDiag evS VS (PulseData.concatSeq ps).nCoeffs (PulseData.concatSeq ps).dt).cm
          kind thr omega basis nOpers)[a][k][o] := by
  rw [concat_cm_eq_diag_from_scratch kind thr omega basis nOpers hC ps h a k o,
    ofDiag_cm_eigh_independent kind thr omega basis nOpers (PulseData.concatSeq ps).eigvals evS
      (PulseData.concatSeq ps).eigvecs VS (PulseData.concatSeq ps).nCoeffs (PulseData.concatSeq ps).dt
      HS hE hS]

/-! ### Satisfiability of the hypotheses -/

/-- the hypotheses of `periodic_cm_eq_tiled_from_scratch'` are satisfiable with a tiled pulse that
was NOT diagonalized with the original eigen-data repeated: one segment `σ_z` (`eigh` output
`(1, -1)`, `V = 1`), `G = 2`; the second copy inside the tiled pulse was returned with the eigenvalues
in the other order and `V = σ_x`.  Pauli basis; any guard, frequencies, noise data, duration. -/
example {nO nA : Nat} (kind : MaskKind) (thr : ℝ) (omega : Vec ℝ nO)
    (nOpers : Vector (Mat ℂ 2 2) nA) (nCoeffs : Mat ℝ nA 1) (dt : Vec ℝ 1)
    (a : Fin nA) (k : Fin 4) (o : Fin nO) :
    (periodicApply ((PulseData.ofDiag (#v[#v[1, -1]] : Mat ℝ 1 2)
          (#v[#v[#v[1, 0], #v[0, 1]]] : Vector (Mat ℂ 2 2) 1) nCoeffs dt).cm kind thr omega
          (C03c.pauliBasis C03c.invSqrt2) nOpers)
        (Vector.ofFn fun o => geomSum (Mat.smul
          ((PulseData.ofDiag (#v[#v[1, -1]] : Mat ℝ 1 2)
            (#v[#v[#v[1, 0], #v[0, 1]]] : Vector (Mat ℂ 2 2) 1) nCoeffs dt :
              PulseData ℝ ℂ 2 nA).totalPhases omega)[o]
          (liouville (totalPropagator (#v[#v[1, -1]] : Mat ℝ 1 2)
            (#v[#v[#v[1, 0], #v[0, 1]]] : Vector (Mat ℂ 2 2) 1) dt)
            (C03c.pauliBasis C03c.invSqrt2) false)) 2))[a][k][o]
      = ((PulseData.ofDiag (#v[#v[1, -1], #v[-1, 1]] : Mat ℝ (2 * 1) 2)
          (#v[#v[#v[1, 0], #v[0, 1]], #v[#v[0, 1], #v[1, 0]]] : Vector (Mat ℂ 2 2) (2 * 1))
          (tileCoeffs 2 nCoeffs) (tileVec 2 dt)).cm kind thr omega (C03c.pauliBasis C03c.invSqrt2)
          nOpers)[a][k][o] := by
  refine periodic_cm_eq_tiled_from_scratch' kind thr omega _ nOpers
    (C03c.pauliBasis_complete _ C03c.invSqrt2_sq) _ _ nCoeffs dt 2
    (fun _ => (!![1, 0; 0, -1] : Matrix (Fin 2) (Fin 2) ℂ)) ?_ _ _ ?_ a k o
  · intro g
    fin_cases g
    refine ⟨?_, ?_, ?_⟩ <;> ext i j <;> fin_cases i <;> fin_cases j <;>
      simp [Matrix.mul_apply, Fin.sum_univ_two, Matrix.diagonal_apply, Mat.toMatrix,
        Matrix.conjTranspose_apply]
  · intro g
    have hg : g.1 = 0 ∨ g.1 = 1 := by have := g.2; omega
    rcases g with ⟨g, hg'⟩
    rcases hg with h | h <;> (simp only at h; subst h) <;> refine ⟨?_, ?_, ?_⟩ <;> ext i j <;>
      fin_cases i <;> fin_cases j <;>
      simp [Matrix.mul_apply, Fin.sum_univ_two, Matrix.diagonal_apply, Mat.toMatrix,
        Matrix.conjTranspose_apply]

/-- the hypotheses `hE`, `hS` of `concat_cm_eq_diag_from_scratch'` are satisfiable with a sequenced
pulse that was diagonalized differently from its parts: two one-segment pulses `σ_z` (both with
`eigh` output `(1, -1)`, `V = 1`); the sequenced pulse's first segment was returned with the
eigenvalues in the other order and `V = σ_x`. -/
example (nC1 nC2 : Mat ℝ 0 1) (dt1 dt2 : Vec ℝ 1) :
    let ps : List (PulseData ℝ ℂ 2 0) :=
      [PulseData.ofDiag (#v[#v[1, -1]] : Mat ℝ 1 2) (#v[#v[#v[1, 0], #v[0, 1]]] : Vector (Mat ℂ 2 2) 1) nC1 dt1,
       PulseData.ofDiag (#v[#v[1, -1]] : Mat ℝ 1 2) (#v[#v[#v[1, 0], #v[0, 1]]] : Vector (Mat ℂ 2 2) 1) nC2 dt2]
    ∃ (evS : Mat ℝ (PulseData.concatSeq ps).nG 2) (VS : Vector (Mat ℂ 2 2) (PulseData.concatSeq ps).nG),
      (∀ g : Fin (PulseData.concatSeq ps).nG, IsEigh (!![1, 0; 0, -1] : Matrix (Fin 2) (Fin 2) ℂ)
        (fun j => (PulseData.concatSeq ps).eigvals[g.1][j]) (PulseData.concatSeq ps).eigvecs[g.1].toMatrix) ∧
      (∀ g : Fin (PulseData.concatSeq ps).nG, IsEigh (!![1, 0; 0, -1] : Matrix (Fin 2) (Fin 2) ℂ)
        (fun j => evS[g.1][j]) VS[g.1].toMatrix) ∧
      VS ≠ (PulseData.concatSeq ps).eigvecs := by
  intro ps
  refine ⟨(#v[#v[-1, 1], #v[1, -1]] : Mat ℝ 2 2),
    (#v[#v[#v[0, 1], #v[1, 0]], #v[#v[1, 0], #v[0, 1]]] : Vector (Mat ℂ 2 2) 2), ?_, ?_, ?_⟩
  · change ∀ g : Fin 2, IsEigh (!![1, 0; 0, -1] : Matrix (Fin 2) (Fin 2) ℂ)
      (fun j => (#v[#v[1, -1], #v[1, -1]] : Mat ℝ 2 2)[g.1][j])
      (#v[#v[#v[1, 0], #v[0, 1]], #v[#v[1, 0], #v[0, 1]]] : Vector (Mat ℂ 2 2) 2)[g.1].toMatrix
    intro g
    fin_cases g <;> refine ⟨?_, ?_, ?_⟩ <;> ext i j <;>
      fin_cases i <;> fin_cases j <;>
      simp [Matrix.mul_apply, Fin.sum_univ_two, Matrix.diagonal_apply,
        Mat.toMatrix, Matrix.conjTranspose_apply]
  · change ∀ g : Fin 2, IsEigh (!![1, 0; 0, -1] : Matrix (Fin 2) (Fin 2) ℂ)
      (fun j => (#v[#v[-1, 1], #v[1, -1]] : Mat ℝ 2 2)[g.1][j])
      (#v[#v[#v[0, 1], #v[1, 0]], #v[#v[1, 0], #v[0, 1]]] : Vector (Mat ℂ 2 2) 2)[g.1].toMatrix
    intro g
    fin_cases g <;> refine ⟨?_, ?_, ?_⟩ <;> ext i j <;>
      fin_cases i <;> fin_cases j <;>
      simp [Matrix.mul_apply, Fin.sum_univ_two, Matrix.diagonal_apply,
        Mat.toMatrix, Matrix.conjTranspose_apply]
  · intro h
    have h1 := congrArg (fun v : Vector (Mat ℂ 2 2) 2 => v[0][0][0]) h
    change (0 : ℂ) = 1 at h1
    exact zero_ne_one h1

end

end FFVerif.C04Tile
