/-
C08 (continued) — the invariances of the control matrix and of the fidelity filter function proved
in C12 / C13 lifted to the INFIDELITY model.

Models: `Model.infidelityFromCM1/2/3` (`numeric.infidelity`, `which='total'`, the three spectrum
shapes `(n_omega,)`, `(n_a, n_omega)`, `(n_a, n_a, n_omega)`, both branches on
`basis.istraceless`; built from `Model.fidelityFF`, `Model.infidelityDiag/Full`,
`Model.integrateR` = `util.integrate`) applied to `Model.controlMatrixFromScratch`
(`numeric.calculate_control_matrix_from_scratch`).  In `infidelityFromCM*  istl dim ω B T idIdx idx S`
* `istl` is `basis.istraceless`, `dim` is `pulse.d`, `ω` the frequency grid (the SAME array is
  passed to the control matrix and to `util.integrate`, as in the Python),
* `B` is the control matrix, `T` is `basis.four_element_traces` (only used when `istl = false`),
  `idIdx` is the output of `_identity_element_index(basis)` (only used when `istl = true`),
* `idx` are the indices of the selected noise operators, `S` the spectrum.
Property theorems only (helpers: FFVerif/Lemmas/InfidelityInvAux.lean).
-/
import FFVerif.Lemmas.InfidelityInvAux
import FFVerif.Props.C08
import FFVerif.Props.C12
import FFVerif.Props.C13

namespace FFVerif.C08
open FFVerif FFVerif.Model Matrix

/-! ### 1. The infidelity is a function of the control matrix -/

/-- **The infidelity depends on the selected rows of the control matrix only** (and on the
spectrum, the grid, `dim`, and the trace data `T` / `idIdx`).  If the rows `B'[idx'[a]]` of one
control matrix coincide entrywise with the rows `B[idx[a]]` of another one (possibly with a
different number of noise operators), then `infidelityFromCM1`, `infidelityFromCM2`,
`infidelityFromCM3` return the same arrays; both values of `istl`, every spectrum, every grid. -/
theorem infidelity_congr_cm {nA nA' m N nO q : Nat} (istl : Bool) (dim : Nat) (ω : Vec ℝ nO)
    (B : Ten3 ℂ nA N nO) (B' : Ten3 ℂ nA' N nO) (T : Ten4 ℂ N N N N) (idIdx : Vec (Fin N) q)
    (idx : Vec (Fin nA) m) (idx' : Vec (Fin nA') m)
    (h : ∀ (a : Fin m) (k : Fin N) (o : Fin nO), B'[idx'[a]][k][o] = B[idx[a]][k][o])
    (S1 : Vec ℂ nO) (S2 : Mat ℂ m nO) (S3 : Ten3 ℂ m m nO) :
    infidelityFromCM1 istl dim ω B' T idIdx idx' S1 = infidelityFromCM1 istl dim ω B T idIdx idx S1 ∧
    infidelityFromCM2 istl dim ω B' T idIdx idx' S2 = infidelityFromCM2 istl dim ω B T idIdx idx S2 ∧
    infidelityFromCM3 istl dim ω B' T idIdx idx' S3 = infidelityFromCM3 istl dim ω B T idIdx idx S3 := by
  have hrow : ∀ a : Fin m, B'[idx'[a]] = B[idx[a]] := fun a => mat_ext_fin fun k o => h a k o
  refine infidelity_of_ffPair_eq istl istl dim ω B B' T T idIdx idIdx idx idx' (fun a b => ?_) S1 S2 S3
  rw [hrow, hrow]

/-- **Lipschitz bound in the control matrix.**  If two control matrices differ entrywise by at
most `ε a` in row `a` and are both bounded entrywise by `M a` in row `a` (at all frequencies of the
grid), then for every pair `(a, b)` of selected noise operators the infidelities differ by at most
`(ε_a M_b + M_a ε_b) · W · A / (2π·dim)` with
* `W = cmWeight istl dim T q`: `N + q` on the traceless branch (`N` basis elements, `q` identity
  indices), `Σ_kl |traces_diag_kl| / dim` on the trace-tensor branch;
* `A = absIntegral ω S_ab = Σ_i |ω_{i+1}-ω_i| (|S_ab(ω_i)| + |S_ab(ω_{i+1})|)/2`, which on a
  sorted grid is `util.integrate(|S_ab|, ω)` (`Model.absIntegral_sorted`).
For constant `ε`, `M` the first factor is `2 M ε`.  All three spectrum shapes, both branches, every
grid, every `dim` (for `dim = 0` both sides are `0`). -/
theorem infidelity_lipschitz_cm {nA m N nO q : Nat} (istl : Bool) (dim : Nat) (ω : Vec ℝ nO)
    (B B' : Ten3 ℂ nA N nO) (T : Ten4 ℂ N N N N) (idIdx : Vec (Fin N) q) (idx : Vec (Fin nA) m)
    (ε M : Fin nA → ℝ)
    (hε : ∀ (a : Fin nA) (k : Fin N) (o : Fin nO), ‖B'[a][k][o] - B[a][k][o]‖ ≤ ε a)
    (hM : ∀ (a : Fin nA) (k : Fin N) (o : Fin nO), ‖B[a][k][o]‖ ≤ M a)
    (hM' : ∀ (a : Fin nA) (k : Fin N) (o : Fin nO), ‖B'[a][k][o]‖ ≤ M a)
    (S1 : Vec ℂ nO) (S2 : Mat ℂ m nO) (S3 : Ten3 ℂ m m nO) (a b : Fin m) :
    |(infidelityFromCM1 istl dim ω B' T idIdx idx S1)[a]
        - (infidelityFromCM1 istl dim ω B T idIdx idx S1)[a]|
      ≤ (ε idx[a] * M idx[a] + M idx[a] * ε idx[a]) * cmWeight istl dim T q * absIntegral ω S1
          / (2 * Real.pi * (dim : ℝ)) ∧
    |(infidelityFromCM2 istl dim ω B' T idIdx idx S2)[a]
        - (infidelityFromCM2 istl dim ω B T idIdx idx S2)[a]|
      ≤ (ε idx[a] * M idx[a] + M idx[a] * ε idx[a]) * cmWeight istl dim T q * absIntegral ω S2[a]
          / (2 * Real.pi * (dim : ℝ)) ∧
    |(infidelityFromCM3 istl dim ω B' T idIdx idx S3)[a][b]
        - (infidelityFromCM3 istl dim ω B T idIdx idx S3)[a][b]|
      ≤ (ε idx[a] * M idx[b] + M idx[a] * ε idx[b]) * cmWeight istl dim T q
          * absIntegral ω S3[a][b] / (2 * Real.pi * (dim : ℝ)) := by
  refine ⟨?_, ?_, ?_⟩
  · rw [infidelityFromCM1_getElem, infidelityFromCM1_getElem]
    exact infidPair_sub_le istl dim ω _ _ _ _ T idIdx S1 _ _ _ _ (hε idx[a]) (hε idx[a])
      (hM idx[a]) (hM' idx[a])
  · rw [infidelityFromCM2_getElem, infidelityFromCM2_getElem]
    exact infidPair_sub_le istl dim ω _ _ _ _ T idIdx S2[a] _ _ _ _ (hε idx[a]) (hε idx[a])
      (hM idx[a]) (hM' idx[a])
  · rw [infidelityFromCM3_getElem, infidelityFromCM3_getElem]
    exact infidPair_sub_le istl dim ω _ _ _ _ T idIdx S3[a][b] _ _ _ _ (hε idx[a]) (hε idx[b])
      (hM idx[a]) (hM' idx[b])

/-- the hypotheses of `infidelity_lipschitz_cm` are satisfiable: a control matrix with entries
`1` and one with entries `1 + 1/10` (`ε = 1/10`, `M = 2`) -/
example : ∃ (B B' : Ten3 ℂ 1 1 2) (ε M : Fin 1 → ℝ),
    (∀ (a : Fin 1) (k : Fin 1) (o : Fin 2), ‖B'[a][k][o] - B[a][k][o]‖ ≤ ε a) ∧
    (∀ (a : Fin 1) (k : Fin 1) (o : Fin 2), ‖B[a][k][o]‖ ≤ M a) ∧
    (∀ (a : Fin 1) (k : Fin 1) (o : Fin 2), ‖B'[a][k][o]‖ ≤ M a) := by
  refine ⟨Vector.ofFn fun _ => Vector.ofFn fun _ => Vector.ofFn fun _ => 1,
    Vector.ofFn fun _ => Vector.ofFn fun _ => Vector.ofFn fun _ => 1 + 1 / 10,
    fun _ => 1 / 10, fun _ => 2, ?_, ?_, ?_⟩ <;>
  · intro a k o
    simp only [Fin.getElem_fin, Vector.getElem_ofFn]
    norm_num

/-- on a sorted grid the factor `absIntegral` of `infidelity_lipschitz_cm` is the code's own
trapezoid `util.integrate(|S|, ω)` -/
theorem absIntegral_is_integrate {nO : Nat} (ω : Vec ℝ nO)
    (hω : ∀ i j : Fin nO, i ≤ j → ω[i] ≤ ω[j]) (S : Vec ℂ nO) :
    absIntegral ω S = integrateR ω (Vector.ofFn fun o => ‖S[o]‖) ∧ 0 ≤ absIntegral ω S :=
  ⟨absIntegral_sorted ω hω S, absIntegral_nonneg ω S⟩

/-- **Scaling law.**  Control matrix `× c`, spectrum `× s` (real factors), frequency grid `÷ lam`:
every infidelity is multiplied by `c² s / lam`; the three spectrum shapes, both branches, every
grid, `lam` of either sign (for `lam = 0` both sides are `0`). -/
theorem infidelity_scaling_law {nA m N nO q : Nat} (istl : Bool) (dim : Nat) (ω : Vec ℝ nO)
    (B B' : Ten3 ℂ nA N nO) (T : Ten4 ℂ N N N N) (idIdx : Vec (Fin N) q) (idx : Vec (Fin nA) m)
    (lam c s : ℝ)
    (hB : ∀ (a : Fin nA) (k : Fin N) (o : Fin nO), B'[a][k][o] = (c : ℂ) * B[a][k][o])
    (S1 S1' : Vec ℂ nO) (S2 S2' : Mat ℂ m nO) (S3 S3' : Ten3 ℂ m m nO)
    (h1 : ∀ o : Fin nO, S1'[o] = (s : ℂ) * S1[o])
    (h2 : ∀ (a : Fin m) (o : Fin nO), S2'[a][o] = (s : ℂ) * S2[a][o])
    (h3 : ∀ (a b : Fin m) (o : Fin nO), S3'[a][b][o] = (s : ℂ) * S3[a][b][o]) (a b : Fin m) :
    (infidelityFromCM1 istl dim (Vector.map (· / lam) ω) B' T idIdx idx S1')[a]
      = c ^ 2 * s / lam * (infidelityFromCM1 istl dim ω B T idIdx idx S1)[a] ∧
    (infidelityFromCM2 istl dim (Vector.map (· / lam) ω) B' T idIdx idx S2')[a]
      = c ^ 2 * s / lam * (infidelityFromCM2 istl dim ω B T idIdx idx S2)[a] ∧
    (infidelityFromCM3 istl dim (Vector.map (· / lam) ω) B' T idIdx idx S3')[a][b]
      = c ^ 2 * s / lam * (infidelityFromCM3 istl dim ω B T idIdx idx S3)[a][b] := by
  refine ⟨?_, ?_, ?_⟩
  · rw [infidelityFromCM1_getElem, infidelityFromCM1_getElem]
    exact infidPair_scale istl dim ω _ _ _ _ T idIdx S1 S1' lam c s (hB idx[a]) (hB idx[a]) h1
  · rw [infidelityFromCM2_getElem, infidelityFromCM2_getElem]
    exact infidPair_scale istl dim ω _ _ _ _ T idIdx S2[a] S2'[a] lam c s (hB idx[a]) (hB idx[a])
      (h2 a)
  · rw [infidelityFromCM3_getElem, infidelityFromCM3_getElem]
    exact infidPair_scale istl dim ω _ _ _ _ T idIdx S3[a][b] S3'[a][b] lam c s (hB idx[a])
      (hB idx[b]) (h3 a b)

/-! ### 2. Re-segmentation, zero-length segments, order of the noise operators (from C13) -/

section FromC13
open FFVerif.C13

variable {nG d nO nA nK m q : Nat} (kind : MaskKind) (thr : ℝ)
  (eigvals : Mat ℝ nG d) (eigvecs props : Vector (Mat ℂ d d) nG)
  (omega : Vec ℝ nO) (basis : Vector (Mat ℂ d d) nK) (nOpers : Vector (Mat ℂ d d) nA)
  (nCoeffs : Mat ℝ nA nG) (dt t : Vec ℝ nG)
  (istl : Bool) (dim : Nat) (T : Ten4 ℂ nK nK nK nK) (idIdx : Vec (Fin nK) q)
  (idx : Vec (Fin nA) m) (S1 : Vec ℂ nO) (S2 : Mat ℂ m nO) (S3 : Ten3 ℂ m m nO)

/-- **Cutting one segment into two leaves the infidelity unchanged (exact branch).**
`infidelityFromCM1/2/3` applied to `controlMatrixFromScratch` of a fine pulse obtained from a
coarse one by `C13.IsSegmentCut` (segment `g₀` cut after `τ₁`, second piece listed at position `p`)
return the same arrays as for the coarse pulse.  Hypotheses as in `C13.cm_split_segment`, at EVERY
frequency of the grid: `V†V = 1` for the eigenvector matrix of the cut segment, `thr ≥ 0`, and for
all `o, i, j` the three entries of `_first_order_integral` at `x = ω_o + λ_i - λ_j` for the
durations `τ₁`, `τ₂`, `τ₁+τ₂` are computed by the closed form (otherwise see
`infidelity_split_segment_error`).  Every guard, both branches of `infidelity`, every `dim`, `T`,
`idIdx`, every selection `idx`, all three spectrum shapes. -/
theorem infidelity_split_segment (hthr : 0 ≤ thr)
    (eigvals' : Mat ℝ (nG + 1) d) (eigvecs' props' : Vector (Mat ℂ d d) (nG + 1))
    (nCoeffs' : Mat ℝ nA (nG + 1)) (dt' t' : Vec ℝ (nG + 1))
    (g₀ : Fin nG) (p : Fin (nG + 1)) (τ₁ τ₂ : ℝ)
    (hcut : IsSegmentCut eigvals eigvecs props nCoeffs dt t eigvals' eigvecs' props' nCoeffs' dt' t'
      g₀ p τ₁ τ₂)
    (hV : (eigvecs[g₀].toMatrix)ᴴ * eigvecs[g₀].toMatrix = 1)
    (hmask : ∀ (o : Fin nO) (i j : Fin d),
      firstOrderMask kind thr (omega[o] + (eigvals[g₀][i] - eigvals[g₀][j])) τ₁ = true ∧
      firstOrderMask kind thr (omega[o] + (eigvals[g₀][i] - eigvals[g₀][j])) τ₂ = true ∧
      firstOrderMask kind thr (omega[o] + (eigvals[g₀][i] - eigvals[g₀][j])) (τ₁ + τ₂) = true) :
    infidelityFromCM1 istl dim omega
        (controlMatrixFromScratch kind thr eigvals' eigvecs' props' omega basis nOpers nCoeffs' dt' t')
        T idIdx idx S1
      = infidelityFromCM1 istl dim omega
        (controlMatrixFromScratch kind thr eigvals eigvecs props omega basis nOpers nCoeffs dt t)
        T idIdx idx S1 ∧
    infidelityFromCM2 istl dim omega
        (controlMatrixFromScratch kind thr eigvals' eigvecs' props' omega basis nOpers nCoeffs' dt' t')
        T idIdx idx S2
      = infidelityFromCM2 istl dim omega
        (controlMatrixFromScratch kind thr eigvals eigvecs props omega basis nOpers nCoeffs dt t)
        T idIdx idx S2 ∧
    infidelityFromCM3 istl dim omega
        (controlMatrixFromScratch kind thr eigvals' eigvecs' props' omega basis nOpers nCoeffs' dt' t')
        T idIdx idx S3
      = infidelityFromCM3 istl dim omega
        (controlMatrixFromScratch kind thr eigvals eigvecs props omega basis nOpers nCoeffs dt t)
        T idIdx idx S3 :=
  infidelity_congr_cm istl dim omega _ _ T idIdx idx idx
    (fun a k o => cm_split_segment kind thr hthr eigvals eigvecs props eigvals' eigvecs' props' omega
      basis nOpers nCoeffs nCoeffs' dt t dt' t' g₀ p τ₁ τ₂ hcut hV idx[a] k o (hmask o)) S1 S2 S3

/-- the mask hypothesis of `infidelity_split_segment` is satisfiable on a whole grid (current guard
and threshold; grid `ω = (1, 3)`, a two-level segment with eigenvalues `(0, 1/2)`, pieces of
durations `1` and `2`): all `x = ω_o + λ_i - λ_j ∈ {1/2, 1, 3/2, 5/2, 3, 7/2}` are far from the
truncated branch.  (`IsSegmentCut` is satisfiable by `C13.isSegmentCut_exists`, `V†V = 1` by the
example in C13.) -/
example : ∀ (o : Fin 2) (i j : Fin 2),
    firstOrderMask .absTimesDtGt (1e-7 : ℝ)
      ((#v[1, 3] : Vec ℝ 2)[o] + ((#v[0, 1 / 2] : Vec ℝ 2)[i] - (#v[0, 1 / 2] : Vec ℝ 2)[j])) 1 = true ∧
    firstOrderMask .absTimesDtGt (1e-7 : ℝ)
      ((#v[1, 3] : Vec ℝ 2)[o] + ((#v[0, 1 / 2] : Vec ℝ 2)[i] - (#v[0, 1 / 2] : Vec ℝ 2)[j])) 2 = true ∧
    firstOrderMask .absTimesDtGt (1e-7 : ℝ)
      ((#v[1, 3] : Vec ℝ 2)[o] + ((#v[0, 1 / 2] : Vec ℝ 2)[i] - (#v[0, 1 / 2] : Vec ℝ 2)[j])) (1 + 2)
        = true := by
  intro o i j
  simp only [firstOrderMask, ropsLt, ropsAbs, decide_eq_true_eq]
  fin_cases o <;> fin_cases i <;> fin_cases j <;>
    simp only [Fin.getElem_fin, Fin.zero_eta, Fin.mk_one, Fin.isValue, Fin.val_zero, Fin.val_one,
      Vector.getElem_mk, List.getElem_toArray, List.getElem_cons_zero, List.getElem_cons_succ] <;>
    norm_num [abs_of_pos]

/-- the entrywise bound of `C13.cm_split_segment_error` for row `a`, basis element `k`:
`2e-7·(τ₁+τ₂)·|s_a^{(g₀)}|·Σ_{ij} |(V†B_aV)_{ij}|·|(W†C_kW)_{ji}|`, `W = Q†V` -/
noncomputable def splitDefectBound (eigvecs props : Vector (Mat ℂ d d) nG)
    (basis : Vector (Mat ℂ d d) nK) (nOpers : Vector (Mat ℂ d d) nA) (nCoeffs : Mat ℝ nA nG)
    (g₀ : Fin nG) (τ₁ τ₂ : ℝ) (a : Fin nA) (k : Fin nK) : ℝ :=
  2e-7 * (τ₁ + τ₂) * |nCoeffs[a][g₀]| *
    ∑ i : Fin d, ∑ j : Fin d,
      ‖((eigvecs[g₀].toMatrix)ᴴ * nOpers[a].toMatrix * eigvecs[g₀].toMatrix) i j‖ *
      ‖(((props[g₀].toMatrix)ᴴ * eigvecs[g₀].toMatrix)ᴴ * basis[k].toMatrix *
        ((props[g₀].toMatrix)ᴴ * eigvecs[g₀].toMatrix)) j i‖

/-- **Cutting one segment into two, code as it is now, both branches of `_first_order_integral`**
(guard and threshold read from the source, `τ₁, τ₂ ≥ 0`, `V†V = 1`; no condition on the
frequencies).  Let `E a` bound `splitDefectBound … a k` for every basis element `k` (e.g. its sum
over `k`, see the example below) and let `M a` bound the entries of row `a` of both control
matrices.  Then the infidelities of the fine and the coarse pulse differ, for every pair `(a, b)`
of selected noise operators, by at most
`(E_a M_b + M_a E_b) · cmWeight · absIntegral ω S_ab / (2π·dim)` (see `infidelity_lipschitz_cm` for
the two factors).  The infidelity is NOT exactly invariant when some entry falls into the truncated
branch (`|x·dt| ≤ 1e-7`), e.g. a frequency grid containing `ω = 0` with degenerate eigenvalues. -/
theorem infidelity_split_segment_error
    (eigvals' : Mat ℝ (nG + 1) d) (eigvecs' props' : Vector (Mat ℂ d d) (nG + 1))
    (nCoeffs' : Mat ℝ nA (nG + 1)) (dt' t' : Vec ℝ (nG + 1))
    (g₀ : Fin nG) (p : Fin (nG + 1)) (τ₁ τ₂ : ℝ)
    (hcut : IsSegmentCut eigvals eigvecs props nCoeffs dt t eigvals' eigvecs' props' nCoeffs' dt' t'
      g₀ p τ₁ τ₂)
    (hV : (eigvecs[g₀].toMatrix)ᴴ * eigvecs[g₀].toMatrix = 1) (h1 : 0 ≤ τ₁) (h2 : 0 ≤ τ₂)
    (E M : Fin nA → ℝ)
    (hE : ∀ (a : Fin nA) (k : Fin nK),
      splitDefectBound eigvecs props basis nOpers nCoeffs g₀ τ₁ τ₂ a k ≤ E a)
    (hM : ∀ (a : Fin nA) (k : Fin nK) (o : Fin nO),
      ‖(controlMatrixFromScratch Gen.firstOrderMaskKind Gen.firstOrderMaskThr eigvals eigvecs props
        omega basis nOpers nCoeffs dt t)[a][k][o]‖ ≤ M a)
    (hM' : ∀ (a : Fin nA) (k : Fin nK) (o : Fin nO),
      ‖(controlMatrixFromScratch Gen.firstOrderMaskKind Gen.firstOrderMaskThr eigvals' eigvecs' props'
        omega basis nOpers nCoeffs' dt' t')[a][k][o]‖ ≤ M a)
    (a b : Fin m) :
    |(infidelityFromCM1 istl dim omega
          (controlMatrixFromScratch Gen.firstOrderMaskKind Gen.firstOrderMaskThr eigvals' eigvecs'
            props' omega basis nOpers nCoeffs' dt' t') T idIdx idx S1)[a]
        - (infidelityFromCM1 istl dim omega
          (controlMatrixFromScratch Gen.firstOrderMaskKind Gen.firstOrderMaskThr eigvals eigvecs
            props omega basis nOpers nCoeffs dt t) T idIdx idx S1)[a]|
      ≤ (E idx[a] * M idx[a] + M idx[a] * E idx[a]) * cmWeight istl dim T q * absIntegral omega S1
          / (2 * Real.pi * (dim : ℝ)) ∧
    |(infidelityFromCM2 istl dim omega
          (controlMatrixFromScratch Gen.firstOrderMaskKind Gen.firstOrderMaskThr eigvals' eigvecs'
            props' omega basis nOpers nCoeffs' dt' t') T idIdx idx S2)[a]
        - (infidelityFromCM2 istl dim omega
          (controlMatrixFromScratch Gen.firstOrderMaskKind Gen.firstOrderMaskThr eigvals eigvecs
            props omega basis nOpers nCoeffs dt t) T idIdx idx S2)[a]|
      ≤ (E idx[a] * M idx[a] + M idx[a] * E idx[a]) * cmWeight istl dim T q
          * absIntegral omega S2[a] / (2 * Real.pi * (dim : ℝ)) ∧
    |(infidelityFromCM3 istl dim omega
          (controlMatrixFromScratch Gen.firstOrderMaskKind Gen.firstOrderMaskThr eigvals' eigvecs'
            props' omega basis nOpers nCoeffs' dt' t') T idIdx idx S3)[a][b]
        - (infidelityFromCM3 istl dim omega
          (controlMatrixFromScratch Gen.firstOrderMaskKind Gen.firstOrderMaskThr eigvals eigvecs
            props omega basis nOpers nCoeffs dt t) T idIdx idx S3)[a][b]|
      ≤ (E idx[a] * M idx[b] + M idx[a] * E idx[b]) * cmWeight istl dim T q
          * absIntegral omega S3[a][b] / (2 * Real.pi * (dim : ℝ)) :=
  infidelity_lipschitz_cm istl dim omega _ _ T idIdx idx E M
    (fun a k o => (cm_split_segment_error eigvals eigvecs props eigvals' eigvecs' props' omega basis
      nOpers nCoeffs nCoeffs' dt t dt' t' g₀ p τ₁ τ₂ hcut hV h1 h2 a k o).trans (hE a k))
    hM hM' S1 S2 S3 a b

/-- the hypothesis `hE` of `infidelity_split_segment_error` is satisfied by the sum over the basis
elements of the entrywise bounds (`IsSegmentCut` itself is satisfiable by `C13.isSegmentCut_exists`) -/
example (g₀ : Fin nG) (τ₁ τ₂ : ℝ) (h1 : 0 ≤ τ₁) (h2 : 0 ≤ τ₂) (a : Fin nA) (k : Fin nK) :
    splitDefectBound eigvecs props basis nOpers nCoeffs g₀ τ₁ τ₂ a k
      ≤ ∑ k' : Fin nK, splitDefectBound eigvecs props basis nOpers nCoeffs g₀ τ₁ τ₂ a k' := by
  refine Finset.single_le_sum (f := fun k' => splitDefectBound eigvecs props basis nOpers nCoeffs
    g₀ τ₁ τ₂ a k') (fun k' _ => ?_) (Finset.mem_univ k)
  unfold splitDefectBound
  have : (0 : ℝ) ≤ τ₁ + τ₂ := add_nonneg h1 h2
  positivity

/-- **A zero-length segment does not contribute to the infidelity.**  Two pulses that agree on
every segment except `g₀`, where both have `dt = 0` (all other data of that segment arbitrary and
possibly different), give the same `infidelityFromCM1/2/3`; every guard, both branches of the
integral and of `infidelity`, all spectrum shapes (hypotheses of `C13.cm_zero_dt_segment`). -/
theorem infidelity_zero_dt_segment
    (eigvals' : Mat ℝ nG d) (eigvecs' props' : Vector (Mat ℂ d d) nG)
    (nCoeffs' : Mat ℝ nA nG) (dt' t' : Vec ℝ nG) (g₀ : Fin nG)
    (h0 : dt[g₀] = 0) (h0' : dt'[g₀] = 0)
    (hag : ∀ g : Fin nG, g ≠ g₀ → eigvals'[g] = eigvals[g] ∧ eigvecs'[g] = eigvecs[g] ∧
      props'[g] = props[g] ∧ (∀ a : Fin nA, nCoeffs'[a][g] = nCoeffs[a][g]) ∧ dt'[g] = dt[g] ∧
      t'[g] = t[g]) :
    infidelityFromCM1 istl dim omega
        (controlMatrixFromScratch kind thr eigvals' eigvecs' props' omega basis nOpers nCoeffs' dt' t')
        T idIdx idx S1
      = infidelityFromCM1 istl dim omega
        (controlMatrixFromScratch kind thr eigvals eigvecs props omega basis nOpers nCoeffs dt t)
        T idIdx idx S1 ∧
    infidelityFromCM2 istl dim omega
        (controlMatrixFromScratch kind thr eigvals' eigvecs' props' omega basis nOpers nCoeffs' dt' t')
        T idIdx idx S2
      = infidelityFromCM2 istl dim omega
        (controlMatrixFromScratch kind thr eigvals eigvecs props omega basis nOpers nCoeffs dt t)
        T idIdx idx S2 ∧
    infidelityFromCM3 istl dim omega
        (controlMatrixFromScratch kind thr eigvals' eigvecs' props' omega basis nOpers nCoeffs' dt' t')
        T idIdx idx S3
      = infidelityFromCM3 istl dim omega
        (controlMatrixFromScratch kind thr eigvals eigvecs props omega basis nOpers nCoeffs dt t)
        T idIdx idx S3 :=
  infidelity_congr_cm istl dim omega _ _ T idIdx idx idx
    (fun a k o => cm_zero_dt_segment kind thr eigvals eigvals' eigvecs eigvecs' props props' omega
      basis nOpers nCoeffs nCoeffs' dt dt' t t' g₀ h0 h0' hag idx[a] k o) S1 S2 S3

/-- **Dropping zero-length segments / re-listing the segments leaves the infidelity unchanged.**
`ι` embeds the segments of a shorter list into a longer one such that every segment that is not hit
has `dt = 0`; the short pulse carries the data of the long one along `ι` (hypotheses of
`C13.cm_drop_zero_segments`; with `ι` a bijection: listing the segments, each with its own start
time and cumulative propagator, in a different order). -/
theorem infidelity_drop_zero_segments {nG' : Nat} (ι : Fin nG' → Fin nG)
    (hι : Function.Injective ι) (h0 : ∀ g : Fin nG, (∀ g', ι g' ≠ g) → dt[g] = 0) :
    infidelityFromCM1 istl dim omega
        (controlMatrixFromScratch kind thr (Vector.ofFn fun g' => eigvals[ι g'])
          (Vector.ofFn fun g' => eigvecs[ι g']) (Vector.ofFn fun g' => props[ι g']) omega basis nOpers
          (Mat.ofFn fun a g' => nCoeffs[a][ι g']) (Vector.ofFn fun g' => dt[ι g'])
          (Vector.ofFn fun g' => t[ι g'])) T idIdx idx S1
      = infidelityFromCM1 istl dim omega
        (controlMatrixFromScratch kind thr eigvals eigvecs props omega basis nOpers nCoeffs dt t)
        T idIdx idx S1 ∧
    infidelityFromCM2 istl dim omega
        (controlMatrixFromScratch kind thr (Vector.ofFn fun g' => eigvals[ι g'])
          (Vector.ofFn fun g' => eigvecs[ι g']) (Vector.ofFn fun g' => props[ι g']) omega basis nOpers
          (Mat.ofFn fun a g' => nCoeffs[a][ι g']) (Vector.ofFn fun g' => dt[ι g'])
          (Vector.ofFn fun g' => t[ι g'])) T idIdx idx S2
      = infidelityFromCM2 istl dim omega
        (controlMatrixFromScratch kind thr eigvals eigvecs props omega basis nOpers nCoeffs dt t)
        T idIdx idx S2 ∧
    infidelityFromCM3 istl dim omega
        (controlMatrixFromScratch kind thr (Vector.ofFn fun g' => eigvals[ι g'])
          (Vector.ofFn fun g' => eigvecs[ι g']) (Vector.ofFn fun g' => props[ι g']) omega basis nOpers
          (Mat.ofFn fun a g' => nCoeffs[a][ι g']) (Vector.ofFn fun g' => dt[ι g'])
          (Vector.ofFn fun g' => t[ι g'])) T idIdx idx S3
      = infidelityFromCM3 istl dim omega
        (controlMatrixFromScratch kind thr eigvals eigvecs props omega basis nOpers nCoeffs dt t)
        T idIdx idx S3 :=
  infidelity_congr_cm istl dim omega _ _ T idIdx idx idx
    (fun a k o => cm_drop_zero_segments kind thr eigvals eigvecs props omega basis nOpers nCoeffs dt t
      ι hι h0 idx[a] k o) S1 S2 S3

/-- **Re-ordering / selecting the noise operators re-indexes the infidelity.**  Listing the noise
operators and their sensitivity rows along an index map `σ` (a permutation, a sub-selection,
repetitions) and selecting `idx'` from the new list gives the same `infidelityFromCM1/2/3` as
selecting `σ ∘ idx'` from the original list (same spectra: the spectrum arrays are indexed by the
position in the selection). -/
theorem infidelity_perm_opers {nA' : Nat} (σ : Fin nA' → Fin nA) (idx' : Vec (Fin nA') m) :
    infidelityFromCM1 istl dim omega
        (controlMatrixFromScratch kind thr eigvals eigvecs props omega basis
          (Vector.ofFn fun a' => nOpers[σ a']) (Vector.ofFn fun a' => nCoeffs[σ a']) dt t)
        T idIdx idx' S1
      = infidelityFromCM1 istl dim omega
        (controlMatrixFromScratch kind thr eigvals eigvecs props omega basis nOpers nCoeffs dt t)
        T idIdx (Vector.ofFn fun a => σ idx'[a]) S1 ∧
    infidelityFromCM2 istl dim omega
        (controlMatrixFromScratch kind thr eigvals eigvecs props omega basis
          (Vector.ofFn fun a' => nOpers[σ a']) (Vector.ofFn fun a' => nCoeffs[σ a']) dt t)
        T idIdx idx' S2
      = infidelityFromCM2 istl dim omega
        (controlMatrixFromScratch kind thr eigvals eigvecs props omega basis nOpers nCoeffs dt t)
        T idIdx (Vector.ofFn fun a => σ idx'[a]) S2 ∧
    infidelityFromCM3 istl dim omega
        (controlMatrixFromScratch kind thr eigvals eigvecs props omega basis
          (Vector.ofFn fun a' => nOpers[σ a']) (Vector.ofFn fun a' => nCoeffs[σ a']) dt t)
        T idIdx idx' S3
      = infidelityFromCM3 istl dim omega
        (controlMatrixFromScratch kind thr eigvals eigvecs props omega basis nOpers nCoeffs dt t)
        T idIdx (Vector.ofFn fun a => σ idx'[a]) S3 :=
  infidelity_congr_cm istl dim omega _ _ T idIdx (Vector.ofFn fun a => σ idx'[a]) idx'
    (fun a k o => by
      simp only [InvAux.vec_ofFn_get]
      exact cm_perm_opers kind thr eigvals eigvecs props omega basis nOpers nCoeffs dt t σ idx'[a] k o)
    S1 S2 S3

/-- **Permuting the noise operators permutes the entries of the infidelity vector / matrix**
(all operators selected, `n_oper_identifiers=None`, i.e. `idx = Vector.ofFn id` on both sides):
with the operators listed along `σ` and the spectra listed accordingly (`S2'[a] = S2[σ a]`,
`S3'[a][b] = S3[σ a][σ b]`, one common spectrum `S1`), entry `a` resp. `(a, b)` of the new result
is entry `σ a` resp. `(σ a, σ b)` of the original one. -/
theorem infidelity_perm_opers_entries {nA' : Nat} (σ : Fin nA' → Fin nA)
    (S2 : Mat ℂ nA nO) (S2' : Mat ℂ nA' nO) (hS2 : ∀ a : Fin nA', S2'[a] = S2[σ a])
    (S3 : Ten3 ℂ nA nA nO) (S3' : Ten3 ℂ nA' nA' nO)
    (hS3 : ∀ a b : Fin nA', S3'[a][b] = S3[σ a][σ b]) (a b : Fin nA') :
    (infidelityFromCM1 istl dim omega
        (controlMatrixFromScratch kind thr eigvals eigvecs props omega basis
          (Vector.ofFn fun a' => nOpers[σ a']) (Vector.ofFn fun a' => nCoeffs[σ a']) dt t)
        T idIdx (Vector.ofFn id) S1)[a]
      = (infidelityFromCM1 istl dim omega
        (controlMatrixFromScratch kind thr eigvals eigvecs props omega basis nOpers nCoeffs dt t)
        T idIdx (Vector.ofFn id) S1)[σ a] ∧
    (infidelityFromCM2 istl dim omega
        (controlMatrixFromScratch kind thr eigvals eigvecs props omega basis
          (Vector.ofFn fun a' => nOpers[σ a']) (Vector.ofFn fun a' => nCoeffs[σ a']) dt t)
        T idIdx (Vector.ofFn id) S2')[a]
      = (infidelityFromCM2 istl dim omega
        (controlMatrixFromScratch kind thr eigvals eigvecs props omega basis nOpers nCoeffs dt t)
        T idIdx (Vector.ofFn id) S2)[σ a] ∧
    (infidelityFromCM3 istl dim omega
        (controlMatrixFromScratch kind thr eigvals eigvecs props omega basis
          (Vector.ofFn fun a' => nOpers[σ a']) (Vector.ofFn fun a' => nCoeffs[σ a']) dt t)
        T idIdx (Vector.ofFn id) S3')[a][b]
      = (infidelityFromCM3 istl dim omega
        (controlMatrixFromScratch kind thr eigvals eigvecs props omega basis nOpers nCoeffs dt t)
        T idIdx (Vector.ofFn id) S3)[σ a][σ b] := by
  have hrow : ∀ a : Fin nA',
      (controlMatrixFromScratch kind thr eigvals eigvecs props omega basis
        (Vector.ofFn fun a' => nOpers[σ a']) (Vector.ofFn fun a' => nCoeffs[σ a']) dt t)[a]
      = (controlMatrixFromScratch kind thr eigvals eigvecs props omega basis nOpers nCoeffs dt t)[σ a] :=
    fun a => mat_ext_fin fun k o =>
      cm_perm_opers kind thr eigvals eigvecs props omega basis nOpers nCoeffs dt t σ a k o
  have hid : ∀ (n : Nat) (i : Fin n), (Vector.ofFn id : Vec (Fin n) n)[i] = i := fun n i =>
    InvAux.vec_ofFn_get _ i
  refine ⟨?_, ?_, ?_⟩
  · rw [infidelityFromCM1_getElem, infidelityFromCM1_getElem]
    simp only [hid]
    rw [hrow]
  · rw [infidelityFromCM2_getElem, infidelityFromCM2_getElem]
    simp only [hid]
    rw [hrow, hS2]
  · rw [infidelityFromCM3_getElem, infidelityFromCM3_getElem]
    simp only [hid]
    rw [hrow, hrow, hS3]

end FromC13

/-! ### 3. Energy zero, reference frame, operator basis (from C12) -/

section FromC12
open FFVerif.C12 FFVerif.C13

variable {nG d nO nA nK m q : Nat} (kind : MaskKind) (thr : ℝ)
  (eigvals : Mat ℝ nG d) (eigvecs props : Vector (Mat ℂ d d) nG)
  (omega : Vec ℝ nO) (basis : Vector (Mat ℂ d d) nK) (nOpers : Vector (Mat ℂ d d) nA)
  (nCoeffs : Mat ℝ nA nG) (dt t : Vec ℝ nG)
  (istl : Bool) (dim : Nat) (T : Ten4 ℂ nK nK nK nK) (idIdx : Vec (Fin nK) q)
  (idx : Vec (Fin nA) m) (S1 : Vec ℂ nO) (S2 : Mat ℂ m nO) (S3 : Ten3 ℂ m m nO)

/-- **The infidelity does not depend on the energy zero** (adding real multiples `c g` of the
identity to the control Hamiltonian of segment `g`): with all eigenvalues of segment `g` shifted by
`c g` and the cumulative propagator `props[g]` multiplied by a scalar `u g` of modulus one
(hypotheses of `C12.cm_energy_offset`), `infidelityFromCM1/2/3` are unchanged; every guard, both
branches of the integral and of `infidelity`, all spectrum shapes. -/
theorem infidelity_energy_offset (c : Fin nG → ℝ) (u : Fin nG → ℂ) (hu : ∀ g, ‖u g‖ = 1) :
    infidelityFromCM1 istl dim omega
        (controlMatrixFromScratch kind thr (Vector.ofFn fun g => Vector.map (· + c g) eigvals[g])
          eigvecs (Vector.ofFn fun g => Mat.smul (u g) props[g]) omega basis nOpers nCoeffs dt t)
        T idIdx idx S1
      = infidelityFromCM1 istl dim omega
        (controlMatrixFromScratch kind thr eigvals eigvecs props omega basis nOpers nCoeffs dt t)
        T idIdx idx S1 ∧
    infidelityFromCM2 istl dim omega
        (controlMatrixFromScratch kind thr (Vector.ofFn fun g => Vector.map (· + c g) eigvals[g])
          eigvecs (Vector.ofFn fun g => Mat.smul (u g) props[g]) omega basis nOpers nCoeffs dt t)
        T idIdx idx S2
      = infidelityFromCM2 istl dim omega
        (controlMatrixFromScratch kind thr eigvals eigvecs props omega basis nOpers nCoeffs dt t)
        T idIdx idx S2 ∧
    infidelityFromCM3 istl dim omega
        (controlMatrixFromScratch kind thr (Vector.ofFn fun g => Vector.map (· + c g) eigvals[g])
          eigvecs (Vector.ofFn fun g => Mat.smul (u g) props[g]) omega basis nOpers nCoeffs dt t)
        T idIdx idx S3
      = infidelityFromCM3 istl dim omega
        (controlMatrixFromScratch kind thr eigvals eigvecs props omega basis nOpers nCoeffs dt t)
        T idIdx idx S3 :=
  infidelity_congr_cm istl dim omega _ _ T idIdx idx idx
    (fun a k o => cm_energy_offset kind thr eigvals eigvecs props omega basis nOpers nCoeffs dt t c u
      hu idx[a] k o) S1 S2 S3

/-- **The infidelity does not depend on the reference frame.**  Conjugating eigenvectors
(`V ↦ W V`), cumulative propagators, noise operators and basis elements (`X ↦ W X W†`) by one
isometry `W` (`W†W = 1`, i.e. a unitary) leaves `infidelityFromCM1/2/3` unchanged, where on the
left the trace tensor is the one of the conjugated basis (`Model.fourElementTraces`, i.e.
`basis.four_element_traces`, which is shown to be the same array) and `idIdx` is the same on both
sides (an element `c·1` stays `c·1` under conjugation, see `frame_identity_element`).  Every guard,
both branches, all spectrum shapes. -/
theorem infidelity_frame_independent (W : Mat ℂ d d) (hW : (W.toMatrix)ᴴ * W.toMatrix = 1) :
    infidelityFromCM1 istl dim omega
        (controlMatrixFromScratch kind thr eigvals (Vector.map (fun V => Mat.mul W V) eigvecs)
          (Vector.map (fun Q => Mat.mul (Mat.mul W Q) (Mat.adjoint W)) props) omega
          (Vector.map (fun C => Mat.mul (Mat.mul W C) (Mat.adjoint W)) basis)
          (Vector.map (fun B => Mat.mul (Mat.mul W B) (Mat.adjoint W)) nOpers) nCoeffs dt t)
        (fourElementTraces (Vector.map (fun C => Mat.mul (Mat.mul W C) (Mat.adjoint W)) basis))
        idIdx idx S1
      = infidelityFromCM1 istl dim omega
        (controlMatrixFromScratch kind thr eigvals eigvecs props omega basis nOpers nCoeffs dt t)
        (fourElementTraces basis) idIdx idx S1 ∧
    infidelityFromCM2 istl dim omega
        (controlMatrixFromScratch kind thr eigvals (Vector.map (fun V => Mat.mul W V) eigvecs)
          (Vector.map (fun Q => Mat.mul (Mat.mul W Q) (Mat.adjoint W)) props) omega
          (Vector.map (fun C => Mat.mul (Mat.mul W C) (Mat.adjoint W)) basis)
          (Vector.map (fun B => Mat.mul (Mat.mul W B) (Mat.adjoint W)) nOpers) nCoeffs dt t)
        (fourElementTraces (Vector.map (fun C => Mat.mul (Mat.mul W C) (Mat.adjoint W)) basis))
        idIdx idx S2
      = infidelityFromCM2 istl dim omega
        (controlMatrixFromScratch kind thr eigvals eigvecs props omega basis nOpers nCoeffs dt t)
        (fourElementTraces basis) idIdx idx S2 ∧
    infidelityFromCM3 istl dim omega
        (controlMatrixFromScratch kind thr eigvals (Vector.map (fun V => Mat.mul W V) eigvecs)
          (Vector.map (fun Q => Mat.mul (Mat.mul W Q) (Mat.adjoint W)) props) omega
          (Vector.map (fun C => Mat.mul (Mat.mul W C) (Mat.adjoint W)) basis)
          (Vector.map (fun B => Mat.mul (Mat.mul W B) (Mat.adjoint W)) nOpers) nCoeffs dt t)
        (fourElementTraces (Vector.map (fun C => Mat.mul (Mat.mul W C) (Mat.adjoint W)) basis))
        idIdx idx S3
      = infidelityFromCM3 istl dim omega
        (controlMatrixFromScratch kind thr eigvals eigvecs props omega basis nOpers nCoeffs dt t)
        (fourElementTraces basis) idIdx idx S3 := by
  rw [fourElementTraces_conj W hW basis]
  exact infidelity_congr_cm istl dim omega _ _ (fourElementTraces basis) idIdx idx idx
    (fun a k o => cm_frame_covariance kind thr eigvals eigvecs props omega basis nOpers nCoeffs dt t W
      hW idx[a] k o) S1 S2 S3

/-- the same with the trace data passed unchanged (any `T`, in particular when `T` is not used:
`istl = true`) -/
theorem infidelity_frame_independent' (W : Mat ℂ d d) (hW : (W.toMatrix)ᴴ * W.toMatrix = 1) :
    infidelityFromCM1 istl dim omega
        (controlMatrixFromScratch kind thr eigvals (Vector.map (fun V => Mat.mul W V) eigvecs)
          (Vector.map (fun Q => Mat.mul (Mat.mul W Q) (Mat.adjoint W)) props) omega
          (Vector.map (fun C => Mat.mul (Mat.mul W C) (Mat.adjoint W)) basis)
          (Vector.map (fun B => Mat.mul (Mat.mul W B) (Mat.adjoint W)) nOpers) nCoeffs dt t)
        T idIdx idx S1
      = infidelityFromCM1 istl dim omega
        (controlMatrixFromScratch kind thr eigvals eigvecs props omega basis nOpers nCoeffs dt t)
        T idIdx idx S1 ∧
    infidelityFromCM2 istl dim omega
        (controlMatrixFromScratch kind thr eigvals (Vector.map (fun V => Mat.mul W V) eigvecs)
          (Vector.map (fun Q => Mat.mul (Mat.mul W Q) (Mat.adjoint W)) props) omega
          (Vector.map (fun C => Mat.mul (Mat.mul W C) (Mat.adjoint W)) basis)
          (Vector.map (fun B => Mat.mul (Mat.mul W B) (Mat.adjoint W)) nOpers) nCoeffs dt t)
        T idIdx idx S2
      = infidelityFromCM2 istl dim omega
        (controlMatrixFromScratch kind thr eigvals eigvecs props omega basis nOpers nCoeffs dt t)
        T idIdx idx S2 ∧
    infidelityFromCM3 istl dim omega
        (controlMatrixFromScratch kind thr eigvals (Vector.map (fun V => Mat.mul W V) eigvecs)
          (Vector.map (fun Q => Mat.mul (Mat.mul W Q) (Mat.adjoint W)) props) omega
          (Vector.map (fun C => Mat.mul (Mat.mul W C) (Mat.adjoint W)) basis)
          (Vector.map (fun B => Mat.mul (Mat.mul W B) (Mat.adjoint W)) nOpers) nCoeffs dt t)
        T idIdx idx S3
      = infidelityFromCM3 istl dim omega
        (controlMatrixFromScratch kind thr eigvals eigvecs props omega basis nOpers nCoeffs dt t)
        T idIdx idx S3 :=
  infidelity_congr_cm istl dim omega _ _ T idIdx idx idx
    (fun a k o => cm_frame_covariance kind thr eigvals eigvecs props omega basis nOpers nCoeffs dt t W
      hW idx[a] k o) S1 S2 S3

/-- the trace data of `infidelity_frame_independent`: the trace tensor of the conjugated basis is
the trace tensor of the basis, and an element of the basis that is `c·1` is still `c·1` after
conjugation (so `_identity_element_index` sees the same elements) -/
theorem frame_identity_element (W : Mat ℂ d d) (hW : (W.toMatrix)ᴴ * W.toMatrix = 1) :
    fourElementTraces (Vector.map (fun C => Mat.mul (Mat.mul W C) (Mat.adjoint W)) basis)
      = fourElementTraces basis ∧
    ∀ (k : Fin nK) (c : ℂ), basis[k].toMatrix = c • (1 : Matrix (Fin d) (Fin d) ℂ) →
      (Vector.map (fun C => Mat.mul (Mat.mul W C) (Mat.adjoint W)) basis)[k].toMatrix
        = c • (1 : Matrix (Fin d) (Fin d) ℂ) := by
  refine ⟨fourElementTraces_conj W hW basis, fun k c h => ?_⟩
  rw [InvAux.vec_map_get]
  exact conj_identity_element W hW _ c h

/-- **Traceless noise operators: the identity element of the basis is irrelevant.**  If the basis
element `k0` is `c·1`, the eigenvector matrices and cumulative propagators are unitary and the
SELECTED noise operators are traceless, the rows `B[a][k0]` of the control matrix vanish
(`Model.cm_identity_row_traceless`), so the traceless branch returns the same arrays whether
`_identity_element_index` reports `[k0]` or nothing.  Combined with
`infidelity_basis_change_traceless` for `q = 0` this gives basis independence of the traceless
branch for traceless noise operators without any assumption on identity elements. -/
theorem infidelity_traceless_noise_opers (k0 : Fin nK) (c : ℂ)
    (h0 : basis[k0].toMatrix = c • (1 : Matrix (Fin d) (Fin d) ℂ))
    (hV : ∀ g : Fin nG, (eigvecs[g].toMatrix)ᴴ * eigvecs[g].toMatrix = 1)
    (hQ : ∀ g : Fin nG, (props[g].toMatrix)ᴴ * props[g].toMatrix = 1)
    (htr : ∀ a : Fin m, trace nOpers[idx[a]].toMatrix = 0) :
    infidelityFromCM1 true dim omega
        (controlMatrixFromScratch kind thr eigvals eigvecs props omega basis nOpers nCoeffs dt t)
        T #v[k0] idx S1
      = infidelityFromCM1 true dim omega
        (controlMatrixFromScratch kind thr eigvals eigvecs props omega basis nOpers nCoeffs dt t)
        T (#v[] : Vec (Fin nK) 0) idx S1 ∧
    infidelityFromCM2 true dim omega
        (controlMatrixFromScratch kind thr eigvals eigvecs props omega basis nOpers nCoeffs dt t)
        T #v[k0] idx S2
      = infidelityFromCM2 true dim omega
        (controlMatrixFromScratch kind thr eigvals eigvecs props omega basis nOpers nCoeffs dt t)
        T (#v[] : Vec (Fin nK) 0) idx S2 ∧
    infidelityFromCM3 true dim omega
        (controlMatrixFromScratch kind thr eigvals eigvecs props omega basis nOpers nCoeffs dt t)
        T #v[k0] idx S3
      = infidelityFromCM3 true dim omega
        (controlMatrixFromScratch kind thr eigvals eigvecs props omega basis nOpers nCoeffs dt t)
        T (#v[] : Vec (Fin nK) 0) idx S3 := by
  refine infidelity_of_ffPair_eq true true dim omega _ _ T T (#v[] : Vec (Fin nK) 0) #v[k0] idx idx
    (fun a b => vec_ext_fin fun o => ?_) S1 S2 S3
  rw [ffPair_true_getElem, ffPair_true_getElem]
  congr 1
  rw [Fin.sum_univ_one]
  simp only [Finset.univ_eq_empty, Finset.sum_empty]
  have h := cm_identity_row_traceless kind thr eigvals eigvecs props omega basis nOpers nCoeffs dt t k0
    c h0 hV hQ idx[a] (htr a) o
  show starRingEnd ℂ (controlMatrixFromScratch kind thr eigvals eigvecs props omega basis nOpers
      nCoeffs dt t)[idx[a]][k0][o]
    * (controlMatrixFromScratch kind thr eigvals eigvecs props omega basis nOpers
      nCoeffs dt t)[idx[b]][k0][o] = 0
  rw [h, map_zero, zero_mul]

end FromC12

/-! ### Operator basis -/

section Basis
open FFVerif.C12

variable {nG d nO nA N N' m : Nat} (kind : MaskKind) (thr : ℝ)
  (eigvals : Mat ℝ nG d) (eigvecs props : Vector (Mat ℂ d d) nG)
  (omega : Vec ℝ nO) (basis : Vector (Mat ℂ d d) N) (basis' : Vector (Mat ℂ d d) N')
  (nOpers : Vector (Mat ℂ d d) nA) (nCoeffs : Mat ℝ nA nG) (dt t : Vec ℝ nG)
  (idx : Vec (Fin nA) m) (S1 : Vec ℂ nO) (S2 : Mat ℂ m nO) (S3 : Ten3 ℂ m m nO)

/-- **Basis independence, trace-tensor branch** (`not basis.istraceless`, `pulse.d = d` the matrix
dimension).  For ANY two complete orthonormal Hermitian operator bases (`Spec.IsComplete`,
`Spec.IsOrthoHerm`; traceless or not, with or without an identity element, in any order) the
infidelities computed by the trace-tensor branch — control matrix w.r.t. the basis, trace tensor
`basis.four_element_traces` of the same basis — coincide; every guard, both branches of the
integral, every selection, all spectrum shapes.  Precisely what is used: `traces_diag` of a complete
orthonormal Hermitian basis is `d δ_kl - tr C_k tr C_l`, the traces are real, the coefficients
`O_kl = tr(C'_k C_l)` relating the bases form an isometry, and control matrix and traces transform
with `O` (`C12.cm_basis_change`).  (`idIdx`, `idIdx'` are not used by this branch.) -/
theorem infidelity_basis_independent {q q' : Nat}
    (hC : Spec.IsComplete (Spec.basisOf basis)) (hH : Spec.IsOrthoHerm (Spec.basisOf basis))
    (hC' : Spec.IsComplete (Spec.basisOf basis')) (hH' : Spec.IsOrthoHerm (Spec.basisOf basis'))
    (idIdx : Vec (Fin N) q) (idIdx' : Vec (Fin N') q') :
    infidelityFromCM1 false d omega
        (controlMatrixFromScratch kind thr eigvals eigvecs props omega basis' nOpers nCoeffs dt t)
        (fourElementTraces basis') idIdx' idx S1
      = infidelityFromCM1 false d omega
        (controlMatrixFromScratch kind thr eigvals eigvecs props omega basis nOpers nCoeffs dt t)
        (fourElementTraces basis) idIdx idx S1 ∧
    infidelityFromCM2 false d omega
        (controlMatrixFromScratch kind thr eigvals eigvecs props omega basis' nOpers nCoeffs dt t)
        (fourElementTraces basis') idIdx' idx S2
      = infidelityFromCM2 false d omega
        (controlMatrixFromScratch kind thr eigvals eigvecs props omega basis nOpers nCoeffs dt t)
        (fourElementTraces basis) idIdx idx S2 ∧
    infidelityFromCM3 false d omega
        (controlMatrixFromScratch kind thr eigvals eigvecs props omega basis' nOpers nCoeffs dt t)
        (fourElementTraces basis') idIdx' idx S3
      = infidelityFromCM3 false d omega
        (controlMatrixFromScratch kind thr eigvals eigvecs props omega basis nOpers nCoeffs dt t)
        (fourElementTraces basis) idIdx idx S3 := by
  obtain ⟨hO, hiso⟩ := Spec.basis_transition (Spec.basisOf basis) (Spec.basisOf basis') hC hH hC' hH'
  have hreal : ∀ {n : Nat} (C : Fin n → Matrix (Fin d) (Fin d) ℂ), Spec.IsOrthoHerm C →
      ∀ l, starRingEnd ℂ (trace (C l)) = trace (C l) := by
    intro n C h l
    rw [starRingEnd_apply, ← trace_conjTranspose, h.herm]
  refine infidelity_of_ffPair_eq false false d omega _ _ _ _ idIdx idIdx' idx idx (fun a b => ?_)
    S1 S2 S3
  refine ffPair_false_basis d _ _ _ _ _ _ idIdx idIdx' _ hiso
    (fun k o => cm_basis_change kind thr eigvals eigvecs props omega basis basis' nOpers nCoeffs dt t
      _ hO idx[a] k o)
    (fun k o => cm_basis_change kind thr eigvals eigvecs props omega basis basis' nOpers nCoeffs dt t
      _ hO idx[b] k o)
    (fun l => trace (Spec.basisOf basis l)) (fun k => trace (Spec.basisOf basis' k)) (fun k => ?_)
    (hreal _ hH) (hreal _ hH')
    (fun k l => tracesDiag_fourElementTraces basis hC hH k l)
    (fun k l => tracesDiag_fourElementTraces basis' hC' hH' k l)
  conv_lhs => rw [hO k]
  rw [trace_sum]
  exact Finset.sum_congr rfl fun l _ => by rw [trace_smul, smul_eq_mul]

/-- **Change of basis, traceless branch** (`basis.istraceless`), general form.  The new basis
elements are combinations `C'_k = Σ_l O_kl C_l` of the old ones with `O†O = 1` (bases complete or
not, `N' ≥ N`), both `_identity_element_index` outputs have the same length `q` and the listed
elements correspond up to factors of modulus one (`C'_{idIdx'[r]} = z_r C_{idIdx[r]}`, `|z_r| = 1`;
vacuous for `q = 0`, i.e. no identity element on either side).  Then `infidelityFromCM1/2/3` of the
traceless branch coincide: the fidelity filter function is basis independent
(`C12.ff_basis_independent`) and the subtracted identity-element term
`Σ_r conj(B_{a,idIdx[r]}) B_{b,idIdx[r]}` is itself unchanged.  `T`, `T'`, `dim` arbitrary (`T` is
not used by this branch). -/
theorem infidelity_basis_change_traceless {q : Nat} (dim : Nat)
    (T : Ten4 ℂ N N N N) (T' : Ten4 ℂ N' N' N' N')
    (O : Matrix (Fin N') (Fin N) ℂ)
    (hO : ∀ k : Fin N', basis'[k].toMatrix = ∑ l : Fin N, O k l • basis[l].toMatrix)
    (hiso : Oᴴ * O = 1)
    (idIdx : Vec (Fin N) q) (idIdx' : Vec (Fin N') q) (z : Fin q → ℂ) (hz : ∀ r, ‖z r‖ = 1)
    (hid : ∀ r : Fin q, basis'[idIdx'[r]].toMatrix = z r • basis[idIdx[r]].toMatrix) :
    infidelityFromCM1 true dim omega
        (controlMatrixFromScratch kind thr eigvals eigvecs props omega basis' nOpers nCoeffs dt t)
        T' idIdx' idx S1
      = infidelityFromCM1 true dim omega
        (controlMatrixFromScratch kind thr eigvals eigvecs props omega basis nOpers nCoeffs dt t)
        T idIdx idx S1 ∧
    infidelityFromCM2 true dim omega
        (controlMatrixFromScratch kind thr eigvals eigvecs props omega basis' nOpers nCoeffs dt t)
        T' idIdx' idx S2
      = infidelityFromCM2 true dim omega
        (controlMatrixFromScratch kind thr eigvals eigvecs props omega basis nOpers nCoeffs dt t)
        T idIdx idx S2 ∧
    infidelityFromCM3 true dim omega
        (controlMatrixFromScratch kind thr eigvals eigvecs props omega basis' nOpers nCoeffs dt t)
        T' idIdx' idx S3
      = infidelityFromCM3 true dim omega
        (controlMatrixFromScratch kind thr eigvals eigvecs props omega basis nOpers nCoeffs dt t)
        T idIdx idx S3 := by
  refine infidelity_of_ffPair_eq true true dim omega _ _ T T' idIdx idIdx' idx idx (fun a b => ?_)
    S1 S2 S3
  refine ffPair_true_basis dim dim _ _ _ _ T T' idIdx idIdx' O hiso
    (fun k o => cm_basis_change kind thr eigvals eigvecs props omega basis basis' nOpers nCoeffs dt t
      O hO idx[a] k o)
    (fun k o => cm_basis_change kind thr eigvals eigvecs props omega basis basis' nOpers nCoeffs dt t
      O hO idx[b] k o) (fun o => Finset.sum_congr rfl fun r _ => ?_)
  rw [cm_row_smul kind thr eigvals eigvecs props omega basis basis' nOpers nCoeffs dt t idIdx[r]
      idIdx'[r] (z r) (hid r) idx[a] o,
    cm_row_smul kind thr eigvals eigvecs props omega basis basis' nOpers nCoeffs dt t idIdx[r]
      idIdx'[r] (z r) (hid r) idx[b] o, map_mul]
  have h1 : starRingEnd ℂ (z r) * z r = 1 := by
    rw [mul_comm, Complex.mul_conj', hz r]; norm_num
  linear_combination (starRingEnd ℂ
    (controlMatrixFromScratch kind thr eigvals eigvecs props omega basis nOpers nCoeffs dt t)[idx[a]][idIdx[r]][o]
    * (controlMatrixFromScratch kind thr eigvals eigvecs props omega basis nOpers nCoeffs dt t)[idx[b]][idIdx[r]][o])
    * h1

/-- **Basis independence, traceless branch, complete bases.**  For two complete orthonormal
Hermitian bases each containing a multiple of the identity (`C_{k0} = c·1`, `C'_{k0'} = c'·1`; all
other elements are then traceless, so `basis.istraceless` holds, and
`_identity_element_index = [k0]` resp. `[k0']`; the identity element need NOT be the first one and
`c' = ±c`), the infidelities computed by the traceless branch coincide. -/
theorem infidelity_basis_independent_traceless (dim : Nat)
    (T : Ten4 ℂ N N N N) (T' : Ten4 ℂ N' N' N' N')
    (hC : Spec.IsComplete (Spec.basisOf basis)) (hH : Spec.IsOrthoHerm (Spec.basisOf basis))
    (hC' : Spec.IsComplete (Spec.basisOf basis')) (hH' : Spec.IsOrthoHerm (Spec.basisOf basis'))
    (k0 : Fin N) (k0' : Fin N') (c c' : ℂ)
    (h0 : Spec.basisOf basis k0 = c • (1 : Matrix (Fin d) (Fin d) ℂ))
    (h0' : Spec.basisOf basis' k0' = c' • (1 : Matrix (Fin d) (Fin d) ℂ)) :
    infidelityFromCM1 true dim omega
        (controlMatrixFromScratch kind thr eigvals eigvecs props omega basis' nOpers nCoeffs dt t)
        T' #v[k0'] idx S1
      = infidelityFromCM1 true dim omega
        (controlMatrixFromScratch kind thr eigvals eigvecs props omega basis nOpers nCoeffs dt t)
        T #v[k0] idx S1 ∧
    infidelityFromCM2 true dim omega
        (controlMatrixFromScratch kind thr eigvals eigvecs props omega basis' nOpers nCoeffs dt t)
        T' #v[k0'] idx S2
      = infidelityFromCM2 true dim omega
        (controlMatrixFromScratch kind thr eigvals eigvecs props omega basis nOpers nCoeffs dt t)
        T #v[k0] idx S2 ∧
    infidelityFromCM3 true dim omega
        (controlMatrixFromScratch kind thr eigvals eigvecs props omega basis' nOpers nCoeffs dt t)
        T' #v[k0'] idx S3
      = infidelityFromCM3 true dim omega
        (controlMatrixFromScratch kind thr eigvals eigvecs props omega basis nOpers nCoeffs dt t)
        T #v[k0] idx S3 := by
  obtain ⟨hO, hiso⟩ := Spec.basis_transition (Spec.basisOf basis) (Spec.basisOf basis') hC hH hC' hH'
  obtain ⟨hc, hn⟩ := Spec.identity_element_norm hH hH' k0 k0' c c' h0 h0'
  refine infidelity_basis_change_traceless kind thr eigvals eigvecs props omega basis basis' nOpers
    nCoeffs dt t idx S1 S2 S3 dim T T' _ hO hiso #v[k0] #v[k0'] (fun _ => c' / c) (fun _ => ?_)
    (fun r => ?_)
  · rw [norm_div, hn, div_self (norm_ne_zero_iff.mpr hc)]
  · have hr : r = 0 := Subsingleton.elim _ _
    subst hr
    show basis'[k0'].toMatrix = (c' / c) • basis[k0].toMatrix
    have h0a : basis[k0].toMatrix = c • (1 : Matrix (Fin d) (Fin d) ℂ) := h0
    have h0b : basis'[k0'].toMatrix = c' • (1 : Matrix (Fin d) (Fin d) ℂ) := h0'
    rw [h0a, h0b, smul_smul, div_mul_cancel₀ _ hc]

/-- **The two branches of `infidelity` agree** on a complete orthonormal Hermitian basis that
contains a multiple of the identity (`C_{k0} = c·1`): the traceless branch with
`_identity_element_index = [k0]` and the trace-tensor branch with the true trace tensor return the
same arrays, for EVERY control matrix `B`.  (Both equal `-tr K / d²`, `C08.infidelity_traceless_branch`
and `C08.infidelity_eq_neg_trace_cumulant`.)  Together with `infidelity_basis_independent` this
compares the traceless branch in one basis with the trace-tensor branch in any other complete
orthonormal Hermitian basis. -/
theorem infidelity_branches_agree {q : Nat} (C : Vector (Mat ℂ d d) N)
    (hC : Spec.IsComplete (Spec.basisOf C)) (hH : Spec.IsOrthoHerm (Spec.basisOf C))
    (k0 : Fin N) (c : ℂ) (h0 : Spec.basisOf C k0 = c • (1 : Matrix (Fin d) (Fin d) ℂ))
    (B : Ten3 ℂ nA N nO) (T : Ten4 ℂ N N N N) (idIdx : Vec (Fin N) q) :
    infidelityFromCM1 true d omega B T #v[k0] idx S1
      = infidelityFromCM1 false d omega B (fourElementTraces C) idIdx idx S1 ∧
    infidelityFromCM2 true d omega B T #v[k0] idx S2
      = infidelityFromCM2 false d omega B (fourElementTraces C) idIdx idx S2 ∧
    infidelityFromCM3 true d omega B T #v[k0] idx S3
      = infidelityFromCM3 false d omega B (fourElementTraces C) idIdx idx S3 := by
  have h2 : ∀ S2 : Mat ℂ m nO, infidelityFromCM2 true d omega B T #v[k0] idx S2
      = infidelityFromCM2 false d omega B (fourElementTraces C) idIdx idx S2 := by
    intro S2
    refine vec_ext_fin fun a => Complex.ofReal_injective ?_
    rw [(infidelity_traceless_branch C hC hH k0 c h0 omega B T idx (Vector.ofFn fun _ => S2) S2
        (fun _ _ => 0) a a).2,
      (infidelity_eq_neg_trace_cumulant C hC hH omega B idIdx idx (Vector.ofFn fun _ => S2) S2
        (fun _ _ => 0) a a).2]
  refine ⟨h2 _, h2 S2, mat_ext_fin fun a b => Complex.ofReal_injective ?_⟩
  rw [(infidelity_traceless_branch C hC hH k0 c h0 omega B T idx S3 (Vector.ofFn fun _ => S1)
      (fun _ _ => 0) a b).1,
    (infidelity_eq_neg_trace_cumulant C hC hH omega B idIdx idx S3 (Vector.ofFn fun _ => S1)
      (fun _ _ => 0) a b).1]

/-- the hypotheses of `infidelity_basis_independent`, `infidelity_basis_independent_traceless` and
`infidelity_branches_agree` are satisfiable by two DIFFERENT bases: the normalised Pauli basis
`(1, σx, σy, σz)/√2` and its re-ordering `(σx, 1, σy, σz)/√2` (identity element at position `0`
resp. `1`) are complete, orthonormal and Hermitian. -/
example : ∃ basis basis' : Vector (Mat ℂ 2 2) 4,
    Spec.IsComplete (Spec.basisOf basis) ∧ Spec.IsOrthoHerm (Spec.basisOf basis) ∧
    Spec.IsComplete (Spec.basisOf basis') ∧ Spec.IsOrthoHerm (Spec.basisOf basis') ∧
    Spec.basisOf basis 0 = Spec.invSqrt2 • (1 : Matrix (Fin 2) (Fin 2) ℂ) ∧
    Spec.basisOf basis' 1 = Spec.invSqrt2 • (1 : Matrix (Fin 2) (Fin 2) ℂ) := by
  refine ⟨Vector.ofFn fun i => Mat.ofFn (Spec.pauliBasis i),
    Vector.ofFn fun i => Mat.ofFn (Spec.pauliBasis (Equiv.swap 0 1 i)), ?_⟩
  have h : ∀ f : Fin 4 → Matrix (Fin 2) (Fin 2) ℂ,
      Spec.basisOf (Vector.ofFn fun i => Mat.ofFn (f i)) = f := by
    intro f
    funext i
    ext a b
    simp [Spec.basisOf, Mat.toMatrix, Mat.ofFn]
  rw [h, h fun i => Spec.pauliBasis (Equiv.swap 0 1 i)]
  have hid : Spec.pauliBasis 0 = Spec.invSqrt2 • (1 : Matrix (Fin 2) (Fin 2) ℂ) := by
    simp [Spec.pauliBasis, Spec.sigma, Matrix.one_fin_two]
  refine ⟨Spec.pauliBasis_complete, Spec.pauliBasis_orthoHerm,
    Spec.pauliBasis_complete.comp_equiv (Equiv.swap 0 1),
    Spec.pauliBasis_orthoHerm.comp_equiv (Equiv.swap 0 1), hid, ?_⟩
  show Spec.pauliBasis (Equiv.swap 0 1 1) = _
  rw [Equiv.swap_apply_right]
  exact hid

end Basis

/-! ### 4. Change of the time unit -/

section TimeUnit
open FFVerif.C13

variable {nG d nO nA nK m q : Nat} (thr : ℝ)
  (eigvals : Mat ℝ nG d) (eigvecs props : Vector (Mat ℂ d d) nG)
  (omega : Vec ℝ nO) (basis : Vector (Mat ℂ d d) nK) (nOpers : Vector (Mat ℂ d d) nA)
  (nCoeffs : Mat ℝ nA nG) (dt t : Vec ℝ nG)
  (istl : Bool) (dim : Nat) (T : Ten4 ℂ nK nK nK nK) (idIdx : Vec (Fin nK) q)
  (idx : Vec (Fin nA) m) (S1 : Vec ℂ nO) (S2 : Mat ℂ m nO) (S3 : Ten3 ℂ m m nO)

/-- **The infidelity does not depend on the time unit.**  Measure time in a unit `lam` times
smaller (`lam ≠ 0`, in particular `lam > 0`): durations and segment start times `× lam`; energies
(eigenvalues of the control Hamiltonian), the noise sensitivities `n_coeffs` and the frequencies
(BOTH the grid passed to the control matrix and the integration grid) `÷ lam`; eigenvectors,
propagators, basis, noise operators unchanged.  Then the infidelity is unchanged PROVIDED the
spectrum values are multiplied by `lam` (`S'(ω/lam) = lam·S(ω)`: a spectral density per unit
frequency of a dimensionless noise variable, the physical dimension being carried by `n_coeffs`).
Dimensionless guard `|x·dt| > thr` of `_first_order_integral` (the guard of the current source,
`C13.scale_current`), any threshold, both branches of the integral and of `infidelity`, all spectrum
shapes.  Bookkeeping: control matrix `× lam/lam = 1` (`C13.cm_scale` and linearity in `n_coeffs`),
trapezoid on the grid `ω/lam`: `× 1/lam`, spectrum `× lam`.
With the absolute guard `|x| > thr` the statement fails already for the control matrix
(`C13.absGt_not_scale_covariant`). -/
theorem infidelity_time_unit (lam : ℝ) (hl : lam ≠ 0) :
    infidelityFromCM1 istl dim (Vector.map (· / lam) omega)
        (controlMatrixFromScratch .absTimesDtGt thr (Vector.map (Vector.map (· / lam)) eigvals)
          eigvecs props (Vector.map (· / lam) omega) basis nOpers
          (Vector.map (Vector.map (· / lam)) nCoeffs) (Vector.map (lam * ·) dt)
          (Vector.map (lam * ·) t))
        T idIdx idx (Vector.map ((lam : ℂ) * ·) S1)
      = infidelityFromCM1 istl dim omega
        (controlMatrixFromScratch .absTimesDtGt thr eigvals eigvecs props omega basis nOpers nCoeffs
          dt t) T idIdx idx S1 ∧
    infidelityFromCM2 istl dim (Vector.map (· / lam) omega)
        (controlMatrixFromScratch .absTimesDtGt thr (Vector.map (Vector.map (· / lam)) eigvals)
          eigvecs props (Vector.map (· / lam) omega) basis nOpers
          (Vector.map (Vector.map (· / lam)) nCoeffs) (Vector.map (lam * ·) dt)
          (Vector.map (lam * ·) t))
        T idIdx idx (Vector.map (Vector.map ((lam : ℂ) * ·)) S2)
      = infidelityFromCM2 istl dim omega
        (controlMatrixFromScratch .absTimesDtGt thr eigvals eigvecs props omega basis nOpers nCoeffs
          dt t) T idIdx idx S2 ∧
    infidelityFromCM3 istl dim (Vector.map (· / lam) omega)
        (controlMatrixFromScratch .absTimesDtGt thr (Vector.map (Vector.map (· / lam)) eigvals)
          eigvecs props (Vector.map (· / lam) omega) basis nOpers
          (Vector.map (Vector.map (· / lam)) nCoeffs) (Vector.map (lam * ·) dt)
          (Vector.map (lam * ·) t))
        T idIdx idx (Vector.map (Vector.map (Vector.map ((lam : ℂ) * ·))) S3)
      = infidelityFromCM3 istl dim omega
        (controlMatrixFromScratch .absTimesDtGt thr eigvals eigvecs props omega basis nOpers nCoeffs
          dt t) T idIdx idx S3 := by
  have hB : ∀ (a : Fin nA) (k : Fin nK) (o : Fin nO),
      (controlMatrixFromScratch .absTimesDtGt thr (Vector.map (Vector.map (· / lam)) eigvals)
          eigvecs props (Vector.map (· / lam) omega) basis nOpers
          (Vector.map (Vector.map (· / lam)) nCoeffs) (Vector.map (lam * ·) dt)
          (Vector.map (lam * ·) t))[a][k][o]
        = ((1 : ℝ) : ℂ) * (controlMatrixFromScratch .absTimesDtGt thr eigvals eigvecs props omega basis
          nOpers nCoeffs dt t)[a][k][o] := by
    intro a k o
    rw [cm_scale thr eigvals eigvecs props omega basis nOpers _ dt t lam hl a k o,
      cm_coeffs_smul .absTimesDtGt thr eigvals eigvecs props omega basis nOpers nCoeffs _ dt t
        (1 / lam) a (fun g => by simp only [InvAux.vec_map_get]; ring) k o]
    have hlc : (lam : ℂ) ≠ 0 := by exact_mod_cast hl
    push_cast
    field_simp
  have hc : (1 : ℝ) ^ 2 * lam / lam = 1 := by field_simp
  have key := fun a b => infidelity_scaling_law istl dim omega _ _ T idIdx idx lam 1 lam hB
    S1 (Vector.map ((lam : ℂ) * ·) S1) S2 (Vector.map (Vector.map ((lam : ℂ) * ·)) S2)
    S3 (Vector.map (Vector.map (Vector.map ((lam : ℂ) * ·))) S3)
    (fun o => by simp only [InvAux.vec_map_get])
    (fun a o => by simp only [InvAux.vec_map_get])
    (fun a b o => by simp only [InvAux.vec_map_get]) a b
  simp only [hc, one_mul] at key
  exact ⟨vec_ext_fin fun a => (key a a).1, vec_ext_fin fun a => (key a a).2.1,
    mat_ext_fin fun a b => (key a b).2.2⟩

/-- **Change of the time unit with the sensitivities kept** (the convention of `C13.cm_scale` /
`C13.ff_scale`: `n_coeffs` unchanged, so that the noise variable itself carries the dimension of a
frequency): durations `× lam`, energies and frequencies `÷ lam`; the control matrix scales by
`lam`, the filter function by `lam²`, the trapezoid on the grid `ω/lam` by `1/lam`, hence the
infidelity is unchanged PROVIDED the spectrum values are DIVIDED by `lam`
(`S'(ω/lam) = S(ω)/lam`: the spectrum of a frequency-valued noise has the dimension of a
frequency). -/
theorem infidelity_time_unit_fixed_coeffs (lam : ℝ) (hl : lam ≠ 0) :
    infidelityFromCM1 istl dim (Vector.map (· / lam) omega)
        (controlMatrixFromScratch .absTimesDtGt thr (Vector.map (Vector.map (· / lam)) eigvals)
          eigvecs props (Vector.map (· / lam) omega) basis nOpers nCoeffs (Vector.map (lam * ·) dt)
          (Vector.map (lam * ·) t))
        T idIdx idx (Vector.map (((1 / lam : ℝ) : ℂ) * ·) S1)
      = infidelityFromCM1 istl dim omega
        (controlMatrixFromScratch .absTimesDtGt thr eigvals eigvecs props omega basis nOpers nCoeffs
          dt t) T idIdx idx S1 ∧
    infidelityFromCM2 istl dim (Vector.map (· / lam) omega)
        (controlMatrixFromScratch .absTimesDtGt thr (Vector.map (Vector.map (· / lam)) eigvals)
          eigvecs props (Vector.map (· / lam) omega) basis nOpers nCoeffs (Vector.map (lam * ·) dt)
          (Vector.map (lam * ·) t))
        T idIdx idx (Vector.map (Vector.map (((1 / lam : ℝ) : ℂ) * ·)) S2)
      = infidelityFromCM2 istl dim omega
        (controlMatrixFromScratch .absTimesDtGt thr eigvals eigvecs props omega basis nOpers nCoeffs
          dt t) T idIdx idx S2 ∧
    infidelityFromCM3 istl dim (Vector.map (· / lam) omega)
        (controlMatrixFromScratch .absTimesDtGt thr (Vector.map (Vector.map (· / lam)) eigvals)
          eigvecs props (Vector.map (· / lam) omega) basis nOpers nCoeffs (Vector.map (lam * ·) dt)
          (Vector.map (lam * ·) t))
        T idIdx idx (Vector.map (Vector.map (Vector.map (((1 / lam : ℝ) : ℂ) * ·))) S3)
      = infidelityFromCM3 istl dim omega
        (controlMatrixFromScratch .absTimesDtGt thr eigvals eigvecs props omega basis nOpers nCoeffs
          dt t) T idIdx idx S3 := by
  have hc : lam ^ 2 * (1 / lam) / lam = 1 := by field_simp
  have key := fun a b => infidelity_scaling_law istl dim omega _ _ T idIdx idx lam lam (1 / lam)
    (fun a k o => cm_scale thr eigvals eigvecs props omega basis nOpers nCoeffs dt t lam hl a k o)
    S1 (Vector.map (((1 / lam : ℝ) : ℂ) * ·) S1) S2 (Vector.map (Vector.map (((1 / lam : ℝ) : ℂ) * ·)) S2)
    S3 (Vector.map (Vector.map (Vector.map (((1 / lam : ℝ) : ℂ) * ·))) S3)
    (fun o => by simp only [InvAux.vec_map_get])
    (fun a o => by simp only [InvAux.vec_map_get])
    (fun a b o => by simp only [InvAux.vec_map_get]) a b
  simp only [hc, one_mul] at key
  exact ⟨vec_ext_fin fun a => (key a a).1, vec_ext_fin fun a => (key a a).2.1,
    mat_ext_fin fun a b => (key a b).2.2⟩

end TimeUnit

end FFVerif.C08
