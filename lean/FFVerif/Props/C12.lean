/-
C12 — independence of basis, reference frame and energy zero.  Property theorems about the model
`Model.controlMatrixFromScratch` / `Model.filterFunctionFid`.
-/
import Mathlib.Analysis.Complex.Exponential
import FFVerif.Lemmas.Inst
import FFVerif.Lemmas.Bridge
import FFVerif.Lemmas.MatBridge
import FFVerif.Lemmas.InvarianceAux
import FFVerif.Model.Numeric
import FFVerif.Props.C01
import FFVerif.Props.C01Seg

namespace FFVerif.C12
open FFVerif FFVerif.Model FFVerif.C01 FFVerif.InvAux Complex Matrix

/-! ### 8. Energy zero -/

/-- **Independence of the energy zero** (time-dependent offsets allowed): adding a real offset
`c g` to all eigenvalues of segment `g` and multiplying the cumulative propagator `props[g]` by a
scalar `u g` of modulus one (as results from `exp(-i c dt)` accumulated over the earlier segments —
but *any* unit-modulus numbers will do) leaves every entry of the control matrix unchanged; every
guard, both branches of the integral, all dimensions, segment counts, frequencies. -/
theorem cm_energy_offset {nG d nO nA nK : Nat} (kind : MaskKind) (thr : ℝ)
    (eigvals : Mat ℝ nG d) (eigvecs props : Vector (Mat ℂ d d) nG)
    (omega : Vec ℝ nO) (basis : Vector (Mat ℂ d d) nK) (nOpers : Vector (Mat ℂ d d) nA)
    (nCoeffs : Mat ℝ nA nG) (dt t : Vec ℝ nG) (c : Fin nG → ℝ) (u : Fin nG → ℂ)
    (hu : ∀ g, ‖u g‖ = 1) (a : Fin nA) (k : Fin nK) (o : Fin nO) :
    (controlMatrixFromScratch kind thr (Vector.ofFn fun g => Vector.map (· + c g) eigvals[g]) eigvecs
        (Vector.ofFn fun g => Mat.smul (u g) props[g]) omega basis nOpers nCoeffs dt t)[a][k][o]
      = (controlMatrixFromScratch kind thr eigvals eigvecs props omega basis nOpers nCoeffs dt t)[a][k][o] := by
  rw [cm_entry, cm_entry]
  refine Finset.sum_congr rfl fun g _ => Finset.sum_congr rfl fun m _ =>
    Finset.sum_congr rfl fun n _ => ?_
  simp only [InvAux.vec_ofFn_get, vec_map_get, Mat.toMatrix_smul, add_sub_add_right_eq_sub]
  rw [phase_sandwich _ (hu g)]

/-- … hence the fidelity filter function does not depend on the energy zero either. -/
theorem ff_energy_offset {nG d nO nA nK : Nat} (kind : MaskKind) (thr : ℝ)
    (eigvals : Mat ℝ nG d) (eigvecs props : Vector (Mat ℂ d d) nG)
    (omega : Vec ℝ nO) (basis : Vector (Mat ℂ d d) nK) (nOpers : Vector (Mat ℂ d d) nA)
    (nCoeffs : Mat ℝ nA nG) (dt t : Vec ℝ nG) (c : Fin nG → ℝ) (u : Fin nG → ℂ)
    (hu : ∀ g, ‖u g‖ = 1) (a b : Fin nA) (o : Fin nO) :
    (filterFunctionFid (controlMatrixFromScratch kind thr
        (Vector.ofFn fun g => Vector.map (· + c g) eigvals[g]) eigvecs
        (Vector.ofFn fun g => Mat.smul (u g) props[g]) omega basis nOpers nCoeffs dt t))[a][b][o]
      = (filterFunctionFid (controlMatrixFromScratch kind thr eigvals eigvecs props omega basis nOpers
          nCoeffs dt t))[a][b][o] := by
  rw [ff_fidelity_def, ff_fidelity_def]
  refine Finset.sum_congr rfl fun k _ => ?_
  rw [cm_energy_offset _ _ _ _ _ _ _ _ _ _ _ c u hu, cm_energy_offset _ _ _ _ _ _ _ _ _ _ _ c u hu]

/-- the phases that actually arise, `u = e^{-iφ}` with real `φ`, have modulus one -/
example (φ : ℝ) : ‖Complex.exp (-(Complex.I * (φ : ℂ)))‖ = 1 := by
  rw [← mul_neg, ← Complex.ofReal_neg, mul_comm, Complex.norm_exp_ofReal_mul_I]

/-! ### 9. Operator basis -/

/-- **Covariance under a change of operator basis**: if every new basis element is a linear
combination `C'_k = Σ_l O k l · C_l` of the old ones (any complex coefficients, any two lengths),
the rows of the control matrix transform with the same coefficients; every guard, both branches. -/
theorem cm_basis_change {nG d nO nA nK nK' : Nat} (kind : MaskKind) (thr : ℝ)
    (eigvals : Mat ℝ nG d) (eigvecs props : Vector (Mat ℂ d d) nG)
    (omega : Vec ℝ nO) (basis : Vector (Mat ℂ d d) nK) (basis' : Vector (Mat ℂ d d) nK')
    (nOpers : Vector (Mat ℂ d d) nA) (nCoeffs : Mat ℝ nA nG) (dt t : Vec ℝ nG)
    (O : Matrix (Fin nK') (Fin nK) ℂ)
    (hO : ∀ k : Fin nK', basis'[k].toMatrix = ∑ l : Fin nK, O k l • basis[l].toMatrix)
    (a : Fin nA) (k : Fin nK') (o : Fin nO) :
    (controlMatrixFromScratch kind thr eigvals eigvecs props omega basis' nOpers nCoeffs dt t)[a][k][o]
      = ∑ l : Fin nK, O k l *
          (controlMatrixFromScratch kind thr eigvals eigvecs props omega basis nOpers nCoeffs dt t)[a][l][o] := by
  simp only [cm_entry]
  simp only [Finset.mul_sum]
  conv_rhs => rw [Finset.sum_comm]
  refine Finset.sum_congr rfl fun g _ => ?_
  conv_rhs => rw [Finset.sum_comm]
  refine Finset.sum_congr rfl fun m _ => ?_
  conv_rhs => rw [Finset.sum_comm]
  refine Finset.sum_congr rfl fun n _ => ?_
  rw [hO k, sandwich_sum, Finset.mul_sum]
  refine Finset.sum_congr rfl fun l _ => ?_
  ring

/-- the mixed basis as data: `C'_k = Σ_l O k l · C_l`, entry by entry -/
def basisMix {d nK nK' : Nat} (O : Matrix (Fin nK') (Fin nK) ℂ) (basis : Vector (Mat ℂ d d) nK) :
    Vector (Mat ℂ d d) nK' :=
  Vector.ofFn fun k => Mat.ofFn fun i j => ∑ l : Fin nK, O k l * basis[l][i][j]

theorem basisMix_spec {d nK nK' : Nat} (O : Matrix (Fin nK') (Fin nK) ℂ)
    (basis : Vector (Mat ℂ d d) nK) (k : Fin nK') :
    (basisMix O basis)[k].toMatrix = ∑ l : Fin nK, O k l • basis[l].toMatrix := by
  unfold basisMix
  rw [InvAux.vec_ofFn_get, Mat.toMatrix_ofFn]
  ext i j
  simp [Matrix.sum_apply]

/-- **Basis independence of the fidelity filter function**: if the coefficient matrix `O` is an
isometry (`Oᴴ O = 1`; for the real coefficient matrices relating two Hermitian orthonormal bases
this is orthogonality `Oᵀ O = 1`), the fidelity filter function computed with the new basis equals
the one computed with the old basis. -/
theorem ff_basis_independent {nG d nO nA nK nK' : Nat} (kind : MaskKind) (thr : ℝ)
    (eigvals : Mat ℝ nG d) (eigvecs props : Vector (Mat ℂ d d) nG)
    (omega : Vec ℝ nO) (basis : Vector (Mat ℂ d d) nK) (basis' : Vector (Mat ℂ d d) nK')
    (nOpers : Vector (Mat ℂ d d) nA) (nCoeffs : Mat ℝ nA nG) (dt t : Vec ℝ nG)
    (O : Matrix (Fin nK') (Fin nK) ℂ)
    (hO : ∀ k : Fin nK', basis'[k].toMatrix = ∑ l : Fin nK, O k l • basis[l].toMatrix)
    (hiso : Oᴴ * O = 1) (a b : Fin nA) (o : Fin nO) :
    (filterFunctionFid (controlMatrixFromScratch kind thr eigvals eigvecs props omega basis' nOpers
        nCoeffs dt t))[a][b][o]
      = (filterFunctionFid (controlMatrixFromScratch kind thr eigvals eigvecs props omega basis nOpers
        nCoeffs dt t))[a][b][o] := by
  rw [ff_fidelity_def, ff_fidelity_def]
  simp only [cm_basis_change kind thr eigvals eigvecs props omega basis basis' nOpers nCoeffs dt t O hO]
  exact unitary_mix_sum O hiso _ _

/-- the hypotheses of `ff_basis_independent` are satisfiable: `basisMix_spec` provides `hO` for
every `O`, and e.g. the swap of two basis elements is an isometry -/
example : (!![0, 1; 1, 0] : Matrix (Fin 2) (Fin 2) ℂ)ᴴ * !![0, 1; 1, 0] = 1 := by
  ext i j
  fin_cases i <;> fin_cases j <;> simp [Matrix.mul_apply, Fin.sum_univ_two]

/-- **Basis independence, real orthogonal change of basis** (the case of two Hermitian
orthonormal bases of the same space): `C'_k = Σ_l O k l · C_l` with `O` real, `Oᵀ O = 1`. -/
theorem ff_basis_independent_real {nG d nO nA nK nK' : Nat} (kind : MaskKind) (thr : ℝ)
    (eigvals : Mat ℝ nG d) (eigvecs props : Vector (Mat ℂ d d) nG)
    (omega : Vec ℝ nO) (basis : Vector (Mat ℂ d d) nK) (basis' : Vector (Mat ℂ d d) nK')
    (nOpers : Vector (Mat ℂ d d) nA) (nCoeffs : Mat ℝ nA nG) (dt t : Vec ℝ nG)
    (O : Matrix (Fin nK') (Fin nK) ℝ)
    (hO : ∀ k : Fin nK', basis'[k].toMatrix = ∑ l : Fin nK, ((O k l : ℝ) : ℂ) • basis[l].toMatrix)
    (horth : Oᵀ * O = 1) (a b : Fin nA) (o : Fin nO) :
    (filterFunctionFid (controlMatrixFromScratch kind thr eigvals eigvecs props omega basis' nOpers
        nCoeffs dt t))[a][b][o]
      = (filterFunctionFid (controlMatrixFromScratch kind thr eigvals eigvecs props omega basis nOpers
        nCoeffs dt t))[a][b][o] := by
  refine ff_basis_independent kind thr eigvals eigvecs props omega basis basis' nOpers nCoeffs dt t
    (O.map Complex.ofReal) (fun k => by simpa using hO k) ?_ a b o
  ext i j
  have h := congrFun (congrFun horth i) j
  simp only [Matrix.mul_apply, Matrix.transpose_apply, Matrix.one_apply] at h
  simp only [Matrix.mul_apply, Matrix.conjTranspose_apply, Matrix.map_apply, RCLike.star_def,
    Complex.conj_ofReal, Matrix.one_apply]
  rw [← Complex.ofReal_one, ← Complex.ofReal_zero]
  split_ifs with hij
  · rw [if_pos hij] at h
    exact_mod_cast h
  · rw [if_neg hij] at h
    exact_mod_cast h

/-! ### 10. Reference frame -/

/-- **Frame covariance**: conjugating everything by one fixed isometry `W` (`W†W = 1`; in finite
dimension a unitary) — eigenvectors `V_g ↦ W V_g`, cumulative propagators `Q_g ↦ W Q_g W†`, noise
operators `B ↦ W B W†`, basis elements `C ↦ W C W†`, all formed with the model's own `Mat.mul` /
`Mat.adjoint` — leaves every entry of the control matrix unchanged. -/
theorem cm_frame_covariance {nG d nO nA nK : Nat} (kind : MaskKind) (thr : ℝ)
    (eigvals : Mat ℝ nG d) (eigvecs props : Vector (Mat ℂ d d) nG)
    (omega : Vec ℝ nO) (basis : Vector (Mat ℂ d d) nK) (nOpers : Vector (Mat ℂ d d) nA)
    (nCoeffs : Mat ℝ nA nG) (dt t : Vec ℝ nG) (W : Mat ℂ d d)
    (hW : (W.toMatrix)ᴴ * W.toMatrix = 1) (a : Fin nA) (k : Fin nK) (o : Fin nO) :
    (controlMatrixFromScratch kind thr eigvals
        (Vector.map (fun V => Mat.mul W V) eigvecs)
        (Vector.map (fun Q => Mat.mul (Mat.mul W Q) (Mat.adjoint W)) props) omega
        (Vector.map (fun C => Mat.mul (Mat.mul W C) (Mat.adjoint W)) basis)
        (Vector.map (fun B => Mat.mul (Mat.mul W B) (Mat.adjoint W)) nOpers) nCoeffs dt t)[a][k][o]
      = (controlMatrixFromScratch kind thr eigvals eigvecs props omega basis nOpers nCoeffs dt t)[a][k][o] := by
  rw [cm_entry, cm_entry]
  refine Finset.sum_congr rfl fun g _ => Finset.sum_congr rfl fun m _ =>
    Finset.sum_congr rfl fun n _ => ?_
  simp only [vec_map_get, Mat.toMatrix_mul, Mat.toMatrix_adjoint]
  rw [frame_sandwich_noise _ _ _ hW, frame_sandwich_basis _ _ _ _ hW]

/-- the hypothesis `W†W = 1` is satisfiable by model data (a non-diagonal example) -/
example : (Mat.toMatrix (#v[#v[0, 1], #v[1, 0]] : Mat ℂ 2 2))ᴴ
    * Mat.toMatrix (#v[#v[0, 1], #v[1, 0]] : Mat ℂ 2 2) = 1 := by
  ext i j
  fin_cases i <;> fin_cases j <;> simp [Matrix.mul_apply, Mat.toMatrix, Fin.sum_univ_two]

/-- … hence also the fidelity filter function is frame independent. -/
theorem ff_frame_independent {nG d nO nA nK : Nat} (kind : MaskKind) (thr : ℝ)
    (eigvals : Mat ℝ nG d) (eigvecs props : Vector (Mat ℂ d d) nG)
    (omega : Vec ℝ nO) (basis : Vector (Mat ℂ d d) nK) (nOpers : Vector (Mat ℂ d d) nA)
    (nCoeffs : Mat ℝ nA nG) (dt t : Vec ℝ nG) (W : Mat ℂ d d)
    (hW : (W.toMatrix)ᴴ * W.toMatrix = 1) (a b : Fin nA) (o : Fin nO) :
    (filterFunctionFid (controlMatrixFromScratch kind thr eigvals
        (Vector.map (fun V => Mat.mul W V) eigvecs)
        (Vector.map (fun Q => Mat.mul (Mat.mul W Q) (Mat.adjoint W)) props) omega
        (Vector.map (fun C => Mat.mul (Mat.mul W C) (Mat.adjoint W)) basis)
        (Vector.map (fun B => Mat.mul (Mat.mul W B) (Mat.adjoint W)) nOpers) nCoeffs dt t))[a][b][o]
      = (filterFunctionFid (controlMatrixFromScratch kind thr eigvals eigvecs props omega basis nOpers
          nCoeffs dt t))[a][b][o] := by
  rw [ff_fidelity_def, ff_fidelity_def]
  refine Finset.sum_congr rfl fun k _ => ?_
  rw [cm_frame_covariance _ _ _ _ _ _ _ _ _ _ _ W hW, cm_frame_covariance _ _ _ _ _ _ _ _ _ _ _ W hW]

end FFVerif.C12
