/-
C04 — periodic concatenation equals explicit repetition for every count and frequency.
-/
import Mathlib.Algebra.Ring.GeomSum
import Mathlib.LinearAlgebra.Matrix.NonsingularInverse
import Mathlib.Analysis.Complex.Basic
import FFVerif.Lemmas.MatBridge
import FFVerif.Model.Periodic
import FFVerif.Gen.Constants

namespace FFVerif.C04
open FFVerif FFVerif.Model Matrix Finset

variable {n : Nat}

/-- **Invertible branch.** Whatever tolerance the determinant test uses: if `det(1 - T) ≠ 0` and the
linear solve returns `X` with `(1 - T) X = 1 - T^G`, then `X` is the geometric series. -/
theorem geom_series_solve (T X : Matrix (Fin n) (Fin n) ℂ) (G : ℕ)
    (hdet : (1 - T).det ≠ 0) (hX : (1 - T) * X = 1 - T ^ G) :
    X = ∑ g ∈ range G, T ^ g := by
  have hgeo : (1 - T) * ∑ g ∈ range G, T ^ g = 1 - T ^ G := mul_neg_geom_sum T G
  have hunit : IsUnit (1 - T).det := isUnit_iff_ne_zero.mpr hdet
  haveI : Invertible (1 - T) := Matrix.invertibleOfIsUnitDet _ hunit
  exact Matrix.mul_right_injective_of_invertible (1 - T) (hX.trans hgeo.symm)

/-- **Fallback branch** (mathematical content): `1 + Σ_{j<G-1} T^{j+1} = Σ_{g<G} T^g` for `G ≥ 1`. -/
theorem fallback_sum (T : Matrix (Fin n) (Fin n) ℂ) (G : ℕ) (hG : 1 ≤ G) :
    1 + ∑ j ∈ range (G - 1), T ^ (j + 1) = ∑ g ∈ range G, T ^ g := by
  obtain ⟨k, rfl⟩ : ∃ k, G = k + 1 := ⟨G - 1, by omega⟩
  rw [Nat.add_sub_cancel, Finset.sum_range_succ' (fun g => T ^ g) k, pow_zero, add_comm]

/-- the periodic control matrix `B · Σ_g (e^{iωT} L)^g` is the sum over repetitions of
`e^{iωT g} · B · L^g` — exactly what `calculate_control_matrix_from_atomic` forms for `G` copies -/
theorem periodic_eq_repetition_sum {m : Nat} (B : Matrix (Fin m) (Fin n) ℂ)
    (L : Matrix (Fin n) (Fin n) ℂ) (ph : ℂ) (G : ℕ) :
    B * ∑ g ∈ range G, (ph • L) ^ g = ∑ g ∈ range G, ph ^ g • (B * L ^ g) := by
  rw [Matrix.mul_sum]
  refine Finset.sum_congr rfl fun g _ => ?_
  rw [smul_pow, Matrix.mul_smul]


/-! ### the executable model refines to these statements -/

theorem toMatrix_add {m k : Nat} (A B : Mat ℂ m k) :
    (Mat.add A B).toMatrix = A.toMatrix + B.toMatrix := by
  ext i j; simp [Mat.add, Mat.toMatrix]

theorem toMatrix_pow (T : Mat ℂ n n) (k : ℕ) : (Mat.pow T k).toMatrix = T.toMatrix ^ k := by
  induction k with
  | zero => simp [Mat.pow, Mat.toMatrix_one]
  | succ k ih => simp [Mat.pow, Mat.toMatrix_mul, ih, pow_succ]

theorem toMatrix_foldl_add (l : List (Mat ℂ n n)) (A : Mat ℂ n n) :
    (l.foldl Mat.add A).toMatrix = A.toMatrix + (l.map Mat.toMatrix).sum := by
  induction l generalizing A with
  | nil => simp
  | cons x xs ih => simp [ih, toMatrix_add, add_assoc]

theorem toMatrix_sumList (l : List (Mat ℂ n n)) :
    (Mat.sumList l).toMatrix = (l.map Mat.toMatrix).sum := by
  unfold Mat.sumList
  rw [toMatrix_foldl_add]
  have : (Mat.ofFn fun _ _ => (0:ℂ) : Mat ℂ n n).toMatrix = 0 := by
    ext i j; simp [Mat.toMatrix]
  rw [this, zero_add]

/-- the specification evaluator `geomSum` is `Σ_{g<G} T^g` -/
theorem geomSum_toMatrix (T : Mat ℂ n n) (G : ℕ) :
    (geomSum T G).toMatrix = ∑ g ∈ range G, T.toMatrix ^ g := by
  unfold geomSum
  rw [toMatrix_sumList, List.map_map]
  induction G with
  | zero => simp
  | succ G ih =>
    rw [List.range_succ, List.map_append, List.sum_append, ih, Finset.sum_range_succ]
    simp [toMatrix_pow]

/-- `itertools.accumulate(repeat(T, k), matmul)` yields `T, T², …, T^k` -/
theorem scanl_mul_replicate (T A : Mat ℂ n n) (k : ℕ) :
    (List.scanl Mat.mul A (List.replicate k T)).map Mat.toMatrix
      = (List.range (k + 1)).map fun j => A.toMatrix * T.toMatrix ^ j := by
  induction k generalizing A with
  | zero => simp
  | succ k ih =>
    rw [List.replicate_succ, List.scanl_cons, List.map_cons, ih (Mat.mul A T),
      List.range_succ_eq_map (n := k + 1), List.map_cons, List.map_map]
    congr 1
    · simp
    · apply List.map_congr_left
      intro j _
      simp [Mat.toMatrix_mul, pow_succ', mul_assoc]

theorem accumulate_replicate (T : Mat ℂ n n) (k : ℕ) :
    (accumulate Mat.mul (List.replicate k T)).map Mat.toMatrix
      = (List.range k).map fun j => T.toMatrix ^ (j + 1) := by
  cases k with
  | zero => simp [accumulate]
  | succ k =>
    rw [List.replicate_succ]
    simp only [accumulate]
    rw [scanl_mul_replicate]
    apply List.map_congr_left
    intro j _
    rw [pow_succ']

/-- **Fallback branch of the code** equals the geometric series for every `G ≥ 1`. -/
theorem periodicFallback_eq (T : Mat ℂ n n) (G : ℕ) (hG : 1 ≤ G) :
    (periodicFallback T G).toMatrix = ∑ g ∈ range G, T.toMatrix ^ g := by
  unfold periodicFallback
  rw [toMatrix_add, Mat.toMatrix_one, toMatrix_sumList, accumulate_replicate,
    ← fallback_sum T.toMatrix G hG]
  congr 1

/-- **Both branches of `calculate_control_matrix_periodic` give `Σ_{g<G} T^g`**, for every
frequency, every tolerance of the determinant test and every `G ≥ 1`: where the test flags
`1 - T` invertible (so `det ≠ 0`) and the linear solve meets its contract, and where it does
not (the explicit sum is evaluated). -/
theorem periodicS_eq_geomSum (inv : Bool) (X T : Mat ℂ n n) (G : ℕ) (hG : 1 ≤ G)
    (hsolve : inv = true → (1 - T.toMatrix).det ≠ 0 ∧
      (1 - T.toMatrix) * X.toMatrix = 1 - T.toMatrix ^ G) :
    (periodicS inv X T G).toMatrix = ∑ g ∈ range G, T.toMatrix ^ g := by
  unfold periodicS
  cases inv with
  | true =>
    obtain ⟨hd, hx⟩ := hsolve rfl
    simpa using geom_series_solve T.toMatrix X.toMatrix G hd hx
  | false => simpa using periodicFallback_eq T G hG

/-- non-vacuity: `G = 1`, `T = 1` (identity propagator at ω = 0: `1 - T` singular) takes the
fallback branch and gives the single term `1`. -/
example : (periodicS false (Mat.one : Mat ℂ 2 2) Mat.one 1).toMatrix = 1 := by
  rw [periodicS_eq_geomSum false _ _ 1 (le_refl 1) (by simp)]
  simp

end FFVerif.C04
